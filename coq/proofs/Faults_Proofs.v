(* Faults_Proofs.v - property C19: the doc-value reader and the postings
   iterator under per-read storage failures (theories/Faults.v). *)
From Coq Require Import List Arith NArith Bool Lia Sorting.Sorted ZifyBool ZifyN ZifyNat.
From Ice Require Import Base Varint Chunk Spec DocValues Postings Faults.
From IceProofs Require Import Sort_Proofs DocValues_Proofs Iterator_Proofs.
Import ListNotations.
Open Scope N_scope.

(* ================================================================== *)
(* (B) the postings iterator                                           *)
(* ================================================================== *)

Definition is_crash {A} (r : result A) : Prop :=
  match r with Ok _ | Err => False | _ => True end.
Definition faulty (ok : oracle) : Prop := exists k, ok k = false.

Lemma no_faults_not_faulty : ~ faulty no_faults.
Proof. intros [k H]. discriminate. Qed.

(* the outcome under faults [f] is consistent with the fault-free outcome [r]:
   an Ok is the fault-free Ok (same state, same value), a panic is a fault-free
   crash, and an error is a fault-free error unless some read can fail *)
Definition simg {R A} (proj : ItF -> A -> R) (ok : oracle) (r : result R) (f : fres ItF A) : Prop :=
  match f with
  | FOk s' v => r = Ok (proj s' v)
  | FErr _ => r = Err \/ faulty ok
  | FPanic => is_crash r
  end.
Notation sim := (simg (fun s v => (if_it s, v))).
Notation sim0 := (simg (fun s (_ : unit) => if_it s)).

Lemma simg_bind {R A R2 B} (p : ItF -> A -> R) (q : ItF -> B -> R2) ok
      (r : result R) (f : fres ItF A) (g : R -> result R2) (h : ItF -> A -> fres ItF B) :
  simg p ok r f -> (forall s v, simg q ok (g (p s v)) (h s v)) ->
  simg q ok (rbind r g) (fbind f h).
Proof.
  intros H1 H2. destruct f as [s v | s |]; cbn [simg fbind] in *.
  - subst r. cbn [rbind]. apply H2.
  - destruct H1 as [-> | H1]; [left; reflexivity | right; exact H1].
  - destruct r; cbn in *; try contradiction; exact I.
Qed.

Lemma simg_lift {A} ok (s : ItF) (r : result (It * A)) :
  sim ok r (lift_it s r).
Proof.
  destruct r as [[i v] | | | |]; cbn; try exact I; [reflexivity | left; reflexivity].
Qed.
Lemma simg_lift0 ok (s : ItF) (r : result It) :
  sim0 ok r (lift_it0 s r).
Proof.
  destruct r as [i | | | |]; cbn; try exact I; [reflexivity | left; reflexivity].
Qed.

Lemma decf_load_sim ok d c k :
  match decf_load ok d c k with
  | LOk d' _ => dec_load d c = Ok d'
  | LErr _ => dec_load d c = Err \/ faulty ok
  end.
Proof.
  unfold decf_load, dec_load. destruct (d_chunks d) as [cks |]; [| reflexivity].
  destruct (nthN cks (N.to_nat c)) as [b |]; [| left; reflexivity].
  destruct (ok k) eqn:E; [reflexivity |]. right. exists k. exact E.
Qed.

Lemma it_loadChunk_eq i c :
  it_loadChunk i c
  = do fr <- (if it_fn i then dec_load (it_fr i) c else Ok (it_fr i));
    do lr <- (if it_locs i then dec_load (it_lr i) c else Ok (it_lr i));
    Ok (set_loaded i c fr lr).
Proof. reflexivity. Qed.

Lemma loadChunk_sim fixed ok s c :
  sim0 ok (it_loadChunk (if_it s) c) (itf_loadChunk_gen fixed ok s c).
Proof.
  rewrite it_loadChunk_eq. unfold itf_loadChunk_gen.
  set (i := if_it s).
  assert (H1 : match (if it_fn i then decf_load ok (it_fr i) c (if_k s) else LOk (it_fr i) (if_k s)) with
               | LOk d' _ => (if it_fn i then dec_load (it_fr i) c else Ok (it_fr i)) = Ok d'
               | LErr _ => (if it_fn i then dec_load (it_fr i) c else Ok (it_fr i)) = Err \/ faulty ok
               end).
  { destruct (it_fn i); [apply decf_load_sim | reflexivity]. }
  destruct (if it_fn i then decf_load ok (it_fr i) c (if_k s) else LOk (it_fr i) (if_k s)) as [fr k1 | k1].
  2:{ cbn [simg]. destruct H1 as [-> | H1]; [left; reflexivity | right; exact H1]. }
  rewrite H1. cbn [rbind].
  assert (H2 : match (if it_locs i then decf_load ok (it_lr i) c k1 else LOk (it_lr i) k1) with
               | LOk d' _ => (if it_locs i then dec_load (it_lr i) c else Ok (it_lr i)) = Ok d'
               | LErr _ => (if it_locs i then dec_load (it_lr i) c else Ok (it_lr i)) = Err \/ faulty ok
               end).
  { destruct (it_locs i); [apply decf_load_sim | reflexivity]. }
  destruct (if it_locs i then decf_load ok (it_lr i) c k1 else LOk (it_lr i) k1) as [lr k2 | k2].
  - rewrite H2. cbn [rbind simg if_it]. reflexivity.
  - cbn [simg]. destruct H2 as [-> | H2]; [left; reflexivity | right; exact H2].
Qed.

Lemma load_if_sim fixed ok (cond : bool) s c :
  sim0 ok (if cond then it_loadChunk (if_it s) c else Ok (if_it s)) (itf_load_if fixed ok cond s c).
Proof.
  unfold itf_load_if. destruct cond; [apply loadChunk_sim | reflexivity].
Qed.

Lemma ccn_eq i c :
  currChunkNext i c
  = do i1 <- (if need_load i c then it_loadChunk i c else Ok i); it_ccn_tail i1.
Proof. reflexivity. Qed.

Lemma ccn_sim fixed ok s c : sim0 ok (currChunkNext (if_it s) c) (itf_ccn fixed ok s c).
Proof.
  rewrite ccn_eq. unfold itf_ccn.
  eapply simg_bind; [apply load_if_sim |].
  intros s1 v. apply simg_lift0.
Qed.

Lemma repeat_ccn_sim fixed ok c : forall k s,
  sim0 ok (repeat_ccn k (if_it s) c) (itf_repeat_ccn fixed ok k s c).
Proof.
  induction k as [| k IH]; intros s; cbn [repeat_ccn itf_repeat_ccn].
  - reflexivity.
  - eapply simg_bind; [apply ccn_sim |]. intros s1 v. apply IH.
Qed.

Lemma sync_all_sim fixed ok n c reach : forall all s,
  sim ok (sync_all (if_it s) n c reach all) (itf_sync_all fixed ok s n c reach all).
Proof.
  induction all as [| a all IH]; intros s; cbn [sync_all itf_sync_all].
  - exact I.
  - destruct (a =? n); [reflexivity |].
    eapply (simg_bind (fun s (_ : unit) => if_it s)).
    + destruct (it_fn (if_it s) && (reach <=? a)); [apply ccn_sim | reflexivity].
    + intros s1 v. apply IH.
Qed.

Lemma naa_eq i d :
  next_at_or_after i d
  = do (i1, o) <- next_docnum i d;
    match o with None => Ok (i1, None) | Some n => it_finish i1 n end.
Proof. reflexivity. Qed.

Lemma next_docnum_sim fixed ok s d :
  sim ok (next_docnum (if_it s) d) (itf_next_docnum fixed ok s d).
Proof.
  unfold next_docnum, itf_next_docnum. set (i := if_it s).
  destruct (negb (it_norm1 i =? 0)).
  { destruct (it_doc1 i =? docNum1HitFinished); [reflexivity |].
    destruct (it_doc1 i <? d); reflexivity. }
  destruct (it_actual i) as [| n0 rest0] eqn:Ea; [reflexivity |].
  destruct (it_cs i =? 0); [exact I |].
  destruct (it_clean i).
  - destruct (negb (it_fn i)).
    + destruct (drop_lt (wrap32 d) (n0 :: rest0)); reflexivity.
    + destruct (clean_scan (it_cs i) d n0 (n0 / it_cs i) 0 rest0) as [[[n nChunk] same] rest].
      destruct (n <? d); [reflexivity |].
      eapply (simg_bind (fun s (_ : unit) => if_it s)).
      * apply (repeat_ccn_sim fixed ok nChunk same (with_it s (set_cursors i rest rest))).
      * intros s2 v2.
        eapply (simg_bind (fun s (_ : unit) => if_it s)); [apply load_if_sim |].
        intros s3 v3. reflexivity.
  - destruct (drop_lt (wrap32 d) (n0 :: rest0)) as [| n rest]; [reflexivity |].
    eapply (simg_bind (fun s v => (if_it s, v))); [apply sync_all_sim |].
    intros s1 all'. cbv beta iota.
    eapply (simg_bind (fun s (_ : unit) => if_it s)).
    + apply (load_if_sim fixed ok _ (with_it s1 (set_cursors (if_it s1) all' rest))).
    + intros s3 v3. reflexivity.
Qed.

Lemma naa_sim fixed ok s d : sim ok (next_at_or_after (if_it s) d) (itf_naa fixed ok s d).
Proof.
  rewrite naa_eq. unfold itf_naa.
  eapply (simg_bind (fun s v => (if_it s, v))); [apply next_docnum_sim |].
  intros s1 [n |]; [apply simg_lift | reflexivity].
Qed.

(* ---- (B1) ---- *)

(* For ANY oracle: an Ok under faults is the fault-free Ok (state and value). *)
Theorem itf_ok_is_fault_free fixed ok s d s' o :
  itf_naa fixed ok s d = FOk s' o -> next_at_or_after (if_it s) d = Ok (if_it s', o).
Proof. intros H. pose proof (naa_sim fixed ok s d) as S. rewrite H in S. exact S. Qed.

(* For ANY oracle: a panic under faults is a fault-free crash. *)
Theorem itf_panic_is_fault_free fixed ok s d :
  itf_naa fixed ok s d = FPanic -> is_crash (next_at_or_after (if_it s) d).
Proof. intros H. pose proof (naa_sim fixed ok s d) as S. rewrite H in S. exact S. Qed.

(* Without faults the iterator under faults is the fault-free iterator. *)
Theorem itf_no_fault fixed s d :
  match next_at_or_after (if_it s) d with
  | Ok (i', o) => exists k', itf_naa fixed no_faults s d = FOk (mkItF i' k') o
  | Err => exists s', itf_naa fixed no_faults s d = FErr s'
  | _ => itf_naa fixed no_faults s d = FPanic
  end.
Proof.
  pose proof (naa_sim fixed no_faults s d) as S.
  destruct (itf_naa fixed no_faults s d) as [s' v | s' |]; cbn [simg] in S.
  - rewrite S. exists (if_k s'). destruct s'; reflexivity.
  - destruct S as [-> | S]; [exists s'; reflexivity | destruct (no_faults_not_faulty S)].
  - destruct (next_at_or_after (if_it s) d); cbn in S; try contradiction; reflexivity.
Qed.

Theorem itf_run_no_fault fixed : forall ops s outs,
  it_run (if_it s) ops = Ok outs -> itf_run_gen fixed no_faults s ops = map OOk outs.
Proof.
  induction ops as [| op ops IH]; intros s outs H.
  - cbn in H. injection H as <-. reflexivity.
  - cbn [it_run] in H. rewrite it_step_d_of in H.
    cbn [itf_run_gen]. replace (itf_step fixed no_faults s op) with (itf_naa fixed no_faults s (d_of op))
      by (destruct op; reflexivity).
    pose proof (itf_no_fault fixed s (d_of op)) as N.
    destruct (next_at_or_after (if_it s) (d_of op)) as [[i' o] | | | |]; cbn [rbind] in H; try discriminate.
    destruct N as [k' ->].
    destruct (it_run i' ops) as [os | | | |] eqn:E; cbn [rbind] in H; try discriminate.
    injection H as <-. cbn [map]. f_equal. apply (IH (mkItF i' k') os). exact E.
Qed.

(* ---- (B2) after a failed load the next call reloads ---- *)

(* The repaired loadChunk: whatever read failed, the chunk still counts as not
   loaded (currChunk differs or the freq/norm reader is nil), the cursors, the
   current chunk number and the location reader are untouched. *)
Theorem itf_retry_safe ok s c s1 :
  itf_loadChunk ok s c = FErr s1 ->
  it_fn (if_it s) = true -> need_load (if_it s) c = true ->
  need_load (if_it s1) c = true /\
  it_cur (if_it s1) = it_cur (if_it s) /\ it_actual (if_it s1) = it_actual (if_it s) /\
  it_all (if_it s1) = it_all (if_it s) /\ it_lr (if_it s1) = it_lr (if_it s).
Proof.
  unfold itf_loadChunk, itf_loadChunk_gen. intros H Hfn Hnl. rewrite Hfn in H.
  destruct (decf_load ok (it_fr (if_it s)) c (if_k s)) as [fr k1 | k1].
  - destruct (if it_locs (if_it s) then decf_load ok (it_lr (if_it s)) c k1 else LOk (it_lr (if_it s)) k1)
      as [lr k2 | k2]; [discriminate |].
    injection H as <-. cbn [andb if_it]. unfold need_load. cbn. rewrite orb_true_r. repeat split.
  - injection H as <-. cbn [if_it]. repeat split. exact Hnl.
Qed.

(* if it is the location load that failed, the freq/norm reader is nil, whatever
   the state before: every chunk counts as not loaded *)
Theorem itf_loc_failure_forgets ok s c fr k1 k2 :
  it_fn (if_it s) = true -> it_locs (if_it s) = true ->
  decf_load ok (it_fr (if_it s)) c (if_k s) = LOk fr k1 ->
  decf_load ok (it_lr (if_it s)) c k1 = LErr k2 ->
  exists s1, itf_loadChunk ok s c = FErr s1 /\ forall c', need_load (if_it s1) c' = true.
Proof.
  intros Hfn Hl H1 H2. unfold itf_loadChunk, itf_loadChunk_gen. rewrite Hfn, Hl, H1, H2.
  eexists. split; [reflexivity |]. intros c'. unfold need_load. cbn. apply orb_true_r.
Qed.

(* ---- the clean path, Next() ---- *)
Definition adv (i : It) (rest : list N) : It := set_cursors i rest rest.

(* what the clean path relies on *)
Definition Wf (i : It) : Prop :=
  it_norm1 i = 0 /\ it_clean i = true /\ it_fn i = true /\ it_cs i <> 0 /\
  StronglySorted N.lt (it_actual i) /\
  Forall (fun m => it_cur i <= m / it_cs i) (it_actual i) /\
  d_chunks (it_fr i) <> None.
(* every remaining document needs a (re)load *)
Definition Ff (i : It) : Prop :=
  Forall (fun m => need_load i (m / it_cs i) = true) (it_actual i).

Lemma clean_scan_0 cs n0 c rest0 : clean_scan cs 0 n0 c 0 rest0 = (n0, c, O, rest0).
Proof. destruct rest0; cbn [clean_scan]; [reflexivity |]. destruct n0; reflexivity. Qed.

Lemma itf_naa_clean fixed ok s n0 rest0 :
  it_norm1 (if_it s) = 0 -> it_clean (if_it s) = true -> it_fn (if_it s) = true ->
  it_cs (if_it s) <> 0 -> it_actual (if_it s) = n0 :: rest0 ->
  itf_naa fixed ok s 0
  = fbind (itf_load_if fixed ok (need_load (if_it s) (n0 / it_cs (if_it s)))
                       (with_it s (adv (if_it s) rest0)) (n0 / it_cs (if_it s)))
          (fun s3 _ => lift_it s3 (it_finish (if_it s3) n0)).
Proof.
  intros Hn Hc Hf Hcs Ha. unfold itf_naa, itf_next_docnum.
  rewrite Hn, Ha, Hc, Hf. cbn [N.eqb negb].
  destruct (N.eqb_spec (it_cs (if_it s)) 0) as [E | _]; [contradiction |].
  rewrite clean_scan_0.
  replace (n0 <? 0) with false by (destruct n0; reflexivity).
  cbn [itf_repeat_ccn fbind].
  change (need_load (if_it (with_it s (set_cursors (if_it s) rest0 rest0))) (n0 / it_cs (if_it s)))
    with (need_load (if_it s) (n0 / it_cs (if_it s))).
  fold (adv (if_it s) rest0).
  destruct (itf_load_if fixed ok (need_load (if_it s) (n0 / it_cs (if_it s)))
                        (with_it s (adv (if_it s) rest0)) (n0 / it_cs (if_it s))); reflexivity.
Qed.

Lemma naa_clean i n0 rest0 :
  it_norm1 i = 0 -> it_clean i = true -> it_fn i = true ->
  it_cs i <> 0 -> it_actual i = n0 :: rest0 ->
  next_at_or_after i 0
  = do i3 <- (if need_load i (n0 / it_cs i) then it_loadChunk (adv i rest0) (n0 / it_cs i)
              else Ok (adv i rest0));
    it_finish i3 n0.
Proof.
  intros Hn Hc Hf Hcs Ha. rewrite naa_eq. unfold next_docnum.
  rewrite Hn, Ha, Hc, Hf. cbn [N.eqb negb].
  destruct (N.eqb_spec (it_cs i) 0) as [E | _]; [contradiction |].
  rewrite clean_scan_0.
  replace (n0 <? 0) with false by (destruct n0; reflexivity).
  cbn [repeat_ccn rbind].
  change (need_load (set_cursors i rest0 rest0) (n0 / it_cs i)) with (need_load i (n0 / it_cs i)).
  fold (adv i rest0).
  destruct (need_load i (n0 / it_cs i)).
  - destruct (it_loadChunk (adv i rest0) (n0 / it_cs i)); reflexivity.
  - reflexivity.
Qed.

(* ---- decoding steps keep everything but the two readers' positions ---- *)
Lemma read_uv_keeps d v d' : read_uv d = Ok (v, d') -> d_chunks d' = d_chunks d /\ d_cur d' = d_cur d.
Proof.
  unfold read_uv. destruct (read_uvarint (d_r d)) as [[[x |] rest] |]; intros H; try discriminate.
  injection H as <- <-. split; reflexivity.
Qed.

Lemma read_locs_keeps fields startLen nb : forall fuel lr ls lr',
  read_locs fuel fields lr startLen nb = Ok (ls, lr') -> d_chunks lr' = d_chunks lr /\ d_cur lr' = d_cur lr.
Proof.
  induction fuel as [| f IH]; intros lr ls lr' H; cbn [read_locs] in H.
  - destruct (startLen - dec_len lr <? nb); [discriminate |]. injection H as <- <-. split; reflexivity.
  - destruct (startLen - dec_len lr <? nb); [| injection H as <- <-; split; reflexivity].
    destruct (read_uv lr) as [[v1 l1] | | | |] eqn:E1; cbn [rbind] in H; try discriminate.
    destruct (read_uv l1) as [[v2 l2] | | | |] eqn:E2; cbn [rbind] in H; try discriminate.
    destruct (read_uv l2) as [[v3 l3] | | | |] eqn:E3; cbn [rbind] in H; try discriminate.
    destruct (read_uv l3) as [[v4 l4] | | | |] eqn:E4; cbn [rbind] in H; try discriminate.
    destruct (nthN fields (N.to_nat v1)); [| discriminate].
    destruct (read_locs f fields l4 startLen nb) as [[ls5 l5] | | | |] eqn:E5; cbn [rbind] in H; try discriminate.
    injection H as <- <-.
    apply read_uv_keeps in E1, E2, E3, E4. apply IH in E5.
    destruct E1, E2, E3, E4, E5. split; congruence.
Qed.

(* two iterator states that differ at most in the readers' positions *)
Definition frame_eq (i i' : It) : Prop :=
  it_norm1 i' = it_norm1 i /\ it_doc1 i' = it_doc1 i /\ it_all i' = it_all i /\
  it_actual i' = it_actual i /\ it_clean i' = it_clean i /\ it_cs i' = it_cs i /\
  it_cur i' = it_cur i /\ it_fn i' = it_fn i /\ it_locs i' = it_locs i /\
  it_fields i' = it_fields i /\
  d_chunks (it_fr i') = d_chunks (it_fr i) /\ d_cur (it_fr i') = d_cur (it_fr i) /\
  d_chunks (it_lr i') = d_chunks (it_lr i) /\ d_cur (it_lr i') = d_cur (it_lr i) /\
  (it_locs i = false -> it_lr i' = it_lr i).

Lemma finish_keeps i n i' o : it_finish i n = Ok (i', o) -> frame_eq i i'.
Proof.
  unfold it_finish, frame_eq. intros H.
  destruct (negb (it_fn i)); [injection H as <- <-; repeat split |].
  destruct (negb (it_norm1 i =? 0)); [injection H as <- <-; repeat split |].
  destruct (read_uv (it_fr i)) as [[fhl fr1] | | | |] eqn:E1; cbn [rbind] in H; try discriminate.
  destruct (read_uv fr1) as [[nb fr2] | | | |] eqn:E2; cbn [rbind] in H; try discriminate.
  apply read_uv_keeps in E1, E2. destruct E1 as [A1 B1], E2 as [A2 B2].
  cbn [it_locs set_fr it_lr it_fields] in H.
  destruct (it_locs i && N.odd fhl) eqn:EL.
  - destruct (read_uv (it_lr i)) as [[nlb lr1] | | | |] eqn:E3; cbn [rbind] in H; try discriminate.
    destruct (read_locs (N.to_nat (N.shiftr fhl 1)) (it_fields i) lr1 (dec_len lr1) nlb)
      as [[ls lr2] | | | |] eqn:E4; cbn [rbind] in H; try discriminate.
    injection H as <- <-.
    apply read_uv_keeps in E3. apply read_locs_keeps in E4. destruct E3 as [A3 B3], E4 as [A4 B4].
    cbn. repeat split; try congruence.
    intros HL. rewrite HL in EL. discriminate.
  - injection H as <- <-. cbn. repeat split; congruence.
Qed.

Lemma decf_load_ok_chunks ok d c k d' k' :
  decf_load ok d c k = LOk d' k' -> d_chunks d' = d_chunks d /\ (d_chunks d = None -> d_cur d' = d_cur d).
Proof.
  unfold decf_load. destruct (d_chunks d) as [cks |] eqn:E.
  - destruct (nthN cks (N.to_nat c)); [| discriminate]. destruct (ok k); [| discriminate].
    intros H. injection H as <- <-. split; [reflexivity | discriminate].
  - intros H. injection H as <- <-. split; reflexivity.
Qed.

Lemma div_mono_lt cs a b : cs <> 0 -> a < b -> a / cs <= b / cs.
Proof. intros Hc H. apply N.div_le_mono; [exact Hc | lia]. Qed.

Lemma Wf_adv i n0 rest0 : Wf i -> it_actual i = n0 :: rest0 -> Wf (adv i rest0).
Proof.
  intros (Hn & Hc & Hf & Hcs & Hs & Hcur & He) Ha. unfold Wf, adv. cbn.
  rewrite Ha in Hs, Hcur. inversion Hs; subst. inversion Hcur; subst.
  repeat split; assumption.
Qed.

(* the state a failed load leaves behind, in the clean path: every remaining
   document will be reloaded *)
Lemma first_fail ok s n0 rest0 s1 :
  Wf (if_it s) -> it_actual (if_it s) = n0 :: rest0 ->
  need_load (if_it s) (n0 / it_cs (if_it s)) = true ->
  itf_loadChunk ok (with_it s (adv (if_it s) rest0)) (n0 / it_cs (if_it s)) = FErr s1 ->
  Wf (if_it s1) /\ Ff (if_it s1) /\ it_actual (if_it s1) = rest0 /\ (if_k s <= if_k s1)%nat.
Proof.
  intros HW Ha Hnl H. pose proof (Wf_adv _ _ _ HW Ha) as HW'.
  destruct HW as (Hn & Hc & Hf & Hcs & Hs & Hcur & He).
  set (i := if_it s) in *. set (c := n0 / it_cs i) in *.
  unfold itf_loadChunk, itf_loadChunk_gen in H. cbn [if_it with_it if_k] in H.
  change (it_fn (adv i rest0)) with (it_fn i) in H. rewrite Hf in H.
  change (it_fr (adv i rest0)) with (it_fr i) in H.
  rewrite Ha in Hs, Hcur. inversion Hs as [| ? ? Hs' Hlt]; subst. inversion Hcur as [| ? ? Hc0 Hcur']; subst.
  destruct (decf_load ok (it_fr i) c (if_k s)) as [fr k1 | k1] eqn:E1.
  - destruct (if it_locs (adv i rest0) then decf_load ok (it_lr (adv i rest0)) c k1
              else LOk (it_lr (adv i rest0)) k1) as [lr k2 | k2] eqn:E2; [discriminate |].
    injection H as <-. cbn [andb if_it if_k].
    assert (Hk : (if_k s <= k2)%nat).
    { assert (if_k s <= k1)%nat.
      { unfold decf_load in E1. destruct (d_chunks (it_fr i)); [| injection E1 as _ <-; lia].
        destruct (nthN l (N.to_nat c)); [| discriminate].
        destruct (ok (if_k s)); [injection E1 as _ <-; lia | discriminate]. }
      destruct (it_locs (adv i rest0)); [| discriminate].
      unfold decf_load in E2. destruct (d_chunks (it_lr (adv i rest0))); [| discriminate].
      destruct (nthN l (N.to_nat c)); [| injection E2 as <-; lia].
      destruct (ok k1); [discriminate | injection E2 as <-; lia]. }
    apply decf_load_ok_chunks in E1. destruct E1 as [E1 _].
    split; [| split; [| split; [reflexivity | exact Hk]]].
    + unfold Wf. cbn. repeat split; try assumption. rewrite E1. exact He.
    + unfold Ff. cbn. apply Forall_forall. intros m _. unfold need_load. cbn. apply orb_true_r.
  - injection H as <-. cbn [if_it if_k].
    split; [exact HW' |]. split; [| split; [reflexivity |]].
    + unfold Ff, adv. cbn. apply Forall_forall. intros m Hm.
      change (need_load i (m / it_cs i) = true).
      rewrite Forall_forall in Hlt. specialize (Hlt m Hm).
      pose proof (div_mono_lt (it_cs i) n0 m Hcs Hlt) as Hd. fold c in Hd.
      destruct (N.eq_dec (m / it_cs i) c) as [-> | Hne]; [exact Hnl |].
      unfold need_load. destruct (N.eqb_spec (it_cur i) (m / it_cs i)) as [E | _]; [| reflexivity].
      exfalso. cbn beta in Hc0. fold c in Hc0. lia.
    + unfold decf_load in E1. destruct (d_chunks (it_fr i)); [| discriminate].
      destruct (nthN l (N.to_nat c)); [| injection E1 as <-; lia].
      destruct (ok (if_k s)); [discriminate | injection E1 as <-; lia].
Qed.

(* once the storage is dead every Next() reports an error (or the end of the
   list): no panic, no posting *)
Lemma dead_step ok s :
  Wf (if_it s) -> Ff (if_it s) -> (forall k, (if_k s <= k)%nat -> ok k = false) ->
  (it_actual (if_it s) = [] /\ itf_next ok s = FOk s None) \/
  (exists s', itf_next ok s = FErr s' /\ Wf (if_it s') /\ Ff (if_it s') /\ (if_k s <= if_k s')%nat).
Proof.
  intros HW HF Hdead. pose proof HW as (Hn & Hc & Hf & Hcs & Hs & Hcur & He).
  destruct (it_actual (if_it s)) as [| n0 rest0] eqn:Ha.
  - left. split; [reflexivity |]. unfold itf_next, itf_naa, itf_next_docnum. rewrite Hn, Ha. reflexivity.
  - right. unfold itf_next. rewrite (itf_naa_clean true ok s n0 rest0 Hn Hc Hf Hcs Ha).
    unfold Ff in HF. rewrite Ha in HF. inversion HF as [| ? ? Hnl HF']; subst.
    rewrite Hnl. unfold itf_load_if.
    destruct (itf_loadChunk_gen true ok (with_it s (adv (if_it s) rest0)) (n0 / it_cs (if_it s)))
      as [s3 v | s1 |] eqn:EL.
    + exfalso. unfold itf_loadChunk_gen in EL. cbn [if_it with_it if_k] in EL.
      change (it_fn (adv (if_it s) rest0)) with (it_fn (if_it s)) in EL. rewrite Hf in EL.
      change (it_fr (adv (if_it s) rest0)) with (it_fr (if_it s)) in EL.
      unfold decf_load at 1 in EL.
      destruct (d_chunks (it_fr (if_it s))) as [cks |]; [| apply He; reflexivity].
      destruct (nthN cks (N.to_nat (n0 / it_cs (if_it s)))); [| discriminate].
      rewrite (Hdead (if_k s)) in EL by lia. discriminate.
    + cbn [fbind]. exists s1. split; [reflexivity |].
      destruct (first_fail ok s n0 rest0 s1 HW Ha Hnl EL) as (A & B & _ & D). split; [exact A | split; [exact B | exact D]].
    + exfalso. unfold itf_loadChunk_gen in EL.
      destruct (if it_fn (if_it (with_it s (adv (if_it s) rest0))) then _ else _); [| discriminate].
      destruct (if it_locs (if_it (with_it s (adv (if_it s) rest0))) then _ else _); discriminate.
Qed.

Definition quiet (o : outcome (option APosting)) : Prop := o = OErr \/ o = OOk None.

Lemma itf_step_next ok s : itf_step true ok s INext = itf_next ok s.
Proof. reflexivity. Qed.

Lemma dead_run ok : forall n s,
  Wf (if_it s) -> Ff (if_it s) -> (forall k, (if_k s <= k)%nat -> ok k = false) ->
  Forall quiet (itf_run ok s (repeat INext n)) /\ length (itf_run ok s (repeat INext n)) = n.
Proof.
  induction n as [| n IH]; intros s HW HF Hdead; [split; [constructor | reflexivity] |].
  cbn [repeat]. unfold itf_run. cbn [itf_run_gen]. rewrite itf_step_next.
  destruct (dead_step ok s HW HF Hdead) as [[Ha ->] | (s' & -> & HW' & HF' & Hk)].
  - destruct (IH s HW HF Hdead) as [A B]. split; [constructor; [right; reflexivity | exact A] |].
    cbn [length]. f_equal. exact B.
  - destruct (IH s' HW' HF') as [A B]; [intros k Hk'; apply Hdead; lia |].
    split; [constructor; [left; reflexivity | exact A] |]. cbn [length]. f_equal. exact B.
Qed.

Lemma monotone_after ok k : monotone ok -> ok k = false -> forall k', (k <= k')%nat -> ok k' = false.
Proof. intros Hm H k' Hle. induction Hle as [| k' _ IH]; [exact H | apply Hm; exact IH]. Qed.

Lemma decf_err_cause ok d c k k' d' :
  decf_load ok d c k = LErr k' -> dec_load d c = Ok d' -> ok k = false /\ k' = S k.
Proof.
  unfold decf_load, dec_load. destruct (d_chunks d) as [cks |]; [| discriminate].
  destruct (nthN cks (N.to_nat c)); [| discriminate].
  destruct (ok k); [discriminate |]. intros H _. injection H as <-. split; reflexivity.
Qed.

Lemma decf_ok_counter ok d c k k' d' : decf_load ok d c k = LOk d' k' -> (k <= k')%nat.
Proof.
  unfold decf_load. destruct (d_chunks d) as [cks |]; [| intros H; injection H as _ <-; lia].
  destruct (nthN cks (N.to_nat c)); [| discriminate].
  destruct (ok k); [intros H; injection H as _ <-; lia | discriminate].
Qed.

(* a load that fails where the fault-free load succeeds failed at a storage read *)
Lemma load_err_cause fixed ok s c s1 i3 :
  itf_loadChunk_gen fixed ok s c = FErr s1 -> it_loadChunk (if_it s) c = Ok i3 ->
  exists k, (if_k s <= k < if_k s1)%nat /\ ok k = false.
Proof.
  rewrite it_loadChunk_eq. unfold itf_loadChunk_gen. set (i := if_it s). intros H R.
  destruct (it_fn i).
  - destruct (dec_load (it_fr i) c) as [fr' | | | |] eqn:D1; cbn [rbind] in R; try discriminate.
    destruct (decf_load ok (it_fr i) c (if_k s)) as [fr k1 | k1] eqn:E1.
    + pose proof (decf_ok_counter _ _ _ _ _ _ E1) as Hk1.
      destruct (it_locs i); [| discriminate].
      destruct (dec_load (it_lr i) c) as [lr' | | | |] eqn:D2; cbn [rbind] in R; try discriminate.
      destruct (decf_load ok (it_lr i) c k1) as [lr k2 | k2] eqn:E2; [discriminate |].
      destruct (decf_err_cause _ _ _ _ _ _ E2 D2) as [Hf ->]. injection H as <-. cbn [if_k].
      exists k1. split; [lia | exact Hf].
    + destruct (decf_err_cause _ _ _ _ _ _ E1 D1) as [Hf ->]. injection H as <-. cbn [if_k].
      exists (if_k s). split; [lia | exact Hf].
  - cbn [rbind] in R. destruct (it_locs i); [| discriminate].
    destruct (dec_load (it_lr i) c) as [lr' | | | |] eqn:D2; cbn [rbind] in R; try discriminate.
    destruct (decf_load ok (it_lr i) c (if_k s)) as [lr k2 | k2] eqn:E2; [discriminate |].
    destruct (decf_err_cause _ _ _ _ _ _ E2 D2) as [Hf ->]. injection H as <-. cbn [if_k].
    exists (if_k s). split; [lia | exact Hf].
Qed.

(* the state after a (possibly trivial) successful load for document n0 *)
Lemma load_if_ok_Wf fixed ok s n0 rest0 s3 v :
  Wf (if_it s) -> it_actual (if_it s) = n0 :: rest0 ->
  itf_load_if fixed ok (need_load (if_it s) (n0 / it_cs (if_it s)))
              (with_it s (adv (if_it s) rest0)) (n0 / it_cs (if_it s)) = FOk s3 v ->
  Wf (if_it s3).
Proof.
  intros HW Ha H. destruct HW as (Hn & Hc & Hf & Hcs & Hs & Hcur & He).
  set (i := if_it s) in *. set (c := n0 / it_cs i) in *.
  rewrite Ha in Hs, Hcur. inversion Hs as [| ? ? Hs' Hlt]; subst. inversion Hcur as [| ? ? Hc0 Hcur']; subst.
  assert (Hge : Forall (fun m => c <= m / it_cs i) rest0).
  { apply Forall_forall. intros m Hm. rewrite Forall_forall in Hlt.
    apply div_mono_lt; [exact Hcs | apply Hlt; exact Hm]. }
  unfold itf_load_if in H. destruct (need_load i c) eqn:Hnl.
  - unfold itf_loadChunk_gen in H. cbn [if_it with_it if_k] in H.
    change (it_fn (adv i rest0)) with (it_fn i) in H. rewrite Hf in H.
    change (it_fr (adv i rest0)) with (it_fr i) in H.
    destruct (decf_load ok (it_fr i) c (if_k s)) as [fr k1 | k1] eqn:E1; [| discriminate].
    destruct (if it_locs (adv i rest0) then decf_load ok (it_lr (adv i rest0)) c k1
              else LOk (it_lr (adv i rest0)) k1) as [lr k2 | k2]; [| discriminate].
    injection H as <- _. apply decf_load_ok_chunks in E1. destruct E1 as [E1 _].
    unfold Wf. cbn. repeat split; try assumption. rewrite E1. exact He.
  - injection H as <- _. unfold Wf. cbn. repeat split; assumption.
Qed.

Lemma frame_eq_Wf i i' : frame_eq i i' -> Wf i -> Wf i'.
Proof.
  intros (A1 & A2 & A3 & A4 & A5 & A6 & A7 & A8 & A9 & A10 & A11 & A12 & A13 & A14 & A15)
         (Hn & Hc & Hf & Hcs & Hs & Hcur & He).
  unfold Wf. rewrite A1, A4, A5, A6, A7, A8, A11. repeat split; assumption.
Qed.

Lemma lift_it_ok {A} s (r : result (It * A)) s' v :
  lift_it s r = FOk s' v -> r = Ok (if_it s', v) /\ if_k s' = if_k s.
Proof.
  destruct r as [[i x] | | | |]; cbn; intros H; try discriminate.
  injection H as <- <-. split; reflexivity.
Qed.

Lemma ok_step_Wf ok s s' o : Wf (if_it s) -> itf_next ok s = FOk s' o -> Wf (if_it s').
Proof.
  intros HW H. pose proof HW as (Hn & Hc & Hf & Hcs & Hs & Hcur & He).
  destruct (it_actual (if_it s)) as [| n0 rest0] eqn:Ha.
  - unfold itf_next, itf_naa, itf_next_docnum in H. rewrite Hn, Ha in H. cbn in H.
    injection H as <- _. exact HW.
  - unfold itf_next in H. rewrite (itf_naa_clean true ok s n0 rest0 Hn Hc Hf Hcs Ha) in H.
    destruct (itf_load_if true ok (need_load (if_it s) (n0 / it_cs (if_it s)))
                          (with_it s (adv (if_it s) rest0)) (n0 / it_cs (if_it s)))
      as [s3 v | s1 |] eqn:EL; cbn [fbind] in H; try discriminate.
    pose proof (load_if_ok_Wf true ok s n0 rest0 s3 v HW Ha EL) as HW3.
    apply lift_it_ok in H. destruct H as [H _]. apply finish_keeps in H.
    apply (frame_eq_Wf _ _ H HW3).
Qed.

(* ---- (B2) a storage that fails from some point on ---- *)
(* From a clean iterator state whose fault-free run of n Next() calls succeeds
   with answers [outs]: under a monotone oracle the run delivers a prefix of
   [outs] and from the first error on only errors (or "end of list"): never a
   panic, never a posting after an error. *)
Lemma live_run ok (Hm : monotone ok) : forall n s outs,
  Wf (if_it s) -> it_run (if_it s) (repeat INext n) = Ok outs ->
  exists j tail, itf_run ok s (repeat INext n) = map OOk (firstn j outs) ++ tail /\
                 Forall quiet tail /\ length (itf_run ok s (repeat INext n)) = n.
Proof.
  induction n as [| n IH]; intros s outs HW R.
  - exists O, []. cbn. repeat split. constructor.
  - cbn [repeat it_run it_step] in R.
    destruct (next_at_or_after (if_it s) 0) as [[i' o] | | | |] eqn:E0; cbn [rbind] in R; try discriminate.
    destruct (it_run i' (repeat INext n)) as [os | | | |] eqn:E1; cbn [rbind] in R; try discriminate.
    injection R as <-.
    cbn [repeat]. unfold itf_run. cbn [itf_run_gen]. rewrite itf_step_next.
    destruct (itf_next ok s) as [s' v | s1 |] eqn:EN.
    + pose proof (itf_ok_is_fault_free true ok s 0 s' v EN) as S. rewrite E0 in S.
      injection S as -> ->.
      destruct (IH s' os (ok_step_Wf ok s s' v HW EN) E1) as (j & tail & Hr & Hq & Hl).
      exists (S j), tail. fold (itf_run ok s' (repeat INext n)). rewrite Hr. cbn [firstn map app length].
      split; [reflexivity |]. split; [exact Hq |]. rewrite <- Hr, Hl. reflexivity.
    + pose proof HW as (Hn & Hc & Hf & Hcs & Hs & Hcur & He).
      destruct (it_actual (if_it s)) as [| n0 rest0] eqn:Ha.
      { unfold itf_next, itf_naa, itf_next_docnum in EN. rewrite Hn, Ha in EN. discriminate. }
      unfold itf_next in EN. rewrite (itf_naa_clean true ok s n0 rest0 Hn Hc Hf Hcs Ha) in EN.
      rewrite (naa_clean (if_it s) n0 rest0 Hn Hc Hf Hcs Ha) in E0.
      unfold itf_load_if in EN.
      destruct (need_load (if_it s) (n0 / it_cs (if_it s))) eqn:Hnl.
      * pose proof (loadChunk_sim true ok (with_it s (adv (if_it s) rest0)) (n0 / it_cs (if_it s))) as S.
        destruct (itf_loadChunk_gen true ok (with_it s (adv (if_it s) rest0)) (n0 / it_cs (if_it s)))
          as [s3 v | s1' |] eqn:EL; cbn [fbind] in EN.
        -- cbn [simg if_it with_it] in S. rewrite S in E0. cbn [rbind] in E0.
           rewrite E0 in EN. discriminate.
        -- injection EN as ->.
           destruct (it_loadChunk (adv (if_it s) rest0) (n0 / it_cs (if_it s))) as [i3 | | | |] eqn:EF;
             cbn [rbind] in E0; try discriminate.
           destruct (load_err_cause true ok _ _ _ i3 EL EF) as (k & Hk & Hfail).
           destruct (first_fail ok s n0 rest0 s1 HW Ha Hnl EL) as (HW1 & HF1 & _ & _).
           destruct (dead_run ok n s1 HW1 HF1) as [Hq Hl].
           { intros k' Hk'. apply (monotone_after ok k Hm Hfail). lia. }
           exists O, (OErr :: itf_run ok s1 (repeat INext n)). cbn [firstn map app].
           split; [reflexivity |]. split; [constructor; [left; reflexivity | exact Hq] |].
           cbn [length]. f_equal. exact Hl.
        -- discriminate.
      * cbn [fbind] in EN. cbn [rbind] in E0. cbn [if_it with_it] in EN. rewrite E0 in EN. discriminate.
    + apply itf_panic_is_fault_free in EN. unfold itf_next in EN. rewrite E0 in EN. destruct EN.
Qed.

Lemma it_init_Wf ps cs total inclLocs fields old :
  StronglySorted (fun p q => ep_doc p < ep_doc q) ps -> 0 < cs ->
  Wf (it_init (encode_gen cs total ps) None true inclLocs fields old).
Proof.
  intros Hs Hcs. unfold encode_gen, it_init, Wf. cbn.
  repeat split; try reflexivity.
  - lia.
  - apply sorted_map_doc. exact Hs.
  - apply Forall_forall. intros m _. apply N.le_0_l.
  - discriminate.
Qed.

(* (B2), top level: an iterator over an encoded postings list (clean path,
   frequencies included, locations optional), n calls of Next(), a storage that
   fails from some read on (any monotone oracle, any start of the read counter):
   the answers are a prefix of the specified postings followed only by errors
   (or "end of list"). *)
Theorem itf_monotone_admissible (fields : list bytes) (ps : list EPosting) (cs : N) (total : nat)
        (inclLocs : bool) (old : option It) (ok : oracle) (k0 n : nat) :
  wf_postings (length fields) ps -> 0 < cs ->
  (forall p, In p ps -> (N.to_nat (ep_doc p / cs) < total)%nat) ->
  monotone ok ->
  let spec := spec_out true inclLocs (map (resolve_posting fields) ps) (repeat INext n) in
  let run := itf_run ok (mkItF (it_init (encode_gen cs total ps) None true inclLocs fields old) k0)
                     (repeat INext n) in
  exists j tail, run = map OOk (firstn j spec) ++ tail /\ Forall quiet tail /\ length run = n.
Proof.
  intros Hwf Hcs Htot Hm spec run.
  assert (Hops : wf_ops (repeat INext n)).
  { unfold wf_ops. apply Forall_forall. intros op Hop. apply repeat_spec in Hop. subst op. exact I. }
  pose proof (iter_refines fields ps cs total None true inclLocs old (repeat INext n)
                           Hwf Hcs Htot (fun _ => eq_refl) Hops) as R.
  replace (filter (fun p => live_opt None (fst p)) (map (resolve_posting fields) ps))
    with (map (resolve_posting fields) ps) in R
    by (symmetry; apply (filter_true (map (resolve_posting fields) ps))).
  apply (live_run ok Hm n (mkItF _ k0) _).
  - apply it_init_Wf; [apply Hwf | exact Hcs].
  - exact R.
Qed.

(* ---- (B2) a storage that recovers ---- *)
(* two iterator states that agree on everything a reload does not overwrite *)
Definition streams_eq (i j : It) : Prop :=
  it_norm1 i = it_norm1 j /\ it_doc1 i = it_doc1 j /\ it_all i = it_all j /\
  it_actual i = it_actual j /\ it_clean i = it_clean j /\ it_cs i = it_cs j /\
  it_fn i = it_fn j /\ it_locs i = it_locs j /\ it_fields i = it_fields j /\
  d_chunks (it_fr i) = d_chunks (it_fr j) /\
  (if it_locs i
   then d_chunks (it_lr i) = d_chunks (it_lr j) /\
        (d_chunks (it_lr i) = None -> d_cur (it_lr i) = d_cur (it_lr j))
   else it_lr i = it_lr j).

Lemma dec_load_indep d d' c :
  d_chunks d = d_chunks d' -> (d_chunks d = None -> d_cur d = d_cur d') -> dec_load d c = dec_load d' c.
Proof.
  unfold dec_load. intros H1 H2. rewrite <- H1. destruct (d_chunks d); [reflexivity |].
  rewrite H2 by reflexivity. reflexivity.
Qed.

Lemma dec_load_keeps d c d' :
  dec_load d c = Ok d' -> d_chunks d' = d_chunks d /\ (d_chunks d = None -> d_cur d' = d_cur d).
Proof.
  unfold dec_load. destruct (d_chunks d) as [cks |] eqn:E.
  - destruct (nthN cks (N.to_nat c)); [| discriminate]. intros H. injection H as <-.
    split; [reflexivity | discriminate].
  - intros H. injection H as <-. split; reflexivity.
Qed.

(* a reload makes the two states equal: the fault-free Next() cannot tell them apart *)
Lemma naa_reload_eq i j n1 rest :
  streams_eq i j -> it_norm1 i = 0 -> it_clean i = true -> it_fn i = true -> it_cs i <> 0 ->
  d_chunks (it_fr i) <> None ->
  it_actual i = n1 :: rest ->
  need_load i (n1 / it_cs i) = true -> need_load j (n1 / it_cs i) = true ->
  next_at_or_after i 0 = next_at_or_after j 0.
Proof.
  intros (A1 & A2 & A3 & A4 & A5 & A6 & A7 & A8 & A9 & A10 & A11) Hn Hc Hf Hcs He Ha Hi Hj.
  rewrite (naa_clean i n1 rest Hn Hc Hf Hcs Ha).
  rewrite (naa_clean j n1 rest) by congruence.
  rewrite <- A6, Hi, Hj. f_equal.
  rewrite !it_loadChunk_eq.
  change (it_fn (adv i rest)) with (it_fn i). change (it_fn (adv j rest)) with (it_fn j).
  change (it_locs (adv i rest)) with (it_locs i). change (it_locs (adv j rest)) with (it_locs j).
  change (it_fr (adv i rest)) with (it_fr i). change (it_fr (adv j rest)) with (it_fr j).
  change (it_lr (adv i rest)) with (it_lr i). change (it_lr (adv j rest)) with (it_lr j).
  rewrite <- A7, <- A8, Hf.
  rewrite (dec_load_indep (it_fr i) (it_fr j)); [| exact A10 | intros E; contradiction].
  destruct (dec_load (it_fr j) (n1 / it_cs i)) as [fr | | | |]; cbn [rbind]; try reflexivity.
  assert (EL : (if it_locs i then dec_load (it_lr i) (n1 / it_cs i) else Ok (it_lr i))
               = (if it_locs i then dec_load (it_lr j) (n1 / it_cs i) else Ok (it_lr j))).
  { destruct (it_locs i); [| rewrite A11; reflexivity].
    destruct A11 as [B1 B2]. apply dec_load_indep; assumption. }
  rewrite EL.
  destruct (if it_locs i then dec_load (it_lr j) (n1 / it_cs i) else Ok (it_lr j)) as [lr | | | |];
    cbn [rbind]; try reflexivity.
  f_equal. unfold set_loaded, adv. cbn. congruence.
Qed.

(* If the failing Next() was for the LAST posting of its chunk (the next
   document lies in another chunk), the iterator behaves from then on exactly
   like the fault-free iterator that has consumed that posting: a later Next()
   that returns a posting returns the right one. *)
Theorem itf_recovers_other_chunk ok s n0 n1 rest s1 ig o0 :
  Wf (if_it s) -> it_actual (if_it s) = n0 :: n1 :: rest ->
  n0 / it_cs (if_it s) <> n1 / it_cs (if_it s) ->
  need_load (if_it s) (n0 / it_cs (if_it s)) = true ->
  itf_loadChunk ok (with_it s (adv (if_it s) (n1 :: rest))) (n0 / it_cs (if_it s)) = FErr s1 ->
  next_at_or_after (if_it s) 0 = Ok (ig, o0) ->
  itf_next ok s = FErr s1 /\
  next_at_or_after (if_it s1) 0 = next_at_or_after ig 0 /\
  (forall ok' k s2 o, itf_next ok' (mkItF (if_it s1) k) = FOk s2 o ->
                      next_at_or_after ig 0 = Ok (if_it s2, o)).
Proof.
  intros HW Ha Hne Hnl EL E0. pose proof HW as (Hn & Hc & Hf & Hcs & Hs & Hcur & He).
  set (i := if_it s) in *. set (cs := it_cs i) in *.
  assert (E1 : itf_next ok s = FErr s1).
  { unfold itf_next. rewrite (itf_naa_clean true ok s n0 (n1 :: rest) Hn Hc Hf Hcs Ha).
    fold i. fold cs. rewrite Hnl. unfold itf_load_if. unfold itf_loadChunk in EL. rewrite EL. reflexivity. }
  split; [exact E1 |].
  destruct (first_fail ok s n0 (n1 :: rest) s1 HW Ha Hnl EL) as (HW1 & HF1 & Ha1 & _).
  pose proof HW1 as (Hn1 & Hc1 & Hf1 & Hcs1 & _ & _ & He1).
  (* the fault-free successor *)
  rewrite (naa_clean i n0 (n1 :: rest) Hn Hc Hf Hcs Ha) in E0. fold cs in E0. rewrite Hnl in E0.
  rewrite it_loadChunk_eq in E0.
  change (it_fn (adv i (n1 :: rest))) with (it_fn i) in E0. rewrite Hf in E0.
  change (it_locs (adv i (n1 :: rest))) with (it_locs i) in E0.
  change (it_fr (adv i (n1 :: rest))) with (it_fr i) in E0.
  change (it_lr (adv i (n1 :: rest))) with (it_lr i) in E0.
  destruct (dec_load (it_fr i) (n0 / cs)) as [fr' | | | |] eqn:D1; cbn [rbind] in E0; try discriminate.
  destruct (if it_locs i then dec_load (it_lr i) (n0 / cs) else Ok (it_lr i)) as [lr' | | | |] eqn:D2;
    cbn [rbind] in E0; try discriminate.
  apply finish_keeps in E0.
  destruct E0 as (G1 & G2 & G3 & G4 & G5 & G6 & G7 & G8 & G9 & G10 & G11 & G12 & G13 & G14 & G15).
  cbn [set_loaded adv set_cursors it_norm1 it_doc1 it_all it_actual it_clean it_cs it_cur it_fr it_lr
       it_fn it_locs it_fields] in G1, G2, G3, G4, G5, G6, G7, G8, G9, G10, G11, G12, G13, G14, G15.
  apply dec_load_keeps in D1. destruct D1 as [D1 _].
  (* the failed state: cursors advanced, readers possibly forgotten *)
  assert (HS : it_norm1 (if_it s1) = it_norm1 i /\ it_doc1 (if_it s1) = it_doc1 i /\
               it_all (if_it s1) = n1 :: rest /\ it_clean (if_it s1) = it_clean i /\
               it_cs (if_it s1) = cs /\ it_fn (if_it s1) = it_fn i /\ it_locs (if_it s1) = it_locs i /\
               it_fields (if_it s1) = it_fields i /\
               d_chunks (it_fr (if_it s1)) = d_chunks (it_fr i) /\ it_lr (if_it s1) = it_lr i).
  { unfold itf_loadChunk, itf_loadChunk_gen in EL. cbn [if_it with_it if_k] in EL.
    change (it_fn (adv i (n1 :: rest))) with (it_fn i) in EL. rewrite Hf in EL.
    change (it_fr (adv i (n1 :: rest))) with (it_fr i) in EL.
    destruct (decf_load ok (it_fr i) (n0 / cs) (if_k s)) as [fr k1 | k1] eqn:F1.
    - destruct (if it_locs (adv i (n1 :: rest)) then decf_load ok (it_lr (adv i (n1 :: rest))) (n0 / cs) k1
                else LOk (it_lr (adv i (n1 :: rest))) k1); [discriminate |].
      injection EL as <-. apply decf_load_ok_chunks in F1. destruct F1 as [F1 _].
      cbn. repeat split; try reflexivity. exact F1.
    - injection EL as <-. cbn. repeat split; reflexivity. }
  destruct HS as (S1 & S2 & S3 & S4 & S5 & S6 & S7 & S8 & S9 & S10).
  assert (HSE : streams_eq (if_it s1) ig).
  { unfold streams_eq. rewrite S1, S2, S3, Ha1, S4, S5, S6, S7, S8, S9, S10.
    rewrite G1, G2, G3, G4, G5, G6, G8, G9, G10, G11, D1.
    repeat split; try reflexivity.
    destruct (it_locs i) eqn:EL2.
    - apply dec_load_keeps in D2. destruct D2 as [D2a D2b].
      rewrite G13, G14. split; [symmetry; exact D2a |]. intros EN. symmetry. apply D2b. exact EN.
    - injection D2 as <-. symmetry. apply G15. reflexivity. }
  assert (Hnl1 : need_load (if_it s1) (n1 / it_cs (if_it s1)) = true).
  { unfold Ff in HF1. rewrite Ha1 in HF1. inversion HF1; subst. assumption. }
  assert (Hnlg : need_load ig (n1 / it_cs (if_it s1)) = true).
  { unfold need_load. rewrite G7, S5. destruct (N.eqb_spec (n0 / cs) (n1 / cs)) as [E | _]; [contradiction |].
    reflexivity. }
  assert (EQ : next_at_or_after (if_it s1) 0 = next_at_or_after ig 0).
  { apply (naa_reload_eq (if_it s1) ig n1 rest HSE Hn1 Hc1 Hf1 Hcs1 He1 Ha1 Hnl1 Hnlg). }
  split; [exact EQ |].
  intros ok' k s2 o H2. apply itf_ok_is_fault_free in H2. cbn [if_it] in H2. rewrite <- EQ. exact H2.
Qed.

(* ---- (B3) the pre-fix loadChunk is refuted; examples ---- *)
Lemma fails_from_monotone k0 : monotone (fails_from k0).
Proof.
  unfold monotone, fails_from. intros k H. apply Nat.ltb_ge in H. apply Nat.ltb_ge. lia.
Qed.

Definition w_fields : list bytes := [[102]].
(* documents 0 and 1 in chunk 0, document 5 in chunk 1 (chunk size 4), all with locations *)
Definition w_ps : list EPosting :=
  [ (0, (2, (7, [(0, (1, (0, 3))); (0, (4, (10, 13)))])));
    (1, (1, (9, [(0, (2, (5, 8)))])));
    (5, (3, (11, [(0, (7, (20, 23)))]))) ].
Definition w_it : It := it_init (encode_gen 4 2 w_ps) None true true w_fields None.

Example w_wf : wf_postings (length w_fields) w_ps /\
               (forall p, In p w_ps -> (N.to_nat (ep_doc p / 4) < 2)%nat).
Proof.
  split; [split |].
  - repeat constructor.
  - unfold w_ps. repeat (apply Forall_cons || apply Forall_nil);
      unfold wf_posting, wf_loc, ep_doc, ep_freq, ep_norm, ep_locs; cbn [fst snd length map];
      repeat (apply Forall_cons || apply Forall_nil || split); try (vm_compute; reflexivity); vm_compute; lia.
  - intros p Hp. cbn [w_ps In] in Hp.
    repeat (destruct Hp as [<- | Hp]; [vm_compute; lia |]). destruct Hp.
Qed.

Example w_no_fault :
  itf_run no_faults (mkItF w_it 0) [INext; INext; INext; INext]
  = map OOk (spec_out true true (map (resolve_posting w_fields) w_ps) [INext; INext; INext; INext]).
Proof. vm_compute. reflexivity. Qed.

(* The freq/norm read of chunk 0 succeeds, every later read fails.  The first
   Next() reports the error.  Pre-fix: currChunk (0 from the start) equals the
   chunk and the freq/norm reader is loaded, so the second Next() does not
   reload and reads the locations from a location reader that was never
   loaded: panic (nil memUvarintReader in Go).  Repaired: error again. *)
Theorem itf_prefix_refuted :
  exists (ok : oracle) (i : It),
    monotone ok /\ ok 0%nat = true /\ ok 1%nat = false /\
    (exists s1, itf_loadChunk_prefix ok (mkItF i 0) 0 = FErr s1 /\ need_load (if_it s1) 0 = false) /\
    itf_run_prefix ok (mkItF i 0) [INext; INext] = [OErr; OPanic] /\
    itf_run ok (mkItF i 0) [INext; INext; INext; INext] = [OErr; OErr; OErr; OOk None].
Proof.
  exists (fails_from 1), w_it.
  split; [apply fails_from_monotone |]. split; [reflexivity |]. split; [reflexivity |].
  split; [eexists; split; vm_compute; reflexivity |].
  split; vm_compute; reflexivity.
Qed.

(* FINDING (holds for the repaired code as well, outside the property's fault
   model): a TRANSIENT failure.  The failing Next() has already consumed its
   document from the bitmap cursor; the next Next() takes the following
   document, reloads the chunk and decodes the FIRST entry of the chunk: it
   returns document 1 with the frequency, norm and locations of document 0. *)
Theorem itf_transient_wrong_posting :
  itf_run (fails_only_at 0) (mkItF w_it 0) [INext; INext]
  = [OErr; OOk (Some (1, (2, (7, [([102], (1, (0, 3))); ([102], (4, (10, 13)))]))))] /\
  nth 1 (spec_out true true (map (resolve_posting w_fields) w_ps) [INext; INext]) None
  = Some (1, (1, (9, [([102], (2, (5, 8)))]))) /\
  (* the same when it is the location read that fails *)
  itf_run (fails_only_at 1) (mkItF w_it 0) [INext; INext]
  = [OErr; OOk (Some (1, (2, (7, [([102], (1, (0, 3))); ([102], (4, (10, 13)))]))))].
Proof. repeat split; vm_compute; reflexivity. Qed.

(* a transient failure while loading the chunk of the LAST posting of a chunk
   loses that posting only (itf_recovers_other_chunk): here document 1 is the
   last of chunk 0 and read 2 (the freq/norm read of chunk 1) fails *)
Example w_transient_other_chunk :
  itf_run (fails_only_at 2) (mkItF w_it 0) [INext; INext; INext; INext]
  = [OOk (Some (0, (2, (7, [([102], (1, (0, 3))); ([102], (4, (10, 13)))]))));
     OOk (Some (1, (1, (9, [([102], (2, (5, 8)))])))); OErr; OOk None].
Proof. vm_compute. reflexivity. Qed.

(* the general theorem applied to the example: any storage that fails from
   some read on *)
Example w_by_theorem (k0 n : nat) :
  exists j tail,
    itf_run (fails_from k0) (mkItF w_it 0) (repeat INext n)
    = map OOk (firstn j (spec_out true true (map (resolve_posting w_fields) w_ps) (repeat INext n))) ++ tail
    /\ Forall quiet tail /\ length (itf_run (fails_from k0) (mkItF w_it 0) (repeat INext n)) = n.
Proof.
  destruct w_wf as [H1 H2].
  apply (itf_monotone_admissible w_fields w_ps 4 2 true None (fails_from k0) 0 n H1 eq_refl H2
                                 (fails_from_monotone k0)).
Qed.

(* ================================================================== *)
(* (A) the doc-value reader                                            *)
(* ================================================================== *)

Lemma resize_length h sp n : length (fst (dvf_resize h sp n)) = n.
Proof.
  unfold dvf_resize. destruct (Nat.ltb_spec (length (h ++ sp)) n) as [Hlt | Hge]; cbn [fst].
  - apply repeat_length.
  - apply firstn_length_le. exact Hge.
Qed.

(* the header loop: with as many slots as entries it never indexes out of
   range, and when every read succeeds the header is exactly the new one *)
Lemma fill_spec ok : forall new slots k, length slots = length new ->
  match dvf_fill ok new slots k with
  | FillOk h _ => h = new
  | FillErr _ k' => exists j, (k <= j < k')%nat /\ ok j = false
  | FillPanic => False
  end.
Proof.
  induction new as [| [d e] new IH]; intros slots k Hl; cbn [dvf_fill].
  - destruct slots; [reflexivity | discriminate].
  - destruct slots as [| x slots]; [discriminate |]. cbn [length] in Hl.
    destruct (ok k) eqn:E1; [| exists k; split; [lia | exact E1]].
    destruct (ok (S k)) eqn:E2; [| exists (S k); split; [lia | exact E2]].
    specialize (IH slots (S (S k))). rewrite <- (Nat.succ_inj _ _ Hl) in IH. specialize (IH eq_refl).
    destruct (dvf_fill ok new slots (S (S k))) as [h k' | h k' |].
    + rewrite IH. reflexivity.
    + destruct IH as (j & Hj & Hf). exists j. split; [lia | exact Hf].
    + exact IH.
Qed.

(* The load under faults against the fault-free load, ANY oracle, repaired or
   not: a success is the fault-free load; a panic is a fault-free panic; after
   an error the chunk list is untouched and either the cached chunk is
   untouched or (repaired code) the reader holds no chunk. *)
Lemma dvf_load_sim fixed ok s c :
  match dvf_load_gen fixed ok s c with
  | FOk s' _ => dv_load (df_r s) c = Ok (df_r s')
  | FErr s' =>
      faulty ok /\ dr_chunks (df_r s') = dr_chunks (df_r s) /\
      (df_r s' = df_r s \/ (fixed = true -> dr_cur (df_r s') = maxInt64))
  | FPanic => dv_load (df_r s) c = Panic
  end.
Proof.
  unfold dvf_load_gen, dv_load.
  destruct (nthN (dr_chunks (df_r s)) (N.to_nat c)) as [ck |]; [| reflexivity].
  unfold dvf_zero_len, dvf_data_of.
  destruct (dvc_header ck) as [| e0 hd] eqn:Hh.
  - destruct (negb (c =? 0)); [reflexivity |].
    destruct (ok (df_k s)) eqn:E0; cbn [negb].
    2:{ split; [exists (df_k s); exact E0 |]. split; [reflexivity | left; reflexivity]. }
    pose proof (resize_length (dr_header (df_r s)) (df_spare s) (length (@nil (N * N)))) as RL.
    destruct (dvf_resize (dr_header (df_r s)) (df_spare s) (length (@nil (N * N)))) as [h0 sp].
    cbn [fst length] in RL. destruct h0; [| discriminate]. cbn [dvf_fill].
    destruct (ok (S (df_k s))) eqn:E1; [reflexivity |].
    split; [exists (S (df_k s)); exact E1 |]. split; [reflexivity |]. right. intros ->. reflexivity.
  - destruct (ok (df_k s)) eqn:E0; cbn [negb].
    2:{ split; [exists (df_k s); exact E0 |]. split; [reflexivity | left; reflexivity]. }
    pose proof (resize_length (dr_header (df_r s)) (df_spare s) (length (e0 :: hd))) as RL.
    destruct (dvf_resize (dr_header (df_r s)) (df_spare s) (length (e0 :: hd))) as [h0 sp].
    cbn [fst] in RL.
    pose proof (fill_spec ok (e0 :: hd) h0 (S (df_k s)) RL) as FS.
    destruct (dvf_fill ok (e0 :: hd) h0 (S (df_k s))) as [h k1 | h k1 |].
    + subst h. destruct (ok k1) eqn:E1; [reflexivity |].
      split; [exists k1; exact E1 |]. split; [reflexivity |]. right. intros ->. reflexivity.
    + destruct FS as (j & _ & Hf).
      split; [exists j; exact Hf |]. split; [reflexivity |]. right. intros ->. reflexivity.
    + destruct FS.
Qed.

Lemma dv_visit_loaded_cases r field n :
  (exists out, dv_visit_loaded r field n = Ok out) \/ dv_visit_loaded r field n = Panic.
Proof.
  unfold dv_visit_loaded. destruct (dv_locs (dr_header r) 0 n) as [[a e] |]; [| left; eexists; reflexivity].
  destruct (a =? e); [left; eexists; reflexivity |].
  destruct (dr_data r) as [dat |]; [| right; reflexivity].
  destruct ((a <=? e) && (e <=? lenN dat)); [left; eexists; reflexivity | right; reflexivity].
Qed.

Lemma dvf_visit_sim fixed ok s field n :
  match dvf_visit_with (dvf_load_gen fixed ok) dv_visit_loaded s field n with
  | FOk s' out => dv_visit (df_r s) field n = Ok (df_r s', out)
  | FErr s' =>
      faulty ok /\ dr_chunks (df_r s') = dr_chunks (df_r s) /\
      (df_r s' = df_r s \/ (fixed = true -> dr_cur (df_r s') = maxInt64))
  | FPanic => dv_visit (df_r s) field n = Panic
  end.
Proof.
  unfold dvf_visit_with, dv_visit.
  destruct (n / dv_chunk_docs =? dr_cur (df_r s)).
  - cbn [fbind rbind].
    destruct (dv_visit_loaded_cases (df_r s) field n) as [[out ->] | ->]; reflexivity.
  - pose proof (dvf_load_sim fixed ok s (n / dv_chunk_docs)) as LS.
    destruct (dvf_load_gen fixed ok s (n / dv_chunk_docs)) as [s1 v | s1 |]; cbn [fbind].
    + rewrite LS. cbn [rbind].
      destruct (dv_visit_loaded_cases (df_r s1) field n) as [[out ->] | ->]; reflexivity.
    + exact LS.
    + rewrite LS. reflexivity.
Qed.

(* ---- (A1) ---- *)
Theorem dvf_no_fault s field n :
  match dv_visit (df_r s) field n with
  | Ok (r', out) => exists sp k, dvf_visit no_faults s field n = FOk (mkDvF r' sp k) out
  | Panic => dvf_visit no_faults s field n = FPanic
  | _ => False
  end.
Proof.
  pose proof (dvf_visit_sim true no_faults s field n) as S. fold (dvf_load no_faults) in S.
  fold (dvf_visit no_faults s field n) in S.
  destruct (dvf_visit no_faults s field n) as [s' out | s' |].
  - rewrite S. exists (df_spare s'), (df_k s'). destruct s'; reflexivity.
  - destruct S as [F _]. destruct (no_faults_not_faulty F).
  - rewrite S. reflexivity.
Qed.

(* for ANY oracle an Ok answer is the fault-free answer from that reader state *)
Theorem dvf_ok_is_fault_free ok s field n s' out :
  dvf_visit ok s field n = FOk s' out -> dv_visit (df_r s) field n = Ok (df_r s', out).
Proof.
  intros H. pose proof (dvf_visit_sim true ok s field n) as S.
  fold (dvf_load ok) in S. fold (dvf_visit ok s field n) in S. rewrite H in S. exact S.
Qed.

Theorem dvf_run_no_fault (fields : bytes) : forall visits s outs,
  dv_run [(fields, df_r s)] [fields] visits = Ok outs ->
  dvf_run no_faults s fields visits = map OOk outs.
Proof.
  induction visits as [| n visits IH]; intros s outs H.
  - cbn in H. injection H as <-. reflexivity.
  - cbn [dv_run dv_visit_fields find fst] in H. rewrite beq_refl in H.
    pose proof (dvf_no_fault s fields n) as N.
    destruct (dv_visit (df_r s) fields n) as [[r' out] | | | |]; cbn [rbind] in H; try discriminate.
    destruct N as (sp & k & N). unfold dvf_run. cbn [dvf_run_with]. rewrite N.
    cbn [map fst] in H. rewrite beq_refl in H. cbn [rbind] in H. rewrite app_nil_r in H.
    destruct (dv_run [(fields, r')] [fields] visits) as [os | | | |] eqn:E; cbn [rbind] in H; try discriminate.
    injection H as <-. cbn [map]. f_equal. apply (IH (mkDvF r' sp k) os). exact E.
Qed.

(* ---- (A2) the repaired reader ---- *)
Section Admissible.
  Variables (field : bytes) (numDocs : N) (es : list (N * list bytes)).
  Hypothesis Hb : numDocs <= two64.
  Hypothesis Hwf : wf_entries numDocs es.
  Let chunks := dv_chunks (nchunks_for numDocs) (enc_entries es).

  (* one call, from any consistent reader state, any oracle: an error or
     exactly the document's terms; the reader stays consistent *)
  Lemma dvf_visit_step ok s n :
    n < numDocs -> reader_ok chunks (df_r s) ->
    match dvf_visit ok s field n with
    | FOk s' out => out = spec_dv field es n /\ reader_ok chunks (df_r s')
    | FErr s' => reader_ok chunks (df_r s')
    | FPanic => False
    end.
  Proof.
    intros Hn Hr.
    destruct (dv_visit_correct_bounded field numDocs es Hwf (df_r s) n Hb Hn Hr) as (r' & Hv & Hr').
    pose proof (dvf_visit_sim true ok s field n) as S.
    fold (dvf_load ok) in S. fold (dvf_visit ok s field n) in S.
    destruct (dvf_visit ok s field n) as [s' out | s' |].
    - rewrite Hv in S. injection S as -> ->. split; [reflexivity | exact Hr'].
    - destruct S as (_ & Hc & [E | E]).
      + rewrite E. exact Hr.
      + destruct Hr as [Hc0 _]. split; [congruence |]. left. apply E. reflexivity.
    - rewrite Hv in S. discriminate.
  Qed.

  Definition admissible (n : N) (o : outcome (list (bytes * bytes))) : Prop :=
    o = OErr \/ o = OOk (spec_dv field es n).

  Lemma dvf_run_admissible ok : forall visits s,
    Forall (fun n => n < numDocs) visits -> reader_ok chunks (df_r s) ->
    Forall2 admissible visits (dvf_run ok s field visits).
  Proof.
    induction visits as [| n visits IH]; intros s Hv Hr; [constructor |].
    inversion Hv as [| ? ? Hn Hv']; subst.
    unfold dvf_run. cbn [dvf_run_with].
    pose proof (dvf_visit_step ok s n Hn Hr) as St.
    destruct (dvf_visit ok s field n) as [s' out | s' |].
    - destruct St as [-> Hr']. constructor; [right; reflexivity | apply IH; assumption].
    - constructor; [left; reflexivity | apply IH; assumption].
    - destruct St.
  Qed.
End Admissible.

(* (A2) ANY oracle, any start of the read counter, any sequence of visits of
   documents below numDocs on a freshly opened reader: every call reports an
   error or delivers exactly the document's terms (which are empty exactly when
   the document has none); never a panic, never another answer. *)
Theorem dvf_admissible (field : bytes) (numDocs : N) (es : list (N * list bytes))
        (ok : oracle) (k0 : nat) (visits : list N) :
  numDocs <= two64 -> wf_entries numDocs es -> Forall (fun n => n < numDocs) visits ->
  Forall2 (fun n o => o = OErr \/ o = OOk (spec_dv field es n)) visits
          (dvf_run ok (dvf_open (dv_chunks (nchunks_for numDocs) (enc_entries es)) k0) field visits).
Proof.
  intros Hb Hwf Hv.
  apply (dvf_run_admissible field numDocs es Hb Hwf ok visits _ Hv). apply dv_open_ok.
Qed.

(* ---- the pre-fix reader is refuted ---- *)
(* documents 0..2 in chunk 0 and 1024..1026 in chunk 1, one term each, of
   different lengths ("a","bb","ccc" / "xxxx","t","uu") *)
Definition x_es : list (N * list bytes) :=
  [ (0, [[97]]); (1, [[98; 98]]); (2, [[99; 99; 99]]);
    (1024, [[120; 120; 120; 120]]); (1025, [[116]]); (1026, [[117; 117]]) ].
Definition x_chunks : list DvChunk := dv_chunks (nchunks_for 1027) (enc_entries x_es).

Ltac solve_no_sep :=
  let HI := fresh in
  unfold no_sep, termSeparator; intros HI; cbn [In] in HI;
  repeat (destruct HI as [HI | HI]; [discriminate |]); exact HI.

Example x_wf : wf_entries 1027 x_es.
Proof.
  split.
  - repeat constructor.
  - unfold x_es. repeat (apply Forall_cons || apply Forall_nil); cbn [fst snd];
      (split; [reflexivity | split; [repeat constructor; solve_no_sep | discriminate]]).
Qed.

(* Visit 1024: chunk 1 is loaded with reads 0..7 (numDocs, 3 x 2 header reads,
   data).  Visit 0: the load of chunk 0 reads numDocs (read 8) and the first
   header entry (reads 9, 10); read 11 fails: error reported; the cached header
   is now [(0,2); (1025,7); (1026,10)] but curChunkNum is still 1 and the data
   is still that of chunk 1.  Visit 1025: no reload, NO STORAGE READ AT ALL;
   sort.Search finds the stale entry (1025,7) at index 1, whose start offset is
   taken from the NEW entry at index 0: bytes [2,7) of chunk 1, i.e. the tail
   of document 1024's term and document 1025's term. *)
Theorem dvf_prefix_refuted :
  exists (ok : oracle) (field : bytes) (numDocs : N) (es : list (N * list bytes)) (n : N)
         (wrong : list (bytes * bytes)),
    monotone ok /\ numDocs <= two64 /\ wf_entries numDocs es /\ n < numDocs /\
    dvf_run_prefix ok (dvf_open (dv_chunks (nchunks_for numDocs) (enc_entries es)) 0) field [1024; 0; n]
    = [OOk (spec_dv field es 1024); OErr; OOk wrong] /\
    wrong <> [] /\ wrong <> spec_dv field es n /\
    (* the repaired reader, same storage, same visits *)
    dvf_run ok (dvf_open (dv_chunks (nchunks_for numDocs) (enc_entries es)) 0) field [1024; 0; n]
    = [OOk (spec_dv field es 1024); OErr; OErr].
Proof.
  exists (fails_from 11), fx_field, 1027, x_es, 1025, [(fx_field, [120; 120]); (fx_field, [116])].
  split; [apply fails_from_monotone |]. split; [vm_compute; discriminate |].
  split; [exact x_wf |]. split; [reflexivity |].
  split; [vm_compute; reflexivity |]. split; [discriminate |].
  split; [vm_compute; discriminate |]. vm_compute. reflexivity.
Qed.

(* the same outcome with the linear-scan model of sort.Search, and with the
   failure one entry later (terms of 1025 delivered together with those of 1026) *)
Example dvf_prefix_refuted_lin :
  dvf_run_with (dvf_visit_prefix_lin (fails_from 11)) (dvf_open x_chunks 0) fx_field [1024; 0; 1025]
  = [OOk [(fx_field, [120; 120; 120; 120])]; OErr; OOk [(fx_field, [120; 120]); (fx_field, [116])]].
Proof. vm_compute. reflexivity. Qed.
Example dvf_prefix_refuted_13 :
  dvf_run_prefix (fails_from 13) (dvf_open x_chunks 0) fx_field [1024; 0; 1026]
  = [OOk [(fx_field, [120; 120; 120; 120])]; OErr; OOk [(fx_field, [116]); (fx_field, [117; 117])]].
Proof. vm_compute. reflexivity. Qed.

(* the pre-fix reader can also PANIC (slice bounds out of range, start > end):
   chunk 0 starts with a long value, so the new first entry (0,10) lies beyond
   the stale end offset 4 of document 1025 *)
Definition y_es : list (N * list bytes) :=
  [ (0, [[97; 97; 97; 97; 97; 97; 97; 97; 97]]); (1, [[98; 98]]); (1024, [[120]]); (1025, [[116]]) ].
Example y_wf : wf_entries 1026 y_es.
Proof.
  split.
  - repeat constructor.
  - unfold y_es. repeat (apply Forall_cons || apply Forall_nil); cbn [fst snd];
      (split; [reflexivity | split; [repeat constructor; solve_no_sep | discriminate]]).
Qed.
Theorem dvf_prefix_panics :
  dvf_run_prefix (fails_from 9) (dvf_open (dv_chunks (nchunks_for 1026) (enc_entries y_es)) 0)
                 fx_field [1024; 0; 1025]
  = [OOk (spec_dv fx_field y_es 1024); OErr; OPanic] /\
  dvf_run (fails_from 9) (dvf_open (dv_chunks (nchunks_for 1026) (enc_entries y_es)) 0)
          fx_field [1024; 0; 1025]
  = [OOk (spec_dv fx_field y_es 1024); OErr; OErr].
Proof. split; vm_compute; reflexivity. Qed.

(* Direction of the defect (evidence, pre-fix model): when the chunk whose load
   failed is LATER than the cached one, its entries are larger than every
   document of the cached chunk and the search only ever lands on stale entries
   whose predecessor is stale too: for every failure point the answers are the
   right ones or empty.  The wrong answers need the failed chunk to be EARLIER. *)
Definition x_harmless (o : outcome (list (bytes * bytes))) (n : N) : bool :=
  match o with
  | OErr => true
  | OOk [] => true
  | OOk [(_, t)] =>
      match spec_dv fx_field x_es n with [(_, t')] => beq t t' | _ => false end
  | _ => false
  end.
Fixpoint x_all_harmless (os : list (outcome (list (bytes * bytes)))) (ns : list N) : bool :=
  match os, ns with
  | [], [] => true
  | o :: os', n :: ns' => x_harmless o n && x_all_harmless os' ns'
  | _, _ => false
  end.
Example dvf_prefix_later_chunk_harmless :
  forallb (fun k => x_all_harmless (dvf_run_prefix (fails_from k) (dvf_open x_chunks 0) fx_field
                                                   [0; 1024; 1; 2; 0]) [0; 1024; 1; 2; 0]
                    && x_all_harmless (dvf_run_prefix (fails_only_at k) (dvf_open x_chunks 0) fx_field
                                                      [1; 1024; 0; 1; 2; 1025]) [1; 1024; 0; 1; 2; 1025])
          (seq 0 24) = true.
Proof. vm_compute. reflexivity. Qed.

(* the general theorem applied to the example: ANY oracle *)
Example x_by_theorem (ok : oracle) (k0 : nat) :
  Forall2 (fun n o => o = OErr \/ o = OOk (spec_dv fx_field x_es n)) [1024; 0; 1025; 1; 1026]
          (dvf_run ok (dvf_open x_chunks k0) fx_field [1024; 0; 1025; 1; 1026]).
Proof.
  apply (dvf_admissible fx_field 1027 x_es ok k0 [1024; 0; 1025; 1; 1026]).
  - vm_compute. discriminate.
  - exact x_wf.
  - repeat constructor.
Qed.

(* ================================================================== *)
(* sort.Search (binary search) against the linear-scan model dv_locs    *)
(* ================================================================== *)
(* DocValues.dv_locs scans for the first entry with DocNum >= docNum; Go runs
   sort.Search.  On an ascending header they agree, and the repaired reader
   only ever searches complete (ascending) headers: dvf_visit_bin_eq. *)
Definition hsorted (h : list (N * N)) : Prop := StronglySorted (fun a b => fst a < fst b) h.

Lemma div2_bounds a : (2 * Nat.div2 a <= a < 2 * Nat.div2 a + 2)%nat.
Proof.
  pose proof (Nat.div2_odd a) as H. destruct (Nat.odd a); cbn [Nat.b2n] in H; lia.
Qed.

Lemma search_loop_spec (f : nat -> bool) (n : nat) :
  (forall x y, (x <= y < n)%nat -> f x = true -> f y = true) ->
  forall fuel i j, (j - i < fuel)%nat -> (i <= j <= n)%nat ->
    (forall x, (x < i)%nat -> f x = false) -> (forall x, (j <= x < n)%nat -> f x = true) ->
    (i <= search_loop fuel f i j <= j)%nat /\
    (forall x, (x < search_loop fuel f i j)%nat -> f x = false) /\
    (forall x, (search_loop fuel f i j <= x < n)%nat -> f x = true).
Proof.
  intros Hm. induction fuel as [| fu IH]; intros i j Hf Hij Hlo Hhi; [lia |].
  cbn [search_loop]. destruct (Nat.ltb_spec i j) as [Hlt | Hge].
  - pose proof (div2_bounds (i + j)) as Hh. set (h := Nat.div2 (i + j)) in *.
    destruct (f h) eqn:Fh.
    + destruct (IH i h) as (A & B & C); try lia; try assumption.
      { intros x Hx. apply (Hm h x); [lia | exact Fh]. }
      split; [lia |]. split; assumption.
    + destruct (IH (S h) j) as (A & B & C); try lia; try assumption.
      { intros x Hx. destruct (f x) eqn:Fx; [| reflexivity].
        rewrite (Hm x h) in Fh; [discriminate | lia | exact Fx]. }
      split; [lia |]. split; assumption.
  - split; [lia |]. split; [exact Hlo |]. intros x Hx. apply Hhi. lia.
Qed.

Lemma nthN_some_lt {A} (l : list A) : forall x a, nthN l x = Some a -> (x < length l)%nat.
Proof.
  induction l as [| y l IH]; intros x a H; [destruct x; discriminate |].
  destruct x as [| x]; cbn [nthN length] in *; [lia |]. apply IH in H. lia.
Qed.
Lemma nthN_lt_some {A} (l : list A) : forall x, (x < length l)%nat -> exists a, nthN l x = Some a.
Proof.
  induction l as [| y l IH]; intros x H; cbn [length] in H; [lia |].
  destruct x as [| x]; cbn [nthN]; [eexists; reflexivity | apply IH; lia].
Qed.
Lemma nthN_In {A} (l : list A) : forall x a, nthN l x = Some a -> In a l.
Proof.
  induction l as [| y l IH]; intros x a H; [destruct x; discriminate |].
  destruct x as [| x]; cbn [nthN] in H; [injection H as <-; left; reflexivity | right; eapply IH; exact H].
Qed.

Lemma hsorted_nth h : hsorted h -> forall x y a b,
  (x < y)%nat -> nthN h x = Some a -> nthN h y = Some b -> fst a < fst b.
Proof.
  induction 1 as [| e h Hs IH Hf]; intros x y a b Hxy Ha Hb; [destruct x; discriminate |].
  destruct y as [| y]; [lia |]. cbn [nthN] in Hb.
  destruct x as [| x]; cbn [nthN] in Ha.
  - injection Ha as <-. rewrite Forall_forall in Hf. apply Hf. eapply nthN_In. exact Hb.
  - apply (IH x y); [lia | exact Ha | exact Hb].
Qed.

(* dv_locs in terms of ANY index r that separates "DocNum < d" from "DocNum >= d" *)
Lemma dv_locs_char d : forall h prevEnd r,
  (forall x, (x < r)%nat -> exists dd e, nthN h x = Some (dd, e) /\ dd < d) ->
  (r = length h \/ exists dd e, nthN h r = Some (dd, e) /\ d <= dd) ->
  dv_locs h prevEnd d
  = match nthN h r with
    | Some (dd, e) =>
        if dd =? d then
          Some (match r with
                | O => prevEnd
                | S r' => match nthN h r' with Some (_, e') => e' | None => 0 end
                end, e)
        else None
    | None => None
    end.
Proof.
  induction h as [| [d0 e0] h IH]; intros prevEnd r Hlo Hhi.
  - destruct r as [| r]; [reflexivity |]. destruct (Hlo O) as (dd & e & H & _); [lia | discriminate].
  - cbn [dv_locs]. destruct r as [| r].
    + destruct Hhi as [Hhi | (dd & e & H & Hle)]; [discriminate |].
      cbn [nthN] in H. injection H as <- <-. cbn [nthN].
      destruct (N.leb_spec d d0); [reflexivity | lia].
    + destruct (Hlo O) as (dd & e & H & Hlt); [lia |]. cbn [nthN] in H. injection H as <- <-.
      destruct (N.leb_spec d d0); [lia |].
      rewrite (IH e0 r).
      * cbn [nthN]. destruct (nthN h r) as [[dd e] |]; [| reflexivity].
        destruct (dd =? d); [| reflexivity]. destruct r; reflexivity.
      * intros x Hx. destruct (Hlo (S x)) as (dd & e & H' & Hlt'); [lia |]. exists dd, e. split; assumption.
      * destruct Hhi as [Hhi | (dd & e & H' & Hle)]; [left; cbn [length] in Hhi; lia |].
        right. exists dd, e. split; assumption.
Qed.

Theorem dv_locs_bin_sorted h d : hsorted h -> dv_locs_bin h d = dv_locs h 0 d.
Proof.
  intros Hs. unfold dv_locs_bin, sort_search.
  set (f := fun i : nat => match nthN h i with Some (d0, _) => d <=? d0 | None => false end).
  assert (Hm : forall x y, (x <= y < length h)%nat -> f x = true -> f y = true).
  { intros x y Hxy Fx. unfold f in *.
    destruct (nthN h x) as [[dx ex] |] eqn:Ex; [| discriminate].
    destruct (nthN_lt_some h y) as [[dy ey] Ey]; [lia |]. rewrite Ey.
    destruct (Nat.eq_dec x y) as [-> | Hne]; [rewrite Ex in Ey; injection Ey as <- <-; exact Fx |].
    pose proof (hsorted_nth h Hs x y _ _ ltac:(lia) Ex Ey) as Hlt. cbn [fst] in Hlt.
    apply N.leb_le in Fx. apply N.leb_le. lia. }
  assert (SP := search_loop_spec f (length h) Hm (S (length h)) 0%nat (length h)).
  destruct SP as (A & B & C); [lia | lia | intros x Hx; lia | intros x Hx; lia |].
  set (r := search_loop (S (length h)) f 0 (length h)) in *.
  symmetry. apply dv_locs_char.
  - intros x Hx. destruct (nthN_lt_some h x) as [[dd e] E]; [lia |].
    exists dd, e. split; [exact E |]. specialize (B x Hx). unfold f in B. rewrite E in B.
    apply N.leb_gt in B. exact B.
  - destruct (Nat.eq_dec r (length h)) as [E | Hne]; [left; exact E |]. right.
    destruct (nthN_lt_some h r) as [[dd e] E]; [lia |]. exists dd, e. split; [exact E |].
    specialize (C r ltac:(lia)). unfold f in C. rewrite E in C. apply N.leb_le in C. exact C.
Qed.

Theorem dv_visit_loaded_bin_sorted r field d :
  hsorted (dr_header r) -> dv_visit_loaded_bin r field d = dv_visit_loaded r field d.
Proof.
  intros Hs. unfold dv_visit_loaded_bin, dv_visit_loaded. rewrite dv_locs_bin_sorted by exact Hs. reflexivity.
Qed.

(* chunk headers written by the builder are ascending *)
Lemma build_fst : forall docs acc, map fst (fst (dv_chunk_build docs acc)) = map fst docs.
Proof.
  induction docs as [| [d b] docs IH]; intros acc; [reflexivity |].
  cbn [dv_chunk_build]. specialize (IH (acc + lenN b)).
  destruct (dv_chunk_build docs (acc + lenN b)) as [h dat]. cbn [fst map] in *. f_equal. exact IH.
Qed.

Lemma sorted_map_fst {B C} (l : list (N * B)) (l' : list (N * C)) :
  map fst l = map fst l' ->
  StronglySorted (fun a b => fst a < fst b) l -> StronglySorted (fun a b => fst a < fst b) l'.
Proof.
  revert l'. induction l as [| a l IH]; intros l' E Hs.
  - destruct l'; [constructor | discriminate].
  - destruct l' as [| a' l']; [discriminate |]. cbn [map] in E. injection E as E1 E2.
    inversion Hs as [| ? ? Hs' Hf]; subst. constructor; [apply IH; assumption |].
    rewrite Forall_forall in *. intros x Hx.
    assert (Hin : In (fst x) (map fst l)) by (rewrite E2; apply in_map; exact Hx).
    apply in_map_iff in Hin. destruct Hin as (y & Ey & Hy). rewrite <- E1, <- Ey. apply Hf. exact Hy.
Qed.

Lemma chunk_header_sorted docs : asc docs -> hsorted (dvc_header (dv_chunk_of docs)).
Proof.
  intros Ha. rewrite dvc_header_of. unfold hsorted.
  apply (sorted_map_fst docs); [symmetry; apply build_fst | exact Ha].
Qed.

Lemma dv_chunks_sorted nch (enc : list (N * bytes)) :
  asc enc -> Forall (fun ck => hsorted (dvc_header ck)) (dv_chunks nch enc).
Proof.
  intros Ha. unfold dv_chunks. apply Forall_forall. intros ck Hck.
  apply in_map_iff in Hck. destruct Hck as (c & <- & _).
  apply chunk_header_sorted. apply DocValues_Proofs.sorted_filter. exact Ha.
Qed.

(* The repaired reader with Go's binary search is the repaired reader of
   dvf_visit: whenever the cached header is searched it is a complete chunk
   header.  (Any oracle; any state whose cached chunk, if any, is consistent.) *)
Theorem dvf_visit_bin_eq (chunks : list DvChunk) ok s field n :
  Forall (fun ck => hsorted (dvc_header ck)) chunks ->
  reader_ok chunks (df_r s) -> n / dv_chunk_docs <> maxInt64 ->
  dvf_visit_bin ok s field n = dvf_visit ok s field n.
Proof.
  intros Hall [Hc Hcur] Hsent. unfold dvf_visit_bin, dvf_visit, dvf_visit_with.
  rewrite Forall_forall in Hall.
  destruct (N.eqb_spec (n / dv_chunk_docs) (dr_cur (df_r s))) as [E | NE].
  - cbn [fbind]. destruct Hcur as [Hcur | (c & Hc1 & Hc2 & _)]; [congruence |].
    rewrite dv_visit_loaded_bin_sorted; [reflexivity |].
    rewrite Hc2. apply Hall. eapply nthN_In. exact Hc1.
  - pose proof (dvf_load_sim true ok s (n / dv_chunk_docs)) as LS. fold (dvf_load ok) in LS.
    destruct (dvf_load ok s (n / dv_chunk_docs)) as [s1 v | s1 |]; cbn [fbind]; try reflexivity.
    rewrite dv_visit_loaded_bin_sorted; [reflexivity |].
    unfold dv_load in LS. rewrite Hc in LS.
    destruct (nthN chunks (N.to_nat (n / dv_chunk_docs))) as [ck |] eqn:Ek; [| discriminate].
    destruct (dvc_header ck) as [| e0 hd] eqn:Hh; injection LS as <-; cbn [dr_header].
    + constructor.
    + rewrite <- Hh. apply Hall. eapply nthN_In. exact Ek.
Qed.

(* hence (A2) holds verbatim for the reader that searches as Go does *)
Theorem dvf_admissible_bin (field : bytes) (numDocs : N) (es : list (N * list bytes))
        (ok : oracle) (k0 : nat) (visits : list N) :
  numDocs <= two64 -> wf_entries numDocs es -> Forall (fun n => n < numDocs) visits ->
  Forall2 (fun n o => o = OErr \/ o = OOk (spec_dv field es n)) visits
          (dvf_run_with (dvf_visit_bin ok)
                        (dvf_open (dv_chunks (nchunks_for numDocs) (enc_entries es)) k0) field visits).
Proof.
  intros Hb Hwf Hv.
  set (chunks := dv_chunks (nchunks_for numDocs) (enc_entries es)).
  assert (Hall : Forall (fun ck => hsorted (dvc_header ck)) chunks).
  { apply dv_chunks_sorted. apply asc_enc. apply Hwf. }
  assert (G : forall visits s, Forall (fun n => n < numDocs) visits -> reader_ok chunks (df_r s) ->
              Forall2 (fun n o => o = OErr \/ o = OOk (spec_dv field es n)) visits
                      (dvf_run_with (dvf_visit_bin ok) s field visits)).
  { clear visits Hv. induction visits as [| n visits IH]; intros s Hv Hr; [constructor |].
    inversion Hv as [| ? ? Hn Hv']; subst. cbn [dvf_run_with].
    rewrite (dvf_visit_bin_eq chunks ok s field n Hall Hr)
      by (unfold two64 in Hb; unfold dv_chunk_docs, maxInt64; lia).
    pose proof (dvf_visit_step field numDocs es Hb Hwf ok s n Hn Hr) as St.
    destruct (dvf_visit ok s field n) as [s' out | s' |].
    - destruct St as [-> Hr']. constructor; [right; reflexivity | apply IH; assumption].
    - constructor; [left; reflexivity | apply IH; assumption].
    - destruct St. }
  apply G; [exact Hv | apply dv_open_ok].
Qed.

(* Immut_Proofs.v - C15 (segment slots are immutable in the executable model:
   every operation only appends) and C14 (map-iteration order cannot influence
   what the builder accumulates). *)
From Coq Require Import List NArith Bool Lia Permutation.
From Coq Require Import ZifyBool ZifyN ZifyNat.
From Ice Require Import Base Spec Run.
From IceProofs Require Import Sort_Proofs DocsMatching_Proofs.
Import ListNotations.
Open Scope N_scope.

(* ------------------------------------------------------------------ *)
(* C15: slots are only appended                                        *)
(* ------------------------------------------------------------------ *)

Theorem step_preserves_slots (st : list Slot) (o : op) :
  exists ext, fst (Run.step st o) = st ++ ext.
Proof.
  destruct o; unfold Run.step;
    try (exists []; cbn [fst]; rewrite app_nil_r; reflexivity).
  - eexists. cbn [fst]. reflexivity.
  - destruct (merge_spec _) as [A nums]. eexists. cbn [fst]. reflexivity.
  - eexists. cbn [fst]. reflexivity.
Qed.

Theorem step_reads_preserve (st : list Slot) (o : op) :
  (match o with OBuild _ _ | OMerge _ _ | OReload _ _ => False | _ => True end) ->
  fst (Run.step st o) = st.
Proof.
  destruct o; intros H; try contradiction; reflexivity.
Qed.

Lemma step_preserves_slot (st : list Slot) (o : op) (k : nat) (s : Slot) :
  nth_error st k = Some s -> nth_error (fst (Run.step st o)) k = Some s.
Proof.
  intros H. destruct (step_preserves_slots st o) as [ext ->].
  rewrite nth_error_app1; [assumption|].
  apply nth_error_Some. congruence.
Qed.

Theorem run_preserves_slot (st : list Slot) (ops : list op) (k : nat) (s : Slot) :
  nth_error st k = Some s ->
  forall st', st' = fold_left (fun acc o => fst (Run.step acc o)) ops st ->
  nth_error st' k = Some s.
Proof.
  intros H st' ->. revert st H.
  induction ops as [|o ops IH]; intros st H; cbn [fold_left].
  - assumption.
  - apply IH. apply step_preserves_slot. assumption.
Qed.

Theorem merge_inputs_unchanged (st : list Slot) cm ins (k : nat) (s : Slot) :
  nth_error st k = Some s -> nth_error (fst (Run.step st (OMerge cm ins))) k = Some s.
Proof. apply step_preserves_slot. Qed.

(* ------------------------------------------------------------------ *)
(* C14: appending to distinct keys commutes                            *)
(* ------------------------------------------------------------------ *)

Definition upd {E} (st : list (N * list E)) (pe : N * E) : list (N * list E) :=
  (fix go (st : list (N * list E)) := match st with
     | [] => [(fst pe, [snd pe])]
     | (k, l) :: st' => if k =? fst pe then (k, l ++ [snd pe]) :: st' else (k, l) :: go st' end) st.
Definition lookup {E} (st : list (N * list E)) (k : N) : list E :=
  match find (fun p => fst p =? k) st with Some p => snd p | None => [] end.

Lemma upd_nil {E} (pe : N * E) : upd [] pe = [(fst pe, [snd pe])].
Proof. reflexivity. Qed.

Lemma upd_cons {E} (k : N) (l : list E) (st : list (N * list E)) (pe : N * E) :
  upd ((k, l) :: st) pe =
  if k =? fst pe then (k, l ++ [snd pe]) :: st else (k, l) :: upd st pe.
Proof. reflexivity. Qed.

Lemma lookup_cons {E} (a : N) (l : list E) (st : list (N * list E)) (k : N) :
  lookup ((a, l) :: st) k = if a =? k then l else lookup st k.
Proof. unfold lookup. cbn [find fst]. destruct (a =? k); reflexivity. Qed.

Lemma lookup_upd {E} (st : list (N * list E)) (k' : N) (e : E) (k : N) :
  lookup (upd st (k', e)) k = if k =? k' then lookup st k ++ [e] else lookup st k.
Proof.
  induction st as [|[a l] st IH].
  - rewrite upd_nil. cbn [fst snd]. rewrite lookup_cons.
    rewrite (N.eqb_sym k' k). destruct (k =? k'); reflexivity.
  - rewrite upd_cons. cbn [fst snd].
    destruct (a =? k') eqn:Eak.
    + apply N.eqb_eq in Eak. subst a. rewrite !lookup_cons.
      rewrite (N.eqb_sym k' k). destruct (k =? k'); reflexivity.
    + rewrite !lookup_cons. destruct (a =? k) eqn:Ea.
      * apply N.eqb_eq in Ea. subst a. rewrite Eak. reflexivity.
      * exact IH.
Qed.

Lemma lookup_fold {E} (es : list (N * E)) (st : list (N * list E)) (k : N) :
  lookup (fold_left upd es st) k
  = lookup st k ++ map snd (filter (fun p => fst p =? k) es).
Proof.
  revert st. induction es as [|[k' e] es IH]; intros st; cbn [fold_left filter fst].
  - cbn [map]. rewrite app_nil_r. reflexivity.
  - rewrite IH, lookup_upd. rewrite (N.eqb_sym k' k).
    destruct (k =? k'); cbn [map snd].
    + rewrite <- app_assoc. reflexivity.
    + reflexivity.
Qed.

Lemma perm_filter {X} (p : X -> bool) (l l' : list X) :
  Permutation l l' -> Permutation (filter p l) (filter p l').
Proof.
  induction 1 as [|x l l' _ IH|x y l|l l' l'' _ IH1 _ IH2]; cbn [filter].
  - constructor.
  - destruct (p x); [constructor|]; assumption.
  - destruct (p x), (p y); try reflexivity. apply perm_swap.
  - eapply perm_trans; eassumption.
Qed.

Lemma nodup_filter_key_short {E} (es : list (N * E)) (k : N) :
  NoDup (map fst es) -> (length (filter (fun p => fst p =? k) es) <= 1)%nat.
Proof.
  induction es as [|a es IH]; cbn [map filter length]; intros Hnd; [lia|].
  inversion Hnd as [|x l Hnotin Hnd']; subst.
  destruct (fst a =? k) eqn:Ea.
  - apply N.eqb_eq in Ea.
    assert (Hnil : filter (fun p : N * E => fst p =? k) es = []).
    { destruct (filter (fun p : N * E => fst p =? k) es) as [|b r] eqn:Ef; [reflexivity|].
      exfalso. apply Hnotin.
      assert (Hb : In b (filter (fun p : N * E => fst p =? k) es)) by (rewrite Ef; left; reflexivity).
      apply filter_In in Hb. destruct Hb as [Hb1 Hb2]. apply N.eqb_eq in Hb2.
      rewrite Ea, <- Hb2. apply in_map. assumption. }
    rewrite Hnil. cbn [length]. lia.
  - apply IH. assumption.
Qed.

Lemma perm_short_eq {X} (l l' : list X) :
  (length l <= 1)%nat -> Permutation l l' -> l = l'.
Proof.
  intros Hlen HP. destruct l as [|x [|y r]].
  - apply Permutation_nil in HP. congruence.
  - apply Permutation_length_1_inv in HP. congruence.
  - cbn [length] in Hlen. lia.
Qed.

Theorem apply_doc_order_irrelevant {E} (st : list (N * list E)) (es es' : list (N * E)) :
  NoDup (map fst es) -> Permutation es es' ->
  forall k, lookup (fold_left upd es' st) k = lookup (fold_left upd es st) k.
Proof.
  intros Hnd HP k. rewrite !lookup_fold. f_equal. f_equal. symmetry.
  apply perm_short_eq.
  - apply nodup_filter_key_short. assumption.
  - apply perm_filter. assumption.
Qed.

Theorem roll_up_instance_order_only (fname : bytes) (i1 i2 : list Field) :
  flat_map' f_terms i1 = flat_map' f_terms i2 -> roll_up fname i1 = roll_up fname i2.
Proof. unfold roll_up. intros ->. reflexivity. Qed.

(* Footer_Proofs.v - the 44-byte footer and its CRC-32: CRC algebra, layout,
   C11 (trailing CRC covers every preceding byte), parse/persist round trip,
   byte-identical re-persist, and the refutation of the pre-fix WriteTo. *)
From Coq Require Import List NArith PeanoNat Bool Lia.
From Ice Require Import Base Varint Crc32 Footer.
From IceProofs Require Import Varint_Proofs.
Import ListNotations.
Open Scope N_scope.
Require Import ZifyBool ZifyN ZifyNat.

Definition valid_footer (f : footer) : Prop :=
  ft_numDocs f < two64 /\ ft_stored f < two64 /\ ft_fields f < two64 /\ ft_dv f < two64 /\
  ft_chunkMode f < two32 /\ ft_crc f < two32.

(* ------------------------------------------------------------------ *)
(* constants                                                           *)

Lemma two32_pow2 : two32 = 2 ^ 32.
Proof. reflexivity. Qed.

Lemma two64_pow256 : 256 ^ N.of_nat 8 = two64.
Proof. vm_compute. reflexivity. Qed.

Lemma two32_pow256 : 256 ^ N.of_nat 4 = two32.
Proof. vm_compute. reflexivity. Qed.

(* ------------------------------------------------------------------ *)
(* CRC algebra                                                         *)

Lemma lxor_cancel (x m : N) : N.lxor (N.lxor x m) m = x.
Proof. rewrite N.lxor_assoc, N.lxor_nilpotent, N.lxor_0_r. reflexivity. Qed.

Lemma crc_raw_app (c : N) (a b : bytes) : crc_raw c (a ++ b) = crc_raw (crc_raw c a) b.
Proof. unfold crc_raw. apply fold_left_app. Qed.

Theorem crc_update_app (c : N) (a b : bytes) :
  crc_update c (a ++ b) = crc_update (crc_update c a) b.
Proof.
  unfold crc_update. rewrite crc_raw_app, lxor_cancel. reflexivity.
Qed.

Theorem crc32_app (a b : bytes) : crc32 (a ++ b) = crc_update (crc32 a) b.
Proof. unfold crc32. apply crc_update_app. Qed.

(* ------------------------------------------------------------------ *)
(* CRC bounds                                                          *)

Lemma lxor_lt_pow2 (a b n : N) : a < 2 ^ n -> b < 2 ^ n -> N.lxor a b < 2 ^ n.
Proof.
  intros Ha Hb.
  destruct (N.eq_dec a 0) as [Ea | Na].
  { subst a. rewrite N.lxor_0_l. exact Hb. }
  destruct (N.eq_dec b 0) as [Eb | Nb].
  { subst b. rewrite N.lxor_0_r. exact Ha. }
  destruct (N.eq_dec (N.lxor a b) 0) as [E | NE].
  { rewrite E. lia. }
  apply N.log2_lt_pow2; [lia |].
  pose proof (N.log2_lxor a b) as Hl.
  assert (La : N.log2 a < n) by (apply N.log2_lt_pow2; [lia | exact Ha]).
  assert (Lb : N.log2 b < n) by (apply N.log2_lt_pow2; [lia | exact Hb]).
  lia.
Qed.

Lemma lxor_lt_two32 (a b : N) : a < two32 -> b < two32 -> N.lxor a b < two32.
Proof. rewrite two32_pow2. apply lxor_lt_pow2. Qed.

Lemma crc_table_bounded : Forall (fun x => x < two32) crc_table.
Proof.
  apply Forall_forall. intros x Hx.
  assert (H : forallb (fun x => x <? two32) crc_table = true) by (vm_compute; reflexivity).
  rewrite forallb_forall in H. specialize (H x Hx). apply N.ltb_lt. exact H.
Qed.

Lemma nth_Forall {A} (P : A -> Prop) (l : list A) (d : A) :
  Forall P l -> P d -> forall n, P (nth n l d).
Proof.
  intros Hl Hd. induction Hl as [| x l Hx Hl IH]; intros n.
  - destruct n; exact Hd.
  - destruct n as [| n]; cbn [nth]; [exact Hx | apply IH].
Qed.

Lemma crc_table_nth (i : nat) : nth i crc_table 0 < two32.
Proof.
  apply nth_Forall; [exact crc_table_bounded | reflexivity].
Qed.

Lemma shiftr8_le (c : N) : N.shiftr c 8 <= c.
Proof.
  rewrite N.shiftr_div_pow2.
  apply N.div_le_upper_bound; [discriminate |].
  change (2 ^ 8) with 256. lia.
Qed.

Lemma crc_step_bound (c b : N) : c < two32 -> crc_step c b < two32.
Proof.
  intros Hc. unfold crc_step. apply lxor_lt_two32.
  - apply crc_table_nth.
  - pose proof (shiftr8_le c). lia.
Qed.

Lemma crc_raw_bound (p : bytes) : forall c, c < two32 -> crc_raw c p < two32.
Proof.
  unfold crc_raw. induction p as [| b p IH]; intros c Hc; cbn [fold_left].
  - exact Hc.
  - apply IH. apply crc_step_bound. exact Hc.
Qed.

Lemma mask32_lt : mask32 < two32.
Proof. reflexivity. Qed.

(* the byte hypothesis is not needed: crc_step masks its input byte *)
Lemma crc_update_bound' (c : N) (p : bytes) : c < two32 -> crc_update c p < two32.
Proof.
  intros Hc. unfold crc_update. apply lxor_lt_two32; [| exact mask32_lt].
  apply crc_raw_bound. apply lxor_lt_two32; [exact Hc | exact mask32_lt].
Qed.

Theorem crc_update_bound (c : N) (p : bytes) :
  c < two32 -> Forall is_byte p -> crc_update c p < two32.
Proof. intros Hc _. apply crc_update_bound'. exact Hc. Qed.

Lemma crc32_bound' (p : bytes) : crc32 p < two32.
Proof. unfold crc32. apply crc_update_bound'. reflexivity. Qed.

Theorem crc32_bound (p : bytes) : Forall is_byte p -> crc32 p < two32.
Proof. intros _. apply crc32_bound'. Qed.

Example crc32_check_value : crc32 [49;50;51;52;53;54;55;56;57] = 3421780262.
Proof. vm_compute. reflexivity. Qed.

(* ------------------------------------------------------------------ *)
(* layout                                                              *)

Theorem footer_body_length (f : footer) : length (footer_body f) = 40%nat.
Proof.
  unfold footer_body. rewrite !app_length, !be_bytes_length. reflexivity.
Qed.

Theorem persist_footer_length (f : footer) : length (persist_footer f) = 44%nat.
Proof.
  unfold persist_footer. rewrite app_length, footer_body_length, be_bytes_length. reflexivity.
Qed.

Theorem writeto_length (data : bytes) (f : footer) :
  length (segment_writeto data f) = (length data + 44)%nat.
Proof.
  unfold segment_writeto. rewrite app_length, persist_footer_length. reflexivity.
Qed.

Theorem merger_writeto_length (data : bytes) nd st fl dv cm :
  length (merger_writeto data nd st fl dv cm) = (length data + 44)%nat.
Proof.
  unfold merger_writeto. rewrite app_length, persist_footer_length. reflexivity.
Qed.

(* ------------------------------------------------------------------ *)
(* take_last / drop_last on an append                                  *)

Lemma skipn_length_app {A} (d t : list A) : skipn (length d) (d ++ t) = t.
Proof. induction d as [| x d IH]; cbn [length skipn app]; [reflexivity | exact IH]. Qed.

Lemma firstn_length_app {A} (d t : list A) : firstn (length d) (d ++ t) = d.
Proof.
  induction d as [| x d IH]; cbn [length firstn app]; [reflexivity | rewrite IH; reflexivity].
Qed.

Lemma take_last_app (n : nat) (d t : bytes) : length t = n -> take_last n (d ++ t) = t.
Proof.
  intros H. unfold take_last. rewrite app_length.
  replace (length d + length t - n)%nat with (length d) by lia.
  apply skipn_length_app.
Qed.

Lemma drop_last_app (n : nat) (d t : bytes) : length t = n -> drop_last n (d ++ t) = d.
Proof.
  intros H. unfold drop_last. rewrite app_length.
  replace (length d + length t - n)%nat with (length d) by lia.
  apply firstn_length_app.
Qed.

(* ------------------------------------------------------------------ *)
(* C11                                                                 *)

Lemma persist_crc_ok (data : bytes) (f : footer) :
  ft_crc f = crc32 data -> crc_ok (data ++ persist_footer f) = true.
Proof.
  intros Hc. unfold crc_ok, persist_footer.
  rewrite app_assoc.
  rewrite take_last_app by apply be_bytes_length.
  rewrite drop_last_app by apply be_bytes_length.
  rewrite crc32_app, Hc.
  rewrite be_value_bytes.
  - apply N.eqb_refl.
  - rewrite two32_pow256. apply crc_update_bound'. apply crc32_bound'.
Qed.

Theorem writeto_crc (data : bytes) (f : footer) :
  Forall is_byte data -> crc_ok (segment_writeto data f) = true.
Proof. intros _. unfold segment_writeto. apply persist_crc_ok. reflexivity. Qed.

Theorem merger_crc (data : bytes) nd st fl dv cm :
  Forall is_byte data -> crc_ok (merger_writeto data nd st fl dv cm) = true.
Proof. intros _. unfold merger_writeto. apply persist_crc_ok. reflexivity. Qed.

(* ------------------------------------------------------------------ *)
(* parseFooter                                                         *)

Lemma skipn_block {A} (n m : nat) (b rest : list A) :
  length b = n -> skipn (n + m) (b ++ rest) = skipn m rest.
Proof.
  intros H. subst n. induction b as [| x b IH]; cbn [length Nat.add skipn app].
  - reflexivity.
  - exact IH.
Qed.

Lemma firstn_block {A} (n : nat) (b rest : list A) :
  length b = n -> firstn n (b ++ rest) = b.
Proof. intros H. subst n. apply firstn_length_app. Qed.

Lemma firstn_exact {A} (n : nat) (b : list A) : length b = n -> firstn n b = b.
Proof. intros H. subst n. apply firstn_all. Qed.

(* seven consecutive blocks of widths 8 8 8 8 4 4 4 *)
Lemma fields7 (b0 b1 b2 b3 b4 b5 b6 : bytes) :
  length b0 = 8%nat -> length b1 = 8%nat -> length b2 = 8%nat -> length b3 = 8%nat ->
  length b4 = 4%nat -> length b5 = 4%nat -> length b6 = 4%nat ->
  let l := b0 ++ b1 ++ b2 ++ b3 ++ b4 ++ b5 ++ b6 in
  firstn 8 (skipn 0 l) = b0 /\ firstn 8 (skipn 8 l) = b1 /\ firstn 8 (skipn 16 l) = b2 /\
  firstn 8 (skipn 24 l) = b3 /\ firstn 4 (skipn 32 l) = b4 /\ firstn 4 (skipn 36 l) = b5 /\
  firstn 4 (skipn 40 l) = b6.
Proof.
  intros H0 H1 H2 H3 H4 H5 H6 l. subst l.
  assert (S0 : forall r, skipn 8 (b0 ++ r) = r).
  { intros r. exact (skipn_block 8 0 b0 r H0). }
  assert (S1 : forall r, skipn 16 (b0 ++ b1 ++ r) = r).
  { intros r. exact (eq_trans (skipn_block 8 8 b0 _ H0) (skipn_block 8 0 b1 r H1)). }
  assert (S2 : forall r, skipn 24 (b0 ++ b1 ++ b2 ++ r) = r).
  { intros r. exact (eq_trans (skipn_block 8 16 b0 _ H0)
                     (eq_trans (skipn_block 8 8 b1 _ H1) (skipn_block 8 0 b2 r H2))). }
  assert (S3 : forall r, skipn 32 (b0 ++ b1 ++ b2 ++ b3 ++ r) = r).
  { intros r. exact (eq_trans (skipn_block 8 24 b0 _ H0)
                     (eq_trans (skipn_block 8 16 b1 _ H1)
                     (eq_trans (skipn_block 8 8 b2 _ H2) (skipn_block 8 0 b3 r H3)))). }
  assert (S4 : forall r, skipn 36 (b0 ++ b1 ++ b2 ++ b3 ++ b4 ++ r) = r).
  { intros r. exact (eq_trans (skipn_block 8 28 b0 _ H0)
                     (eq_trans (skipn_block 8 20 b1 _ H1)
                     (eq_trans (skipn_block 8 12 b2 _ H2)
                     (eq_trans (skipn_block 8 4 b3 _ H3) (skipn_block 4 0 b4 r H4))))). }
  assert (S5 : forall r, skipn 40 (b0 ++ b1 ++ b2 ++ b3 ++ b4 ++ b5 ++ r) = r).
  { intros r. exact (eq_trans (skipn_block 8 32 b0 _ H0)
                     (eq_trans (skipn_block 8 24 b1 _ H1)
                     (eq_trans (skipn_block 8 16 b2 _ H2)
                     (eq_trans (skipn_block 8 8 b3 _ H3)
                     (eq_trans (skipn_block 4 4 b4 _ H4) (skipn_block 4 0 b5 r H5)))))). }
  repeat split.
  - cbn [skipn]. apply firstn_block. exact H0.
  - rewrite S0. apply firstn_block. exact H1.
  - rewrite S1. apply firstn_block. exact H2.
  - rewrite S2. apply firstn_block. exact H3.
  - rewrite S3. apply firstn_block. exact H4.
  - rewrite S4. apply firstn_block. exact H5.
  - rewrite S5. apply firstn_exact. exact H6.
Qed.

Theorem parse_persist (data : bytes) (f : footer) :
  valid_footer f ->
  parse_footer (data ++ persist_footer f) =
  Ok (mkFooter (ft_numDocs f) (ft_stored f) (ft_fields f) (ft_dv f) (ft_chunkMode f) Version
               (crc_update (ft_crc f) (footer_body f))).
Proof.
  intros (Hn & Hs & Hf & Hd & Hm & Hc).
  unfold parse_footer. cbv zeta.
  assert (Hlen : Nat.ltb (length (data ++ persist_footer f)) footerLen = false).
  { apply Nat.ltb_ge. rewrite app_length, persist_footer_length. unfold footerLen. lia. }
  rewrite Hlen.
  rewrite take_last_app by apply persist_footer_length.
  set (crc := crc_update (ft_crc f) (footer_body f)).
  assert (Hcrc : crc < two32) by (apply crc_update_bound'; exact Hc).
  assert (Hp : persist_footer f =
               be_bytes 8 (ft_numDocs f) ++ be_bytes 8 (ft_stored f) ++ be_bytes 8 (ft_fields f) ++
               be_bytes 8 (ft_dv f) ++ be_bytes 4 (ft_chunkMode f) ++ be_bytes 4 Version ++
               be_bytes 4 crc).
  { unfold persist_footer. fold crc. unfold footer_body. rewrite <- !app_assoc. reflexivity. }
  rewrite Hp.
  destruct (fields7 (be_bytes 8 (ft_numDocs f)) (be_bytes 8 (ft_stored f))
                    (be_bytes 8 (ft_fields f)) (be_bytes 8 (ft_dv f))
                    (be_bytes 4 (ft_chunkMode f)) (be_bytes 4 Version) (be_bytes 4 crc))
    as (E0 & E1 & E2 & E3 & E4 & E5 & E6); try apply be_bytes_length.
  rewrite E0, E1, E2, E3, E4, E5, E6.
  assert (HV : Version < two32) by reflexivity.
  rewrite (be_value_bytes 8 (ft_numDocs f)) by (rewrite two64_pow256; exact Hn).
  rewrite (be_value_bytes 8 (ft_stored f)) by (rewrite two64_pow256; exact Hs).
  rewrite (be_value_bytes 8 (ft_fields f)) by (rewrite two64_pow256; exact Hf).
  rewrite (be_value_bytes 8 (ft_dv f)) by (rewrite two64_pow256; exact Hd).
  rewrite (be_value_bytes 4 (ft_chunkMode f)) by (rewrite two32_pow256; exact Hm).
  rewrite (be_value_bytes 4 Version) by (rewrite two32_pow256; exact HV).
  rewrite (be_value_bytes 4 crc) by (rewrite two32_pow256; exact Hcrc).
  rewrite N.eqb_refl. cbn [negb]. reflexivity.
Qed.

Theorem writeto_footer_fields (data : bytes) (f : footer) :
  valid_footer f -> Forall is_byte data ->
  exists ft, parse_footer (segment_writeto data f) = Ok ft /\
    ft_numDocs ft = ft_numDocs f /\ ft_stored ft = ft_stored f /\ ft_fields ft = ft_fields f /\
    ft_dv ft = ft_dv f /\ ft_chunkMode ft = ft_chunkMode f /\ ft_version ft = Version /\
    ft_crc ft = crc32 (drop_last 4 (segment_writeto data f)).
Proof.
  intros (Hn & Hs & Hf & Hd & Hm & Hc) _.
  unfold segment_writeto.
  eexists. split.
  - apply parse_persist. unfold valid_footer. cbn [ft_numDocs ft_stored ft_fields ft_dv ft_chunkMode ft_crc].
    repeat split; try assumption. apply crc32_bound'.
  - cbn [ft_numDocs ft_stored ft_fields ft_dv ft_chunkMode ft_version ft_crc].
    repeat split.
    unfold persist_footer. rewrite app_assoc.
    rewrite drop_last_app by apply be_bytes_length.
    rewrite crc32_app. cbn [ft_crc]. reflexivity.
Qed.

Theorem parse_short (file : bytes) : (length file < 44)%nat -> parse_footer file = Err.
Proof.
  intros H. unfold parse_footer.
  assert (E : Nat.ltb (length file) footerLen = true).
  { apply Nat.ltb_lt. unfold footerLen. exact H. }
  rewrite E. reflexivity.
Qed.

(* ------------------------------------------------------------------ *)
(* re-persisting a loaded segment                                      *)

Theorem repersist_identical (data : bytes) (f : footer) :
  valid_footer f -> Forall is_byte data ->
  forall ft, parse_footer (segment_writeto data f) = Ok ft ->
  drop_last 44 (segment_writeto data f) = data /\
  segment_writeto (drop_last 44 (segment_writeto data f)) ft = segment_writeto data f.
Proof.
  intros (Hn & Hs & Hf & Hd & Hm & Hc) _ ft Hparse.
  assert (Hdrop : drop_last 44 (segment_writeto data f) = data).
  { unfold segment_writeto. apply drop_last_app. apply persist_footer_length. }
  split; [exact Hdrop |].
  rewrite Hdrop.
  unfold segment_writeto in Hparse.
  rewrite parse_persist in Hparse.
  2:{ unfold valid_footer. cbn [ft_numDocs ft_stored ft_fields ft_dv ft_chunkMode ft_crc].
      repeat split; try assumption. apply crc32_bound'. }
  injection Hparse as Hft. subst ft.
  unfold segment_writeto, persist_footer, footer_body.
  cbn [ft_numDocs ft_stored ft_fields ft_dv ft_chunkMode ft_version ft_crc].
  reflexivity.
Qed.

(* ------------------------------------------------------------------ *)
(* the repaired defect: pre-fix WriteTo seeded the footer CRC with the
   crc field of the loaded footer, which is the whole-file CRC           *)

Definition segment_writeto_prefix (data : bytes) (f : footer) : bytes := data ++ persist_footer f.

Theorem repersist_prefix_refuted :
  exists data f ft, parse_footer (segment_writeto_prefix data f) = Ok ft /\
    ft_crc f = crc32 data /\
    crc_ok (segment_writeto_prefix data f) = true /\
    crc_ok (segment_writeto_prefix data ft) = false.
Proof.
  exists [1;2;3].
  exists (mkFooter 1 0 0 0 1025 2 (crc32 [1;2;3])).
  exists (mkFooter 1 0 0 0 1025 2
            (crc_update (crc32 [1;2;3])
               (footer_body (mkFooter 1 0 0 0 1025 2 (crc32 [1;2;3]))))).
  split; [vm_compute; reflexivity |].
  split; [reflexivity |].
  split; vm_compute; reflexivity.
Qed.

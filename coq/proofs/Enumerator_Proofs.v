(* Enumerator_Proofs.v - the enumerator of /repo/enumerator.go (model: Ice.Enumerator)
   visits every (term, segment) pair exactly once, by term then segment index,
   including the empty term; GetLowIdxsAndValues returns exactly the segments
   that contain the current term. *)
From Coq Require Import List NArith Bool Lia Sorting Permutation Arith.
From Ice Require Import Base Enumerator.
From IceProofs Require Import Sort_Proofs.
Import ListNotations.
Local Open Scope nat_scope.

(* ------------------------------------------------------------------ *)
(* small list utilities                                                *)
(* ------------------------------------------------------------------ *)

Lemma set_nth_length {A} (l : list A) i x : length (set_nth l i x) = length l.
Proof.
  revert i; induction l as [|y l IH]; intros [|i]; cbn [set_nth length]; auto.
Qed.

Lemma nth_set_nth_eq {A} (l : list A) i x d : i < length l -> nth i (set_nth l i x) d = x.
Proof.
  revert i; induction l as [|y l IH]; intros [|i] H; cbn [length] in H; try lia;
    cbn [set_nth nth]; auto. apply IH; lia.
Qed.

Lemma nth_set_nth_neq {A} (l : list A) i j x d : i <> j -> nth j (set_nth l i x) d = nth j l d.
Proof.
  revert i j; induction l as [|y l IH]; intros [|i] [|j] H; cbn [set_nth nth]; auto; try lia.
Qed.

Lemma filter_nil_iff {A} (p : A -> bool) (l : list A) :
  (forall x, In x l -> p x = false) -> filter p l = [].
Proof.
  induction l as [|y l IH]; intros H; cbn [filter]; auto.
  rewrite (H y (or_introl eq_refl)). apply IH. intros x Hx. apply H. right; auto.
Qed.

Lemma filter_seq_S (p : nat -> bool) n :
  filter p (seq 0 (S n)) = filter p (seq 0 n) ++ (if p n then [n] else []).
Proof. rewrite seq_S, filter_app. reflexivity. Qed.

Lemma skipn_nth_cons {A} (l : list A) c d :
  c < length l -> skipn c l = nth c l d :: skipn (S c) l.
Proof.
  revert c; induction l as [|y l IH]; intros [|c] H; cbn [length] in H; try lia.
  - reflexivity.
  - cbn [skipn nth]. rewrite (IH c) by lia. reflexivity.
Qed.

Lemma StronglySorted_app {A} (R : A -> A -> Prop) (l1 l2 : list A) :
  StronglySorted R l1 -> StronglySorted R l2 ->
  (forall a b, In a l1 -> In b l2 -> R a b) -> StronglySorted R (l1 ++ l2).
Proof.
  induction l1 as [|x l1 IH]; intros H1 H2 H; cbn [app]; auto.
  inversion H1 as [|? ? Hs Hf]; subst. constructor.
  - apply IH; auto. intros a b Ha Hb. apply H; [right|]; auto.
  - apply Forall_forall. intros y Hy. apply in_app_or in Hy. destruct Hy as [Hy|Hy].
    + rewrite Forall_forall in Hf. auto.
    + apply H; [left|]; auto.
Qed.

Lemma filter_seq_sorted (p : nat -> bool) s n :
  StronglySorted lt (filter p (seq s n)).
Proof.
  revert s; induction n as [|n IH]; intros s; cbn [seq filter]; [constructor|].
  destruct (p s).
  - constructor; [apply IH|]. apply Forall_forall. intros y Hy.
    apply filter_In in Hy. destruct Hy as [Hy _]. apply in_seq in Hy. lia.
  - apply IH.
Qed.

(* ------------------------------------------------------------------ *)
(* byte order facts                                                    *)
(* ------------------------------------------------------------------ *)

Lemma blt_ble (a b : bytes) : blt a b = true -> ble a b = true.
Proof. intros H. apply ble_lt_or_eq. auto. Qed.

Lemma blt_not_ble (a b : bytes) : blt a b = true -> ble b a = true -> False.
Proof.
  unfold blt, ble. rewrite (bcmp_antisym a b). destruct (bcmp a b); cbn; discriminate.
Qed.

Lemma bcmp_gt_ble (a b : bytes) : bcmp a b = Gt -> ble b a = true.
Proof. unfold ble. rewrite (bcmp_antisym a b). intros ->. reflexivity. Qed.

Lemma blt_ble_trans (a b c : bytes) : blt a b = true -> ble b c = true -> blt a c = true.
Proof.
  intros H1 H2. apply ble_lt_or_eq in H2. destruct H2 as [H2| ->]; auto.
  eapply blt_trans; eauto.
Qed.

Lemma ble_blt_trans (a b c : bytes) : ble a b = true -> blt b c = true -> blt a c = true.
Proof.
  intros H1 H2. apply ble_lt_or_eq in H1. destruct H1 as [H1| ->]; auto.
  eapply blt_trans; eauto.
Qed.

Lemma blt_neq (a b : bytes) : blt a b = true -> a <> b.
Proof. intros H ->. rewrite blt_irrefl in H. discriminate. Qed.

Lemma beq_false_neq (a b : bytes) : a <> b -> beq a b = false.
Proof.
  intros H. destruct (beq a b) eqn:E; auto. apply beq_eq in E. contradiction.
Qed.

(* ------------------------------------------------------------------ *)
(* updateMatches: the loop invariant                                   *)
(* ------------------------------------------------------------------ *)

Section UpdateMatches.
  Variable skip : bool.
  Variable ks : list gokey.
  Variable vs : list N.

  (* entry j is not skipped by the two `continue` tests *)
  Definition um_act (j : nat) : bool :=
    negb ((key_is_nil (nth j ks None) && (nth j vs 0 =? 0)%N)
          || (key_len0 (nth j ks None) && skip)).
  Definition um_kb (j : nat) : bytes := key_bytes (nth j ks None).

  Definition um_inv (i : nat) (st : gokey * list nat) : Prop :=
    let '(lowK, L) := st in
    L = filter (fun j => um_act j && beq (um_kb j) (key_bytes lowK)) (seq 0 i)
    /\ (forall j, j < i -> um_act j = true ->
                  L <> [] /\ ble (key_bytes lowK) (um_kb j) = true)
    /\ (L = [] -> lowK = None).

  Lemma um_fold_inv (i : nat) :
    um_inv i (fold_left (um_step skip ks vs) (seq 0 i) (None, [])).
  Proof.
    induction i as [|i IH].
    - cbn. repeat split; auto; intros; lia.
    - rewrite seq_S, fold_left_app. cbn [fold_left plus].
      destruct (fold_left (um_step skip ks vs) (seq 0 i) (None, [])) as [lowK L].
      destruct IH as (I1 & I2 & I3).
      unfold um_step.
      destruct ((key_is_nil (nth i ks None) && (nth i vs 0 =? 0)%N)
                || (key_len0 (nth i ks None) && skip)) eqn:Eskip.
      + (* continue *)
        assert (Hact : um_act i = false) by (unfold um_act; rewrite Eskip; reflexivity).
        unfold um_inv. rewrite filter_seq_S, Hact. cbn [andb]. rewrite app_nil_r.
        split; [exact I1|]. split; [|exact I3].
        intros j Hj Hja. apply I2; auto.
        assert (j <> i) by (intros ->; congruence). lia.
      + assert (Hact : um_act i = true) by (unfold um_act; rewrite Eskip; reflexivity).
        fold (um_kb i).
        destruct ((match bcmp (um_kb i) (key_bytes lowK) with Lt => true | _ => false end)
                  || Nat.eqb (length L) 0) eqn:Enew.
        * (* reached a new low *)
          unfold um_inv. rewrite filter_seq_S.
          change (key_bytes (nth i ks None)) with (um_kb i).
          rewrite Hact, beq_refl. cbn [andb].
          assert (Hlow : forall j, j < i -> um_act j = true ->
                                   blt (um_kb i) (um_kb j) = true).
          { intros j Hj Hja. destruct (I2 j Hj Hja) as [HL Hle].
            apply orb_true_iff in Enew. destruct Enew as [E|E].
            - eapply blt_ble_trans; [|exact Hle]. unfold blt.
              destruct (bcmp (um_kb i) (key_bytes lowK)); auto; discriminate.
            - apply Nat.eqb_eq in E. destruct L; [contradiction|discriminate]. }
          rewrite filter_nil_iff.
          2:{ intros j Hj. apply in_seq in Hj. destruct (um_act j) eqn:Ej; auto.
              cbn [andb]. apply beq_false_neq. intros Heq.
              assert (Hlt := Hlow j ltac:(lia) Ej). rewrite Heq, blt_irrefl in Hlt.
              discriminate. }
          split; [reflexivity|]. split; [|discriminate].
          intros j Hj Hja. split; [discriminate|].
          destruct (Nat.eq_dec j i) as [->|Hne]; [apply ble_refl|].
          apply blt_ble, Hlow; auto. lia.
        * apply orb_false_iff in Enew. destruct Enew as [Ecmp Elen].
          assert (HL : L <> []).
          { intros ->. cbn in Elen. discriminate. }
          destruct (bcmp (um_kb i) (key_bytes lowK)) eqn:Ec; try discriminate.
          -- (* cmp == 0 *)
             apply bcmp_eq in Ec.
             unfold um_inv. rewrite filter_seq_S, Hact, Ec, beq_refl. cbn [andb].
             assert (Hnn : L ++ [i] <> []).
             { intros E. apply app_eq_nil in E. destruct E; discriminate. }
             split; [rewrite <- I1; reflexivity|]. split; [|intros E; contradiction].
             intros j Hj Hja. split; [exact Hnn|].
             destruct (Nat.eq_dec j i) as [->|Hne]; [rewrite Ec; apply ble_refl|].
             apply I2; auto. lia.
          -- (* cmp > 0 *)
             unfold um_inv. rewrite filter_seq_S.
             assert (Hb : beq (um_kb i) (key_bytes lowK) = false).
             { apply beq_false_neq. intros Heq. rewrite Heq, bcmp_refl in Ec. discriminate. }
             rewrite Hb, andb_false_r, app_nil_r.
             split; [exact I1|]. split; [|exact I3].
             intros j Hj Hja. split; [exact HL|].
             destruct (Nat.eq_dec j i) as [->|Hne]; [apply bcmp_gt_ble; auto|].
             apply I2; auto. lia.
  Qed.
End UpdateMatches.

(* ------------------------------------------------------------------ *)
(* the enumerator state against the remaining pairs of its iterators   *)
(* ------------------------------------------------------------------ *)

Definition live (l : vitr) : bool := match l with [] => false | _ :: _ => true end.
Definition hkey (l : vitr) : bytes := match l with (k, _) :: _ => k | [] => [] end.
Definition hval (l : vitr) : N := match l with (_, v) :: _ => v | [] => 0%N end.

(* well-formedness of one iterator: strictly ascending keys; the empty key,
   if present, has a non-zero value (true of every FST written by ice) *)
Definition key_sorted (l : vitr) : Prop :=
  StronglySorted (fun a b => blt (fst a) (fst b) = true) l.
Definition empty_key_nz (l : vitr) : Prop := forall v, In ([], v) l -> v <> 0%N.
(* the stronger condition of the task statement: no value is 0 *)
Definition values_nz (l : vitr) : Prop := Forall (fun p => snd p <> 0%N) l.

Lemma values_nz_empty_key_nz l : values_nz l -> empty_key_nz l.
Proof.
  intros H v Hin. unfold values_nz in H. rewrite Forall_forall in H. apply (H _ Hin).
Qed.

(* currKs / currVs mirror Current() of every iterator *)
Record CurrOK (e : enumerator) : Prop := {
  co_roots : length (e_roots e) = length (e_itrs e);
  co_ks : length (e_currKs e) = length (e_itrs e);
  co_vs : length (e_currVs e) = length (e_itrs e);
  co_cur : forall j, j < length (e_itrs e) ->
      (nth j (e_currKs e) None, nth j (e_currVs e) 0%N)
      = vit_current (nth j (e_roots e) None) (nth j (e_itrs e) []) }.

(* why the two `continue` tests of updateMatches skip exactly the exhausted
   iterators: with skipEmptyKey no live iterator is on ""; without it (first
   call) no iterator is exhausted on a final root *)
Definition SkipOK (skip : bool) (e : enumerator) : Prop :=
  forall j, j < length (e_itrs e) ->
    if skip then live (nth j (e_itrs e) []) = true -> hkey (nth j (e_itrs e) []) <> []
    else nth j (e_roots e) None <> None -> live (nth j (e_itrs e) []) = true.

Lemma act_live skip e j :
  CurrOK e -> Forall empty_key_nz (e_itrs e) -> SkipOK skip e -> j < length (e_itrs e) ->
  um_act skip (e_currKs e) (e_currVs e) j = live (nth j (e_itrs e) [])
  /\ (live (nth j (e_itrs e) []) = true ->
      um_kb (e_currKs e) j = hkey (nth j (e_itrs e) [])
      /\ nth j (e_currVs e) 0%N = hval (nth j (e_itrs e) [])).
Proof.
  intros HC Hnz HS Hj.
  pose proof (co_cur e HC j Hj) as Hcur.
  specialize (HS j Hj).
  assert (Hnzj : empty_key_nz (nth j (e_itrs e) [])).
  { rewrite Forall_forall in Hnz. apply Hnz. apply nth_In; auto. }
  unfold um_act, um_kb.
  destruct (nth j (e_itrs e) []) as [|[k v] l'] eqn:E.
  - cbn [vit_current live] in *.
    destruct (nth j (e_roots e) None) as [v0|] eqn:R.
    + injection Hcur as Hk Hv. rewrite Hk. cbn.
      destruct skip; cbn; [split; [auto|discriminate]|].
      assert (false = true) by (apply HS; discriminate). discriminate.
    + injection Hcur as Hk Hv. rewrite Hk, Hv. cbn. split; [auto|discriminate].
  - cbn [live hkey hval].
    destruct k as [|b k'].
    + cbn [vit_current] in Hcur. injection Hcur as Hk Hv. rewrite Hk, Hv.
      assert (v <> 0%N) by (apply Hnzj; left; reflexivity).
      assert (Ev : (v =? 0)%N = false) by (apply N.eqb_neq; auto).
      rewrite Ev. cbn.
      destruct skip; cbn; [|auto].
      exfalso. apply HS; auto.
    + cbn [vit_current] in Hcur. injection Hcur as Hk Hv. rewrite Hk, Hv. cbn. auto.
Qed.

(* lowK / lowIdxs describe the iterators positioned on the lowest key *)
Definition on_key (its : list vitr) (m : bytes) (j : nat) : bool :=
  live (nth j its []) && beq (hkey (nth j its [])) m.

Definition LowOK (e : enumerator) : Prop :=
  e_lowIdxs e = filter (on_key (e_itrs e) (key_bytes (e_lowK e))) (seq 0 (length (e_itrs e)))
  /\ (forall j, j < length (e_itrs e) -> live (nth j (e_itrs e) []) = true ->
        e_lowIdxs e <> []
        /\ ble (key_bytes (e_lowK e)) (hkey (nth j (e_itrs e) [])) = true)
  /\ (e_lowIdxs e = [] -> e_lowK e = None).

Lemma update_matches_fields skip e :
  e_itrs (update_matches skip e) = e_itrs e /\
  e_roots (update_matches skip e) = e_roots e /\
  e_currKs (update_matches skip e) = e_currKs e /\
  e_currVs (update_matches skip e) = e_currVs e /\
  e_lowCurr (update_matches skip e) = 0.
Proof.
  unfold update_matches.
  destruct (fold_left _ _ _) as [lowK L]. cbn. auto.
Qed.

Lemma update_matches_ok skip e :
  CurrOK e -> Forall empty_key_nz (e_itrs e) -> SkipOK skip e ->
  CurrOK (update_matches skip e) /\ LowOK (update_matches skip e).
Proof.
  intros HC Hnz HS.
  pose proof (um_fold_inv skip (e_currKs e) (e_currVs e) (length (e_currKs e))) as Hinv.
  unfold update_matches.
  destruct (fold_left _ _ _) as [lowK L].
  destruct Hinv as (I1 & I2 & I3).
  rewrite (co_ks e HC) in I1, I2.
  split.
  - destruct HC as [H1 H2 H3 H4]. constructor; cbn; auto.
  - unfold LowOK. cbn [e_itrs e_lowK e_lowIdxs].
    split; [|split; [|exact I3]].
    + rewrite I1. apply filter_ext_in. intros j Hj. apply in_seq in Hj.
      destruct (act_live skip e j HC Hnz HS ltac:(lia)) as [Ha Hl].
      unfold on_key. rewrite Ha.
      destruct (live (nth j (e_itrs e) [])); [|reflexivity].
      destruct (Hl eq_refl) as [Hk _]. rewrite Hk. reflexivity.
    + intros j Hj Hlive.
      destruct (act_live skip e j HC Hnz HS Hj) as [Ha Hl].
      destruct (Hl Hlive) as [Hk _]. rewrite <- Hk. apply I2; auto.
      rewrite Ha; auto.
Qed.

(* ------------------------------------------------------------------ *)
(* advancing the low iterators                                         *)
(* ------------------------------------------------------------------ *)

Lemma advance_one_ok e vi :
  CurrOK e -> vi < length (e_itrs e) -> CurrOK (advance_one e vi).
Proof.
  intros [H1 H2 H3 H4] Hvi. unfold advance_one.
  constructor; cbn [e_itrs e_roots e_currKs e_currVs]; rewrite ?set_nth_length; auto.
  intros j Hj. destruct (Nat.eq_dec vi j) as [->|Hne].
  - rewrite !nth_set_nth_eq by lia. symmetry. apply surjective_pairing.
  - rewrite !nth_set_nth_neq by auto. apply H4; auto.
Qed.

Definition adv_all (L : list nat) (r : list vitr) : list vitr :=
  fold_left (fun r vi => set_nth r vi (tl (nth vi r []))) L r.

Lemma adv_all_length L r : length (adv_all L r) = length r.
Proof.
  revert r; induction L as [|vi L IH]; intros r; cbn [adv_all fold_left]; auto.
  fold (adv_all L (set_nth r vi (tl (nth vi r [])))). rewrite IH. apply set_nth_length.
Qed.

Lemma fold_advance_ok L e :
  CurrOK e -> (forall vi, In vi L -> vi < length (e_itrs e)) ->
  CurrOK (fold_left advance_one L e)
  /\ e_itrs (fold_left advance_one L e) = adv_all L (e_itrs e).
Proof.
  revert e; induction L as [|vi L IH]; intros e HC HL; cbn [fold_left adv_all]; auto.
  fold (adv_all L (set_nth (e_itrs e) vi (tl (nth vi (e_itrs e) [])))).
  assert (Hvi : vi < length (e_itrs e)) by (apply HL; left; auto).
  destruct (IH (advance_one e vi)) as [IH1 IH2].
  - apply advance_one_ok; auto.
  - intros x Hx. unfold advance_one. cbn [e_itrs]. rewrite set_nth_length.
    apply HL; right; auto.
  - split; auto.
Qed.

Lemma adv_all_nth L r j :
  NoDup L -> (forall vi, In vi L -> vi < length r) ->
  nth j (adv_all L r) [] = if existsb (Nat.eqb j) L then tl (nth j r []) else nth j r [].
Proof.
  revert r; induction L as [|vi L IH]; intros r Hnd HL; cbn [adv_all fold_left existsb]; auto.
  fold (adv_all L (set_nth r vi (tl (nth vi r [])))).
  inversion Hnd as [|? ? Hni Hnd']; subst.
  rewrite IH; auto.
  2:{ intros x Hx. rewrite set_nth_length. apply HL; right; auto. }
  destruct (Nat.eqb j vi) eqn:E.
  - apply Nat.eqb_eq in E. subst j. cbn [orb].
    assert (Hex : existsb (Nat.eqb vi) L = false).
    { destruct (existsb (Nat.eqb vi) L) eqn:Ex; auto.
      apply existsb_exists in Ex. destruct Ex as [x [Hx Ex]].
      apply Nat.eqb_eq in Ex. subst x. contradiction. }
    rewrite Hex. apply nth_set_nth_eq. apply HL; left; auto.
  - apply Nat.eqb_neq in E. cbn [orb]. rewrite nth_set_nth_neq by auto. reflexivity.
Qed.

Lemma total_set_nth_tl r vi :
  vi < length r -> nth vi r [] <> [] ->
  total_pairs (set_nth r vi (tl (nth vi r []))) + 1 = total_pairs r.
Proof.
  revert vi; induction r as [|l r IH]; intros [|vi] Hlen Hne; cbn [length] in Hlen; try lia.
  - cbn [nth set_nth total_pairs] in *. destruct l; [contradiction|]. cbn [tl length]. lia.
  - cbn [nth set_nth total_pairs] in *. specialize (IH vi ltac:(lia) Hne). lia.
Qed.

Lemma adv_all_total L r :
  NoDup L -> (forall vi, In vi L -> vi < length r /\ nth vi r [] <> []) ->
  total_pairs (adv_all L r) + length L = total_pairs r.
Proof.
  revert r; induction L as [|vi L IH]; intros r Hnd HL; cbn [adv_all fold_left length]; [lia|].
  fold (adv_all L (set_nth r vi (tl (nth vi r [])))).
  inversion Hnd as [|? ? Hni Hnd']; subst.
  destruct (HL vi (or_introl eq_refl)) as [Hvi Hne].
  pose proof (total_set_nth_tl r vi Hvi Hne) as Ht.
  rewrite <- Ht.
  rewrite <- (IH (set_nth r vi (tl (nth vi r [])))); auto; [lia|].
  intros x Hx. rewrite set_nth_length.
  destruct (HL x (or_intror Hx)) as [Hx1 Hx2]. split; auto.
  rewrite nth_set_nth_neq; auto. intros ->. contradiction.
Qed.

(* ------------------------------------------------------------------ *)
(* one round of the merge loop: the steps on one low key               *)
(* ------------------------------------------------------------------ *)

Definition set_lc (e : enumerator) (c : nat) : enumerator :=
  mkEnum (e_itrs e) (e_roots e) (e_currKs e) (e_currVs e) (e_lowK e) (e_lowIdxs e) c.

Lemma fold_advance_set_lc L e c :
  fold_left advance_one L (set_lc e c) = set_lc (fold_left advance_one L e) c.
Proof.
  revert e; induction L as [|vi L IH]; intros e; cbn [fold_left]; auto.
  change (advance_one (set_lc e c) vi) with (set_lc (advance_one e vi) c). apply IH.
Qed.

(* the state after the last step on the current low key *)
Definition round_end (e : enumerator) : enumerator :=
  update_matches true (fold_left advance_one (e_lowIdxs e) e).

Lemma round_end_set_lc e c : round_end (set_lc e c) = round_end e.
Proof.
  unfold round_end. cbn [set_lc e_lowIdxs]. rewrite fold_advance_set_lc. reflexivity.
Qed.

(* what the loop body sees when the enumerator points at iterator idx *)
Definition emit (e : enumerator) (idx : nat) : (bytes * nat * N) * (list nat * list N) :=
  ((key_bytes (e_lowK e), idx, nth idx (e_currVs e) 0%N), enum_low_idxs_and_values e).

Lemma enum_current_in e :
  e_lowCurr e < length (e_lowIdxs e) ->
  enum_current e = (e_lowK e, nth (e_lowCurr e) (e_lowIdxs e) 0,
                    nth (nth (e_lowCurr e) (e_lowIdxs e) 0) (e_currVs e) 0%N).
Proof.
  intros H. unfold enum_current. apply Nat.ltb_lt in H. rewrite H. reflexivity.
Qed.

Lemma enum_next_mid e :
  S (e_lowCurr e) < length (e_lowIdxs e) ->
  enum_next e = (set_lc e (S (e_lowCurr e)), false).
Proof.
  intros H. unfold enum_next. cbn [e_lowIdxs e_lowCurr].
  assert (E : Nat.leb (length (e_lowIdxs e)) (S (e_lowCurr e)) = false)
    by (apply Nat.leb_gt; lia).
  rewrite E. unfold enum_done. cbn [e_lowIdxs e_lowK].
  assert (E0 : Nat.eqb (length (e_lowIdxs e)) 0 = false) by (apply Nat.eqb_neq; lia).
  rewrite E0, andb_false_r. reflexivity.
Qed.

Lemma enum_next_end e :
  length (e_lowIdxs e) <= S (e_lowCurr e) ->
  enum_next e = (round_end e, enum_done (round_end e)).
Proof.
  intros H. unfold enum_next. cbn [e_lowIdxs e_lowCurr].
  assert (E : Nat.leb (length (e_lowIdxs e)) (S (e_lowCurr e)) = true)
    by (apply Nat.leb_le; lia).
  rewrite E.
  change (mkEnum (e_itrs e) (e_roots e) (e_currKs e) (e_currVs e) (e_lowK e)
                 (e_lowIdxs e) (S (e_lowCurr e))) with (set_lc e (S (e_lowCurr e))).
  rewrite fold_advance_set_lc. reflexivity.
Qed.

Lemma enum_run_low_S f e :
  enum_run_low (S f) e
  = let '(k, i, v) := enum_current e in
    let low := enum_low_idxs_and_values e in
    let '(e', done) := enum_next e in
    ((key_bytes k, i, v), low) :: (if done then [] else enum_run_low f e').
Proof. reflexivity. Qed.

Lemma run_round d : forall c e f,
  length (e_lowIdxs e) = c + S d -> e_lowCurr e = c ->
  enum_run_low (S d + f) e
  = map (emit e) (skipn c (e_lowIdxs e))
    ++ (if enum_done (round_end e) then [] else enum_run_low f (round_end e)).
Proof.
  induction d as [|d IH]; intros c e f HL Hc.
  - change (1 + f) with (S f). rewrite enum_run_low_S.
    rewrite enum_current_in, enum_next_end by lia.
    rewrite (skipn_nth_cons _ c 0) by lia.
    rewrite (skipn_all2 (e_lowIdxs e)) by lia.
    cbn [map app]. unfold emit. rewrite Hc. reflexivity.
  - change (S (S d) + f) with (S (S d + f)). rewrite enum_run_low_S.
    rewrite enum_current_in, enum_next_mid by lia.
    rewrite (skipn_nth_cons _ c 0) by lia.
    cbn [map app]. unfold emit at 1. rewrite Hc. f_equal.
    rewrite (IH (S c) (set_lc e (S c)) f); cbn [set_lc e_lowIdxs e_lowCurr]; auto; try lia.
    rewrite round_end_set_lc. reflexivity.
Qed.

Lemma enum_run_low_fst fuel : forall e, map fst (enum_run_low fuel e) = enum_run fuel e.
Proof.
  induction fuel as [|f IH]; intros e; cbn [enum_run_low enum_run]; auto.
  destruct (enum_current e) as [[k i] v]. destruct (enum_next e) as [e' done].
  cbn [map fst]. f_equal. destruct done; auto.
Qed.

(* ------------------------------------------------------------------ *)
(* the state invariant across rounds                                   *)
(* ------------------------------------------------------------------ *)

Definition Good (e : enumerator) : Prop :=
  CurrOK e /\ LowOK e /\ Forall key_sorted (e_itrs e)
  /\ Forall empty_key_nz (e_itrs e) /\ e_lowCurr e = 0.

Lemma low_in e j :
  LowOK e ->
  (In j (e_lowIdxs e) <->
   j < length (e_itrs e) /\ live (nth j (e_itrs e) []) = true
   /\ hkey (nth j (e_itrs e) []) = key_bytes (e_lowK e)).
Proof.
  intros (I1 & _ & _). rewrite I1, filter_In, in_seq. unfold on_key.
  rewrite andb_true_iff, beq_eq. split; intros H; repeat split; try tauto; lia.
Qed.

Lemma low_NoDup e : LowOK e -> NoDup (e_lowIdxs e).
Proof. intros (I1 & _ & _). rewrite I1. apply NoDup_filter, seq_NoDup. Qed.

Lemma low_sorted e : LowOK e -> StronglySorted lt (e_lowIdxs e).
Proof. intros (I1 & _ & _). rewrite I1. apply filter_seq_sorted. Qed.

Lemma curr_val e j :
  CurrOK e -> j < length (e_itrs e) -> live (nth j (e_itrs e) []) = true ->
  nth j (e_currVs e) 0%N = hval (nth j (e_itrs e) []).
Proof.
  intros HC Hj Hl. pose proof (co_cur e HC j Hj) as Hcur.
  destruct (nth j (e_itrs e) []) as [|[k v] l']; [discriminate|].
  cbn [hval]. destruct k; cbn [vit_current] in Hcur; injection Hcur as _ Hv; auto.
Qed.

Lemma live_cons (l : vitr) : live l = true -> l = (hkey l, hval l) :: tl l.
Proof. destruct l as [|[k v] l']; [discriminate|reflexivity]. Qed.

Lemma Forall_set_nth {A} (P : A -> Prop) (l : list A) i x :
  Forall P l -> P x -> Forall P (set_nth l i x).
Proof.
  revert i; induction l as [|y l IH]; intros [|i] Hl Hx; cbn [set_nth]; auto;
    inversion Hl; subst; constructor; auto.
Qed.

Lemma Forall_adv_all (P : vitr -> Prop) L r :
  P [] -> (forall l, P l -> P (tl l)) -> Forall P r -> Forall P (adv_all L r).
Proof.
  intros Hnil Htl. revert r; induction L as [|vi L IH]; intros r Hr;
    cbn [adv_all fold_left]; auto.
  fold (adv_all L (set_nth r vi (tl (nth vi r [])))). apply IH.
  apply Forall_set_nth; auto. apply Htl.
  destruct (Nat.lt_ge_cases vi (length r)) as [Hlt|Hge].
  - rewrite Forall_forall in Hr. apply Hr, nth_In; auto.
  - rewrite nth_overflow; auto.
Qed.

Lemma key_sorted_tl l : key_sorted l -> key_sorted (tl l).
Proof. intros H. destruct l; cbn [tl]; auto. inversion H; auto. Qed.

Lemma empty_key_nz_tl l : empty_key_nz l -> empty_key_nz (tl l).
Proof. intros H v Hv. apply H. destruct l; cbn [tl] in Hv; [contradiction|right; auto]. Qed.

Lemma sorted_head_le l k v : key_sorted l -> In (k, v) l -> ble (hkey l) k = true.
Proof.
  intros Hs Hin. destruct l as [|[k0 v0] l']; [contradiction|].
  cbn [hkey]. destruct Hin as [Heq|Hin].
  - injection Heq as -> _. apply ble_refl.
  - inversion Hs as [|? ? _ Hf]; subst. rewrite Forall_forall in Hf.
    apply blt_ble. apply (Hf _ Hin).
Qed.

Lemma blt_nil_r (a : bytes) : blt a [] = false.
Proof. destruct a; reflexivity. Qed.

Lemma existsb_eqb_In j L : existsb (Nat.eqb j) L = true <-> In j L.
Proof.
  rewrite existsb_exists. split.
  - intros [x [Hx E]]. apply Nat.eqb_eq in E. subst; auto.
  - intros H. exists j. split; auto. apply Nat.eqb_refl.
Qed.

(* relation between the iterators before and after the round on key m *)
Record RoundRel (e : enumerator) (rests' : list vitr) : Prop := {
  rr_len : length rests' = length (e_itrs e);
  rr_in : forall j, In j (e_lowIdxs e) ->
      nth j (e_itrs e) [] = (key_bytes (e_lowK e), hval (nth j (e_itrs e) [])) :: nth j rests' [];
  rr_out : forall j, ~ In j (e_lowIdxs e) -> nth j rests' [] = nth j (e_itrs e) [];
  rr_gt : forall j k v, In (k, v) (nth j rests' []) -> blt (key_bytes (e_lowK e)) k = true;
  rr_sorted : Forall key_sorted rests' }.

Lemma round_rel e : Good e -> RoundRel e (adv_all (e_lowIdxs e) (e_itrs e)).
Proof.
  intros (HC & HL & Hs & Hnz & Hlc).
  assert (Hb : forall vi, In vi (e_lowIdxs e) -> vi < length (e_itrs e)).
  { intros vi Hvi. apply (low_in e vi HL) in Hvi. tauto. }
  assert (Hnth : forall j, nth j (adv_all (e_lowIdxs e) (e_itrs e)) []
                 = if existsb (Nat.eqb j) (e_lowIdxs e)
                   then tl (nth j (e_itrs e) []) else nth j (e_itrs e) []).
  { intros j. apply adv_all_nth; auto. apply low_NoDup; auto. }
  assert (Hs' : Forall key_sorted (adv_all (e_lowIdxs e) (e_itrs e))).
  { apply Forall_adv_all; auto; [constructor|apply key_sorted_tl]. }
  assert (Hin : forall j, In j (e_lowIdxs e) ->
      nth j (e_itrs e) [] = (key_bytes (e_lowK e), hval (nth j (e_itrs e) []))
                            :: nth j (adv_all (e_lowIdxs e) (e_itrs e)) []).
  { intros j Hj. rewrite Hnth. rewrite (proj2 (existsb_eqb_In j _) Hj).
    apply (low_in e j HL) in Hj. destruct Hj as (_ & Hlive & Hk).
    rewrite <- Hk. apply live_cons; auto. }
  assert (Hout : forall j, ~ In j (e_lowIdxs e) ->
      nth j (adv_all (e_lowIdxs e) (e_itrs e)) [] = nth j (e_itrs e) []).
  { intros j Hj. rewrite Hnth. destruct (existsb (Nat.eqb j) (e_lowIdxs e)) eqn:E; auto.
    apply existsb_eqb_In in E. contradiction. }
  constructor; auto.
  - apply adv_all_length.
  - intros j k v Hkv.
    destruct (Nat.lt_ge_cases j (length (e_itrs e))) as [Hj|Hj].
    2:{ rewrite nth_overflow in Hkv; [contradiction|]. rewrite adv_all_length. auto. }
    assert (Hsj : key_sorted (nth j (e_itrs e) [])).
    { rewrite Forall_forall in Hs. apply Hs, nth_In; auto. }
    destruct (in_dec Nat.eq_dec j (e_lowIdxs e)) as [Hi|Hni].
    + rewrite (Hin j Hi) in Hsj. inversion Hsj as [|? ? _ Hf]; subst.
      rewrite Forall_forall in Hf. apply (Hf _ Hkv).
    + rewrite (Hout j Hni) in Hkv.
      assert (Hlive : live (nth j (e_itrs e) []) = true).
      { destruct (nth j (e_itrs e) []); [contradiction|reflexivity]. }
      destruct HL as (I1 & I2 & I3). destruct (I2 j Hj Hlive) as [_ Hle].
      pose proof (sorted_head_le _ k v Hsj Hkv) as Hle2.
      eapply blt_ble_trans; [|exact Hle2].
      apply blt_ble_neq. split; auto. intros Heq. apply Hni.
      apply (low_in e j (conj I1 (conj I2 I3))). auto.
Qed.

Lemma round_end_good e :
  Good e ->
  Good (round_end e) /\ e_itrs (round_end e) = adv_all (e_lowIdxs e) (e_itrs e).
Proof.
  intros HG. pose proof (round_rel e HG) as RR.
  destruct HG as (HC & HL & Hs & Hnz & Hlc).
  assert (Hb : forall vi, In vi (e_lowIdxs e) -> vi < length (e_itrs e)).
  { intros vi Hvi. apply (low_in e vi HL) in Hvi. tauto. }
  destruct (fold_advance_ok (e_lowIdxs e) e HC Hb) as [HC1 Hit1].
  set (e1 := fold_left advance_one (e_lowIdxs e) e) in *.
  assert (Hnz1 : Forall empty_key_nz (e_itrs e1)).
  { rewrite Hit1. apply Forall_adv_all; auto; [intros v []|apply empty_key_nz_tl]. }
  assert (HS1 : SkipOK true e1).
  { intros j Hj. cbn. rewrite Hit1. intros Hlive Hk.
    apply live_cons in Hlive. rewrite Hk in Hlive.
    assert (Hin : In ([], hval (nth j (adv_all (e_lowIdxs e) (e_itrs e)) []))
                     (nth j (adv_all (e_lowIdxs e) (e_itrs e)) [])).
    { rewrite Hlive at 2. left; reflexivity. }
    apply (rr_gt e _ RR) in Hin. rewrite blt_nil_r in Hin. discriminate. }
  destruct (update_matches_ok true e1 HC1 Hnz1 HS1) as [HC2 HL2].
  destruct (update_matches_fields true e1) as (F1 & F2 & F3 & F4 & F5).
  unfold round_end. fold e1. split; [|rewrite F1; exact Hit1].
  unfold Good. rewrite F1, F5.
  split; [exact HC2|]. split; [exact HL2|]. split; [|split; [exact Hnz1|reflexivity]].
  rewrite Hit1. apply (rr_sorted e _ RR).
Qed.

(* ------------------------------------------------------------------ *)
(* what the loop produces, by induction over the rounds                *)
(* ------------------------------------------------------------------ *)

(* by key, then strictly by iterator index *)
Definition triple_lt (a b : bytes * nat * N) : Prop :=
  blt (fst (fst a)) (fst (fst b)) = true
  \/ (fst (fst a) = fst (fst b) /\ snd (fst a) < snd (fst b)).

Definition Post (rests : list vitr)
           (out : list ((bytes * nat * N) * (list nat * list N))) : Prop :=
  (forall k i v idxs vals, In ((k, i, v), (idxs, vals)) out ->
      i < length rests /\ In (k, v) (nth i rests [])
      /\ idxs = idxs_with k rests /\ vals = vals_with k rests)
  /\ (forall k i v, i < length rests -> In (k, v) (nth i rests []) ->
                    In (k, i, v) (map fst out))
  /\ StronglySorted triple_lt (map fst out).

Lemma has_key_cons k k0 v0 t : has_key k ((k0, v0) :: t) = beq k0 k || has_key k t.
Proof. reflexivity. Qed.

Lemma lookup_cons k k0 v0 t :
  lookup_key k ((k0, v0) :: t) = if beq k0 k then v0 else lookup_key k t.
Proof. unfold lookup_key. cbn [find fst]. destruct (beq k0 k); reflexivity. Qed.

Lemma has_key_false k l : (forall k' v, In (k', v) l -> k' <> k) -> has_key k l = false.
Proof.
  intros H. destruct (has_key k l) eqn:E; auto.
  unfold has_key in E. apply existsb_exists in E. destruct E as [[k' v] [Hin Hb]].
  cbn [fst] in Hb. apply beq_eq in Hb. exfalso. apply (H k' v Hin Hb).
Qed.

Lemma has_key_head m l :
  key_sorted l -> (live l = true -> ble m (hkey l) = true) ->
  has_key m l = live l && beq (hkey l) m.
Proof.
  destruct l as [|[k0 v0] t]; [reflexivity|]. intros Hs Hle.
  rewrite has_key_cons. cbn [live hkey andb].
  rewrite has_key_false, orb_false_r; auto.
  intros k' v Hin ->. inversion Hs as [|? ? _ Hf]; subst. rewrite Forall_forall in Hf.
  apply (blt_not_ble k0 m); [apply (Hf _ Hin)|apply Hle; reflexivity].
Qed.

Lemma lookup_head l : live l = true -> lookup_key (hkey l) l = hval l.
Proof.
  destruct l as [|[k v] t]; [discriminate|]. intros _. cbn [hkey hval].
  rewrite lookup_cons, beq_refl. reflexivity.
Qed.

Lemma live_head_in l : live l = true -> In (hkey l, hval l) l.
Proof. destruct l as [|[k v] t]; [discriminate|]. intros _. left; reflexivity. Qed.

Lemma nth_sorted e j : Good e -> key_sorted (nth j (e_itrs e) []).
Proof.
  intros (_ & _ & Hs & _). destruct (Nat.lt_ge_cases j (length (e_itrs e))) as [Hj|Hj].
  - rewrite Forall_forall in Hs. apply Hs, nth_In; auto.
  - rewrite nth_overflow; auto. constructor.
Qed.

(* GetLowIdxsAndValues on a good state: the iterators that contain lowK *)
Lemma low_idxs_with e :
  Good e -> idxs_with (key_bytes (e_lowK e)) (e_itrs e) = e_lowIdxs e.
Proof.
  intros HG. pose proof HG as (_ & (I1 & I2 & I3) & _).
  unfold idxs_with. rewrite I1. apply filter_ext_in. intros j Hj. apply in_seq in Hj.
  unfold on_key. apply has_key_head; [apply nth_sorted; auto|].
  intros Hl. apply I2; auto. lia.
Qed.

Lemma low_vals_with e :
  Good e ->
  vals_with (key_bytes (e_lowK e)) (e_itrs e)
  = map (fun idx => nth idx (e_currVs e) 0%N) (e_lowIdxs e).
Proof.
  intros HG. unfold vals_with. rewrite low_idxs_with by auto.
  destruct HG as (HC & HL & _).
  apply map_ext_in. intros j Hj. apply (low_in e j HL) in Hj.
  destruct Hj as (Hj & Hlive & Hk).
  rewrite curr_val by auto. rewrite <- Hk. apply lookup_head; auto.
Qed.

Lemma round_key_same e rests' k j :
  RoundRel e rests' -> blt (key_bytes (e_lowK e)) k = true ->
  has_key k (nth j rests' []) = has_key k (nth j (e_itrs e) [])
  /\ lookup_key k (nth j rests' []) = lookup_key k (nth j (e_itrs e) []).
Proof.
  intros RR Hlt. destruct (in_dec Nat.eq_dec j (e_lowIdxs e)) as [Hi|Hni].
  - rewrite (rr_in e _ RR j Hi). rewrite has_key_cons, lookup_cons.
    rewrite (beq_false_neq _ _ (blt_neq _ _ Hlt)). auto.
  - rewrite (rr_out e _ RR j Hni). auto.
Qed.

Lemma sorted_emit (m : bytes) (f : nat -> N) L :
  StronglySorted lt L -> StronglySorted triple_lt (map (fun idx => (m, idx, f idx)) L).
Proof.
  induction 1 as [|x L Hs IH Hf]; cbn [map]; constructor; auto.
  apply Forall_forall. intros y Hy. apply in_map_iff in Hy. destruct Hy as [z [<- Hz]].
  rewrite Forall_forall in Hf. right. cbn [fst snd]. split; auto.
Qed.

Lemma post_round e rests' out' :
  Good e -> RoundRel e rests' -> Post rests' out' ->
  Post (e_itrs e) (map (emit e) (e_lowIdxs e) ++ out').
Proof.
  intros HG RR (P1 & P2 & P3).
  pose proof HG as (HC & HL & _).
  split; [|split].
  - intros k i v idxs vals Hin. apply in_app_or in Hin. destruct Hin as [Hin|Hin].
    + apply in_map_iff in Hin. destruct Hin as [idx [Heq Hidx]].
      unfold emit, enum_low_idxs_and_values in Heq.
      injection Heq as Hk Hi Hv Hidxs Hvals. subst k i v idxs vals.
      apply (low_in e idx HL) in Hidx. destruct Hidx as (Hidx & Hlive & Hk).
      split; [auto|]. split.
      * rewrite curr_val by auto. rewrite <- Hk. apply live_head_in; auto.
      * split; [symmetry; apply low_idxs_with; auto|symmetry; apply low_vals_with; auto].
    + destruct (P1 _ _ _ _ _ Hin) as (Hi & Hkv & Hidxs & Hvals).
      pose proof (rr_gt e _ RR i k v Hkv) as Hlt.
      rewrite (rr_len e _ RR) in Hi. split; [auto|]. split.
      * destruct (in_dec Nat.eq_dec i (e_lowIdxs e)) as [Hi'|Hni].
        -- rewrite (rr_in e _ RR i Hi'). right; auto.
        -- rewrite <- (rr_out e _ RR i Hni). auto.
      * assert (E : idxs_with k rests' = idxs_with k (e_itrs e)).
        { unfold idxs_with. rewrite (rr_len e _ RR). apply filter_ext. intros j.
          apply (round_key_same e rests' k j RR Hlt). }
        split; [rewrite Hidxs; exact E|].
        rewrite Hvals. unfold vals_with. rewrite E. apply map_ext. intros j.
        apply (round_key_same e rests' k j RR Hlt).
  - intros k i v Hi Hkv. rewrite map_app, in_app_iff.
    destruct (in_dec Nat.eq_dec i (e_lowIdxs e)) as [Hi'|Hni].
    + rewrite (rr_in e _ RR i Hi') in Hkv. destruct Hkv as [Heq|Hkv].
      * left. injection Heq as Hk Hv. rewrite map_map. apply in_map_iff. exists i.
        split; auto. unfold emit. cbn [fst]. rewrite <- Hk, <- Hv.
        apply (low_in e i HL) in Hi'. destruct Hi' as (_ & Hlive & _).
        rewrite curr_val by auto. reflexivity.
      * right. apply P2; auto. rewrite (rr_len e _ RR); auto.
    + right. apply P2; [rewrite (rr_len e _ RR); auto|].
      rewrite (rr_out e _ RR i Hni). auto.
  - rewrite map_app. apply StronglySorted_app; auto.
    + rewrite map_map. unfold emit. cbn [fst].
      apply (sorted_emit (key_bytes (e_lowK e)) (fun idx => nth idx (e_currVs e) 0%N)).
      apply low_sorted; auto.
    + intros a b Ha Hb. rewrite map_map in Ha. apply in_map_iff in Ha.
      destruct Ha as [idx [<- _]]. apply in_map_iff in Hb.
      destruct Hb as [[[[k i] v] [idxs vals]] [<- Hx]].
      destruct (P1 _ _ _ _ _ Hx) as (_ & Hkv & _).
      left. unfold emit. cbn [fst]. apply (rr_gt e _ RR i k v Hkv).
Qed.

Lemma round_total e :
  Good e ->
  total_pairs (adv_all (e_lowIdxs e) (e_itrs e)) + length (e_lowIdxs e)
  = total_pairs (e_itrs e).
Proof.
  intros (HC & HL & _). apply adv_all_total; [apply low_NoDup; auto|].
  intros vi Hvi. apply (low_in e vi HL) in Hvi. destruct Hvi as (Hvi & Hlive & _).
  split; auto. intros E. pose proof (f_equal live E) as E'. cbn [live] in E'.
  unfold vitr in *. congruence.
Qed.

Lemma done_iff_nil e : LowOK e -> (enum_done e = true <-> e_lowIdxs e = []).
Proof.
  intros (_ & _ & I3). unfold enum_done. split.
  - intros H. apply andb_true_iff in H. destruct H as [_ H]. apply Nat.eqb_eq in H.
    destruct (e_lowIdxs e); [auto|discriminate].
  - intros H. rewrite (I3 H), H. reflexivity.
Qed.

Lemma run_post t : forall e fuel,
  total_pairs (e_itrs e) <= t -> Good e -> e_lowIdxs e <> [] ->
  total_pairs (e_itrs e) <= fuel ->
  Post (e_itrs e) (enum_run_low fuel e).
Proof.
  induction t as [|t IH]; intros e fuel Ht HG HLne Hf;
    pose proof (round_total e HG) as Htot;
    assert (Hlen : length (e_lowIdxs e) <> 0)
      by (destruct (e_lowIdxs e); [contradiction|discriminate]);
    [exfalso; lia|].
  destruct (round_end_good e HG) as [HG' Hit'].
  pose proof (round_rel e HG) as RR.
  set (d := length (e_lowIdxs e) - 1).
  set (f := fuel - S d).
  replace fuel with (S d + f) by lia.
  rewrite (run_round d 0 e f); [|lia|destruct HG as (_ & _ & _ & _ & Hlc); exact Hlc].
  cbn [skipn].
  apply (post_round e (adv_all (e_lowIdxs e) (e_itrs e))); auto.
  pose proof HG' as (_ & HL' & _).
  destruct (enum_done (round_end e)) eqn:D.
  - apply (done_iff_nil _ HL') in D.
    split; [intros ? ? ? ? ? []|]. split; [|constructor].
    intros k i v Hi Hkv. exfalso. rewrite <- Hit' in Hi, Hkv.
    destruct HL' as (_ & I2 & _).
    assert (Hlive : live (nth i (e_itrs (round_end e)) []) = true).
    { destruct (nth i (e_itrs (round_end e)) []); [contradiction|reflexivity]. }
    destruct (I2 i Hi Hlive) as [Hne _]. contradiction.
  - rewrite <- Hit'. apply IH; auto.
    + rewrite Hit'. lia.
    + intros E. apply (done_iff_nil _ HL') in E. congruence.
    + rewrite Hit'. lia.
Qed.

(* ------------------------------------------------------------------ *)
(* newEnumerator                                                       *)
(* ------------------------------------------------------------------ *)

(* what newEnumerator needs to know about Current() of exhausted iterators:
   an iterator whose FST root is final (contains "") is not exhausted yet *)
Definition roots_ok (roots : list (option N)) (its : list vitr) : Prop :=
  length roots = length its
  /\ forall j, j < length its -> nth j roots None <> None -> live (nth j its []) = true.

Lemma roots_ok_real its : roots_ok (map vit_root its) its.
Proof.
  split; [apply map_length|]. intros j Hj.
  change (@None N) with (vit_root []). rewrite map_nth.
  destruct (nth j its []) as [|[[|b k] v] t]; cbn; auto.
Qed.

Lemma roots_ok_ideal its : roots_ok (repeat None (length its)) its.
Proof.
  split; [apply repeat_length|]. intros j Hj. rewrite nth_repeat. congruence.
Qed.

Lemma nth_cur roots : forall its j,
  length roots = length its -> j < length its ->
  nth j (map (fun p => vit_current (fst p) (snd p)) (combine roots its)) (None, 0%N)
  = vit_current (nth j roots None) (nth j its []).
Proof.
  induction roots as [|r roots IH]; intros [|l its] [|j] Hlen Hj; cbn [length] in *;
    try lia; cbn [combine map nth fst snd]; auto.
  apply IH; lia.
Qed.

Lemma enum_new_with_good roots its :
  roots_ok roots its -> Forall key_sorted its -> Forall empty_key_nz its ->
  Good (fst (enum_new_with roots its))
  /\ e_itrs (fst (enum_new_with roots its)) = its
  /\ snd (enum_new_with roots its) = enum_done (fst (enum_new_with roots its)).
Proof.
  intros [Hlen Hroots] Hs Hnz. unfold enum_new_with. cbn [fst snd].
  set (cur := map (fun p => vit_current (fst p) (snd p)) (combine roots its)).
  set (rv := mkEnum its roots (map fst cur) (map snd cur) None [] 0).
  assert (Hcl : length cur = length its).
  { unfold cur. rewrite map_length, combine_length. lia. }
  assert (HC : CurrOK rv).
  { constructor; cbn [rv e_itrs e_roots e_currKs e_currVs]; rewrite ?map_length; auto.
    intros j Hj.
    assert (E1 : nth j (map fst cur) None = fst (nth j cur (None, 0%N)))
      by (apply (map_nth fst cur (None, 0%N) j)).
    assert (E2 : nth j (map snd cur) 0%N = snd (nth j cur (None, 0%N)))
      by (apply (map_nth snd cur (None, 0%N) j)).
    rewrite E1, E2, <- surjective_pairing. apply nth_cur; auto. }
  assert (HS : SkipOK false rv).
  { intros j Hj. cbn [rv e_itrs e_roots] in *. apply Hroots; auto. }
  destruct (update_matches_ok false rv HC Hnz HS) as [HC2 HL2].
  destruct (update_matches_fields false rv) as (F1 & F2 & F3 & F4 & F5).
  split; [|split; [rewrite F1; reflexivity|reflexivity]].
  unfold Good. rewrite F1, F5. cbn [rv e_itrs]. auto.
Qed.

Theorem enum_start_post roots its fuel :
  roots_ok roots its -> Forall key_sorted its -> Forall empty_key_nz its ->
  total_pairs its <= fuel ->
  Post its (enum_start_run_low (enum_new_with roots its) fuel).
Proof.
  intros Hr Hs Hnz Hf.
  destruct (enum_new_with_good roots its Hr Hs Hnz) as (HG & Hit & Hd).
  unfold enum_start_run_low.
  destruct (enum_new_with roots its) as [e done]. cbn [fst snd] in *. subst done.
  pose proof HG as (_ & HL & _).
  destruct (enum_done e) eqn:D.
  - apply (done_iff_nil _ HL) in D.
    split; [intros ? ? ? ? ? []|]. split; [|constructor].
    intros k i v Hi Hkv. exfalso. rewrite <- Hit in Hi, Hkv.
    destruct HL as (_ & I2 & _).
    assert (Hlive : live (nth i (e_itrs e) []) = true).
    { destruct (nth i (e_itrs e) []); [contradiction|reflexivity]. }
    destruct (I2 i Hi Hlive) as [Hne _]. contradiction.
  - rewrite <- Hit. apply (run_post (total_pairs (e_itrs e))); auto.
    + intros E. apply (done_iff_nil _ HL) in E. congruence.
    + rewrite Hit. auto.
Qed.

Lemma enum_start_run_fst start fuel :
  map fst (enum_start_run_low start fuel) = enum_start_run start fuel.
Proof.
  destruct start as [e done]. unfold enum_start_run_low, enum_start_run.
  destruct done; [reflexivity|apply enum_run_low_fst].
Qed.

(* ------------------------------------------------------------------ *)
(* the specification list                                              *)
(* ------------------------------------------------------------------ *)

Lemma triples_from_In its : forall i0 k i v,
  In (k, i, v) (triples_from i0 its)
  <-> exists j, i = i0 + j /\ j < length its /\ In (k, v) (nth j its []).
Proof.
  induction its as [|l r IH]; intros i0 k i v; cbn [triples_from length].
  - split; [intros []|intros [j [_ [H _]]]; lia].
  - rewrite in_app_iff, IH. split.
    + intros [H|[j [Hi [Hj Hin]]]].
      * apply in_map_iff in H. destruct H as [[k' v'] [Heq Hin]]. cbn [fst snd] in Heq.
        injection Heq as -> <- ->. exists 0. cbn [nth]. repeat split; auto; lia.
      * exists (S j). cbn [nth]. repeat split; auto; lia.
    + intros [[|j] [Hi [Hj Hin]]]; cbn [nth] in Hin.
      * left. apply in_map_iff. exists (k, v). cbn [fst snd]. split; auto.
        f_equal. f_equal. lia.
      * right. exists j. repeat split; auto; lia.
Qed.

Lemma all_triples_In its k i v :
  In (k, i, v) (all_triples its) <-> i < length its /\ In (k, v) (nth i its []).
Proof.
  unfold all_triples. rewrite triples_from_In. split.
  - intros [j [-> H]]. exact H.
  - intros H. exists i. split; auto.
Qed.

Lemma key_sorted_keys l : key_sorted l -> strict_sorted_bytes (map fst l).
Proof.
  unfold key_sorted, strict_sorted_bytes. induction 1 as [|x l Hs IH Hf]; cbn [map];
    constructor; auto.
  apply Forall_forall. intros y Hy. apply in_map_iff in Hy. destruct Hy as [z [<- Hz]].
  rewrite Forall_forall in Hf. auto.
Qed.

Lemma NoDup_app_intro {A} (l1 l2 : list A) :
  NoDup l1 -> NoDup l2 -> (forall x, In x l1 -> ~ In x l2) -> NoDup (l1 ++ l2).
Proof.
  induction l1 as [|x l1 IH]; intros H1 H2 H; cbn [app]; auto.
  inversion H1; subst. constructor.
  - rewrite in_app_iff. intros [Hx|Hx]; [contradiction|]. apply (H x); [left|]; auto.
  - apply IH; auto. intros y Hy. apply H. right; auto.
Qed.

(* (key, iterator index) identifies a triple *)
Lemma triples_from_NoDup its : forall i0,
  Forall key_sorted its -> NoDup (map fst (triples_from i0 its)).
Proof.
  induction its as [|l r IH]; intros i0 Hs; cbn [triples_from map]; [constructor|].
  inversion Hs as [|? ? Hl Hr]; subst.
  rewrite map_app. apply NoDup_app_intro.
  - rewrite map_map. cbn [fst].
    rewrite <- (map_map fst (fun k => (k, i0))).
    apply FinFun.Injective_map_NoDup.
    + intros a b E. injection E; auto.
    + apply strict_sorted_bytes_NoDup, key_sorted_keys; auto.
  - apply IH; auto.
  - intros [k i] H1 H2. rewrite map_map in H1. cbn [fst] in H1.
    apply in_map_iff in H1. destruct H1 as [p [E _]]. injection E as _ <-.
    apply in_map_iff in H2. destruct H2 as [[[k' i'] v'] [E H2]]. cbn [fst] in E.
    injection E as -> ->. apply triples_from_In in H2. destruct H2 as [j [Hj _]]. lia.
Qed.

Lemma triple_le_total a b : triple_le a b = true \/ triple_le b a = true.
Proof.
  unfold triple_le. rewrite (bcmp_antisym (fst (fst a)) (fst (fst b))).
  destruct (bcmp (fst (fst a)) (fst (fst b))); cbn [CompOpp]; auto.
  destruct (Nat.leb_spec (snd (fst a)) (snd (fst b))); auto.
  right. apply Nat.leb_le. lia.
Qed.

Lemma triple_le_trans a b c :
  triple_le a b = true -> triple_le b c = true -> triple_le a c = true.
Proof.
  unfold triple_le.
  destruct (bcmp (fst (fst a)) (fst (fst b))) eqn:E1;
    destruct (bcmp (fst (fst b)) (fst (fst c))) eqn:E2; try discriminate; intros H1 H2.
  - apply bcmp_eq in E1, E2. rewrite E1, E2, bcmp_refl.
    apply Nat.leb_le in H1, H2. apply Nat.leb_le. lia.
  - apply bcmp_eq in E1. rewrite E1, E2. reflexivity.
  - apply bcmp_eq in E2. rewrite <- E2, E1. reflexivity.
  - rewrite (bcmp_lt_trans _ _ _ E1 E2). reflexivity.
Qed.

Lemma triple_lt_irrefl a : ~ triple_lt a a.
Proof.
  intros [H|[_ H]]; [rewrite blt_irrefl in H; discriminate|lia].
Qed.

Lemma triple_lt_trans a b c : triple_lt a b -> triple_lt b c -> triple_lt a c.
Proof.
  intros [H1|[E1 H1]] [H2|[E2 H2]].
  - left. eapply blt_trans; eauto.
  - left. rewrite <- E2. auto.
  - left. rewrite E1. auto.
  - right. split; [congruence|lia].
Qed.

Lemma sorted_le_nodup_lt (l : list (bytes * nat * N)) :
  StronglySorted (fun a b => triple_le a b = true) l -> NoDup (map fst l) ->
  StronglySorted triple_lt l.
Proof.
  induction 1 as [|x l Hs IH Hf]; intros Hnd; [constructor|].
  cbn [map] in Hnd. inversion Hnd as [|? ? Hni Hnd']; subst.
  constructor; auto.
  apply Forall_forall. intros y Hy. rewrite Forall_forall in Hf.
  pose proof (Hf y Hy) as Hle. unfold triple_le in Hle. unfold triple_lt.
  destruct (bcmp (fst (fst x)) (fst (fst y))) eqn:E; try discriminate.
  - right. apply bcmp_eq in E. split; auto. apply Nat.leb_le in Hle.
    assert (snd (fst x) <> snd (fst y)).
    { intros E2. apply Hni. apply in_map_iff. exists y. split; auto.
      destruct x as [[kx ix] vx], y as [[ky iy] vy]. cbn [fst snd] in *. congruence. }
    lia.
  - left. unfold blt. rewrite E. reflexivity.
Qed.

Lemma spec_triples_sorted its :
  Forall key_sorted its -> StronglySorted triple_lt (spec_triples its).
Proof.
  intros Hs. unfold spec_triples. apply sorted_le_nodup_lt.
  - apply isort_sorted; [apply triple_le_total|apply triple_le_trans].
  - eapply Permutation_NoDup.
    + apply Permutation_map, Permutation_sym, isort_perm.
    + apply triples_from_NoDup; auto.
Qed.

Lemma spec_triples_In its t : In t (spec_triples its) <-> In t (all_triples its).
Proof. apply isort_In. Qed.

(* ------------------------------------------------------------------ *)
(* main theorems                                                       *)
(* ------------------------------------------------------------------ *)

Lemma post_fst_In its out k i v :
  Post its out ->
  (In (k, i, v) (map fst out) <-> In (k, i, v) (all_triples its)).
Proof.
  intros (P1 & P2 & _). rewrite all_triples_In. split.
  - intros H. apply in_map_iff in H. destruct H as [[t [idxs vals]] [E H]].
    cbn [fst] in E. subst t. destruct (P1 _ _ _ _ _ H) as (Hi & Hkv & _). auto.
  - intros [Hi Hkv]. apply P2; auto.
Qed.

Lemma post_fst_spec its out :
  Forall key_sorted its -> Post its out -> map fst out = spec_triples its.
Proof.
  intros Hs HP. apply (strict_sorted_ext triple_lt triple_lt_irrefl triple_lt_trans).
  - destruct HP as (_ & _ & P3). exact P3.
  - apply spec_triples_sorted; auto.
  - intros [[k i] v]. rewrite spec_triples_In. apply post_fst_In; auto.
Qed.

(* General form: any iterators whose Current() after exhaustion is either
   (nil, 0) or ("", v0) with "" a key of the iterator. *)
Theorem enumerator_sorted_complete_gen roots its fuel :
  roots_ok roots its ->
  Forall key_sorted its -> Forall empty_key_nz its -> total_pairs its <= fuel ->
  enum_start_run (enum_new_with roots its) fuel = spec_triples its.
Proof.
  intros Hr Hs Hnz Hf. rewrite <- enum_start_run_fst.
  apply post_fst_spec; auto. apply enum_start_post; auto.
Qed.

(* MAIN THEOREM.  Iterators as vellum provides them (merge.go): strictly
   ascending keys, and the value of the empty key (if present) is not 0.
   The merge loop sees exactly all (term, segment, value) triples, ordered by
   term and then by segment index.  Any fuel >= number of pairs is enough. *)
Theorem enumerator_sorted_complete its fuel :
  Forall key_sorted its -> Forall empty_key_nz its -> total_pairs its <= fuel ->
  enum_run_new fuel its = spec_triples its.
Proof.
  intros. apply enumerator_sorted_complete_gen; auto. apply roots_ok_real.
Qed.

(* the form of the task statement: all values <> 0, fuel = pairs + 1 *)
Corollary enumerator_sorted_complete_nz its :
  Forall key_sorted its -> Forall values_nz its ->
  enum_run_new (S (total_pairs its)) its = spec_triples its.
Proof.
  intros Hs Hnz. apply enumerator_sorted_complete; auto.
  eapply Forall_impl; [|exact Hnz]. apply values_nz_empty_key_nz.
Qed.

(* same result over iterators that answer (nil, 0) once exhausted *)
Theorem enumerator_sorted_complete_ideal its fuel :
  Forall key_sorted its -> Forall empty_key_nz its -> total_pairs its <= fuel ->
  enum_start_run (enum_new_ideal its) fuel = spec_triples its.
Proof.
  intros. apply enumerator_sorted_complete_gen; auto. apply roots_ok_ideal.
Qed.

(* (1) the output is a permutation of all triples *)
Corollary enumerator_permutation its fuel :
  Forall key_sorted its -> Forall empty_key_nz its -> total_pairs its <= fuel ->
  Permutation (enum_run_new fuel its) (all_triples its).
Proof.
  intros. rewrite enumerator_sorted_complete by auto.
  apply isort_perm.
Qed.

(* (2) sorted by key, and within equal keys strictly by iterator index *)
Corollary enumerator_order its fuel :
  Forall key_sorted its -> Forall empty_key_nz its -> total_pairs its <= fuel ->
  StronglySorted triple_lt (enum_run_new fuel its).
Proof.
  intros. rewrite enumerator_sorted_complete by auto. apply spec_triples_sorted; auto.
Qed.

Lemma strict_triples_NoDup (l : list (bytes * nat * N)) :
  StronglySorted triple_lt l -> NoDup (map fst l).
Proof.
  induction 1 as [|x l Hs IH Hf]; cbn [map]; constructor; auto.
  intros Hin. apply in_map_iff in Hin. destruct Hin as [y [E Hy]].
  rewrite Forall_forall in Hf. specialize (Hf y Hy).
  apply (triple_lt_irrefl y). unfold triple_lt in *. rewrite <- E in Hf. exact Hf.
Qed.

(* (3) every term of every segment is visited, each (term, segment) exactly
   once, the empty term included *)
Corollary enumerator_visits_each_once its fuel :
  Forall key_sorted its -> Forall empty_key_nz its -> total_pairs its <= fuel ->
  NoDup (map fst (enum_run_new fuel its))
  /\ forall k i v, In (k, i, v) (enum_run_new fuel its)
                   <-> i < length its /\ In (k, v) (nth i its []).
Proof.
  intros Hs Hnz Hf. split.
  - apply strict_triples_NoDup, enumerator_order; auto.
  - intros k i v. rewrite enumerator_sorted_complete by auto.
    rewrite spec_triples_In. apply all_triples_In.
Qed.

(* GetLowIdxsAndValues, state form: on every state reached by the loop the
   result is the ascending list of the iterators positioned on the low key -
   equivalently of the iterators that still contain it - with their values *)
Theorem enum_low_idxs_state e :
  Good e ->
  enum_low_idxs_and_values e
  = (idxs_with (key_bytes (e_lowK e)) (e_itrs e), vals_with (key_bytes (e_lowK e)) (e_itrs e))
  /\ e_lowIdxs e
     = filter (on_key (e_itrs e) (key_bytes (e_lowK e))) (seq 0 (length (e_itrs e))).
Proof.
  intros HG. split.
  - unfold enum_low_idxs_and_values. rewrite low_idxs_with, low_vals_with; auto.
  - destruct HG as (_ & (I1 & _) & _). exact I1.
Qed.

Lemma enum_run_low_new_fst fuel its :
  map fst (enum_run_low_new fuel its) = enum_run_new fuel its.
Proof. apply enum_start_run_fst. Qed.

(* GetLowIdxsAndValues, run form: at every step of the merge loop, with current
   term k, it returns exactly the indexes (ascending) of the input iterators
   that contain k, and the values they give to k *)
Theorem enum_low_idxs its fuel k i v idxs vals :
  Forall key_sorted its -> Forall empty_key_nz its -> total_pairs its <= fuel ->
  In ((k, i, v), (idxs, vals)) (enum_run_low_new fuel its) ->
  idxs = idxs_with k its /\ vals = vals_with k its
  /\ StronglySorted lt idxs
  /\ (forall j, In j idxs <-> j < length its /\ has_key k (nth j its []) = true)
  /\ In i idxs.
Proof.
  intros Hs Hnz Hf Hin.
  pose proof (enum_start_post (map vit_root its) its fuel (roots_ok_real its) Hs Hnz Hf)
    as (P1 & _ & _).
  destruct (P1 _ _ _ _ _ Hin) as (Hi & Hkv & Hidxs & Hvals).
  assert (Hmem : forall j, In j idxs <-> j < length its /\ has_key k (nth j its []) = true).
  { intros j. rewrite Hidxs. unfold idxs_with. rewrite filter_In, in_seq.
    split; intros [H1 H2]; split; auto; lia. }
  split; auto. split; auto. split; [rewrite Hidxs; apply filter_seq_sorted|].
  split; auto. apply Hmem. split; auto.
  unfold has_key. apply existsb_exists. exists (k, v). split; auto. apply beq_refl.
Qed.

(* ------------------------------------------------------------------ *)
(* examples (vm_compute)                                               *)
(* ------------------------------------------------------------------ *)

Local Open Scope N_scope.
Definition ka : bytes := [97].
Definition kb : bytes := [98].
Local Notation i0 := 0%nat.
Local Notation i1 := 1%nat.
Local Notation i2 := 2%nat.

(* one iterator has "", "a"; the other "a" *)
Example ex_empty_then_shared :
  enum_run_new 4 [[([], 7); (ka, 9)]; [(ka, 5)]]
  = [([], i0, 7); (ka, i0, 9); (ka, i1, 5)].
Proof. vm_compute. reflexivity. Qed.

Example ex_empty_then_shared_low :
  enum_run_low_new 4 [[([], 7); (ka, 9)]; [(ka, 5)]]
  = [(([], i0, 7), ([i0], [7])); ((ka, i0, 9), ([i0; i1], [9; 5]));
     ((ka, i1, 5), ([i0; i1], [9; 5]))].
Proof. vm_compute. reflexivity. Qed.

(* a single iterator holding only the empty key *)
Example ex_only_empty : enum_run_new 2 [[([], 7)]] = [([], i0, 7)].
Proof. vm_compute. reflexivity. Qed.

(* "" in the second iterator but not in the first *)
Example ex_empty_in_second :
  enum_run_new 5 [[(ka, 5); (kb, 6)]; [([], 7); (kb, 8)]]
  = [([], i1, 7); (ka, i0, 5); (kb, i0, 6); (kb, i1, 8)].
Proof. vm_compute. reflexivity. Qed.

(* "" in all three iterators, one of them holding nothing else *)
Example ex_empty_everywhere :
  enum_run_low_new 7 [[([], 7); (ka, 1)]; [([], 8)]; [([], 9); (ka, 2); (kb, 3)]]
  = [(([], i0, 7), ([i0; i1; i2], [7; 8; 9])); (([], i1, 8), ([i0; i1; i2], [7; 8; 9]));
     (([], i2, 9), ([i0; i1; i2], [7; 8; 9])); ((ka, i0, 1), ([i0; i2], [1; 2]));
     ((ka, i2, 2), ([i0; i2], [1; 2])); ((kb, i2, 3), ([i2], [3]))].
Proof. vm_compute. reflexivity. Qed.

Example ex_spec_agrees :
  let its := [[([], 7); (ka, 1)]; [([], 8)]; [([], 9); (ka, 2); (kb, 3)]] in
  enum_run_new (S (total_pairs its)) its = spec_triples its
  /\ enum_start_run (enum_new_ideal its) (S (total_pairs its)) = spec_triples its.
Proof. vm_compute. split; reflexivity. Qed.

(* no iterators, and iterators without keys *)
Example ex_none : enum_run_new 1 [] = [] /\ enum_run_new 1 [[]; []] = [].
Proof. vm_compute. split; reflexivity. Qed.

(* a zero value on a NON-empty key is harmless (the key slice is non-nil) *)
Example ex_zero_value_nonempty_key :
  enum_run_new 4 [[(ka, 0); (kb, 2)]; [(ka, 5)]]
  = [(ka, i0, 0); (ka, i1, 5); (kb, i0, 2)].
Proof. vm_compute. reflexivity. Qed.

(* ------------------------------------------------------------------ *)
(* the excluded case: the empty key with value 0                       *)
(* ------------------------------------------------------------------ *)

(* A fresh vellum iterator positioned on "" returns a nil key; with value 0 the
   test `key == nil && m.currVs[i] == 0` of updateMatches takes it for an
   exhausted iterator.  It is then never part of lowIdxs, hence never advanced:
   ALL terms of that segment are dropped from the merge, not only "".
   (Cannot happen on segments written by ice: new.go and merge.go insert a term
   in the FST only if postingsOffset > 0.) *)
Example ex_empty_key_zero_value :
  enum_run_new 4 [[([], 0); (ka, 9)]; [(ka, 5)]] = [(ka, i1, 5)]
  /\ enum_run_new 5 [[(ka, 5)]; [([], 0); (ka, 9); (kb, 3)]] = [(ka, i0, 5)].
Proof. vm_compute. split; reflexivity. Qed.

Theorem empty_key_zero_value_refuted :
  exists its,
    Forall key_sorted its
    /\ (forall l k v, In l its -> In (k, v) l -> k <> [] -> v <> 0)
    /\ enum_run_new (S (total_pairs its)) its <> spec_triples its
    /\ In (ka, i0, 9) (all_triples its)
    /\ ~ In (ka, i0, 9) (enum_run_new (S (total_pairs its)) its).
Proof.
  exists [[([], 0); (ka, 9)]; [(ka, 5)]].
  split; [repeat constructor|].
  split.
  { intros l k v Hl Hkv Hk. cbn in Hl.
    destruct Hl as [<-|[<-|[]]]; cbn in Hkv;
      repeat (destruct Hkv as [Hkv|Hkv]; [injection Hkv as <- <-|]);
      try contradiction; try discriminate. }
  split; [vm_compute; discriminate|].
  split; [vm_compute; auto|].
  vm_compute. intros [H|[]]. discriminate.
Qed.

(* Writer_Proofs.v - C12: a failing writer never yields silent success. *)
From Coq Require Import List Arith NArith Bool Lia ZifyBool ZifyN ZifyNat.
From Ice Require Import Base Writer.
Import ListNotations.
Local Open Scope N_scope.

(* ---- the destination ---- *)
Lemma dest_write_spec (d : dest) (n : N) (d' : dest) (w : N) (err : bool) :
  dest_write d n = (d', w, err) ->
  (err = false /\ n <= room d /\ w = n /\
   room d' = room d - n /\ accepted d' = accepted d + n) \/
  (err = true /\ room d < n /\ w = room d /\
   room d' = 0 /\ accepted d' = accepted d + room d).
Proof.
  unfold dest_write. destruct (n <=? room d) eqn:E; intro H; inversion H; subst; cbn.
  - left. repeat split. lia.
  - right. repeat split. lia.
Qed.

Theorem dest_write_accepted (d : dest) (n : N) :
  let '(d', w, err) := dest_write d n in
  accepted d' = accepted d + w /\ (err = false -> w = n) /\
  (err = true -> room d' = 0 /\ w < n).
Proof.
  destruct (dest_write d n) as [[d' w] err] eqn:E.
  apply dest_write_spec in E.
  destruct E as [(He & Hn & Hw & Hr & Ha) | (He & Hn & Hw & Hr & Ha)]; subst err.
  - repeat split; try lia; intro; discriminate.
  - repeat split; try lia; intro; discriminate.
Qed.

(* ---- the invariant of the buffered writer, relative to the capacity k of the
   destination and the number W of bytes handed to the writer so far ---- *)
Definition Inv (k W : N) (b : bw) : Prop :=
  0 < size b /\ buffered b <= size b /\
  accepted (under b) + room (under b) = k /\
  (if sticky b then k < W else accepted (under b) + buffered b = W).

Lemma Inv_sticky_mono (k W n : N) (b : bw) :
  Inv k W b -> sticky b = true -> Inv k (W + n) b.
Proof.
  unfold Inv. intros (H1 & H2 & H3 & H4) Hs. rewrite Hs in *.
  repeat split; try assumption. lia.
Qed.

Lemma bw_loop_S (f : nat) (b : bw) (n : N) :
  bw_write_loop (S f) b n =
  if ((size b - buffered b) <? n) && negb (sticky b) then
    if buffered b =? 0 then
      let '(d', w, err) := dest_write (under b) n in
      bw_write_loop f (mkBW (size b) 0 err d') (n - w)
    else
      let avail := size b - buffered b in
      let '(b', _) := bw_flush (mkBW (size b) (buffered b + avail) (sticky b) (under b)) in
      bw_write_loop f b' (n - avail)
  else if sticky b then (b, true)
  else (mkBW (size b) (buffered b + n) false (under b), false).
Proof. reflexivity. Qed.

Lemma bw_loop_sticky (f : nat) (b : bw) (n : N) :
  sticky b = true -> bw_write_loop (S f) b n = (b, true).
Proof.
  intro Hs. rewrite bw_loop_S. rewrite Hs. cbn [negb].
  rewrite andb_false_r. reflexivity.
Qed.

(* not sticky and the rest fits: one iteration, the copy *)
Lemma bw_loop_fits (f : nat) (b : bw) (n : N) :
  sticky b = false -> n <= size b - buffered b ->
  bw_write_loop (S f) b n = (mkBW (size b) (buffered b + n) false (under b), false).
Proof.
  intros Hs Hn. rewrite bw_loop_S. rewrite Hs. cbn [negb].
  replace (size b - buffered b <? n) with false by lia.
  reflexivity.
Qed.

(* empty buffer, not sticky: at most a direct write then the (empty) copy *)
Lemma bw_loop_empty (k W : N) (f : nat) (b : bw) (n : N) :
  Inv k W b -> sticky b = false -> buffered b = 0 ->
  let '(b', e) := bw_write_loop (S (S f)) b n in
  Inv k (W + n) b' /\ e = sticky b'.
Proof.
  intros HI Hs Hb.
  destruct (n <=? size b - buffered b) eqn:Efit.
  - rewrite bw_loop_fits by (try assumption; lia).
    destruct HI as (H1 & H2 & H3 & H4). rewrite Hs in H4.
    unfold Inv. cbn [size buffered sticky under]. repeat split; lia.
  - rewrite bw_loop_S.
    rewrite Hs. cbn [negb].
    replace (size b - buffered b <? n) with true by lia.
    cbn [andb]. rewrite Hb. cbn [N.eqb].
    destruct (dest_write (under b) n) as [[d' w] err] eqn:E.
    apply dest_write_spec in E.
    destruct HI as (H1 & H2 & H3 & H4). rewrite Hs in H4.
    destruct E as [(He & Hn & Hw & Hr & Ha) | (He & Hn & Hw & Hr & Ha)]; subst err.
    + rewrite bw_loop_fits; cbn [size buffered sticky under]; try reflexivity; try lia.
      unfold Inv. cbn [size buffered sticky under]. repeat split; lia.
    + rewrite bw_loop_sticky by reflexivity.
      unfold Inv. cbn [size buffered sticky under]. repeat split; lia.
Qed.

Lemma bw_write_inv (k W : N) (b : bw) (n : N) :
  Inv k W b ->
  let '(b', e) := bw_write b n in Inv k (W + n) b' /\ e = sticky b'.
Proof.
  intro HI. unfold bw_write.
  destruct (sticky b) eqn:Hs.
  - rewrite bw_loop_sticky by assumption. split.
    + apply Inv_sticky_mono; assumption.
    + symmetry. assumption.
  - destruct (n <=? size b - buffered b) eqn:Efit.
    + rewrite bw_loop_fits by (try assumption; lia).
      destruct HI as (H1 & H2 & H3 & H4). rewrite Hs in H4.
      unfold Inv. cbn [size buffered sticky under]. repeat split; lia.
    + destruct (buffered b =? 0) eqn:Eb.
      * apply (bw_loop_empty k W 2 b n); try assumption. lia.
      * (* fill the buffer and flush it *)
        rewrite bw_loop_S.
        rewrite Hs. cbn [negb].
        replace (size b - buffered b <? n) with true by lia.
        cbn [andb]. rewrite Eb.
        unfold bw_flush. cbn [size buffered sticky under].
        destruct HI as (H1 & H2 & H3 & H4). rewrite Hs in H4.
        replace (buffered b + (size b - buffered b) =? 0) with false by lia.
        destruct (dest_write (under b) (buffered b + (size b - buffered b)))
          as [[d' w] err] eqn:E.
        apply dest_write_spec in E.
        destruct E as [(He & Hn & Hw & Hr & Ha) | (He & Hn & Hw & Hr & Ha)]; subst err.
        -- pose (b1 := mkBW (size b) 0 false d').
           assert (HI1 : Inv k (W + (size b - buffered b)) b1).
           { unfold Inv, b1. cbn [size buffered sticky under]. repeat split; lia. }
           pose proof (bw_loop_empty k _ 1 b1 (n - (size b - buffered b)) HI1
                         eq_refl eq_refl) as HL.
           fold b1.
           destruct (bw_write_loop 3 b1 (n - (size b - buffered b))) as [b' e].
           destruct HL as [HL1 HL2]. split; [|exact HL2].
           replace (W + n) with (W + (size b - buffered b) + (n - (size b - buffered b)))
             by lia.
           exact HL1.
        -- rewrite bw_loop_sticky by reflexivity.
           unfold Inv. cbn [size buffered sticky under]. repeat split; lia.
Qed.

Lemma bw_flush_inv (k W : N) (b : bw) :
  Inv k W b ->
  let '(b', err) := bw_flush b in
  (err = false -> accepted (under b') = W /\ W <= k) /\ (W <= k -> err = false).
Proof.
  intros (H1 & H2 & H3 & H4). unfold bw_flush.
  destruct (sticky b) eqn:Hs.
  - split; [intro; discriminate | intro; lia].
  - destruct (buffered b =? 0) eqn:Eb.
    + split; [intro; lia | reflexivity].
    + destruct (dest_write (under b) (buffered b)) as [[d' w] err] eqn:E.
      apply dest_write_spec in E.
      destruct E as [(He & Hn & Hw & Hr & Ha) | (He & Hn & Hw & Hr & Ha)]; subst err.
      * cbn [under]. split; [intro; lia | reflexivity].
      * split; [intro; discriminate | intro; lia].
Qed.

Lemma total_bytes_cons (n : N) (c : bool) (rest : list site) :
  total_bytes ((n, c) :: rest) = n + total_bytes rest.
Proof. reflexivity. Qed.

Lemma run_sites_inv (k : N) (sites : list site) :
  forall (W : N) (b : bw), Inv k W b ->
  let '(b', err) := run_sites b sites in
  (err = false -> accepted (under b') = W + total_bytes sites /\
                  W + total_bytes sites <= k) /\
  (W + total_bytes sites <= k -> err = false).
Proof.
  induction sites as [|[n c] rest IH]; intros W b HI.
  - cbn [run_sites]. unfold total_bytes. cbn [map sumN].
    pose proof (bw_flush_inv k W b HI) as HF.
    destruct (bw_flush b) as [b' err]. rewrite N.add_0_r. exact HF.
  - cbn [run_sites]. rewrite total_bytes_cons.
    pose proof (bw_write_inv k W b n HI) as HW.
    destruct (bw_write b n) as [b1 e]. destruct HW as [HI1 He].
    destruct (e && c) eqn:Eec.
    + split; [intro; discriminate|].
      intro Hle. exfalso.
      destruct HI1 as (_ & _ & _ & H4).
      assert (Hst : sticky b1 = true) by (destruct e, c; try discriminate; congruence).
      rewrite Hst in H4. lia.
    + specialize (IH (W + n) b1 HI1).
      destruct (run_sites b1 rest) as [b' err].
      rewrite N.add_assoc. exact IH.
Qed.

Lemma bw_new_inv (bufsize k : N) : Inv k 0 (bw_new bufsize (mkDest k 0)).
Proof.
  unfold Inv, bw_new. cbn [size buffered sticky under room accepted].
  destruct (bufsize =? 0) eqn:E; repeat split; lia.
Qed.

Lemma writeto_spec (bufsize k : N) (sites : list site) :
  (fst (writeto bufsize k sites) = false ->
   snd (writeto bufsize k sites) = total_bytes sites /\ total_bytes sites <= k) /\
  (total_bytes sites <= k -> fst (writeto bufsize k sites) = false).
Proof.
  unfold writeto.
  pose proof (run_sites_inv k sites 0 _ (bw_new_inv bufsize k)) as H.
  destruct (run_sites (bw_new bufsize (mkDest k 0)) sites) as [b err].
  cbn [fst snd]. rewrite N.add_0_l in H. exact H.
Qed.

(* ---- the theorems of C12 ---- *)
Theorem success_means_complete (bufsize k : N) (sites : list site) :
  fst (writeto bufsize k sites) = false ->
  snd (writeto bufsize k sites) = total_bytes sites /\ total_bytes sites <= k.
Proof. apply writeto_spec. Qed.

Theorem no_silent_success (bufsize k : N) (sites : list site) :
  k < total_bytes sites -> fst (writeto bufsize k sites) = true.
Proof.
  intro Hk. destruct (fst (writeto bufsize k sites)) eqn:E; [reflexivity|].
  apply success_means_complete in E. lia.
Qed.

Theorem enough_room_succeeds (bufsize k : N) (sites : list site) :
  total_bytes sites <= k -> writeto bufsize k sites = (false, total_bytes sites).
Proof.
  intro Hk.
  pose proof (proj2 (writeto_spec bufsize k sites) Hk) as Hf.
  pose proof (proj1 (writeto_spec bufsize k sites) Hf) as [Hs _].
  destruct (writeto bufsize k sites) as [e a]. cbn [fst snd] in *. subst. reflexivity.
Qed.

(* ---- cancellation ---- *)
Lemma run_phases_gen (closed_from : nat) (phases : list (bool * N)) :
  forall (i : nat) (acc : N),
  run_phases i closed_from acc phases = CClosed \/
  run_phases i closed_from acc phases = CDone (acc + sumN (map snd phases)).
Proof.
  induction phases as [|[poll n] rest IH]; intros i acc.
  - right. cbn [run_phases map sumN]. rewrite N.add_0_r. reflexivity.
  - cbn [run_phases map sumN snd].
    destruct (poll && Nat.leb closed_from i); [left; reflexivity|].
    rewrite N.add_assoc. apply IH.
Qed.

Theorem cancel_closed_or_complete (phases : list (bool * N)) (closed_from : nat) :
  run_phases 0 closed_from 0 phases = CClosed \/
  run_phases 0 closed_from 0 phases = CDone (sumN (map snd phases)).
Proof. exact (run_phases_gen closed_from phases 0%nat 0). Qed.

Lemma run_phases_open (phases : list (bool * N)) :
  forall (i closed_from : nat) (acc : N),
  (i + length phases < closed_from)%nat ->
  run_phases i closed_from acc phases = CDone (acc + sumN (map snd phases)).
Proof.
  induction phases as [|[poll n] rest IH]; intros i cf acc Hlt.
  - cbn [run_phases map sumN]. rewrite N.add_0_r. reflexivity.
  - cbn [run_phases map sumN snd]. cbn [length] in Hlt.
    replace (Nat.leb cf i) with false by (symmetry; apply Nat.leb_gt; lia).
    rewrite andb_false_r. rewrite N.add_assoc. apply IH. lia.
Qed.

Theorem cancel_never_closed (phases : list (bool * N)) :
  run_phases 0 (length phases + 1) 0 phases = CDone (sumN (map snd phases)).
Proof.
  rewrite (run_phases_open phases 0%nat (length phases + 1)%nat 0) by lia.
  reflexivity.
Qed.

(* ---- a concrete run ---- *)
Example writeto_fails_at_4000 :
  writeto 16 4000 [(10, true); (5000, false); (3, false)] = (true, 4000).
Proof. vm_compute. reflexivity. Qed.

Example writeto_succeeds_at_6000 :
  writeto 16 6000 [(10, true); (5000, false); (3, false)] = (false, 5013).
Proof. vm_compute. reflexivity. Qed.

(* MergeAlgebra_Proofs.v - algebraic laws of Spec.merge_spec:
   structure, canonical field lists, identity, associativity, deletions at
   either level, merged postings / terms / statistics. *)
From Coq Require Import List NArith Bool Lia Arith Sorting.
From Ice Require Import Base Spec.
From IceProofs Require Import Sort_Proofs Docnums_Proofs.
Import ListNotations.
Open Scope N_scope.
From Coq Require Import ZifyBool ZifyN ZifyNat.

(* ------------------------------------------------------------------ *)
(* generic list helpers                                                *)
(* ------------------------------------------------------------------ *)
Lemma flat_map'_app {A B} (f : A -> list B) (xs ys : list A) :
  flat_map' f (xs ++ ys) = flat_map' f xs ++ flat_map' f ys.
Proof.
  induction xs as [|x xs IH]; cbn [flat_map' app].
  - reflexivity.
  - rewrite IH, app_assoc. reflexivity.
Qed.

Lemma In_flat_map' {A B} (f : A -> list B) (l : list A) (y : B) :
  In y (flat_map' f l) <-> exists x, In x l /\ In y (f x).
Proof.
  induction l as [|a l IH]; cbn [flat_map' In].
  - split; [tauto | intros [x [[] _]]].
  - rewrite in_app_iff, IH. split.
    + intros [H | [x [H1 H2]]]; [exists a; auto | exists x; auto].
    + intros [x [[E|H1] H2]]; [subst; left; auto | right; exists x; auto].
Qed.

Lemma filter_all {A} (f : A -> bool) (l : list A) :
  (forall x, In x l -> f x = true) -> filter f l = l.
Proof.
  induction l as [|a l IH]; intros H; cbn [filter].
  - reflexivity.
  - rewrite (H a) by (left; reflexivity). f_equal. apply IH.
    intros x Hx. apply H. right. exact Hx.
Qed.

Lemma sumN_app (l1 l2 : list N) : sumN (l1 ++ l2) = sumN l1 + sumN l2.
Proof.
  induction l1 as [|x l1 IH]; cbn [sumN app]; [reflexivity | rewrite IH; lia].
Qed.

Lemma lenN_app {A} (l1 l2 : list A) : lenN (l1 ++ l2) = lenN l1 + lenN l2.
Proof. unfold lenN. rewrite app_length. lia. Qed.

(* ------------------------------------------------------------------ *)
(* the shape of a merged segment                                       *)
(* ------------------------------------------------------------------ *)
Definition all_fields (ins : list (ASeg * list N)) : list bytes :=
  flat_map' (fun p => as_fields (fst p)) ins.
Definition all_survivors (ins : list (ASeg * list N)) : list ADoc :=
  flat_map' (fun p => survivors (fst p) (snd p)) ins.
Definition mk_merged (fields : list bytes) (docs : list ADoc) : ASeg :=
  mkASeg fields docs (map (fun f => (f, merged_stats docs f)) fields).

Lemma merge_spec_fst (ins : list (ASeg * list N)) :
  fst (merge_spec ins) = mk_merged (field_list (all_fields ins)) (all_survivors ins).
Proof. reflexivity. Qed.

Lemma all_fields_app xs ys : all_fields (xs ++ ys) = all_fields xs ++ all_fields ys.
Proof. apply flat_map'_app. Qed.
Lemma all_survivors_app xs ys : all_survivors (xs ++ ys) = all_survivors xs ++ all_survivors ys.
Proof. apply flat_map'_app. Qed.

Lemma all_fields_cons A dr ys : all_fields ((A, dr) :: ys) = as_fields A ++ all_fields ys.
Proof. reflexivity. Qed.
Lemma all_survivors_cons A dr ys :
  all_survivors ((A, dr) :: ys) = survivors A dr ++ all_survivors ys.
Proof. reflexivity. Qed.

(* ------------------------------------------------------------------ *)
(* field_list                                                          *)
(* ------------------------------------------------------------------ *)
Lemma negb_beq_id (n : bytes) : negb (beq n id_name) = true <-> n <> id_name.
Proof.
  rewrite negb_true_iff. split.
  - intros H E. apply beq_eq in E. congruence.
  - intros H. destruct (beq n id_name) eqn:E; auto. apply beq_eq in E. contradiction.
Qed.

Lemma bytes_eq_id_dec (f : bytes) : f = id_name \/ f <> id_name.
Proof.
  destruct (beq f id_name) eqn:E.
  - left. apply beq_eq. exact E.
  - right. intros E'. apply beq_eq in E'. congruence.
Qed.

Lemma field_list_In (l : list bytes) (f : bytes) :
  In f (field_list l) <-> f = id_name \/ In f l.
Proof.
  unfold field_list. cbn [In]. rewrite sort_dedup_bytes_In, filter_In, negb_beq_id.
  split.
  - intros [H | [H _]]; auto.
  - intros [H | H]; auto.
    destruct (bytes_eq_id_dec f) as [E|E]; auto.
Qed.

Lemma field_list_ext_id (l1 l2 : list bytes) :
  (forall x, x <> id_name -> (In x l1 <-> In x l2)) -> field_list l1 = field_list l2.
Proof.
  intros H. unfold field_list. f_equal. apply sort_dedup_bytes_ext.
  intros x. rewrite !filter_In, !negb_beq_id.
  split; intros [H1 H2]; (split; [apply (H x H2); exact H1 | exact H2]).
Qed.

Definition canonical_fields (l : list bytes) : Prop :=
  exists rest, l = id_name :: rest /\ strict_sorted_bytes rest /\ ~ In id_name rest.

Theorem field_list_canonical (names : list bytes) : canonical_fields (field_list names).
Proof.
  unfold canonical_fields, field_list. eexists. split; [reflexivity|]. split.
  - apply sort_dedup_bytes_sorted.
  - rewrite sort_dedup_bytes_In, filter_In, negb_beq_id. intros [_ H]. apply H. reflexivity.
Qed.

Theorem field_list_fix (l : list bytes) : canonical_fields l -> field_list l = l.
Proof.
  intros [rest [-> [Hs Hn]]]. unfold field_list. cbn [filter].
  rewrite beq_refl. cbn [negb]. f_equal.
  rewrite filter_all.
  - apply sort_dedup_bytes_fix. exact Hs.
  - intros x Hx. apply negb_beq_id. intros ->. contradiction.
Qed.

Theorem field_list_ext (l1 l2 : list bytes) :
  (forall x, In x l1 <-> In x l2) -> field_list l1 = field_list l2.
Proof. intros H. apply field_list_ext_id. intros x _. apply H. Qed.

Theorem field_list_app_idem (l1 l2 : list bytes) :
  field_list (field_list l1 ++ l2) = field_list (l1 ++ l2).
Proof.
  apply field_list_ext_id. intros x Hx.
  rewrite !in_app_iff, field_list_In. tauto.
Qed.

Lemma field_list_mid_idem (l0 l1 l2 : list bytes) :
  field_list (l0 ++ field_list l1 ++ l2) = field_list (l0 ++ l1 ++ l2).
Proof.
  apply field_list_ext_id. intros x Hx.
  rewrite !in_app_iff, field_list_In. tauto.
Qed.

(* ------------------------------------------------------------------ *)
(* 1. structure                                                        *)
(* ------------------------------------------------------------------ *)
Theorem merge_docs (ins : list (ASeg * list N)) :
  as_docs (fst (merge_spec ins)) = flat_map' (fun p => survivors (fst p) (snd p)) ins.
Proof. reflexivity. Qed.

Theorem merge_fields (ins : list (ASeg * list N)) :
  as_fields (fst (merge_spec ins)) = field_list (flat_map' (fun p => as_fields (fst p)) ins).
Proof. reflexivity. Qed.

Theorem merge_fields_In (ins : list (ASeg * list N)) (f : bytes) :
  In f (as_fields (fst (merge_spec ins))) <->
  f = id_name \/ exists A dr, In (A, dr) ins /\ In f (as_fields A).
Proof.
  rewrite merge_fields, field_list_In, In_flat_map'. split.
  - intros [H | [[A dr] [H1 H2]]]; [left; exact H | right; exists A, dr; auto].
  - intros [H | [A [dr [H1 H2]]]]; [left; exact H | right; exists (A, dr); auto].
Qed.

Theorem merge_fields_id_first (ins : list (ASeg * list N)) :
  exists rest, as_fields (fst (merge_spec ins)) = id_name :: rest /\
               strict_sorted_bytes rest /\ ~ In id_name rest.
Proof. rewrite merge_fields. apply field_list_canonical. Qed.

Lemma keep_nil {A} (l : list A) : forall i, keep [] i l = l.
Proof.
  induction l as [|x l IH]; intros i.
  - reflexivity.
  - rewrite keep_cons. cbn [memN mem]. rewrite IH. reflexivity.
Qed.

Theorem survivors_nil_drops (A : ASeg) : survivors A [] = as_docs A.
Proof. rewrite survivors_keep. apply keep_nil. Qed.

Lemma survivors_docs_only (A B : ASeg) (dr : list N) :
  as_docs A = as_docs B -> survivors A dr = survivors B dr.
Proof. intros H. unfold survivors. rewrite H. reflexivity. Qed.

(* ------------------------------------------------------------------ *)
(* 3. single-segment identity                                          *)
(* ------------------------------------------------------------------ *)
Lemma renumber_nil (n : nat) : forall i next,
  renumber n i [] next = map N.of_nat (seq (N.to_nat next) n).
Proof.
  induction n as [|n IH]; intros i next; cbn [renumber seq map].
  - reflexivity.
  - cbn [memN mem]. rewrite IH. f_equal; [lia|].
    replace (N.to_nat (next + 1)) with (S (N.to_nat next)) by lia. reflexivity.
Qed.

Lemma merge_single_fst (A : ASeg) (dr : list N) :
  fst (merge_spec [(A, dr)]) = mk_merged (field_list (as_fields A)) (survivors A dr).
Proof.
  rewrite merge_spec_fst. unfold all_fields, all_survivors. cbn [flat_map' fst snd].
  rewrite !app_nil_r. reflexivity.
Qed.

Lemma merge_single_snd (A : ASeg) :
  snd (merge_spec [(A, [])]) = [map N.of_nat (seq 0 (length (as_docs A)))].
Proof.
  rewrite merge_spec_snd. cbn [merge_docnums]. rewrite renumber_nil. reflexivity.
Qed.

Theorem merge_identity (A : ASeg) :
  canonical_fields (as_fields A) ->
  as_fields (fst (merge_spec [(A, [])])) = as_fields A /\
  as_docs (fst (merge_spec [(A, [])])) = as_docs A /\
  as_stats (fst (merge_spec [(A, [])])) =
    map (fun f => (f, merged_stats (as_docs A) f)) (as_fields A) /\
  snd (merge_spec [(A, [])]) = [map N.of_nat (seq 0 (length (as_docs A)))].
Proof.
  intros Hc. rewrite merge_single_fst, survivors_nil_drops, (field_list_fix _ Hc).
  unfold mk_merged. cbn [as_fields as_docs as_stats].
  repeat split. apply merge_single_snd.
Qed.

Theorem merge_identity_merged (ins : list (ASeg * list N)) :
  fst (merge_spec [(fst (merge_spec ins), [])]) = fst (merge_spec ins).
Proof.
  rewrite merge_single_fst, survivors_nil_drops.
  rewrite (merge_spec_fst ins). unfold mk_merged at 2 3. cbn [as_fields as_docs].
  rewrite (field_list_fix _ (field_list_canonical _)). reflexivity.
Qed.

(* ------------------------------------------------------------------ *)
(* 4. associativity                                                    *)
(* ------------------------------------------------------------------ *)
Theorem merge_assoc_general (xs ys zs : list (ASeg * list N)) :
  fst (merge_spec (xs ++ (fst (merge_spec ys), []) :: zs)) = fst (merge_spec (xs ++ ys ++ zs)).
Proof.
  rewrite !(merge_spec_fst (xs ++ _)).
  rewrite !all_fields_app, !all_survivors_app, all_fields_cons, all_survivors_cons.
  rewrite survivors_nil_drops, (merge_spec_fst ys).
  unfold mk_merged at 2 3. cbn [as_fields as_docs].
  rewrite field_list_mid_idem. reflexivity.
Qed.

Theorem merge_assoc_prefix (xs ys : list (ASeg * list N)) :
  fst (merge_spec ((fst (merge_spec xs), []) :: ys)) = fst (merge_spec (xs ++ ys)).
Proof. apply (merge_assoc_general [] xs ys). Qed.

(* ------------------------------------------------------------------ *)
(* 5. deletions at either level                                        *)
(* ------------------------------------------------------------------ *)
Definition translate_drops (tbl : list N) (dr : list N) : list N :=
  map (fun d => nth (N.to_nat d) tbl docDropped) dr.

Lemma nth_map_seq (n : nat) : forall s k dflt,
  (k < n)%nat -> nth k (map N.of_nat (seq s n)) dflt = N.of_nat (s + k).
Proof.
  induction n as [|n IH]; intros s k dflt Hk; [lia|].
  cbn [seq map]. destruct k as [|k]; cbn [nth].
  - f_equal. lia.
  - rewrite IH by lia. f_equal. lia.
Qed.

Lemma translate_identity (n : nat) (dr : list N) :
  Forall (fun d => d < N.of_nat n) dr ->
  translate_drops (map N.of_nat (seq 0 n)) dr = dr.
Proof.
  unfold translate_drops. induction 1 as [|d dr Hd _ IH]; cbn [map].
  - reflexivity.
  - rewrite IH. f_equal. rewrite nth_map_seq by lia. lia.
Qed.

Theorem merge_translate_single (A : ASeg) (dr : list N) :
  Forall (fun d => d < o_count A) dr ->
  let M := fst (merge_spec [(A, [])]) in
  let tbl := hd [] (snd (merge_spec [(A, [])])) in
  as_docs (fst (merge_spec [(M, translate_drops tbl dr)])) = as_docs (fst (merge_spec [(A, dr)])).
Proof.
  intros H M tbl. subst M tbl.
  rewrite merge_single_snd. cbn [hd].
  rewrite translate_identity by exact H.
  rewrite !merge_single_fst. unfold mk_merged at 1 3. cbn [as_docs].
  apply survivors_docs_only. unfold mk_merged. cbn [as_docs].
  apply survivors_nil_drops.
Qed.

(* ------------------------------------------------------------------ *)
(* 6. merged postings, terms and statistics                            *)
(* ------------------------------------------------------------------ *)
Theorem merge_postings_docs (ins : list (ASeg * list N)) (f t : bytes) :
  o_postings (fst (merge_spec ins)) f t =
  if known_field (fst (merge_spec ins)) f
  then flat_map' (doc_posting f t)
                 (number_from 0 (flat_map' (fun p => survivors (fst p) (snd p)) ins))
  else [].
Proof. reflexivity. Qed.

Theorem merge_terms_survive (ins : list (ASeg * list N)) (f t : bytes) :
  In t (o_terms (fst (merge_spec ins)) f) <->
  known_field (fst (merge_spec ins)) f = true /\
  exists p d, In p ins /\ In d (survivors (fst p) (snd p)) /\ In t (map fst (doc_terms d f)).
Proof.
  unfold o_terms. destruct (known_field (fst (merge_spec ins)) f).
  - rewrite sort_dedup_bytes_In, In_flat_map', merge_docs. split.
    + intros [d [H1 H2]]. split; [reflexivity|].
      apply In_flat_map' in H1. destruct H1 as [p [Hp Hd]].
      exists p, d. auto.
    + intros [_ [p [d [Hp [Hd Ht]]]]]. exists d. split; [|exact Ht].
      apply In_flat_map'. exists p. auto.
  - cbn [In]. split; [tauto | intros [H _]; discriminate].
Qed.

Theorem merge_stats_additive (docs1 docs2 : list ADoc) (f : bytes) :
  merged_stats (docs1 ++ docs2) f =
  (fst (merged_stats docs1 f) + fst (merged_stats docs2 f),
   snd (merged_stats docs1 f) + snd (merged_stats docs2 f)).
Proof.
  unfold merged_stats. cbn [fst snd].
  rewrite filter_app, lenN_app, map_app, sumN_app. reflexivity.
Qed.

(* ------------------------------------------------------------------ *)
(* a worked example                                                    *)
(* ------------------------------------------------------------------ *)
Definition exm_doc (idv : N) (fname term : bytes) : ADoc :=
  mkADoc [ mkADF id_name 0 [([idv], (1, []))] false;
           mkADF fname 1065353216 [(term, (1, [(fname, (1, (0, 3)))]))] false ]
         [(id_name, [idv])].

Definition exm_A : ASeg :=
  mkASeg [id_name; [97]]
         [exm_doc 48 [97] [120]; exm_doc 49 [97] [121]; exm_doc 50 [97] [120]] [].
Definition exm_B : ASeg :=
  mkASeg [id_name; [98]]
         [exm_doc 51 [98] [120]; exm_doc 52 [98] [122]] [].
Definition exm_C : ASeg :=
  mkASeg [id_name; [97]; [99]]
         [exm_doc 53 [99] [121]; exm_doc 54 [97] [122]] [].

Example merge_bracketings_agree :
  let all := fst (merge_spec [(exm_A, [1]); (exm_B, []); (exm_C, [0])]) in
  fst (merge_spec [(fst (merge_spec [(exm_A, [1]); (exm_B, [])]), []); (exm_C, [0])]) = all /\
  fst (merge_spec [(exm_A, [1]); (fst (merge_spec [(exm_B, []); (exm_C, [0])]), [])]) = all /\
  as_fields all = [id_name; [97]; [98]; [99]] /\
  length (as_docs all) = 5%nat.
Proof. vm_compute. repeat split; reflexivity. Qed.

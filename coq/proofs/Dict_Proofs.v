(* Dict_Proofs.v - C08 (dictionary iterator counts through the reused scratch
   PostingsList), the FST range search, the specification side of the
   dictionary (o_terms / o_dict / o_contains) and C13 for iterators. *)
From Coq Require Import List NArith Bool Lia Sorting Permutation.
From Coq Require Import ZifyBool ZifyN ZifyNat.
From Ice Require Import Base Spec Postings Dict.
From IceProofs Require Import Sort_Proofs DocsMatching_Proofs.
Import ListNotations.
Open Scope N_scope.

(* ------------------------------------------------------------------ *)
(* C08: DictionaryIterator.Next through the scratch list               *)
(* ------------------------------------------------------------------ *)

Lemma pl_read_except (p : PL) (v : FstVal) : pl_except (pl_read p v) = pl_except p.
Proof. destruct v; reflexivity. Qed.

Lemma pl_count_read_noexcept (tmp : PL) (v : FstVal) :
  pl_except tmp = None ->
  (forall d nb, v = V1Hit d nb -> nb <> 0) ->
  pl_Count (pl_read tmp v) = fst_count v.
Proof.
  intros Hex Hnb. destruct v as [d nb | docs];
    unfold pl_Count, pl_read, fst_count;
    cbn [pl_norm1 pl_doc1 pl_postings pl_except]; rewrite Hex.
  - assert (nb <> 0) as Hne by (eapply Hnb; reflexivity).
    destruct (nb =? 0) eqn:E; [apply N.eqb_eq in E; contradiction|].
    cbn [negb]. reflexivity.
  - cbn [N.eqb negb]. apply N.sub_0_r.
Qed.

Theorem dict_iter_counts (tmp : PL) (entries : list (bytes * FstVal)) :
  pl_except tmp = None ->
  (forall k d nb, In (k, V1Hit d nb) entries -> nb <> 0) ->
  dict_iter pl_read tmp entries = map (fun e => (fst e, fst_count (snd e))) entries.
Proof.
  revert tmp. induction entries as [|[k v] rest IH]; intros tmp Hex Hnb.
  - reflexivity.
  - cbn [dict_iter map fst snd]. f_equal.
    + f_equal. apply pl_count_read_noexcept; [assumption|].
      intros d nb ->. apply (Hnb k d nb). left; reflexivity.
    + apply IH.
      * rewrite pl_read_except; assumption.
      * intros k' d nb Hin. apply (Hnb k' d nb). right; assumption.
Qed.

Theorem dict_iter_prefix_refuted :
  exists tmp entries, pl_except tmp = None /\
    dict_iter pl_read_prefix tmp entries <> map (fun e => (fst e, fst_count (snd e))) entries.
Proof.
  exists pl_zero, [([97], V1Hit 0 1); ([98], VGen [0; 1; 2])].
  split; [reflexivity|]. vm_compute. discriminate.
Qed.

Lemma filter_split_length {X} (p : X -> bool) (l : list X) :
  (length (filter p l) + length (filter (fun x => negb (p x)) l) = length l)%nat.
Proof.
  induction l as [|x l IH]; cbn [filter length]; [reflexivity|].
  destruct (p x); cbn [negb length]; lia.
Qed.

Theorem pl_count_spec (docs : list N) (ex : option (list N)) :
  pl_Count (pl_read (mkPL None 0 0 ex) (VGen docs))
  = lenN (filter (fun d => match ex with Some e => negb (memN d e) | None => true end) docs).
Proof.
  unfold pl_Count, pl_read. cbn [pl_norm1 pl_doc1 pl_postings pl_except N.eqb negb].
  destruct ex as [e|].
  - unfold lenN. pose proof (filter_split_length (fun d => memN d e) docs) as H. lia.
  - rewrite N.sub_0_r. f_equal. symmetry.
    induction docs as [|d docs IH]; cbn [filter]; [reflexivity|]. f_equal; exact IH.
Qed.

Theorem pl_count_1hit (d nb : N) (ex : option (list N)) : nb <> 0 ->
  pl_Count (pl_read (mkPL None 0 0 ex) (V1Hit d nb))
  = (match ex with Some e => if memN d e then 0 else 1 | None => 1 end).
Proof.
  intros Hne. unfold pl_Count, pl_read. cbn [pl_norm1 pl_doc1 pl_postings pl_except].
  destruct (nb =? 0) eqn:E; [apply N.eqb_eq in E; contradiction|]. cbn [negb].
  destruct ex as [e|]; [destruct (memN d e)|]; reflexivity.
Qed.

(* ------------------------------------------------------------------ *)
(* the FST search                                                      *)
(* ------------------------------------------------------------------ *)

Theorem fst_search_spec (m : list (bytes * FstVal)) lo hi pre (e : bytes * FstVal) :
  In e (fst_search m lo hi pre) <-> In e m /\ in_range lo hi pre (fst e) = true.
Proof. unfold fst_search. apply filter_In. Qed.

Lemma strict_sorted_filter_key {V} (p : bytes * V -> bool) (m : list (bytes * V)) :
  strict_sorted_bytes (map fst m) -> strict_sorted_bytes (map fst (filter p m)).
Proof.
  unfold strict_sorted_bytes.
  induction m as [|a m IH]; cbn [map filter]; intros Hs.
  - constructor.
  - inversion Hs as [|x l Hs' Hf]; subst.
    destruct (p a); cbn [map]; [|auto].
    constructor; [auto|].
    rewrite Forall_forall in *. intros y Hy. apply Hf.
    apply in_map_iff in Hy. destruct Hy as [z [<- Hz]].
    apply filter_In in Hz. apply in_map. tauto.
Qed.

Theorem fst_search_sorted (m : list (bytes * FstVal)) lo hi pre :
  strict_sorted_bytes (map fst m) -> strict_sorted_bytes (map fst (fst_search m lo hi pre)).
Proof. unfold fst_search. apply strict_sorted_filter_key. Qed.

Lemma ble_blt_false (a k : bytes) : ble a k = true -> blt k a = false.
Proof.
  unfold ble, blt. rewrite (bcmp_antisym a k).
  destruct (bcmp a k); cbn [CompOpp]; congruence.
Qed.

Theorem in_range_empty (k a : bytes) pre : in_range (Some a) (Some a) pre k = false.
Proof.
  unfold in_range. destruct (ble a k) eqn:E.
  - rewrite (ble_blt_false a k E). reflexivity.
  - reflexivity.
Qed.

(* ------------------------------------------------------------------ *)
(* the specification side                                              *)
(* ------------------------------------------------------------------ *)

Theorem o_dict_keys (A : ASeg) (f : bytes) lo hi pre :
  map fst (o_dict A f lo hi pre) = filter (in_range lo hi pre) (o_terms A f).
Proof.
  unfold o_dict. rewrite map_map. cbn [fst]. apply map_id.
Qed.

Theorem o_terms_sorted (A : ASeg) (f : bytes) : strict_sorted_bytes (o_terms A f).
Proof.
  unfold o_terms. destruct (known_field A f).
  - apply sort_dedup_bytes_sorted.
  - constructor.
Qed.

Theorem o_dict_counts (A : ASeg) (f t : bytes) (n : N) lo hi pre :
  In (t, n) (o_dict A f lo hi pre) -> n = lenN (o_postings A f t) /\ In t (o_terms A f).
Proof.
  unfold o_dict. intros H. apply in_map_iff in H. destruct H as [t' [E Hin]].
  inversion E; subst. apply filter_In in Hin. tauto.
Qed.

Theorem o_contains_iff (A : ASeg) (f t : bytes) : o_contains A f t = true <-> In t (o_terms A f).
Proof. unfold o_contains. apply mem_In, beq_eq. Qed.

Lemma find_ex {X} (p : X -> bool) (l : list X) (x : X) :
  In x l -> p x = true -> exists y, find p l = Some y.
Proof.
  induction l as [|a l IH]; cbn [In find]; [tauto|].
  intros [->|Hin] Hp.
  - rewrite Hp. eauto.
  - destruct (p a); eauto.
Qed.

Theorem o_terms_have_postings (A : ASeg) (f t : bytes) : In t (o_terms A f) -> o_postings A f t <> [].
Proof.
  unfold o_terms, o_postings. destruct (known_field A f); [|intros []].
  intros Hin. apply (proj1 (sort_dedup_bytes_In _ _)) in Hin.
  apply (proj1 (flat_map'_In _ _ _)) in Hin. destruct Hin as [d [Hd Ht]].
  apply in_map_iff in Ht. destruct Ht as [at_ [Hfst Hat]].
  unfold doc_terms in Hat. destruct (doc_field d f) as [df|] eqn:Edf; [|destruct Hat].
  destruct (find_ex (fun a => beq (fst a) t) (adf_terms df) at_ Hat) as [y Hy].
  { cbv beta. apply beq_eq. assumption. }
  apply In_nth_error in Hd. destruct Hd as [n Hn].
  assert (Hnum : In (0 + N.of_nat n, d) (number_from 0 (as_docs A))).
  { apply number_from_In. exists n. auto. }
  destruct y as [yk [fr ls]].
  assert (Hp : In (0 + N.of_nat n, (fr, (adf_norm df, ls)))
                  (flat_map' (doc_posting f t) (number_from 0 (as_docs A)))).
  { apply flat_map'_In. exists (0 + N.of_nat n, d). split; [assumption|].
    unfold doc_posting. cbn [snd fst]. rewrite Edf, Hy. left; reflexivity. }
  intros Heq. rewrite Heq in Hp. destruct Hp.
Qed.

Theorem o_terms_unknown_field (A : ASeg) (f : bytes) :
  known_field A f = false -> o_terms A f = [] /\ forall lo hi pre, o_dict A f lo hi pre = [].
Proof.
  intros H. assert (E : o_terms A f = []) by (unfold o_terms; rewrite H; reflexivity).
  split; [assumption|]. intros lo hi pre. unfold o_dict. rewrite E. reflexivity.
Qed.

(* ------------------------------------------------------------------ *)
(* C13 for iterators                                                   *)
(* ------------------------------------------------------------------ *)

Theorem it_init_old_irrelevant (e : EncPL) (ex : option (list N)) (fn locs : bool)
        (fields : list bytes) (old : It) :
  it_init e ex fn locs fields (Some old) = it_init e ex fn locs fields None.
Proof. reflexivity. Qed.

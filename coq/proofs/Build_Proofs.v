(* Build_Proofs.v - what a batch of analysed documents implies
   (Spec.abs_of_batch, the specification of the segment builder) and the
   statistics.  Everything is for an arbitrary norm function. *)
From Coq Require Import List NArith Bool Lia Sorting Permutation.
From Ice Require Import Base Spec.
From IceProofs Require Import Sort_Proofs.
Import ListNotations.
Open Scope N_scope.
From Coq Require Import ZifyBool ZifyN ZifyNat.

(* ------------------------------------------------------------------ *)
(* the declarative meaning of one posting                              *)
(* ------------------------------------------------------------------ *)
Definition matching_terms (f t : bytes) (doc : Doc) : list Term :=
  filter (fun tm => beq (t_bytes tm) t) (flat_map' f_terms (instances f doc)).
Definition implied_freq (f t : bytes) (doc : Doc) : N := sumN (map t_freq (matching_terms f t doc)).
Definition implied_locs (f t : bytes) (doc : Doc) : list ALoc :=
  flat_map' (fun tm => map (resolve_loc f) (t_locs tm)) (matching_terms f t doc).
Definition implied_norm (norm : bytes -> N -> N) (f : bytes) (doc : Doc) : N :=
  norm f (sumN (map f_len (instances f doc))).

(* ------------------------------------------------------------------ *)
(* small list utilities                                                *)
(* ------------------------------------------------------------------ *)
Lemma beq_sym (a b : bytes) : beq a b = beq b a.
Proof.
  destruct (beq a b) eqn:E1, (beq b a) eqn:E2; try reflexivity.
  - apply beq_eq in E1. subst b. rewrite beq_refl in E2. discriminate.
  - apply beq_eq in E2. subst b. rewrite beq_refl in E1. discriminate.
Qed.

Lemma beq_neq (a b : bytes) : beq a b = false <-> a <> b.
Proof.
  split.
  - intros H E. subst b. rewrite beq_refl in H. discriminate.
  - intros H. destruct (beq a b) eqn:E; [|reflexivity].
    apply beq_eq in E. contradiction.
Qed.

Lemma In_flat_map' {A B} (g : A -> list B) (l : list A) (y : B) :
  In y (flat_map' g l) <-> exists x, In x l /\ In y (g x).
Proof.
  induction l as [|a l IH]; cbn [flat_map' In].
  - split; [tauto | intros [x [[] _]]].
  - rewrite in_app_iff, IH. split.
    + intros [H | [x [H1 H2]]]; [exists a; auto | exists x; auto].
    + intros [x [[E|H1] H2]]; [subst x; left; auto | right; exists x; auto].
Qed.

Lemma flat_map'_app {A B} (g : A -> list B) (l1 l2 : list A) :
  flat_map' g (l1 ++ l2) = flat_map' g l1 ++ flat_map' g l2.
Proof.
  induction l1 as [|a l1 IH]; cbn [flat_map' app].
  - reflexivity.
  - rewrite IH, app_assoc. reflexivity.
Qed.

Lemma flat_map'_map {A B C} (g : A -> B) (h : B -> list C) (l : list A) :
  flat_map' h (map g l) = flat_map' (fun x => h (g x)) l.
Proof.
  induction l as [|a l IH]; cbn [flat_map' map]; [reflexivity|].
  rewrite IH. reflexivity.
Qed.

Lemma flat_map'_ext_in {A B} (g h : A -> list B) (l : list A) :
  (forall x, In x l -> g x = h x) -> flat_map' g l = flat_map' h l.
Proof.
  induction l as [|a l IH]; intros H; cbn [flat_map']; [reflexivity|].
  rewrite H by (left; reflexivity). rewrite IH; [reflexivity|].
  intros x Hx. apply H. right; assumption.
Qed.

Lemma flat_map'_nil {A B} (g : A -> list B) (l : list A) :
  (forall x, In x l -> g x = []) -> flat_map' g l = [].
Proof.
  induction l as [|a l IH]; intros H; cbn [flat_map']; [reflexivity|].
  rewrite H by (left; reflexivity). rewrite IH; [reflexivity|].
  intros x Hx. apply H. right; assumption.
Qed.

Lemma sumN_app (l1 l2 : list N) : sumN (l1 ++ l2) = sumN l1 + sumN l2.
Proof.
  induction l1 as [|a l1 IH]; cbn [sumN app]; [reflexivity|]. rewrite IH. lia.
Qed.

Lemma sumN_perm (l1 l2 : list N) : Permutation l1 l2 -> sumN l1 = sumN l2.
Proof.
  induction 1; cbn [sumN]; lia.
Qed.

Lemma sumN_flat_map' {A} (g : A -> list N) (l : list A) :
  sumN (flat_map' g l) = sumN (map (fun x => sumN (g x)) l).
Proof.
  induction l as [|a l IH]; cbn [flat_map' map sumN]; [reflexivity|].
  rewrite sumN_app, IH. reflexivity.
Qed.

Lemma map_flat_map' {A B C} (g : A -> list B) (h : B -> C) (l : list A) :
  map h (flat_map' g l) = flat_map' (fun x => map h (g x)) l.
Proof.
  induction l as [|a l IH]; cbn [flat_map' map]; [reflexivity|].
  rewrite map_app, IH. reflexivity.
Qed.

Lemma filter_flat_map' {A B} (g : A -> list B) (p : B -> bool) (l : list A) :
  filter p (flat_map' g l) = flat_map' (fun x => filter p (g x)) l.
Proof.
  induction l as [|a l IH]; cbn [flat_map' filter]; [reflexivity|].
  rewrite filter_app, IH. reflexivity.
Qed.

Lemma find_app {A} (p : A -> bool) (l1 l2 : list A) :
  find p (l1 ++ l2) = match find p l1 with Some x => Some x | None => find p l2 end.
Proof.
  induction l1 as [|a l1 IH]; cbn [find app]; [reflexivity|].
  destruct (p a); [reflexivity | apply IH].
Qed.

Lemma find_none_all {A} (p : A -> bool) (l : list A) :
  (forall x, In x l -> p x = false) -> find p l = None.
Proof.
  induction l as [|a l IH]; intros H; cbn [find]; [reflexivity|].
  rewrite H by (left; reflexivity). apply IH. intros x Hx. apply H. right; assumption.
Qed.

(* find by key *)
Section FindKey.
  Context {A : Type} (K : A -> bytes).

  Lemma find_key_unique (t : bytes) (l : list A) (x : A) :
    NoDup (map K l) -> In x l -> K x = t ->
    find (fun y => beq (K y) t) l = Some x.
  Proof.
    induction l as [|a l IH]; intros Hnd Hin Hk; [destruct Hin|].
    cbn [map] in Hnd. inversion Hnd as [|? ? Hni Hnd']; subst.
    cbn [find]. destruct Hin as [E|Hin].
    - subst a. rewrite beq_refl. reflexivity.
    - destruct (beq (K a) (K x)) eqn:E.
      + apply beq_eq in E. exfalso. apply Hni. rewrite E. apply in_map. assumption.
      + apply IH; auto.
  Qed.

  Lemma find_key_perm (t : bytes) (l l' : list A) :
    NoDup (map K l) -> Permutation l l' ->
    find (fun y => beq (K y) t) l' = find (fun y => beq (K y) t) l.
  Proof.
    intros Hnd Hp.
    assert (Hnd' : NoDup (map K l')).
    { eapply Permutation_NoDup; [apply Permutation_map; exact Hp | exact Hnd]. }
    destruct (find (fun y => beq (K y) t) l) as [x|] eqn:E.
    - apply find_some in E. destruct E as [Hin Hk]. apply beq_eq in Hk.
      apply find_key_unique; auto. eapply Permutation_in; eauto.
    - apply find_none_all. intros x Hx.
      eapply find_none in E; [exact E|].
      eapply Permutation_in; [apply Permutation_sym; exact Hp | exact Hx].
  Qed.

  Lemma find_key_In (t : bytes) (l : list A) :
    In t (map K l) <-> find (fun y => beq (K y) t) l <> None.
  Proof.
    induction l as [|a l IH]; cbn [map In find].
    - split; [tauto | congruence].
    - destruct (beq (K a) t) eqn:E.
      + apply beq_eq in E. split; [congruence | auto].
      + apply beq_neq in E. rewrite <- IH. tauto.
  Qed.

  (* each g x is a list whose elements all carry key x *)
  Lemma find_flat_map_single (g : bytes -> list A) (l : list bytes) (f : bytes) :
    (forall x y, In y (g x) -> K y = x) ->
    find (fun y => beq (K y) f) (flat_map' g l) =
    if mem beq f l then hd_error (g f) else None.
  Proof.
    intros Hk. induction l as [|x l IH]; cbn [flat_map' mem]; [reflexivity|].
    rewrite find_app. destruct (beq f x) eqn:E; cbn [orb].
    - apply beq_eq in E. subst x.
      destruct (g f) as [|y r] eqn:Eg.
      + cbn [find hd_error]. rewrite IH. destruct (mem beq f l); reflexivity.
      + cbn [find hd_error]. rewrite (Hk f y) by (rewrite Eg; left; reflexivity).
        rewrite beq_refl. reflexivity.
    - rewrite find_none_all; [exact IH|].
      intros y Hy. rewrite (Hk x y Hy). rewrite beq_sym. exact E.
  Qed.
End FindKey.

Lemma find_map_pair {B} (h : bytes -> B) (l : list bytes) (f : bytes) :
  find (fun p => beq (fst p) f) (map (fun x => (x, h x)) l) =
  if mem beq f l then Some (f, h f) else None.
Proof.
  induction l as [|x l IH]; cbn [map find mem fst]; [reflexivity|].
  rewrite (beq_sym x f). destruct (beq f x) eqn:E; cbn [orb].
  - apply beq_eq in E. subst x. reflexivity.
  - exact IH.
Qed.

Lemma number_from_map {A B} (g : A -> B) (l : list A) (i : N) :
  number_from i (map g l) = map (fun p => (fst p, g (snd p))) (number_from i l).
Proof.
  revert i. induction l as [|a l IH]; intros i; cbn [number_from map fst snd]; [reflexivity|].
  rewrite IH. reflexivity.
Qed.

Lemma number_from_In {A} (l : list A) (i n : N) (x : A) :
  In (n, x) (number_from i l) -> In x l /\ i <= n.
Proof.
  revert i. induction l as [|a l IH]; intros i; cbn [number_from In]; [tauto|].
  intros [E|H].
  - inversion E; subst. split; [auto | lia].
  - apply IH in H. destruct H as [H1 H2]. split; [auto | lia].
Qed.

Lemma nthN_nth_error {A} (l : list A) (n : nat) : nthN l n = nth_error l n.
Proof.
  revert n. induction l as [|a l IH]; intros [|n]; cbn [nthN nth_error]; auto.
Qed.

Lemma StronglySorted_map {A B} (R : B -> B -> Prop) (g : A -> B) (l : list A) :
  StronglySorted (fun a b => R (g a) (g b)) l -> StronglySorted R (map g l).
Proof.
  induction 1 as [|a l Hs IH Hf]; cbn [map]; constructor; auto.
  rewrite Forall_forall in *. intros y Hy. apply in_map_iff in Hy.
  destruct Hy as [x [<- Hx]]. auto.
Qed.

Lemma ble_sorted_NoDup_strict (l : list bytes) :
  StronglySorted (fun a b => ble a b = true) l -> NoDup l -> strict_sorted_bytes l.
Proof.
  unfold strict_sorted_bytes.
  induction 1 as [|a l Hs IH Hf]; intros Hnd; constructor.
  - apply IH. inversion Hnd; assumption.
  - inversion Hnd as [|? ? Hni Hnd']; subst.
    rewrite Forall_forall in *. intros y Hy. apply blt_ble_neq. split; auto.
    intros ->. contradiction.
Qed.

(* ------------------------------------------------------------------ *)
(* count and fields                                                    *)
(* ------------------------------------------------------------------ *)
Theorem build_count norm (b : Batch) : o_count (abs_of_batch norm b) = lenN b.
Proof.
  unfold o_count, abs_of_batch, lenN. cbn [as_docs]. rewrite map_length. reflexivity.
Qed.

Theorem build_fields norm (b : Batch) :
  o_fields (abs_of_batch norm b) = field_list (batch_field_names b).
Proof. reflexivity. Qed.

Lemma batch_field_names_In (b : Batch) (f : bytes) :
  In f (batch_field_names b) <-> exists d fld, In d b /\ In fld d /\ f_name fld = f.
Proof.
  unfold batch_field_names. rewrite In_flat_map'. split.
  - intros [d [Hd Hf]]. apply in_map_iff in Hf. destruct Hf as [fld [E Hfld]].
    exists d, fld. auto.
  - intros [d [fld [Hd [Hfld E]]]]. exists d. split; auto.
    apply in_map_iff. exists fld. auto.
Qed.

Lemma field_list_In (names : list bytes) (f : bytes) :
  In f (field_list names) <-> f = id_name \/ In f names.
Proof.
  unfold field_list. cbn [In]. rewrite sort_dedup_bytes_In, filter_In. split.
  - intros [H|[H _]]; auto.
  - intros [H|H]; auto.
    destruct (beq f id_name) eqn:E.
    + apply beq_eq in E. auto.
    + right. split; auto.
Qed.

Theorem build_fields_In norm (b : Batch) (f : bytes) :
  In f (o_fields (abs_of_batch norm b)) <->
  f = id_name \/ exists d fld, In d b /\ In fld d /\ f_name fld = f.
Proof.
  rewrite build_fields, field_list_In, batch_field_names_In. tauto.
Qed.

Theorem build_known_field norm (b : Batch) (f : bytes) :
  known_field (abs_of_batch norm b) f = true <-> In f (o_fields (abs_of_batch norm b)).
Proof.
  unfold known_field, o_fields. apply mem_In. apply beq_eq.
Qed.

(* ------------------------------------------------------------------ *)
(* roll_up: summed frequency, concatenated locations, sorted keys      *)
(* ------------------------------------------------------------------ *)
Lemma find_add_term (fname : bytes) (tm : Term) (acc : list ATerm) (t : bytes) :
  find (fun at_ : ATerm => beq (fst at_) t) (add_term fname tm acc) =
  if beq (t_bytes tm) t then
    match find (fun at_ : ATerm => beq (fst at_) t) acc with
    | None => Some (t_bytes tm, (t_freq tm, map (resolve_loc fname) (t_locs tm)))
    | Some (k, (fr, ls)) =>
        Some (k, (fr + t_freq tm, ls ++ map (resolve_loc fname) (t_locs tm)))
    end
  else find (fun at_ : ATerm => beq (fst at_) t) acc.
Proof.
  induction acc as [|[k [fr ls]] acc IH]; cbn [add_term].
  - cbn [find fst]. destruct (beq (t_bytes tm) t); reflexivity.
  - destruct (beq k (t_bytes tm)) eqn:E1.
    + apply beq_eq in E1. subst k. cbn [find fst].
      destruct (beq (t_bytes tm) t); reflexivity.
    + cbn [find fst]. destruct (beq k t) eqn:E2.
      * apply beq_eq in E2. subst k. rewrite beq_sym, E1. reflexivity.
      * exact IH.
Qed.

Lemma add_term_keys (fname : bytes) (tm : Term) (acc : list ATerm) :
  map fst (add_term fname tm acc) =
  if mem beq (t_bytes tm) (map fst acc) then map fst acc
  else map fst acc ++ [t_bytes tm].
Proof.
  induction acc as [|[k [fr ls]] acc IH]; cbn [add_term map mem fst app].
  - reflexivity.
  - rewrite (beq_sym (t_bytes tm) k). destruct (beq k (t_bytes tm)); cbn [orb map fst].
    + reflexivity.
    + rewrite IH. destruct (mem beq (t_bytes tm) (map fst acc)); reflexivity.
Qed.

Lemma add_term_NoDup (fname : bytes) (tm : Term) (acc : list ATerm) :
  NoDup (map fst acc) -> NoDup (map fst (add_term fname tm acc)).
Proof.
  intros H. rewrite add_term_keys.
  destruct (mem beq (t_bytes tm) (map fst acc)) eqn:E; [assumption|].
  eapply Permutation_NoDup; [apply Permutation_cons_append|].
  constructor; [|assumption].
  intros Hin. apply (mem_In beq beq_eq) in Hin. congruence.
Qed.

Lemma fold_add_term_NoDup (fname : bytes) (ts : list Term) (acc : list ATerm) :
  NoDup (map fst acc) ->
  NoDup (map fst (fold_left (fun acc t => add_term fname t acc) ts acc)).
Proof.
  revert acc. induction ts as [|tm ts IH]; intros acc H; cbn [fold_left]; [assumption|].
  apply IH, add_term_NoDup, H.
Qed.

Definition entry_of (fname t : bytes) (ms : list Term) : option ATerm :=
  match ms with
  | [] => None
  | _ => Some (t, (sumN (map t_freq ms),
                   flat_map' (fun tm => map (resolve_loc fname) (t_locs tm)) ms))
  end.

Lemma entry_of_snoc (fname t : bytes) (ms : list Term) (tm : Term) :
  match entry_of fname t ms with
  | None => Some (t, (t_freq tm, map (resolve_loc fname) (t_locs tm)))
  | Some (k, (fr, ls)) =>
      Some (k, (fr + t_freq tm, ls ++ map (resolve_loc fname) (t_locs tm)))
  end = entry_of fname t (ms ++ [tm]).
Proof.
  destruct ms as [|m ms].
  - cbn [entry_of app map sumN flat_map']. rewrite N.add_0_r, app_nil_r. reflexivity.
  - change ((m :: ms) ++ [tm]) with (m :: (ms ++ [tm])).
    unfold entry_of.
    change (m :: (ms ++ [tm])) with ((m :: ms) ++ [tm]).
    rewrite map_app, sumN_app, flat_map'_app.
    cbn [map sumN flat_map']. rewrite N.add_0_r, app_nil_r. reflexivity.
Qed.

Lemma fold_add_term_find (fname t : bytes) (ts : list Term) :
  forall (acc : list ATerm) (seen : list Term),
  find (fun at_ : ATerm => beq (fst at_) t) acc =
    entry_of fname t (filter (fun tm => beq (t_bytes tm) t) seen) ->
  find (fun at_ : ATerm => beq (fst at_) t)
       (fold_left (fun acc t => add_term fname t acc) ts acc) =
    entry_of fname t (filter (fun tm => beq (t_bytes tm) t) (seen ++ ts)).
Proof.
  induction ts as [|tm ts IH]; intros acc seen H; cbn [fold_left].
  - rewrite app_nil_r. exact H.
  - replace (seen ++ tm :: ts) with ((seen ++ [tm]) ++ ts)
      by (rewrite <- app_assoc; reflexivity).
    apply IH. rewrite find_add_term, H, filter_app. cbn [filter].
    destruct (beq (t_bytes tm) t) eqn:E.
    + apply beq_eq in E. rewrite E. apply entry_of_snoc.
    + rewrite app_nil_r. reflexivity.
Qed.

Theorem roll_up_lookup (fname t : bytes) (insts : list Field) :
  find (fun at_ => beq (fst at_) t) (roll_up fname insts) =
  match filter (fun tm => beq (t_bytes tm) t) (flat_map' f_terms insts) with
  | [] => None
  | ms => Some (t, (sumN (map t_freq ms), flat_map' (fun tm => map (resolve_loc fname) (t_locs tm)) ms))
  end.
Proof.
  unfold roll_up.
  etransitivity.
  { apply (find_key_perm (@fst bytes (N * list ALoc)) t
             (fold_left (fun acc t0 => add_term fname t0 acc) (flat_map' f_terms insts) [])).
    - apply fold_add_term_NoDup. constructor.
    - apply Permutation_sym, isort_key_perm. }
  etransitivity; [exact (fold_add_term_find fname t (flat_map' f_terms insts) [] [] eq_refl)|].
  cbn [app]. unfold entry_of.
  destruct (filter (fun tm : Term => beq (t_bytes tm) t) (flat_map' f_terms insts)); reflexivity.
Qed.

Theorem roll_up_keys_sorted (fname : bytes) (insts : list Field) :
  strict_sorted_bytes (map fst (roll_up fname insts)).
Proof.
  unfold roll_up. apply ble_sorted_NoDup_strict.
  - apply (StronglySorted_map (fun a b => ble a b = true) fst). apply isort_key_sorted.
  - eapply Permutation_NoDup.
    + apply Permutation_map, Permutation_sym, isort_key_perm.
    + apply fold_add_term_NoDup. constructor.
Qed.

Lemma add_term_sum (fname : bytes) (tm : Term) (acc : list ATerm) :
  sumN (map (fun at_ : ATerm => fst (snd at_)) (add_term fname tm acc)) =
  sumN (map (fun at_ : ATerm => fst (snd at_)) acc) + t_freq tm.
Proof.
  induction acc as [|[k [fr ls]] acc IH]; cbn [add_term map sumN fst snd].
  - lia.
  - destruct (beq k (t_bytes tm)); cbn [map sumN fst snd].
    + lia.
    + rewrite IH. lia.
Qed.

Lemma fold_add_term_sum (fname : bytes) (ts : list Term) (acc : list ATerm) :
  sumN (map (fun at_ : ATerm => fst (snd at_))
            (fold_left (fun acc t => add_term fname t acc) ts acc)) =
  sumN (map (fun at_ : ATerm => fst (snd at_)) acc) + sumN (map t_freq ts).
Proof.
  revert acc. induction ts as [|tm ts IH]; intros acc; cbn [fold_left map sumN].
  - lia.
  - rewrite IH, add_term_sum. lia.
Qed.

Theorem roll_up_total_freq (fname : bytes) (insts : list Field) :
  sumN (map (fun at_ => fst (snd at_)) (roll_up fname insts)) = sumN (map t_freq (flat_map' f_terms insts)).
Proof.
  unfold roll_up.
  rewrite (sumN_perm _ _ (Permutation_map _ (isort_key_perm _))).
  rewrite fold_add_term_sum. cbn [map sumN]. lia.
Qed.

(* ------------------------------------------------------------------ *)
(* the abstract document of one input document                         *)
(* ------------------------------------------------------------------ *)
Lemma abs_doc_field_key norm (b : Batch) (doc : Doc) (x : bytes) (y : ADocField) :
  In y (abs_doc_field norm b doc x) -> adf_name y = x.
Proof.
  unfold abs_doc_field. destruct (instances x doc); cbn [In]; [tauto|].
  intros [E|[]]. subst y. reflexivity.
Qed.

Lemma instances_In (f : bytes) (doc : Doc) (fld : Field) :
  In fld (instances f doc) <-> In fld doc /\ f_name fld = f.
Proof. unfold instances. rewrite filter_In, beq_eq. tauto. Qed.

Lemma instances_nil_unknown (b : Batch) (doc : Doc) (f : bytes) :
  In doc b -> ~ In f (field_list (batch_field_names b)) -> instances f doc = [].
Proof.
  intros Hd Hn. destruct (instances f doc) as [|fld r] eqn:E; [reflexivity|].
  exfalso. apply Hn. apply field_list_In. right. apply batch_field_names_In.
  assert (H : In fld (instances f doc)) by (rewrite E; left; reflexivity).
  apply instances_In in H. destruct H as [H1 H2]. exists doc, fld. auto.
Qed.

Lemma doc_field_abs_doc norm (b : Batch) (doc : Doc) (f : bytes) :
  In doc b ->
  doc_field (abs_doc norm b (field_list (batch_field_names b)) doc) f =
  hd_error (abs_doc_field norm b doc f).
Proof.
  intros Hd. unfold doc_field, abs_doc. cbn [ad_fields].
  etransitivity.
  { apply (find_flat_map_single adf_name (abs_doc_field norm b doc) _ f).
    apply abs_doc_field_key. }
  destruct (mem beq f (field_list (batch_field_names b))) eqn:E; [reflexivity|].
  unfold abs_doc_field. rewrite (instances_nil_unknown b doc f); auto.
  intros Hin. apply (mem_In beq beq_eq) in Hin. congruence.
Qed.

Lemma doc_terms_abs_doc norm (b : Batch) (doc : Doc) (f : bytes) :
  In doc b ->
  doc_terms (abs_doc norm b (field_list (batch_field_names b)) doc) f =
  roll_up f (instances f doc).
Proof.
  intros Hd. unfold doc_terms. rewrite doc_field_abs_doc by assumption.
  unfold abs_doc_field. destruct (instances f doc); reflexivity.
Qed.

Lemma doc_posting_abs_doc norm (b : Batch) (f t : bytes) (n : N) (doc : Doc) :
  In doc b ->
  doc_posting f t (n, abs_doc norm b (field_list (batch_field_names b)) doc) =
  match matching_terms f t doc with
  | [] => []
  | _ => [(n, (implied_freq f t doc, (implied_norm norm f doc, implied_locs f t doc)))]
  end.
Proof.
  intros Hd. unfold doc_posting. cbn [fst snd]. rewrite doc_field_abs_doc by assumption.
  unfold abs_doc_field, implied_freq, implied_locs, implied_norm, matching_terms.
  destruct (instances f doc) as [|i r] eqn:Ei.
  - reflexivity.
  - cbn [hd_error adf_terms adf_norm].
    etransitivity.
    { pose proof (roll_up_lookup f t (i :: r)) as L.
      apply (f_equal (fun o : option ATerm =>
                match o with
                | Some (_, (fr, ls)) =>
                    [(n, (fr, (norm f (sumN (map f_len (i :: r))), ls)))]
                | None => []
                end) L). }
    destruct (filter (fun tm : Term => beq (t_bytes tm) t) (flat_map' f_terms (i :: r)));
      reflexivity.
Qed.

(* ------------------------------------------------------------------ *)
(* C01: exactly the postings the batch implies                         *)
(* ------------------------------------------------------------------ *)
Theorem build_postings norm (b : Batch) (f t : bytes) :
  o_postings (abs_of_batch norm b) f t =
  flat_map' (fun nd : N * Doc =>
               let '(n, doc) := nd in
               match matching_terms f t doc with
               | [] => []
               | _ => [(n, (implied_freq f t doc, (implied_norm norm f doc, implied_locs f t doc)))]
               end)
            (number_from 0 b).
Proof.
  unfold o_postings. destruct (known_field (abs_of_batch norm b) f) eqn:E.
  - unfold abs_of_batch. cbn [as_docs]. rewrite number_from_map, flat_map'_map.
    apply flat_map'_ext_in. intros [n doc] Hin. apply number_from_In in Hin.
    cbn [fst snd]. apply doc_posting_abs_doc. tauto.
  - symmetry. apply flat_map'_nil. intros [n doc] Hin. apply number_from_In in Hin.
    destruct Hin as [Hd _]. unfold matching_terms.
    rewrite (instances_nil_unknown b doc f); [reflexivity | assumption |].
    intros Hf. apply (proj2 (build_known_field norm b f)) in Hf. congruence.
Qed.

Lemma doc_posting_shape (f t : bytes) (nd : N * ADoc) :
  doc_posting f t nd = [] \/ exists r, doc_posting f t nd = [(fst nd, r)].
Proof.
  unfold doc_posting. destruct (doc_field (snd nd) f) as [df|]; [|auto].
  destruct (find (fun at_ => beq (fst at_) t) (adf_terms df)) as [[k [fr ls]]|]; eauto.
Qed.

Lemma postings_sorted_gen (f t : bytes) (docs : list ADoc) : forall i : N,
  StronglySorted (fun p q : APosting => fst p < fst q)
                 (flat_map' (doc_posting f t) (number_from i docs)) /\
  Forall (fun p : APosting => i <= fst p)
         (flat_map' (doc_posting f t) (number_from i docs)).
Proof.
  induction docs as [|d docs IH]; intros i; cbn [number_from flat_map'].
  - split; constructor.
  - destruct (IH (i + 1)) as [Hs Hf].
    assert (Hf' : Forall (fun p : APosting => i <= fst p)
                    (flat_map' (doc_posting f t) (number_from (i + 1) docs))).
    { eapply Forall_impl; [|exact Hf]. cbv beta. intros a Ha. lia. }
    destruct (doc_posting_shape f t (i, d)) as [E|[r E]]; rewrite E; cbn [app fst].
    + split; assumption.
    + split.
      * constructor; [assumption|].
        eapply Forall_impl; [|exact Hf]. cbv beta. cbn [fst]. intros a Ha. lia.
      * constructor; [cbn [fst]; lia | assumption].
Qed.

Theorem o_postings_ascending (A : ASeg) (f t : bytes) :
  StronglySorted (fun p q : APosting => fst p < fst q) (o_postings A f t).
Proof.
  unfold o_postings. destruct (known_field A f); [|constructor].
  apply postings_sorted_gen.
Qed.

Theorem build_postings_ascending norm (b : Batch) (f t : bytes) :
  StronglySorted (fun p q : APosting => fst p < fst q) (o_postings (abs_of_batch norm b) f t).
Proof. apply o_postings_ascending. Qed.

(* ------------------------------------------------------------------ *)
(* terms                                                               *)
(* ------------------------------------------------------------------ *)
Lemma roll_up_key_In (f t : bytes) (insts : list Field) :
  In t (map fst (roll_up f insts)) <->
  filter (fun tm => beq (t_bytes tm) t) (flat_map' f_terms insts) <> [].
Proof.
  pose proof (roll_up_lookup f t insts) as L.
  split.
  - intros H E. apply (find_key_In fst) in H. apply H.
    rewrite E in L. exact L.
  - intros H. apply (find_key_In fst). intros E. apply H.
    pose proof (eq_trans (eq_sym L) E) as L'.
    destruct (filter (fun tm : Term => beq (t_bytes tm) t) (flat_map' f_terms insts));
      [reflexivity | discriminate].
Qed.

Theorem build_terms norm (b : Batch) (f t : bytes) :
  In t (o_terms (abs_of_batch norm b) f) <-> exists doc, In doc b /\ matching_terms f t doc <> [].
Proof.
  unfold o_terms. destruct (known_field (abs_of_batch norm b) f) eqn:E.
  - rewrite sort_dedup_bytes_In. unfold abs_of_batch. cbn [as_docs].
    rewrite flat_map'_map, In_flat_map'. split.
    + intros [doc [Hd Hin]]. exists doc. split; [assumption|].
      rewrite doc_terms_abs_doc in Hin by assumption.
      apply roll_up_key_In in Hin. exact Hin.
    + intros [doc [Hd Hm]]. exists doc. split; [assumption|].
      rewrite doc_terms_abs_doc by assumption.
      apply roll_up_key_In. exact Hm.
  - split; [intros []|]. intros [doc [Hd Hm]]. apply Hm. unfold matching_terms.
    rewrite (instances_nil_unknown b doc f); [reflexivity | assumption |].
    intros Hf. apply (proj2 (build_known_field norm b f)) in Hf. congruence.
Qed.

Theorem build_terms_sorted norm (b : Batch) (f : bytes) :
  strict_sorted_bytes (o_terms (abs_of_batch norm b) f).
Proof.
  unfold o_terms. destruct (known_field (abs_of_batch norm b) f).
  - apply sort_dedup_bytes_sorted.
  - constructor.
Qed.

(* ------------------------------------------------------------------ *)
(* stored fields                                                       *)
(* ------------------------------------------------------------------ *)
Theorem build_stored norm (b : Batch) (n : nat) (doc : Doc) :
  nth_error b n = Some doc ->
  o_stored (abs_of_batch norm b) (N.of_nat n) = abs_stored (field_list (batch_field_names b)) doc.
Proof.
  intros H. unfold o_stored. rewrite Nat2N.id. unfold abs_of_batch. cbn [as_docs].
  rewrite nthN_nth_error. rewrite (map_nth_error _ _ _ H). reflexivity.
Qed.

Theorem build_stored_out_of_range norm (b : Batch) (n : N) :
  lenN b <= n -> o_stored (abs_of_batch norm b) n = [].
Proof.
  intros H. unfold o_stored. unfold abs_of_batch. cbn [as_docs]. rewrite nthN_nth_error.
  match goal with |- match ?x with _ => _ end = _ => assert (E : x = None) end.
  { apply nth_error_None. rewrite map_length. unfold lenN in H. lia. }
  rewrite E. reflexivity.
Qed.

(* ------------------------------------------------------------------ *)
(* C16: statistics                                                     *)
(* ------------------------------------------------------------------ *)
Lemma o_stats_abs_of_batch norm (b : Batch) (f : bytes) :
  o_stats (abs_of_batch norm b) f =
  if mem beq f (field_list (batch_field_names b))
  then (lenN b, built_stats b f) else (0, (0, 0)).
Proof.
  unfold o_stats. rewrite build_count. unfold abs_of_batch. cbn [as_stats].
  rewrite (find_map_pair (built_stats b)).
  destruct (mem beq f (field_list (batch_field_names b))); [|reflexivity].
  destruct (built_stats b f) as [dc fq]. reflexivity.
Qed.

Theorem build_stats_known norm (b : Batch) (f : bytes) :
  In f (o_fields (abs_of_batch norm b)) ->
  o_stats (abs_of_batch norm b) f = (lenN b, built_stats b f).
Proof.
  intros Hin. rewrite o_stats_abs_of_batch.
  apply (proj2 (build_known_field norm b f)) in Hin. unfold known_field in Hin.
  cbn [abs_of_batch as_fields] in Hin. rewrite Hin. reflexivity.
Qed.

Theorem build_stats_unknown norm (b : Batch) (f : bytes) :
  ~ In f (o_fields (abs_of_batch norm b)) -> o_stats (abs_of_batch norm b) f = (0, (0, 0)).
Proof.
  intros Hn. rewrite o_stats_abs_of_batch.
  destruct (mem beq f (field_list (batch_field_names b))) eqn:E; [|reflexivity].
  exfalso. apply Hn. apply (build_known_field norm b f). exact E.
Qed.

Definition lengths_are_freqs (b : Batch) : Prop :=
  forall d fld, In d b -> In fld d -> f_len fld = sumN (map t_freq (f_terms fld)).

Theorem build_stats_flavours_agree norm (b : Batch) (f : bytes) :
  lengths_are_freqs b ->
  snd (built_stats b f) = snd (merged_stats (as_docs (abs_of_batch norm b)) f).
Proof.
  intros HL. unfold built_stats, merged_stats. cbn [snd].
  unfold abs_of_batch. cbn [as_docs]. rewrite map_map. f_equal.
  apply map_ext_in. intros d Hd.
  rewrite doc_terms_abs_doc by assumption. rewrite roll_up_total_freq.
  rewrite map_flat_map', sumN_flat_map'. f_equal.
  apply map_ext_in. intros fld Hf. apply instances_In in Hf.
  apply (HL d fld); tauto.
Qed.

(* ------------------------------------------------------------------ *)
(* a worked example: field "t" occurs twice in the second document,    *)
(* both instances carry the term "cat" (frequencies 2 and 3), and one  *)
(* location names the other field "b"                                  *)
(* ------------------------------------------------------------------ *)
Definition ex_title : bytes := [116].          (* "t" *)
Definition ex_body : bytes := [98].            (* "b" *)
Definition ex_cat : bytes := [99; 97; 116].    (* "cat" *)
Definition ex_dog : bytes := [100; 111; 103].  (* "dog" *)
Definition ex_doc0 : Doc :=
  [ mkField ex_title 1 false false [] [ mkTerm ex_dog 1 [ mkLoc [] 1 0 3 ] ] ].
Definition ex_doc1 : Doc :=
  [ mkField ex_title 2 false false []
      [ mkTerm ex_cat 2 [ mkLoc [] 1 0 3; mkLoc ex_body 2 4 7 ] ];
    mkField ex_body 1 false false [] [ mkTerm ex_dog 1 [ mkLoc [] 1 0 3 ] ];
    mkField ex_title 4 false false []
      [ mkTerm ex_dog 1 [];
        mkTerm ex_cat 3 [ mkLoc [] 5 10 13; mkLoc [] 7 20 23 ] ] ].
Definition ex_batch : Batch := [ex_doc0; ex_doc1].
Definition ex_norm (f : bytes) (n : N) : N := n.

Example build_postings_example :
  o_postings (abs_of_batch ex_norm ex_batch) ex_title ex_cat =
  [(1, (5, (6, [ (ex_title, (1, (0, 3))); (ex_body, (2, (4, 7)));
                 (ex_title, (5, (10, 13))); (ex_title, (7, (20, 23))) ])))]
  /\ o_postings (abs_of_batch ex_norm ex_batch) ex_title ex_dog =
     [(0, (1, (1, [ (ex_title, (1, (0, 3))) ]))); (1, (1, (6, [])))]
  /\ o_fields (abs_of_batch ex_norm ex_batch) = [id_name; ex_body; ex_title]
  /\ o_stats (abs_of_batch ex_norm ex_batch) ex_title = (2, (2, 7)).
Proof. vm_compute. repeat split; reflexivity. Qed.

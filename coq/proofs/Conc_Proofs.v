(* Conc_Proofs.v - C09: concurrent readers observe what they observe alone. *)
From Coq Require Import List Arith NArith Bool Lia.
From Ice Require Import Base Conc.
Import ListNotations.
Local Open Scope N_scope.

Definition cache_ok (F : N -> N) (s : shared) : Prop :=
  forall k v, cache_get (cache s) k = Some v -> v = F k.

Lemma cache_get_cons (k0 v0 : N) (c : list (N * N)) (k : N) :
  cache_get ((k0, v0) :: c) k = if k0 =? k then Some v0 else cache_get c k.
Proof.
  unfold cache_get. cbn [find fst snd]. destruct (k0 =? k); reflexivity.
Qed.

Lemma cache_ok_cold (F : N -> N) : cache_ok F (mkShared [] 0).
Proof. intros k v H. cbn in H. discriminate H. Qed.

Theorem do_action_safe_obs F D (s : shared) (a : action) :
  cache_ok F s -> safe_action a = true ->
  snd (do_action F D s a) = snd (do_action F D (mkShared [] 0) a) /\
  cache_ok F (fst (do_action F D s a)).
Proof.
  intros Hok Hsafe. destruct a as [k | l | v | ]; cbn in Hsafe; try discriminate Hsafe.
  - (* AFill *)
    cbn [do_action cache]. change (cache_get [] k) with (@None N). cbn [snd].
    destruct (cache_get (cache s) k) as [v|] eqn:E; cbn [fst snd].
    + split; [apply Hok; exact E | exact Hok].
    + split; [reflexivity|].
      intros k1 v1 H1. cbn [cache] in H1. rewrite cache_get_cons in H1.
      destruct (k =? k1) eqn:Ek.
      * apply N.eqb_eq in Ek. subst k1. injection H1 as H1. symmetry. exact H1.
      * apply Hok. exact H1.
  - (* ARead *)
    cbn [do_action fst snd]. split; [reflexivity | exact Hok].
Qed.

Theorem alone_obs F D (acts : list action) :
  Forall (fun a => safe_action a = true) acts ->
  forall s obs, cache_ok F s ->
  alone F D s acts obs =
  rev (map (fun a => snd (do_action F D (mkShared [] 0) a)) acts) ++ obs.
Proof.
  induction acts as [|a acts IH]; intros Hall s obs Hok.
  - reflexivity.
  - inversion Hall as [|? ? Ha Hrest]; subst.
    cbn [alone map rev].
    destruct (do_action_safe_obs F D s a Hok Ha) as [Hv Hok'].
    destruct (do_action F D s a) as [s' v]. cbn [fst snd] in Hv, Hok'.
    rewrite (IH Hrest s' (v :: obs) Hok'). rewrite Hv.
    rewrite <- app_assoc. reflexivity.
Qed.

Definition safe_pool (p : pool) : Prop :=
  Forall (fun th : list action * list N =>
            Forall (fun a => safe_action a = true) (fst th)) p.

(* one step: the cache stays correct, the pool keeps its shape, and every
   thread has executed zero or one action, observing the cold value *)
Lemma step_thread_spec F D (p : pool) :
  forall (t : nat) (s s' : shared) (p' : pool),
  cache_ok F s -> safe_pool p ->
  step_thread F D s p t = (s', p') ->
  cache_ok F s' /\ length p' = length p /\ safe_pool p' /\
  forall t0 acts obs acts' obs',
    nth_error p t0 = Some (acts, obs) -> nth_error p' t0 = Some (acts', obs') ->
    exists done, acts = done ++ acts' /\
      obs' = rev (map (fun a => snd (do_action F D (mkShared [] 0) a)) done) ++ obs.
Proof.
  induction p as [|[acts0 obs0] rest IH]; intros t s s' p' Hok Hsafe Hstep.
  - cbn [step_thread] in Hstep. injection Hstep as Hs Hp. subst s' p'.
    repeat split; try assumption.
    intros t0 acts obs acts' obs' H. destruct t0; discriminate H.
  - inversion Hsafe as [|? ? Hth Hrest]; subst. cbn [fst] in Hth.
    destruct t as [|t'].
    + cbn [step_thread] in Hstep. destruct acts0 as [|a acts1].
      * injection Hstep as Hs Hp. subst s' p'.
        repeat split; try assumption.
        intros t0 acts obs acts' obs' H H'. rewrite H in H'.
        injection H' as H1 H2. subst acts' obs'. exists []. split; reflexivity.
      * inversion Hth as [|? ? Ha Hacts1]; subst.
        destruct (do_action_safe_obs F D s a Hok Ha) as [Hv Hok'].
        destruct (do_action F D s a) as [s1 v]. cbn [fst snd] in Hv, Hok'.
        injection Hstep as Hs Hp. subst s' p'.
        split; [exact Hok'|]. split; [reflexivity|]. split.
        { constructor; [exact Hacts1 | exact Hrest]. }
        intros t0 acts obs acts' obs' H H'. destruct t0 as [|t0].
        -- cbn [nth_error] in H, H'.
           injection H as H1 H2. injection H' as H3 H4. subst.
           exists [a]. split; reflexivity.
        -- cbn [nth_error] in H, H'. rewrite H in H'.
           injection H' as H1 H2. subst acts' obs'. exists []. split; reflexivity.
    + cbn [step_thread] in Hstep.
      destruct (step_thread F D s rest t') as [s1 rest'] eqn:E.
      injection Hstep as Hs Hp. subst s' p'.
      destruct (IH t' s s1 rest' Hok Hrest E) as (H1 & H2 & H3 & H4).
      split; [exact H1|]. split; [cbn [length]; rewrite H2; reflexivity|]. split.
      { constructor; [exact Hth | exact H3]. }
      intros t0 acts obs acts' obs' H H'. destruct t0 as [|t0].
      * cbn [nth_error] in H, H'. rewrite H in H'.
        injection H' as H5 H6. subst acts' obs'. exists []. split; reflexivity.
      * cbn [nth_error] in H, H'. apply (H4 t0); assumption.
Qed.

Lemma run_schedule_spec F D (sched : list nat) :
  forall (s : shared) (p : pool) (s' : shared) (p' : pool),
  cache_ok F s -> safe_pool p ->
  run_schedule F D s p sched = (s', p') ->
  cache_ok F s' /\ length p' = length p /\
  forall t acts obs acts' obs',
    nth_error p t = Some (acts, obs) -> nth_error p' t = Some (acts', obs') ->
    exists done, acts = done ++ acts' /\
      obs' = rev (map (fun a => snd (do_action F D (mkShared [] 0) a)) done) ++ obs.
Proof.
  induction sched as [|t0 sched IH]; intros s p s' p' Hok Hsafe Hrun.
  - cbn [run_schedule] in Hrun. injection Hrun as Hs Hp. subst s' p'.
    split; [exact Hok|]. split; [reflexivity|].
    intros t acts obs acts' obs' H H'. rewrite H in H'.
    injection H' as H1 H2. subst acts' obs'. exists []. split; reflexivity.
  - cbn [run_schedule] in Hrun.
    destruct (step_thread F D s p t0) as [s1 p1] eqn:E.
    destruct (step_thread_spec F D p t0 s s1 p1 Hok Hsafe E) as (A1 & A2 & A3 & A4).
    destruct (IH s1 p1 s' p' A1 A3 Hrun) as (B1 & B2 & B3).
    split; [exact B1|]. split; [rewrite B2; exact A2|].
    intros t acts obs acts' obs' H H'.
    destruct (nth_error p1 t) as [[acts1 obs1]|] eqn:E1.
    + destruct (A4 t acts obs acts1 obs1 H E1) as [d1 [Ha1 Ho1]].
      destruct (B3 t acts1 obs1 acts' obs' E1 H') as [d2 [Ha2 Ho2]].
      exists (d1 ++ d2). split.
      * rewrite Ha1, Ha2. rewrite app_assoc. reflexivity.
      * rewrite Ho2, Ho1. rewrite map_app, rev_app_distr, app_assoc. reflexivity.
    + exfalso. apply nth_error_None in E1.
      assert (Hlt : (t < length p)%nat) by (apply nth_error_Some; rewrite H; discriminate).
      lia.
Qed.

Theorem schedule_independent F D (p : pool) (sched : list nat) (s : shared) :
  cache_ok F s ->
  Forall (fun th => Forall (fun a => safe_action a = true) (fst th)) p ->
  let '(s', p') := run_schedule F D s p sched in
  cache_ok F s' /\ length p' = length p /\
  forall t acts obs acts' obs',
    nth_error p t = Some (acts, obs) -> nth_error p' t = Some (acts', obs') ->
    exists done, acts = done ++ acts' /\
      obs' = rev (map (fun a => snd (do_action F D (mkShared [] 0) a)) done) ++ obs.
Proof.
  intros Hok Hsafe.
  destruct (run_schedule F D s p sched) as [s' p'] eqn:E.
  exact (run_schedule_spec F D sched s p s' p' Hok Hsafe E).
Qed.

(* the pre-fix defect: thread 0 writes 7 to the shared scratch buffer and reads
   it back; thread 1 writes 9 in between *)
Theorem scratch_refuted : exists F D p sched,
  let '(_, p') := run_schedule F D (mkShared [] 0) p sched in
  exists acts' obs', nth_error p' 0 = Some (acts', obs') /\
    obs' <> alone F D (mkShared [] 0) [AScratchWrite 7; AScratchRead] [].
Proof.
  exists (fun x => x), (fun x => x),
    [([AScratchWrite 7; AScratchRead], []); ([AScratchWrite 9], [])],
    [0%nat; 1%nat; 0%nat].
  vm_compute.
  eexists. eexists. split; [reflexivity|].
  intro H. discriminate H.
Qed.

Theorem discipline_ok_spec (tbl : list wfoot) :
  discipline_ok tbl = true <->
  forall w, In w tbl ->
    wf_construction w = true \/ (wf_locked w = true /\ wf_cachefill w = true).
Proof.
  unfold discipline_ok. rewrite forallb_forall. split.
  - intros H w Hin. specialize (H w Hin).
    apply orb_true_iff in H. destruct H as [H|H]; [left; exact H|].
    apply andb_true_iff in H. right. exact H.
  - intros H w Hin. specialize (H w Hin).
    apply orb_true_iff. destruct H as [H|H]; [left; exact H|].
    right. apply andb_true_iff. exact H.
Qed.

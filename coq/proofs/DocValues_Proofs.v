(* DocValues_Proofs.v - the doc-value reader (DocValues.v) returns, for any
   document below numDocs and from any consistent reader state, exactly the
   terms stored for that document. *)
From Coq Require Import List NArith ZArith Bool Lia Sorting ZifyBool ZifyN ZifyNat.
From Ice Require Import Base Chunk DocValues.
From IceProofs Require Import Sort_Proofs.
Import ListNotations.
Open Scope N_scope.

Ltac Zify.zify_post_hook ::= Z.div_mod_to_equations.
Arguments N.div : simpl never.
Arguments N.modulo : simpl never.

(* ------------------------------------------------------------------ *)
(* definitions                                                          *)
(* ------------------------------------------------------------------ *)
Definition no_sep (t : bytes) : Prop := ~ In termSeparator t.

(* the doc-value content of a field: entries (document number, its terms),
   strictly ascending document numbers *)
Definition wf_entries (numDocs : N) (es : list (N * list bytes)) : Prop :=
  StronglySorted (fun a b => fst a < fst b) es /\
  Forall (fun e => fst e < numDocs /\ Forall no_sep (snd e) /\ snd e <> []) es.

Definition enc_entries (es : list (N * list bytes)) : list (N * bytes) :=
  map (fun e => (fst e, dv_bytes (snd e))) es.

Definition nchunks_for (numDocs : N) : nat := N.to_nat ((numDocs - 1) / dv_chunk_docs + 1).

(* the specification: the terms of document n in that field, each tagged
   with the field name *)
Definition spec_dv (field : bytes) (es : list (N * list bytes)) (n : N) : list (bytes * bytes) :=
  match find (fun e => fst e =? n) es with
  | Some e => map (fun t => (field, t)) (snd e)
  | None => []
  end.

(* a reader is consistent when what it caches is what is stored *)
Definition reader_ok (chunks : list DvChunk) (r : DvReader) : Prop :=
  dr_chunks r = chunks /\
  (dr_cur r = maxInt64 \/
   exists c, nthN chunks (N.to_nat (dr_cur r)) = Some c /\ dr_header r = dvc_header c /\
             (dvc_header c = [] \/ dr_data r = Some (dvc_data c))).

(* ------------------------------------------------------------------ *)
(* split_terms                                                          *)
(* ------------------------------------------------------------------ *)
Lemma no_sep_cons (a : N) (t : bytes) : no_sep (a :: t) -> a <> termSeparator /\ no_sep t.
Proof.
  unfold no_sep. intros H. split.
  - intros E. apply H. left. exact E.
  - intros I. apply H. right. exact I.
Qed.

Lemma split_step (t : bytes) : forall cur rest, no_sep t ->
  split_terms cur (t ++ termSeparator :: rest) = (rev cur ++ t) :: split_terms [] rest.
Proof.
  induction t as [|a t IH]; intros cur rest H.
  - cbn [app split_terms]. rewrite N.eqb_refl, app_nil_r. reflexivity.
  - apply no_sep_cons in H. destruct H as [Ha Ht].
    cbn [app split_terms]. destruct (N.eqb_spec a termSeparator) as [E|_]; [contradiction|].
    rewrite IH by exact Ht. cbn [rev]. rewrite <- app_assoc. reflexivity.
Qed.

Lemma split_nosep (tail : bytes) : forall cur, no_sep tail -> split_terms cur tail = [].
Proof.
  induction tail as [|a t IH]; intros cur H.
  - reflexivity.
  - apply no_sep_cons in H. destruct H as [Ha Ht].
    cbn [split_terms]. destruct (N.eqb_spec a termSeparator) as [E|_]; [contradiction|].
    apply IH. exact Ht.
Qed.

Theorem split_ignores_tail (ts : list bytes) (tail : bytes) :
  Forall no_sep ts -> no_sep tail -> split_terms [] (dv_bytes ts ++ tail) = ts.
Proof.
  intros H Ht. induction H as [|t ts Hn _ IH].
  - cbn. apply split_nosep. exact Ht.
  - unfold dv_bytes. cbn [flat_map']. fold (dv_bytes ts).
    rewrite <- !app_assoc. cbn [app].
    rewrite split_step by exact Hn. rewrite IH. reflexivity.
Qed.

Theorem split_dv_bytes (ts : list bytes) : Forall no_sep ts -> split_terms [] (dv_bytes ts) = ts.
Proof.
  intros H. rewrite <- (app_nil_r (dv_bytes ts)).
  apply split_ignores_tail; [exact H|]. intros I. exact I.
Qed.

Lemma dv_bytes_nonempty (ts : list bytes) : ts <> [] -> dv_bytes ts <> [].
Proof.
  destruct ts as [|t ts]; [congruence|]. intros _.
  unfold dv_bytes. cbn [flat_map']. destruct t; discriminate.
Qed.

(* ------------------------------------------------------------------ *)
(* one chunk                                                            *)
(* ------------------------------------------------------------------ *)
Definition asc (docs : list (N * bytes)) : Prop :=
  StronglySorted (fun a b => fst a < fst b) docs.

Lemma find_none_lt (d : N) (docs : list (N * bytes)) :
  Forall (fun x => d < fst x) docs -> find (fun e => fst e =? d) docs = None.
Proof.
  induction 1 as [|x l Hx _ IH]; [reflexivity|].
  cbn [find]. destruct (N.eqb_spec (fst x) d); [lia|exact IH].
Qed.

Lemma skipn_app_len {A} (l1 l2 : list A) (k : nat) :
  skipn (length l1 + k) (l1 ++ l2) = skipn k l2.
Proof. induction l1 as [|a l1 IH]; [reflexivity|]. cbn. exact IH. Qed.

Lemma firstn_app_exact {A} (l1 l2 : list A) : firstn (length l1) (l1 ++ l2) = l1.
Proof. induction l1 as [|a l1 IH]; [reflexivity|]. cbn. f_equal. exact IH. Qed.

(* the header search finds exactly the stored slice of a document, or nothing *)
Lemma chunk_locs (docs : list (N * bytes)) : asc docs -> forall acc d,
  match find (fun e => fst e =? d) docs with
  | Some e =>
      exists s, dv_locs (fst (dv_chunk_build docs acc)) acc d = Some (s, s + lenN (snd e)) /\
                acc <= s /\
                s + lenN (snd e) <= acc + lenN (snd (dv_chunk_build docs acc)) /\
                firstn (length (snd e))
                       (skipn (N.to_nat (s - acc)) (snd (dv_chunk_build docs acc))) = snd e
  | None => dv_locs (fst (dv_chunk_build docs acc)) acc d = None
  end.
Proof.
  induction docs as [|[d0 b0] docs IH]; intros Hs acc d.
  - reflexivity.
  - inversion Hs as [|x l Hs' Hall]; subst.
    specialize (IH Hs' (acc + lenN b0) d).
    cbn [dv_chunk_build find fst].
    destruct (dv_chunk_build docs (acc + lenN b0)) as [h dat] eqn:E.
    cbn [fst snd dv_locs] in *.
    destruct (N.eqb_spec d0 d) as [Ed|Nd].
    + subst d0. rewrite N.leb_refl. exists acc. cbn [snd].
      split; [reflexivity|]. split; [lia|]. split.
      * unfold lenN. rewrite app_length. lia.
      * replace (N.to_nat (acc - acc)) with 0%nat by lia. cbn [skipn].
        apply firstn_app_exact.
    + destruct (N.leb_spec d d0) as [Hle|Hgt].
      * rewrite find_none_lt; [reflexivity|].
        eapply Forall_impl; [|exact Hall]. cbn. intros a Ha. lia.
      * destruct (find (fun e => fst e =? d) docs) as [e|]; [|exact IH].
        destruct IH as (s & Hl & Hle & Hend & Hf).
        exists s. split; [exact Hl|]. split; [unfold lenN in *; lia|]. split.
        -- unfold lenN in *. rewrite app_length. lia.
        -- replace (N.to_nat (s - acc))
             with (length b0 + N.to_nat (s - (acc + lenN b0)))%nat by (unfold lenN in *; lia).
           rewrite skipn_app_len. exact Hf.
Qed.

Lemma dvc_header_of (docs : list (N * bytes)) :
  dvc_header (dv_chunk_of docs) = fst (dv_chunk_build docs 0).
Proof. unfold dv_chunk_of. destruct (dv_chunk_build docs 0). reflexivity. Qed.

Lemma dvc_data_of (docs : list (N * bytes)) :
  dvc_data (dv_chunk_of docs) = snd (dv_chunk_build docs 0).
Proof. unfold dv_chunk_of. destruct (dv_chunk_build docs 0). reflexivity. Qed.

(* the reader's cache holds chunk ck *)
Definition loaded (ck : DvChunk) (r : DvReader) : Prop :=
  dr_header r = dvc_header ck /\ (dvc_header ck = [] \/ dr_data r = Some (dvc_data ck)).

Lemma visit_loaded_ok (docs : list (N * bytes)) (r : DvReader) (field : bytes) (d : N) :
  asc docs -> Forall (fun e => snd e <> []) docs -> loaded (dv_chunk_of docs) r ->
  dv_visit_loaded r field d =
  Ok (match find (fun e => fst e =? d) docs with
      | Some e => map (fun t => (field, t)) (split_terms [] (snd e))
      | None => []
      end).
Proof.
  intros Hs Hne [Hh Hd]. unfold dv_visit_loaded.
  rewrite Hh, dvc_header_of. rewrite dvc_header_of, dvc_data_of in Hd.
  pose proof (chunk_locs docs Hs 0 d) as L.
  destruct (find (fun e => fst e =? d) docs) as [e|] eqn:F.
  - destruct L as (s & Hl & Hle & Hend & Hf).
    apply find_some in F. destruct F as [Hin _].
    rewrite Forall_forall in Hne. specialize (Hne e Hin).
    assert (Hlen : 0 < lenN (snd e)).
    { unfold lenN. destruct (snd e) eqn:Es; [exfalso; apply Hne; exact Es|cbn [length]; lia]. }
    rewrite Hl.
    destruct (N.eqb_spec s (s + lenN (snd e))) as [Ee|_]; [lia|].
    destruct Hd as [Hd|Hd]; [rewrite Hd in Hl; discriminate|].
    rewrite Hd.
    replace ((s <=? s + lenN (snd e)) && (s + lenN (snd e) <=? lenN (snd (dv_chunk_build docs 0))))
      with true by (symmetry; apply andb_true_intro; split; apply N.leb_le; lia).
    replace (N.to_nat (s + lenN (snd e) - s)) with (length (snd e)) by (unfold lenN; lia).
    replace (s - 0) with s in Hf by lia.
    rewrite Hf. reflexivity.
  - rewrite L. reflexivity.
Qed.

(* ------------------------------------------------------------------ *)
(* all chunks of a field                                                *)
(* ------------------------------------------------------------------ *)
Lemma sorted_filter {A} (R : A -> A -> Prop) (p : A -> bool) (l : list A) :
  StronglySorted R l -> StronglySorted R (filter p l).
Proof.
  induction 1 as [|a l Hs IH Ha]; [constructor|].
  cbn [filter]. destruct (p a); [|exact IH].
  constructor; [exact IH|].
  rewrite Forall_forall in *. intros x Hx. apply filter_In in Hx. apply Ha. tauto.
Qed.

Lemma asc_enc (es : list (N * list bytes)) :
  StronglySorted (fun a b => fst a < fst b) es -> asc (enc_entries es).
Proof.
  unfold asc, enc_entries.
  induction 1 as [|a l Hs IH Ha]; [constructor|].
  cbn [map]. constructor; [exact IH|].
  rewrite Forall_forall in *. intros x Hx. apply in_map_iff in Hx.
  destruct Hx as (y & <- & Hy). cbn [fst]. apply Ha. exact Hy.
Qed.

Lemma find_filter_enc (n : N) (p : N * bytes -> bool) (es : list (N * list bytes)) :
  (forall e, fst e = n -> p e = true) ->
  find (fun e => fst e =? n) (filter p (enc_entries es)) =
  option_map (fun e => (fst e, dv_bytes (snd e))) (find (fun e => fst e =? n) es).
Proof.
  intros Hp. unfold enc_entries. induction es as [|a es IH]; [reflexivity|].
  cbn [map filter find].
  destruct (p (fst a, dv_bytes (snd a))) eqn:P.
  - cbn [find fst]. destruct (fst a =? n); [reflexivity|exact IH].
  - destruct (N.eqb_spec (fst a) n) as [E|_]; [|exact IH].
    rewrite Hp in P by exact E. discriminate.
Qed.

Lemma nthN_map_seq {A} (f : nat -> A) (n : nat) : forall s i, (i < n)%nat ->
  nthN (map f (seq s n)) i = Some (f (s + i)%nat).
Proof.
  induction n as [|n IH]; intros s i Hi; [lia|].
  cbn [seq map]. destruct i as [|i]; cbn [nthN].
  - f_equal. f_equal. lia.
  - rewrite IH by lia. f_equal. f_equal. lia.
Qed.

Lemma nthN_chunks (numDocs n : N) (enc : list (N * bytes)) : n < numDocs ->
  nthN (dv_chunks (nchunks_for numDocs) enc) (N.to_nat (n / dv_chunk_docs)) =
  Some (dv_chunk_of (filter (fun e => fst e / dv_chunk_docs =? n / dv_chunk_docs) enc)).
Proof.
  intros Hn. unfold dv_chunks. rewrite nthN_map_seq.
  - cbn [Nat.add]. rewrite N2Nat.id. reflexivity.
  - unfold nchunks_for, dv_chunk_docs. lia.
Qed.

Section OneField.
  Variables (field : bytes) (numDocs : N) (es : list (N * list bytes)).
  Hypothesis Hwf : wf_entries numDocs es.

  Let chunks := dv_chunks (nchunks_for numDocs) (enc_entries es).
  Let docs_of (n : N) := filter (fun e : N * bytes => fst e / dv_chunk_docs =? n / dv_chunk_docs) (enc_entries es).

  Lemma visit_chunk (r : DvReader) (n : N) :
    loaded (dv_chunk_of (docs_of n)) r -> dv_visit_loaded r field n = Ok (spec_dv field es n).
  Proof.
    intros Hl. destruct Hwf as [Hs Hall].
    rewrite (visit_loaded_ok (docs_of n)); [| | |exact Hl].
    - unfold docs_of. rewrite find_filter_enc.
      + unfold spec_dv. destruct (find (fun e => fst e =? n) es) as [e|] eqn:F; [|reflexivity].
        cbn [option_map snd]. apply find_some in F. destruct F as [Hin _].
        rewrite Forall_forall in Hall. destruct (Hall e Hin) as (_ & Hns & _).
        rewrite split_dv_bytes by exact Hns. reflexivity.
      + intros e He. rewrite He. apply N.eqb_refl.
    - apply sorted_filter. apply asc_enc. exact Hs.
    - rewrite Forall_forall. intros x Hx. apply filter_In in Hx. destruct Hx as [Hx _].
      unfold enc_entries in Hx. apply in_map_iff in Hx. destruct Hx as (y & <- & Hy).
      cbn [snd]. apply dv_bytes_nonempty.
      rewrite Forall_forall in Hall. destruct (Hall y Hy) as (_ & _ & Hne). exact Hne.
  Qed.

  (* numDocs <= two64: document numbers are uint64 in the Go code.  Without a
     bound the chunk number n / 1024 can coincide with the "nothing loaded"
     sentinel maxInt64 (see dv_visit_needs_bound below). *)
  Lemma dv_visit_correct_bounded (r : DvReader) (n : N) :
    numDocs <= two64 -> n < numDocs -> reader_ok chunks r ->
    exists r', dv_visit r field n = Ok (r', spec_dv field es n) /\ reader_ok chunks r'.
  Proof.
    intros Hb Hn [Hc Hcur].
    assert (Hnth : nthN chunks (N.to_nat (n / dv_chunk_docs)) = Some (dv_chunk_of (docs_of n))).
    { unfold chunks. apply nthN_chunks. exact Hn. }
    assert (Hsent : n / dv_chunk_docs <> maxInt64).
    { unfold two64 in Hb. unfold dv_chunk_docs, maxInt64. lia. }
    unfold dv_visit.
    destruct (N.eqb_spec (n / dv_chunk_docs) (dr_cur r)) as [E|NE].
    - (* cached chunk reused *)
      destruct Hcur as [Hcur|(c & Hc1 & Hc2 & Hc3)]; [congruence|].
      rewrite <- E, Hnth in Hc1. injection Hc1 as <-.
      exists r. cbn [rbind]. rewrite visit_chunk by (split; assumption).
      cbn [rbind]. split; [reflexivity|].
      split; [exact Hc|]. right. exists (dv_chunk_of (docs_of n)).
      rewrite <- E. repeat split; assumption.
    - unfold dv_load. rewrite Hc, Hnth.
      destruct (dvc_header (dv_chunk_of (docs_of n))) as [|h0 h] eqn:Hh.
      + eexists. cbn [rbind]. rewrite visit_chunk.
        * cbn [rbind]. split; [reflexivity|].
          split; [reflexivity|]. right. exists (dv_chunk_of (docs_of n)). cbn.
          rewrite Hh. repeat split; auto.
        * split; cbn; [symmetry; exact Hh|left; exact Hh].
      + eexists. cbn [rbind]. rewrite visit_chunk.
        * cbn [rbind]. split; [reflexivity|].
          split; [reflexivity|]. right. exists (dv_chunk_of (docs_of n)). cbn.
          rewrite Hh. repeat split; auto.
        * split; cbn; [symmetry; exact Hh|right; reflexivity].
  Qed.
End OneField.

(* ------------------------------------------------------------------ *)
(* main theorems, one field                                             *)
(* ------------------------------------------------------------------ *)
Theorem dv_open_ok (chunks : list DvChunk) : reader_ok chunks (dv_open chunks).
Proof. split; [reflexivity|]. left. reflexivity. Qed.

(* Any document below numDocs, from ANY consistent reader state (after any
   earlier visits in any order) yields exactly that document's terms, and the
   reader stays consistent.  The hypothesis numDocs <= two64 (uint64 document
   numbers) is necessary: see dv_visit_needs_bound. *)
Theorem dv_visit_correct (field : bytes) (numDocs : N) (es : list (N * list bytes))
        (r : DvReader) (n : N) :
  0 < numDocs -> numDocs <= two64 -> wf_entries numDocs es -> n < numDocs ->
  reader_ok (dv_chunks (nchunks_for numDocs) (enc_entries es)) r ->
  exists r', dv_visit r field n = Ok (r', spec_dv field es n) /\
             reader_ok (dv_chunks (nchunks_for numDocs) (enc_entries es)) r'.
Proof.
  intros _ Hb Hwf Hn Hr. apply dv_visit_correct_bounded; assumption.
Qed.

(* Without the bound the statement is false: chunk number maxInt64 collides
   with the "nothing loaded" sentinel, the freshly opened reader believes the
   chunk is already loaded and delivers nothing. *)
Lemma dv_visit_sentinel (chunks : list DvChunk) (field : bytes) (n : N) :
  n / dv_chunk_docs = maxInt64 -> dv_visit (dv_open chunks) field n = Ok (dv_open chunks, []).
Proof.
  intros H. unfold dv_visit, dv_open. cbn [dr_cur]. rewrite H, N.eqb_refl. reflexivity.
Qed.

Theorem dv_visit_needs_bound :
  ~ (forall (field : bytes) (numDocs : N) (es : list (N * list bytes)) (r : DvReader) (n : N),
        0 < numDocs -> wf_entries numDocs es -> n < numDocs ->
        reader_ok (dv_chunks (nchunks_for numDocs) (enc_entries es)) r ->
        exists r', dv_visit r field n = Ok (r', spec_dv field es n) /\
                   reader_ok (dv_chunks (nchunks_for numDocs) (enc_entries es)) r').
Proof.
  intros H.
  pose (n := maxInt64 * dv_chunk_docs).
  assert (Hdiv : n / dv_chunk_docs = maxInt64).
  { unfold n. apply N.div_mul. unfold dv_chunk_docs. lia. }
  specialize (H [] (n + 1) [(n, [[1]])]
                (dv_open (dv_chunks (nchunks_for (n + 1)) (enc_entries [(n, [[1]])]))) n).
  destruct H as (r' & Hv & _).
  - lia.
  - split.
    + constructor; constructor.
    + constructor; [|constructor]. cbn [fst snd]. split; [lia|]. split; [|discriminate].
      constructor; [|constructor]. unfold no_sep, termSeparator. cbn [In]. lia.
  - lia.
  - apply dv_open_ok.
  - rewrite dv_visit_sentinel in Hv by exact Hdiv.
    unfold spec_dv in Hv. cbn [find fst] in Hv. rewrite N.eqb_refl in Hv. discriminate.
Qed.

Lemma dv_visit_fields_single (field : bytes) (r r' : DvReader) (n : N) (out : list (bytes * bytes)) :
  dv_visit r field n = Ok (r', out) ->
  dv_visit_fields [(field, r)] [field] n = Ok ([(field, r')], out).
Proof.
  intros H. cbn [dv_visit_fields find fst]. rewrite beq_refl, H.
  cbn [rbind map fst]. rewrite beq_refl. cbn [rbind]. rewrite app_nil_r. reflexivity.
Qed.

Theorem dv_run_single_field (field : bytes) (numDocs : N) (es : list (N * list bytes))
        (r : DvReader) (visits : list N) :
  0 < numDocs -> numDocs <= two64 -> wf_entries numDocs es ->
  Forall (fun n => n < numDocs) visits ->
  reader_ok (dv_chunks (nchunks_for numDocs) (enc_entries es)) r ->
  dv_run [(field, r)] [field] visits = Ok (map (spec_dv field es) visits).
Proof.
  intros H0 Hb Hwf Hv. revert r. induction Hv as [|n visits Hn _ IH]; intros r Hr.
  - reflexivity.
  - destruct (dv_visit_correct field numDocs es r n H0 Hb Hwf Hn Hr) as (r' & Hvis & Hr').
    cbn [dv_run map]. rewrite (dv_visit_fields_single _ _ _ _ _ Hvis).
    cbn [rbind]. rewrite (IH r' Hr'). reflexivity.
Qed.

(* a field without doc values or an unknown field delivers nothing *)
Theorem dv_run_unknown_field (rs : list (bytes * DvReader)) (f : bytes) (visits : list N) :
  find (fun p => beq (fst p) f) rs = None -> dv_run rs [f] visits = Ok (map (fun _ => []) visits).
Proof.
  intros H. induction visits as [|n visits IH]; [reflexivity|].
  cbn [dv_run dv_visit_fields map]. rewrite H. cbn [rbind]. rewrite IH. reflexivity.
Qed.

(* ------------------------------------------------------------------ *)
(* several fields                                                       *)
(* ------------------------------------------------------------------ *)
Section Fields.
  Variable numDocs : N.
  Variable tbl : list (bytes * list (N * list bytes)).
  Hypothesis H0 : 0 < numDocs.
  Hypothesis Hb : numDocs <= two64.
  Hypothesis Hnd : NoDup (map fst tbl).
  Hypothesis Hwf : Forall (fun p => wf_entries numDocs (snd p)) tbl.

  Let chunks_of (p : bytes * list (N * list bytes)) :=
    dv_chunks (nchunks_for numDocs) (enc_entries (snd p)).
  Let R (p : bytes * list (N * list bytes)) (q : bytes * DvReader) : Prop :=
    fst q = fst p /\ reader_ok (chunks_of p) (snd q).

  Lemma find_rel (f : bytes) (t : list (bytes * list (N * list bytes))) (rs : list (bytes * DvReader)) :
    Forall2 R t rs ->
    match find (fun p => beq (fst p) f) t with
    | Some p => exists q, find (fun q => beq (fst q) f) rs = Some q /\ R p q
    | None => find (fun q => beq (fst q) f) rs = None
    end.
  Proof.
    induction 1 as [|p q t rs Hpq _ IH]; [reflexivity|].
    cbn [find]. destruct Hpq as [Hk Hr]. rewrite Hk.
    destruct (beq (fst p) f).
    - exists q. split; [reflexivity|]. split; assumption.
    - exact IH.
  Qed.

  Lemma upd_ok (f : bytes) (r1 : DvReader) (t : list (bytes * list (N * list bytes)))
        (rs : list (bytes * DvReader)) :
    Forall2 R t rs ->
    (forall p, In p t -> beq (fst p) f = true -> reader_ok (chunks_of p) r1) ->
    Forall2 R t (map (fun q => if beq (fst q) f then (fst q, r1) else q) rs).
  Proof.
    induction 1 as [|p q t rs Hpq _ IH]; intros Hall; [constructor|].
    cbn [map]. constructor.
    - destruct Hpq as [Hk Hr]. destruct (beq (fst q) f) eqn:E.
      + split; [exact Hk|]. cbn [snd]. apply Hall; [left; reflexivity|]. rewrite <- Hk. exact E.
      + split; assumption.
    - apply IH. intros p' Hin. apply Hall. right. exact Hin.
  Qed.

  Lemma nodup_fst_inj {A B} (l : list (A * B)) (p q : A * B) :
    NoDup (map fst l) -> In p l -> In q l -> fst p = fst q -> p = q.
  Proof.
    induction l as [|a l IH]; intros Hn Hp Hq E; [contradiction|].
    cbn [map] in Hn. inversion Hn as [|x l' Hnotin Hn']; subst.
    destruct Hp as [Hp|Hp]; destruct Hq as [Hq|Hq].
    - congruence.
    - subst a. exfalso. apply Hnotin. rewrite E. apply in_map. exact Hq.
    - subst a. exfalso. apply Hnotin. rewrite <- E. apply in_map. exact Hp.
    - apply IH; assumption.
  Qed.

  Definition spec_fields (fields : list bytes) (n : N) : list (bytes * bytes) :=
    flat_map' (fun f => match find (fun p => beq (fst p) f) tbl with
                        | Some p => spec_dv f (snd p) n | None => [] end) fields.

  Lemma visit_fields_ok (n : N) : n < numDocs -> forall fields rs, Forall2 R tbl rs ->
    exists rs', dv_visit_fields rs fields n = Ok (rs', spec_fields fields n) /\ Forall2 R tbl rs'.
  Proof.
    intros Hn. induction fields as [|f fields IH]; intros rs Hrs.
    - exists rs. split; [reflexivity|exact Hrs].
    - cbn [dv_visit_fields]. unfold spec_fields. cbn [flat_map']. fold (spec_fields fields n).
      pose proof (find_rel f tbl rs Hrs) as Hf.
      destruct (find (fun p => beq (fst p) f) tbl) as [p|] eqn:F.
      + destruct Hf as (q & Hq & Hk & Hr). rewrite Hq. destruct q as [k r]. cbn [snd] in Hr.
        apply find_some in F. destruct F as [Hin Hbeq].
        assert (Hwfp : wf_entries numDocs (snd p)).
        { rewrite Forall_forall in Hwf. apply (Hwf p Hin). }
        destruct (dv_visit_correct f numDocs (snd p) r n H0 Hb Hwfp Hn Hr) as (r1 & Hvis & Hr1).
        rewrite Hvis. cbn [rbind].
        destruct (IH (map (fun q => if beq (fst q) f then (fst q, r1) else q) rs)) as (rs2 & Hrun & Hrs2).
        * apply upd_ok; [exact Hrs|]. intros p' Hin' Hbeq'.
          apply beq_eq in Hbeq. apply beq_eq in Hbeq'.
          assert (p' = p) by (apply (nodup_fst_inj tbl); [exact Hnd|exact Hin'|exact Hin|congruence]).
          subst p'. exact Hr1.
        * rewrite Hrun. cbn [rbind]. exists rs2. split; [reflexivity|exact Hrs2].
      + rewrite Hf. cbn [app]. apply IH. exact Hrs.
  Qed.

  Lemma run_fields_ok (fields : list bytes) (visits : list N) :
    Forall (fun n => n < numDocs) visits -> forall rs, Forall2 R tbl rs ->
    dv_run rs fields visits = Ok (map (spec_fields fields) visits).
  Proof.
    induction 1 as [|n visits Hn _ IH]; intros rs Hrs; [reflexivity|].
    destruct (visit_fields_ok n Hn fields rs Hrs) as (rs' & Hv & Hrs').
    cbn [dv_run map]. rewrite Hv. cbn [rbind]. rewrite (IH rs' Hrs'). reflexivity.
  Qed.

  Lemma open_rel (t : list (bytes * list (N * list bytes))) :
    Forall2 R t (map (fun p => (fst p, dv_open (chunks_of p))) t).
  Proof.
    induction t as [|p t IH]; [constructor|]. cbn [map]. constructor; [|exact IH].
    split; [reflexivity|]. apply dv_open_ok.
  Qed.
End Fields.

(* requested fields in request order, repeats allowed *)
Theorem dv_run_fields (numDocs : N) (tbl : list (bytes * list (N * list bytes)))
        (fields : list bytes) (visits : list N) :
  0 < numDocs -> numDocs <= two64 -> NoDup (map fst tbl) ->
  Forall (fun p => wf_entries numDocs (snd p)) tbl ->
  Forall (fun n => n < numDocs) visits ->
  dv_run (map (fun p => (fst p, dv_open (dv_chunks (nchunks_for numDocs) (enc_entries (snd p))))) tbl)
         fields visits
  = Ok (map (fun n => flat_map' (fun f => match find (fun p => beq (fst p) f) tbl with
                                          | Some p => spec_dv f (snd p) n | None => [] end) fields)
            visits).
Proof.
  intros H0 Hb Hnd Hwf Hv.
  apply (run_fields_ok numDocs tbl H0 Hb Hnd Hwf fields visits Hv).
  apply open_rel.
Qed.

(* ------------------------------------------------------------------ *)
(* example: three chunks, visits in arbitrary order                     *)
(* ------------------------------------------------------------------ *)
Example dv_run_example :
  let f := [102; 49] in
  let es := [(0, [[1; 2]]); (5, [[3]; [4; 5]]); (1023, [[6]]); (1024, [[7]; [8]]); (2049, [[9; 9]])] in
  dv_run [(f, dv_open (dv_chunks (nchunks_for 2050) (enc_entries es)))] [f]
         [2049; 0; 1024; 5; 1023; 2049; 7]
  = Ok [ [(f, [9; 9])];
         [(f, [1; 2])];
         [(f, [7]); (f, [8])];
         [(f, [3]); (f, [4; 5])];
         [(f, [6])];
         [(f, [9; 9])];
         [] ].
Proof. vm_compute. reflexivity. Qed.

(* StoredWriter_Proofs.v - R-build / R-merge for stored fields: the blocks and
   per-document offsets written by the builder (new.go writeStoredFields) and by
   both paths of the merger (merge.go mergeStoredAndRemapSegment, copyStoredDocs)
   are exactly the stored layout the specification predicts (Run.stored_layout). *)
From Coq Require Import List NArith Bool Lia Arith Sorted.
From Ice Require Import Base Spec Varint Stored StoredWriter Run.
From IceProofs Require Import Sort_Proofs Varint_Proofs Stored_Proofs Docnums_Proofs MergeAlgebra_Proofs.
Import ListNotations.
Open Scope N_scope.
Require Import ZifyBool ZifyN ZifyNat.

(* ================================================================== *)
(* 0. small list facts                                                 *)
(* ================================================================== *)
Lemma bd_val : N.to_nat block_docs = 128%nat.
Proof. reflexivity. Qed.

Lemma lenN_length {A} (l : list A) : lenN l = N.of_nat (length l).
Proof. reflexivity. Qed.

Lemma flat_map'_ext_in {A B} (f g : A -> list B) (l : list A) :
  (forall x, In x l -> f x = g x) -> flat_map' f l = flat_map' g l.
Proof.
  induction l as [| x l IH]; intros H; cbn [flat_map'].
  - reflexivity.
  - rewrite (H x) by (left; reflexivity). f_equal. apply IH. intros y Hy. apply H. right. exact Hy.
Qed.

Lemma flat_map'_nil_all {A B} (f : A -> list B) (l : list A) :
  (forall x, In x l -> f x = []) -> flat_map' f l = [].
Proof.
  induction l as [| x l IH]; intros H; cbn [flat_map'].
  - reflexivity.
  - rewrite (H x) by (left; reflexivity). cbn [app]. apply IH. intros y Hy. apply H. right. exact Hy.
Qed.

Lemma flat_map'_map {A B C} (f : B -> list C) (g : A -> B) (l : list A) :
  flat_map' f (map g l) = flat_map' (fun x => f (g x)) l.
Proof. induction l as [| x l IH]; cbn [map flat_map']; [reflexivity | now rewrite IH]. Qed.

Lemma map_flat_map' {A B C} (f : A -> list B) (g : B -> C) (l : list A) :
  map g (flat_map' f l) = flat_map' (fun x => map g (f x)) l.
Proof. induction l as [| x l IH]; cbn [map flat_map']; [reflexivity | now rewrite map_app, IH]. Qed.

Lemma flat_map'_concat {A} (l : list (list A)) : flat_map' (fun x => x) l = concat l.
Proof. induction l as [| x l IH]; cbn [flat_map' concat]; [reflexivity | now rewrite IH]. Qed.

(* ================================================================== *)
(* 1. records, blocks, chunks                                          *)
(* ================================================================== *)
Lemma block_of_app (a b : list SVals) : block_of (a ++ b) = block_of a ++ block_of b.
Proof.
  induction a as [| d a IH]; cbn [app block_of]; [reflexivity |].
  now rewrite IH, app_assoc.
Qed.

Lemma block_offsets_app (a b : list SVals) : forall acc,
  block_offsets acc (a ++ b) = block_offsets acc a ++ block_offsets (acc + lenN (block_of a)) b.
Proof.
  induction a as [| d a IH]; intros acc; cbn [app block_of block_offsets].
  - rewrite lenN_nil, N.add_0_r. reflexivity.
  - rewrite IH. f_equal. f_equal. f_equal. rewrite Stored_Proofs.lenN_app. lia.
Qed.

Lemma stored_record_nonempty (d : SVals) : stored_record d <> [].
Proof.
  unfold stored_record. cbv zeta.
  pose proof (put_uvarint_nonempty (lenN (stored_meta 0 d))) as H.
  destruct (put_uvarint (lenN (stored_meta 0 d))); [congruence | discriminate].
Qed.

Lemma stored_record_length (d : SVals) : (1 <= length (stored_record d))%nat.
Proof.
  pose proof (stored_record_nonempty d) as H.
  destruct (stored_record d); [congruence | cbn [length]; lia].
Qed.

Lemma block_of_length (g : list SVals) : (length g <= length (block_of g))%nat.
Proof.
  induction g as [| d g IH]; cbn [block_of length]; [lia |].
  rewrite app_length. pose proof (stored_record_length d). lia.
Qed.

Lemma block_of_nonempty (d : SVals) (g : list SVals) : 0 < lenN (block_of (d :: g)).
Proof. pose proof (block_of_length (d :: g)) as H. cbn [length] in H. unfold lenN. lia. Qed.

(* ---- chunks ---- *)
Lemma chunks_fuel_indep : forall f1 f2 docs,
  (length docs <= f1)%nat -> (length docs <= f2)%nat -> chunks_fuel f1 docs = chunks_fuel f2 docs.
Proof.
  induction f1 as [| f1 IH]; intros f2 docs H1 H2.
  - destruct docs; [| cbn [length] in H1; lia]. destruct f2; reflexivity.
  - destruct docs as [| d docs].
    + destruct f2; reflexivity.
    + destruct f2 as [| f2]; [cbn [length] in H2; lia |].
      cbn [chunks_fuel]. f_equal.
      apply IH; rewrite skipn_length, bd_val; cbn [length] in *; lia.
Qed.

Lemma chunks_nil : chunks [] = [].
Proof. reflexivity. Qed.

Lemma chunks_cons (d : SVals) (docs : list SVals) :
  chunks (d :: docs) = firstn (N.to_nat block_docs) (d :: docs)
                       :: chunks (skipn (N.to_nat block_docs) (d :: docs)).
Proof.
  unfold chunks at 1. cbn [length chunks_fuel]. f_equal.
  apply chunks_fuel_indep; [| lia].
  rewrite skipn_length, bd_val. cbn [length]. lia.
Qed.

Lemma chunks_app_full (g rest : list SVals) :
  length g = N.to_nat block_docs -> chunks (g ++ rest) = g :: chunks rest.
Proof.
  intros Hg. destruct g as [| d g]; [rewrite bd_val in Hg; discriminate |].
  change ((d :: g) ++ rest) with (d :: (g ++ rest)). rewrite chunks_cons.
  change (d :: (g ++ rest)) with ((d :: g) ++ rest).
  rewrite firstn_app, skipn_app, Hg, Nat.sub_diag.
  rewrite <- Hg, firstn_all, skipn_all. cbn [firstn skipn app]. now rewrite app_nil_r.
Qed.

Lemma chunks_short (cur : list SVals) :
  cur <> [] -> (length cur < N.to_nat block_docs)%nat -> chunks cur = [cur].
Proof.
  intros Hne Hlt. destruct cur as [| d cur]; [congruence |].
  rewrite chunks_cons, firstn_all2, skipn_all2 by lia. reflexivity.
Qed.

Definition groups_full (full : list (list SVals)) : Prop :=
  Forall (fun g => length g = N.to_nat block_docs) full.

Lemma chunks_concat (full : list (list SVals)) (cur : list SVals) :
  groups_full full -> (length cur < N.to_nat block_docs)%nat ->
  chunks (concat full ++ cur) = full ++ match cur with [] => [] | _ => [cur] end.
Proof.
  intros Hf Hc. induction Hf as [| g full Hg Hf IH]; cbn [concat app].
  - destruct cur as [| d cur]; [reflexivity |]. apply chunks_short; [discriminate | exact Hc].
  - rewrite <- app_assoc, chunks_app_full by exact Hg. now rewrite IH.
Qed.

Lemma concat_full_length (full : list (list SVals)) :
  groups_full full -> length (concat full) = (128 * length full)%nat.
Proof.
  intros Hf. induction Hf as [| g full Hg Hf IH]; cbn [concat length]; [reflexivity |].
  rewrite app_length, IH, Hg, bd_val. lia.
Qed.

Lemma concat_chunks_fuel : forall fuel docs, (length docs <= fuel)%nat -> concat (chunks_fuel fuel docs) = docs.
Proof.
  induction fuel as [| f IH]; intros docs H.
  - destruct docs; [reflexivity | cbn [length] in H; lia].
  - destruct docs as [| d docs]; [reflexivity |].
    cbn [chunks_fuel concat]. rewrite IH.
    + apply firstn_skipn.
    + rewrite skipn_length, bd_val. cbn [length] in *. lia.
Qed.

Lemma concat_chunks (docs : list SVals) : concat (chunks docs) = docs.
Proof. apply concat_chunks_fuel. lia. Qed.

Lemma In_firstn {A} (n : nat) (l : list A) (x : A) : In x (firstn n l) -> In x l.
Proof. intros H. rewrite <- (firstn_skipn n l). apply in_or_app. left. exact H. Qed.
Lemma In_skipn {A} (n : nat) (l : list A) (x : A) : In x (skipn n l) -> In x l.
Proof. intros H. rewrite <- (firstn_skipn n l). apply in_or_app. right. exact H. Qed.

Lemma chunks_incl : forall fuel docs g, In g (chunks_fuel fuel docs) -> incl g docs.
Proof.
  induction fuel as [| f IH]; intros docs g H; [destruct H |].
  destruct docs as [| d docs]; [destruct H |].
  cbn [chunks_fuel] in H. destruct H as [<- | H].
  - intros x Hx. eapply In_firstn. exact Hx.
  - intros x Hx. apply (IH _ _ H) in Hx. eapply In_skipn. exact Hx.
Qed.

(* ================================================================== *)
(* 2. the document coder                                               *)
(* ================================================================== *)
(* Add of the meta and data bytes of a document appends its record *)
Lemma dc_add_record (d : SVals) (c : docCoder) :
  dc_add (stored_meta 0 d) (stored_data d) c
  = dc_new_line (mkDC (dc_buf c ++ stored_record d) (dc_n c) (dc_blocks c)).
Proof.
  unfold dc_add, dc_write_to_buf, stored_record. cbn [dc_buf dc_n dc_blocks]. cbv zeta.
  now rewrite <- !app_assoc.
Qed.

(* the coder after the documents [ds]: the full groups are flushed, the rest is
   in the buffer; [sz] are the Size() values seen before each Add *)
Definition coder_inv (ds : list SVals) (c : docCoder) (sz : list N) : Prop :=
  exists full cur,
    ds = concat full ++ cur /\ groups_full full /\ (length cur < N.to_nat block_docs)%nat /\
    c = mkDC (block_of cur) (lenN ds) (map block_of full) /\
    sz = flat_map' (block_offsets 0) full ++ block_offsets 0 cur.

Lemma coder_inv_new : coder_inv [] dc_new [].
Proof.
  exists [], []. repeat split; try reflexivity.
  - constructor.
  - rewrite bd_val. cbn [length]. lia.
Qed.

Lemma coder_inv_step (ds : list SVals) (c : docCoder) (sz : list N) (d : SVals) :
  coder_inv ds c sz ->
  coder_inv (ds ++ [d]) (dc_add (stored_meta 0 d) (stored_data d) c) (sz ++ [dc_size c]).
Proof.
  intros (full & cur & Hds & Hfull & Hcur & Hc & Hsz).
  rewrite dc_add_record. subst c. unfold dc_size. cbn [dc_buf dc_n dc_blocks].
  assert (Hlen : lenN ds = 128 * lenN full + lenN cur).
  { rewrite Hds. unfold lenN. rewrite app_length, concat_full_length by exact Hfull. lia. }
  rewrite bd_val in Hcur.
  unfold dc_new_line. cbn [dc_buf dc_n dc_blocks].
  destruct (Nat.eq_dec (S (length cur)) 128) as [E | E].
  - (* the group is complete: flush *)
    replace ((lenN ds + 1) mod block_docs =? 0) with true
      by (unfold block_docs, lenN in *; lia).
    cbn [negb]. unfold dc_flush. cbn [dc_buf dc_n dc_blocks].
    replace (0 <? lenN (block_of cur ++ stored_record d)) with true.
    2:{ pose proof (stored_record_length d). unfold lenN. rewrite app_length. lia. }
    exists (full ++ [cur ++ [d]]), []. split; [| split; [| split; [| split]]].
    + rewrite Hds, concat_app. cbn [concat]. now rewrite !app_nil_r, app_assoc.
    + apply Forall_app. split; [exact Hfull |]. constructor; [| constructor].
      rewrite app_length, bd_val. cbn [length]. lia.
    + rewrite bd_val. cbn [length]. lia.
    + f_equal.
      * unfold lenN. rewrite app_length. cbn [length]. lia.
      * rewrite map_app. cbn [map]. rewrite block_of_app. cbn [block_of]. now rewrite app_nil_r.
    + rewrite Hsz, flat_map'_app. cbn [flat_map' block_offsets].
      rewrite block_offsets_app, !app_nil_r, <- app_assoc. cbn [block_offsets]. now rewrite N.add_0_l.
  - replace ((lenN ds + 1) mod block_docs =? 0) with false
      by (unfold block_docs, lenN in *; lia).
    cbn [negb].
    exists full, (cur ++ [d]). split; [| split; [| split; [| split]]].
    + rewrite Hds. now rewrite app_assoc.
    + exact Hfull.
    + rewrite app_length, bd_val. cbn [length]. lia.
    + f_equal.
      * rewrite block_of_app. cbn [block_of]. now rewrite app_nil_r.
      * unfold lenN. rewrite app_length. cbn [length]. lia.
    + rewrite Hsz, block_offsets_app, <- app_assoc. cbn [block_offsets]. now rewrite N.add_0_l.
Qed.

(* the final flush of Write() yields the predicted layout *)
Lemma coder_inv_finish (ds : list SVals) (c : docCoder) (sz : list N) :
  coder_inv ds c sz -> (dc_blocks (dc_finish c), sz) = layout_of ds.
Proof.
  intros (full & cur & Hds & Hfull & Hcur & Hc & Hsz).
  unfold layout_of. rewrite Hds. rewrite chunks_concat by assumption.
  subst c sz. unfold dc_finish, dc_flush. cbn [dc_buf dc_n dc_blocks].
  destruct cur as [| d cur].
  - cbn [block_of]. change (0 <? lenN (@nil N)) with false.
    cbn [dc_blocks block_offsets]. now rewrite !app_nil_r.
  - replace (0 <? lenN (block_of (d :: cur))) with true
      by (pose proof (block_of_nonempty d cur); lia).
    cbn [dc_blocks]. rewrite map_app, flat_map'_app. cbn [map flat_map'].
    now rewrite app_nil_r.
Qed.

(* ---- a sequence of documents added in order ---- *)
Fixpoint coder_adds (ds : list SVals) (c : docCoder) : docCoder :=
  match ds with
  | [] => c
  | d :: ds' => coder_adds ds' (dc_add (stored_meta 0 d) (stored_data d) c)
  end.
Fixpoint coder_sizes (ds : list SVals) (c : docCoder) : list N :=
  match ds with
  | [] => []
  | d :: ds' => dc_size c :: coder_sizes ds' (dc_add (stored_meta 0 d) (stored_data d) c)
  end.

Lemma coder_inv_adds (ds : list SVals) : forall ds0 c sz,
  coder_inv ds0 c sz -> coder_inv (ds0 ++ ds) (coder_adds ds c) (sz ++ coder_sizes ds c).
Proof.
  induction ds as [| d ds IH]; intros ds0 c sz H; cbn [coder_adds coder_sizes].
  - now rewrite !app_nil_r.
  - apply (coder_inv_step _ _ _ d) in H. apply IH in H.
    rewrite <- !app_assoc in H. exact H.
Qed.

Lemma coder_sizes_length (ds : list SVals) : forall c, length (coder_sizes ds c) = length ds.
Proof. induction ds as [| d ds IH]; intros c; cbn [coder_sizes length]; [reflexivity | now rewrite IH]. Qed.

(* record Size() then Add, offsets collected by append (the builder) *)
Fixpoint add_docs (ds : list SVals) (c : docCoder) (offs : list N) : docCoder * list N :=
  match ds with
  | [] => (c, offs)
  | d :: ds' => add_docs ds' (dc_add (stored_meta 0 d) (stored_data d) c) (offs ++ [dc_size c])
  end.

Lemma add_docs_eq (ds : list SVals) : forall c offs,
  add_docs ds c offs = (coder_adds ds c, offs ++ coder_sizes ds c).
Proof.
  induction ds as [| d ds IH]; intros c offs; cbn [add_docs coder_adds coder_sizes].
  - now rewrite app_nil_r.
  - rewrite IH, <- app_assoc. reflexivity.
Qed.

(* (a) adding the records of d_0 .. d_{n-1} in order and finishing *)
Theorem doc_coder_layout (ds : list SVals) :
  let '(c, offs) := add_docs ds dc_new [] in
  (dc_blocks (dc_finish c), offs) = layout_of ds.
Proof.
  rewrite add_docs_eq. apply coder_inv_finish.
  apply (coder_inv_adds ds [] dc_new [] coder_inv_new).
Qed.

(* layout_of is the shape Run.stored_layout computes *)
Lemma stored_layout_go (A : ASeg) : forall fuel docs, (length docs <= fuel)%nat ->
  (fix go (fuel : nat) (docs : list ADoc) {struct fuel} : list bytes * list N :=
    match fuel with
    | O => ([], [])
    | S f =>
        match docs with
        | [] => ([], [])
        | _ =>
            let svs := map (svals_of (as_fields A)) (firstn (N.to_nat block_docs) docs) in
            let '(bs, os) := go f (skipn (N.to_nat block_docs) docs) in
            (block_of svs :: bs, block_offsets 0 svs ++ os)
        end
    end) fuel docs
  = layout_of (map (svals_of (as_fields A)) docs).
Proof.
  induction fuel as [| f IH]; intros docs H.
  - destruct docs; [reflexivity | cbn [length] in H; lia].
  - destruct docs as [| d docs]; [reflexivity |].
    cbv beta match fix zeta. fold (@firstn ADoc) (@skipn ADoc).
    rewrite IH.
    2:{ rewrite skipn_length, bd_val. cbn [length] in *. lia. }
    unfold layout_of. cbn [map]. rewrite chunks_cons. cbn [map flat_map'].
    change (svals_of (as_fields A) d :: map (svals_of (as_fields A)) docs)
      with (map (svals_of (as_fields A)) (d :: docs)).
    rewrite <- firstn_map, <- skipn_map. reflexivity.
Qed.

Theorem layout_of_stored_layout (A : ASeg) :
  stored_layout A = layout_of (map (svals_of (as_fields A)) (as_docs A)).
Proof.
  exact (stored_layout_go A (S (length (as_docs A))) (as_docs A) (Nat.le_succ_diag_r _)).
Qed.

(* ================================================================== *)
(* 3. encodeStoredFieldValues and the loop over the field ids          *)
(* ================================================================== *)
Lemma stored_data_app (a b : SVals) : stored_data (a ++ b) = stored_data a ++ stored_data b.
Proof. apply flat_map'_app. Qed.

Lemma stored_meta_app (a b : SVals) : forall curr,
  stored_meta curr (a ++ b) = stored_meta curr a ++ stored_meta (curr + lenN (stored_data a)) b.
Proof.
  induction a as [| [fid v] a IH]; intros curr.
  - cbn [app stored_meta stored_data flat_map']. rewrite lenN_nil, N.add_0_r. reflexivity.
  - change (((fid, v) :: a) ++ b) with ((fid, v) :: (a ++ b)).
    rewrite !stored_meta_cons, IH, <- !app_assoc.
    unfold stored_data. cbn [flat_map' snd]. rewrite Stored_Proofs.lenN_app, N.add_assoc. reflexivity.
Qed.

Lemma encode_sfv (fid : N) (vs : list bytes) : forall curr meta data,
  encode_stored_field_values fid vs curr meta data
  = (curr + lenN (stored_data (map (pair fid) vs)),
     meta ++ stored_meta curr (map (pair fid) vs),
     data ++ stored_data (map (pair fid) vs)).
Proof.
  induction vs as [| v vs IH]; intros curr meta data; cbn [encode_stored_field_values map].
  - cbn [stored_meta stored_data flat_map']. rewrite lenN_nil, N.add_0_r, !app_nil_r. reflexivity.
  - cbv zeta. rewrite IH, stored_meta_cons.
    unfold stored_data. cbn [flat_map' snd]. rewrite Stored_Proofs.lenN_app, <- !app_assoc, N.add_assoc.
    reflexivity.
Qed.

(* the field ids fid, fid+1, ..., fid+k-1 *)
Fixpoint fid_range (k : nat) (fid : N) : list N :=
  match k with O => [] | S k' => fid :: fid_range k' (fid + 1) end.

Lemma fid_range_In (k : nat) : forall fid i, In i (fid_range k fid) <-> fid <= i < fid + N.of_nat k.
Proof.
  induction k as [| k IH]; intros fid i; cbn [fid_range In].
  - lia.
  - rewrite IH. lia.
Qed.

(* the values of a document grouped by field id, [vs_of i] being those of id i *)
Definition group_svals (vs_of : N -> list bytes) (k : nat) (fid : N) : SVals :=
  flat_map' (fun i => map (pair i) (vs_of i)) (fid_range k fid).

Lemma group_svals_ext (f g : N -> list bytes) (k : nat) (fid : N) :
  (forall i, fid <= i < fid + N.of_nat k -> f i = g i) -> group_svals f k fid = group_svals g k fid.
Proof.
  intros H. unfold group_svals. apply flat_map'_ext_in. intros i Hi.
  apply fid_range_In in Hi. now rewrite H.
Qed.

Definition enc_result (S : SVals) (curr : N) (meta data : bytes) : N * bytes * bytes :=
  (curr + lenN (stored_data S), meta ++ stored_meta curr S, data ++ stored_data S).

Lemma enc_result_app (S1 S2 : SVals) (curr : N) (meta data : bytes) :
  enc_result S2 (curr + lenN (stored_data S1)) (meta ++ stored_meta curr S1) (data ++ stored_data S1)
  = enc_result (S1 ++ S2) curr meta data.
Proof.
  unfold enc_result. rewrite stored_meta_app, stored_data_app, Stored_Proofs.lenN_app, <- !app_assoc, N.add_assoc.
  reflexivity.
Qed.

(* the builder's loop (ids present in the map) *)
Lemma build_doc_fields_eq (m : list (N * list bytes)) (k : nat) : forall fid curr meta data,
  build_doc_fields k fid m curr meta data
  = enc_result (group_svals (fun i => opt_default [] (sf_lookup i m)) k fid) curr meta data.
Proof.
  induction k as [| k IH]; intros fid curr meta data; cbn [build_doc_fields].
  - unfold enc_result, group_svals. cbn [fid_range flat_map' stored_meta stored_data].
    rewrite lenN_nil, N.add_0_r, !app_nil_r. reflexivity.
  - unfold group_svals. cbn [fid_range flat_map']. fold (group_svals (fun i => opt_default [] (sf_lookup i m)) k (fid + 1)).
    rewrite <- enc_result_app.
    destruct (sf_lookup fid m) as [vals |]; cbn [opt_default].
    + rewrite encode_sfv, IH. reflexivity.
    + rewrite IH. cbn [map stored_meta stored_data flat_map'].
      rewrite lenN_nil, N.add_0_r, !app_nil_r. reflexivity.
Qed.

(* the merger's loop (all merged ids) *)
Lemma encode_all_fields_eq (vals : list (list bytes)) (k : nat) : forall fid curr meta data,
  encode_all_fields k fid vals curr meta data
  = enc_result (group_svals (fun i => nth (N.to_nat i) vals []) k fid) curr meta data.
Proof.
  induction k as [| k IH]; intros fid curr meta data; cbn [encode_all_fields].
  - unfold enc_result, group_svals. cbn [fid_range flat_map' stored_meta stored_data].
    rewrite lenN_nil, N.add_0_r, !app_nil_r. reflexivity.
  - unfold group_svals. cbn [fid_range flat_map']. fold (group_svals (fun i => nth (N.to_nat i) vals []) k (fid + 1)).
    rewrite <- enc_result_app, encode_sfv, IH. reflexivity.
Qed.

(* ================================================================== *)
(* 4. index_of, field ids                                              *)
(* ================================================================== *)
Lemma index_of_ge (x : bytes) (l : list bytes) : forall i j, index_of x l i = Some j -> i <= j.
Proof.
  induction l as [| y l IH]; intros i j H; cbn [index_of] in H; [discriminate |].
  destruct (beq x y); [injection H as <-; lia |]. apply IH in H. lia.
Qed.

Lemma index_of_nth (x : bytes) (l : list bytes) : forall i j,
  index_of x l i = Some j -> nth_error l (N.to_nat (j - i)) = Some x.
Proof.
  induction l as [| y l IH]; intros i j H; cbn [index_of] in H; [discriminate |].
  destruct (beq x y) eqn:E.
  - injection H as <-. apply beq_eq in E. subst y. now rewrite N.sub_diag.
  - pose proof (index_of_ge _ _ _ _ H) as Hge. apply IH in H.
    replace (N.to_nat (j - i)) with (S (N.to_nat (j - (i + 1)))) by lia. exact H.
Qed.

Lemma index_of_In (x : bytes) (l : list bytes) : forall i, In x l -> exists j, index_of x l i = Some j.
Proof.
  induction l as [| y l IH]; intros i H; [destruct H |]. cbn [index_of].
  destruct (beq x y) eqn:E; [eauto |].
  destruct H as [-> | H]; [rewrite beq_refl in E; discriminate | apply IH, H].
Qed.

Lemma index_of_app_notin (x : bytes) (pre l : list bytes) : forall i,
  ~ In x pre -> index_of x (pre ++ l) i = index_of x l (i + lenN pre).
Proof.
  induction pre as [| y pre IH]; intros i H.
  - cbn [app]. now rewrite lenN_nil, N.add_0_r.
  - cbn [app index_of].
    destruct (beq x y) eqn:E.
    + apply beq_eq in E. subst y. exfalso. apply H. left. reflexivity.
    + rewrite IH by (intros Hin; apply H; right; exact Hin).
      f_equal. rewrite lenN_cons. lia.
Qed.

Lemma field_id_mid (pre suf : list bytes) (x : bytes) :
  ~ In x pre -> field_id (pre ++ x :: suf) x = lenN pre.
Proof.
  intros H. unfold field_id. rewrite index_of_app_notin by exact H.
  cbn [index_of]. rewrite beq_refl. cbn [opt_default]. lia.
Qed.

(* a known name is found where it stands *)
Lemma field_id_nth (fields : list bytes) (x : bytes) :
  In x fields -> nth_error fields (N.to_nat (field_id fields x)) = Some x.
Proof.
  intros H. unfold field_id. destruct (index_of_In x fields 0 H) as [j Hj].
  rewrite Hj. cbn [opt_default]. apply index_of_nth in Hj. now rewrite N.sub_0_r in Hj.
Qed.

Lemma field_id_lt (fields : list bytes) (x : bytes) :
  In x fields -> (N.to_nat (field_id fields x) < length fields)%nat.
Proof. intros H. apply nth_error_Some. rewrite (field_id_nth _ _ H). discriminate. Qed.

Lemma field_id_index (fields : list bytes) (x : bytes) :
  In x fields -> index_of x fields 0 = Some (field_id fields x).
Proof.
  intros H. unfold field_id. destruct (index_of_In x fields 0 H) as [j Hj]. now rewrite Hj.
Qed.

(* in a duplicate-free field list the id decides the name *)
Lemma field_id_eqb (pre suf : list bytes) (fname x : bytes) :
  NoDup (pre ++ fname :: suf) -> In x (pre ++ fname :: suf) ->
  (field_id (pre ++ fname :: suf) x =? lenN pre) = beq x fname.
Proof.
  intros Hnd Hin.
  destruct (beq x fname) eqn:E.
  - apply beq_eq in E. subst x. rewrite field_id_mid; [lia |].
    apply NoDup_remove_2 in Hnd. intros H. apply Hnd. apply in_or_app. left. exact H.
  - destruct (N.eqb_spec (field_id (pre ++ fname :: suf) x) (lenN pre)) as [Heq | Hne]; [| reflexivity].
    pose proof (field_id_nth _ _ Hin) as Hn. rewrite Heq in Hn.
    rewrite nth_error_app2 in Hn by (unfold lenN; lia).
    replace (N.to_nat (lenN pre) - length pre)%nat with 0%nat in Hn by (unfold lenN; lia).
    cbn [nth_error] in Hn. injection Hn as ->. rewrite beq_refl in E. discriminate.
Qed.

(* ================================================================== *)
(* 5. the builder                                                      *)
(* ================================================================== *)
Lemma sf_lookup_append (i j : N) (v : bytes) (m : list (N * list bytes)) :
  opt_default [] (sf_lookup i (sf_append j v m))
  = if i =? j then opt_default [] (sf_lookup i m) ++ [v] else opt_default [] (sf_lookup i m).
Proof.
  induction m as [| [k vs] m IH]; cbn [sf_append sf_lookup].
  - destruct (N.eqb_spec i j) as [-> | Hne].
    + rewrite N.eqb_refl. reflexivity.
    + replace (j =? i) with false by lia. reflexivity.
  - destruct (N.eqb_spec k j) as [-> | Hkj]; cbn [sf_lookup].
    + destruct (N.eqb_spec j i) as [-> | Hji].
      * rewrite N.eqb_refl. reflexivity.
      * replace (i =? j) with false by lia. reflexivity.
    + destruct (N.eqb_spec k i) as [-> | Hki].
      * replace (i =? j) with false by lia. reflexivity.
      * exact IH.
Qed.

Definition stored_step (fields : list bytes) (m : list (N * list bytes)) (f : Field) :=
  if f_store f then sf_append (field_id fields (f_name f)) (f_value f) m else m.

Lemma doc_stored_lookup (fields : list bytes) (i : N) (d : Doc) : forall m,
  opt_default [] (sf_lookup i (fold_left (stored_step fields) d m))
  = opt_default [] (sf_lookup i m)
    ++ map f_value (filter (fun f => f_store f && (field_id fields (f_name f) =? i)) d).
Proof.
  induction d as [| f d IH]; intros m; cbn [fold_left filter map].
  - now rewrite app_nil_r.
  - rewrite IH. unfold stored_step.
    destruct (f_store f); cbn [andb].
    + rewrite sf_lookup_append, (N.eqb_sym i).
      destruct (field_id fields (f_name f) =? i); cbn [map]; [now rewrite <- app_assoc | reflexivity].
    + reflexivity.
Qed.

Lemma filter_filter_ext {A} (p g g' : A -> bool) (l : list A) :
  (forall x, In x l -> g' x = g x) ->
  filter (fun x => p x && g' x) l = filter p (filter g l).
Proof.
  induction l as [| x l IH]; intros H; cbn [filter]; [reflexivity |].
  rewrite (H x) by (left; reflexivity).
  rewrite IH by (intros y Hy; apply H; right; exact Hy).
  destruct (g x); cbn [filter]; destruct (p x); reflexivity.
Qed.

(* grouping by ascending field id is the abstract stored list of the document *)
Lemma group_fields (fields : list bytes) (d : Doc) :
  NoDup fields -> (forall f, In f d -> In (f_name f) fields) ->
  forall suf pre, fields = pre ++ suf ->
    group_svals (fun i => map f_value (filter (fun f => f_store f && (field_id fields (f_name f) =? i)) d))
                (length suf) (lenN pre)
    = map (fun p => (field_id fields (fst p), snd p))
          (flat_map' (fun fname => map (fun f => (fname, f_value f)) (filter f_store (instances fname d))) suf).
Proof.
  intros Hnd Hnames. induction suf as [| fname suf IH]; intros pre Hf.
  - reflexivity.
  - unfold group_svals. cbn [length fid_range flat_map'].
    rewrite map_app. f_equal.
    + rewrite !map_map. cbn [fst snd].
      assert (Hid : field_id fields fname = lenN pre).
      { rewrite Hf. apply field_id_mid. rewrite Hf in Hnd. apply NoDup_remove_2 in Hnd.
        intros H. apply Hnd, in_or_app. left. exact H. }
      rewrite Hid. f_equal. unfold instances. apply filter_filter_ext.
      intros f Hin. rewrite Hf. apply field_id_eqb; rewrite <- Hf; [exact Hnd | apply Hnames, Hin].
    + specialize (IH (pre ++ [fname])). rewrite <- app_assoc in IH. specialize (IH Hf).
      rewrite Stored_Proofs.lenN_app in IH. exact IH.
Qed.

Lemma canonical_NoDup (l : list bytes) : canonical_fields l -> NoDup l.
Proof.
  intros (rest & -> & Hs & Hn). constructor; [exact Hn |]. apply strict_sorted_bytes_NoDup, Hs.
Qed.

Lemma batch_names_known (b : Batch) (d : Doc) (f : Field) :
  In d b -> In f d -> In (f_name f) (field_list (batch_field_names b)).
Proof.
  intros Hd Hf. apply field_list_In. right. unfold batch_field_names.
  apply In_flat_map'. exists d. split; [exact Hd | apply in_map, Hf].
Qed.

Lemma build_docs_eq (nfields : nat) (docs : list (list (N * list bytes))) : forall c offs,
  build_docs nfields docs c offs
  = add_docs (map (fun m => group_svals (fun i => opt_default [] (sf_lookup i m)) nfields 0) docs) c offs.
Proof.
  induction docs as [| m docs IH]; intros c offs; cbn [build_docs map add_docs]; [reflexivity |].
  rewrite build_doc_fields_eq. unfold enc_result. cbn [app]. apply IH.
Qed.

(* the record the builder writes for a document of the batch *)
Lemma builder_doc_svals (norm : bytes -> N -> N) (b : Batch) (d : Doc) :
  In d b ->
  let fields := field_list (batch_field_names b) in
  group_svals (fun i => opt_default [] (sf_lookup i (doc_stored_fields fields d))) (length fields) 0
  = svals_of fields (abs_doc norm b fields d).
Proof.
  intros Hd fields.
  unfold svals_of. cbn [ad_stored abs_doc]. unfold abs_stored.
  rewrite <- (group_fields fields d) with (pre := []).
  - apply group_svals_ext. intros i _. unfold doc_stored_fields.
    change (fun m f => if f_store f then sf_append (field_id fields (f_name f)) (f_value f) m else m)
      with (stored_step fields).
    rewrite doc_stored_lookup. reflexivity.
  - apply canonical_NoDup, field_list_canonical.
  - intros f Hf. apply (batch_names_known b d f Hd Hf).
  - reflexivity.
Qed.

(* (b) the builder writes the layout the abstract segment of the batch predicts *)
Theorem build_stored_correct (norm : bytes -> N -> N) (b : Batch) :
  let fields := field_list (batch_field_names b) in
  build_stored_batch fields b
  = layout_of (map (svals_of fields) (as_docs (abs_of_batch norm b))).
Proof.
  intros fields. unfold build_stored_batch, build_stored.
  rewrite build_docs_eq, map_map.
  cbn [abs_of_batch as_docs]. fold fields. rewrite map_map.
  rewrite (map_ext_in _ (fun d => svals_of fields (abs_doc norm b fields d))).
  2:{ intros d Hd. apply (builder_doc_svals norm b d Hd). }
  pose proof (doc_coder_layout (map (fun d => svals_of fields (abs_doc norm b fields d)) b)) as H.
  destruct (add_docs _ dc_new []) as [c offs]. exact H.
Qed.

Corollary build_stored_layout (norm : bytes -> N -> N) (b : Batch) :
  build_stored_batch (field_list (batch_field_names b)) b = stored_layout (abs_of_batch norm b).
Proof. rewrite layout_of_stored_layout. apply build_stored_correct. Qed.

(* ================================================================== *)
(* 6. the merger's state: docNumOffsets as a preallocated array        *)
(* ================================================================== *)
(* record Size() in docNumOffsets[newDocNum], Add, newDocNum++ : what both
   merger paths do for each document they emit *)
Fixpoint emit_docs (ds : list SVals) (st : MergeSt) : result MergeSt :=
  match ds with
  | [] => Ok st
  | d :: ds' =>
      let '(newDocNum, offs, c) := st in
      do offs1 <- arr_set newDocNum (dc_size c) offs;
      emit_docs ds' (newDocNum + 1, offs1, dc_add (stored_meta 0 d) (stored_data d) c)
  end.

Lemma emit_docs_app (a b : list SVals) : forall st,
  emit_docs (a ++ b) st = (do st1 <- emit_docs a st; emit_docs b st1).
Proof.
  induction a as [| d a IH]; intros [[n offs] c]; cbn [app emit_docs rbind]; [reflexivity |].
  destruct (arr_set n (dc_size c) offs); cbn [rbind]; try reflexivity. apply IH.
Qed.

Lemma emit_docs_num (ds : list SVals) : forall n offs c n' offs' c',
  emit_docs ds (n, offs, c) = Ok (n', offs', c') -> n' = n + lenN ds.
Proof.
  induction ds as [| d ds IH]; intros n offs c n' offs' c' H; cbn [emit_docs] in H.
  - injection H as <- _ _. rewrite lenN_nil. lia.
  - destruct (arr_set n (dc_size c) offs); cbn [rbind] in H; try discriminate.
    apply IH in H. rewrite lenN_cons. lia.
Qed.

Lemma set_nth_app {A} (w : list A) (x y : A) (r : list A) :
  set_nth (length w) x (w ++ y :: r) = w ++ x :: r.
Proof. induction w as [| z w IH]; cbn [length app set_nth]; [reflexivity | now rewrite IH]. Qed.

Lemma arr_set_next (w : list N) (x : N) (k : nat) :
  arr_set (lenN w) x (w ++ repeat 0 (S k)) = Ok ((w ++ [x]) ++ repeat 0 k).
Proof.
  unfold arr_set. rewrite Stored_Proofs.lenN_app.
  replace (lenN w <? lenN w + lenN (repeat 0 (S k))) with true
    by (unfold lenN; cbn [repeat length]; lia).
  cbn [repeat]. replace (N.to_nat (lenN w)) with (length w) by (unfold lenN; lia).
  rewrite set_nth_app, <- app_assoc. reflexivity.
Qed.

(* with room for them, the documents are emitted and their sizes fill the array *)
Lemma emit_docs_ok (ds : list SVals) : forall (w : list N) (k : nat) (c : docCoder),
  (length ds <= k)%nat ->
  emit_docs ds (lenN w, w ++ repeat 0 k, c)
  = Ok (lenN w + lenN ds, (w ++ coder_sizes ds c) ++ repeat 0 (k - length ds), coder_adds ds c).
Proof.
  induction ds as [| d ds IH]; intros w k c Hk; cbn [emit_docs coder_sizes coder_adds length].
  - rewrite (@lenN_nil SVals), N.add_0_r, app_nil_r, Nat.sub_0_r. reflexivity.
  - destruct k as [| k]; [cbn [length] in Hk; lia |].
    rewrite arr_set_next. cbn [rbind].
    replace (lenN w + 1) with (lenN (w ++ [dc_size c])) by (rewrite Stored_Proofs.lenN_app; reflexivity).
    rewrite IH by (cbn [length] in Hk; lia).
    rewrite <- !app_assoc. cbn [app Nat.sub].
    f_equal. f_equal. f_equal. unfold lenN. rewrite app_length. cbn [length]. lia.
Qed.

(* emitting all documents of a segment from the initial state gives its layout *)
Lemma emit_docs_layout (ds : list SVals) :
  exists c, emit_docs ds (0, repeat 0 (length ds), dc_new) = Ok (lenN ds, snd (layout_of ds), c)
            /\ dc_blocks (dc_finish c) = fst (layout_of ds).
Proof.
  exists (coder_adds ds dc_new).
  pose proof (emit_docs_ok ds [] (length ds) dc_new (Nat.le_refl _)) as H.
  cbn [app] in H. rewrite (@lenN_nil N), N.add_0_l, Nat.sub_diag in H. cbn [repeat] in H.
  rewrite app_nil_r in H.
  pose proof (coder_inv_finish _ _ _ (coder_inv_adds ds [] dc_new [] coder_inv_new)) as HL.
  cbn [app] in HL. rewrite <- HL. cbn [fst snd]. split; [exact H | reflexivity].
Qed.

(* ================================================================== *)
(* 7. the copy path                                                    *)
(* ================================================================== *)
Definition rec_sizes_ok (d : SVals) : Prop :=
  lenN (stored_meta 0 d) < two64 /\ lenN (stored_data d) < two64.

Lemma copy_block_unfold (fuel : nat) (buf : bytes) (blen off : N) (st : MergeSt) :
  copy_block fuel buf blen off st =
  if off <? blen then
    match fuel with
    | O => OutOfFuel
    | S fuel' =>
        let '(newDocNum, newDocNumOffsets, c) := st in
        do (metaLen, dataLen, n) <- stored_lens buf off;
        do newDocNumOffsets1 <- arr_set newDocNum (dc_size c) newDocNumOffsets;
        do metaBytes <- slice buf (off + n) (off + n + metaLen);
        do data <- slice buf (off + n + metaLen) (off + n + metaLen + dataLen);
        copy_block fuel' buf blen (off + n + metaLen + dataLen)
                   (newDocNum + 1, newDocNumOffsets1, dc_add metaBytes data c)
    end
  else Ok st.
Proof. destruct fuel; reflexivity. Qed.

(* the walk over the records of a block re-Adds each record's meta and data
   bytes: wherever the record sits (prefix [bpre]), whatever follows the block
   in the reused buffer ([stale], the bytes between len and cap), down to a
   2-byte record at the very end of the block *)
Lemma copy_block_ok (rest : list SVals) : forall (fuel : nat) (bpre stale : bytes) (st : MergeSt),
  Forall rec_sizes_ok rest -> (length rest <= fuel)%nat ->
  copy_block fuel (bpre ++ block_of rest ++ stale) (lenN bpre + lenN (block_of rest)) (lenN bpre) st
  = emit_docs rest st.
Proof.
  induction rest as [| d rest IH]; intros fuel bpre stale [[n offs] c] Hok Hfuel;
    rewrite copy_block_unfold.
  - cbn [block_of]. rewrite (@lenN_nil N). replace (lenN bpre <? lenN bpre + 0) with false by lia.
    reflexivity.
  - pose proof (block_of_nonempty d rest) as Hne.
    replace (lenN bpre <? lenN bpre + lenN (block_of (d :: rest))) with true by lia.
    destruct fuel as [| fuel]; [cbn [length] in Hfuel; lia |].
    inversion Hok as [| d' rest' [Hm Hd] Hok']; subst d' rest'.
    cbn [block_of emit_docs]. unfold stored_record. cbv zeta.
    set (m := stored_meta 0 d) in *. set (dt := stored_data d) in *.
    set (pm := put_uvarint (lenN m)). set (pd := put_uvarint (lenN dt)).
    set (buf := bpre ++ ((pm ++ pd ++ m ++ dt) ++ block_of rest) ++ stale).
    rewrite (stored_lens_ok buf bpre (m ++ dt ++ block_of rest ++ stale) (lenN m) (lenN dt) Hm Hd).
    2:{ unfold buf, pm, pd. rewrite <- !app_assoc. reflexivity. }
    cbn [rbind]. fold pm pd.
    destruct (arr_set n (dc_size c) offs) as [offs1 | | | |]; cbn [rbind]; try reflexivity.
    rewrite (slice_mid buf (bpre ++ pm ++ pd) m (dt ++ block_of rest ++ stale)).
    2:{ unfold buf. rewrite <- !app_assoc. reflexivity. }
    2:{ rewrite !Stored_Proofs.lenN_app. lia. }
    2:{ rewrite !Stored_Proofs.lenN_app. lia. }
    cbn [rbind].
    rewrite (slice_mid buf (bpre ++ pm ++ pd ++ m) dt (block_of rest ++ stale)).
    2:{ unfold buf. rewrite <- !app_assoc. reflexivity. }
    2:{ rewrite !Stored_Proofs.lenN_app. lia. }
    2:{ rewrite !Stored_Proofs.lenN_app. lia. }
    cbn [rbind].
    specialize (IH fuel (bpre ++ pm ++ pd ++ m ++ dt) stale (n + 1, offs1, dc_add m dt c) Hok').
    rewrite <- IH by (cbn [length] in Hfuel; lia).
    f_equal.
    + unfold buf. rewrite <- !app_assoc. reflexivity.
    + rewrite !Stored_Proofs.lenN_app. lia.
    + rewrite !Stored_Proofs.lenN_app. lia.
Qed.

(* the parsed meta/data slices of a record are its stored_meta / stored_data
   bytes, at any position of its source block *)
Theorem copy_record_slices (pre post : bytes) (d : SVals) :
  rec_sizes_ok d ->
  let blk := pre ++ stored_record d ++ post in
  exists n, stored_lens blk (lenN pre) = Ok (lenN (stored_meta 0 d), lenN (stored_data d), n) /\
    slice blk (lenN pre + n) (lenN pre + n + lenN (stored_meta 0 d)) = Ok (stored_meta 0 d) /\
    slice blk (lenN pre + n + lenN (stored_meta 0 d))
              (lenN pre + n + lenN (stored_meta 0 d) + lenN (stored_data d)) = Ok (stored_data d) /\
    lenN pre + n + lenN (stored_meta 0 d) + lenN (stored_data d) = lenN pre + lenN (stored_record d).
Proof.
  intros [Hm Hd] blk. unfold blk, stored_record. cbv zeta.
  set (m := stored_meta 0 d) in *. set (dt := stored_data d) in *.
  set (pm := put_uvarint (lenN m)). set (pd := put_uvarint (lenN dt)).
  exists (lenN pm + lenN pd). split; [| split; [| split]].
  - apply (stored_lens_ok _ pre (m ++ dt ++ post) (lenN m) (lenN dt) Hm Hd).
    rewrite <- !app_assoc. reflexivity.
  - apply (slice_mid _ (pre ++ pm ++ pd) m (dt ++ post)).
    + rewrite <- !app_assoc. reflexivity.
    + rewrite !Stored_Proofs.lenN_app. lia.
    + rewrite !Stored_Proofs.lenN_app. lia.
  - apply (slice_mid _ (pre ++ pm ++ pd ++ m) dt post).
    + rewrite <- !app_assoc. reflexivity.
    + rewrite !Stored_Proofs.lenN_app. lia.
    + rewrite !Stored_Proofs.lenN_app. lia.
  - rewrite !Stored_Proofs.lenN_app. lia.
Qed.

Lemma copy_blocks_ok (gs : list (list SVals)) : forall st,
  Forall (Forall rec_sizes_ok) gs ->
  copy_blocks (map block_of gs) st = emit_docs (concat gs) st.
Proof.
  induction gs as [| g gs IH]; intros st Hok; cbn [map copy_blocks concat]; [reflexivity |].
  inversion Hok as [| g' gs' Hg Hgs]; subst g' gs'.
  rewrite emit_docs_app.
  pose proof (copy_block_ok g (length (block_of g)) [] [] st Hg (block_of_length g)) as H.
  cbn [app] in H. rewrite app_nil_r, (@lenN_nil N), N.add_0_l in H. rewrite H.
  destruct (emit_docs g st); cbn [rbind]; try reflexivity. apply IH, Hgs.
Qed.

Lemma chunks_Forall (P : SVals -> Prop) (docs : list SVals) :
  Forall P docs -> Forall (Forall P) (chunks docs).
Proof.
  intros H. apply Forall_forall. intros g Hg. apply Forall_forall. intros x Hx.
  rewrite Forall_forall in H. apply H. eapply chunks_incl; eassumption.
Qed.

Lemma layout_offsets_length (docs : list SVals) : length (snd (layout_of docs)) = length docs.
Proof.
  unfold layout_of. cbn [snd]. rewrite <- (concat_chunks docs) at 2.
  induction (chunks docs) as [| g gs IH]; cbn [flat_map' concat]; [reflexivity |].
  now rewrite !app_length, block_offsets_length, IH.
Qed.

(* copyStoredDocs on a segment stored as layout_of its documents re-emits them *)
Theorem copy_stored_docs_ok (fields : list bytes) (docs : list SVals) (n : N) (offs : list N) (c : docCoder) :
  Forall rec_sizes_ok docs ->
  copy_stored_docs (stored_input_of fields docs []) n offs c
  = (do st1 <- emit_docs docs (n, offs, c); let '(_, offs1, c1) := st1 in Ok (offs1, c1)).
Proof.
  intros Hok. unfold copy_stored_docs, stored_input_of. cbn [si_offsets si_blocks].
  unfold lenN at 1. rewrite layout_offsets_length.
  destruct docs as [| d docs].
  - reflexivity.
  - replace (N.of_nat (length (d :: docs)) =? 0) with false by (cbn [length]; lia).
    unfold layout_of. cbn [fst].
    rewrite copy_blocks_ok by (apply chunks_Forall, Hok).
    rewrite concat_chunks. reflexivity.
Qed.

(* ================================================================== *)
(* 8. reading a document back out of a stored segment                  *)
(* ================================================================== *)
Lemma nth_error_firstn_lt {A} (l : list A) : forall n r, (r < n)%nat -> nth_error (firstn n l) r = nth_error l r.
Proof.
  induction l as [| x l IH]; intros n r H.
  - now rewrite firstn_nil.
  - destruct n as [| n]; [lia |]. destruct r as [| r]; cbn [firstn nth_error]; [reflexivity |].
    apply IH. lia.
Qed.

Lemma nth_error_skipn_add {A} (l : list A) : forall n j, nth_error (skipn n l) j = nth_error l (n + j).
Proof.
  induction l as [| x l IH]; intros n j.
  - rewrite skipn_nil. destruct j, n; reflexivity.
  - destruct n as [| n]; cbn [skipn Nat.add nth_error]; [reflexivity | apply IH].
Qed.

Lemma nthN_nth_error {A} (l : list A) : forall n, nthN l n = nth_error l n.
Proof.
  induction l as [| x l IH]; intros n; destruct n; cbn [nthN nth_error]; try reflexivity. apply IH.
Qed.

Lemma chunks_nth : forall fuel docs q r,
  (length docs <= fuel)%nat -> (r < 128)%nat -> (128 * q + r < length docs)%nat ->
  exists g, nth_error (chunks_fuel fuel docs) q = Some g /\
            nth_error g r = nth_error docs (128 * q + r) /\
            nth (128 * q + r) (flat_map' (block_offsets 0) (chunks_fuel fuel docs)) 0
            = nth r (block_offsets 0 g) 0.
Proof.
  induction fuel as [| f IH]; intros docs q r Hf Hr Hlt; [lia |].
  destruct docs as [| d docs]; [cbn [length] in Hlt; lia |].
  cbn [chunks_fuel flat_map']. set (all := d :: docs) in *.
  destruct q as [| q].
  - exists (firstn (N.to_nat block_docs) all). rewrite bd_val.
    replace (128 * 0 + r)%nat with r by lia.
    split; [reflexivity |]. split; [apply nth_error_firstn_lt, Hr |].
    apply app_nth1. rewrite block_offsets_length, firstn_length. lia.
  - assert (Hsk : (length (skipn (N.to_nat block_docs) all) <= f)%nat).
    { rewrite skipn_length, bd_val. lia. }
    destruct (IH (skipn (N.to_nat block_docs) all) q r Hsk Hr) as (g & Hg1 & Hg2 & Hg3).
    { rewrite skipn_length, bd_val. lia. }
    exists g. cbn [nth_error]. split; [exact Hg1 |]. split.
    + rewrite Hg2, nth_error_skipn_add, bd_val. f_equal. lia.
    + rewrite app_nth2; rewrite block_offsets_length, firstn_length, bd_val; [| lia].
      rewrite <- Hg3. f_equal. lia.
Qed.

Lemma take_stop_None l : take_stop None l = l.
Proof. reflexivity. Qed.

(* visitDocument on a segment stored as layout_of its documents *)
Lemma visit_doc_ok (fields : list bytes) (docs : list SVals) (dr : list N) (i : nat) (vals : SVals) :
  Forall (wf_svals (length fields)) docs -> nth_error docs i = Some vals ->
  visit_doc (stored_input_of fields docs dr) (N.of_nat i) = Ok (resolve_vals fields vals).
Proof.
  intros Hwf Hn.
  assert (Hi : (i < length docs)%nat) by (apply nth_error_Some; congruence).
  set (q := (i / 128)%nat). set (r := (i mod 128)%nat).
  assert (Hqr : i = (128 * q + r)%nat) by (unfold q, r; lia).
  assert (Hr : (r < 128)%nat) by (unfold r; lia).
  destruct (chunks_nth (length docs) docs q r (Nat.le_refl _) Hr) as (g & Hg1 & Hg2 & Hg3); [lia |].
  fold (chunks docs) in Hg1, Hg3. rewrite <- Hqr in Hg2, Hg3.
  unfold visit_doc, stored_input_of, layout_of. cbn [fst snd si_offsets si_blocks si_fields].
  rewrite Nat2N.id.
  rewrite (nthN_nth 0).
  2:{ pose proof (layout_offsets_length docs) as HL. unfold layout_of in HL. cbn [snd] in HL. lia. }
  replace (N.to_nat (N.of_nat i / block_docs)) with q by (unfold block_docs; lia).
  rewrite nthN_nth_error, (map_nth_error block_of q (chunks docs) Hg1).
  rewrite Hg3. rewrite Hn in Hg2.
  rewrite (block_visit fields g r vals None); [reflexivity | | exact Hg2].
  apply Forall_forall. intros x Hx. rewrite Forall_forall in Hwf. apply Hwf.
  apply (chunks_incl (length docs) docs g); [| exact Hx]. eapply nth_error_In, Hg1.
Qed.

(* the stored values under a field list *)
Definition ren (fields : list bytes) (p : bytes * bytes) : N * bytes := (field_id fields (fst p), snd p).

Lemma svals_of_ren (fields : list bytes) (d : ADoc) : svals_of fields d = map (ren fields) (ad_stored d).
Proof. reflexivity. Qed.

Lemma resolve_svals (fields : list bytes) (ps : list (bytes * bytes)) :
  Forall (fun p => In (fst p) fields) ps -> resolve_vals fields (map (ren fields) ps) = ps.
Proof.
  intros H. unfold resolve_vals. rewrite map_map.
  induction H as [| [name v] ps Hin H IH]; cbn [map]; [reflexivity |]. rewrite IH. f_equal.
  unfold ren. cbn [fst snd] in *. f_equal. apply nth_error_nth, field_id_nth, Hin.
Qed.

(* ================================================================== *)
(* 9. field lists: `_id` first, then sorted; ids are monotone          *)
(* ================================================================== *)
Lemma index_of_found_In (x : bytes) (l : list bytes) (i j : N) : index_of x l i = Some j -> In x l.
Proof. intros H. apply index_of_nth in H. eapply nth_error_In, H. Qed.

Lemma sorted_index_le (rest : list bytes) : strict_sorted_bytes rest -> forall i a b ja jb,
  index_of a rest i = Some ja -> index_of b rest i = Some jb -> (ja <= jb <-> ble a b = true).
Proof.
  intros Hs. induction Hs as [| x r Hs IH Hall]; intros i a b ja jb Ha Hb; [discriminate |].
  cbn [index_of] in Ha, Hb. rewrite Forall_forall in Hall.
  destruct (beq a x) eqn:Ea; destruct (beq b x) eqn:Eb.
  - apply beq_eq in Ea, Eb. subst a b. injection Ha as <-. injection Hb as <-.
    split; intros _; [apply ble_refl | lia].
  - apply beq_eq in Ea. subst a. injection Ha as <-.
    pose proof (index_of_ge _ _ _ _ Hb) as Hge. apply index_of_found_In in Hb.
    split; intros _; [| lia]. apply ble_lt_or_eq. left. apply Hall, Hb.
  - apply beq_eq in Eb. subst b. injection Hb as <-.
    pose proof (index_of_ge _ _ _ _ Ha) as Hge. apply index_of_found_In in Ha.
    split; intros H; [lia |]. exfalso.
    apply ble_lt_or_eq in H. destruct H as [H | ->].
    + pose proof (blt_trans a x a H (Hall a Ha)) as Hc. rewrite blt_irrefl in Hc. discriminate.
    + rewrite beq_refl in Ea. discriminate.
  - eapply IH; eassumption.
Qed.

Theorem canonical_index_mono (l1 l2 : list bytes) :
  canonical_fields l1 -> canonical_fields l2 -> incl l1 l2 ->
  forall a b, In a l1 -> In b l1 -> field_id l1 a <= field_id l1 b -> field_id l2 a <= field_id l2 b.
Proof.
  intros (r1 & -> & Hs1 & Hn1) (r2 & -> & Hs2 & Hn2) Hincl a b Ha Hb.
  unfold field_id. cbn [index_of].
  destruct (beq a id_name) eqn:Ea; [cbn [opt_default]; lia |].
  assert (Hane : a <> id_name) by (intros ->; rewrite beq_refl in Ea; discriminate).
  assert (Ha1 : In a r1) by (destruct Ha as [<- | Ha]; [congruence | exact Ha]).
  assert (Ha2 : In a r2).
  { specialize (Hincl a Ha). destruct Hincl as [<- | H]; [congruence | exact H]. }
  destruct (index_of_In a r1 (0 + 1) Ha1) as [ja Hja]. destruct (index_of_In a r2 (0 + 1) Ha2) as [ja' Hja'].
  rewrite Hja, Hja'. pose proof (index_of_ge _ _ _ _ Hja) as Hge.
  destruct (beq b id_name) eqn:Eb; [cbn [opt_default]; lia |].
  assert (Hbne : b <> id_name) by (intros ->; rewrite beq_refl in Eb; discriminate).
  assert (Hb1 : In b r1) by (destruct Hb as [<- | Hb]; [congruence | exact Hb]).
  assert (Hb2 : In b r2).
  { specialize (Hincl b Hb). destruct Hincl as [<- | H]; [congruence | exact H]. }
  destruct (index_of_In b r1 (0 + 1) Hb1) as [jb Hjb]. destruct (index_of_In b r2 (0 + 1) Hb2) as [jb' Hjb'].
  rewrite Hjb, Hjb'. cbn [opt_default]. intros Hle.
  apply (sorted_index_le r2 Hs2 _ a b ja' jb' Hja' Hjb').
  apply (sorted_index_le r1 Hs1 _ a b ja jb Hja Hjb). exact Hle.
Qed.

Definition sorted_fids (S : SVals) : Prop := StronglySorted (fun p q => fst p <= fst q) S.

Lemma sorted_fids_mono (l1 l2 : list bytes) (ps : list (bytes * bytes)) :
  (forall a b, In a l1 -> In b l1 -> field_id l1 a <= field_id l1 b -> field_id l2 a <= field_id l2 b) ->
  Forall (fun p => In (fst p) l1) ps ->
  sorted_fids (map (ren l1) ps) -> sorted_fids (map (ren l2) ps).
Proof.
  intros Hmono Hin. unfold sorted_fids.
  induction Hin as [| p ps Hp Hin IH]; intros Hs; cbn [map] in *; [constructor |].
  apply StronglySorted_inv in Hs. destruct Hs as [Hs Hall].
  constructor; [apply IH, Hs |].
  rewrite Forall_map in Hall |- *. rewrite Forall_forall in Hall, Hin |- *.
  intros q Hq. unfold ren in *. cbn [fst] in *. apply Hmono; auto.
Qed.

(* ================================================================== *)
(* 10. regrouping values by field id                                   *)
(* ================================================================== *)
Lemma filter_none {A} (f : A -> bool) (l : list A) :
  (forall x, In x l -> f x = false) -> filter f l = [].
Proof.
  induction l as [| x l IH]; intros H; cbn [filter]; [reflexivity |].
  rewrite (H x) by (left; reflexivity). apply IH. intros y Hy. apply H. right. exact Hy.
Qed.

Lemma regroup_sorted (S : SVals) : sorted_fids S -> forall k lo,
  Forall (fun p => lo <= fst p < lo + N.of_nat k) S ->
  flat_map' (fun i => filter (fun p => fst p =? i) S) (fid_range k lo) = S.
Proof.
  intros Hs. induction Hs as [| p ps Hs IH Hall]; intros k lo Hb.
  - apply flat_map'_nil_all. reflexivity.
  - rewrite Forall_forall in Hall.
    inversion Hb as [| p' ps' Hp Hps]; subst p' ps'. rewrite Forall_forall in Hps.
    revert lo Hb Hp Hps. induction k as [| k IHk]; intros lo Hb Hp Hps; [lia |].
    cbn [fid_range flat_map'].
    destruct (N.eq_dec (fst p) lo) as [E | E].
    + cbn [filter]. replace (fst p =? lo) with true by lia. cbn [app]. f_equal.
      rewrite (flat_map'_ext_in _ (fun i => filter (fun q => fst q =? i) ps)).
      2:{ intros i Hi. apply fid_range_In in Hi. cbn [filter].
          replace (fst p =? i) with false by lia. reflexivity. }
      pose proof (IH (S k) lo) as E'. cbn [fid_range flat_map'] in E'. apply E'.
      apply Forall_forall. intros q Hq. specialize (Hall q Hq). specialize (Hps q Hq). lia.
    + replace (filter (fun q => fst q =? lo) (p :: ps)) with (@nil (N * bytes)).
      2:{ symmetry. cbn [filter]. replace (fst p =? lo) with false by lia.
          apply filter_none. intros q Hq. specialize (Hall q Hq). lia. }
      cbn [app]. apply IHk.
      * constructor; [lia |]. apply Forall_forall. intros q Hq.
        specialize (Hall q Hq). specialize (Hps q Hq). lia.
      * lia.
      * intros q Hq. specialize (Hall q Hq). specialize (Hps q Hq). lia.
Qed.

(* ================================================================== *)
(* 11. the re-encode path                                              *)
(* ================================================================== *)
Lemma set_nth_length {A} (x : A) : forall l n, length (set_nth n x l) = length l.
Proof.
  induction l as [| y l IH]; intros n; destruct n; cbn [set_nth length]; try reflexivity.
  now rewrite IH.
Qed.

Lemma nth_set_nth {A} (d x : A) : forall l n i, (n < length l)%nat ->
  nth i (set_nth n x l) d = if Nat.eqb i n then x else nth i l d.
Proof.
  induction l as [| y l IH]; intros n i H; cbn [length] in H; [lia |].
  destruct n as [| n]; destruct i as [| i]; cbn [set_nth nth Nat.eqb]; try reflexivity.
  apply IH. lia.
Qed.

Lemma nth_repeat_nil {A} (n i : nat) : nth i (repeat (@nil A) n) [] = [].
Proof.
  revert i. induction n as [| n IH]; intros i; destruct i; cbn [repeat nth]; try reflexivity. apply IH.
Qed.

(* vals[fieldID] after the visitor calls: the values of that merged id, in order *)
Lemma bucket_vals_ok (M : list bytes) (ps : list (bytes * bytes)) : forall vals0,
  length vals0 = length M -> Forall (fun p => In (fst p) M) ps ->
  exists vals, bucket_vals M ps vals0 = Ok vals /\ length vals = length M /\
    forall i, nth i vals [] = nth i vals0 [] ++ map snd (filter (fun q => fst q =? N.of_nat i) (map (ren M) ps)).
Proof.
  induction ps as [| [name v] ps IH]; intros vals0 Hlen Hin.
  - exists vals0. split; [reflexivity |]. split; [exact Hlen |]. intros i. cbn [map filter]. now rewrite app_nil_r.
  - inversion Hin as [| p' ps' Hname Hin']; subst p' ps'. cbn [fst] in Hname.
    cbn [bucket_vals]. rewrite (field_id_index M name Hname).
    pose proof (field_id_lt M name Hname) as Hlt.
    replace (field_id M name <? lenN vals0) with true by (unfold lenN; lia).
    set (fid := N.to_nat (field_id M name)) in *.
    destruct (IH (set_nth fid (nth fid vals0 [] ++ [v]) vals0)) as (vals & Hb & Hl & Hnth).
    { now rewrite set_nth_length. }
    { exact Hin'. }
    exists vals. split; [exact Hb |]. split; [exact Hl |]. intros i.
    rewrite Hnth, nth_set_nth by lia. cbn [map filter]. unfold ren at 2. cbn [fst snd].
    destruct (Nat.eqb_spec i fid) as [-> | Hne].
    + replace (field_id M name =? N.of_nat fid) with true by (unfold fid; lia).
      cbn [map snd]. now rewrite <- app_assoc.
    + replace (field_id M name =? N.of_nat i) with false by (unfold fid in Hne; lia).
      reflexivity.
Qed.

Lemma pair_snd_filter (S : SVals) (i : N) :
  map (pair i) (map snd (filter (fun q => fst q =? i) S)) = filter (fun q => fst q =? i) S.
Proof.
  induction S as [| [j v] S IH]; cbn [filter fst]; [reflexivity |].
  destruct (N.eqb_spec j i) as [-> | Hne]; cbn [map snd]; [now rewrite IH | exact IH].
Qed.

(* the meta and data bytes the re-encode path builds for one visited document *)
Lemma reencode_doc_record (M : list bytes) (ps : list (bytes * bytes)) :
  Forall (fun p => In (fst p) M) ps -> sorted_fids (map (ren M) ps) ->
  exists vals curr, bucket_vals M ps (repeat [] (length M)) = Ok vals /\
    encode_all_fields (length M) 0 vals 0 [] []
    = (curr, stored_meta 0 (map (ren M) ps), stored_data (map (ren M) ps)).
Proof.
  intros Hin Hs.
  destruct (bucket_vals_ok M ps (repeat [] (length M)) (repeat_length _ _) Hin) as (vals & Hb & Hl & Hnth).
  exists vals. eexists. split; [exact Hb |].
  rewrite encode_all_fields_eq. unfold enc_result. cbn [app].
  assert (HG : group_svals (fun i => nth (N.to_nat i) vals []) (length M) 0 = map (ren M) ps).
  { unfold group_svals.
    rewrite (flat_map'_ext_in _ (fun i => filter (fun q => fst q =? i) (map (ren M) ps))).
    - apply regroup_sorted; [exact Hs |].
      apply Forall_map. apply Forall_forall. intros p Hp. rewrite Forall_forall in Hin.
      pose proof (field_id_lt M (fst p) (Hin p Hp)). unfold ren. cbn [fst]. lia.
    - intros i _. rewrite Hnth, nth_repeat_nil. cbn [app]. rewrite N2Nat.id. apply pair_snd_filter. }
  rewrite HG. reflexivity.
Qed.

(* ---- well-formed stored segments ---- *)
Definition wf_doc (fields : list bytes) (d : ADoc) : Prop :=
  Forall (fun p => In (fst p) fields) (ad_stored d) /\   (* stored names are fields of the segment *)
  sorted_fids (svals_of fields d) /\                      (* field-list order *)
  wf_svals (length fields) (svals_of fields d).           (* every encoded quantity fits uint64 *)

Definition wf_seg (A : ASeg) : Prop :=
  canonical_fields (as_fields A) /\ Forall (wf_doc (as_fields A)) (as_docs A).

Definition seg_docs (A : ASeg) : list SVals := map (svals_of (as_fields A)) (as_docs A).

(* the segment as the merger finds it: its layout, field list and drops *)
Definition seg_input (p : ASeg * list N) : StoredInput :=
  stored_input_of (as_fields (fst p)) (seg_docs (fst p)) (snd p).

Lemma wf_seg_svals (A : ASeg) : wf_seg A -> Forall (wf_svals (length (as_fields A))) (seg_docs A).
Proof.
  intros [_ H]. unfold seg_docs. apply Forall_map. eapply Forall_impl; [| exact H].
  intros d (_ & _ & Hw). exact Hw.
Qed.

Lemma wf_seg_sizes (A : ASeg) : wf_seg A -> Forall rec_sizes_ok (seg_docs A).
Proof.
  intros H. eapply Forall_impl; [| apply wf_seg_svals, H].
  intros d (_ & Hd & Hm). split; assumption.
Qed.

Lemma skipn_nth_error {A} (l : list A) : forall n x, nth_error l n = Some x -> skipn n l = x :: skipn (S n) l.
Proof.
  induction l as [| y l IH]; intros n x H; destruct n; cbn [nth_error] in H; try discriminate.
  - injection H as ->. reflexivity.
  - cbn [skipn]. rewrite (IH n x H). reflexivity.
Qed.

(* (c) the re-encode path emits, for the surviving documents in order, the
   records of their stored values under the merged field ids *)
Lemma reencode_docs_ok (A : ASeg) (dr : list N) (M : list bytes) :
  wf_seg A -> canonical_fields M -> incl (as_fields A) M ->
  forall k docNum st, (N.to_nat docNum + k = length (as_docs A))%nat ->
    reencode_docs k docNum (seg_input (A, dr)) M st
    = emit_docs (map (svals_of M) (keep dr docNum (skipn (N.to_nat docNum) (as_docs A)))) st.
Proof.
  intros HA HM Hincl. induction k as [| k IH]; intros docNum st Hk.
  - rewrite skipn_all2 by lia. reflexivity.
  - destruct (nth_error (as_docs A) (N.to_nat docNum)) as [d |] eqn:Hd.
    2:{ apply nth_error_None in Hd. lia. }
    rewrite (skipn_nth_error _ _ _ Hd), keep_cons.
    replace (S (N.to_nat docNum)) with (N.to_nat (docNum + 1)) by lia.
    cbn [reencode_docs]. unfold seg_input at 1. cbn [fst snd stored_input_of si_drops].
    destruct (memN docNum dr) eqn:Hdrop.
    + apply IH. lia.
    + destruct st as [[n offs] c].
      destruct HA as [HcanA HdocsA].
      assert (Hwd : wf_doc (as_fields A) d).
      { rewrite Forall_forall in HdocsA. apply HdocsA. eapply nth_error_In, Hd. }
      destruct Hwd as (Hnames & Hsorted & Hwf).
      (* visitDocument returns the stored (name, value) pairs of the document *)
      replace docNum with (N.of_nat (N.to_nat docNum)) at 1 by lia.
      unfold seg_input. cbn [fst snd].
      rewrite (visit_doc_ok (as_fields A) (seg_docs A) dr (N.to_nat docNum) (svals_of (as_fields A) d)).
      2:{ apply wf_seg_svals. split; assumption. }
      2:{ unfold seg_docs. now rewrite nth_error_map, Hd. }
      cbn [rbind]. rewrite svals_of_ren, (resolve_svals _ _ Hnames).
      (* bucket and encode *)
      assert (HnamesM : Forall (fun p => In (fst p) M) (ad_stored d)).
      { eapply Forall_impl; [| exact Hnames]. intros p Hp. apply Hincl, Hp. }
      assert (HsortedM : sorted_fids (map (ren M) (ad_stored d))).
      { apply (sorted_fids_mono (as_fields A) M); [| exact Hnames | exact Hsorted].
        apply canonical_index_mono; assumption. }
      destruct (reencode_doc_record M (ad_stored d) HnamesM HsortedM) as (vals & curr & Hb & He).
      rewrite Hb. cbn [rbind]. rewrite He.
      cbn [map emit_docs]. rewrite (svals_of_ren M d).
      destruct (arr_set n (dc_size c) offs); cbn [rbind]; try reflexivity.
      fold (seg_input (A, dr)). apply IH. lia.
Qed.

Lemma seg_offsets_length (A : ASeg) (dr : list N) :
  length (si_offsets (seg_input (A, dr))) = length (as_docs A).
Proof.
  unfold seg_input, stored_input_of. cbn [si_offsets fst].
  rewrite layout_offsets_length. unfold seg_docs. apply map_length.
Qed.

Theorem reencode_correct (A : ASeg) (dr : list N) (M : list bytes) (st : MergeSt) :
  wf_seg A -> canonical_fields M -> incl (as_fields A) M ->
  merge_reencode (seg_input (A, dr)) M st = emit_docs (map (svals_of M) (survivors A dr)) st.
Proof.
  intros HA HM Hincl. unfold merge_reencode. rewrite seg_offsets_length.
  rewrite (reencode_docs_ok A dr M HA HM Hincl) by (cbn; lia).
  cbn [N.to_nat skipn]. rewrite survivors_keep. reflexivity.
Qed.

(* the buffer grows by exactly stored_record of each emitted document *)
Lemma emit_doc_appends_record (d : SVals) (c : docCoder) :
  dc_add (stored_meta 0 d) (stored_data d) c
  = dc_new_line (mkDC (dc_buf c ++ stored_record d) (dc_n c) (dc_blocks c)).
Proof. apply dc_add_record. Qed.

(* (d) same field list, nothing dropped: the byte-copy path emits exactly what
   the re-encode path would *)
Theorem copy_correct (A : ASeg) (n : N) (offs : list N) (c : docCoder) :
  wf_seg A ->
  copy_stored_docs (seg_input (A, [])) n offs c
  = (do st1 <- merge_reencode (seg_input (A, [])) (as_fields A) (n, offs, c);
     let '(_, offs1, c1) := st1 in Ok (offs1, c1)).
Proof.
  intros HA. rewrite (reencode_correct A [] (as_fields A) _ HA (proj1 HA) (incl_refl _)).
  rewrite survivors_nil_drops.
  apply (copy_stored_docs_ok (as_fields A) (seg_docs A) n offs c (wf_seg_sizes A HA)).
Qed.

(* ================================================================== *)
(* 12. mergeFields' `same`, and the whole stored section of a merge    *)
(* ================================================================== *)
Definition same_chk (seg0 : list bytes) (L : N) (p : N * bytes) : bool :=
  if negb (lenN seg0 =? L) then false
  else match nthN seg0 (N.to_nat (fst p)) with
       | Some f0 => beq f0 (snd p)
       | None => false
       end.

Lemma same_chk_prefix (seg0 : list bytes) (L : N) (fs : list bytes) : forall i0,
  forallb (same_chk seg0 L) (number_from i0 fs) = true ->
  firstn (length fs) (skipn (N.to_nat i0) seg0) = fs /\ (fs <> [] -> lenN seg0 = L).
Proof.
  induction fs as [| f fs IH]; intros i0 H.
  - split; [reflexivity | congruence].
  - cbn [number_from forallb] in H. apply andb_true_iff in H. destruct H as [H1 H2].
    unfold same_chk in H1. cbn [fst snd] in H1.
    destruct (N.eqb_spec (lenN seg0) L) as [HL | HL]; cbn [negb] in H1; [| discriminate].
    rewrite nthN_nth_error in H1.
    destruct (nth_error seg0 (N.to_nat i0)) as [f0 |] eqn:Hn; [| discriminate].
    apply beq_eq in H1. subst f0.
    destruct (IH (i0 + 1) H2) as [IH1 _].
    split; [| intros _; exact HL].
    rewrite (skipn_nth_error _ _ _ Hn). cbn [length firstn]. f_equal.
    replace (S (N.to_nat i0)) with (N.to_nat (i0 + 1)) by lia. exact IH1.
Qed.

(* `same` holds only if every (non-empty) field list is that of segment 0 *)
Lemma fields_same_eq (f0 : list bytes) (fls : list (list bytes)) (fs : list bytes) :
  fields_same (f0 :: fls) = true -> In fs (f0 :: fls) -> fs <> [] -> fs = f0.
Proof.
  intros H Hin Hne. unfold fields_same in H.
  rewrite forallb_forall in H. specialize (H fs Hin).
  change (forallb (same_chk f0 (lenN fs)) (number_from 0 fs) = true) in H.
  destruct (same_chk_prefix f0 (lenN fs) fs 0 H) as [H1 H2]. specialize (H2 Hne).
  cbn [N.to_nat skipn] in H1.
  assert (E : firstn (length fs) f0 = f0) by (apply firstn_all2; unfold lenN in H2; lia).
  congruence.
Qed.

Lemma canonical_nonempty (l : list bytes) : canonical_fields l -> l <> [].
Proof. intros (r & -> & _). discriminate. Qed.

(* when `same` holds the merged field list is the common field list *)
Lemma fields_same_merged (ins : list (ASeg * list N)) (A : ASeg) (dr : list N) :
  Forall (fun p => canonical_fields (as_fields (fst p))) ins ->
  fields_same (map (fun p => as_fields (fst p)) ins) = true ->
  In (A, dr) ins -> as_fields A = field_list (all_fields ins).
Proof.
  intros Hcan Hsame Hin.
  destruct ins as [| [A0 dr0] ins]; [destruct Hin |].
  cbn [map fst] in Hsame.
  assert (Hall : forall p, In p ((A0, dr0) :: ins) -> as_fields (fst p) = as_fields A0).
  { intros p Hp. apply (fields_same_eq _ _ _ Hsame).
    - change (as_fields A0 :: map (fun p => as_fields (fst p)) ins)
        with (map (fun p => as_fields (fst p)) ((A0, dr0) :: ins)).
      apply (in_map (fun p => as_fields (fst p))), Hp.
    - rewrite Forall_forall in Hcan. apply canonical_nonempty, Hcan, Hp. }
  pose proof (Hall _ Hin) as HA. cbn [fst] in HA. rewrite HA.
  rewrite Forall_forall in Hcan. pose proof (Hcan (A0, dr0) (or_introl eq_refl)) as Hc0. cbn [fst] in Hc0.
  rewrite <- (field_list_fix _ Hc0) at 1. apply field_list_ext. intros x.
  unfold all_fields. rewrite In_flat_map'. split.
  - intros Hx. exists (A0, dr0). split; [left; reflexivity | exact Hx].
  - intros (p & Hp & Hx). rewrite (Hall p Hp) in Hx. exact Hx.
Qed.

Definition input_ok (same : bool) (M : list bytes) (p : ASeg * list N) : Prop :=
  wf_seg (fst p) /\ incl (as_fields (fst p)) M /\ (same = true -> as_fields (fst p) = M).

(* whichever path each input takes, the loop over the inputs emits the
   surviving documents in (segment, document) order under the merged ids *)
Lemma merge_inputs_ok (same : bool) (M : list bytes) (ins : list (ASeg * list N)) :
  canonical_fields M -> Forall (input_ok same M) ins ->
  forall st, merge_inputs (map seg_input ins) same M st
             = emit_docs (map (svals_of M) (all_survivors ins)) st.
Proof.
  intros HM Hins. induction Hins as [| [A dr] ins (HA & Hincl & Hsame) Hins IH]; intros [[n offs] c].
  - reflexivity.
  - cbn [fst] in HA, Hincl, Hsame.
    rewrite all_survivors_cons, map_app, emit_docs_app.
    cbn [map merge_inputs].
    replace (si_drops (seg_input (A, dr))) with dr by reflexivity.
    destruct (same && match dr with [] => true | _ :: _ => false end) eqn:Hpath.
    + (* the byte-copy path *)
      apply andb_true_iff in Hpath. destruct Hpath as [-> Hdr]. destruct dr; [| discriminate].
      specialize (Hsame eq_refl).
      unfold seg_input at 1. cbn [fst snd].
      rewrite (copy_stored_docs_ok _ _ n offs c (wf_seg_sizes A HA)).
      rewrite survivors_nil_drops. rewrite <- Hsame. fold (seg_docs A).
      destruct (emit_docs (seg_docs A) (n, offs, c)) as [[[n' offs'] c'] | | | |] eqn:E;
        cbn [rbind]; try reflexivity.
      apply emit_docs_num in E. subst n'.
      replace (lenN (si_offsets (seg_input (A, [])))) with (lenN (seg_docs A)).
      2:{ unfold lenN. rewrite seg_offsets_length. unfold seg_docs. now rewrite map_length. }
      rewrite Hsame. apply IH.
    + (* the re-encode path *)
      rewrite (reencode_correct A dr M _ HA HM Hincl).
      destruct (emit_docs (map (svals_of M) (survivors A dr)) (n, offs, c)); cbn [rbind]; try reflexivity.
      apply IH.
Qed.

Lemma seg_input_fields (ins : list (ASeg * list N)) :
  map si_fields (map seg_input ins) = map (fun p => as_fields (fst p)) ins.
Proof. rewrite map_map. reflexivity. Qed.

Lemma merged_fields_spec (ins : list (ASeg * list N)) :
  merged_fields (map (fun p => as_fields (fst p)) ins) = as_fields (fst (merge_spec ins)).
Proof. unfold merged_fields. rewrite flat_map'_map, merge_fields. reflexivity. Qed.

(* (e) the stored section written by a merge is the layout of the merged
   abstract segment; no Panic, no Err *)
Theorem merge_stored_correct (ins : list (ASeg * list N)) :
  Forall (fun p => wf_seg (fst p)) ins ->
  let Mg := fst (merge_spec ins) in
  merge_stored (map seg_input ins) (o_count Mg) = Ok (layout_of (seg_docs Mg)).
Proof.
  intros Hwf Mg. unfold merge_stored.
  rewrite seg_input_fields, merged_fields_spec. fold Mg.
  set (same := fields_same (map (fun p => as_fields (fst p)) ins)).
  assert (HM : canonical_fields (as_fields Mg)).
  { unfold Mg. rewrite merge_fields. apply field_list_canonical. }
  assert (Hins : Forall (input_ok same (as_fields Mg)) ins).
  { apply Forall_forall. intros [A dr] Hp. rewrite Forall_forall in Hwf.
    pose proof (Hwf _ Hp) as HA. cbn [fst] in HA. split; [exact HA |]. split.
    - intros x Hx. unfold Mg. apply merge_fields_In. right. exists A, dr. split; assumption.
    - intros Hs. cbn [fst]. unfold Mg. rewrite merge_fields.
      apply (fields_same_merged ins A dr); [| exact Hs | exact Hp].
      apply Forall_forall. intros q Hq. apply (Hwf q Hq). }
  rewrite (merge_inputs_ok same (as_fields Mg) ins HM Hins).
  assert (Hdocs : as_docs Mg = all_survivors ins) by reflexivity.
  unfold seg_docs, o_count. rewrite Hdocs.
  set (ds := map (svals_of (as_fields Mg)) (all_survivors ins)).
  replace (N.to_nat (lenN (all_survivors ins))) with (length ds).
  2:{ unfold ds. rewrite map_length. unfold lenN. lia. }
  destruct (emit_docs_layout ds) as (c & He & Hb). rewrite He. cbn [rbind].
  rewrite Hb. destruct (layout_of ds). reflexivity.
Qed.

Corollary merge_stored_layout (ins : list (ASeg * list N)) :
  Forall (fun p => wf_seg (fst p)) ins ->
  merge_stored (map seg_input ins) (o_count (fst (merge_spec ins)))
  = Ok (stored_layout (fst (merge_spec ins))).
Proof. intros H. rewrite layout_of_stored_layout. apply (merge_stored_correct ins H). Qed.

(* ================================================================== *)
(* 14. the hypotheses are met by built and by merged segments          *)
(* ================================================================== *)
Lemma StronglySorted_app {A} (R : A -> A -> Prop) (l1 l2 : list A) :
  StronglySorted R l1 -> StronglySorted R l2 ->
  (forall x y, In x l1 -> In y l2 -> R x y) -> StronglySorted R (l1 ++ l2).
Proof.
  intros H1 H2 H. induction H1 as [| x l1 H1 IH Hall]; cbn [app]; [exact H2 |].
  constructor.
  - apply IH. intros a b Ha Hb. apply H; [right; exact Ha | exact Hb].
  - apply Forall_app. split; [exact Hall |].
    apply Forall_forall. intros y Hy. apply H; [left; reflexivity | exact Hy].
Qed.

Lemma group_svals_fst (f : N -> list bytes) (k : nat) (lo : N) (p : N * bytes) :
  In p (group_svals f k lo) -> lo <= fst p < lo + N.of_nat k.
Proof.
  unfold group_svals. rewrite In_flat_map'. intros (i & Hi & Hp).
  apply fid_range_In in Hi. apply in_map_iff in Hp. destruct Hp as (v & <- & _). exact Hi.
Qed.

(* values grouped by ascending field id are in field-list order *)
Lemma group_svals_sorted (f : N -> list bytes) (k : nat) : forall lo, sorted_fids (group_svals f k lo).
Proof.
  induction k as [| k IH]; intros lo; [constructor |].
  unfold group_svals. cbn [fid_range flat_map']. fold (group_svals f k (lo + 1)).
  apply StronglySorted_app.
  - induction (f lo) as [| v vs IHv]; cbn [map]; constructor; [exact IHv |].
    apply Forall_map, Forall_forall. intros w _. cbn [fst]. lia.
  - apply IH.
  - intros x y Hx Hy. apply in_map_iff in Hx. destruct Hx as (v & <- & _).
    apply group_svals_fst in Hy. cbn [fst]. lia.
Qed.

Lemma wf_doc_intro (fields : list bytes) (d : ADoc) :
  Forall (fun p => In (fst p) fields) (ad_stored d) -> sorted_fids (svals_of fields d) ->
  lenN fields <= two64 -> rec_sizes_ok (svals_of fields d) -> wf_doc fields d.
Proof.
  intros Hn Hs Hl [Hm Hd]. split; [exact Hn |]. split; [exact Hs |].
  split; [| split; assumption].
  rewrite svals_of_ren. apply Forall_map. eapply Forall_impl; [| exact Hn].
  intros p Hp. unfold ren. cbn [fst]. pose proof (field_id_lt fields (fst p) Hp). unfold lenN in Hl. lia.
Qed.

(* the abstract segment of a batch is well formed (given the size bounds) *)
Theorem abs_of_batch_wf (norm : bytes -> N -> N) (b : Batch) :
  let fields := field_list (batch_field_names b) in
  lenN fields <= two64 ->
  (forall d, In d b -> rec_sizes_ok (svals_of fields (abs_doc norm b fields d))) ->
  wf_seg (abs_of_batch norm b).
Proof.
  intros fields Hl Hsz. split; [apply field_list_canonical |].
  cbn [abs_of_batch as_docs as_fields]. fold fields.
  apply Forall_map, Forall_forall. intros d Hd.
  apply wf_doc_intro; [| | exact Hl | apply Hsz, Hd].
  - cbn [abs_doc ad_stored]. unfold abs_stored. apply Forall_forall. intros p Hp.
    apply In_flat_map' in Hp. destruct Hp as (fname & Hf & Hp).
    apply in_map_iff in Hp. destruct Hp as (f & <- & _). exact Hf.
  - pose proof (builder_doc_svals norm b d Hd) as E. cbv zeta in E. fold fields in E.
    rewrite <- E. apply group_svals_sorted.
Qed.

Lemma keep_In {A} (dr : list N) (l : list A) : forall i x, In x (keep dr i l) -> In x l.
Proof.
  induction l as [| y l IH]; intros i x H; [exact H |].
  rewrite keep_cons in H. destruct (memN i dr).
  - right. eapply IH, H.
  - destruct H as [<- | H]; [left; reflexivity | right; eapply IH, H].
Qed.

(* and so is the result of a merge of well-formed segments *)
Theorem merge_spec_wf (ins : list (ASeg * list N)) :
  Forall (fun p => wf_seg (fst p)) ins ->
  let Mg := fst (merge_spec ins) in
  lenN (as_fields Mg) <= two64 ->
  (forall d, In d (as_docs Mg) -> rec_sizes_ok (svals_of (as_fields Mg) d)) ->
  wf_seg Mg.
Proof.
  intros Hwf Mg Hl Hsz.
  assert (HM : canonical_fields (as_fields Mg)).
  { unfold Mg. rewrite merge_fields. apply field_list_canonical. }
  split; [exact HM |]. apply Forall_forall. intros d Hd.
  pose proof Hd as Hd'. unfold Mg in Hd'. rewrite merge_docs in Hd'.
  apply In_flat_map' in Hd'. destruct Hd' as ([A dr] & Hp & Hs). cbn [fst snd] in Hs.
  rewrite survivors_keep in Hs. apply keep_In in Hs.
  rewrite Forall_forall in Hwf. destruct (Hwf _ Hp) as [HcA HdA]. cbn [fst] in HcA, HdA.
  rewrite Forall_forall in HdA. destruct (HdA d Hs) as (Hn & Hsorted & _).
  assert (Hincl : incl (as_fields A) (as_fields Mg)).
  { intros x Hx. unfold Mg. apply merge_fields_In. right. exists A, dr. split; assumption. }
  apply wf_doc_intro; [| | exact Hl | apply Hsz, Hd].
  - eapply Forall_impl; [| exact Hn]. intros p Hq. apply Hincl, Hq.
  - rewrite svals_of_ren. apply (sorted_fids_mono (as_fields A) (as_fields Mg)); [| exact Hn | exact Hsorted].
    apply canonical_index_mono; assumption.
Qed.

(* end to end: segments written by the builder, then merged *)
Corollary build_then_merge (norm : bytes -> N -> N) (bs : list (Batch * list N)) :
  let ins := map (fun p => (abs_of_batch norm (fst p), snd p)) bs in
  Forall (fun p => wf_seg (fst p)) ins ->
  (* each input is stored exactly as the builder wrote it ... *)
  Forall (fun p : Batch * list N =>
            let fields := field_list (batch_field_names (fst p)) in
            (si_blocks (seg_input (abs_of_batch norm (fst p), snd p)),
             si_offsets (seg_input (abs_of_batch norm (fst p), snd p)))
            = build_stored_batch fields (fst p)) bs /\
  (* ... and the merger writes the layout of the merged segment *)
  merge_stored (map seg_input ins) (o_count (fst (merge_spec ins)))
  = Ok (stored_layout (fst (merge_spec ins))).
Proof.
  intros ins Hwf. split; [| apply merge_stored_layout, Hwf].
  apply Forall_forall. intros [b dr] _. cbn [fst snd]. cbv zeta.
  rewrite (build_stored_correct norm b).
  unfold seg_input, stored_input_of, seg_docs. cbn [fst snd si_blocks si_offsets].
  destruct (layout_of _). reflexivity.
Qed.

(* ================================================================== *)
(* 13. examples                                                        *)
(* ================================================================== *)
Definition ex_field (n : bytes) (st : bool) (v : bytes) : Field := mkField n 1 st false v [].

(* three documents over the fields _id, "a", "b": the first stores two values
   in "b" (around one in "a", given out of field order), the second stores
   nothing (a 2-byte record), the third stores an empty value *)
Definition ex_batch : Batch :=
  [ [ex_field id_name true [49]; ex_field [98] true [7; 8]; ex_field [97] true [1]; ex_field [98] true [9]];
    [ex_field id_name false [50]; ex_field [97] false [3]];
    [ex_field id_name true [51]; ex_field [97] true []] ].

Example build_stored_example :
  let fields := field_list (batch_field_names ex_batch) in
  fields = [id_name; [97]; [98]] /\
  map (doc_stored_fields fields) ex_batch
    = [ [(0, [[49]]); (2, [[7; 8]; [9]]); (1, [[1]])]; []; [(0, [[51]]); (1, [[]])] ] /\
  build_stored_batch fields ex_batch
    = ([ (* doc 0: meta 12 bytes, data 5 bytes: (0,0,1) (1,1,1) (2,2,2) (2,4,1) | 49 1 7 8 9 *)
         [12; 5; 0; 0; 1; 1; 1; 1; 2; 2; 2; 2; 4; 1; 49; 1; 7; 8; 9]
         (* doc 1: no stored field *)
         ++ [0; 0]
         (* doc 2: meta 6 bytes, data 1 byte: (0,0,1) (1,1,0) | 51 *)
         ++ [6; 1; 0; 0; 1; 1; 1; 0; 51] ],
       [0; 19; 21]) /\
  build_stored_batch fields ex_batch = stored_layout (abs_of_batch (fun _ x => x) ex_batch).
Proof. vm_compute. repeat split; reflexivity. Qed.

(* 100 + 100 tiny documents, identical field lists, no drops: both inputs take
   the byte-copy path; the first output block ends inside the second input's
   only source block *)
Definition ex_tiny (i : nat) : ADoc := mkADoc [] [(id_name, [N.of_nat i])].
Definition ex_tinyA : ASeg := mkASeg [id_name] (map ex_tiny (seq 0 100)) [].
Definition ex_tinyB : ASeg := mkASeg [id_name] (map ex_tiny (seq 100 100)) [].

Example merge_copy_example :
  let ins := [(ex_tinyA, []); (ex_tinyB, [])] in
  fields_same (map si_fields (map seg_input ins)) = true /\
  map (fun si => map lenN (si_blocks si)) (map seg_input ins) = [[600]; [600]] /\
  exists blocks offs,
    merge_stored (map seg_input ins) 200 = Ok (blocks, offs) /\
    map lenN blocks = [768; 432] /\ length offs = 200%nat /\
    (nth 127 offs 0, nth 128 offs 0, nth 129 offs 0) = (762, 0, 6) /\
    (blocks, offs) = stored_layout (fst (merge_spec ins)).
Proof.
  cbv zeta. split; [vm_compute; reflexivity |]. split; [vm_compute; reflexivity |].
  eexists. eexists. split; [vm_compute; reflexivity |].
  vm_compute. repeat split; reflexivity.
Qed.

(* a dropped document and differing field lists: both inputs are re-encoded,
   "y" moves from id 2 to id 3 and "x" from id 1 to id 2 *)
Definition ex_segA : ASeg :=
  mkASeg [id_name; [98]; [121]]
         [mkADoc [] [(id_name, [1]); ([98], [2]); ([121], [3]); ([121], [4])]; mkADoc [] []] [].
Definition ex_segB : ASeg :=
  mkASeg [id_name; [120]]
         [mkADoc [] [(id_name, [10]); ([120], [5; 5])];
          mkADoc [] [(id_name, [11]); ([120], [6; 6])];
          mkADoc [] [(id_name, [12]); ([120], [7; 7])]] [].

Example merge_reencode_example :
  let ins := [(ex_segA, []); (ex_segB, [1])] in
  fields_same (map si_fields (map seg_input ins)) = false /\
  merged_fields (map si_fields (map seg_input ins)) = [id_name; [98]; [120]; [121]] /\
  merge_stored (map seg_input ins) 4
    = Ok ([ [12; 4; 0; 0; 1; 1; 1; 1; 3; 2; 1; 3; 3; 1; 1; 2; 3; 4]
            ++ [0; 0]
            ++ [6; 3; 0; 0; 1; 2; 1; 2; 10; 5; 5]
            ++ [6; 3; 0; 0; 1; 2; 1; 2; 12; 7; 7] ],
          [0; 18; 20; 31]) /\
  merge_stored (map seg_input ins) 4 = Ok (stored_layout (fst (merge_spec ins))) /\
  (* docNumOffsets too short (a wrong computeNewDocCount) is an index panic *)
  merge_stored (map seg_input ins) 3 = Panic.
Proof. vm_compute. repeat split; reflexivity. Qed.

(* the byte-copy walk is independent of what the reused buffer holds beyond
   len(uncompressed): a 2-byte record at the very end, stale bytes after it *)
Example copy_block_stale_example :
  let g := [[(0, [7])]; []] in
  copy_block 8 (block_of g ++ [255; 255; 255]) (lenN (block_of g)) 0 (0, [0; 0], dc_new)
  = emit_docs g (0, [0; 0], dc_new).
Proof. vm_compute. reflexivity. Qed.

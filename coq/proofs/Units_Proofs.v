(* Units_Proofs.v - theorems about the script runners of theories/Units.v:
   what Reset does to the two chunk coders, seen at the level of the models and
   at the level of the transcripts of scripts.

   1. chunkedContentCoder: Reset brings every coder that descends from
      newChunkedContentCoder(cs, max) back to exactly the state the constructor
      returned (cc_reset_restores, cc_reuse_like_fresh).
   2. the same at the script level (run_contentcoder_reset).
   3. chunkedIntCoder: after Reset; SetChunkSize(cs, m) every coder is in the
      state newChunkedIntCoder(cs, m) returns (run_intcoder_reset_setChunkSize).
   4. enumerator: the transcript of the script Current; Next; Current; Next ...
      is the encoding of spec_triples (run_enum_script_spec). *)
From Coq Require Import List Arith NArith Bool Lia Sorting Permutation.
From Ice Require Import Base Varint Chunk DocValues IntCoder DvWriter StoredWriter Enumerator Units.
From IceProofs Require Import IntCoder_Proofs Enumerator_Proofs.
Import ListNotations.
Require Import ZifyBool ZifyN ZifyNat.

Open Scope N_scope.

(* ================================================================== *)
(* 1. chunkedContentCoder: Reset restores the fresh state               *)
(* ================================================================== *)

(* what never changes in the life of a content coder: the chunk size and the
   number of chunk slots *)
Definition cc_shape (cs : N) (n : nat) (c : Coder) : Prop :=
  cc_chunkSize c = cs /\ length (cc_chunkLens c) = n.

Lemma set_at_length {A} (x : A) : forall (l l' : list A) (i : nat),
  set_at i x l = Some l' -> length l' = length l.
Proof.
  induction l as [| y r IH]; intros l' i H.
  - destruct i; discriminate H.
  - destruct i as [| i'].
    + cbn [set_at] in H. injection H as <-. reflexivity.
    + cbn [set_at] in H. destruct (set_at i' x r) as [r' |] eqn:E; [| discriminate H].
      injection H as <-. cbn [length]. f_equal. apply (IH r' i'). exact E.
Qed.

Lemma end_offsets_length (lens : list N) : forall acc, length (end_offsets acc lens) = length lens.
Proof.
  induction lens as [| l r IH]; intros acc; cbn [end_offsets length]; [reflexivity |].
  f_equal. apply IH.
Qed.

Lemma map_const_repeat {A B} (b : B) (l : list A) : map (fun _ => b) l = repeat b (length l).
Proof.
  induction l as [| x r IH]; cbn [map length repeat]; [reflexivity |]. f_equal. exact IH.
Qed.

(* (a) the constructor *)
Lemma cc_new_shape (cs max : N) (c0 : Coder) :
  cc_new cs max = Ok c0 -> cc_shape cs (length (cc_chunkLens c0)) c0.
Proof.
  unfold cc_new. destruct (cs =? 0); [discriminate |]. intros H. injection H as <-.
  split; reflexivity.
Qed.

Lemma cc_new_eq (cs max : N) (c0 : Coder) :
  cc_new cs max = Ok c0 ->
  c0 = mkCoder cs 0 (repeat 0 (length (cc_chunkLens c0))) [] [] [].
Proof.
  unfold cc_new. destruct (cs =? 0); [discriminate |]. intros H. injection H as <-.
  cbn [cc_chunkLens]. rewrite repeat_length. reflexivity.
Qed.

(* (b) every operation keeps the shape *)
Lemma cc_flush_shape (cs : N) (n : nat) (c c' : Coder) :
  cc_shape cs n c -> cc_flush c = Ok c' -> cc_shape cs n c'.
Proof.
  intros [Hcs Hn]. unfold cc_flush.
  destruct (set_at (N.to_nat (cc_currChunk c)) 1 (cc_chunkLens c)) as [lens |] eqn:E; [| discriminate].
  intros H. injection H as <-. split; cbn [cc_chunkSize cc_chunkLens]; [exact Hcs |].
  rewrite (set_at_length _ _ _ _ E). exact Hn.
Qed.

Lemma cc_close_shape (cs : N) (n : nat) (c c' : Coder) :
  cc_shape cs n c -> cc_close c = Ok c' -> cc_shape cs n c'.
Proof. apply cc_flush_shape. Qed.

Lemma cc_add_shape (cs : N) (n : nat) (c c' : Coder) (d : N) (vals : bytes) :
  cc_shape cs n c -> cc_add c d vals = Ok c' -> cc_shape cs n c'.
Proof.
  intros Hs. unfold cc_add. destruct (cc_chunkSize c =? 0); [discriminate |].
  destruct (d / cc_chunkSize c =? cc_currChunk c).
  - cbn [rbind]. intros H. injection H as <-. exact Hs.
  - destruct (cc_flush c) as [c1 | | | |] eqn:E; cbn [rbind]; try discriminate.
    intros H. injection H as <-. destruct (cc_flush_shape cs n c c1 Hs E) as [H1 H2].
    split; cbn [cc_chunkSize cc_chunkLens]; assumption.
Qed.

Lemma cc_adds_shape (cs : N) (n : nat) (es : list (N * bytes)) : forall (c c' : Coder),
  cc_shape cs n c -> cc_adds c es = Ok c' -> cc_shape cs n c'.
Proof.
  induction es as [| [d b] r IH]; intros c c' Hs H.
  - cbn [cc_adds] in H. injection H as <-. exact Hs.
  - cbn [cc_adds] in H. destruct (cc_add c d b) as [c1 | | | |] eqn:E; cbn [rbind] in H; try discriminate H.
    apply (IH c1 c'); [| exact H]. exact (cc_add_shape cs n c c1 d b Hs E).
Qed.

Lemma cc_after_write_shape (cs : N) (n : nat) (c : Coder) :
  cc_shape cs n c -> cc_shape cs n (cc_after_write c).
Proof.
  intros [Hcs Hn]. split; unfold cc_after_write; cbn [cc_chunkSize cc_chunkLens]; [exact Hcs |].
  rewrite end_offsets_length. exact Hn.
Qed.

Lemma cc_reset_shape (cs : N) (n : nat) (c : Coder) :
  cc_shape cs n c -> cc_shape cs n (cc_reset c).
Proof.
  intros [Hcs Hn]. split; unfold cc_reset; cbn [cc_chunkSize cc_chunkLens]; [exact Hcs |].
  rewrite map_length. exact Hn.
Qed.

(* (c) Reset of any coder of the constructor's shape IS the constructor's result *)
Theorem cc_reset_restores (cs max : N) (c0 c : Coder) :
  cc_new cs max = Ok c0 -> cc_shape cs (length (cc_chunkLens c0)) c -> cc_reset c = c0.
Proof.
  intros Hnew [Hcs Hn]. rewrite (cc_new_eq cs max c0 Hnew).
  unfold cc_reset. rewrite Hcs, map_const_repeat, Hn. reflexivity.
Qed.
Print Assumptions cc_reset_restores.

(* the use new.go makes of one coder for several fields: new; Add...; Close;
   Write; Reset gives the coder new returned *)
Theorem cc_reuse_like_fresh (cs max : N) (c0 c1 c2 : Coder) (es : list (N * bytes)) :
  cc_new cs max = Ok c0 -> cc_adds c0 es = Ok c1 -> cc_close c1 = Ok c2 ->
  cc_reset (cc_after_write c2) = c0.
Proof.
  intros Hnew Hadds Hclose. apply (cc_reset_restores cs max); [exact Hnew |].
  apply cc_after_write_shape. apply (cc_close_shape _ _ c1 c2); [| exact Hclose].
  apply (cc_adds_shape _ _ es c0 c1); [| exact Hadds]. exact (cc_new_shape cs max c0 Hnew).
Qed.
Print Assumptions cc_reuse_like_fresh.

(* non-vacuity: a coder in the middle of its life (two chunks flushed, Write
   done - chunkLens holds end offsets -, a third chunk flushed by a further Add) is reset to the fresh one *)
Example cc_reset_restores_ex :
  exists c0 c : Coder,
    cc_new 2 7 = Ok c0 /\
    (do c1 <- cc_adds c0 [(0, [7]); (1, [8; 9]); (4, [10])];
     do c2 <- cc_close c1;
     cc_add (cc_after_write c2) 6 [11]) = Ok c /\
    cc_out c <> [] /\ cc_chunkLens c = [1; 1; 1; 2] /\
    cc_shape 2 (length (cc_chunkLens c0)) c /\
    cc_reset c = c0.
Proof.
  eexists. eexists. split; [vm_compute; reflexivity |].
  split; [vm_compute; reflexivity |].
  split; [vm_compute; discriminate |]. split; [reflexivity |]. split; [split; reflexivity |]. reflexivity.
Qed.

(* ================================================================== *)
(* 2. the same at the script level                                      *)
(* ================================================================== *)
Theorem run_contentcoder_reset (cs max : N) (c0 c : Coder) (ops : list cop) :
  cc_new cs max = Ok c0 -> cc_shape cs (length (cc_chunkLens c0)) c ->
  run_contentcoder (Some c) (CReset :: ops) = 0 :: run_contentcoder (Some c0) ops.
Proof.
  intros Hnew Hs. cbn [run_contentcoder]. rewrite (cc_reset_restores cs max c0 c Hnew Hs). reflexivity.
Qed.
Print Assumptions run_contentcoder_reset.

(* the shape is kept along a script, so the theorem applies at every Reset of a
   script that started with New *)
Lemma run_contentcoder_new (cs max : N) (c0 : Coder) (c : option Coder) (ops : list cop) :
  cc_new cs max = Ok c0 ->
  run_contentcoder c (CNew cs max :: ops) = 0 :: run_contentcoder (Some c0) ops.
Proof.
  intros Hnew. cbn [run_contentcoder]. rewrite Hnew. destruct c; reflexivity.
Qed.

(* a script without New, run from a coder of some shape, splits at a Reset:
   what follows the Reset does not depend on what came before it *)
Fixpoint no_new (ops : list cop) : Prop :=
  match ops with
  | [] => True
  | CNew _ _ :: _ => False
  | _ :: r => no_new r
  end.

Theorem run_contentcoder_reset_anywhere (cs max : N) (c0 : Coder) (pre post : list cop) :
  cc_new cs max = Ok c0 -> no_new pre ->
  forall c : Coder, cc_shape cs (length (cc_chunkLens c0)) c ->
  run_contentcoder (Some c) (pre ++ CReset :: post) =
  run_contentcoder (Some c) pre ++ 0 :: run_contentcoder (Some c0) post
  \/ run_contentcoder (Some c) (pre ++ CReset :: post) = run_contentcoder (Some c) pre.
Proof.
  intros Hnew. induction pre as [| o r IH]; intros Hnn c Hs.
  - left. cbn [app]. rewrite (run_contentcoder_reset cs max c0 c post Hnew Hs). reflexivity.
  - cbn [app]. destruct o as [a b | | a b | d vals meta data | |]; cbn [no_new] in Hnn.
    + contradiction.
    + cbn [run_contentcoder].
      destruct (IH Hnn (cc_reset c) (cc_reset_shape _ _ c Hs)) as [H | H]; rewrite H; [left | right]; reflexivity.
    + right. reflexivity.
    + cbn [run_contentcoder]. destruct (cc_add c d data) as [c1 | | | |] eqn:E; try (right; reflexivity).
      destruct (IH Hnn c1 (cc_add_shape _ _ c c1 d data Hs E)) as [H | H]; rewrite H; [left | right]; reflexivity.
    + cbn [run_contentcoder]. destruct (cc_close c) as [c1 | | | |] eqn:E; try (right; reflexivity).
      destruct (IH Hnn c1 (cc_close_shape _ _ c c1 Hs E)) as [H | H]; rewrite H; [left | right]; reflexivity.
    + cbn [run_contentcoder].
      destruct (IH Hnn (cc_after_write c) (cc_after_write_shape _ _ c Hs)) as [H | H]; rewrite H; [left | right].
      * rewrite app_comm_cons, app_assoc. reflexivity.
      * reflexivity.
Qed.
Print Assumptions run_contentcoder_reset_anywhere.

Example run_contentcoder_reset_ex :
  let ops := [CAdd 0 [] [] [7]; CAdd 3 [] [] [8]; CClose; CWrite] in
  run_contentcoder None (CNew 2 5 :: CAdd 1 [] [] [9; 9] :: CAdd 4 [] [] [1] :: CClose :: CWrite :: CReset :: ops)
  = run_contentcoder None [CNew 2 5; CAdd 1 [] [] [9; 9]; CAdd 4 [] [] [1]; CClose; CWrite]
    ++ 0 :: tl (run_contentcoder None (CNew 2 5 :: ops))
  /\ run_contentcoder None (CNew 2 5 :: ops) <> [9].
Proof. split; [vm_compute; reflexivity | vm_compute; discriminate]. Qed.

(* ================================================================== *)
(* 3. chunkedIntCoder: Reset; SetChunkSize gives the state of New       *)
(* ================================================================== *)
(* No hypothesis on c is needed, not even on the length of its chunkLens:
   Reset zeroes the whole list, and SetChunkSize either allocates `total`
   zeros (list shorter than total) or keeps the first `total` cells of a list
   of zeros.  No bound on m / cs + 1 is needed either, because SetChunkSize
   and the constructor compute the same (wrapped) total_chunks. *)
Theorem coder_reset_setChunkSize_new (c c' : coder) (cs m : N) :
  coder_new cs m = Ok c' -> coder_setChunkSize (coder_reset c) cs m = Ok c'.
Proof.
  intros Hnew. assert (Hcs : 0 < cs).
  { unfold coder_new in Hnew. destruct (N.eqb_spec cs 0) as [E | E]; [discriminate Hnew | lia]. }
  rewrite (setChunkSize_reset (coder_reset c) cs m (reset_is_reset c) Hcs).
  unfold coder_new in Hnew. destruct (N.eqb_spec cs 0) as [E | E]; [lia |]. exact Hnew.
Qed.
Print Assumptions coder_reset_setChunkSize_new.

Theorem run_intcoder_reset_setChunkSize (c c' : coder) (cs m : N) (ops : list cop) :
  coder_new cs m = Ok c' ->
  run_intcoder (Some c) (CReset :: CSetChunkSize cs m :: ops) = 0 :: 0 :: run_intcoder (Some c') ops.
Proof.
  intros Hnew. cbn [run_intcoder]. rewrite (coder_reset_setChunkSize_new c c' cs m Hnew). reflexivity.
Qed.
Print Assumptions run_intcoder_reset_setChunkSize.

(* the form with the state spelled out *)
Corollary run_intcoder_reset_setChunkSize_state (c : coder) (cs m : N) (ops : list cop) :
  0 < cs ->
  run_intcoder (Some c) (CReset :: CSetChunkSize cs m :: ops) =
  0 :: 0 :: run_intcoder
              (Some (IntCoder.mkCoder [] cs [] (repeat 0 (N.to_nat (total_chunks cs m))) 0)) ops.
Proof.
  intros Hcs. apply run_intcoder_reset_setChunkSize. unfold coder_new.
  destruct (N.eqb_spec cs 0) as [E | E]; [lia | reflexivity].
Qed.
Print Assumptions run_intcoder_reset_setChunkSize_state.

(* and for cs = 0 both sides panic *)
Lemma run_intcoder_reset_setChunkSize_zero (c : coder) (m : N) (ops : list cop) :
  run_intcoder (Some c) (CReset :: CSetChunkSize 0 m :: ops) = [0; 9] /\
  run_intcoder (Some c) (CNew 0 m :: ops) = [9].
Proof. split; reflexivity. Qed.

(* hence: Reset; SetChunkSize(cs, m) and New(cs, m) are interchangeable in a
   script, up to the one extra 0 of the transcript *)
Corollary run_intcoder_reset_setChunkSize_as_new (c : coder) (cs m : N) (ops : list cop) :
  0 < cs ->
  run_intcoder (Some c) (CReset :: CSetChunkSize cs m :: ops) =
  0 :: run_intcoder (Some c) (CNew cs m :: ops).
Proof.
  intros Hcs. rewrite (run_intcoder_reset_setChunkSize_state c cs m ops Hcs).
  cbn [run_intcoder]. unfold coder_new. destruct (N.eqb_spec cs 0) as [E | E]; [lia | reflexivity].
Qed.
Print Assumptions run_intcoder_reset_setChunkSize_as_new.

(* non-vacuity: a used coder with MORE chunk slots (5) than the new total (2),
   holding end offsets after a Write *)
Example run_intcoder_reset_setChunkSize_ex :
  let c := IntCoder.mkCoder [1; 2; 3] 5 [3] [1; 1; 3; 3; 3] 5 in
  let ops := [CAdd 0 [300] [] []; CAdd 3 [4; 5] [] []; CClose; CWrite] in
  coder_setChunkSize (coder_reset c) 2 3 = coder_new 2 3 /\
  coder_new 2 3 = Ok (IntCoder.mkCoder [] 2 [] [0; 0] 0) /\
  run_intcoder (Some c) (CReset :: CSetChunkSize 2 3 :: ops)
  = 0 :: 0 :: run_intcoder (Some (IntCoder.mkCoder [] 2 [] [0; 0] 0)) ops /\
  run_intcoder (Some c) (CReset :: CSetChunkSize 2 3 :: ops)
  = [0; 0; 0; 0; 0; 1; 2; 2; 172; 2; 2; 4; 5].
Proof. repeat split; vm_compute; reflexivity. Qed.

(* ================================================================== *)
(* 4. the enumerator script Current; Next; Current; Next; ...           *)
(* ================================================================== *)
Open Scope nat_scope.

(* n times Current; Next *)
Fixpoint cur_next (n : nat) : list eop :=
  match n with O => [] | S k => ECurrent :: ENext :: cur_next k end.

(* what Current reports, on the wire *)
Definition w_step (t : gokey * nat * N) : list N :=
  w_gokey (fst (fst t)) ++ [N.of_nat (snd (fst t)); snd t].

(* the transcript of a whole enumeration: 0 (newEnumerator / Next succeeded)
   before every step, 1 (ErrIteratorDone) at the end *)
Definition w_steps (tr : list (gokey * nat * N)) : list N :=
  flat_map (fun t => 0%N :: w_step t) tr ++ [1%N].

(* enum_run records the key by content *)
Definition forget_nil (t : gokey * nat * N) : bytes * nat * N :=
  (key_bytes (fst (fst t)), snd (fst t), snd t).

Lemma run_enum_cur_next : forall (fuel : nat) (e : enumerator),
  length (enum_run fuel e) < fuel ->
  exists tr : list (gokey * nat * N),
    map forget_nil tr = enum_run fuel e /\
    0%N :: run_enum e (cur_next fuel) = w_steps tr.
Proof.
  induction fuel as [| f IH]; intros e Hlen; [cbn [enum_run length] in Hlen; lia |].
  cbn [enum_run cur_next run_enum] in *.
  destruct (enum_current e) as [[k i] v]. destruct (enum_next e) as [e' done].
  destruct done.
  - exists [(k, i, v)]. split; [reflexivity |].
    unfold w_steps, w_step. cbn [flat_map fst snd]. rewrite app_nil_r. cbn [app]. rewrite <- app_assoc. reflexivity.
  - cbn [length] in Hlen. destruct (IH e') as [tr [Hmap Henc]]; [lia |].
    exists ((k, i, v) :: tr). split.
    + cbn [map]. rewrite Hmap. reflexivity.
    + unfold w_steps in *. cbn [flat_map]. rewrite <- app_assoc, <- Henc.
      unfold w_step. cbn [fst snd app]. rewrite <- app_assoc. reflexivity.
Qed.

Lemma triples_from_length (its : list vitr) : forall i, length (triples_from i its) = total_pairs its.
Proof.
  induction its as [| l r IH]; intros i; cbn [triples_from total_pairs length]; [reflexivity |].
  rewrite app_length, map_length, IH. reflexivity.
Qed.

(* The transcript of the script (Current; Next) x fuel on fresh iterators is
   the encoding of spec_triples: all (term, segment, value) triples ordered by
   term and then by segment, each preceded by 0, and 1 at the end.  The
   transcript tells a nil key from an empty one (w_gokey), spec_triples does
   not; this is the only freedom left in [tr] (a non-empty key is Some of it). *)
Theorem run_enum_script_spec (its : list vitr) (fuel : nat) :
  Forall key_sorted its -> Forall empty_key_nz its -> total_pairs its < fuel ->
  exists tr : list (gokey * nat * N),
    map forget_nil tr = spec_triples its /\
    run_enum_script its (cur_next fuel) = w_steps tr.
Proof.
  intros Hs Hnz Hf.
  assert (Hrun : enum_run_new fuel its = spec_triples its)
    by (apply enumerator_sorted_complete; [assumption | assumption | lia]).
  assert (Hlen : length (spec_triples its) = total_pairs its).
  { rewrite <- Hrun.
    rewrite (Permutation_length (enumerator_permutation its fuel Hs Hnz ltac:(lia))).
    apply triples_from_length. }
  unfold enum_run_new, enum_start_run in Hrun. unfold run_enum_script.
  destruct (enum_new its) as [e done]. destruct done.
  - exists []. split; [exact Hrun | reflexivity].
  - destruct (run_enum_cur_next fuel e) as [tr [Hmap Henc]]; [rewrite Hrun, Hlen; exact Hf |].
    exists tr. split; [rewrite Hmap; exact Hrun | exact Henc].
Qed.
Print Assumptions run_enum_script_spec.

Example run_enum_script_ex :
  let its : list vitr := [[([], 5%N); ([98%N], 7%N)]; [([97%N], 3%N); ([98%N], 9%N)]] in
  run_enum_script its (cur_next 5)
  = w_steps [(None, 0, 5%N); (Some [97%N], 1, 3%N); (Some [98%N], 0, 7%N); (Some [98%N], 1, 9%N)]
  /\ spec_triples its = [([], 0, 5%N); ([97%N], 1, 3%N); ([98%N], 0, 7%N); ([98%N], 1, 9%N)].
Proof. split; vm_compute; reflexivity. Qed.

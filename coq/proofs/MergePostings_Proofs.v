(* MergePostings_Proofs.v - R-merge for postings: the per-field loop of the
   merger (model: Ice.MergePostings, following /repo/merge.go
   persistMergedRestField) produces exactly what the merge specification says.

   Setting (Section Main).  [insE] is the list of inputs (A_i, dr_i, enc_i):
   an abstract segment, its deletion list and the encoding of each of its terms
   of field f; ins = map fst insE, M = fst (merge_spec ins), tables = snd
   (merge_spec ins).  Hypotheses:
     * every A_i is well formed ([wf_seg]: canonical field list, document fields
       and location field names known to the segment, no duplicate term in a
       document field, postings within the bounds of Iterator_Proofs.wf_posting,
       norms <> 0, fewer than 2^31 documents);
     * every term t of A_i has an admissible encoding enc_i t ([admissible_enc]):
       E1Hit for a single posting of frequency 1 without locations whose norm
       bits fit 31 bits, or encode_gen with ANY chunk size > 0 and enough
       chunks - the theorems hold whichever admissible encoding each term has;
     * [foc] selects the segments "in focus" (setupActiveForField): a segment
       left out does not know the field (foc := fun A => known_field A f is the
       real selection; foc := fun _ => true is allowed as well);
     * f is a field of M, the chunk mode is valid, 0 < o_count M < 2^32
       (mergeToWriter runs the loop only when numDocs > 0).
   valid_drops is not needed.  The active inputs are
   [merge_acts] = setup_active of (fieldsInv, dictionary, drops, nth i tables).

   Theorems (all closed under the global context):
     merge_field_correct   everything at once
     collected_postings,
     merge_term_postings   (a) the postings collected for a term are
                               map (to_eposting (as_fields M)) (o_postings M f t)
     merge_terms           (b) the terms kept are o_terms M f, in order
     merge_encoding        (c) each is encoded as Run.encode_term on the slot
                               (M, chunkMode, merged, merge_no1hit ins M), 1-hit rule
                               included; newCard = lenN (o_postings M f t)
     last_single               what finishTerm sees from the LAST input that has the term
     merge_field_stats     (d) fieldDocs / fieldFreqs = merged_stats
     merge_field_total     (e) never Err / Panic / OutOfFuel
     merged_term_coders        the coder abstraction is exact for the collected postings
     ex_merge_field, ex_merge_field_spec, ex_theorem_applies
                           (f) example by vm_compute, and the hypotheses hold for it

   The loop is analysed on the list [Enumerator.enum_run_low_new] (the real
   enumerator model); [turns_grouped] rewrites it into the triples grouped by
   term using Enumerator_Proofs.enumerator_sorted_complete_nz and enum_low_idxs. *)
From Coq Require Import List Arith NArith Bool Lia Sorting.Sorted Permutation.
From Ice Require Import Base Spec Varint Chunk Postings Enumerator Run MergePostings.
From IceProofs Require Import Sort_Proofs Docnums_Proofs MergeAlgebra_Proofs DocsMatching_Proofs
     Iterator_Proofs IntCoder_Proofs Enumerator_Proofs Dict_Proofs.
Import ListNotations.
Open Scope N_scope.
Require Import ZifyBool ZifyN ZifyNat.

(* ================================================================== *)
(* 0. small utilities                                                  *)
(* ================================================================== *)

Lemma rbind_Ok {A B} (v : A) (f : A -> result B) : rbind (Ok v) f = f v.
Proof. reflexivity. Qed.

Lemma rbind_inv {A B} (r : result A) (f : A -> result B) (w : B) :
  rbind r f = Ok w -> exists v, r = Ok v /\ f v = Ok w.
Proof. destruct r; cbn [rbind]; intros H; try discriminate. eauto. Qed.

Lemma merge_loop_app {X} (step : MergeSt -> X -> result MergeSt) (l1 l2 : list X) (st : MergeSt) :
  merge_loop step (l1 ++ l2) st = (do s <- merge_loop step l1 st; merge_loop step l2 s).
Proof.
  revert st. induction l1 as [|x l1 IH]; intros st; cbn [app merge_loop]; [reflexivity|].
  destruct (step st x); cbn [rbind]; auto.
Qed.

(* ================================================================== *)
(* 1. mergeTermFreqNormLocs over the delivered hits                    *)
(* ================================================================== *)

Fixpoint merge_hits (nf : list bytes) (tbl : list N) (cs total : N) (h : HitSt) (hits : list APosting)
  : result HitSt :=
  match hits with
  | [] => Ok h
  | x :: r => do h' <- merge_hit nf tbl cs total h x; merge_hits nf tbl cs total h' r
  end.

(* running the loop on an iterator that delivers [hits] and then nil *)
Lemma tfnl_loop_run nf tbl cs total : forall (hits : list APosting) (it : It) (h : HitSt),
  it_run it (repeat INext (S (length hits))) = Ok (map Some hits ++ [None]) ->
  merge_tfnl_loop (S (length hits)) nf tbl cs total it h = merge_hits nf tbl cs total h hits.
Proof.
  induction hits as [|x hits IH]; intros it h Hrun.
  - cbn [length repeat it_run] in Hrun. cbn [merge_tfnl_loop merge_hits].
    destruct (it_step it INext) as [[it' o]| | | |]; cbn [rbind] in Hrun; try discriminate.
    cbn [rbind]. injection Hrun as Ho. subst o. reflexivity.
  - cbn [length] in Hrun. change (repeat INext (S (S (length hits))))
      with (INext :: repeat INext (S (length hits))) in Hrun.
    cbn [it_run] in Hrun.
    change (merge_tfnl_loop (S (length (x :: hits))) nf tbl cs total it h)
      with (do (it', o) <- it_step it INext;
            match o with
            | None => Ok h
            | Some hit => do h' <- merge_hit nf tbl cs total h hit;
                          merge_tfnl_loop (S (length hits)) nf tbl cs total it' h'
            end).
    destruct (it_step it INext) as [[it' o]| | | |]; cbn [rbind] in Hrun; try discriminate.
    cbn [rbind].
    destruct (it_run it' (repeat INext (S (length hits)))) as [os| | | |] eqn:Er;
      cbn [rbind] in Hrun; try discriminate.
    cbn [map app] in Hrun. injection Hrun as Ho Hos. subst o os.
    cbn [merge_hits]. destruct (merge_hit nf tbl cs total h x); cbn [rbind]; auto.
Qed.

(* the iterator specification over Next only *)
Lemma spec_run_next (st : list APosting) :
  spec_run st (repeat INext (S (length st))) = map Some st ++ [None].
Proof.
  induction st as [|p st IH]; [reflexivity|].
  cbn [length]. change (repeat INext (S (S (length st)))) with (INext :: repeat INext (S (length st))).
  cbn [spec_run spec_step]. rewrite IH. reflexivity.
Qed.

Lemma deliver_all (p : APosting) : deliver true true p = p.
Proof. destruct p as [d [fr [nm ls]]]. reflexivity. Qed.

Lemma spec_out_next (st : list APosting) :
  spec_out true true st (repeat INext (S (length st))) = map Some st ++ [None].
Proof.
  unfold spec_out. rewrite spec_run_next. rewrite map_app, map_map. cbn [map option_map].
  f_equal. apply map_ext. intros p. cbn [option_map]. rewrite deliver_all. reflexivity.
Qed.

Lemma wf_ops_next n : wf_ops (repeat INext n).
Proof. unfold wf_ops. apply Forall_forall. intros op H. apply repeat_spec in H. subst. exact I. Qed.

(* the new number of a hit, and what it adds *)
Definition nd_of (tbl : list N) (p : APosting) : N := nth (N.to_nat (fst p)) tbl 0.
Definition emit (nf : list bytes) (tbl : list N) (p : APosting) : EPosting :=
  emit_posting nf (nd_of tbl p) p.
Definition ap_freq (p : APosting) : N := fst (snd p).
Definition ap_norm (p : APosting) : N := fst (snd (snd p)).

Definition hit_upd (nf : list bytes) (tbl : list N) (cs : N) (h : HitSt) (p : APosting) : HitSt :=
  mkHS (hs_ps h ++ [emit nf tbl p]) (nd_of tbl p / cs) (hs_track h ++ [nd_of tbl p])
       (nd_of tbl p) (ap_freq p) (ap_norm p) (hs_sum h + ap_freq p).

Definition hit_ok (tbl : list N) (cs total : N) (p : APosting) : Prop :=
  (N.to_nat (fst p) < length tbl)%nat /\ nd_of tbl p <> docDropped /\ nd_of tbl p / cs < total.

Lemma nthN_nth_d {A} (l : list A) (d : A) n : (n < length l)%nat -> nthN l n = Some (nth n l d).
Proof. apply nthN_nth. Qed.

Lemma merge_hits_ok nf tbl cs total : forall hits h,
  hs_cur h < total -> Forall (hit_ok tbl cs total) hits ->
  merge_hits nf tbl cs total h hits = Ok (fold_left (hit_upd nf tbl cs) hits h).
Proof.
  induction hits as [|p hits IH]; intros h Hc Hok; [reflexivity|].
  inversion Hok as [|? ? [Hlen [Hnd Hch]] Hok']; subst.
  cbn [merge_hits fold_left].
  assert (E : merge_hit nf tbl cs total h p = Ok (hit_upd nf tbl cs h p)).
  { unfold merge_hit, hit_upd, emit, ap_freq, ap_norm. unfold nd_of in *.
    destruct p as [d [fr [nm ls]]]. cbn [fst snd] in *.
    rewrite (nthN_nth_d tbl 0) by exact Hlen.
    apply N.eqb_neq in Hnd. rewrite Hnd.
    assert (Ht : (total <=? hs_cur h) = false) by (apply N.leb_gt; exact Hc).
    rewrite Ht, andb_false_r. reflexivity. }
  rewrite E. cbn [rbind]. apply IH; [|exact Hok'].
  unfold hit_upd. cbn [hs_cur]. exact Hch.
Qed.

Lemma fold_hit_ps nf tbl cs : forall hits h,
  hs_ps (fold_left (hit_upd nf tbl cs) hits h) = hs_ps h ++ map (emit nf tbl) hits.
Proof.
  induction hits as [|p hits IH]; intros h; cbn [fold_left map]; [rewrite app_nil_r; reflexivity|].
  rewrite IH. unfold hit_upd at 1. cbn [hs_ps]. rewrite <- app_assoc. reflexivity.
Qed.

Lemma fold_hit_track nf tbl cs : forall hits h,
  hs_track (fold_left (hit_upd nf tbl cs) hits h) = hs_track h ++ map (nd_of tbl) hits.
Proof.
  induction hits as [|p hits IH]; intros h; cbn [fold_left map]; [rewrite app_nil_r; reflexivity|].
  rewrite IH. unfold hit_upd at 1. cbn [hs_track]. rewrite <- app_assoc. reflexivity.
Qed.

Lemma fold_hit_sum nf tbl cs : forall hits h,
  hs_sum (fold_left (hit_upd nf tbl cs) hits h) = hs_sum h + sumN (map ap_freq hits).
Proof.
  induction hits as [|p hits IH]; intros h; cbn [fold_left map sumN]; [lia|].
  rewrite IH. unfold hit_upd at 1. cbn [hs_sum]. lia.
Qed.

Lemma fold_hit_cur nf tbl cs total : forall hits h,
  hs_cur h < total -> Forall (hit_ok tbl cs total) hits ->
  hs_cur (fold_left (hit_upd nf tbl cs) hits h) < total.
Proof.
  induction hits as [|p hits IH]; intros h Hc Hok; cbn [fold_left]; [exact Hc|].
  inversion Hok as [|? ? [_ [_ Hch]] Hok']; subst. apply IH; [|exact Hok'].
  unfold hit_upd. cbn [hs_cur]. exact Hch.
Qed.

(* lastDocNum, lastFreq, lastNorm: those of the last hit, or what they were *)
Definition last3 (tbl : list N) (hits : list APosting) (d0 : N * (N * N)) : N * (N * N) :=
  match hits with
  | [] => d0
  | _ :: _ => let p := last hits (0, (0, (0, []))) in (nd_of tbl p, (ap_freq p, ap_norm p))
  end.

Lemma fold_hit_last nf tbl cs : forall hits h,
  (hs_lastDoc (fold_left (hit_upd nf tbl cs) hits h),
   (hs_lastFreq (fold_left (hit_upd nf tbl cs) hits h),
    hs_lastNorm (fold_left (hit_upd nf tbl cs) hits h)))
  = last3 tbl hits (hs_lastDoc h, (hs_lastFreq h, hs_lastNorm h)).
Proof.
  induction hits as [|p hits IH]; intros h; [reflexivity|].
  cbn [fold_left]. rewrite IH. unfold last3.
  destruct hits as [|q hits]; [reflexivity|]. reflexivity.
Qed.

(* ================================================================== *)
(* 2. the setting: well formed inputs and their admissible encodings   *)
(* ================================================================== *)

(* a posting as the input segment stores it: within the bounds the iterator
   theorem needs, location names known to the segment, norm not 0 *)
Definition wf_aposting (fields : list bytes) (p : APosting) : Prop :=
  wf_posting (length fields) (to_eposting fields p) /\
  Forall (fun l : ALoc => In (fst l) fields) (snd (snd (snd p))) /\
  ap_norm p <> 0.

Record wf_seg (A : ASeg) : Prop := mkWfSeg {
  wf_canon : canonical_fields (as_fields A);
  wf_docfields : forall d df, In d (as_docs A) -> In df (ad_fields d) -> In (adf_name df) (as_fields A);
  wf_terms_nodup : forall d df, In d (as_docs A) -> In df (ad_fields d) -> NoDup (map fst (adf_terms df));
  wf_post : forall f t p, In p (o_postings A f t) -> wf_aposting (as_fields A) p;
  wf_count : o_count A < 2147483648 }.

(* setupActiveForField: nil unless the bitmap is non-empty *)
Definition drops_opt (dr : list N) : option (list N) :=
  match dr with [] => None | _ :: _ => Some dr end.

(* the encodings a term of an input segment may have: the 1-hit form (segments
   written by a merge) for a single posting of frequency 1 without locations
   whose norm bits fit 31 bits, or the general form with any positive chunk size
   and enough chunks *)
Definition admissible_enc (A : ASeg) (f t : bytes) (e : EncPL) : Prop :=
  (exists d nm, o_postings A f t = [(d, (1, (nm, [])))] /\ nm <= mask31 /\ e = E1Hit d nm)
  \/ (exists cs total, 0 < cs
        /\ (forall p, In p (o_postings A f t) -> (N.to_nat (fst p / cs) < total)%nat)
        /\ e = encode_gen cs total (map (to_eposting (as_fields A)) (o_postings A f t))).

Lemma live_opt_drops (dr : list N) (d : N) : live_opt (drops_opt dr) d = negb (memN d dr).
Proof. destruct dr; reflexivity. Qed.

(* ---- index_of ---- *)
Lemma index_of_nth (x : bytes) : forall l k i,
  index_of x l k = Some i -> k <= i /\ nth (N.to_nat (i - k)) l [] = x /\ (N.to_nat (i - k) < length l)%nat.
Proof.
  induction l as [|y l IH]; intros k i H; cbn [index_of] in H; [discriminate|].
  destruct (beq x y) eqn:E.
  - injection H as <-. apply beq_eq in E. subst y. rewrite N.sub_diag. cbn [N.to_nat nth length].
    split; [lia|]. split; [reflexivity|lia].
  - apply IH in H. destruct H as [H1 [H2 H3]].
    replace (N.to_nat (i - k)) with (S (N.to_nat (i - (k + 1)))) by lia.
    cbn [nth length]. split; [lia|]. split; [exact H2|lia].
Qed.

Lemma index_of_In (x : bytes) : forall l k, In x l -> exists i, index_of x l k = Some i.
Proof.
  induction l as [|y l IH]; intros k H; [destruct H|].
  cbn [index_of]. destruct (beq x y) eqn:E; [eauto|].
  destruct H as [->|H]; [rewrite beq_refl in E; discriminate|]. apply IH. exact H.
Qed.

Lemma index_of_Some_In (x : bytes) : forall l k i, index_of x l k = Some i -> In x l.
Proof.
  induction l as [|y l IH]; intros k i H; cbn [index_of] in H; [discriminate|].
  destruct (beq x y) eqn:E.
  - apply beq_eq in E. left. auto.
  - right. eapply IH. exact H.
Qed.

Lemma resolve_to (fields : list bytes) (p : APosting) :
  Forall (fun l : ALoc => In (fst l) fields) (snd (snd (snd p))) ->
  resolve_posting fields (to_eposting fields p) = p.
Proof.
  destruct p as [d [fr [nm ls]]]. cbn [snd]. intros H.
  unfold to_eposting, resolve_posting, ep_doc, ep_freq, ep_norm, ep_locs. cbn [fst snd].
  do 3 f_equal. rewrite map_map. rewrite <- (map_id ls) at 2.
  apply map_ext_in. intros [nme rest] Hl. rewrite Forall_forall in H. specialize (H _ Hl).
  cbn [fst] in H. destruct (index_of_In nme fields 0 H) as [i Hi].
  unfold resolve_name. cbn [fst snd]. rewrite Hi. cbn [opt_default].
  apply index_of_nth in Hi. destruct Hi as [_ [Hn _]]. rewrite N.sub_0_r in Hn. rewrite Hn. reflexivity.
Qed.

(* ---- doc_posting ---- *)
Lemma doc_posting_shape (f t : bytes) (n : N) (d : ADoc) :
  doc_posting f t (n, d) = [] \/ exists x, doc_posting f t (n, d) = [(n, x)].
Proof.
  unfold doc_posting. cbn [fst snd]. destruct (doc_field d f) as [df|]; [|left; reflexivity].
  destruct (find _ _) as [[k [fr ls]]|]; [|left; reflexivity]. right. eauto.
Qed.

Lemma doc_posting_renum (f t : bytes) (n n' : N) (d : ADoc) :
  doc_posting f t (n', d) = map (fun p => (n', snd p)) (doc_posting f t (n, d)).
Proof.
  unfold doc_posting. cbn [fst snd]. destruct (doc_field d f) as [df|]; [|reflexivity].
  destruct (find _ _) as [[k [fr ls]]|]; reflexivity.
Qed.

Lemma doc_posting_fst (f t : bytes) (n : N) (d : ADoc) p : In p (doc_posting f t (n, d)) -> fst p = n.
Proof.
  destruct (doc_posting_shape f t n d) as [E|[x E]]; rewrite E; cbn [In]; [tauto|].
  intros [<-|[]]. reflexivity.
Qed.

Definition posts_from (f t : bytes) (i : N) (docs : list ADoc) : list APosting :=
  flat_map' (doc_posting f t) (number_from i docs).

Lemma posts_from_cons f t i d docs :
  posts_from f t i (d :: docs) = doc_posting f t (i, d) ++ posts_from f t (i + 1) docs.
Proof. reflexivity. Qed.

Lemma posts_from_range f t : forall docs i p,
  In p (posts_from f t i docs) -> i <= fst p < i + lenN docs.
Proof.
  induction docs as [|d docs IH]; intros i p H; [destruct H|].
  rewrite posts_from_cons in H. apply in_app_or in H. unfold lenN in *. cbn [length].
  destruct H as [H|H].
  - apply doc_posting_fst in H. lia.
  - apply IH in H. lia.
Qed.

Lemma posts_from_sorted f t : forall docs i,
  StronglySorted (fun p q : APosting => fst p < fst q) (posts_from f t i docs).
Proof.
  induction docs as [|d docs IH]; intros i; [constructor|].
  rewrite posts_from_cons.
  destruct (doc_posting_shape f t i d) as [E|[x E]]; rewrite E; cbn [app]; [apply IH|].
  constructor; [apply IH|]. apply Forall_forall. intros q Hq.
  apply posts_from_range in Hq. cbn [fst]. lia.
Qed.

Lemma o_postings_from (A : ASeg) (f t : bytes) :
  o_postings A f t = if known_field A f then posts_from f t 0 (as_docs A) else [].
Proof. reflexivity. Qed.

Lemma o_postings_sorted (A : ASeg) (f t : bytes) :
  StronglySorted (fun p q : APosting => fst p < fst q) (o_postings A f t).
Proof.
  rewrite o_postings_from. destruct (known_field A f); [apply posts_from_sorted|constructor].
Qed.

Lemma sorted_map {X Y} (R : X -> X -> Prop) (S : Y -> Y -> Prop) (g : X -> Y) (l : list X) :
  (forall a b, R a b -> S (g a) (g b)) -> StronglySorted R l -> StronglySorted S (map g l).
Proof.
  intros HRS. induction 1 as [|a l Hs IH Hf]; cbn [map]; constructor; auto.
  apply Forall_forall. intros y Hy. apply in_map_iff in Hy. destruct Hy as [z [<- Hz]].
  rewrite Forall_forall in Hf. auto.
Qed.

Lemma to_eposting_doc fields p : ep_doc (to_eposting fields p) = fst p.
Proof. destruct p as [d [fr [nm ls]]]. reflexivity. Qed.

Lemma filter_map_length {X Y} (g : Y -> bool) (h : X -> Y) (k : X -> bool) (l : list X) :
  (forall x, g (h x) = k x) -> length (filter g (map h l)) = length (filter k l).
Proof.
  intros E. induction l as [|x l IH]; [reflexivity|]. cbn [map filter]. rewrite E.
  destruct (k x); cbn [length]; auto.
Qed.

(* ---- the bridge: iterating one input's postings list with its drops ---- *)
Lemma input_iter (A : ASeg) (dr : list N) (f t : bytes) (e : EncPL) :
  wf_seg A -> admissible_enc A f t e ->
  let L := filter (Spec.live dr) (o_postings A f t) in
  it_run (it_init e (drops_opt dr) true true (as_fields A) None) (repeat INext (S (length L)))
  = Ok (map Some L ++ [None])
  /\ pl_count e (drops_opt dr) = lenN L.
Proof.
  intros Hwf Hadm L. destruct Hadm as [[d [nm [HP [Hnm ->]]]]|[cs [total [Hcs [Hch ->]]]]].
  - (* 1-hit *)
    assert (Hp : wf_aposting (as_fields A) (d, (1, (nm, [])))).
    { apply (wf_post A Hwf f t). rewrite HP. left. reflexivity. }
    destruct Hp as [[Hd [_ [Hn32 _]]] [_ Hn0]]. cbn in Hd, Hn32, Hn0.
    split.
    + rewrite iter_refines_1hit by assumption.
      assert (EL : filter (fun p : APosting => live_opt (drops_opt dr) (fst p)) [(d, (1, (nm, [])))] = L).
      { unfold L. rewrite HP. apply filter_ext. intros p. apply live_opt_drops. }
      f_equal. transitivity (spec_out true true L (repeat INext (S (length L))));
        [f_equal; exact EL | apply spec_out_next].
    + rewrite count_refines_1hit. unfold L. rewrite HP. cbn [filter]. unfold Spec.live. cbn [fst].
      rewrite live_opt_drops. destruct (negb (memN d dr)); reflexivity.
  - (* general *)
    set (P := o_postings A f t) in *.
    set (fields := as_fields A).
    assert (Hwfp : wf_postings (length fields) (map (to_eposting fields) P)).
    { split.
      - apply (sorted_map (fun p q : APosting => fst p < fst q)); [|apply o_postings_sorted].
        intros a b Hab. rewrite !to_eposting_doc. exact Hab.
      - apply Forall_forall. intros q Hq. apply in_map_iff in Hq. destruct Hq as [p [<- Hp]].
        apply (wf_post A Hwf f t p Hp). }
    assert (Hres : map (resolve_posting fields) (map (to_eposting fields) P) = P).
    { rewrite map_map. rewrite <- (map_id P) at 2. apply map_ext_in. intros p Hp.
      apply resolve_to. apply (wf_post A Hwf f t p Hp). }
    split.
    + rewrite iter_refines; try assumption.
      * rewrite Hres.
        assert (EL : filter (fun p : APosting => live_opt (drops_opt dr) (fst p)) P = L).
        { unfold L. apply filter_ext. intros p. apply live_opt_drops. }
        f_equal. transitivity (spec_out true true L (repeat INext (S (length L))));
          [f_equal; exact EL | apply spec_out_next].
      * intros q Hq. apply in_map_iff in Hq. destruct Hq as [p [<- Hp]].
        rewrite to_eposting_doc. apply Hch. exact Hp.
      * auto.
      * apply wf_ops_next.
    + rewrite count_refines. unfold lenN. f_equal. unfold L.
      apply filter_map_length. intros p. rewrite to_eposting_doc. unfold Spec.live. apply live_opt_drops.
Qed.

(* ================================================================== *)
(* 3. the specification side: the merged postings, input by input      *)
(* ================================================================== *)

(* an input segment with its deletions, the encoding of each of its terms and
   its old -> new table *)
Record SegD := mkSD { sd_A : ASeg; sd_dr : list N; sd_enc : bytes -> EncPL; sd_tbl : list N }.

Definition InE := (ASeg * list N * (bytes -> EncPL))%type.
Definition ins_of (insE : list InE) : list (ASeg * list N) := map fst insE.

Fixpoint with_tables (insE : list InE) (base : N) : list SegD :=
  match insE with
  | [] => []
  | (A, dr, e) :: r =>
      mkSD A dr e (renumber (length (as_docs A)) 0 dr base) :: with_tables r (base + count_live A dr)
  end.

(* the descriptors as the task states them: the table of input i is nth i tables *)
Definition descriptors (insE : list InE) (tables : list (list N)) : list SegD :=
  map (fun x : InE * list N => mkSD (fst (fst (fst x))) (snd (fst (fst x))) (snd (fst x)) (snd x))
      (combine insE tables).

Lemma descriptors_with_tables (insE : list InE) : forall base,
  descriptors insE (merge_docnums (ins_of insE) base) = with_tables insE base.
Proof.
  induction insE as [|[[A dr] e] r IH]; intros base; [reflexivity|].
  unfold descriptors, ins_of in *. cbn [map merge_docnums combine fst snd with_tables].
  f_equal. apply IH.
Qed.

(* what mergeTermFreqNormLocs emits for term t of one input *)
Definition seg_hits (f t : bytes) (D : SegD) : list APosting :=
  filter (Spec.live (sd_dr D)) (o_postings (sd_A D) f t).
Definition seg_emit (nf : list bytes) (f t : bytes) (D : SegD) : list EPosting :=
  map (emit nf (sd_tbl D)) (seg_hits f t D).

Lemma posts_from_app f t : forall l1 l2 i,
  posts_from f t i (l1 ++ l2) = posts_from f t i l1 ++ posts_from f t (i + lenN l1) l2.
Proof.
  induction l1 as [|d l1 IH]; intros l2 i.
  - cbn [app]. unfold lenN. cbn [length]. rewrite N.add_0_r. reflexivity.
  - cbn [app]. rewrite !posts_from_cons, IH, <- app_assoc. do 3 f_equal.
    unfold lenN. cbn [length]. lia.
Qed.

Lemma cnt_S dr i n : cnt dr i (S n) = (if memN i dr then 0 else 1) + cnt dr (i + 1) n.
Proof. reflexivity. Qed.

Lemma seg_renumber f t dr : forall docs i next,
  posts_from f t next (keep dr i docs)
  = map (fun p : APosting => (next + cnt dr i (N.to_nat (fst p - i)), snd p))
        (filter (Spec.live dr) (posts_from f t i docs)).
Proof.
  induction docs as [|d docs IH]; intros i next; [reflexivity|].
  rewrite keep_cons, posts_from_cons, filter_app, map_app.
  destruct (memN i dr) eqn:Em.
  - assert (E0 : filter (Spec.live dr) (doc_posting f t (i, d)) = []).
    { destruct (doc_posting_shape f t i d) as [E|[x E]]; rewrite E; [reflexivity|].
      cbn [filter]. unfold Spec.live. cbn [fst]. rewrite Em. reflexivity. }
    rewrite E0. cbn [map app]. rewrite IH. apply map_ext_in. intros p Hp.
    apply filter_In in Hp. destruct Hp as [Hp _]. apply posts_from_range in Hp.
    replace (N.to_nat (fst p - i)) with (S (N.to_nat (fst p - (i + 1)))) by lia.
    rewrite cnt_S, Em. reflexivity.
  - rewrite posts_from_cons. f_equal.
    + rewrite (doc_posting_renum f t i next d).
      destruct (doc_posting_shape f t i d) as [E|[x E]]; rewrite E; [reflexivity|].
      cbn [filter map]. unfold Spec.live. cbn [fst snd]. rewrite Em. cbn [negb map fst snd].
      rewrite N.sub_diag. cbn [N.to_nat cnt]. rewrite N.add_0_r. reflexivity.
    + rewrite IH. apply map_ext_in. intros p Hp.
      apply filter_In in Hp. destruct Hp as [Hp _]. apply posts_from_range in Hp.
      replace (N.to_nat (fst p - i)) with (S (N.to_nat (fst p - (i + 1)))) by lia.
      rewrite cnt_S, Em. f_equal. lia.
Qed.

Lemma posts_from_nofield f t : forall docs i,
  (forall d, In d docs -> doc_field d f = None) -> posts_from f t i docs = [].
Proof.
  induction docs as [|d docs IH]; intros i H; [reflexivity|].
  rewrite posts_from_cons, IH by (intros; apply H; right; assumption).
  unfold doc_posting. cbn [snd]. rewrite (H d) by (left; reflexivity). reflexivity.
Qed.

Lemma known_field_In (A : ASeg) (f : bytes) : known_field A f = true <-> In f (as_fields A).
Proof. unfold known_field. apply mem_In, beq_eq. Qed.

Lemma doc_field_known (A : ASeg) (f : bytes) d df :
  wf_seg A -> In d (as_docs A) -> doc_field d f = Some df -> known_field A f = true.
Proof.
  intros Hwf Hd Hf. unfold doc_field in Hf. apply find_some in Hf. destruct Hf as [Hin Hb].
  apply beq_eq in Hb. subst f. apply known_field_In. eapply wf_docfields; eauto.
Qed.

Lemma keep_In {X} dr (l : list X) : forall i x, In x (keep dr i l) -> In x l.
Proof.
  induction l as [|y l IH]; intros i x H; [destruct H|].
  rewrite keep_cons in H. destruct (memN i dr).
  - right. eapply IH; eauto.
  - destruct H as [->|H]; [left; reflexivity|right; eapply IH; eauto].
Qed.

Lemma emit_to_eposting nf tbl (p : APosting) :
  Forall (fun l : ALoc => In (fst l) nf) (snd (snd (snd p))) ->
  emit nf tbl p = to_eposting nf (nd_of tbl p, snd p).
Proof.
  destruct p as [d [fr [nm ls]]]. cbn [snd]. intros H. unfold emit, emit_posting, to_eposting.
  cbn [snd]. do 3 f_equal. apply map_ext_in. intros l Hl. rewrite Forall_forall in H.
  destruct (index_of_In (fst l) nf 0 (H l Hl)) as [i Hi].
  unfold new_field_id. rewrite Hi. reflexivity.
Qed.

Lemma renumber_nth_live n dr base j :
  (j < n)%nat -> memN (N.of_nat j) dr = false ->
  nth j (renumber n 0 dr base) 0 = base + cnt dr 0 j.
Proof.
  intros Hj Hm. pose proof (renumber_nth n 0 dr base j Hj) as H.
  rewrite N.add_0_l, Hm in H. apply nth_error_nth. exact H.
Qed.

(* one input: its hits under their new numbers are the postings of its survivors
   placed at [base] *)
Lemma seg_emit_spec nf f t A dr e base :
  wf_seg A -> (forall x, In x (as_fields A) -> In x nf) ->
  seg_emit nf f t (mkSD A dr e (renumber (length (as_docs A)) 0 dr base))
  = map (to_eposting nf) (posts_from f t base (survivors A dr)).
Proof.
  intros Hwf Hincl. unfold seg_emit, seg_hits. cbn [sd_A sd_dr sd_tbl].
  rewrite o_postings_from. destruct (known_field A f) eqn:Ek.
  - rewrite survivors_keep, seg_renumber, !map_map. apply map_ext_in. intros p Hp.
    apply filter_In in Hp. destruct Hp as [Hp Hl].
    assert (Hw : wf_aposting (as_fields A) p).
    { apply (wf_post A Hwf f t). rewrite o_postings_from, Ek. exact Hp. }
    rewrite emit_to_eposting.
    2:{ destruct Hw as [_ [Hn _]]. eapply Forall_impl; [|exact Hn]. intros l. apply Hincl. }
    f_equal. f_equal. apply posts_from_range in Hp. unfold lenN in Hp. unfold nd_of.
    rewrite N.sub_0_r. apply renumber_nth_live; [lia|].
    unfold Spec.live in Hl. rewrite N2Nat.id. destruct (memN (fst p) dr); [discriminate|reflexivity].
  - cbn [filter map]. rewrite posts_from_nofield; [reflexivity|].
    intros d Hd. rewrite survivors_keep in Hd. apply keep_In in Hd.
    destruct (doc_field d f) as [df|] eqn:Edf; [|reflexivity].
    rewrite (doc_field_known A f d df Hwf Hd Edf) in Ek. discriminate.
Qed.

Lemma all_survivors_ins_cons A dr e (r : list InE) :
  all_survivors (ins_of ((A, dr, e) :: r)) = survivors A dr ++ all_survivors (ins_of r).
Proof. reflexivity. Qed.

(* all inputs: the postings of the merged documents are the concatenation *)
Lemma merged_postings_split nf f t : forall (insE : list InE) base,
  (forall A dr e, In (A, dr, e) insE -> wf_seg A /\ forall x, In x (as_fields A) -> In x nf) ->
  map (to_eposting nf) (posts_from f t base (all_survivors (ins_of insE)))
  = flat_map' (seg_emit nf f t) (with_tables insE base).
Proof.
  induction insE as [|[[A dr] e] r IH]; intros base H; [reflexivity|].
  rewrite all_survivors_ins_cons, posts_from_app, map_app.
  cbn [with_tables flat_map']. f_equal.
  - destruct (H A dr e (or_introl eq_refl)) as [Hwf Hincl]. symmetry. apply seg_emit_spec; assumption.
  - apply IH. intros A' dr' e' Hin. apply (H A' dr' e'). right. exact Hin.
Qed.

(* ================================================================== *)
(* 4. what the enumerator hands to the loop, grouped by term           *)
(* ================================================================== *)

Definition all_terms (its : list vitr) : list bytes :=
  sort_dedup_bytes (flat_map' (fun l : vitr => map fst l) its).

Definition term_triples (its : list vitr) (t : bytes) : list (bytes * nat * N) :=
  map (fun i => (t, i, lookup_key t (nth i its []))) (idxs_with t its).

Definition with_low (its : list vitr) (x : bytes * nat * N) :=
  (x, (idxs_with (fst (fst x)) its, vals_with (fst (fst x)) its)).

Lemma lookup_key_sorted (l : vitr) k v : key_sorted l -> In (k, v) l -> lookup_key k l = v.
Proof.
  unfold key_sorted. induction 1 as [|[k0 v0] l Hs IH Hf]; intros Hin; [destruct Hin|].
  rewrite lookup_cons. destruct Hin as [E|Hin].
  - injection E as -> ->. rewrite beq_refl. reflexivity.
  - rewrite Forall_forall in Hf. specialize (Hf _ Hin). cbn [fst] in Hf.
    rewrite (beq_false_neq _ _ (blt_neq _ _ Hf)). apply IH. exact Hin.
Qed.

Lemma has_key_In (l : vitr) k : has_key k l = true <-> exists v, In (k, v) l.
Proof.
  unfold has_key. rewrite existsb_exists. split.
  - intros [[k' v] [Hin Hb]]. cbn [fst] in Hb. apply beq_eq in Hb. subst k'. eauto.
  - intros [v Hin]. exists (k, v). split; [exact Hin|apply beq_refl].
Qed.

Lemma idxs_with_In (its : list vitr) k i :
  In i (idxs_with k its) <-> (i < length its)%nat /\ has_key k (nth i its []) = true.
Proof.
  unfold idxs_with. rewrite filter_In, in_seq. split; intros [H1 H2]; split; auto; lia.
Qed.

Lemma flat_map_triples_sorted (g : bytes -> list (bytes * nat * N)) : forall T,
  strict_sorted_bytes T ->
  (forall t, StronglySorted triple_lt (g t)) ->
  (forall t x, In x (g t) -> fst (fst x) = t) ->
  StronglySorted triple_lt (flat_map' g T).
Proof.
  unfold strict_sorted_bytes. induction 1 as [|t T Hs IH Hf]; intros Hg Hk; cbn [flat_map']; [constructor|].
  apply StronglySorted_app; [apply Hg|apply IH; assumption|].
  intros a b Ha Hb. apply In_flat_map' in Hb. destruct Hb as [t' [Ht' Hb]].
  left. rewrite (Hk _ _ Ha), (Hk _ _ Hb). rewrite Forall_forall in Hf. apply Hf. exact Ht'.
Qed.

Lemma spec_triples_grouped (its : list vitr) :
  Forall key_sorted its ->
  spec_triples its = flat_map' (term_triples its) (all_terms its).
Proof.
  intros Hs. apply (strict_sorted_ext triple_lt triple_lt_irrefl triple_lt_trans).
  - apply spec_triples_sorted. exact Hs.
  - apply flat_map_triples_sorted.
    + apply sort_dedup_bytes_sorted.
    + intros t. unfold term_triples. apply sorted_emit. unfold idxs_with. apply filter_seq_sorted.
    + intros t x Hx. unfold term_triples in Hx. apply in_map_iff in Hx. destruct Hx as [i [<- _]]. reflexivity.
  - intros [[k i] v]. rewrite spec_triples_In, all_triples_In, In_flat_map'. split.
    + intros [Hi Hin]. exists k. split.
      * unfold all_terms. apply sort_dedup_bytes_In. apply In_flat_map'.
        exists (nth i its []). split; [apply nth_In; exact Hi|].
        apply in_map_iff. exists (k, v). split; [reflexivity|exact Hin].
      * unfold term_triples. apply in_map_iff. exists i. split.
        -- f_equal. apply lookup_key_sorted; [|exact Hin].
           rewrite Forall_forall in Hs. apply Hs. apply nth_In. exact Hi.
        -- apply idxs_with_In. split; [exact Hi|]. apply has_key_In. eauto.
    + intros [t [_ Hx]]. unfold term_triples in Hx. apply in_map_iff in Hx.
      destruct Hx as [j [E Hj]]. injection E as -> -> <-.
      apply idxs_with_In in Hj. destruct Hj as [Hlt Hk]. split; [exact Hlt|].
      apply has_key_In in Hk. destruct Hk as [v Hin].
      rewrite (lookup_key_sorted _ _ _ (proj1 (Forall_forall _ _) Hs _ (nth_In _ _ Hlt)) Hin). exact Hin.
Qed.

Lemma map_fst_determined {X Y} (g : X -> Y) (l : list (X * Y)) :
  (forall y, In y l -> snd y = g (fst y)) -> l = map (fun x => (x, g x)) (map fst l).
Proof.
  induction l as [|[a b] l IH]; intros H; [reflexivity|].
  cbn [map fst]. f_equal.
  - pose proof (H (a, b) (or_introl eq_refl)) as E. cbn [fst snd] in E. rewrite E. reflexivity.
  - apply IH. intros y Hy. apply H. right. exact Hy.
Qed.

(* the turns of the loop: every (term, input, value) by term then input, each
   with the inputs that have the term and their values *)
Lemma turns_grouped (its : list vitr) :
  Forall key_sorted its -> Forall values_nz its ->
  enum_run_low_new (S (total_pairs its)) its
  = flat_map' (fun t => map (with_low its) (term_triples its t)) (all_terms its).
Proof.
  intros Hs Hnz.
  assert (Hnz' : Forall empty_key_nz its).
  { eapply Forall_impl; [|exact Hnz]. apply values_nz_empty_key_nz. }
  rewrite (map_fst_determined (fun x => (idxs_with (fst (fst x)) its, vals_with (fst (fst x)) its))
             (enum_run_low_new (S (total_pairs its)) its)).
  - rewrite enum_run_low_new_fst, enumerator_sorted_complete_nz by assumption.
    rewrite spec_triples_grouped by assumption.
    generalize (all_terms its). intros T. induction T as [|t T IH]; [reflexivity|].
    cbn [flat_map']. rewrite map_app, IH. reflexivity.
  - intros [[[k i] v] [idxs vals]] Hin. cbn [fst snd].
    destruct (enum_low_idxs its (S (total_pairs its)) k i v idxs vals Hs Hnz' (Nat.le_succ_diag_r _) Hin)
      as [-> [-> _]]. reflexivity.
Qed.

(* ================================================================== *)
(* 5. the loop of persistMergedRestField over well formed inputs       *)
(* ================================================================== *)

(* the active input made from a descriptor *)
Definition mk_active (f : bytes) (D : SegD) : ActiveIn :=
  mkActive (as_fields (sd_A D)) (map (fun t => (t, sd_enc D t)) (o_terms (sd_A D) f))
           (drops_opt (sd_dr D)) (sd_tbl D).

Definition dD : SegD := mkSD (mkASeg [] [] []) [] (fun _ => E1Hit 0 0) [].
Definition has_term (f t : bytes) (D : SegD) : bool := mem beq t (o_terms (sd_A D) f).

Lemma beq_sym (a b : bytes) : beq a b = beq b a.
Proof.
  destruct (beq a b) eqn:E1, (beq b a) eqn:E2; auto.
  - apply beq_eq in E1. subst. rewrite beq_refl in E2. discriminate.
  - apply beq_eq in E2. subst. rewrite beq_refl in E1. discriminate.
Qed.

Definition itr_of {V} (k : N) (dict : list (bytes * V)) : vitr :=
  map (fun p : N * (bytes * V) => (fst (snd p), fst p + 1)) (number_from k dict).

Lemma itr_of_has {V} (e : bytes -> V) t : forall terms k,
  has_key t (itr_of k (map (fun x => (x, e x)) terms)) = mem beq t terms.
Proof.
  induction terms as [|y terms IH]; intros k; [reflexivity|].
  unfold itr_of. cbn [map number_from]. rewrite has_key_cons. cbn [fst snd mem].
  rewrite (beq_sym y t). f_equal. apply IH.
Qed.

Lemma itr_of_lookup {V} (e : bytes -> V) t : forall terms k,
  mem beq t terms = true ->
  let v := lookup_key t (itr_of k (map (fun x => (x, e x)) terms)) in
  k + 1 <= v /\ nthN (map (fun x => (x, e x)) terms) (N.to_nat (v - 1 - k)) = Some (t, e t).
Proof.
  induction terms as [|y terms IH]; intros k Hm; [discriminate|].
  unfold itr_of. cbn [map number_from]. rewrite lookup_cons. cbn [fst snd].
  cbn [mem] in Hm. rewrite (beq_sym t y) in Hm. destruct (beq y t) eqn:E.
  - apply beq_eq in E. subst y. cbv zeta. split; [lia|].
    replace (k + 1 - 1 - k) with 0 by lia. reflexivity.
  - cbn [orb] in Hm. specialize (IH (k + 1) Hm). cbv zeta in IH. destruct IH as [H1 H2].
    cbv zeta. fold (@itr_of V (k + 1) (map (fun x => (x, e x)) terms)).
    set (v := lookup_key t (itr_of (k + 1) (map (fun x => (x, e x)) terms))) in *.
    split; [lia|].
    replace (N.to_nat (v - 1 - k)) with (S (N.to_nat (v - 1 - (k + 1)))) by lia.
    cbn [nthN]. exact H2.
Qed.

Lemma itr_of_sorted {V} (e : bytes -> V) : forall terms k,
  strict_sorted_bytes terms -> key_sorted (itr_of k (map (fun x => (x, e x)) terms)).
Proof.
  unfold strict_sorted_bytes, key_sorted. intros terms k H. revert k.
  induction H as [|y terms Hs IH Hf]; intros k; [constructor|].
  unfold itr_of. cbn [map number_from]. constructor; [apply IH|].
  apply Forall_forall. intros [k' v'] Hin. cbn [fst snd].
  assert (Hk : In k' terms).
  { apply in_map_iff in Hin. destruct Hin as [[n [x ex]] [E Hin]]. cbn [fst snd] in E.
    injection E as <- _. clear - Hin. revert Hin. generalize (k + 1).
    induction terms as [|z terms IH]; intros n0 Hin; [destruct Hin|].
    cbn [map number_from] in Hin. destruct Hin as [E|Hin].
    - injection E as _ <- _. left. reflexivity.
    - right. eapply IH. exact Hin. }
  rewrite Forall_forall in Hf. apply Hf. exact Hk.
Qed.

Lemma itr_of_nz {V} : forall (dict : list (bytes * V)) k, values_nz (itr_of k dict).
Proof.
  unfold values_nz. induction dict as [|x dict IH]; intros k; [constructor|].
  unfold itr_of. cbn [map number_from]. constructor; [cbn [snd fst]; lia|apply IH].
Qed.

Lemma ai_itr_itr_of (a : ActiveIn) : ai_itr a = itr_of 0 (ai_dict a).
Proof. reflexivity. Qed.

Lemma filter_seq_nth {X} (P : X -> bool) (d : X) : forall (l : list X) s,
  map (fun i => nth (i - s) l d) (filter (fun j => P (nth (j - s) l d)) (seq s (length l)))
  = filter P l.
Proof.
  induction l as [|x l IH]; intros s; [reflexivity|].
  cbn [length seq filter]. rewrite Nat.sub_diag. change (nth 0 (x :: l) d) with x.
  assert (E : forall (g : nat -> bool) (h : nat -> X),
             (forall j, In j (seq (S s) (length l)) -> g j = P (nth (j - S s) l d)) ->
             (forall j, In j (seq (S s) (length l)) -> h j = nth (j - S s) l d) ->
             map h (filter g (seq (S s) (length l))) = filter P l).
  { intros g h Hg Hh. rewrite <- (IH (S s)).
    rewrite (filter_ext_in g (fun j => P (nth (j - S s) l d))) by exact Hg.
    apply map_ext_in. intros j Hj. apply filter_In in Hj. apply Hh. apply Hj. }
  assert (Hsh : forall j, In j (seq (S s) (length l)) -> nth (j - s) (x :: l) d = nth (j - S s) l d).
  { intros j Hj. apply in_seq in Hj. replace (j - s)%nat with (S (j - S s)) by lia. reflexivity. }
  destruct (P x); cbn [map].
  - rewrite Nat.sub_diag. change (nth 0 (x :: l) d) with x. f_equal.
    apply E; [intros j Hj; rewrite Hsh by exact Hj; reflexivity | exact Hsh].
  - apply E; [intros j Hj; rewrite Hsh by exact Hj; reflexivity | exact Hsh].
Qed.

Section Loop.
  Variables (cm ndc : N) (nf : list bytes) (f : bytes) (DsA : list SegD).

  Definition acts : list ActiveIn := map (mk_active f) DsA.
  Definition its : list vitr := map ai_itr acts.
  Definition Dt (t : bytes) : list SegD := filter (has_term f t) DsA.
  Definition card (t : bytes) : N := sumN (map (fun D => lenN (seg_hits f t D)) (Dt t)).
  Definition CS (t : bytes) : N := opt_default 0 (getChunkSize cm (card t) ndc).

  Hypothesis HD : forall D, In D DsA ->
    wf_seg (sd_A D)
    /\ (forall t, In t (o_terms (sd_A D) f) -> admissible_enc (sd_A D) f t (sd_enc D t))
    /\ (forall t p, In p (seg_hits f t D) ->
          (N.to_nat (fst p) < length (sd_tbl D))%nat /\ nd_of (sd_tbl D) p <> docDropped
          /\ nd_of (sd_tbl D) p < ndc).
  Hypothesis Hcs : forall t, exists cs, getChunkSize cm (card t) ndc = Some cs /\ 0 < cs.

  Lemma CS_pos t : getChunkSize cm (card t) ndc = Some (CS t) /\ 0 < CS t.
  Proof. unfold CS. destruct (Hcs t) as [cs [E H]]. rewrite E. cbn [opt_default]. auto. Qed.

  Lemma its_nth i : nth i its [] = ai_itr (mk_active f (nth i DsA dD)).
  Proof.
    unfold its, acts. change (@nil (bytes * N)) with (ai_itr (mk_active f dD)).
    rewrite map_nth, map_nth. reflexivity.
  Qed.

  Lemma its_length : length its = length DsA.
  Proof. unfold its, acts. rewrite !map_length. reflexivity. Qed.

  Lemma ai_itr_has t D : has_key t (ai_itr (mk_active f D)) = has_term f t D.
  Proof. rewrite ai_itr_itr_of. unfold mk_active. cbn [ai_dict]. apply itr_of_has. Qed.

  Lemma idxs_Dt t : map (fun i => nth i DsA dD) (idxs_with t its) = Dt t.
  Proof.
    unfold idxs_with, Dt. rewrite its_length.
    rewrite <- (filter_seq_nth (has_term f t) dD DsA 0).
    rewrite (filter_ext (fun j => has_key t (nth j its [])) (fun j => has_term f t (nth (j - 0) DsA dD))).
    - apply map_ext. intros i. rewrite Nat.sub_0_r. reflexivity.
    - intros j. rewrite its_nth, ai_itr_has, Nat.sub_0_r. reflexivity.
  Qed.

  Lemma idxs_valid t i : In i (idxs_with t its) ->
    In (nth i DsA dD) DsA /\ has_term f t (nth i DsA dD) = true
    /\ nth_error acts i = Some (mk_active f (nth i DsA dD)).
  Proof.
    intros H. apply idxs_with_In in H. destruct H as [Hlt Hk]. rewrite its_length in Hlt.
    rewrite its_nth, ai_itr_has in Hk. split; [apply nth_In; exact Hlt|]. split; [exact Hk|].
    unfold acts. rewrite nth_error_map. rewrite (nth_error_nth' DsA dD Hlt). reflexivity.
  Qed.

  Lemma its_sorted : Forall key_sorted its.
  Proof.
    unfold its, acts. rewrite map_map. apply Forall_forall. intros l Hl. apply in_map_iff in Hl.
    destruct Hl as [D [<- _]]. rewrite ai_itr_itr_of. unfold mk_active. cbn [ai_dict].
    apply itr_of_sorted. apply o_terms_sorted.
  Qed.

  Lemma its_nz : Forall values_nz its.
  Proof.
    unfold its. apply Forall_forall. intros l Hl. apply in_map_iff in Hl.
    destruct Hl as [a [<- _]]. rewrite ai_itr_itr_of. apply itr_of_nz.
  Qed.

  Lemma ai_lookup t D : has_term f t D = true ->
    ai_postings (mk_active f D) (lookup_key t (ai_itr (mk_active f D))) = Ok (sd_enc D t).
  Proof.
    intros H. rewrite ai_itr_itr_of. unfold mk_active at 2. cbn [ai_dict].
    pose proof (itr_of_lookup (sd_enc D) t (o_terms (sd_A D) f) 0 H) as L. cbv zeta in L.
    destruct L as [L1 L2].
    set (v := lookup_key t (itr_of 0 (map (fun x => (x, sd_enc D x)) (o_terms (sd_A D) f)))) in *.
    unfold ai_postings. assert (Ev : (v =? 0) = false) by (apply N.eqb_neq; lia). rewrite Ev.
    unfold mk_active. cbn [ai_dict]. rewrite N.sub_0_r in L2. rewrite L2. reflexivity.
  Qed.

  Lemma has_term_In t D : has_term f t D = true <-> In t (o_terms (sd_A D) f).
  Proof. unfold has_term. apply mem_In, beq_eq. Qed.

  (* per input and term: the iterator delivers the hits, Count() is their number *)
  Lemma input_hits t D : In D DsA -> has_term f t D = true ->
    let a := mk_active f D in
    it_run (it_init (sd_enc D t) (ai_drops a) true true (ai_fields a) None)
           (repeat INext (S (length (seg_hits f t D))))
    = Ok (map Some (seg_hits f t D) ++ [None])
    /\ pl_count (sd_enc D t) (ai_drops a) = lenN (seg_hits f t D).
  Proof.
    intros HIn Ht. destruct (HD D HIn) as [Hwf [Hadm _]].
    apply has_term_In in Ht. cbv zeta. unfold mk_active. cbn [ai_drops ai_fields].
    apply (input_iter (sd_A D) (sd_dr D) f t (sd_enc D t) Hwf (Hadm t Ht)).
  Qed.

  (* prepareNewTerm's cardinality *)
  Lemma new_card_idxs t : forall idxs,
    (forall i, In i idxs -> In i (idxs_with t its)) ->
    new_card acts idxs (map (fun j => lookup_key t (nth j its [])) idxs)
    = Ok (sumN (map (fun i => lenN (seg_hits f t (nth i DsA dD))) idxs)).
  Proof.
    induction idxs as [|i idxs IH]; intros H; [reflexivity|].
    cbn [map new_card sumN].
    destruct (idxs_valid t i (H i (or_introl eq_refl))) as [HIn [Ht Hnth]].
    rewrite Hnth, its_nth, (ai_lookup t _ Ht). cbn [rbind].
    rewrite IH by (intros j Hj; apply H; right; exact Hj). cbn [rbind].
    destruct (input_hits t _ HIn Ht) as [_ Hc]. cbv zeta in Hc. rewrite Hc. reflexivity.
  Qed.

  Lemma new_card_term t :
    new_card acts (idxs_with t its) (vals_with t its) = Ok (card t).
  Proof.
    unfold vals_with. rewrite new_card_idxs by auto. unfold card.
    rewrite <- idxs_Dt, map_map. reflexivity.
  Qed.
  (* ---- one turn of the loop ---- *)
  Definition total_of (t : bytes) : N := ms_total ndc (CS t).

  Lemma total_pos cs : 0 < ms_total ndc cs.
  Proof. unfold ms_total, num_chunks. generalize ((ndc - 1) / cs). intros q. lia. Qed.

  Definition set_ccs (st : MergeSt) (t : bytes) : MergeSt :=
    mkMS (ms_prev st) (card t) (CS t) (ms_ps st) (ms_cur st)
         (ms_lastDoc st) (ms_lastFreq st) (ms_lastNorm st)
         (ms_vellum st) (ms_track st) (ms_freqs st) (ms_log st).

  Lemma set_ccs_id st t : ms_card st = card t -> ms_cs st = CS t -> set_ccs st t = st.
  Proof.
    destruct st as [x1 x2 x3 x4 x5 x6 x7 x8 x9 x10 x11 x12]. unfold set_ccs.
    cbn [ms_card ms_cs ms_prev ms_ps ms_cur ms_lastDoc ms_lastFreq ms_lastNorm ms_vellum ms_track ms_freqs ms_log].
    intros <- <-. reflexivity.
  Qed.

  Lemma prepare_ok t st :
    prepare_new_term cm ndc acts (idxs_with t its) (vals_with t its) st = Ok (set_ccs st t).
  Proof.
    unfold prepare_new_term. rewrite new_card_term. cbn [rbind].
    destruct (CS_pos t) as [E H]. rewrite E.
    assert (E0 : (CS t =? 0) = false) by (apply N.eqb_neq; lia). rewrite E0. reflexivity.
  Qed.

  Definition step_tail (st2 : MergeSt) (term : bytes) (itrI : nat) (v : N) : result MergeSt :=
    match nth_error acts itrI with
    | None => Panic
    | Some a =>
        do e <- ai_postings a v;
        let it := it_init e (ai_drops a) true true (ai_fields a) None in
        do h <- merge_tfnl_loop (S (N.to_nat (pl_count e (ai_drops a)))) nf (ai_newDocNums a)
                                (ms_cs st2) (ms_total ndc (ms_cs st2)) it
                                (mkHS (ms_ps st2) (ms_cur st2) (ms_track st2) 0 0 0 0);
        Ok (mkMS (copy_term (ms_prev st2) term) (ms_card st2) (ms_cs st2) (hs_ps h) (hs_cur h)
                 (hs_lastDoc h) (hs_lastFreq h) (hs_lastNorm h)
                 (ms_vellum st2) (hs_track h) (ms_freqs st2 + hs_sum h) (ms_log st2))
    end.

  Lemma merge_step_unfold st term itrI v lowI lowV :
    merge_step cm ndc nf acts st ((term, itrI, v), (lowI, lowV)) =
    (do st1 <- (if negb (beq (key_bytes (ms_prev st)) term) then finish_term ndc st else Ok st);
     do st2 <- (if negb (beq (key_bytes (ms_prev st)) term) || key_is_nil (ms_prev st1)
                then prepare_new_term cm ndc acts lowI lowV st1 else Ok st1);
     step_tail st2 term itrI v).
  Proof. reflexivity. Qed.

  Definition upd_body (st : MergeSt) (t : bytes) (D : SegD) : MergeSt :=
    let h := fold_left (hit_upd nf (sd_tbl D) (ms_cs st)) (seg_hits f t D)
                       (mkHS (ms_ps st) (ms_cur st) (ms_track st) 0 0 0 0) in
    mkMS (copy_term (ms_prev st) t) (ms_card st) (ms_cs st) (hs_ps h) (hs_cur h)
         (hs_lastDoc h) (hs_lastFreq h) (hs_lastNorm h)
         (ms_vellum st) (hs_track h) (ms_freqs st + hs_sum h) (ms_log st).

  Lemma hits_ok t D : In D DsA -> Forall (hit_ok (sd_tbl D) (CS t) (total_of t)) (seg_hits f t D).
  Proof.
    intros HIn. destruct (HD D HIn) as [_ [_ H3]]. apply Forall_forall. intros p Hp.
    destruct (H3 t p Hp) as [H1 [H2 H4]]. split; [exact H1|]. split; [exact H2|].
    unfold total_of, ms_total, num_chunks. destruct (CS_pos t) as [_ Hc].
    assert (Hle : nd_of (sd_tbl D) p / CS t <= (ndc - 1) / CS t) by (apply N.div_le_mono; lia).
    lia.
  Qed.

  Lemma step_tail_ok st t i :
    In i (idxs_with t its) -> ms_cs st = CS t -> ms_cur st < total_of t ->
    step_tail st t i (lookup_key t (nth i its [])) = Ok (upd_body st t (nth i DsA dD))
    /\ ms_cur (upd_body st t (nth i DsA dD)) < total_of t.
  Proof.
    intros Hi Hcs' Hcur. destruct (idxs_valid t i Hi) as [HIn [Ht Hnth]].
    set (D := nth i DsA dD) in *.
    pose proof (hits_ok t D HIn) as Hok.
    split.
    - unfold step_tail. rewrite Hnth, its_nth. fold D. rewrite (ai_lookup t D Ht). cbn [rbind].
      destruct (input_hits t D HIn Ht) as [Hrun Hc]. cbv zeta in Hrun, Hc.
      rewrite Hc. unfold lenN. rewrite Nat2N.id.
      rewrite (tfnl_loop_run nf _ _ _ _ _ _ Hrun).
      unfold mk_active at 1. cbn [ai_newDocNums]. rewrite Hcs'. fold (total_of t).
      rewrite merge_hits_ok; [| cbn [hs_cur]; exact Hcur | exact Hok].
      cbn [rbind]. unfold upd_body. rewrite Hcs'. reflexivity.
    - unfold upd_body. cbn [ms_cur]. rewrite Hcs'. apply fold_hit_cur; [cbn [hs_cur]; exact Hcur|exact Hok].
  Qed.

  (* ---- the turns of one term ---- *)
  Definition item (t : bytes) (i : nat) : (bytes * nat * N) * (list nat * list N) :=
    ((t, i, lookup_key t (nth i its [])), (idxs_with t its, vals_with t its)).

  Lemma items_eq t : map (with_low its) (term_triples its t) = map (item t) (idxs_with t its).
  Proof. unfold term_triples. rewrite map_map. reflexivity. Qed.

  Definition Pending (st : MergeSt) (t : bytes) : Prop :=
    key_bytes (ms_prev st) = t /\ ms_card st = card t /\ ms_cs st = CS t /\ ms_cur st < total_of t.

  Definition Clean (st : MergeSt) : Prop :=
    ms_ps st = [] /\ ms_cur st = 0 /\ ms_lastDoc st = 0 /\ ms_lastFreq st = 0 /\ ms_lastNorm st = 0.

  Definition PrevOK (st : MergeSt) (t : bytes) : Prop :=
    beq (key_bytes (ms_prev st)) t = false \/ ms_prev st = None.

  Lemma copy_term_bytes p t : key_bytes (copy_term p t) = t.
  Proof. destruct p, t; reflexivity. Qed.

  Lemma upd_body_pending st t D :
    ms_card st = card t -> ms_cs st = CS t -> ms_cur (upd_body st t D) < total_of t ->
    Pending (upd_body st t D) t.
  Proof.
    intros H1 H2 H3. split; [apply copy_term_bytes|]. split; [exact H1|]. split; [exact H2|exact H3].
  Qed.

  Lemma step_same st t i : Pending st t -> In i (idxs_with t its) ->
    merge_step cm ndc nf acts st (item t i) = Ok (upd_body st t (nth i DsA dD))
    /\ Pending (upd_body st t (nth i DsA dD)) t.
  Proof.
    intros [Hp [Hc [Hs Hcur]]] Hi. unfold item. rewrite merge_step_unfold.
    rewrite Hp, beq_refl. cbn [negb orb rbind].
    assert (E2 : (if key_is_nil (ms_prev st)
                  then prepare_new_term cm ndc acts (idxs_with t its) (vals_with t its) st
                  else Ok st) = Ok st).
    { destruct (key_is_nil (ms_prev st)); [|reflexivity]. rewrite prepare_ok, set_ccs_id by assumption.
      reflexivity. }
    rewrite E2. cbn [rbind]. destruct (step_tail_ok st t i Hi Hs Hcur) as [E3 H3].
    split; [exact E3|]. apply upd_body_pending; assumption.
  Qed.

  Lemma group_rest t : forall idxs st,
    (forall i, In i idxs -> In i (idxs_with t its)) -> Pending st t ->
    merge_loop (merge_step cm ndc nf acts) (map (item t) idxs) st
    = Ok (fold_left (fun s i => upd_body s t (nth i DsA dD)) idxs st)
    /\ Pending (fold_left (fun s i => upd_body s t (nth i DsA dD)) idxs st) t.
  Proof.
    induction idxs as [|i idxs IH]; intros st H HP; [split; [reflexivity|exact HP]|].
    cbn [map merge_loop fold_left].
    destruct (step_same st t i HP (H i (or_introl eq_refl))) as [E HP'].
    rewrite E. cbn [rbind]. apply IH; [|exact HP']. intros j Hj. apply H. right. exact Hj.
  Qed.

  Definition fin_out (t : bytes) (c cs : N) (ps : list EPosting) (lst : N * (N * N))
    : list (bytes * EncPL) * list TermLog :=
    let total := ms_total ndc cs in
    let bm := new_roaring ps in
    let hasLocs := existsb ep_hasLocs ps in
    (match bm with
     | [] => []
     | docNum :: _ =>
         if (lenN bm =? 1) && negb hasLocs && (docNum <=? mask31)
            && (docNum =? fst lst) && (fst (snd lst) =? 1)
         then [(t, E1Hit (N.land mask31 docNum) (N.land mask31 (snd (snd lst))))]
         else [(t, EGen bm cs (chunks_of freq_entry cs (N.to_nat total) ps)
                        (if hasLocs then Some (chunks_of loc_entry cs (N.to_nat total) ps) else None))]
     end,
     match bm with
     | [] => []
     | _ :: _ => [mkTL t c cs ps lst]
     end).

  Definition ms_last (st : MergeSt) : N * (N * N) := (ms_lastDoc st, (ms_lastFreq st, ms_lastNorm st)).

  Lemma finish_term_eq st :
    finish_term ndc st =
    if ms_total ndc (ms_cs st) <=? ms_cur st then Panic
    else
      let o := fin_out (key_bytes (ms_prev st)) (ms_card st) (ms_cs st) (ms_ps st) (ms_last st) in
      Ok (mkMS (ms_prev st) (ms_card st) (ms_cs st) [] 0 0 0 0 (ms_vellum st ++ fst o)
               (ms_track st) (ms_freqs st) (ms_log st ++ snd o)).
  Proof. reflexivity. Qed.

  Lemma finish_clean st : Clean st -> finish_term ndc st = Ok st.
  Proof.
    intros [H1 [H2 [H3 [H4 H5]]]]. rewrite finish_term_eq. rewrite H2.
    assert (E : (ms_total ndc (ms_cs st) <=? 0) = false).
    { apply N.leb_gt. apply total_pos. }
    rewrite E. cbv zeta. rewrite H1. unfold fin_out. cbn [new_roaring map sort_dedup_N isort dedup_adj fst snd].
    rewrite !app_nil_r. destruct st as [x1 x2 x3 x4 x5 x6 x7 x8 x9 x10 x11 x12].
    cbn [ms_card ms_cs ms_prev ms_ps ms_cur ms_lastDoc ms_lastFreq ms_lastNorm ms_vellum ms_track ms_freqs ms_log] in *.
    subst. reflexivity.
  Qed.

  Lemma finish_props st s : finish_term ndc st = Ok s -> ms_prev s = ms_prev st /\ Clean s.
  Proof.
    rewrite finish_term_eq. destruct (ms_total ndc (ms_cs st) <=? ms_cur st); [discriminate|].
    cbv zeta. intros E.
    pose proof (f_equal (fun r => match r with Ok v => v | _ => s end) E) as E'. cbv beta iota in E'.
    rewrite <- E'. split; [reflexivity|].
    unfold Clean. cbn [ms_ps ms_cur ms_lastDoc ms_lastFreq ms_lastNorm]. auto.
  Qed.

  Lemma finish_pending st t : Pending st t ->
    finish_term ndc st =
    Ok (mkMS (ms_prev st) (ms_card st) (ms_cs st) [] 0 0 0 0
             (ms_vellum st ++ fst (fin_out t (card t) (CS t) (ms_ps st) (ms_last st)))
             (ms_track st) (ms_freqs st)
             (ms_log st ++ snd (fin_out t (card t) (CS t) (ms_ps st) (ms_last st)))).
  Proof.
    intros [Hp [Hc [Hs Hcur]]]. rewrite finish_term_eq. unfold total_of in Hcur. rewrite <- Hs in Hcur.
    apply N.leb_gt in Hcur. rewrite Hcur. cbv zeta. rewrite Hp, Hc, Hs. reflexivity.
  Qed.

  Lemma step_first st t i : Clean st -> PrevOK st t -> In i (idxs_with t its) ->
    merge_step cm ndc nf acts st (item t i) = Ok (upd_body (set_ccs st t) t (nth i DsA dD))
    /\ Pending (upd_body (set_ccs st t) t (nth i DsA dD)) t.
  Proof.
    intros HC HP Hi. unfold item. rewrite merge_step_unfold.
    assert (E12 : (do st1 <- (if negb (beq (key_bytes (ms_prev st)) t) then finish_term ndc st else Ok st);
                   (if negb (beq (key_bytes (ms_prev st)) t) || key_is_nil (ms_prev st1)
                    then prepare_new_term cm ndc acts (idxs_with t its) (vals_with t its) st1
                    else Ok st1)) = Ok (set_ccs st t)).
    { destruct (beq (key_bytes (ms_prev st)) t) eqn:Eb; cbn [negb orb].
      - destruct HP as [HP|HP]; [congruence|]. cbn [rbind]. rewrite HP. cbn [key_is_nil].
        apply prepare_ok.
      - rewrite (finish_clean st HC). cbn [rbind]. apply prepare_ok. }
    assert (Hcur : ms_cur (set_ccs st t) < total_of t).
    { unfold set_ccs. cbn [ms_cur]. destruct HC as [_ [H2 _]]. rewrite H2. apply total_pos. }
    destruct (step_tail_ok (set_ccs st t) t i Hi eq_refl Hcur) as [E3 H3].
    split.
    - destruct (if negb (beq (key_bytes (ms_prev st)) t) then finish_term ndc st else Ok st) as [st1| | | |];
        cbn [rbind] in E12 |- *; try discriminate.
      rewrite E12. cbn [rbind]. exact E3.
    - apply upd_body_pending; [reflexivity|reflexivity|exact H3].
  Qed.

  Lemma fold_left_map {X Y Z} (g : Z -> Y -> Z) (h : X -> Y) (l : list X) (z : Z) :
    fold_left (fun s x => g s (h x)) l z = fold_left g (map h l) z.
  Proof. revert z. induction l as [|x l IH]; intros z; cbn [fold_left map]; auto. Qed.

  (* all the turns of term t, from a state between two terms *)
  Lemma group_run st t : Clean st -> PrevOK st t -> idxs_with t its <> [] ->
    merge_loop (merge_step cm ndc nf acts) (map (item t) (idxs_with t its)) st
    = Ok (fold_left (fun s D => upd_body s t D) (Dt t) (set_ccs st t))
    /\ Pending (fold_left (fun s D => upd_body s t D) (Dt t) (set_ccs st t)) t.
  Proof.
    intros HC HP Hne. rewrite <- idxs_Dt, <- (fold_left_map (fun s D => upd_body s t D)).
    destruct (idxs_with t its) as [|i0 rest] eqn:Ei; [contradiction|].
    assert (Hin : forall i, In i (i0 :: rest) -> In i (idxs_with t its)) by (rewrite Ei; auto).
    cbn [map merge_loop fold_left].
    destruct (step_first st t i0 HC HP (Hin i0 (or_introl eq_refl))) as [E HP'].
    rewrite E. cbn [rbind]. apply group_rest; [|exact HP']. intros j Hj. apply Hin. right. exact Hj.
  Qed.

  (* ---- projections of a term's turns ---- *)
  Definition hits_docs (t : bytes) (D : SegD) : list N := map (nd_of (sd_tbl D)) (seg_hits f t D).
  Definition hits_freq (t : bytes) (D : SegD) : N := sumN (map ap_freq (seg_hits f t D)).
  Definition hits_last (t : bytes) (D : SegD) : N * (N * N) := last3 (sd_tbl D) (seg_hits f t D) (0, (0, 0)).

  Lemma upd_fold_proj t : forall Ds st,
    let s' := fold_left (fun s D => upd_body s t D) Ds st in
    ms_ps s' = ms_ps st ++ flat_map' (seg_emit nf f t) Ds
    /\ ms_track s' = ms_track st ++ flat_map' (hits_docs t) Ds
    /\ ms_freqs s' = ms_freqs st + sumN (map (hits_freq t) Ds)
    /\ ms_vellum s' = ms_vellum st /\ ms_log s' = ms_log st
    /\ ms_last s' = fold_left (fun _ D => hits_last t D) Ds (ms_last st).
  Proof.
    induction Ds as [|D Ds IH]; intros st; cbv zeta.
    - cbn [fold_left flat_map' map sumN]. rewrite !app_nil_r, N.add_0_r. repeat split; reflexivity.
    - cbn [fold_left]. specialize (IH (upd_body st t D)). cbv zeta in IH.
      destruct IH as [I1 [I2 [I3 [I4 [I5 I6]]]]].
      rewrite I1, I2, I3, I4, I5, I6. unfold upd_body. cbv zeta. cbn [ms_ps ms_track ms_freqs ms_vellum ms_log].
      rewrite fold_hit_ps, fold_hit_track, fold_hit_sum. cbn [hs_ps hs_track hs_sum flat_map' map sumN].
      unfold ms_last at 1. cbn [ms_lastDoc ms_lastFreq ms_lastNorm].
      rewrite fold_hit_last. cbn [hs_lastDoc hs_lastFreq hs_lastNorm].
      rewrite <- !app_assoc. unfold seg_emit, hits_docs, hits_freq, hits_last.
      repeat split; try reflexivity. lia.
  Qed.

  (* ---- the whole loop ---- *)
  Definition PS (t : bytes) : list EPosting := flat_map' (seg_emit nf f t) (Dt t).
  Definition LAST (t : bytes) : N * (N * N) := fold_left (fun _ D => hits_last t D) (Dt t) (0, (0, 0)).
  Definition TRK (t : bytes) : list N := flat_map' (hits_docs t) (Dt t).
  Definition SUMF (t : bytes) : N := sumN (map (hits_freq t) (Dt t)).
  Definition OUT (t : bytes) := fin_out t (card t) (CS t) (PS t) (LAST t).

  Definition turns_of (T : list bytes) := flat_map' (fun t => map (item t) (idxs_with t its)) T.

  Lemma finish_insert st t R :
    Pending st t ->
    (R = [] \/ exists t2 i R', R = item t2 i :: R' /\ beq t t2 = false) ->
    (do s <- merge_loop (merge_step cm ndc nf acts) R st; finish_term ndc s)
    = (do sF <- finish_term ndc st;
       do s <- merge_loop (merge_step cm ndc nf acts) R sF; finish_term ndc s).
  Proof.
    intros HP HR. pose proof (finish_pending st t HP) as EF.
    destruct (finish_props st _ EF) as [Hprev HC]. rewrite EF. cbn [rbind].
    destruct HR as [->|[t2 [i [R' [-> Hb]]]]].
    - cbn [merge_loop rbind]. rewrite EF. symmetry. apply finish_clean. exact HC.
    - cbn [merge_loop]. f_equal.
      destruct HP as [Hp _]. unfold item. rewrite !merge_step_unfold.
      rewrite Hprev, Hp, Hb. cbn [negb orb]. rewrite EF. cbn [rbind].
      rewrite (finish_clean _ HC). cbn [rbind]. reflexivity.
  Qed.

  Lemma loop_groups : forall T st,
    Clean st -> match T with [] => True | t :: _ => PrevOK st t end ->
    strict_sorted_bytes T -> (forall t, In t T -> idxs_with t its <> []) ->
    exists s',
      (do s <- merge_loop (merge_step cm ndc nf acts) (turns_of T) st; finish_term ndc s) = Ok s'
      /\ ms_vellum s' = ms_vellum st ++ flat_map' (fun t => fst (OUT t)) T
      /\ ms_log s' = ms_log st ++ flat_map' (fun t => snd (OUT t)) T
      /\ ms_track s' = ms_track st ++ flat_map' TRK T
      /\ ms_freqs s' = ms_freqs st + sumN (map SUMF T).
  Proof.
    induction T as [|t T IH]; intros st HC HP Hs Hne.
    - exists st. cbn [turns_of flat_map' merge_loop rbind map sumN]. rewrite (finish_clean st HC).
      rewrite !app_nil_r, N.add_0_r. repeat split; reflexivity.
    - unfold turns_of. cbn [flat_map']. fold (turns_of T). rewrite merge_loop_app.
      destruct (group_run st t HC HP (Hne t (or_introl eq_refl))) as [EG HPend].
      rewrite EG. cbn [rbind].
      set (s1 := fold_left (fun s D => upd_body s t D) (Dt t) (set_ccs st t)) in *.
      inversion Hs as [|? ? Hs' Hf]; subst.
      rewrite (finish_insert s1 t (turns_of T) HPend).
      2:{ destruct T as [|t2 T']; [left; reflexivity|right].
          destruct (idxs_with t2 its) as [|i0 r] eqn:Ei.
          - exfalso. apply (Hne t2); [right; left; reflexivity|exact Ei].
          - exists t2, i0, (map (item t2) r ++ turns_of T'). split.
            + unfold turns_of. cbn [flat_map']. rewrite Ei. reflexivity.
            + apply beq_false_neq. apply blt_neq. rewrite Forall_forall in Hf. apply Hf. left. reflexivity. }
      pose proof (finish_pending s1 t HPend) as EF. rewrite EF. cbn [rbind].
      destruct (finish_props s1 _ EF) as [Hprev HCF].
      set (sF := mkMS (ms_prev s1) (ms_card s1) (ms_cs s1) [] 0 0 0 0
                      (ms_vellum s1 ++ fst (fin_out t (card t) (CS t) (ms_ps s1) (ms_last s1)))
                      (ms_track s1) (ms_freqs s1)
                      (ms_log s1 ++ snd (fin_out t (card t) (CS t) (ms_ps s1) (ms_last s1)))) in *.
      destruct (IH sF HCF) as [s' [E' [V' [L' [T' F']]]]].
      + destruct T as [|t2 T']; [exact I|]. left. rewrite Hprev. destruct HPend as [Hp _]. rewrite Hp.
        apply beq_false_neq. apply blt_neq. rewrite Forall_forall in Hf. apply Hf. left. reflexivity.
      + exact Hs'.
      + intros t' Ht'. apply Hne. right. exact Ht'.
      + exists s'. split; [exact E'|].
        pose proof (upd_fold_proj t (Dt t) (set_ccs st t)) as PJ. cbv zeta in PJ. fold s1 in PJ.
        destruct PJ as [P1 [P2 [P3 [P4 [P5 P6]]]]].
        destruct HC as [C1 [C2 [C3 [C4 C5]]]].
        assert (Eps : ms_ps s1 = PS t) by (rewrite P1; unfold set_ccs; cbn [ms_ps]; rewrite C1; reflexivity).
        assert (Elast : ms_last s1 = LAST t).
        { rewrite P6. unfold set_ccs, ms_last. cbn [ms_lastDoc ms_lastFreq ms_lastNorm].
          rewrite C3, C4, C5. reflexivity. }
        rewrite V', L', T', F'. unfold sF. cbn [ms_vellum ms_log ms_track ms_freqs].
        rewrite Eps, Elast, P2, P3, P4, P5. unfold set_ccs. cbn [ms_vellum ms_log ms_track ms_freqs].
        cbn [flat_map' map sumN]. fold (OUT t). fold (TRK t). fold (SUMF t).
        rewrite <- !app_assoc. repeat split; try reflexivity. lia.
  Qed.

  Lemma all_terms_idxs t : In t (all_terms its) -> idxs_with t its <> [].
  Proof.
    unfold all_terms. rewrite sort_dedup_bytes_In, In_flat_map'. intros [l [Hl Ht]].
    apply In_nth with (d := []) in Hl. destruct Hl as [i [Hi <-]].
    apply in_map_iff in Ht. destruct Ht as [[k v] [E Hin]]. cbn [fst] in E. subst k.
    intros E0. assert (Hx : In i (idxs_with t its)).
    { apply idxs_with_In. split; [exact Hi|]. apply has_key_In. eauto. }
    rewrite E0 in Hx. destruct Hx.
  Qed.

  (* the model, run on well formed inputs *)
  Theorem merge_field_run :
    exists r, merge_field cm ndc nf acts = Ok r
      /\ fr_dict r = flat_map' (fun t => fst (OUT t)) (all_terms its)
      /\ fr_log r = flat_map' (fun t => snd (OUT t)) (all_terms its)
      /\ fr_docs r = lenN (sort_dedup_N (map wrap32 (flat_map' TRK (all_terms its))))
      /\ fr_freqs r = sumN (map SUMF (all_terms its)).
  Proof.
    unfold merge_field, merge_turns. fold its.
    rewrite (turns_grouped its its_sorted its_nz).
    assert (ET : flat_map' (fun t => map (with_low its) (term_triples its t)) (all_terms its)
                 = turns_of (all_terms its)).
    { unfold turns_of. generalize (all_terms its). intros T. induction T as [|t T IH]; [reflexivity|].
      cbn [flat_map']. rewrite IH, items_eq. reflexivity. }
    rewrite ET.
    destruct (loop_groups (all_terms its) ms_init) as [s' [E [V [L [T F]]]]].
    - unfold Clean. cbn. auto.
    - destruct (all_terms its); [exact I|]. right. reflexivity.
    - apply sort_dedup_bytes_sorted.
    - apply all_terms_idxs.
    - destruct (merge_loop (merge_step cm ndc nf acts) (turns_of (all_terms its)) ms_init)
        as [s| | | |]; cbn [rbind] in E |- *; try discriminate.
      rewrite E. cbn [rbind]. eexists. split; [reflexivity|]. cbn [fr_dict fr_log fr_docs fr_freqs].
      rewrite V, L, T, F. cbn [ms_init ms_vellum ms_log ms_track ms_freqs app]. rewrite N.add_0_l.
      repeat split; reflexivity.
  Qed.
End Loop.

(* ================================================================== *)
(* 6. the inputs of a merge, tied to merge_spec                        *)
(* ================================================================== *)

Lemma flat_map'_filter_skip {X Y} (g : X -> list Y) (P : X -> bool) (l : list X) :
  (forall x, In x l -> P x = false -> g x = []) -> flat_map' g (filter P l) = flat_map' g l.
Proof.
  induction l as [|x l IH]; intros H; [reflexivity|]. cbn [filter flat_map'].
  destruct (P x) eqn:E; cbn [flat_map'].
  - f_equal. apply IH. intros y Hy. apply H. right. exact Hy.
  - rewrite (H x (or_introl eq_refl) E). cbn [app]. apply IH. intros y Hy. apply H. right. exact Hy.
Qed.

Lemma find_mem_terms (t : bytes) (l : list ATerm) :
  mem beq t (map fst l) = match find (fun a : ATerm => beq (fst a) t) l with Some _ => true | None => false end.
Proof.
  induction l as [|a l IH]; [reflexivity|]. cbn [map mem find]. rewrite (beq_sym t (fst a)).
  destruct (beq (fst a) t); [reflexivity|]. exact IH.
Qed.

Lemma doc_posting_nonempty (f t : bytes) (n : N) (d : ADoc) :
  mem beq t (map fst (doc_terms d f)) = match doc_posting f t (n, d) with [] => false | _ :: _ => true end.
Proof.
  unfold doc_terms, doc_posting. cbn [snd]. destruct (doc_field d f) as [df|]; [|reflexivity].
  rewrite find_mem_terms. destruct (find _ _) as [[k [fr ls]]|]; reflexivity.
Qed.

(* a term with a posting is a term of the dictionary *)
Lemma postings_term (A : ASeg) (f t : bytes) : o_postings A f t <> [] -> In t (o_terms A f).
Proof.
  rewrite o_postings_from. unfold o_terms. destruct (known_field A f); [|intros H; contradiction].
  intros H. apply sort_dedup_bytes_In. apply In_flat_map'.
  assert (Hex : exists p, In p (posts_from f t 0 (as_docs A))).
  { destruct (posts_from f t 0 (as_docs A)) as [|p l]; [contradiction|]. exists p. left. reflexivity. }
  destruct Hex as [p Hp]. unfold posts_from in Hp. apply In_flat_map' in Hp.
  destruct Hp as [[n d] [Hnd Hp]]. exists d. split.
  - apply number_from_In in Hnd. destruct Hnd as [k [_ Hk]]. eapply nth_error_In. exact Hk.
  - apply (mem_In beq beq_eq). rewrite (doc_posting_nonempty f t n d).
    destruct (doc_posting f t (n, d)); [destruct Hp|reflexivity].
Qed.

Lemma posts_from_length f t : forall docs i, lenN (posts_from f t i docs) <= lenN docs.
Proof.
  induction docs as [|d docs IH]; intros i; [unfold lenN; cbn; lia|].
  rewrite posts_from_cons, lenN_app. specialize (IH (i + 1)).
  destruct (doc_posting_shape f t i d) as [E|[x E]]; rewrite E; unfold lenN in *; cbn [length]; lia.
Qed.

Lemma in_with_tables (insE : list InE) : forall base D,
  In D (with_tables insE base) ->
  exists A dr e b, In (A, dr, e) insE /\ D = mkSD A dr e (renumber (length (as_docs A)) 0 dr b).
Proof.
  induction insE as [|[[A dr] e] r IH]; intros base D H; [destruct H|].
  cbn [with_tables] in H. destruct H as [<-|H].
  - exists A, dr, e, base. split; [left; reflexivity|reflexivity].
  - destruct (IH _ _ H) as [A' [dr' [e' [b [Hin E]]]]]. exists A', dr', e', b. split; [right; exact Hin|exact E].
Qed.

Lemma emit_doc nf tbl p : ep_doc (emit nf tbl p) = nd_of tbl p.
Proof. destruct p as [d [fr [nm ls]]]. reflexivity. Qed.
Lemma emit_freq nf tbl p : ep_freq (emit nf tbl p) = ap_freq p.
Proof. destruct p as [d [fr [nm ls]]]. reflexivity. Qed.
Lemma emit_norm nf tbl p : ep_norm (emit nf tbl p) = ap_norm p.
Proof. destruct p as [d [fr [nm ls]]]. reflexivity. Qed.

Section Main.
  Variables (cm : N) (f : bytes) (insE : list InE) (foc : ASeg -> bool).
  Local Notation ins := (ins_of insE).
  Local Notation M := (fst (merge_spec (ins_of insE))).
  Local Notation nf := (as_fields (fst (merge_spec (ins_of insE)))).
  Local Notation ndc := (o_count (fst (merge_spec (ins_of insE)))).

  Definition Ds : list SegD := descriptors insE (snd (merge_spec ins)).
  Definition DsA : list SegD := filter (fun D => foc (sd_A D)) Ds.

  Hypothesis Hins : forall A dr e, In (A, dr, e) insE ->
    wf_seg A /\ (forall t, In t (o_terms A f) -> admissible_enc A f t (e t)).
  Hypothesis Hfoc : forall A dr e, In (A, dr, e) insE -> foc A = false -> known_field A f = false.
  Hypothesis HfM : In f nf.
  Hypothesis Hcm : valid_mode cm = true.
  Hypothesis Hpos : 0 < ndc.
  Hypothesis H32 : ndc < two32.

  Lemma Ds_eq : Ds = with_tables insE 0.
  Proof. unfold Ds. rewrite merge_spec_snd. apply descriptors_with_tables. Qed.

  Lemma ins_incl A dr e : In (A, dr, e) insE -> forall x, In x (as_fields A) -> In x nf.
  Proof.
    intros Hin x Hx. apply merge_fields_In. right. exists A, dr. split; [|exact Hx].
    unfold ins_of. apply in_map_iff. exists (A, dr, e). split; [reflexivity|exact Hin].
  Qed.

  Lemma known_M : known_field M f = true.
  Proof. apply known_field_In. exact HfM. Qed.

  Lemma M_postings t : o_postings M f t = posts_from f t 0 (all_survivors ins).
  Proof. rewrite merge_postings_docs, known_M. reflexivity. Qed.

  (* (a), over all inputs *)
  Lemma PS_all t : flat_map' (seg_emit nf f t) Ds = map (to_eposting nf) (o_postings M f t).
  Proof.
    rewrite Ds_eq, M_postings. symmetry. apply merged_postings_split.
    intros A dr e Hin. split; [apply (Hins A dr e Hin)|apply (ins_incl A dr e Hin)].
  Qed.

  Lemma count_M : ndc = lenN (all_survivors ins).
  Proof. unfold o_count. rewrite merge_docs. reflexivity. Qed.

  Lemma Ds_in D : In D Ds ->
    exists A dr e b, In (A, dr, e) insE /\ D = mkSD A dr e (renumber (length (as_docs A)) 0 dr b).
  Proof. rewrite Ds_eq. apply in_with_tables. Qed.

  Lemma hits_bound D t p : In D Ds -> In p (seg_hits f t D) ->
    (N.to_nat (fst p) < length (sd_tbl D))%nat /\ nd_of (sd_tbl D) p <> docDropped
    /\ nd_of (sd_tbl D) p < ndc.
  Proof.
    intros HD Hp.
    assert (Hlt : nd_of (sd_tbl D) p < ndc).
    { assert (Hin : In (emit nf (sd_tbl D) p) (flat_map' (seg_emit nf f t) Ds)).
      { apply In_flat_map'. exists D. split; [exact HD|]. unfold seg_emit. apply in_map. exact Hp. }
      rewrite PS_all, M_postings in Hin. apply in_map_iff in Hin. destruct Hin as [q [Eq Hq]].
      apply posts_from_range in Hq. rewrite <- (emit_doc nf), <- Eq, to_eposting_doc, count_M. lia. }
    split; [|split; [|exact Hlt]].
    - destruct (Ds_in D HD) as [A [dr [e [b [Hin ->]]]]]. cbn [sd_tbl]. rewrite renumber_length.
      unfold seg_hits in Hp. cbn [sd_A sd_dr] in Hp. apply filter_In in Hp. destruct Hp as [Hp _].
      rewrite o_postings_from in Hp. destruct (known_field A f); [|destruct Hp].
      apply posts_from_range in Hp. unfold lenN in Hp. lia.
    - unfold docDropped. unfold two32 in H32. lia.
  Qed.

  Lemma DsA_in D : In D DsA -> In D Ds /\ foc (sd_A D) = true.
  Proof. unfold DsA. apply filter_In. Qed.

  Lemma HD_main : forall D, In D DsA ->
    wf_seg (sd_A D)
    /\ (forall t, In t (o_terms (sd_A D) f) -> admissible_enc (sd_A D) f t (sd_enc D t))
    /\ (forall t p, In p (seg_hits f t D) ->
          (N.to_nat (fst p) < length (sd_tbl D))%nat /\ nd_of (sd_tbl D) p <> docDropped
          /\ nd_of (sd_tbl D) p < ndc).
  Proof.
    intros D HD. apply DsA_in in HD. destruct HD as [HD _].
    destruct (Ds_in D HD) as [A [dr [e [b [Hin E]]]]].
    destruct (Hins A dr e Hin) as [Hwf Hadm].
    split; [rewrite E; exact Hwf|]. split; [rewrite E; exact Hadm|].
    intros t p Hp. apply (hits_bound D t p HD Hp).
  Qed.

  (* inputs that are not in focus, or do not have the term, emit nothing *)
  Lemma seg_hits_nil t D : In D Ds -> (foc (sd_A D) = false \/ has_term f t D = false) -> seg_hits f t D = [].
  Proof.
    intros HD Hc. unfold seg_hits.
    assert (E : o_postings (sd_A D) f t = []); [|rewrite E; reflexivity].
    destruct Hc as [Hc|Hc].
    - destruct (Ds_in D HD) as [A [dr [e [b [Hin ->]]]]]. cbn [sd_A] in *.
      rewrite o_postings_from, (Hfoc A dr e Hin Hc). reflexivity.
    - destruct (o_postings (sd_A D) f t) eqn:E; [reflexivity|exfalso].
      assert (Hin : In t (o_terms (sd_A D) f)) by (apply postings_term; rewrite E; discriminate).
      apply (mem_In beq beq_eq) in Hin. unfold has_term in Hc. congruence.
  Qed.

  Lemma Dt_all {Y} (g : SegD -> list Y) t :
    (forall D, seg_hits f t D = [] -> g D = []) ->
    flat_map' g (Dt f DsA t) = flat_map' g Ds.
  Proof.
    intros Hg. unfold Dt, DsA. rewrite !flat_map'_filter_skip; [reflexivity| |].
    - intros D HD Hc. apply Hg. apply seg_hits_nil; auto.
    - intros D HD Hc. apply filter_In in HD. destruct HD as [HD _]. apply Hg. apply seg_hits_nil; auto.
  Qed.

  (* (a): what the loop collects for term t *)
  Lemma PS_main t : PS nf f DsA t = map (to_eposting nf) (o_postings M f t).
  Proof.
    unfold PS. rewrite Dt_all; [apply PS_all|]. intros D E. unfold seg_emit. rewrite E. reflexivity.
  Qed.

  Lemma card_main t : card f DsA t = lenN (o_postings M f t).
  Proof.
    assert (E : card f DsA t = lenN (PS nf f DsA t)).
    { unfold card, PS. generalize (Dt f DsA t). intros l. induction l as [|D l IH]; [reflexivity|].
      cbn [map sumN flat_map']. rewrite lenN_app, IH. f_equal. unfold seg_emit, lenN. rewrite map_length. reflexivity. }
    rewrite E, PS_main. unfold lenN. rewrite map_length. reflexivity.
  Qed.

  Lemma card_le t : card f DsA t <= ndc.
  Proof. rewrite card_main, M_postings, count_M. apply posts_from_length. Qed.

  Lemma Hcs_main : forall t, exists cs, getChunkSize cm (card f DsA t) ndc = Some cs /\ 0 < cs.
  Proof.
    intros t. pose proof (card_le t) as Hle. unfold getChunkSize, valid_mode in *.
    unfold legacyChunkMode, chunkModeV1, maxDocsToScanSequentially in *.
    destruct (cm <=? 1024) eqn:E1.
    - exists cm. split; [reflexivity|]. lia.
    - assert (E2 : (cm =? 1025) = true) by lia. rewrite E2. eexists. split; [reflexivity|].
      set (c := card f DsA t) in *. clearbody c.
      assert (Hq : c / 1024 + 1 <= ndc).
      { destruct (N.eq_dec c 0) as [Hc|Hc]; [subst c; change (0 / 1024) with 0; lia|].
        assert (c / 1024 < c) by (apply N.div_lt; lia). lia. }
      apply N.div_str_pos. split; [lia|exact Hq].
  Qed.
  (* ---- (b) the terms that are kept ---- *)
  Definition nonempty (t : bytes) : bool :=
    match o_postings M f t with [] => false | _ :: _ => true end.

  Lemma all_terms_of t D : In D DsA -> has_term f t D = true -> In t (all_terms (its f DsA)).
  Proof.
    intros HD Ht. unfold all_terms. apply sort_dedup_bytes_In. apply In_flat_map'.
    exists (ai_itr (mk_active f D)). split.
    - unfold its, acts. rewrite map_map. apply in_map_iff. exists D. split; [reflexivity|exact HD].
    - rewrite <- ai_itr_has in Ht. apply has_key_In in Ht. destruct Ht as [v Hv].
      apply in_map_iff. exists (t, v). split; [reflexivity|exact Hv].
  Qed.

  Lemma M_term_in_all t : In t (o_terms M f) -> In t (all_terms (its f DsA)).
  Proof.
    intros Ht. apply o_terms_have_postings in Ht.
    assert (Hps : PS nf f DsA t <> []).
    { rewrite PS_main. destruct (o_postings M f t); [contradiction|discriminate]. }
    unfold PS in Hps. destruct (Dt f DsA t) as [|D l] eqn:E; [contradiction|].
    assert (HD : In D (Dt f DsA t)) by (rewrite E; left; reflexivity).
    unfold Dt in HD. apply filter_In in HD. destruct HD as [HD Hh]. eapply all_terms_of; eauto.
  Qed.

  Lemma terms_kept : filter nonempty (all_terms (its f DsA)) = o_terms M f.
  Proof.
    apply strict_sorted_bytes_ext.
    - apply sorted_filter. apply sort_dedup_bytes_sorted.
    - apply o_terms_sorted.
    - intros t. rewrite filter_In. unfold nonempty. split.
      + intros [_ Hn]. apply postings_term. destruct (o_postings M f t); [discriminate|discriminate].
      + intros Ht. split; [apply M_term_in_all; exact Ht|].
        apply o_terms_have_postings in Ht. destruct (o_postings M f t); [contradiction|reflexivity].
  Qed.

  Lemma flat_map'_single {X Y} (g : X -> list Y) (h : X -> Y) (P : X -> bool) (l : list X) :
    (forall x, In x l -> P x = false -> g x = []) ->
    (forall x, In x l -> P x = true -> g x = [h x]) ->
    flat_map' g l = map h (filter P l).
  Proof.
    induction l as [|x l IH]; intros H0 H1; [reflexivity|]. cbn [flat_map' filter].
    rewrite IH; [| intros y Hy; apply H0; right; exact Hy | intros y Hy; apply H1; right; exact Hy].
    destruct (P x) eqn:E.
    - rewrite (H1 x (or_introl eq_refl) E). reflexivity.
    - rewrite (H0 x (or_introl eq_refl) E). reflexivity.
  Qed.

  (* ---- the new bitmap ---- *)
  Lemma M_posting_doc t p : In p (o_postings M f t) -> fst p < ndc.
  Proof. rewrite M_postings, count_M. intros H. apply posts_from_range in H. lia. Qed.

  Lemma sort_dedup_N_fix (l : list N) : strict_sorted_N l -> sort_dedup_N l = l.
  Proof.
    intros H. apply strict_sorted_N_ext; [apply sort_dedup_N_sorted|exact H|apply sort_dedup_N_In].
  Qed.

  Lemma M_roaring t :
    new_roaring (map (to_eposting nf) (o_postings M f t)) = map fst (o_postings M f t).
  Proof.
    unfold new_roaring. rewrite map_map.
    rewrite (map_ext_in (fun x : APosting => wrap32 (ep_doc (to_eposting nf x))) fst).
    - apply sort_dedup_N_fix. unfold strict_sorted_N.
      apply (sorted_map (fun p q : APosting => fst p < fst q)); [auto|apply o_postings_sorted].
    - intros p Hp. rewrite to_eposting_doc. apply wrap32_small.
      pose proof (M_posting_doc t p Hp). lia.
  Qed.

  (* ---- (c) the 1-hit decision ---- *)
  Definition nonnil {X} (l : list X) : bool := match l with [] => false | _ :: _ => true end.

  Lemma nonnil_app {X} (a b : list X) : nonnil (a ++ b) = nonnil a || nonnil b.
  Proof. destruct a; reflexivity. Qed.

  Lemma survives_hits t dr : forall docs i,
    existsb (fun nd : N * ADoc => negb (memN (fst nd) dr) && mem beq t (map fst (doc_terms (snd nd) f)))
            (number_from i docs)
    = nonnil (filter (Spec.live dr) (posts_from f t i docs)).
  Proof.
    induction docs as [|d docs IH]; intros i; [reflexivity|].
    cbn [number_from existsb fst snd]. rewrite posts_from_cons, filter_app, nonnil_app, IH. f_equal.
    rewrite (doc_posting_nonempty f t i d).
    destruct (doc_posting_shape f t i d) as [E|[x E]]; rewrite E; cbn [filter].
    - apply andb_false_r.
    - unfold Spec.live. cbn [fst]. rewrite andb_true_r. destruct (negb (memN i dr)); reflexivity.
  Qed.

  Lemma has_term_known t D : has_term f t D = true -> known_field (sd_A D) f = true.
  Proof.
    unfold has_term, o_terms. destruct (known_field (sd_A D) f); [reflexivity|discriminate].
  Qed.

  Lemma survives_seg t D : has_term f t D = true ->
    survives_in (sd_A D) (sd_dr D) f t = nonnil (seg_hits f t D).
  Proof.
    intros Ht. unfold survives_in, seg_hits. rewrite o_postings_from, (has_term_known t D Ht).
    apply survives_hits.
  Qed.

  Definition lw_step (t : bytes) (acc : option (ASeg * list N)) (D : SegD) : option (ASeg * list N) :=
    if has_term f t D then Some (sd_A D, sd_dr D) else acc.

  Lemma last_with_term_Ds t : forall (l : list InE) base acc,
    fold_left (fun acc p => if mem beq t (snd p) then Some (fst p) else acc)
              (map (fun p : ASeg * list N => (p, o_terms (fst p) f)) (ins_of l)) acc
    = fold_left (lw_step t) (with_tables l base) acc.
  Proof.
    induction l as [|[[A dr] e] r IH]; intros base acc; [reflexivity|].
    cbn [ins_of map fold_left with_tables fst snd]. unfold lw_step at 2. unfold has_term. cbn [sd_A sd_dr].
    apply IH.
  Qed.

  Lemma lw_filter t : forall l acc,
    fold_left (lw_step t) l acc = fold_left (lw_step t) (filter (has_term f t) l) acc.
  Proof.
    induction l as [|D l IH]; intros acc; [reflexivity|]. cbn [fold_left filter].
    destruct (has_term f t D) eqn:E; cbn [fold_left].
    - apply IH.
    - replace (lw_step t acc D) with acc by (unfold lw_step; rewrite E; reflexivity). apply IH.
  Qed.

  Lemma filter_filter_sub {X} (P Q : X -> bool) (l : list X) :
    (forall x, In x l -> P x = true -> Q x = true) -> filter P (filter Q l) = filter P l.
  Proof.
    induction l as [|x l IH]; intros H; [reflexivity|]. cbn [filter].
    destruct (Q x) eqn:EQ; cbn [filter].
    - rewrite IH by (intros y Hy; apply H; right; exact Hy). reflexivity.
    - destruct (P x) eqn:EP.
      + rewrite (H x (or_introl eq_refl) EP) in EQ. discriminate.
      + apply IH. intros y Hy. apply H. right. exact Hy.
  Qed.

  Lemma Dt_Ds t : Dt f DsA t = filter (has_term f t) Ds.
  Proof.
    unfold Dt, DsA. apply filter_filter_sub. intros D HD Ht.
    destruct (foc (sd_A D)) eqn:E; [reflexivity|].
    destruct (Ds_in D HD) as [A [dr [e [b [Hin ->]]]]]. cbn [sd_A] in *.
    apply has_term_known in Ht. cbn [sd_A] in Ht. rewrite (Hfoc A dr e Hin E) in Ht. discriminate.
  Qed.

  Lemma last_with_term_main t L Dl :
    Dt f DsA t = L ++ [Dl] ->
    last_with_term (map (fun p : ASeg * list N => (p, o_terms (fst p) f)) ins) t = Some (sd_A Dl, sd_dr Dl).
  Proof.
    intros E. unfold last_with_term. rewrite (last_with_term_Ds t insE 0), <- Ds_eq, lw_filter, <- Dt_Ds, E.
    rewrite fold_left_app. cbn [fold_left]. unfold lw_step at 1.
    assert (Hh : has_term f t Dl = true).
    { assert (Hin : In Dl (Dt f DsA t)) by (rewrite E; apply in_or_app; right; left; reflexivity).
      unfold Dt in Hin. apply filter_In in Hin. apply Hin. }
    rewrite Hh. reflexivity.
  Qed.

  Lemma no1hit_mem t q :
    o_postings M f t = [q] ->
    existsb (fun ft : bytes * bytes => beq (fst ft) f && beq (snd ft) t) (merge_no1hit ins M)
    = match last_with_term (map (fun p : ASeg * list N => (p, o_terms (fst p) f)) ins) t with
      | Some (A, dr) => negb (survives_in A dr f t)
      | None => false
      end.
  Proof.
    intros Hq.
    assert (Ht : In t (o_terms M f)) by (apply postings_term; rewrite Hq; discriminate).
    set (tl := map (fun p : ASeg * list N => (p, o_terms (fst p) f)) ins).
    assert (Hiff : In (f, t) (merge_no1hit ins M) <->
                   In (f, t) (match last_with_term tl t with
                              | Some (A, dr) => if survives_in A dr f t then [] else [(f, t)]
                              | None => []
                              end)).
    { unfold merge_no1hit. rewrite In_flat_map'. split.
      - intros [f' [Hf' Hin]]. apply In_flat_map' in Hin. destruct Hin as [t' [Ht' Hin]].
        assert (E : f' = f /\ t' = t).
        { destruct (o_postings M f' t') as [|? [|? ?]]; try (destruct Hin; fail).
          destruct (last_with_term _ t') as [[A dr]|]; [|destruct Hin].
          destruct (survives_in A dr f' t'); [destruct Hin|].
          destruct Hin as [E|[]]. injection E as -> ->. auto. }
        destruct E as [-> ->]. rewrite Hq in Hin. exact Hin.
      - intros Hin. exists f. split; [exact HfM|]. apply In_flat_map'. exists t. split; [exact Ht|].
        rewrite Hq. exact Hin. }
    destruct (existsb _ (merge_no1hit ins M)) eqn:Ex.
    - apply existsb_exists in Ex. destruct Ex as [[f' t'] [Hin Hb]]. cbn [fst snd] in Hb.
      apply andb_prop in Hb. destruct Hb as [Hb1 Hb2]. apply beq_eq in Hb1, Hb2. subst f' t'.
      apply Hiff in Hin. destruct (last_with_term tl t) as [[A dr]|]; [|destruct Hin].
      destruct (survives_in A dr f t); [destruct Hin|reflexivity].
    - destruct (last_with_term tl t) as [[A dr]|] eqn:El; [|reflexivity].
      destruct (survives_in A dr f t) eqn:Es; [reflexivity|].
      exfalso. assert (Hin : In (f, t) (merge_no1hit ins M)) by (apply Hiff; left; reflexivity).
      assert (Ex' : existsb (fun ft : bytes * bytes => beq (fst ft) f && beq (snd ft) t) (merge_no1hit ins M) = true).
      { apply existsb_exists. exists (f, t). split; [exact Hin|]. cbn [fst snd]. rewrite !beq_refl. reflexivity. }
      congruence.
  Qed.

  Lemma land_mask31 d : d <= mask31 -> N.land mask31 d = d.
  Proof.
    intros H. rewrite N.land_comm. change mask31 with (N.ones 31). rewrite N.land_ones.
    apply N.mod_small. unfold mask31 in H. change (2 ^ 31) with 2147483648. lia.
  Qed.

  (* what the last input that has the term reports, against the single surviving posting *)
  Lemma last_single t q :
    o_postings M f t = [q] ->
    let p := to_eposting nf q in
    let no1 := existsb (fun ft : bytes * bytes => beq (fst ft) f && beq (snd ft) t) (merge_no1hit ins M) in
    (no1 = false /\ LAST f DsA t = (ep_doc p, (ep_freq p, ep_norm p)))
    \/ (no1 = true /\ LAST f DsA t = (0, (0, 0))).
  Proof.
    intros Hq p no1.
    assert (Hps : PS nf f DsA t = [p]) by (rewrite PS_main, Hq; reflexivity).
    assert (Hne : Dt f DsA t <> []).
    { intros E. unfold PS in Hps. rewrite E in Hps. discriminate. }
    destruct (exists_last Hne) as [L [Dl E]].
    assert (Hin : In Dl (Dt f DsA t)) by (rewrite E; apply in_or_app; right; left; reflexivity).
    assert (Hh : has_term f t Dl = true) by (unfold Dt in Hin; apply filter_In in Hin; apply Hin).
    assert (Hno : no1 = negb (nonnil (seg_hits f t Dl))).
    { unfold no1. rewrite (no1hit_mem t q Hq), (last_with_term_main t L Dl E), survives_seg by exact Hh.
      reflexivity. }
    assert (HL : LAST f DsA t = hits_last f t Dl).
    { unfold LAST. rewrite E, fold_left_app. reflexivity. }
    unfold PS in Hps. rewrite E, flat_map'_app in Hps. cbn [flat_map'] in Hps. rewrite app_nil_r in Hps.
    destruct (seg_hits f t Dl) as [|h hs] eqn:Eh.
    - right. split; [rewrite Hno; reflexivity|]. rewrite HL. unfold hits_last. rewrite Eh. reflexivity.
    - left. split; [rewrite Hno; reflexivity|]. rewrite HL. unfold hits_last. rewrite Eh.
      set (X := flat_map' (seg_emit nf f t) L) in *. clearbody X.
      unfold seg_emit in Hps. rewrite Eh in Hps. cbn [map] in Hps.
      destruct X as [|x xs].
      + cbn [app] in Hps. injection Hps as Hp Hhs. apply map_eq_nil in Hhs. subst hs.
        unfold last3. cbn [last]. rewrite <- Hp, emit_doc, emit_freq, emit_norm. reflexivity.
      + cbn [app] in Hps. injection Hps as _ Hbad. destruct xs; discriminate.
  Qed.

  (* ---- (c) the encoding of a kept term ---- *)
  Definition mslot : Slot := mkSlot M cm true (merge_no1hit ins M).

  Lemma OUT_empty t : nonempty t = false -> OUT cm ndc nf f DsA t = ([], []).
  Proof.
    unfold nonempty, OUT. intros H. rewrite PS_main. destruct (o_postings M f t); [reflexivity|discriminate].
  Qed.

  Lemma map_fst_eposting (P : list APosting) : map fst P = map ep_doc (map (to_eposting nf) P).
  Proof. rewrite map_map. apply map_ext. intros p. rewrite to_eposting_doc. reflexivity. Qed.

  Lemma OUT_kept t : nonempty t = true ->
    OUT cm ndc nf f DsA t =
    ([(t, encode_term mslot f t)],
     [mkTL t (lenN (o_postings M f t))
           (opt_default 0 (getChunkSize cm (lenN (o_postings M f t)) ndc))
           (map (to_eposting nf) (o_postings M f t)) (LAST f DsA t)]).
  Proof.
    intros Hn. unfold OUT. rewrite PS_main. unfold CS. rewrite card_main. unfold fin_out.
    rewrite M_roaring. unfold encode_term, mslot. cbn [sl_seg sl_cm sl_merged sl_no1hit].
    set (P := o_postings M f t) in *. rewrite (map_fst_eposting P).
    set (cs := opt_default 0 (getChunkSize cm (lenN P) ndc)).
    assert (Elen : lenN (map (to_eposting nf) P) = lenN P) by (unfold lenN; rewrite map_length; reflexivity).
    rewrite Elen. fold cs.
    unfold nonempty in Hn. fold P in Hn. unfold encode_gen.
    destruct P as [|q [|q2 P']] eqn:EP; [discriminate| |].
    - (* exactly one posting *)
      cbn [map]. set (p := to_eposting nf q). cbn [existsb]. rewrite !orb_false_r.
      change (lenN [ep_doc p] =? 1) with true. cbn [andb].
      destruct (last_single t q EP) as [[Hno HL]|[Hno HL]]; cbv zeta in Hno, HL; fold p in HL;
        rewrite Hno, HL; cbn [fst snd negb].
      + rewrite N.eqb_refl, !andb_true_r.
        destruct (negb (ep_hasLocs p) && (ep_doc p <=? mask31) && (ep_freq p =? 1)) eqn:Ec.
        * apply andb_prop in Ec. destruct Ec as [Ec _]. apply andb_prop in Ec. destruct Ec as [_ Ec].
          rewrite land_mask31 by lia. rewrite (N.land_comm mask31). reflexivity.
        * reflexivity.
      + rewrite !andb_false_r. reflexivity.
    - (* at least two *)
      cbn [map].
      set (bm := ep_doc (to_eposting nf q) :: ep_doc (to_eposting nf q2) :: map ep_doc (map (to_eposting nf) P')).
      assert (E2 : (lenN bm =? 1) = false) by (unfold bm, lenN; cbn [length]; lia).
      rewrite E2. cbn [andb]. reflexivity.
  Qed.

  Lemma dict_main :
    flat_map' (fun t => fst (OUT cm ndc nf f DsA t)) (all_terms (its f DsA))
    = map (fun t => (t, encode_term mslot f t)) (o_terms M f).
  Proof.
    rewrite <- terms_kept. apply flat_map'_single.
    - intros t _ H. rewrite OUT_empty by exact H. reflexivity.
    - intros t _ H. rewrite OUT_kept by exact H. reflexivity.
  Qed.

  Lemma log_main :
    flat_map' (fun t => snd (OUT cm ndc nf f DsA t)) (all_terms (its f DsA))
    = map (fun t => mkTL t (lenN (o_postings M f t))
                         (opt_default 0 (getChunkSize cm (lenN (o_postings M f t)) ndc))
                         (map (to_eposting nf) (o_postings M f t)) (LAST f DsA t))
          (o_terms M f).
  Proof.
    rewrite <- terms_kept. apply flat_map'_single.
    - intros t _ H. rewrite OUT_empty by exact H. reflexivity.
    - intros t _ H. rewrite OUT_kept by exact H. reflexivity.
  Qed.
  (* ---- (d) the field statistics ---- *)
  Lemma flat_map'_ext_in {X Y} (g h : X -> list Y) (l : list X) :
    (forall x, In x l -> g x = h x) -> flat_map' g l = flat_map' h l.
  Proof.
    induction l as [|x l IH]; intros H; [reflexivity|]. cbn [flat_map'].
    rewrite (H x (or_introl eq_refl)), IH by (intros y Hy; apply H; right; exact Hy). reflexivity.
  Qed.

  Lemma TRK_main t : TRK f DsA t = map fst (o_postings M f t).
  Proof.
    unfold TRK. rewrite Dt_all by (intros D E; unfold hits_docs; rewrite E; reflexivity).
    rewrite map_fst_eposting, <- PS_all. generalize Ds. intros l.
    induction l as [|D l IH]; [reflexivity|]. cbn [flat_map']. rewrite map_app, <- IH. f_equal.
    unfold seg_emit, hits_docs. rewrite map_map. apply map_ext. intros p. rewrite emit_doc. reflexivity.
  Qed.

  Lemma SUMF_main t : SUMF f DsA t = sumN (map ap_freq (o_postings M f t)).
  Proof.
    assert (E : SUMF f DsA t = sumN (map ep_freq (PS nf f DsA t))).
    { unfold SUMF, PS. generalize (Dt f DsA t). intros l. induction l as [|D l IH]; [reflexivity|].
      cbn [map sumN flat_map']. rewrite map_app, sumN_app, <- IH. f_equal.
      unfold hits_freq, seg_emit. rewrite map_map. f_equal. apply map_ext. intros p.
      rewrite emit_freq. reflexivity. }
    rewrite E, PS_main, map_map. f_equal. apply map_ext. intros [d [fr [nm ls]]]. reflexivity.
  Qed.

  Lemma not_nonempty_postings t : nonempty t = false -> o_postings M f t = [].
  Proof. unfold nonempty. destruct (o_postings M f t); [reflexivity|discriminate]. Qed.

  Lemma track_main :
    flat_map' (TRK f DsA) (all_terms (its f DsA))
    = flat_map' (fun t => map fst (o_postings M f t)) (o_terms M f).
  Proof.
    rewrite (flat_map'_ext_in (TRK f DsA) (fun t => map fst (o_postings M f t)))
      by (intros t _; apply TRK_main).
    rewrite <- terms_kept. symmetry. apply flat_map'_filter_skip.
    intros t _ H. rewrite (not_nonempty_postings t H). reflexivity.
  Qed.

  Lemma freqs_main :
    sumN (map (SUMF f DsA) (all_terms (its f DsA)))
    = sumN (map (fun t => sumN (map ap_freq (o_postings M f t))) (o_terms M f)).
  Proof.
    rewrite (map_ext (SUMF f DsA) _ SUMF_main). rewrite <- terms_kept.
    generalize (all_terms (its f DsA)). intros T. induction T as [|t T IH]; [reflexivity|].
    cbn [map sumN filter]. destruct (nonempty t) eqn:E; cbn [map sumN]; rewrite IH; [reflexivity|].
    rewrite (not_nonempty_postings t E). reflexivity.
  Qed.

  Definition hasf (d : ADoc) : bool := negb (match doc_terms d f with [] => true | _ :: _ => false end).

  Lemma number_from_filter_sorted {X} (P : N * X -> bool) : forall (l : list X) i,
    strict_sorted_N (map fst (filter P (number_from i l)))
    /\ forall x, In x (map fst (filter P (number_from i l))) -> i <= x.
  Proof.
    unfold strict_sorted_N. induction l as [|y l IH]; intros i; [split; [constructor|intros x []]|].
    cbn [number_from filter]. destruct (IH (i + 1)) as [I1 I2].
    destruct (P (i, y)); cbn [map fst].
    - split.
      + constructor; [exact I1|]. apply Forall_forall. intros x Hx. apply I2 in Hx. lia.
      + intros x [<-|Hx]; [lia|]. apply I2 in Hx. lia.
    - split; [exact I1|]. intros x Hx. apply I2 in Hx. lia.
  Qed.

  Lemma number_from_filter_length {X} (P : X -> bool) : forall (l : list X) i,
    length (filter (fun nd : N * X => P (snd nd)) (number_from i l)) = length (filter P l).
  Proof.
    induction l as [|y l IH]; intros i; [reflexivity|]. cbn [number_from filter snd].
    destruct (P y); cbn [length]; rewrite IH; reflexivity.
  Qed.

  Lemma find_some_nonnil (t : bytes) (l : list ATerm) v :
    find (fun a : ATerm => beq (fst a) t) l = Some v -> l <> [].
  Proof. destruct l; [discriminate|discriminate]. Qed.

  Lemma docs_tracked :
    sort_dedup_N (map wrap32 (flat_map' (fun t => map fst (o_postings M f t)) (o_terms M f)))
    = map fst (filter (fun nd : N * ADoc => hasf (snd nd)) (number_from 0 (as_docs M))).
  Proof.
    set (X := flat_map' (fun t => map fst (o_postings M f t)) (o_terms M f)).
    assert (EX : map wrap32 X = X).
    { rewrite <- (map_id X) at 2. apply map_ext_in. intros d Hd. unfold X in Hd.
      apply In_flat_map' in Hd. destruct Hd as [t [_ Hd]]. apply in_map_iff in Hd.
      destruct Hd as [p [<- Hp]]. apply wrap32_small. pose proof (M_posting_doc t p Hp). lia. }
    rewrite EX. apply strict_sorted_N_ext.
    - apply sort_dedup_N_sorted.
    - apply number_from_filter_sorted.
    - intros d. rewrite sort_dedup_N_In. unfold X. rewrite In_flat_map'. split.
      + intros [t [_ Hd]]. apply postings_docs_iff in Hd.
        destruct Hd as [_ [doc [df [Hn [Hlt [Hdf [v Hv]]]]]]].
        apply in_map_iff. exists (d, doc). split; [reflexivity|]. apply filter_In. split.
        * apply number_from_In. exists (N.to_nat d). split; [lia|].
          rewrite <- nthN_nth_error. exact Hn.
        * cbn [snd]. unfold hasf, doc_terms. rewrite Hdf.
          pose proof (find_some_nonnil t _ v Hv). destruct (adf_terms df); [contradiction|reflexivity].
      + intros Hd. apply in_map_iff in Hd. destruct Hd as [[d' doc] [E Hin]]. cbn [fst] in E. subst d'.
        apply filter_In in Hin. destruct Hin as [Hin Hh]. cbn [snd] in Hh.
        unfold hasf, doc_terms in Hh. destruct (doc_field doc f) as [df|] eqn:Edf; [|discriminate].
        destruct (adf_terms df) as [|a l] eqn:Eat; [discriminate|].
        assert (Hdt : In d (map fst (o_postings M f (fst a)))).
        { apply postings_docs_iff. split; [apply known_M|].
          apply number_from_In in Hin. destruct Hin as [k [Ek Hk]].
          exists doc, df. split; [|split; [|split]].
          - rewrite nthN_nth_error. replace (N.to_nat d) with k by lia. exact Hk.
          - unfold o_count, lenN.
            assert (Hlt : (k < length (as_docs M))%nat) by (apply nth_error_Some; rewrite Hk; discriminate).
            lia.
          - exact Edf.
          - exists a. rewrite Eat. cbn [find]. rewrite beq_refl. reflexivity. }
        exists (fst a). split; [|exact Hdt].
        apply postings_term. intros E0. rewrite E0 in Hdt. destruct Hdt.
  Qed.
  Lemma docs_main :
    lenN (sort_dedup_N (map wrap32 (flat_map' (TRK f DsA) (all_terms (its f DsA)))))
    = fst (merged_stats (as_docs M) f).
  Proof.
    rewrite track_main, docs_tracked. unfold merged_stats. cbn [fst]. unfold lenN. f_equal.
    rewrite map_length. apply (number_from_filter_length hasf).
  Qed.

  (* the frequency of term t in document d, 0 when absent *)
  Definition tf (d : ADoc) (t : bytes) : N :=
    match doc_field d f with
    | Some df =>
        match find (fun a : ATerm => beq (fst a) t) (adf_terms df) with
        | Some (_, (fr, _)) => fr
        | None => 0
        end
    | None => 0
    end.

  Lemma posts_freq_sum t : forall docs i,
    sumN (map ap_freq (posts_from f t i docs)) = sumN (map (fun d => tf d t) docs).
  Proof.
    induction docs as [|d docs IH]; intros i; [reflexivity|].
    rewrite posts_from_cons, map_app, sumN_app, IH. cbn [map sumN]. f_equal.
    unfold doc_posting, tf. cbn [snd fst]. destruct (doc_field d f) as [df|]; [|reflexivity].
    destruct (find _ _) as [[k [fr ls]]|]; [|reflexivity]. cbn [map sumN ap_freq fst snd]. unfold ap_freq. cbn. lia.
  Qed.

  Lemma sum_add {X} (a b : X -> N) (l : list X) :
    sumN (map (fun x => a x + b x) l) = sumN (map a l) + sumN (map b l).
  Proof. induction l as [|x l IH]; [reflexivity|]. cbn [map sumN]. rewrite IH. lia. Qed.

  Lemma sum_swap {X Y} (g : X -> Y -> N) (xs : list X) (ys : list Y) :
    sumN (map (fun y => sumN (map (fun x => g x y) xs)) ys)
    = sumN (map (fun x => sumN (map (fun y => g x y) ys)) xs).
  Proof.
    induction ys as [|y ys IH].
    - cbn [map sumN]. induction xs as [|x xs IHx]; [reflexivity|]. cbn [map sumN]. rewrite <- IHx. reflexivity.
    - cbn [map sumN]. rewrite IH, <- sum_add. reflexivity.
  Qed.

  Lemma sum_zero {X} (l : list X) : sumN (map (fun _ => 0) l) = 0.
  Proof. induction l as [|x l IH]; [reflexivity|]. cbn [map sumN]. rewrite IH. reflexivity. Qed.

  Lemma sum_point (G : bytes -> N) (k : bytes) (a : N) : forall T,
    NoDup T -> In k T -> G k = 0 ->
    sumN (map (fun t => if beq k t then a else G t) T) = a + sumN (map G T).
  Proof.
    induction T as [|x T IH]; intros Hnd Hin HG; [destruct Hin|].
    inversion Hnd as [|? ? Hni Hnd']; subst. cbn [map sumN].
    destruct Hin as [->|Hin].
    - rewrite beq_refl, HG.
      rewrite (map_ext_in (fun t => if beq k t then a else G t) G); [lia|].
      intros t Ht. destruct (beq k t) eqn:E; [|reflexivity]. apply beq_eq in E. subst t. contradiction.
    - destruct (beq k x) eqn:E.
      + apply beq_eq in E. subst x. contradiction.
      + rewrite IH by assumption. lia.
  Qed.

  Lemma find_notin (t : bytes) (l : list ATerm) :
    ~ In t (map fst l) -> find (fun a : ATerm => beq (fst a) t) l = None.
  Proof.
    induction l as [|a l IH]; intros H; [reflexivity|]. cbn [find].
    destruct (beq (fst a) t) eqn:E.
    - apply beq_eq in E. exfalso. apply H. left. exact E.
    - apply IH. intros Hin. apply H. right. exact Hin.
  Qed.

  Definition freq_in (l : list ATerm) (t : bytes) : N :=
    match find (fun a : ATerm => beq (fst a) t) l with Some (_, (fr, _)) => fr | None => 0 end.

  Lemma sum_find (T : list bytes) : forall (l : list ATerm),
    NoDup T -> NoDup (map fst l) -> (forall a, In a l -> In (fst a) T) ->
    sumN (map (freq_in l) T) = sumN (map (fun a : ATerm => fst (snd a)) l).
  Proof.
    induction l as [|[k [fr ls]] l IH]; intros HT Hl Hin.
    - unfold freq_in. cbn [find map sumN]. apply sum_zero.
    - cbn [map sumN fst snd]. cbn [map fst] in Hl. inversion Hl as [|? ? Hni Hl']; subst.
      rewrite <- IH; [|exact HT|exact Hl'|intros a Ha; apply Hin; right; exact Ha].
      rewrite <- (sum_point (freq_in l) k fr T HT).
      + f_equal. apply map_ext. intros t. unfold freq_in. cbn [find fst]. destruct (beq k t); reflexivity.
      + apply (Hin (k, (fr, ls))). left. reflexivity.
      + unfold freq_in. rewrite find_notin by exact Hni. reflexivity.
  Qed.

  Lemma M_doc_source d : In d (as_docs M) -> exists A dr e, In (A, dr, e) insE /\ In d (as_docs A).
  Proof.
    rewrite merge_docs. intros H. apply In_flat_map' in H. destruct H as [[A dr] [Hin Hd]].
    unfold ins_of in Hin. apply in_map_iff in Hin. destruct Hin as [[[A' dr'] e] [E Hin]].
    cbn [fst] in E. injection E as -> ->. exists A, dr, e. split; [exact Hin|].
    cbn [fst snd] in Hd. rewrite survivors_keep in Hd. eapply keep_In. exact Hd.
  Qed.

  Lemma doc_freq_sum d : In d (as_docs M) ->
    sumN (map (fun t => tf d t) (o_terms M f))
    = sumN (map (fun t : ATerm => fst (snd t)) (doc_terms d f)).
  Proof.
    intros Hd. unfold tf, doc_terms. destruct (doc_field d f) as [df|] eqn:Edf.
    2:{ cbn [map sumN]. apply sum_zero. }
    apply (sum_find (o_terms M f) (adf_terms df)).
    - apply strict_sorted_bytes_NoDup. apply o_terms_sorted.
    - destruct (M_doc_source d Hd) as [A [dr [e [Hin HdA]]]]. destruct (Hins A dr e Hin) as [Hwf _].
      apply (wf_terms_nodup A Hwf d df HdA). unfold doc_field in Edf. apply find_some in Edf. apply Edf.
    - intros a Ha. unfold o_terms. rewrite known_M. apply sort_dedup_bytes_In. apply In_flat_map'.
      exists d. split; [exact Hd|]. unfold doc_terms. rewrite Edf. apply in_map. exact Ha.
  Qed.

  Lemma freqs_stats :
    sumN (map (fun t => sumN (map ap_freq (o_postings M f t))) (o_terms M f))
    = snd (merged_stats (as_docs M) f).
  Proof.
    unfold merged_stats. cbn [snd].
    rewrite (map_ext (fun t => sumN (map ap_freq (o_postings M f t)))
                     (fun t => sumN (map (fun d => tf d t) (as_docs M)))).
    2:{ intros t. rewrite o_postings_from, known_M. apply posts_freq_sum. }
    rewrite sum_swap. f_equal. apply map_ext_in. intros d Hd. apply doc_freq_sum. exact Hd.
  Qed.

  (* ---- the active inputs as setupActiveForField builds them ---- *)
  Definition seg_input (D : SegD) : list bytes * option (list (bytes * EncPL)) * list N * list N :=
    (as_fields (sd_A D),
     (if foc (sd_A D) then Some (map (fun t => (t, sd_enc D t)) (o_terms (sd_A D) f)) else None),
     sd_dr D, sd_tbl D).
  Definition merge_acts : list ActiveIn := setup_active (map seg_input Ds).

  Lemma merge_acts_eq : merge_acts = acts f DsA.
  Proof.
    unfold merge_acts, acts, DsA. generalize Ds. intros l.
    induction l as [|D l IH]; [reflexivity|].
    unfold setup_active in *. cbn [map flat_map' filter]. rewrite IH. unfold seg_input at 1.
    destruct (foc (sd_A D)); reflexivity.
  Qed.

  (* ================================================================ *)
  (* 7. the theorems                                                   *)
  (* ================================================================ *)

  Definition log_view (l : TermLog) : bytes * N * N * list EPosting :=
    (tl_term l, tl_card l, tl_cs l, tl_ps l).

  (* everything at once *)
  Theorem merge_field_correct :
    exists r, merge_field cm ndc nf merge_acts = Ok r
      /\ fr_dict r = map (fun t => (t, encode_term mslot f t)) (o_terms M f)
      /\ map log_view (fr_log r)
         = map (fun t => (t, lenN (o_postings M f t),
                          opt_default 0 (getChunkSize cm (lenN (o_postings M f t)) ndc),
                          map (to_eposting nf) (o_postings M f t))) (o_terms M f)
      /\ fr_docs r = fst (merged_stats (as_docs M) f)
      /\ fr_freqs r = snd (merged_stats (as_docs M) f).
  Proof.
    rewrite merge_acts_eq.
    destruct (merge_field_run cm ndc nf f DsA HD_main Hcs_main) as [r [E [V [L [T F]]]]].
    exists r. split; [exact E|]. split; [rewrite V; apply dict_main|].
    split; [rewrite L, log_main, map_map; reflexivity|].
    split; [rewrite T; apply docs_main|]. rewrite F, freqs_main. apply freqs_stats.
  Qed.

  (* (a) the postings collected for every term of the inputs - also those
     that end up without survivor - are the merged postings of the term *)
  Theorem collected_postings t :
    PS nf f DsA t = map (to_eposting nf) (o_postings M f t).
  Proof. apply PS_main. Qed.

  (* (a) as the run records it at finishTerm, for the terms it inserts *)
  Theorem merge_term_postings r :
    merge_field cm ndc nf merge_acts = Ok r ->
    map (fun l => (tl_term l, tl_ps l)) (fr_log r)
    = map (fun t => (t, map (to_eposting nf) (o_postings M f t))) (o_terms M f).
  Proof.
    intros E. destruct merge_field_correct as [r' [E' [_ [L _]]]]. rewrite E in E'. injection E' as <-.
    rewrite <- (map_map log_view (fun v : bytes * N * N * list EPosting => (fst (fst (fst v)), snd v))).
    rewrite L, map_map. reflexivity.
  Qed.

  (* (b) the terms kept are the terms of the merged segment, in order *)
  Theorem merge_terms r :
    merge_field cm ndc nf merge_acts = Ok r -> map fst (fr_dict r) = o_terms M f.
  Proof.
    intros E. destruct merge_field_correct as [r' [E' [V _]]]. rewrite E in E'. injection E' as <-.
    rewrite V, map_map. cbn [fst]. apply map_id.
  Qed.

  (* (c) every kept term is encoded as Run.encode_term says, 1-hit rule included;
     newCard is the number of merged postings and the chunk size follows *)
  Theorem merge_encoding r :
    merge_field cm ndc nf merge_acts = Ok r ->
    fr_dict r = map (fun t => (t, encode_term mslot f t)) (o_terms M f)
    /\ map (fun l => (tl_term l, tl_card l, tl_cs l)) (fr_log r)
       = map (fun t => (t, lenN (o_postings M f t),
                        opt_default 0 (getChunkSize cm (lenN (o_postings M f t)) ndc))) (o_terms M f).
  Proof.
    intros E. destruct merge_field_correct as [r' [E' [V [L _]]]]. rewrite E in E'. injection E' as <-.
    split; [exact V|].
    rewrite <- (map_map log_view (fun v : bytes * N * N * list EPosting => fst v)).
    rewrite L, map_map. reflexivity.
  Qed.

  (* (d) the repaired statistics *)
  Theorem merge_field_stats r :
    merge_field cm ndc nf merge_acts = Ok r ->
    fr_docs r = fst (merged_stats (as_docs M) f) /\ fr_freqs r = snd (merged_stats (as_docs M) f).
  Proof.
    intros E. destruct merge_field_correct as [r' [E' [_ [_ [T F]]]]]. rewrite E in E'. injection E' as <-.
    split; assumption.
  Qed.

  (* (e) no error, no panic, enough fuel *)
  Theorem merge_field_total : exists r, merge_field cm ndc nf merge_acts = Ok r.
  Proof. destruct merge_field_correct as [r [E _]]. exists r. exact E. Qed.
  (* the abstraction of tfEncoder / locEncoder made in the model is justified for
     the postings the loop collects: fed with their freq_adds / loc_adds and the
     chunk size of prepareNewTerm, the two coders hold exactly the chunk streams
     of encode_gen (IntCoder_Proofs.writer_encodes_gen) *)
  Theorem merged_term_coders (zc zd : bytes -> bytes) :
    (forall b, zd (zc b) = b) -> zc [] = [] -> (forall b, b <> [] -> zc b <> []) ->
    forall t,
    let ps := map (to_eposting nf) (o_postings M f t) in
    let cs := opt_default 0 (getChunkSize cm (lenN (o_postings M f t)) ndc) in
    exists cf cl,
      IntCoder.run_term zc cs (ndc - 1) (IntCoder.freq_adds ps) = Ok cf
      /\ IntCoder.run_term zc cs (ndc - 1) (IntCoder.loc_adds ps) = Ok cl
      /\ read_back zd cs (map ep_doc ps) cf cl = encode_gen cs (N.to_nat (ms_total ndc cs)) ps.
  Proof.
    intros Hz1 Hz2 Hz3 t ps cs.
    assert (Hcs : 0 < cs).
    { destruct (Hcs_main t) as [c [E H]]. rewrite card_main in E. unfold cs. rewrite E. exact H. }
    apply (writer_encodes_gen zc zd Hz1 Hz2 Hz3 cs (ndc - 1) ps Hcs).
    - assert (Hq : (ndc - 1) / cs <= ndc - 1).
      { apply N.div_le_upper_bound; [lia|]. rewrite <- (N.mul_1_l (ndc - 1)) at 1.
        apply N.mul_le_mono_r. lia. }
      unfold two32, two64 in *. lia.
    - unfold ps. apply (sorted_map (fun p q : APosting => fst p < fst q)); [|apply o_postings_sorted].
      intros a b Hab. unfold le_pdoc. rewrite !to_eposting_doc. lia.
    - apply Forall_forall. intros p Hp. unfold ps in Hp. apply in_map_iff in Hp.
      destruct Hp as [q [<- Hq]]. rewrite to_eposting_doc. pose proof (M_posting_doc t q Hq). lia.
  Qed.
End Main.

(* ================================================================== *)
(* 8. (f) an example: two inputs, a deletion, a 1-hit term, and a term  *)
(*    whose last input contributes no survivor                         *)
(* ================================================================== *)

Definition exf : bytes := [97].     (* field "a" *)
Definition extx : bytes := [120].   (* "x": only in the first input, one posting of frequency 1 *)
Definition exty : bytes := [121].   (* "y": in both inputs, the posting of the second one is deleted *)
Definition extz : bytes := [122].   (* "z": only in the second input, with locations *)

Definition ex_mkdoc (idv : N) (terms : list ATerm) : ADoc :=
  mkADoc [ mkADF id_name 1065353216 [([idv], (1, []))] false; mkADF exf 1060439283 terms false ]
         [(id_name, [idv])].
Definition ex_segA : ASeg :=
  mkASeg [id_name; exf] [ex_mkdoc 48 [(extx, (1, []))]; ex_mkdoc 49 [(exty, (1, []))]] [].
Definition ex_segB : ASeg :=
  mkASeg [id_name; exf]
         [ex_mkdoc 50 [(exty, (1, []))];
          ex_mkdoc 51 [(extz, (2, [(exf, (1, (0, 3))); (exf, (4, (10, 13)))]))]] [].

Definition ex_gen (A : ASeg) (cs : N) (total : nat) (t : bytes) : EncPL :=
  encode_gen cs total (map (to_eposting (as_fields A)) (o_postings A exf t)).
(* the first input stores "x" in the 1-hit form (a segment written by a merge) *)
Definition ex_encA (t : bytes) : EncPL :=
  if beq t extx then E1Hit 0 1060439283 else ex_gen ex_segA 1 2 t.

Definition ex_insE : list InE := [(ex_segA, [], ex_encA); (ex_segB, [0], ex_gen ex_segB 2 1)].
Definition ex_M : ASeg := fst (merge_spec (ins_of ex_insE)).
Definition ex_acts : list ActiveIn := merge_acts exf ex_insE (fun A => known_field A exf).

(* "x" becomes a 1-hit; "y" has a single surviving posting of frequency 1
   without locations but is NOT 1-hit encoded, because the last input that has
   it (the second one) delivers no posting and leaves lastFreq = 0; "z" keeps
   its locations under the merged field ids; documents are renumbered 0, 1, 2 *)
Example ex_merge_field :
  merge_field 1025 (o_count ex_M) (as_fields ex_M) ex_acts
  = Ok (mkFR
      [ (extx, E1Hit 0 1060439283);
        (exty, EGen [1] 3 [[2; 243; 137; 212; 249; 3]] None);
        (extz, EGen [2] 3 [[5; 243; 137; 212; 249; 3]] (Some [[8; 1; 1; 0; 3; 1; 4; 10; 13]])) ]
      3 4
      [ mkTL extx 1 3 [(0, (1, (1060439283, [])))] (0, (1, 1060439283));
        mkTL exty 1 3 [(1, (1, (1060439283, [])))] (0, (0, 0));
        mkTL extz 1 3 [(2, (2, (1060439283, [(1, (1, (0, 3))); (1, (4, (10, 13)))])))] (2, (2, 1060439283)) ]).
Proof. vm_compute. reflexivity. Qed.

(* the same result, computed from the specification side *)
Example ex_merge_field_spec :
  match merge_field 1025 (o_count ex_M) (as_fields ex_M) ex_acts with
  | Ok r =>
      fr_dict r = map (fun t => (t, encode_term (mslot 1025 ex_insE) exf t)) (o_terms ex_M exf)
      /\ (fr_docs r, fr_freqs r) = merged_stats (as_docs ex_M) exf
      /\ merge_no1hit (ins_of ex_insE) ex_M = [(exf, exty)]
  | _ => False
  end.
Proof. vm_compute. repeat split; reflexivity. Qed.

(* ------------------------------------------------------------------ *)
(* a boolean check of wf_seg, to show that the hypotheses are not vacuous *)
(* ------------------------------------------------------------------ *)

Definition wf_locb (nfields : nat) (l : ELoc) : bool :=
  let '(fi, (p, (s, e))) := l in
  Nat.ltb (N.to_nat fi) nfields && (fi <? two64) && (p <? two64) && (s <? two64) && (e <? two64).
Definition wf_postingb (nfields : nat) (p : EPosting) : bool :=
  (ep_doc p <? two32) && (ep_freq p <? 9223372036854775808) && (ep_norm p <? two32)
  && Nat.leb (length (ep_locs p)) (N.to_nat (ep_freq p))
  && forallb (wf_locb nfields) (ep_locs p)
  && (sumN (map loc_size (ep_locs p)) <? two64).
Definition wf_apostingb (fields : list bytes) (p : APosting) : bool :=
  wf_postingb (length fields) (to_eposting fields p)
  && forallb (fun l : ALoc => mem beq (fst l) fields) (snd (snd (snd p)))
  && negb (ap_norm p =? 0).

Lemma wf_locb_sound n l : wf_locb n l = true -> wf_loc n l.
Proof.
  destruct l as [fi [p [s e]]]. unfold wf_locb, wf_loc. intros H.
  repeat (apply andb_prop in H; destruct H as [H ?]).
  apply Nat.ltb_lt in H. repeat split; try (apply N.ltb_lt; assumption). exact H.
Qed.

Lemma wf_postingb_sound n p : wf_postingb n p = true -> wf_posting n p.
Proof.
  unfold wf_postingb, wf_posting. intros H.
  repeat (apply andb_prop in H; destruct H as [H ?]).
  repeat split; try (apply N.ltb_lt; assumption).
  - apply Nat.leb_le. assumption.
  - apply Forall_forall. intros l Hl.
    match goal with Hf : forallb _ _ = true |- _ => rewrite forallb_forall in Hf; apply wf_locb_sound, Hf, Hl end.
Qed.

Lemma wf_apostingb_sound fields p : wf_apostingb fields p = true -> wf_aposting fields p.
Proof.
  unfold wf_apostingb, wf_aposting. intros H.
  apply andb_prop in H. destruct H as [H H3]. apply andb_prop in H. destruct H as [H1 H2].
  split; [apply wf_postingb_sound; exact H1|]. split.
  - apply Forall_forall. intros l Hl. rewrite forallb_forall in H2. apply (mem_In beq beq_eq). apply H2, Hl.
  - apply negb_true_iff in H3. apply N.eqb_neq. exact H3.
Qed.

Fixpoint nodupb (l : list bytes) : bool :=
  match l with [] => true | x :: r => negb (mem beq x r) && nodupb r end.

Lemma nodupb_sound l : nodupb l = true -> NoDup l.
Proof.
  induction l as [|x r IH]; intros H; [constructor|]. cbn [nodupb] in H.
  apply andb_prop in H. destruct H as [H1 H2]. constructor; [|apply IH; exact H2].
  intros Hin. apply (mem_In beq beq_eq) in Hin. rewrite Hin in H1. discriminate.
Qed.

Definition wf_segb (A : ASeg) : bool :=
  forallb (fun nd : N * ADoc =>
     forallb (fun df =>
        mem beq (adf_name df) (as_fields A) && nodupb (map fst (adf_terms df))
        && forallb (fun a : ATerm =>
              wf_apostingb (as_fields A) (fst nd, (fst (snd a), (adf_norm df, snd (snd a)))))
             (adf_terms df))
       (ad_fields (snd nd)))
    (number_from 0 (as_docs A))
  && (o_count A <? 2147483648).

Lemma o_postings_entry (A : ASeg) (f t : bytes) (p : APosting) :
  In p (o_postings A f t) ->
  exists n d df a, In (n, d) (number_from 0 (as_docs A)) /\ In df (ad_fields d) /\ In a (adf_terms df)
                   /\ p = (n, (fst (snd a), (adf_norm df, snd (snd a)))).
Proof.
  rewrite o_postings_from. destruct (known_field A f); [|intros []].
  unfold posts_from. intros H. apply In_flat_map' in H. destruct H as [[n d] [Hnd Hp]].
  unfold doc_posting in Hp. cbn [fst snd] in Hp.
  destruct (doc_field d f) as [df|] eqn:Edf; [|destruct Hp].
  match type of Hp with context [match ?x with _ => _ end] => destruct x as [[k [fr ls]]|] eqn:Ef end; [|destruct Hp].
  destruct Hp as [<-|[]]. exists n, d, df, (k, (fr, ls)). split; [exact Hnd|].
  unfold doc_field in Edf. apply find_some in Edf. apply find_some in Ef.
  split; [apply Edf|]. split; [apply Ef|reflexivity].
Qed.

Lemma wf_segb_sound (A : ASeg) : canonical_fields (as_fields A) -> wf_segb A = true -> wf_seg A.
Proof.
  intros Hc H. unfold wf_segb in H. apply andb_prop in H. destruct H as [H Hcount].
  rewrite forallb_forall in H.
  assert (Hdf : forall n d df, In (n, d) (number_from 0 (as_docs A)) -> In df (ad_fields d) ->
            mem beq (adf_name df) (as_fields A) = true /\ nodupb (map fst (adf_terms df)) = true
            /\ forall a, In a (adf_terms df) ->
                 wf_apostingb (as_fields A) (n, (fst (snd a), (adf_norm df, snd (snd a)))) = true).
  { intros n d df Hnd Hin. specialize (H (n, d) Hnd). cbn [fst snd] in H.
    rewrite forallb_forall in H. specialize (H df Hin).
    apply andb_prop in H. destruct H as [H H3]. apply andb_prop in H. destruct H as [H1 H2].
    split; [exact H1|]. split; [exact H2|]. rewrite forallb_forall in H3. exact H3. }
  assert (Hnum : forall d, In d (as_docs A) -> exists n, In (n, d) (number_from 0 (as_docs A))).
  { intros d Hd. apply In_nth_error in Hd. destruct Hd as [k Hk]. exists (0 + N.of_nat k).
    apply number_from_In. exists k. auto. }
  constructor.
  - exact Hc.
  - intros d df Hd Hin. destruct (Hnum d Hd) as [n Hn]. apply (mem_In beq beq_eq). apply (Hdf n d df Hn Hin).
  - intros d df Hd Hin. destruct (Hnum d Hd) as [n Hn]. apply nodupb_sound. apply (Hdf n d df Hn Hin).
  - intros f t p Hp. destruct (o_postings_entry A f t p Hp) as [n [d [df [a [Hnd [Hin [Ha ->]]]]]]].
    apply wf_apostingb_sound. apply (Hdf n d df Hnd Hin). exact Ha.
  - apply N.ltb_lt. exact Hcount.
Qed.

(* the example satisfies the hypotheses of the theorems (they are not vacuous) *)
Lemma ex_canonical : canonical_fields [id_name; exf].
Proof.
  exists [exf]. split; [reflexivity|]. split.
  - repeat constructor.
  - intros [H|[]]. discriminate.
Qed.

Lemma ex_wf_A : wf_seg ex_segA.
Proof. apply wf_segb_sound; [apply ex_canonical|vm_compute; reflexivity]. Qed.
Lemma ex_wf_B : wf_seg ex_segB.
Proof. apply wf_segb_sound; [apply ex_canonical|vm_compute; reflexivity]. Qed.

Lemma ex_inputs_ok : forall A dr e, In (A, dr, e) ex_insE ->
  wf_seg A /\ (forall t, In t (o_terms A exf) -> admissible_enc A exf t (e t)).
Proof.
  intros A dr e [E|[E|[]]]; injection E as <- <- <-.
  - split; [apply ex_wf_A|]. intros t Ht.
    assert (ET : o_terms ex_segA exf = [extx; exty]) by (vm_compute; reflexivity).
    rewrite ET in Ht. destruct Ht as [<-|[<-|[]]].
    + left. exists 0, 1060439283. split; [vm_compute; reflexivity|]. split; [|vm_compute; reflexivity].
      unfold mask31. lia.
    + right. exists 1, 2%nat. split; [lia|]. split; [|reflexivity].
      assert (EP : o_postings ex_segA exf exty = [(1, (1, (1060439283, [])))]) by (vm_compute; reflexivity).
      rewrite EP. intros p [<-|[]]. vm_compute. lia.
  - split; [apply ex_wf_B|]. intros t Ht.
    assert (ET : o_terms ex_segB exf = [exty; extz]) by (vm_compute; reflexivity).
    rewrite ET in Ht. destruct Ht as [<-|[<-|[]]]; right; exists 2, 1%nat; (split; [lia|]); (split; [|reflexivity]).
    + assert (EP : o_postings ex_segB exf exty = [(0, (1, (1060439283, [])))]) by (vm_compute; reflexivity).
      rewrite EP. intros p [<-|[]]. vm_compute. lia.
    + assert (EP : o_postings ex_segB exf extz
                   = [(1, (2, (1060439283, [(exf, (1, (0, 3))); (exf, (4, (10, 13)))])))])
        by (vm_compute; reflexivity).
      rewrite EP. intros p [<-|[]]. vm_compute. lia.
Qed.

(* the general theorem applies to the example (and agrees with ex_merge_field) *)
Theorem ex_theorem_applies :
  exists r, merge_field 1025 (o_count ex_M) (as_fields ex_M) ex_acts = Ok r
    /\ fr_dict r = map (fun t => (t, encode_term (mslot 1025 ex_insE) exf t)) (o_terms ex_M exf)
    /\ fr_docs r = fst (merged_stats (as_docs ex_M) exf)
    /\ fr_freqs r = snd (merged_stats (as_docs ex_M) exf).
Proof.
  destruct (merge_field_correct 1025 exf ex_insE (fun A => known_field A exf)) as [r [E [V [_ [D F]]]]].
  - apply ex_inputs_ok.
  - intros A dr e _ H. exact H.
  - assert (EF : as_fields (fst (merge_spec (ins_of ex_insE))) = [id_name; exf]) by (vm_compute; reflexivity).
    rewrite EF. right. left. reflexivity.
  - reflexivity.
  - vm_compute. reflexivity.
  - vm_compute. reflexivity.
  - exists r. repeat split; assumption.
Qed.

(* Container_Proofs.v - round trips of the on-disk index structures modelled in
   theories/Container.v: what the writer of a structure puts on disk is what
   the reader of that structure gets back, with the exact conditions on the
   bytes that must follow the structure inside the data section (the readers
   use fixed 10-byte look-ahead windows). *)
From Coq Require Import List NArith ZArith PeanoNat Bool Lia.
From Ice Require Import Base Varint Chunk Footer Stored Container.
From IceProofs Require Import Varint_Proofs Footer_Proofs Stored_Proofs.
Import ListNotations.
Open Scope N_scope.
Require Import ZifyBool ZifyN ZifyNat.
Ltac Zify.zify_post_hook ::= Z.div_mod_to_equations.

(* ------------------------------------------------------------------ *)
(* Go integers                                                         *)

Lemma two63_val : two63 = 9223372036854775808.
Proof. reflexivity. Qed.

Lemma two32_val : two32 = 4294967296.
Proof. reflexivity. Qed.

Lemma wrap_int_small (z : Z) :
  (- 9223372036854775808 <= z < 9223372036854775808)%Z -> wrap_int z = z.
Proof. intros H. unfold wrap_int. lia. Qed.

Lemma int_of_u64_small (x : N) : x < two63 -> int_of_u64 x = Z.of_N x.
Proof. intros H. unfold int_of_u64. apply wrap_int_small. rewrite two63_val in H. lia. Qed.

Lemma u64_of_int_of_N (n : N) : n < two64 -> u64_of_int (Z.of_N n) = n.
Proof. intros H. unfold u64_of_int. rewrite two64_val in H. lia. Qed.

Lemma u64_sub_small (a b : N) : b <= a -> a < two64 -> u64_sub a b = a - b.
Proof. intros H1 H2. unfold u64_sub, wrap64. rewrite two64_val in *. lia. Qed.

Lemma wrap32_small (x : N) : x < two32 -> wrap32 x = x.
Proof. intros H. unfold wrap32. rewrite two32_val in *. lia. Qed.

(* remove the wrap64 of uint64 arithmetic that provably does not wrap, innermost first *)
Ltac unwrap64 :=
  repeat match goal with
         | |- context [wrap64 ?x] =>
             lazymatch x with
             | context [wrap64 _] => fail
             | _ => rewrite (wrap64_small x) by lia
             end
         end.

Lemma two63_lt_two64 : two63 < two64.
Proof. reflexivity. Qed.

(* ------------------------------------------------------------------ *)
(* lengths                                                             *)

Lemma lenN_be_bytes (w : nat) (x : N) : lenN (be_bytes w x) = N.of_nat w.
Proof. unfold lenN. rewrite be_bytes_length. reflexivity. Qed.

Lemma lenN_flat_be8 (l : list N) : lenN (flat_map' (be_bytes 8) l) = 8 * lenN l.
Proof.
  induction l as [| x l IH]; [reflexivity |].
  cbn [flat_map']. rewrite lenN_app, lenN_cons, IH, lenN_be_bytes. lia.
Qed.

Lemma flat_map'_app {A B} (f : A -> list B) (l1 l2 : list A) :
  flat_map' f (l1 ++ l2) = flat_map' f l1 ++ flat_map' f l2.
Proof.
  induction l1 as [| x l1 IH]; [reflexivity |].
  cbn [app flat_map']. rewrite IH, app_assoc. reflexivity.
Qed.

Lemma put_uvarint_lenN_pos (x : N) : 1 <= lenN (put_uvarint x).
Proof.
  pose proof (put_uvarint_nonempty x) as H.
  destruct (put_uvarint x); [congruence |]. rewrite lenN_cons. lia.
Qed.

Lemma put_uvarint_lenN_10 (x : N) : x < two64 -> lenN (put_uvarint x) <= 10.
Proof. intros H. pose proof (put_uvarint_length_10 x H). unfold lenN. lia. Qed.

Lemma put_uvarints_cons (x : N) (xs : list N) :
  put_uvarints (x :: xs) = put_uvarint x ++ put_uvarints xs.
Proof. reflexivity. Qed.

Lemma put_uvarints_app (xs ys : list N) :
  put_uvarints (xs ++ ys) = put_uvarints xs ++ put_uvarints ys.
Proof. apply flat_map'_app. Qed.

(* ------------------------------------------------------------------ *)
(* segment.Data.Read                                                   *)

Lemma data_read_mid (data a b c : bytes) (s e : N) :
  data = a ++ b ++ c -> s = lenN a -> e = lenN a + lenN b -> data_read data s e = Ok b.
Proof.
  intros -> -> ->. unfold data_read. rewrite !lenN_app.
  replace (lenN a + lenN b <=? lenN a + (lenN b + lenN c)) with true by lia.
  replace (lenN a <=? lenN a + lenN b) with true by lia.
  cbn [andb]. f_equal.
  replace (N.to_nat (lenN a)) with (length a + 0)%nat by (unfold lenN; lia).
  rewrite skipn_app, skipn_all2 by lia.
  replace (length a + 0 - length a)%nat with 0%nat by lia.
  cbn [skipn app].
  replace (N.to_nat (lenN a + lenN b - lenN a)) with (length b + 0)%nat by (unfold lenN; lia).
  rewrite firstn_app_2. cbn [firstn]. apply app_nil_r.
Qed.

Lemma data_read_past (data : bytes) (s e : N) : lenN data < e -> data_read data s e = Err.
Proof.
  intros H. unfold data_read. replace (e <=? lenN data) with false by lia. reflexivity.
Qed.

(* a 10-byte window that starts with a short string p *)
Lemma data_read_window (data a p q : bytes) (s : N) :
  data = a ++ p ++ q -> s = lenN a -> lenN p <= 10 -> s + 10 <= lenN data ->
  exists r, data_read data s (s + 10) = Ok (p ++ r).
Proof.
  intros Hd -> Hp Hroom.
  assert (Hq : 10 - lenN p <= lenN q) by (subst data; rewrite !lenN_app in Hroom; lia).
  exists (firstn (N.to_nat (10 - lenN p)) q).
  apply data_read_mid with (a := a) (c := skipn (N.to_nat (10 - lenN p)) q).
  - rewrite <- app_assoc, firstn_skipn. exact Hd.
  - reflexivity.
  - rewrite lenN_app. unfold lenN in *. rewrite firstn_length. lia.
Qed.

(* the Go call data.Read(int(s), int(e)) with uint64 s and e *)
Lemma read_at (data a b c : bytes) (s e : N) :
  data = a ++ b ++ c -> lenN data < two63 -> s = lenN a -> e = lenN a + lenN b ->
  data_read_int data (int_of_u64 s) (int_of_u64 e) = Ok b.
Proof.
  intros Hd Hlen Hs He.
  assert (Hl : lenN data = lenN a + (lenN b + lenN c)) by (subst data; rewrite !lenN_app; reflexivity).
  rewrite !int_of_u64_small by lia.
  unfold data_read_int.
  replace ((Z.of_N s <? 0)%Z || (Z.of_N e <? 0)%Z) with false by lia.
  rewrite !N2Z.id. eapply data_read_mid; eauto.
Qed.

Lemma read_tail (data a b : bytes) (s e : N) :
  data = a ++ b -> lenN data < two63 -> s = lenN a -> e = lenN data ->
  data_read_int data (int_of_u64 s) (int_of_u64 e) = Ok b.
Proof.
  intros Hd Hlen Hs He. apply read_at with (a := a) (c := []); try assumption.
  - rewrite app_nil_r. exact Hd.
  - subst. rewrite lenN_app. reflexivity.
Qed.

Lemma read_window (data a p q : bytes) (s e : N) :
  data = a ++ p ++ q -> lenN data < two63 -> s = lenN a -> e = s + 10 ->
  lenN p <= 10 -> s + 10 <= lenN data ->
  exists r, data_read_int data (int_of_u64 s) (int_of_u64 e) = Ok (p ++ r).
Proof.
  intros Hd Hlen Hs He Hp Hroom.
  destruct (data_read_window data a p q s Hd Hs Hp Hroom) as [r Hr].
  exists r. rewrite !int_of_u64_small by lia.
  unfold data_read_int.
  replace ((Z.of_N s <? 0)%Z || (Z.of_N e <? 0)%Z) with false by lia.
  rewrite !N2Z.id. subst e. exact Hr.
Qed.

Lemma read_window_past (data : bytes) (s e : N) :
  lenN data < two63 -> s <= lenN data -> e = s + 10 -> lenN data < s + 10 ->
  data_read_int data (int_of_u64 s) (int_of_u64 e) = Err.
Proof.
  intros Hlen Hs He Hpast. rewrite two63_val in Hlen.
  rewrite (int_of_u64_small s) by (rewrite two63_val; lia).
  unfold data_read_int.
  destruct ((Z.of_N s <? 0)%Z || (int_of_u64 e <? 0)%Z) eqn:E; [reflexivity |].
  apply data_read_past. unfold int_of_u64, wrap_int in *. lia.
Qed.

(* ------------------------------------------------------------------ *)
(* binary.Uvarint                                                      *)

Lemma go_uvarint_aux_window (buf : bytes) : forall i s a v r,
  uvarint_window buf i s a = Ok (v, r) -> go_uvarint_aux buf i s a = (v, Z.of_N r).
Proof.
  induction buf as [| b rest IH]; intros i s a v r H; cbn [uvarint_window go_uvarint_aux] in *.
  - inversion H. reflexivity.
  - destruct (10 <=? i) eqn:E10; [discriminate |].
    replace (i =? 10) with false by lia.
    destruct (b <? 128) eqn:Eb.
    + destruct ((i =? 9) && (1 <? b)); [discriminate |].
      inversion H; subst. f_equal. lia.
    + apply IH. exact H.
Qed.

Theorem go_uvarint_put (x : N) (rest : bytes) :
  x < two64 -> go_uvarint (put_uvarint x ++ rest) = (x, Z.of_N (lenN (put_uvarint x))).
Proof.
  intros Hx. unfold go_uvarint. apply go_uvarint_aux_window.
  apply uvarint_window_put. exact Hx.
Qed.

(* ================================================================== *)
(* (A) the fields section                                              *)

Definition wf_field (f : field_rec) : Prop :=
  let '(dictLoc, name, docs, freqs) := f in
  dictLoc < two64 /\ lenN name < two64 /\ docs < two64 /\ freqs < two64.

Lemma fields_records_app (l1 l2 : list field_rec) :
  fields_records (l1 ++ l2) = fields_records l1 ++ fields_records l2.
Proof. apply flat_map'_app. Qed.

Lemma fields_offsets_app (l1 : list field_rec) : forall base l2,
  fields_offsets base (l1 ++ l2) =
  fields_offsets base l1 ++ fields_offsets (base + lenN (fields_records l1)) l2.
Proof.
  induction l1 as [| f l1 IH]; intros base l2.
  - cbn [app fields_offsets fields_records flat_map']. rewrite lenN_nil, N.add_0_r. reflexivity.
  - cbn [app fields_offsets]. rewrite IH. f_equal. f_equal. f_equal.
    unfold fields_records. cbn [flat_map']. rewrite lenN_app. lia.
Qed.

Lemma fields_offsets_length (l : list field_rec) : forall base,
  lenN (fields_offsets base l) = lenN l.
Proof.
  induction l as [| f l IH]; intros base; [reflexivity |].
  cbn [fields_offsets]. rewrite !lenN_cons, IH. reflexivity.
Qed.

Lemma fields_index_app (l1 l2 : list N) :
  fields_index (l1 ++ l2) = fields_index l1 ++ fields_index l2.
Proof. apply flat_map'_app. Qed.

Lemma lenN_fields_index (l : list N) : lenN (fields_index l) = 8 * lenN l.
Proof. apply lenN_flat_be8. Qed.

Lemma be8_value (x : N) : x < two64 -> be_value (be_bytes 8 x) 0 = x.
Proof. intros H. apply be_value_bytes. rewrite two64_pow256. exact H. Qed.

Lemma be4_value (x : N) : x < two32 -> be_value (be_bytes 4 x) 0 = x.
Proof. intros H. apply be_value_bytes. rewrite two32_pow256. exact H. Qed.

(* one record, read back from its address *)
Lemma load_field_at_ok (data a c : bytes) (f : field_rec) :
  data = a ++ field_record f ++ c -> lenN data < two63 -> wf_field f ->
  load_field_at data (lenN a) = Ok f.
Proof.
  destruct f as [[[dl name] docs] freqs]. cbn [field_record wf_field].
  intros Hd Hlen (Hdl & Hname & Hdocs & Hfreqs).
  rewrite <- !app_assoc in Hd.
  pose proof two63_val as V63. pose proof two64_val as V64.
  pose proof (put_uvarint_lenN_10 dl Hdl) as L1.
  pose proof (put_uvarint_lenN_10 (lenN name) Hname) as L2.
  pose proof (put_uvarint_lenN_10 docs Hdocs) as L3.
  assert (HL : lenN data = lenN a + (lenN (put_uvarint dl) + (lenN (put_uvarint (lenN name)) +
                 (lenN name + (lenN (put_uvarint docs) + (lenN (put_uvarint freqs) + lenN c))))))
    by (rewrite Hd, !lenN_app; reflexivity).
  unfold load_field_at.
  (* dictLoc *)
  rewrite (read_tail data a _ _ _ Hd Hlen eq_refl eq_refl). cbn [rbind].
  rewrite go_uvarint_put by exact Hdl. cbn [rbind].
  rewrite u64_of_int_of_N by lia. unwrap64.
  (* nameLen *)
  rewrite (read_tail data (a ++ put_uvarint dl)
             (put_uvarint (lenN name) ++ name ++ put_uvarint docs ++ put_uvarint freqs ++ c)).
  2: { rewrite Hd, <- !app_assoc. reflexivity. }
  2: exact Hlen.
  2: { rewrite lenN_app. lia. }
  2: reflexivity.
  cbn [rbind]. rewrite go_uvarint_put by exact Hname. cbn [rbind].
  rewrite u64_of_int_of_N by lia. unwrap64.
  (* name *)
  rewrite (read_at data (a ++ put_uvarint dl ++ put_uvarint (lenN name)) name
             (put_uvarint docs ++ put_uvarint freqs ++ c)).
  2: { rewrite Hd, <- !app_assoc. reflexivity. }
  2: exact Hlen.
  2: { rewrite !lenN_app. lia. }
  2: { rewrite !lenN_app. lia. }
  cbn [rbind].
  (* docs *)
  rewrite (read_tail data (a ++ put_uvarint dl ++ put_uvarint (lenN name) ++ name)
             (put_uvarint docs ++ put_uvarint freqs ++ c)).
  2: { rewrite Hd, <- !app_assoc. reflexivity. }
  2: exact Hlen.
  2: { rewrite !lenN_app. lia. }
  2: reflexivity.
  cbn [rbind]. rewrite go_uvarint_put by exact Hdocs. cbn [rbind].
  rewrite u64_of_int_of_N by lia. unwrap64.
  (* freqs *)
  rewrite (read_tail data (a ++ put_uvarint dl ++ put_uvarint (lenN name) ++ name ++ put_uvarint docs)
             (put_uvarint freqs ++ c)).
  2: { rewrite Hd, <- !app_assoc. reflexivity. }
  2: exact Hlen.
  2: { rewrite !lenN_app. lia. }
  2: reflexivity.
  cbn [rbind]. rewrite go_uvarint_put by exact Hfreqs. reflexivity.
Qed.

(* the loop of loadFields: with [done] already read, the rest comes back *)
Lemma load_fields_loop_ok (pre : bytes) (fields : list field_rec) (data : bytes) :
  data = pre ++ fields_records fields ++ fields_index (fields_offsets (lenN pre) fields) ->
  lenN data < two63 -> Forall wf_field fields ->
  forall todo done fuel, fields = done ++ todo -> (length todo < fuel)%nat ->
  load_fields_loop fuel data (lenN pre + lenN (fields_records fields)) (lenN done) = Ok todo.
Proof.
  intros Hd Hlen Hwf.
  pose proof two63_val as V63. pose proof two64_val as V64.
  assert (HL : lenN data = lenN pre + (lenN (fields_records fields) + 8 * lenN fields)).
  { rewrite Hd, !lenN_app, lenN_fields_index, fields_offsets_length. reflexivity. }
  induction todo as [| f todo IH]; intros done fuel Hf Hfuel.
  - destruct fuel as [| fuel]; [lia |].
    rewrite app_nil_r in Hf. subst done.
    cbn [load_fields_loop]. unwrap64.
    replace (lenN pre + lenN (fields_records fields) + 8 * lenN fields <? lenN data) with false by lia.
    reflexivity.
  - destruct fuel as [| fuel]; [cbn [length] in Hfuel; lia |].
    assert (Hn : lenN fields = lenN done + (1 + lenN todo)) by (rewrite Hf, lenN_app, lenN_cons; reflexivity).
    cbn [load_fields_loop]. unwrap64.
    replace (lenN pre + lenN (fields_records fields) + 8 * lenN done <? lenN data) with true by lia.
    (* the index entry of field number [lenN done] *)
    assert (Hoffs : fields_offsets (lenN pre) fields =
                    fields_offsets (lenN pre) done ++
                    [lenN pre + lenN (fields_records done)] ++
                    fields_offsets (lenN pre + lenN (fields_records done) + lenN (field_record f)) todo).
    { rewrite Hf, fields_offsets_app. reflexivity. }
    assert (Hrecs : fields_records fields = fields_records done ++ field_record f ++ fields_records todo).
    { rewrite Hf, fields_records_app. reflexivity. }
    assert (HLr : lenN (fields_records fields) =
                  lenN (fields_records done) + (lenN (field_record f) + lenN (fields_records todo))).
    { rewrite Hrecs, !lenN_app. reflexivity. }
    rewrite (read_at data
               (pre ++ fields_records fields ++ fields_index (fields_offsets (lenN pre) done))
               (be_bytes 8 (lenN pre + lenN (fields_records done)))
               (fields_index (fields_offsets (lenN pre + lenN (fields_records done) + lenN (field_record f)) todo))).
    2: { rewrite Hd at 1. rewrite Hoffs, !fields_index_app, <- !app_assoc.
         do 3 f_equal. }
    2: exact Hlen.
    2: { rewrite !lenN_app, lenN_fields_index, fields_offsets_length. lia. }
    2: { rewrite !lenN_app, lenN_fields_index, fields_offsets_length, lenN_be_bytes. lia. }
    cbn [rbind]. rewrite be8_value by lia.
    (* the record *)
    replace (lenN pre + lenN (fields_records done)) with (lenN (pre ++ fields_records done))
      by (rewrite lenN_app; reflexivity).
    rewrite (load_field_at_ok data (pre ++ fields_records done)
               (fields_records todo ++ fields_index (fields_offsets (lenN pre) fields)) f).
    2: { rewrite Hd at 1. rewrite Hrecs, <- !app_assoc. reflexivity. }
    2: exact Hlen.
    2: { rewrite Forall_forall in Hwf. apply Hwf. rewrite Hf. apply in_or_app. right. left. reflexivity. }
    cbn [rbind].
    replace (lenN done + 1) with (lenN (done ++ [f])) by (rewrite lenN_app, lenN_cons, lenN_nil; lia).
    rewrite (IH (done ++ [f]) fuel).
    2: { rewrite Hf, <- app_assoc. reflexivity. }
    2: { cbn [length] in Hfuel. lia. }
    reflexivity.
Qed.

Theorem load_fields_raw_roundtrip (pre : bytes) (fields : list field_rec) :
  let data := pre ++ fst (persist_fields (lenN pre) fields) in
  lenN data < two63 -> Forall wf_field fields ->
  load_fields_raw data (snd (persist_fields (lenN pre) fields)) = Ok fields.
Proof.
  cbn zeta. unfold persist_fields, load_fields_raw. cbn [fst snd].
  intros Hlen Hwf.
  change 0 with (lenN (@nil field_rec)).
  apply (load_fields_loop_ok pre fields); try assumption; try reflexivity.
  assert (HL : lenN (pre ++ fields_records fields ++ fields_index (fields_offsets (lenN pre) fields))
               = lenN pre + (lenN (fields_records fields) + 8 * lenN fields)).
  { rewrite !lenN_app, lenN_fields_index, fields_offsets_length. reflexivity. }
  unfold lenN in *. lia.
Qed.

(* the maps keyed by uint16(fieldID) *)
Lemma u16_small (k : N) : k < 65536 -> u16 k = k.
Proof. intros H. unfold u16. lia. Qed.

Lemma map_get_put_all (vals : list N) : forall j m k,
  j + lenN vals <= 65536 -> k < 65536 ->
  map_get k (map_put_all j vals m) =
  if (j <=? k) && (k <? j + lenN vals) then nth (N.to_nat (k - j)) vals 0 else map_get k m.
Proof.
  induction vals as [| v vals IH]; intros j m k Hj Hk.
  - cbn [map_put_all]. rewrite lenN_nil.
    replace ((j <=? k) && (k <? j + 0)) with false by lia. reflexivity.
  - cbn [map_put_all]. rewrite lenN_cons in *. rewrite IH by lia.
    destruct ((j + 1 <=? k) && (k <? j + 1 + lenN vals)) eqn:E.
    + replace ((j <=? k) && (k <? j + (1 + lenN vals))) with true by lia.
      replace (N.to_nat (k - j)) with (S (N.to_nat (k - (j + 1)))) by lia. reflexivity.
    + cbn [map_get]. rewrite u16_small by lia.
      destruct (k =? j) eqn:Ek.
      * replace ((j <=? k) && (k <? j + (1 + lenN vals))) with true by lia.
        replace (N.to_nat (k - j)) with 0%nat by lia. reflexivity.
      * replace ((j <=? k) && (k <? j + (1 + lenN vals))) with false by lia. reflexivity.
Qed.

Lemma lenN_map {A B} (f : A -> B) (l : list A) : lenN (map f l) = lenN l.
Proof. unfold lenN. rewrite map_length. reflexivity. Qed.

Definition field_dflt : field_rec := (0, [], 0, 0).

Lemma view_map (gd gf : N -> N) : forall (l : list field_rec) (j : N),
  (forall i, (i < length l)%nat ->
     gd (u16 (j + N.of_nat i)) = snd (fst (nth i l field_dflt)) /\
     gf (u16 (j + N.of_nat i)) = snd (nth i l field_dflt)) ->
  map (fun p : N * field_rec =>
         let '(i, (dictLoc, name, _, _)) := p in (dictLoc, name, gd (u16 i), gf (u16 i)))
      (number_from j l) = l.
Proof.
  induction l as [| f l IH]; intros j H; [reflexivity |].
  cbn [number_from map]. f_equal.
  - destruct (H 0%nat) as [H1 H2]; [cbn [length]; lia |].
    replace (j + N.of_nat 0) with j in * by lia.
    destruct f as [[[dl name] d] fr]. cbn [nth fst snd] in *. rewrite H1, H2. reflexivity.
  - apply IH. intros i Hi.
    destruct (H (S i)) as [H1 H2]; [cbn [length]; lia |].
    replace (j + N.of_nat (S i)) with (j + 1 + N.of_nat i) in * by lia.
    cbn [nth] in *. split; assumption.
Qed.

(* with at most 65536 fields the uint16 keys do not collide *)
Lemma fields_view_id (raw : list field_rec) : lenN raw <= 65536 -> fields_view raw = raw.
Proof.
  intros Hn. unfold fields_view.
  apply (view_map (fun k => map_get k (map_put_all 0 (map (fun f => snd (fst f)) raw) []))
                  (fun k => map_get k (map_put_all 0 (map (fun f => snd f) raw) []))).
  intros i Hi.
  assert (Hi' : N.of_nat i < lenN raw) by (unfold lenN; lia).
  unfold field_rec in *.
  rewrite u16_small by lia.
  rewrite !map_get_put_all by (rewrite ?lenN_map; lia).
  rewrite !lenN_map.
  replace ((0 <=? 0 + N.of_nat i) && (0 + N.of_nat i <? 0 + lenN raw)) with true by lia.
  replace (N.to_nat (0 + N.of_nat i - 0)) with i by lia.
  split.
  - change 0 with ((fun f : field_rec => snd (fst f)) field_dflt) at 1. apply map_nth.
  - change 0 with ((fun f : field_rec => snd f) field_dflt) at 1. apply map_nth.
Qed.

(* persistFields then loadFields: [pre] is everything written before the
   fields section (w.Count() = lenN pre on entry), the fields index is the end
   of the data section *)
Theorem fields_roundtrip (pre : bytes) (base : N) (fields : list field_rec) :
  let data := pre ++ fst (persist_fields base fields) in
  base = lenN pre -> lenN data < two63 ->
  Forall wf_field fields -> lenN fields <= 65536 ->
  load_fields data (snd (persist_fields base fields)) = Ok fields.
Proof.
  cbn zeta. intros -> Hlen Hwf Hn. unfold load_fields.
  rewrite (load_fields_raw_roundtrip pre fields Hlen Hwf). cbn [rbind].
  rewrite fields_view_id by exact Hn. reflexivity.
Qed.

(* the fields section is never shorter than 12 bytes per field *)
Lemma field_record_min (f : field_rec) : 4 <= lenN (field_record f).
Proof.
  destruct f as [[[dl name] d] fr]. cbn [field_record]. rewrite !lenN_app.
  pose proof (put_uvarint_lenN_pos dl). pose proof (put_uvarint_lenN_pos (lenN name)).
  pose proof (put_uvarint_lenN_pos d). pose proof (put_uvarint_lenN_pos fr). lia.
Qed.

Lemma fields_records_min (fields : list field_rec) : 4 * lenN fields <= lenN (fields_records fields).
Proof.
  induction fields as [| f fields IH]; [reflexivity |].
  unfold fields_records in *. cbn [flat_map']. rewrite lenN_app, lenN_cons.
  pose proof (field_record_min f). lia.
Qed.

Theorem persist_fields_min (base : N) (fields : list field_rec) :
  12 * lenN fields <= lenN (fst (persist_fields base fields)).
Proof.
  unfold persist_fields. cbn [fst].
  rewrite lenN_app, lenN_fields_index, fields_offsets_length.
  pose proof (fields_records_min fields). lia.
Qed.

(* ================================================================== *)
(* the 10-byte look-ahead of the varint list readers                   *)

(* A reader that decodes the varints of [todo] one after the other, each from
   a window of 10 bytes, stays inside the data exactly when the window of the
   last varint does: [after] bytes follow the list inside the data. *)
Definition lookahead_ok (todo : list N) (after : N) : Prop :=
  todo = [] \/ 10 <= lenN (put_uvarint (last todo 0)) + after.

Lemma lookahead_tail (x : N) (todo : list N) (after : N) :
  lookahead_ok (x :: todo) after -> lookahead_ok todo after.
Proof.
  intros [H | H]; [discriminate |].
  destruct todo as [| y todo]; [left; reflexivity | right; exact H].
Qed.

Lemma last_put_le (todo : list N) :
  todo <> [] -> lenN (put_uvarint (last todo 0)) <= lenN (put_uvarints todo).
Proof.
  induction todo as [| x todo IH]; intros Hne; [congruence |].
  rewrite put_uvarints_cons, lenN_app.
  destruct todo as [| y todo].
  - cbn [last]. lia.
  - change (last (x :: y :: todo) 0) with (last (y :: todo) 0).
    assert (y :: todo <> []) by discriminate. specialize (IH H). lia.
Qed.

Lemma lookahead_room (x : N) (todo : list N) (after : N) :
  lookahead_ok (x :: todo) after ->
  10 <= lenN (put_uvarint x) + lenN (put_uvarints todo) + after.
Proof.
  intros [H | H]; [discriminate |].
  destruct todo as [| y todo].
  - cbn [last] in H. lia.
  - change (last (x :: y :: todo) 0) with (last (y :: todo) 0) in H.
    assert (Hne : y :: todo <> []) by discriminate.
    pose proof (last_put_le (y :: todo) Hne). lia.
Qed.

(* enough is: one byte more than nine follows *)
Lemma lookahead_ok_9 (todo : list N) (after : N) : 9 <= after -> lookahead_ok todo after.
Proof.
  intros H. destruct todo as [| x todo]; [left; reflexivity | right].
  pose proof (put_uvarint_lenN_pos (last (x :: todo) 0)). lia.
Qed.

(* ================================================================== *)
(* (B) the stored-field trailer and the stored index                   *)

Lemma load_chunk_offsets_loop_ok (data : bytes) :
  lenN data < two63 ->
  forall todo a after pos offset,
  data = a ++ put_uvarints todo ++ after ->
  Forall (fun x => x < two64) todo ->
  lookahead_ok todo (lenN after) ->
  (0 <= pos)%Z -> (0 <= offset)%Z -> (pos + offset)%Z = Z.of_N (lenN a) ->
  load_chunk_offsets_loop (length todo) data pos offset = Ok todo.
Proof.
  intros Hlen. pose proof two63_val as V63.
  induction todo as [| x todo IH]; intros a after pos offset Hd Hall Hla Hpos Hoff Hsum.
  - reflexivity.
  - inversion Hall as [| x' todo' Hx Hall']; subst x' todo'.
    rewrite put_uvarints_cons, <- app_assoc in Hd.
    assert (HL : lenN data = lenN a + (lenN (put_uvarint x) + (lenN (put_uvarints todo) + lenN after)))
      by (rewrite Hd, !lenN_app; reflexivity).
    pose proof (lookahead_room x todo _ Hla) as Hroom.
    pose proof (put_uvarint_lenN_10 x Hx) as L10.
    cbn [length load_chunk_offsets_loop].
    rewrite !wrap_int_small by lia.
    destruct (read_window data a (put_uvarint x) (put_uvarints todo ++ after) (lenN a) (lenN a + 10))
      as [r Hr]; try assumption; try reflexivity; try lia.
    rewrite !int_of_u64_small in Hr by lia.
    replace (pos + offset)%Z with (Z.of_N (lenN a)) by lia.
    replace (Z.of_N (lenN a) + 10)%Z with (Z.of_N (lenN a + 10)) by lia.
    rewrite Hr. cbn [rbind].
    rewrite go_uvarint_put by exact Hx.
    rewrite wrap_int_small by lia.
    rewrite (IH (a ++ put_uvarint x) after pos (offset + Z.of_N (lenN (put_uvarint x)))%Z).
    + reflexivity.
    + rewrite Hd, <- app_assoc. reflexivity.
    + exact Hall'.
    + eapply lookahead_tail; exact Hla.
    + exact Hpos.
    + lia.
    + rewrite lenN_app. lia.
Qed.

(* when the look-ahead of the last varint runs past the data, the reader fails *)
Lemma load_chunk_offsets_loop_err (data : bytes) :
  lenN data < two63 ->
  forall todo a after pos offset,
  data = a ++ put_uvarints todo ++ after ->
  Forall (fun x => x < two64) todo ->
  ~ lookahead_ok todo (lenN after) ->
  (0 <= pos)%Z -> (0 <= offset)%Z -> (pos + offset)%Z = Z.of_N (lenN a) ->
  load_chunk_offsets_loop (length todo) data pos offset = Err.
Proof.
  intros Hlen. pose proof two63_val as V63.
  induction todo as [| x todo IH]; intros a after pos offset Hd Hall Hla Hpos Hoff Hsum.
  - exfalso. apply Hla. left. reflexivity.
  - inversion Hall as [| x' todo' Hx Hall']; subst x' todo'.
    rewrite put_uvarints_cons, <- app_assoc in Hd.
    assert (HL : lenN data = lenN a + (lenN (put_uvarint x) + (lenN (put_uvarints todo) + lenN after)))
      by (rewrite Hd, !lenN_app; reflexivity).
    pose proof (put_uvarint_lenN_10 x Hx) as L10.
    cbn [length load_chunk_offsets_loop].
    destruct (N.le_gt_cases (lenN a + 10) (lenN data)) as [Hin | Hout].
    + (* this window is inside: the failure comes later *)
      rewrite !wrap_int_small by lia.
      destruct (read_window data a (put_uvarint x) (put_uvarints todo ++ after) (lenN a) (lenN a + 10))
        as [r Hr]; try assumption; try reflexivity.
      rewrite !int_of_u64_small in Hr by lia.
      replace (pos + offset)%Z with (Z.of_N (lenN a)) by lia.
      replace (Z.of_N (lenN a) + 10)%Z with (Z.of_N (lenN a + 10)) by lia.
      rewrite Hr. cbn [rbind].
      rewrite go_uvarint_put by exact Hx.
      rewrite wrap_int_small by lia.
      rewrite (IH (a ++ put_uvarint x) after pos (offset + Z.of_N (lenN (put_uvarint x)))%Z).
      * reflexivity.
      * rewrite Hd, <- app_assoc. reflexivity.
      * exact Hall'.
      * intros Hok'. apply Hla. right.
        destruct todo as [| y todo].
        -- cbn [last]. unfold put_uvarints in HL. cbn [flat_map'] in HL. rewrite lenN_nil in HL. lia.
        -- destruct Hok' as [Hnil | Hok]; [discriminate | exact Hok].
      * exact Hpos.
      * lia.
      * rewrite lenN_app. lia.
    + (* this window runs past the end of the data *)
      rewrite (wrap_int_small (pos + offset)) by lia.
      unfold data_read_int.
      destruct ((pos + offset <? 0)%Z || (wrap_int (pos + offset + 10) <? 0)%Z) eqn:E; [reflexivity |].
      rewrite data_read_past; [reflexivity |].
      unfold wrap_int in *. lia.
Qed.

Ltac unwrap_int :=
  repeat match goal with
         | |- context [wrap_int ?z] => rewrite (wrap_int_small z) by lia
         end.

(* data.Read with Go int arguments *)
Lemma read_at_z (data a b c : bytes) (s e : Z) :
  data = a ++ b ++ c -> s = Z.of_N (lenN a) -> e = Z.of_N (lenN a + lenN b) ->
  data_read_int data s e = Ok b.
Proof.
  intros Hd -> ->. unfold data_read_int.
  replace ((Z.of_N (lenN a) <? 0)%Z || (Z.of_N (lenN a + lenN b) <? 0)%Z) with false by lia.
  rewrite !N2Z.id. eapply data_read_mid; eauto.
Qed.

(* what the trailer must satisfy so that its two uint32 fields are exact *)
Definition stored_wf (offsets : list N) : Prop :=
  Forall (fun x => x < two64) offsets /\
  lenN offsets < two32 /\ lenN (put_uvarints offsets) < two32.

Lemma lenN_stored_trailer (offsets : list N) :
  lenN (stored_trailer offsets) = lenN (put_uvarints offsets) + 8.
Proof. unfold stored_trailer. rewrite !lenN_app, !lenN_be_bytes. lia. Qed.

(* the common part of the two theorems below: the reader reaches the loop
   with the right count and position *)
Lemma load_stored_reaches_loop (pre rest : bytes) (offsets : list N) (data : bytes) :
  data = pre ++ stored_trailer offsets ++ rest ->
  lenN data < two63 -> stored_wf offsets ->
  load_stored_chunk_offsets data (lenN pre + lenN (stored_trailer offsets)) =
  load_chunk_offsets_loop (length offsets) data (Z.of_N (lenN pre)) 0.
Proof.
  intros Hd Hlen (Hall & Hnum & Hov).
  pose proof two63_val as V63. pose proof two64_val as V64. pose proof two32_val as V32.
  set (ov := put_uvarints offsets) in *.
  assert (Hd' : data = pre ++ ov ++ be_bytes 4 (lenN ov) ++ be_bytes 4 (lenN offsets) ++ rest).
  { rewrite Hd. unfold stored_trailer. fold ov. rewrite !wrap32_small by assumption.
    rewrite <- !app_assoc. reflexivity. }
  assert (HL : lenN data = lenN pre + (lenN ov + (4 + (4 + lenN rest)))).
  { rewrite Hd', !lenN_app, !lenN_be_bytes. reflexivity. }
  rewrite lenN_stored_trailer. fold ov.
  unfold load_stored_chunk_offsets.
  rewrite u64_sub_small by lia. rewrite int_of_u64_small by lia.
  unwrap_int.
  (* chunkNum *)
  rewrite (read_at_z data (pre ++ ov ++ be_bytes 4 (lenN ov)) (be_bytes 4 (lenN offsets)) rest).
  2: { rewrite Hd', <- !app_assoc. reflexivity. }
  2: { rewrite !lenN_app, lenN_be_bytes. lia. }
  2: { rewrite !lenN_app, !lenN_be_bytes. lia. }
  cbn [rbind]. rewrite be4_value by exact Hnum.
  (* chunkOffsetsLen *)
  rewrite (read_at_z data (pre ++ ov) (be_bytes 4 (lenN ov)) (be_bytes 4 (lenN offsets) ++ rest)).
  2: { rewrite Hd', <- !app_assoc. reflexivity. }
  2: { rewrite !lenN_app. lia. }
  2: { rewrite !lenN_app, !lenN_be_bytes. lia. }
  cbn [rbind]. rewrite be4_value by exact Hov.
  unwrap_int.
  unfold lenN at 1. rewrite Nat2N.id.
  f_equal. lia.
Qed.

(* chunkedDocumentCoder.Write then loadStoredFieldChunk.  [rest] is whatever
   follows the trailer inside the data section (the stored index, the
   dictionaries, the fields section).  The loop reads every varint from a
   10-byte window, so 10 bytes of data must be there from the start of the last
   varint: 8 of them are the two uint32 of the trailer itself. *)
Theorem stored_trailer_roundtrip (pre rest : bytes) (offsets : list N) :
  let data := pre ++ stored_trailer offsets ++ rest in
  let storedIndexOffset := lenN (pre ++ stored_trailer offsets) in
  lenN data < two63 -> stored_wf offsets ->
  lookahead_ok offsets (8 + lenN rest) ->
  load_stored_chunk_offsets data storedIndexOffset = Ok offsets.
Proof.
  cbn zeta. intros Hlen Hwf Hla. rewrite lenN_app.
  rewrite (load_stored_reaches_loop pre rest offsets _ eq_refl Hlen Hwf).
  destruct Hwf as (Hall & Hnum & Hov).
  apply (load_chunk_offsets_loop_ok _ Hlen offsets pre
           (be_bytes 4 (wrap32 (lenN (put_uvarints offsets))) ++
            be_bytes 4 (wrap32 (lenN offsets)) ++ rest)).
  - unfold stored_trailer. rewrite <- !app_assoc. reflexivity.
  - exact Hall.
  - rewrite !lenN_app, !lenN_be_bytes.
    replace (N.of_nat 4 + (N.of_nat 4 + lenN rest)) with (8 + lenN rest) by lia. exact Hla.
  - lia.
  - lia.
  - lia.
Qed.

(* the side condition is exact: without it the reader returns an error *)
Theorem stored_trailer_lookahead_needed (pre rest : bytes) (offsets : list N) :
  let data := pre ++ stored_trailer offsets ++ rest in
  let storedIndexOffset := lenN (pre ++ stored_trailer offsets) in
  lenN data < two63 -> stored_wf offsets ->
  ~ lookahead_ok offsets (8 + lenN rest) ->
  load_stored_chunk_offsets data storedIndexOffset = Err.
Proof.
  cbn zeta. intros Hlen Hwf Hla. rewrite lenN_app.
  rewrite (load_stored_reaches_loop pre rest offsets _ eq_refl Hlen Hwf).
  destruct Hwf as (Hall & Hnum & Hov).
  apply (load_chunk_offsets_loop_err _ Hlen offsets pre
           (be_bytes 4 (wrap32 (lenN (put_uvarints offsets))) ++
            be_bytes 4 (wrap32 (lenN offsets)) ++ rest)).
  - unfold stored_trailer. rewrite <- !app_assoc. reflexivity.
  - exact Hall.
  - rewrite !lenN_app, !lenN_be_bytes.
    replace (N.of_nat 4 + (N.of_nat 4 + lenN rest)) with (8 + lenN rest) by lia. exact Hla.
  - lia.
  - lia.
  - lia.
Qed.

(* in the form asked for: trailer, stored index, anything else *)
Corollary stored_trailer_index_roundtrip (pre post : bytes) (offsets docOffsets : list N) :
  let data := pre ++ stored_trailer offsets ++ stored_index docOffsets ++ post in
  let storedIndexOffset := lenN (pre ++ stored_trailer offsets) in
  lenN data < two63 -> stored_wf offsets ->
  1 <= lenN (stored_index docOffsets ++ post) ->
  load_stored_chunk_offsets data storedIndexOffset = Ok offsets.
Proof.
  cbn zeta. intros Hlen Hwf Hone.
  apply (stored_trailer_roundtrip pre (stored_index docOffsets ++ post) offsets Hlen Hwf).
  apply lookahead_ok_9. lia.
Qed.

(* getDocStoredOffsetsOnly: [pre] is everything before the stored index *)
Theorem doc_stored_offset_roundtrip (pre post : bytes) (docOffsets : list N) (i : nat) (v : N) :
  let data := pre ++ stored_index docOffsets ++ post in
  lenN data < two63 -> nth_error docOffsets i = Some v -> v < two64 ->
  doc_stored_offset data (lenN pre) (N.of_nat i) = Ok (lenN pre + 8 * N.of_nat i, v).
Proof.
  cbn zeta. intros Hlen Hnth Hv.
  pose proof two63_val as V63. pose proof two64_val as V64.
  destruct (nth_error_split docOffsets i Hnth) as (l1 & l2 & Hsplit & Hl1).
  assert (Hl1' : lenN l1 = N.of_nat i) by (unfold lenN; rewrite Hl1; reflexivity).
  assert (Hd : pre ++ stored_index docOffsets ++ post =
               (pre ++ stored_index l1) ++ be_bytes 8 v ++ (stored_index l2 ++ post)).
  { rewrite Hsplit. unfold stored_index. rewrite flat_map'_app. cbn [flat_map'].
    rewrite <- !app_assoc. reflexivity. }
  assert (HL : lenN (pre ++ stored_index docOffsets ++ post) =
               lenN pre + (8 * N.of_nat i + (8 + (lenN (stored_index l2) + lenN post)))).
  { rewrite Hd, !lenN_app, lenN_be_bytes. unfold stored_index at 1. rewrite lenN_flat_be8, Hl1'. lia. }
  unfold doc_stored_offset. unwrap64.
  rewrite (read_at _ _ _ _ _ _ Hd Hlen).
  - cbn [rbind]. rewrite be8_value by exact Hv. reflexivity.
  - rewrite lenN_app. unfold stored_index. rewrite lenN_flat_be8, Hl1'. lia.
  - rewrite lenN_app, lenN_be_bytes. unfold stored_index. rewrite lenN_flat_be8, Hl1'. lia.
Qed.

(* the offsets list of the coder is never empty: newChunkedDocumentCoder puts 0 *)
Lemma coder_offsets_length (blocks : list bytes) : forall n,
  length (coder_offsets n blocks) = length blocks.
Proof. induction blocks as [| b blocks IH]; intros n; cbn [coder_offsets length]; [| rewrite IH]; reflexivity. Qed.

(* ================================================================== *)
(* (D) the per-field doc-value trailer                                 *)

Lemma put_uvarints_lenN_pos (l : list N) : l <> [] -> 1 <= lenN (put_uvarints l).
Proof.
  destruct l as [| x l]; [congruence |]. intros _.
  rewrite put_uvarints_cons, lenN_app. pose proof (put_uvarint_lenN_pos x). lia.
Qed.

Lemma load_dv_chunk_offsets_loop_ok (data : bytes) :
  lenN data < two63 ->
  forall todo a after pos offset,
  data = a ++ put_uvarints todo ++ after ->
  Forall (fun x => x < two64) todo ->
  lookahead_ok todo (lenN after) ->
  pos + offset = lenN a ->
  load_dv_chunk_offsets_loop (length todo) data pos offset = Ok todo.
Proof.
  intros Hlen. pose proof two63_val as V63. pose proof two64_val as V64.
  induction todo as [| x todo IH]; intros a after pos offset Hd Hall Hla Hsum.
  - reflexivity.
  - inversion Hall as [| x' todo' Hx Hall']; subst x' todo'.
    rewrite put_uvarints_cons, <- app_assoc in Hd.
    assert (HL : lenN data = lenN a + (lenN (put_uvarint x) + (lenN (put_uvarints todo) + lenN after)))
      by (rewrite Hd, !lenN_app; reflexivity).
    pose proof (lookahead_room x todo _ Hla) as Hroom.
    pose proof (put_uvarint_lenN_10 x Hx) as L10.
    pose proof (put_uvarint_lenN_pos x) as L1.
    cbn [length load_dv_chunk_offsets_loop].
    rewrite Hsum. unwrap64.
    destruct (read_window data a (put_uvarint x) (put_uvarints todo ++ after) (lenN a) (lenN a + 10))
      as [r Hr]; try assumption; try reflexivity; try lia.
    rewrite Hr. cbn [rbind].
    rewrite go_uvarint_put by exact Hx.
    replace (Z.of_N (lenN (put_uvarint x)) <=? 0)%Z with false by lia.
    rewrite u64_of_int_of_N by lia. unwrap64.
    rewrite (IH (a ++ put_uvarint x) after pos (offset + lenN (put_uvarint x))).
    + reflexivity.
    + rewrite Hd, <- app_assoc. reflexivity.
    + exact Hall'.
    + eapply lookahead_tail; exact Hla.
    + rewrite lenN_app. lia.
Qed.

Lemma lenN_dv_trailer (chunkOffsets : list N) :
  lenN (dv_trailer chunkOffsets) = lenN (put_uvarints chunkOffsets) + 16.
Proof. unfold dv_trailer. rewrite !lenN_app, !lenN_be_bytes. lia. Qed.

(* chunkedContentCoder.Write then loadFieldDocValueReader for the section
   [start, end) of a field.  No condition on what follows: the 16 bytes of the
   trailer's two uint64 always cover the look-ahead of the last varint. *)
Theorem dv_trailer_roundtrip (pre chunkData post : bytes) (chunkOffsets : list N) :
  let data := pre ++ chunkData ++ dv_trailer chunkOffsets ++ post in
  let fieldDvLocStart := lenN pre in
  let fieldDvLocEnd := lenN (pre ++ chunkData ++ dv_trailer chunkOffsets) in
  lenN data < two63 -> Forall (fun x => x < two64) chunkOffsets ->
  chunkData <> [] \/ chunkOffsets <> [] ->
  load_field_dv_reader data fieldDvLocStart fieldDvLocEnd = Ok (Some (fieldDvLocStart, chunkOffsets)).
Proof.
  cbn zeta. intros Hlen Hall Hne.
  pose proof two63_val as V63. pose proof two64_val as V64.
  set (ov := put_uvarints chunkOffsets).
  set (data := pre ++ chunkData ++ dv_trailer chunkOffsets ++ post) in *.
  assert (HL0 : lenN data = lenN pre + (lenN chunkData + (lenN ov + 16 + lenN post))).
  { unfold data. rewrite !lenN_app, lenN_dv_trailer. reflexivity. }
  assert (Hpos : 1 <= lenN chunkData + lenN ov).
  { destruct Hne as [Hc | Ho].
    - destruct chunkData; [congruence |]. rewrite lenN_cons. lia.
    - pose proof (put_uvarints_lenN_pos chunkOffsets Ho). fold ov in H. lia. }
  assert (Hcount : lenN chunkOffsets <= lenN ov).
  { unfold ov. clear. induction chunkOffsets as [| x l IH]; [reflexivity |].
    rewrite put_uvarints_cons, lenN_app, lenN_cons. pose proof (put_uvarint_lenN_pos x). lia. }
  assert (Hd : data = pre ++ chunkData ++ ov ++ be_bytes 8 (lenN ov) ++ be_bytes 8 (lenN chunkOffsets) ++ post).
  { unfold data, dv_trailer. fold ov. rewrite !wrap64_small by lia. rewrite <- !app_assoc. reflexivity. }
  rewrite !lenN_app, lenN_dv_trailer. fold ov.
  unfold load_field_dv_reader.
  replace (lenN pre =? fieldNotUninverted) with false by (unfold fieldNotUninverted; lia).
  rewrite !u64_sub_small by lia.
  replace (16 <? lenN pre + (lenN chunkData + (lenN ov + 16)) - lenN pre) with true by lia.
  (* numChunks *)
  rewrite (read_at data (pre ++ chunkData ++ ov ++ be_bytes 8 (lenN ov)) (be_bytes 8 (lenN chunkOffsets)) post).
  2: { rewrite Hd, <- !app_assoc. reflexivity. }
  2: exact Hlen.
  2: { rewrite !lenN_app, lenN_be_bytes. lia. }
  2: { rewrite !lenN_app, !lenN_be_bytes. lia. }
  cbn [rbind]. rewrite be8_value by lia.
  (* chunkOffsetsLen *)
  rewrite (read_at data (pre ++ chunkData ++ ov) (be_bytes 8 (lenN ov)) (be_bytes 8 (lenN chunkOffsets) ++ post)).
  2: { rewrite Hd, <- !app_assoc. reflexivity. }
  2: exact Hlen.
  2: { rewrite !lenN_app. lia. }
  2: { rewrite !lenN_app, !lenN_be_bytes. lia. }
  cbn [rbind]. rewrite be8_value by lia.
  rewrite u64_sub_small by lia.
  rewrite int_of_u64_small by lia.
  replace (Z.of_N (lenN chunkOffsets) <? 0)%Z with false by lia.
  replace (Z.to_nat (Z.of_N (lenN chunkOffsets))) with (length chunkOffsets) by (unfold lenN; lia).
  rewrite (load_dv_chunk_offsets_loop_ok data Hlen chunkOffsets (pre ++ chunkData)
             (be_bytes 8 (lenN ov) ++ be_bytes 8 (lenN chunkOffsets) ++ post)).
  - reflexivity.
  - rewrite Hd, <- !app_assoc. reflexivity.
  - exact Hall.
  - apply lookahead_ok_9. rewrite !lenN_app, !lenN_be_bytes. lia.
  - rewrite lenN_app. lia.
Qed.

(* a field without doc values has no reader and nothing is read *)
Theorem dv_not_uninverted (data : bytes) (e : N) :
  load_field_dv_reader data fieldNotUninverted e = Ok None.
Proof. reflexivity. Qed.

(* a section that holds nothing but the 16 bytes of an empty trailer is
   rejected ("fieldDvLoc too small"); the writer never produces one, its chunk
   count is maxDocNum/chunkSize + 1 >= 1 *)
Theorem dv_trailer_empty_rejected (pre post : bytes) :
  let data := pre ++ dv_trailer [] ++ post in
  lenN data < two63 ->
  load_field_dv_reader data (lenN pre) (lenN (pre ++ dv_trailer [])) = Err.
Proof.
  cbn zeta. intros Hlen. pose proof two63_val as V63. pose proof two64_val as V64.
  rewrite !lenN_app in *. rewrite lenN_dv_trailer in *.
  change (lenN (put_uvarints [])) with 0 in *.
  unfold load_field_dv_reader.
  replace (lenN pre =? fieldNotUninverted) with false by (unfold fieldNotUninverted; lia).
  rewrite u64_sub_small by lia.
  replace (16 <? lenN pre + (0 + 16) - lenN pre) with false by lia. reflexivity.
Qed.

(* what Write produces for the chunk lengths the coder collected *)
Corollary content_write_roundtrip (pre final post : bytes) (chunkLens : list N) :
  let data := pre ++ content_write final chunkLens ++ post in
  lenN data < two63 -> Forall (fun x => x < two64) (end_offsets 0 chunkLens) ->
  final <> [] \/ chunkLens <> [] ->
  load_field_dv_reader data (lenN pre) (lenN (pre ++ content_write final chunkLens)) =
  Ok (Some (lenN pre, end_offsets 0 chunkLens)).
Proof.
  cbn zeta. unfold content_write. rewrite <- !app_assoc. intros Hlen Hall Hne.
  apply (dv_trailer_roundtrip pre final post (end_offsets 0 chunkLens) Hlen Hall).
  destruct Hne as [H | H]; [left; exact H | right].
  destruct chunkLens; [congruence | discriminate].
Qed.

(* ================================================================== *)
(* (C) the doc-value location index                                    *)

Definition flat_locs (locs : list (N * N)) : list N := flat_map' (fun p => [fst p; snd p]) locs.

Lemma write_dv_locs_flat (locs : list (N * N)) : write_dv_locs locs = put_uvarints (flat_locs locs).
Proof.
  induction locs as [| p locs IH]; [reflexivity |].
  unfold write_dv_locs, flat_locs in *. cbn [flat_map' app].
  rewrite !put_uvarints_cons, IH, <- app_assoc. reflexivity.
Qed.

Definition wf_loc (p : N * N) : Prop := fst p < two64 /\ snd p < two64.

Lemma load_dv_locs_loop_ok {A} (per_field : N -> N -> result A) (g : N -> N -> A) (data : bytes) :
  lenN data < two63 ->
  forall locs a after dvo read,
  data = a ++ write_dv_locs locs ++ after ->
  Forall wf_loc locs ->
  lookahead_ok (flat_locs locs) (lenN after) ->
  (forall p, In p locs -> per_field (fst p) (snd p) = Ok (g (fst p) (snd p))) ->
  dvo + read = lenN a ->
  load_dv_locs_loop per_field (length locs) data dvo read =
  Ok (map (fun p => g (fst p) (snd p)) locs).
Proof.
  intros Hlen. pose proof two63_val as V63. pose proof two64_val as V64.
  induction locs as [| [s e] locs IH]; intros a after dvo read Hd Hall Hla Hper Hsum.
  - reflexivity.
  - inversion Hall as [| p' locs' [Hs He] Hall']; subst p' locs'. cbn [fst snd] in Hs, He.
    change (flat_locs ((s, e) :: locs)) with (s :: e :: flat_locs locs) in Hla.
    change (write_dv_locs ((s, e) :: locs))
      with ((put_uvarint s ++ put_uvarint e) ++ write_dv_locs locs) in Hd.
    rewrite <- !app_assoc in Hd.
    pose proof (lookahead_room s _ _ Hla) as Hroom1.
    pose proof (lookahead_tail s _ _ Hla) as Hla1.
    pose proof (lookahead_room e _ _ Hla1) as Hroom2.
    pose proof (lookahead_tail e _ _ Hla1) as Hla2.
    rewrite put_uvarints_cons, lenN_app, <- write_dv_locs_flat in Hroom1.
    rewrite <- write_dv_locs_flat in Hroom2.
    assert (HL : lenN data = lenN a + (lenN (put_uvarint s) + (lenN (put_uvarint e) +
                   (lenN (write_dv_locs locs) + lenN after))))
      by (rewrite Hd, !lenN_app; reflexivity).
    pose proof (put_uvarint_lenN_10 s Hs) as Ls10. pose proof (put_uvarint_lenN_pos s) as Ls1.
    pose proof (put_uvarint_lenN_10 e He) as Le10. pose proof (put_uvarint_lenN_pos e) as Le1.
    cbn [length load_dv_locs_loop].
    rewrite Hsum. unwrap64.
    (* start *)
    destruct (read_window data a (put_uvarint s) (put_uvarint e ++ write_dv_locs locs ++ after)
                (lenN a) (lenN a + 10)) as [r1 Hr1]; try assumption; try reflexivity; try lia.
    rewrite Hr1. cbn [rbind].
    rewrite go_uvarint_put by exact Hs.
    replace (Z.of_N (lenN (put_uvarint s)) <=? 0)%Z with false by lia.
    rewrite u64_of_int_of_N by lia. unwrap64.
    replace (dvo + (read + lenN (put_uvarint s))) with (lenN a + lenN (put_uvarint s)) by lia.
    (* end *)
    destruct (read_window data (a ++ put_uvarint s) (put_uvarint e) (write_dv_locs locs ++ after)
                (lenN a + lenN (put_uvarint s)) (lenN a + lenN (put_uvarint s) + 10)) as [r2 Hr2];
      try assumption; try reflexivity; try lia.
    { rewrite Hd, <- !app_assoc. reflexivity. }
    { rewrite lenN_app. reflexivity. }
    rewrite Hr2. cbn [rbind].
    rewrite go_uvarint_put by exact He.
    replace (Z.of_N (lenN (put_uvarint e)) <=? 0)%Z with false by lia.
    rewrite u64_of_int_of_N by lia. unwrap64.
    pose proof (Hper (s, e) (or_introl eq_refl)) as Hse. cbn [fst snd] in Hse.
    rewrite Hse. cbn [rbind map fst snd].
    rewrite (IH (a ++ put_uvarint s ++ put_uvarint e) after dvo
               (read + lenN (put_uvarint s) + lenN (put_uvarint e))).
    + reflexivity.
    + rewrite Hd, <- !app_assoc. reflexivity.
    + exact Hall'.
    + exact Hla2.
    + intros p Hp. apply Hper. right. exact Hp.
    + rewrite !lenN_app. lia.
Qed.

Lemma map_pair_id (locs : list (N * N)) : map (fun p => (fst p, snd p)) locs = locs.
Proof.
  induction locs as [| [s e] locs IH]; [reflexivity |]. cbn [map fst snd]. rewrite IH. reflexivity.
Qed.

(* writeDvLocs then the location part of loadDvReaders.  [post] is what follows
   inside the data section (the fields section): the window of the last
   varint, the end location of the last field, must fit. *)
Theorem dvlocs_roundtrip (pre post : bytes) (locs : list (N * N)) (numDocs : N) :
  let data := pre ++ write_dv_locs locs ++ post in
  lenN data < two63 -> Forall wf_loc locs -> numDocs <> 0 ->
  lookahead_ok (flat_locs locs) (lenN post) ->
  load_dv_locs data (lenN pre) numDocs (length locs) = Ok locs.
Proof.
  cbn zeta. intros Hlen Hall Hnd Hla. pose proof two63_val as V63.
  assert (lenN pre < two63) by (rewrite !lenN_app in Hlen; lia).
  unfold load_dv_locs, load_dv_with.
  replace ((lenN pre =? fieldNotUninverted) || (numDocs =? 0)) with false
    by (unfold fieldNotUninverted; lia).
  rewrite (load_dv_locs_loop_ok (fun s e => Ok (s, e)) (fun s e => (s, e)) _ Hlen locs pre post);
    try assumption; try reflexivity.
  - rewrite map_pair_id. reflexivity.
  - lia.
Qed.

(* the whole of loadDvReaders, given that the section of every field is
   readable (dv_trailer_roundtrip / dv_not_uninverted field by field) *)
Theorem dv_readers_roundtrip (pre post : bytes) (locs : list (N * N)) (numDocs : N)
        (rd : N -> N -> option (N * list N)) :
  let data := pre ++ write_dv_locs locs ++ post in
  lenN data < two63 -> Forall wf_loc locs -> numDocs <> 0 ->
  lookahead_ok (flat_locs locs) (lenN post) ->
  (forall p, In p locs -> load_field_dv_reader data (fst p) (snd p) = Ok (rd (fst p) (snd p))) ->
  load_dv_readers data (lenN pre) numDocs (length locs) = Ok (map (fun p => rd (fst p) (snd p)) locs).
Proof.
  cbn zeta. intros Hlen Hall Hnd Hla Hper. pose proof two63_val as V63.
  assert (lenN pre < two63) by (rewrite !lenN_app in Hlen; lia).
  unfold load_dv_readers, load_dv_with.
  replace ((lenN pre =? fieldNotUninverted) || (numDocs =? 0)) with false
    by (unfold fieldNotUninverted; lia).
  apply (load_dv_locs_loop_ok _ rd _ Hlen locs pre post); try assumption; try reflexivity.
  lia.
Qed.

(* nothing is read for a segment without documents or without doc values *)
Theorem dv_readers_skipped (data : bytes) (dvo numDocs : N) (nfields : nat) :
  dvo = fieldNotUninverted \/ numDocs = 0 -> load_dv_readers data dvo numDocs nfields = Ok [].
Proof.
  intros H. unfold load_dv_readers, load_dv_with.
  replace ((dvo =? fieldNotUninverted) || (numDocs =? 0)) with true by lia. reflexivity.
Qed.

(* the condition is exact here too *)
Lemma lookahead_cons (x : N) (todo : list N) (after : N) :
  lookahead_ok todo after ->
  10 <= lenN (put_uvarint x) + lenN (put_uvarints todo) + after ->
  lookahead_ok (x :: todo) after.
Proof.
  intros Hok Hroom. right. destruct todo as [| y todo].
  - cbn [last]. change (lenN (put_uvarints [])) with 0 in Hroom. lia.
  - destruct Hok as [Hnil | Hok]; [discriminate | exact Hok].
Qed.

Lemma load_dv_locs_loop_err {A} (per_field : N -> N -> result A) (g : N -> N -> A) (data : bytes) :
  lenN data < two63 ->
  forall locs a after dvo read,
  data = a ++ write_dv_locs locs ++ after ->
  Forall wf_loc locs ->
  ~ lookahead_ok (flat_locs locs) (lenN after) ->
  (forall p, In p locs -> per_field (fst p) (snd p) = Ok (g (fst p) (snd p))) ->
  dvo + read = lenN a ->
  load_dv_locs_loop per_field (length locs) data dvo read = Err.
Proof.
  intros Hlen. pose proof two63_val as V63. pose proof two64_val as V64.
  induction locs as [| [s e] locs IH]; intros a after dvo read Hd Hall Hla Hper Hsum.
  - exfalso. apply Hla. left. reflexivity.
  - inversion Hall as [| p' locs' [Hs He] Hall']; subst p' locs'. cbn [fst snd] in Hs, He.
    change (flat_locs ((s, e) :: locs)) with (s :: e :: flat_locs locs) in Hla.
    change (write_dv_locs ((s, e) :: locs))
      with ((put_uvarint s ++ put_uvarint e) ++ write_dv_locs locs) in Hd.
    rewrite <- !app_assoc in Hd.
    assert (HL : lenN data = lenN a + (lenN (put_uvarint s) + (lenN (put_uvarint e) +
                   (lenN (write_dv_locs locs) + lenN after))))
      by (rewrite Hd, !lenN_app; reflexivity).
    pose proof (put_uvarint_lenN_10 s Hs) as Ls10. pose proof (put_uvarint_lenN_pos s) as Ls1.
    pose proof (put_uvarint_lenN_10 e He) as Le10. pose proof (put_uvarint_lenN_pos e) as Le1.
    cbn [length load_dv_locs_loop].
    rewrite Hsum. unwrap64.
    destruct (N.le_gt_cases (lenN a + 10) (lenN data)) as [Hin1 | Hout1].
    2: { rewrite read_window_past by (try assumption; try reflexivity; lia). reflexivity. }
    (* start *)
    destruct (read_window data a (put_uvarint s) (put_uvarint e ++ write_dv_locs locs ++ after)
                (lenN a) (lenN a + 10)) as [r1 Hr1]; try assumption; try reflexivity; try lia.
    rewrite Hr1. cbn [rbind].
    rewrite go_uvarint_put by exact Hs.
    replace (Z.of_N (lenN (put_uvarint s)) <=? 0)%Z with false by lia.
    rewrite u64_of_int_of_N by lia. unwrap64.
    replace (dvo + (read + lenN (put_uvarint s))) with (lenN a + lenN (put_uvarint s)) by lia.
    destruct (N.le_gt_cases (lenN a + lenN (put_uvarint s) + 10) (lenN data)) as [Hin2 | Hout2].
    2: { rewrite read_window_past by (try assumption; try reflexivity; lia). reflexivity. }
    (* end *)
    destruct (read_window data (a ++ put_uvarint s) (put_uvarint e) (write_dv_locs locs ++ after)
                (lenN a + lenN (put_uvarint s)) (lenN a + lenN (put_uvarint s) + 10)) as [r2 Hr2];
      try assumption; try reflexivity; try lia.
    { rewrite Hd, <- !app_assoc. reflexivity. }
    { rewrite lenN_app. reflexivity. }
    rewrite Hr2. cbn [rbind].
    rewrite go_uvarint_put by exact He.
    replace (Z.of_N (lenN (put_uvarint e)) <=? 0)%Z with false by lia.
    rewrite u64_of_int_of_N by lia. unwrap64.
    pose proof (Hper (s, e) (or_introl eq_refl)) as Hse. cbn [fst snd] in Hse.
    rewrite Hse. cbn [rbind map fst snd].
    rewrite (IH (a ++ put_uvarint s ++ put_uvarint e) after dvo
               (read + lenN (put_uvarint s) + lenN (put_uvarint e))).
    + reflexivity.
    + rewrite Hd, <- !app_assoc. reflexivity.
    + exact Hall'.
    + intros Hok. apply Hla.
      apply lookahead_cons.
      * apply lookahead_cons; [exact Hok |]. rewrite <- write_dv_locs_flat. lia.
      * rewrite put_uvarints_cons, lenN_app, <- write_dv_locs_flat. lia.
    + intros p Hp. apply Hper. right. exact Hp.
    + rewrite !lenN_app. lia.
Qed.

Theorem dvlocs_lookahead_needed (pre post : bytes) (locs : list (N * N)) (numDocs : N) :
  let data := pre ++ write_dv_locs locs ++ post in
  lenN data < two63 -> Forall wf_loc locs -> numDocs <> 0 ->
  ~ lookahead_ok (flat_locs locs) (lenN post) ->
  load_dv_locs data (lenN pre) numDocs (length locs) = Err.
Proof.
  cbn zeta. intros Hlen Hall Hnd Hla. pose proof two63_val as V63.
  assert (lenN pre < two63) by (rewrite !lenN_app in Hlen; lia).
  unfold load_dv_locs, load_dv_with.
  replace ((lenN pre =? fieldNotUninverted) || (numDocs =? 0)) with false
    by (unfold fieldNotUninverted; lia).
  apply (load_dv_locs_loop_err (fun s e => Ok (s, e)) (fun s e => (s, e)) _ Hlen locs pre post);
    try assumption; try reflexivity.
  lia.
Qed.

(* ================================================================== *)
(* the layout of the data section                                      *)

(* Both writers (new.go convert, merge.go mergeToWriter) put the fields
   section last and always define the field _id, so at least 12 bytes of data
   (15 for "_id") follow the stored trailer and the doc-value locations; the
   44-byte footer that comes next in the file is not part of the data section
   and is not needed: the look-ahead windows of loadStoredFieldChunk and
   loadDvReaders stay inside the data section of every segment ice writes. *)
Lemma lookahead_before_fields (todo : list N) (mid : bytes) (base : N) (fields : list field_rec) :
  fields <> [] -> lookahead_ok todo (lenN (mid ++ fst (persist_fields base fields))).
Proof.
  intros Hne. apply lookahead_ok_9. rewrite lenN_app.
  pose proof (persist_fields_min base fields) as H.
  destruct fields as [| f fields]; [congruence |]. rewrite lenN_cons in H. lia.
Qed.

Lemma flat_map'_id_length (blocks : list bytes) :
  lenN (flat_map' (fun b => b) blocks) = sumN (map lenN blocks).
Proof.
  induction blocks as [| b blocks IH]; [reflexivity |].
  cbn [flat_map' map sumN]. rewrite lenN_app, IH. reflexivity.
Qed.

(* a segment laid out as ice lays it out loads back: chunk offsets, document
   offsets, doc-value locations and fields *)
Theorem segment_data_loads (blocks : list bytes) (docOffsets : list N) (dicts : bytes)
        (locs : list (N * N)) (fields : list field_rec) (numDocs : N) :
  let data := fst (segment_data blocks docOffsets dicts locs fields) in
  let '(storedIndexOffset, fieldsIndexOffset, docValueOffset) :=
    snd (segment_data blocks docOffsets dicts locs fields) in
  lenN data < two63 ->
  stored_wf (0 :: coder_offsets 0 blocks) ->
  Forall (fun x => x < two64) docOffsets ->
  Forall wf_loc locs ->
  Forall wf_field fields -> lenN fields <= 65536 -> fields <> [] ->
  numDocs <> 0 ->
  load_fields data fieldsIndexOffset = Ok fields /\
  load_stored_chunk_offsets data storedIndexOffset = Ok (0 :: coder_offsets 0 blocks) /\
  (forall i v, nth_error docOffsets i = Some v ->
     doc_stored_offset data storedIndexOffset (N.of_nat i) = Ok (storedIndexOffset + 8 * N.of_nat i, v)) /\
  load_dv_locs data docValueOffset numDocs (length locs) = Ok locs.
Proof.
  unfold segment_data, persist_fields. cbn [fst snd].
  set (offs := 0 :: coder_offsets 0 blocks).
  set (pre0 := @flat_map' (list N) N _ blocks).
  set (p1 := (pre0 ++ stored_trailer offs) ++ stored_index docOffsets ++ dicts).
  set (p2 := p1 ++ write_dv_locs locs).
  set (fsec := fields_records fields ++ fields_index (fields_offsets (lenN p2) fields)).
  assert (Hfsec : fsec = fst (persist_fields (lenN p2) fields)) by reflexivity.
  intros Hlen Hswf Hdocs Hlocs Hwf Hn Hne Hnd.
  repeat split.
  - (* fields *)
    apply (fields_roundtrip p2 (lenN p2) fields eq_refl); assumption.
  - (* stored trailer *)
    replace (p2 ++ fsec)
      with (pre0 ++ stored_trailer offs ++ (stored_index docOffsets ++ dicts ++ write_dv_locs locs ++ fsec))
      by (unfold p2, p1; rewrite <- !app_assoc; reflexivity).
    apply stored_trailer_roundtrip.
    + replace (pre0 ++ stored_trailer offs ++ stored_index docOffsets ++ dicts ++ write_dv_locs locs ++ fsec)
        with (p2 ++ fsec) by (unfold p2, p1; rewrite <- !app_assoc; reflexivity).
      exact Hlen.
    + exact Hswf.
    + apply lookahead_ok_9. rewrite !lenN_app. rewrite Hfsec.
      pose proof (persist_fields_min (lenN p2) fields) as H.
      destruct fields as [| f fs]; [congruence |]. rewrite lenN_cons in H. lia.
  - (* stored index *)
    intros i v Hnth.
    replace (p2 ++ fsec)
      with ((pre0 ++ stored_trailer offs) ++ stored_index docOffsets ++ (dicts ++ write_dv_locs locs ++ fsec))
      by (unfold p2, p1; rewrite <- !app_assoc; reflexivity).
    apply doc_stored_offset_roundtrip.
    + replace ((pre0 ++ stored_trailer offs) ++ stored_index docOffsets ++ dicts ++ write_dv_locs locs ++ fsec)
        with (p2 ++ fsec) by (unfold p2, p1; rewrite <- !app_assoc; reflexivity).
      exact Hlen.
    + exact Hnth.
    + rewrite Forall_forall in Hdocs. apply Hdocs. eapply nth_error_In. exact Hnth.
  - (* doc-value locations *)
    replace (p2 ++ fsec) with (p1 ++ write_dv_locs locs ++ fsec)
      by (unfold p2; rewrite <- !app_assoc; reflexivity).
    apply dvlocs_roundtrip.
    + replace (p1 ++ write_dv_locs locs ++ fsec) with (p2 ++ fsec)
        by (unfold p2; rewrite <- !app_assoc; reflexivity).
      exact Hlen.
    + exact Hlocs.
    + exact Hnd.
    + rewrite Hfsec. apply (lookahead_before_fields _ [] (lenN p2) fields Hne).
Qed.

(* ================================================================== *)
(* examples                                                            *)

(* "_id" *)
Definition ex_id : bytes := [95; 105; 100].

(* the data section of the segment built from an empty batch: trailer of the
   offsets [0; 0], no stored index, no dictionaries, the field _id *)
Definition ex_empty_segment : bytes :=
  stored_trailer [0; 0] ++ fst (persist_fields 10 [(0, ex_id, 0, 0)]).

Example ex_empty_bytes :
  ex_empty_segment =
  [0; 0; 0; 0; 0; 2; 0; 0; 0; 2;  0; 3; 95; 105; 100; 0; 0;  0; 0; 0; 0; 0; 0; 0; 10].
Proof. vm_compute. reflexivity. Qed.

Example ex_empty_segment_data :
  segment_data [[]] [] [] [] [(0, ex_id, 0, 0)] = (ex_empty_segment, (10, 17, 10)).
Proof. vm_compute. reflexivity. Qed.

Example ex_empty_loads :
  load_stored_chunk_offsets ex_empty_segment 10 = Ok [0; 0] /\
  load_fields ex_empty_segment 17 = Ok [(0, ex_id, 0, 0)].
Proof. vm_compute. split; reflexivity. Qed.

(* the trailer alone, with nothing after it in the data section, cannot be
   read: the window of the second varint [1, 11) ends behind the 10 bytes; one
   more byte of anything is enough *)
Example ex_trailer_alone : load_stored_chunk_offsets (stored_trailer [0; 0]) 10 = Err.
Proof. vm_compute. reflexivity. Qed.

Example ex_trailer_one_more : load_stored_chunk_offsets (stored_trailer [0; 0] ++ [0]) 10 = Ok [0; 0].
Proof. vm_compute. reflexivity. Qed.

Example ex_fields :
  let fields := [(0, ex_id, 3, 3); (300, [97], 2, 70000)] in
  let pre := [9; 9; 9; 9; 9] in
  persist_fields 5 fields =
    ([0; 3; 95; 105; 100; 3; 3;  172; 2; 1; 97; 2; 240; 162; 4;
      0; 0; 0; 0; 0; 0; 0; 5;  0; 0; 0; 0; 0; 0; 0; 12], 20) /\
  load_fields (pre ++ fst (persist_fields 5 fields)) 20 = Ok fields.
Proof. vm_compute. split; reflexivity. Qed.

Example ex_stored :
  let data := [7; 7] ++ stored_trailer [0; 300; 70000] ++ stored_index [0; 17; 400] ++ [1] in
  stored_trailer [0; 300; 70000] = [0; 172; 2; 240; 162; 4;  0; 0; 0; 6;  0; 0; 0; 3] /\
  load_stored_chunk_offsets data 16 = Ok [0; 300; 70000] /\
  doc_stored_offset data 16 2 = Ok (32, 400) /\
  doc_stored_offset data 16 3 = Err.
Proof. vm_compute. repeat split; reflexivity. Qed.

Example ex_dv_trailer :
  let data := [9; 9; 9; 9; 9] ++ content_write [1; 2; 3] [3; 0; 200] in
  content_write [1; 2; 3] [3; 0; 200] =
    [1; 2; 3;  3; 3; 203; 1;  0; 0; 0; 0; 0; 0; 0; 4;  0; 0; 0; 0; 0; 0; 0; 3] /\
  load_field_dv_reader data 5 28 = Ok (Some (5, [3; 3; 203])) /\
  load_field_dv_reader data fieldNotUninverted fieldNotUninverted = Ok None /\
  load_field_dv_reader data 12 28 = Err.
Proof. vm_compute. repeat split; reflexivity. Qed.

Example ex_dv_locs :
  let locs := [(fieldNotUninverted, fieldNotUninverted); (5, 300)] in
  let tail := [1; 2; 3; 4; 5; 6; 7; 8] in
  lenN (write_dv_locs locs) = 23 /\
  load_dv_locs ([9; 9; 9; 9; 9] ++ write_dv_locs locs ++ tail) 5 1 2 = Ok locs /\
  load_dv_locs ([9; 9; 9; 9; 9] ++ write_dv_locs locs ++ [1; 2; 3; 4; 5; 6; 7]) 5 1 2 = Err /\
  load_dv_locs ([9; 9; 9; 9; 9] ++ write_dv_locs locs ++ tail) 5 0 2 = Ok [].
Proof. vm_compute. repeat split; reflexivity. Qed.

(* a small segment: one block of stored data, two documents, an opaque
   dictionary byte, one field without doc values *)
Example ex_segment :
  let '(data, (sio, fio, dvo)) :=
    segment_data [[1; 2; 3]; []] [0; 1] [42] [(fieldNotUninverted, fieldNotUninverted)] [(0, ex_id, 2, 2)] in
  (sio, fio, dvo) = (14, 58, 31) /\
  load_fields data fio = Ok [(0, ex_id, 2, 2)] /\
  load_stored_chunk_offsets data sio = Ok [0; 3; 3] /\
  doc_stored_offset data sio 1 = Ok (22, 1) /\
  load_dv_readers data dvo 2 1 = Ok [None].
Proof. vm_compute. repeat split; reflexivity. Qed.

(* ------------------------------------------------------------------ *)
(* bytes recorded from the Go code                                     *)

(* The data sections (file minus the 44-byte footer) of two segments written by
   /repo: ice.New on an empty batch, and ice.New (chunk mode 1024) on the batch
     doc 0: _id = "a" (stored), body = "hello world" (stored, doc values; terms hello, world)
     doc 1: _id = "b" (stored), title (doc values; term x)
   followed by Segment.WriteTo.  The footers said
     go_empty: numDocs 0, storedIndexOffset 10, fieldsIndexOffset 17, docValueOffset 0
     go_two:   numDocs 2, storedIndexOffset 49, fieldsIndexOffset 545, docValueOffset 490.
   The compressed blocks, dictionaries and postings inside are opaque here. *)
Definition go_empty : bytes := [0; 0; 0; 0; 0; 2; 0; 0; 0; 2; 0; 3; 95; 105; 100; 0; 0; 0; 0; 0; 0; 0; 0; 0; 10].
Definition go_two : bytes := [40; 181; 47; 253; 4; 0; 209; 0; 0; 6; 12; 0; 0; 1; 1; 1; 11; 97; 104; 101; 108; 108; 111; 32; 119; 111; 114; 108; 100; 3; 1; 0; 0; 1; 98; 109; 42; 172; 32; 0; 39; 0; 0; 0; 2; 0; 0; 0; 2; 0; 0; 0; 0; 0; 0; 0; 0; 0; 0; 0; 0; 0; 0; 0; 20; 1; 19; 40; 181; 47; 253; 4; 0; 49; 0; 0; 2; 175; 131; 128; 248; 3; 10; 106; 225; 8; 65; 0; 18; 58; 48; 0; 0; 1; 0; 0; 0; 0; 0; 0; 0; 16; 0; 0; 0; 0; 0; 1; 19; 40; 181; 47; 253; 4; 0; 49; 0; 0; 2; 175; 131; 128; 248; 3; 10; 106; 225; 8; 107; 0; 18; 58; 48; 0; 0; 1; 0; 0; 0; 0; 0; 0; 0; 16; 0; 0; 0; 1; 0; 40; 1; 0; 0; 0; 0; 0; 0; 0; 0; 0; 0; 0; 0; 0; 0; 0; 128; 86; 0; 0; 98; 97; 17; 2; 2; 0; 0; 0; 0; 0; 0; 0; 23; 0; 0; 0; 0; 0; 0; 0; 1; 19; 40; 181; 47; 253; 4; 0; 49; 0; 0; 2; 180; 133; 128; 248; 3; 18; 130; 120; 50; 190; 1; 0; 18; 58; 48; 0; 0; 1; 0; 0; 0; 0; 0; 0; 0; 16; 0; 0; 0; 0; 0; 1; 19; 40; 181; 47; 253; 4; 0; 49; 0; 0; 2; 180; 133; 128; 248; 3; 18; 130; 120; 50; 233; 1; 0; 18; 58; 48; 0; 0; 1; 0; 0; 0; 0; 0; 0; 0; 16; 0; 0; 0; 0; 0; 52; 1; 0; 0; 0; 0; 0; 0; 0; 0; 0; 0; 0; 0; 0; 0; 0; 0; 16; 132; 207; 207; 194; 0; 16; 146; 207; 199; 196; 254; 211; 1; 7; 119; 104; 17; 2; 2; 0; 0; 0; 0; 0; 0; 0; 35; 0; 0; 0; 0; 0; 0; 0; 1; 0; 12; 40; 181; 47; 253; 4; 0; 97; 0; 0; 104; 101; 108; 108; 111; 255; 119; 111; 114; 108; 100; 255; 8; 151; 226; 169; 28; 0; 0; 0; 0; 0; 0; 0; 1; 0; 0; 0; 0; 0; 0; 0; 1; 1; 19; 40; 181; 47; 253; 4; 0; 49; 0; 0; 4; 165; 133; 128; 248; 3; 150; 83; 174; 222; 246; 2; 0; 18; 58; 48; 0; 0; 1; 0; 0; 0; 0; 0; 0; 0; 16; 0; 0; 0; 1; 0; 37; 1; 0; 0; 0; 0; 0; 0; 0; 0; 0; 0; 0; 0; 0; 0; 0; 139; 1; 0; 18; 170; 1; 0; 0; 0; 0; 0; 0; 0; 20; 0; 0; 0; 0; 0; 0; 0; 1; 1; 2; 40; 181; 47; 253; 4; 0; 17; 0; 0; 120; 255; 147; 120; 9; 116; 18; 0; 0; 0; 0; 0; 0; 0; 1; 0; 0; 0; 0; 0; 0; 0; 1; 255; 255; 255; 255; 255; 255; 255; 255; 255; 1; 255; 255; 255; 255; 255; 255; 255; 255; 255; 1; 201; 2; 246; 2; 199; 3; 234; 3; 149; 1; 3; 95; 105; 100; 2; 2; 148; 2; 4; 98; 111; 100; 121; 1; 2; 161; 3; 5; 116; 105; 116; 108; 101; 1; 1; 0; 0; 0; 0; 0; 0; 2; 6; 0; 0; 0; 0; 0; 0; 2; 14; 0; 0; 0; 0; 0; 0; 2; 23].

Example ex_go_empty : go_empty = ex_empty_segment.
Proof. vm_compute. reflexivity. Qed.

Definition go_two_fields : list field_rec :=
  [(149, ex_id, 2, 2); (276, [98; 111; 100; 121], 1, 2); (417, [116; 105; 116; 108; 101], 1, 1)].
Definition go_two_locs : list (N * N) :=
  [(fieldNotUninverted, fieldNotUninverted); (329, 374); (455, 490)].

(* the readers of the model on the bytes Go wrote *)
Example ex_go_two_read :
  load_fields go_two 545 = Ok go_two_fields /\
  load_stored_chunk_offsets go_two 49 = Ok [0; 39] /\
  doc_stored_offset go_two 49 0 = Ok (49, 0) /\
  doc_stored_offset go_two 49 1 = Ok (57, 20) /\
  load_dv_locs go_two 490 2 3 = Ok go_two_locs /\
  load_dv_readers go_two 490 2 3 = Ok [None; Some (329, [28]); Some (455, [18])].
Proof. vm_compute. repeat split; reflexivity. Qed.

(* the writers of the model reproduce the bytes Go wrote: the whole data
   section is the layout of segment_data around the opaque parts *)
Example ex_go_two_written :
  segment_data [firstn 39 go_two] [0; 20] (firstn 425 (skipn 65 go_two)) go_two_locs go_two_fields
  = (go_two, (49, 545, 490)) /\
  firstn 17 (skipn 357 go_two) = dv_trailer [28] /\
  firstn 17 (skipn 473 go_two) = dv_trailer [18].
Proof. vm_compute. repeat split; reflexivity. Qed.

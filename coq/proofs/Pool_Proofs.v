(* Pool_Proofs.v - the pooled builder object (theories/Pool.v, the model of
   interimPool / interim.reset and of the re-slicing in convert,
   getOrDefineField, prepareDicts): a build that starts from an object taken
   out of the pool computes what a build from a fresh object computes.

   Main results:
     reset_lengths_and_visible   for EVERY state: reset() sets all lengths to 0
                                 and zeroes the cells below the old lengths
     reset_not_clean_in_general  ... and no more than that: reset()'s loops are
                                 "for i := range s", they stop at the length; a
                                 non-zero cell between length and capacity survives
     reset_clean             (a) Tidy st (the cells behind the lengths are zero)
                                 -> Clean (pool_reset st)
     build_tidy                  a successful build from a Clean object leaves a
                                 Tidy one (it writes below the lengths it set)
     Reach_clean                 every object taken out of the pool is Clean
     views_equal             (b) from a Clean object every take_* / define_* /
                                 grow step shows what it shows from pool_fresh
     sl_run_visible, dk_run_view slices grown by append from length 0 show exactly
                                 Builder.v's lists (Dicts, DictKeys, the counters)
     dictkeys_view_needs_length_only
                                 reset()'s loop over the inner DictKeys slices is
                                 redundant: getOrDefineField truncates the cell itself
     reset_bad1_detected,
     reset_bad2_detected     (c) a reset() that forgets to clear IncludeDocValues /
                                 the bitmaps is told apart, on a state that a
                                 successful build from a fresh object leaves
     build_from_clean,
     build_pool_independent  (d) build_from st = Ok (Builder.build_postings_model)
                                 for every reachable st (any norm, any iteration
                                 order perm that is a permutation; no validity of
                                 the batch needed); the pooled backing arrays are
                                 longer than the counted sizes and the windows'
                                 capacities reach into the extra cells
     build_leaves_stale_untouched the build does not write those extra cells
     R_build_postings_pool       with Builder_Proofs.R_build_postings: the
                                 specification, from every reachable pool state
     big_build_*, small_views, bad_views, build_from_example   worked examples *)
From Coq Require Import List NArith Bool Lia Arith Sorting Permutation.
From Ice Require Import Base Spec Postings Builder Pool.
From IceProofs Require Import Sort_Proofs Builder_Proofs.
Import ListNotations.
From Coq Require Import ZifyBool ZifyN ZifyNat.
Open Scope nat_scope.

(* ------------------------------------------------------------------ *)
(* lists                                                               *)
(* ------------------------------------------------------------------ *)
Lemma Forall_skipn {A} (P : A -> Prop) (n : nat) (l : list A) : Forall P l -> Forall P (skipn n l).
Proof.
  revert l. induction n as [|n IH]; intros l H; [exact H|].
  destruct l as [|x l]; [constructor|]. cbn [skipn]. apply IH. inversion H; assumption.
Qed.

Lemma Forall_firstn {A} (P : A -> Prop) (n : nat) (l : list A) : Forall P l -> Forall P (firstn n l).
Proof.
  revert l. induction n as [|n IH]; intros l H; [constructor|].
  destruct l as [|x l]; [constructor|]. cbn [firstn]. inversion H; subst. constructor; auto.
Qed.

Lemma Forall_repeat {A} (P : A -> Prop) (x : A) (n : nat) : P x -> Forall P (repeat x n).
Proof. intros H. induction n; cbn [repeat]; constructor; auto. Qed.

Lemma Forall_eq_repeat {A} (z : A) (l : list A) :
  Forall (fun x => x = z) l -> l = repeat z (length l).
Proof.
  induction 1 as [|x l H _ IH]; [reflexivity|]. cbn [length repeat]. subst x. f_equal. exact IH.
Qed.

Lemma firstn_repeat_le {A} (z : A) (n c : nat) : n <= c -> firstn n (repeat z c) = repeat z n.
Proof.
  revert c. induction n as [|n IH]; intros c H; [reflexivity|].
  destruct c as [|c]; [lia|]. cbn [repeat firstn]. f_equal. apply IH. lia.
Qed.

Lemma skipn_set_nth_lt {A} (i n : nat) (x : A) (l : list A) :
  i < n -> skipn n (set_nth i x l) = skipn n l.
Proof.
  revert i n. induction l as [|y l IH]; intros i n H.
  - destruct i; reflexivity.
  - destruct n as [|n]; [lia|]. destruct i as [|i]; cbn [set_nth skipn]; [reflexivity|].
    apply IH. lia.
Qed.

Lemma firstn_set_nth_lt {A} (i n : nat) (x : A) (l : list A) :
  i < n -> firstn n (set_nth i x l) = set_nth i x (firstn n l).
Proof.
  revert i n. induction l as [|y l IH]; intros i n H.
  - destruct i; destruct n; reflexivity.
  - destruct n as [|n]; [lia|]. destruct i as [|i]; cbn [set_nth firstn]; [reflexivity|].
    f_equal. apply IH. lia.
Qed.

Lemma map_set_nth {A B} (f : A -> B) (i : nat) (x : A) (l : list A) :
  map f (set_nth i x l) = set_nth i (f x) (map f l).
Proof.
  revert i. induction l as [|y l IH]; intros [|i]; cbn [set_nth map]; auto. f_equal. apply IH.
Qed.

Lemma set_nth_app_l {A} (i : nat) (x : A) (l r : list A) :
  i < length l -> set_nth i x (l ++ r) = set_nth i x l ++ r.
Proof.
  revert i. induction l as [|y l IH]; intros i H; cbn [length] in H; [lia|].
  destruct i as [|i]; cbn [set_nth app]; [reflexivity|]. f_equal. apply IH. lia.
Qed.

Lemma nthN_nth {A} (l : list A) (i : nat) (d : A) : i < length l -> nthN l i = Some (nth i l d).
Proof.
  revert i. induction l as [|y l IH]; intros i H; cbn [length] in H; [lia|].
  destruct i as [|i]; cbn [nthN nth]; [reflexivity|]. apply IH. lia.
Qed.

Lemma nth_firstn_lt {A} (l : list A) (i n : nat) (d : A) : i < n -> nth i (firstn n l) d = nth i l d.
Proof.
  revert i n. induction l as [|y l IH]; intros i n H.
  - rewrite firstn_nil. reflexivity.
  - destruct n as [|n]; [lia|]. destruct i as [|i]; cbn [firstn nth]; [reflexivity|].
    apply IH. lia.
Qed.

Lemma skipn_1_skipn {A} (n : nat) (l : list A) : skipn 1 (skipn n l) = skipn (S n) l.
Proof.
  revert l. induction n as [|n IH]; intros l; [reflexivity|].
  destruct l as [|y l]; [reflexivity|]. rewrite !skipn_cons. rewrite IH. reflexivity.
Qed.

Lemma firstn_S_app {A} (l : list A) (x : A) (r : list A) :
  firstn (S (length l)) (l ++ x :: r) = l ++ [x].
Proof. induction l as [|y l IH]; [reflexivity|]. cbn [length app]. rewrite firstn_cons. f_equal. exact IH. Qed.

Lemma skipn_S_app {A} (l : list A) (x : A) (r : list A) :
  skipn (S (length l)) (l ++ x :: r) = r.
Proof. induction l as [|y l IH]; [reflexivity|]. cbn [length app]. rewrite skipn_cons. exact IH. Qed.

(* ------------------------------------------------------------------ *)
(* Go slices                                                           *)
(* ------------------------------------------------------------------ *)
Section GS.
  Context {X : Type}.
  Implicit Types s : gslice X.

  Lemma visible_stale s : visible s ++ stale s = gs_back s.
  Proof. apply firstn_skipn. Qed.

  Lemma visible_length s : gs_wf s -> length (visible s) = gs_len s.
  Proof. intros H. unfold visible. apply firstn_length_le, H. Qed.

  Lemma gs_wfb_wf s : gs_wfb s = true <-> gs_wf s.
  Proof. unfold gs_wfb, gs_wf. apply Nat.leb_le. Qed.

  Lemma len0_wf s : gs_len s = 0 -> gs_wf s.
  Proof. unfold gs_wf. lia. Qed.

  Lemma len0_visible s : gs_len s = 0 -> visible s = [].
  Proof. unfold visible. intros ->. reflexivity. Qed.

  Lemma visible_truncate s : visible (truncate s) = [].
  Proof. reflexivity. Qed.

  Lemma visible_gnil : visible (@gnil X) = [].
  Proof. reflexivity. Qed.

  Lemma visible_gmake (z : X) n : visible (gmake z n) = repeat z n.
  Proof. unfold visible, gmake. cbn [gs_len gs_back]. rewrite <- (repeat_length z n) at 1. apply firstn_all. Qed.

  Lemma gmake_wf (z : X) n : gs_wf (gmake z n).
  Proof. unfold gs_wf, gcap, gmake. cbn [gs_len gs_back]. rewrite repeat_length. lia. Qed.

  (* s[:n] is legal exactly up to the capacity; the guarded form never panics *)
  Lemma reslice_ok s n : n <= gcap s -> reslice s n = Ok (mkGS n (gs_back s)).
  Proof. intros H. unfold reslice. apply Nat.leb_le in H. rewrite H. reflexivity. Qed.

  Lemma reslice_panic s n : gcap s < n -> reslice s n = Panic.
  Proof. intros H. unfold reslice. apply Nat.leb_gt in H. rewrite H. reflexivity. Qed.

  Lemma take_or_make_reslice (z : X) s n :
    n <= gcap s -> reslice s n = Ok (take_or_make z s n).
  Proof. intros H. unfold take_or_make. rewrite reslice_ok by exact H. apply Nat.leb_le in H. rewrite H. reflexivity. Qed.

  Lemma take_or_make_len (z : X) s n : gs_len (take_or_make z s n) = n.
  Proof. unfold take_or_make. destruct (Nat.leb n (gcap s)); reflexivity. Qed.

  Lemma take_or_make_wf (z : X) s n : gs_wf (take_or_make z s n).
  Proof.
    unfold take_or_make. destruct (Nat.leb n (gcap s)) eqn:E; [|apply gmake_wf].
    apply Nat.leb_le in E. exact E.
  Qed.

  (* append *)
  Lemma gappend_len g (z : X) s x : gs_len (gappend g z s x) = S (gs_len s).
  Proof. unfold gappend. destruct (Nat.ltb (gs_len s) (gcap s)); reflexivity. Qed.

  Lemma gappend_wf g (z : X) s x : gs_wf s -> gs_wf (gappend g z s x).
  Proof.
    unfold gs_wf, gappend, gcap. intros H.
    destruct (Nat.ltb (gs_len s) (length (gs_back s))) eqn:E; cbn [gs_len gs_back].
    - apply Nat.ltb_lt in E. rewrite set_nth_length. lia.
    - rewrite app_length, firstn_length_le by exact H. cbn [length]. lia.
  Qed.

  Lemma visible_gappend g (z : X) s x : gs_wf s -> visible (gappend g z s x) = visible s ++ [x].
  Proof.
    unfold gs_wf, gappend, gcap, visible. intros H.
    destruct (Nat.ltb (gs_len s) (length (gs_back s))) eqn:E; cbn [gs_len gs_back].
    - apply Nat.ltb_lt in E. apply firstn_set_nth_snoc, E.
    - apply Nat.ltb_ge in E. assert (L : gs_len s = length (gs_back s)) by lia.
      rewrite L, firstn_all. apply firstn_S_app.
  Qed.

  (* what is behind the length after an append: one cell less of the old
     array, or the zero cells of the new one *)
  Lemma stale_gappend g (z : X) s x :
    gs_wf s ->
    stale (gappend g z s x) = skipn 1 (stale s) \/ stale (gappend g z s x) = repeat z g.
  Proof.
    unfold gs_wf, gappend, gcap, stale. intros H.
    destruct (Nat.ltb (gs_len s) (length (gs_back s))) eqn:E; cbn [gs_len gs_back].
    - left. rewrite skipn_set_nth_lt by lia. symmetry. apply skipn_1_skipn.
    - right. apply Nat.ltb_ge in E. assert (L : gs_len s = length (gs_back s)) by lia.
      rewrite L, firstn_all. apply skipn_S_app.
  Qed.

  (* element access *)
  Lemma gget_ok s i : gs_wf s -> i < gs_len s -> forall d, gget s i = Ok (nth i (visible s) d).
  Proof.
    unfold gs_wf, gcap. intros H Hi d. unfold gget. apply Nat.ltb_lt in Hi. rewrite Hi.
    apply Nat.ltb_lt in Hi. rewrite (nthN_nth _ _ d) by lia.
    unfold visible. rewrite nth_firstn_lt by exact Hi. reflexivity.
  Qed.

  Lemma gget_panic s i : gs_len s <= i -> gget s i = Panic.
  Proof. intros H. unfold gget. apply Nat.ltb_ge in H. rewrite H. reflexivity. Qed.

  Lemma gset_ok s i x :
    i < gs_len s ->
    exists s', gset s i x = Ok s' /\ gs_len s' = gs_len s /\ gcap s' = gcap s /\
               visible s' = set_nth i x (visible s) /\ stale s' = stale s.
  Proof.
    intros Hi. unfold gset. apply Nat.ltb_lt in Hi. rewrite Hi. apply Nat.ltb_lt in Hi.
    eexists. split; [reflexivity|]. unfold gcap, visible, stale. cbn [gs_len gs_back].
    split; [reflexivity|]. split; [apply set_nth_length|].
    split; [apply firstn_set_nth_lt, Hi | apply skipn_set_nth_lt, Hi].
  Qed.

  Lemma gset_panic s i x : gs_len s <= i -> gset s i x = Panic.
  Proof. intros H. unfold gset. apply Nat.ltb_ge in H. rewrite H. reflexivity. Qed.

  Lemma gset_wrote_below s i x s' : gset s i x = Ok s' -> wrote_below s s'.
  Proof.
    destruct (Nat.lt_ge_cases i (gs_len s)) as [H|H].
    - destruct (gset_ok s i x H) as [s'' [E [A [B [_ C]]]]]. rewrite E. intros Q. inversion Q. subst s''.
      split; [exact A|]. split; [exact B | exact C].
    - rewrite gset_panic by exact H. discriminate.
  Qed.

  (* "for i := range s { s[i] = f(s[i]) }; s = s[:0]" leaves f's values in the
     cells below the old length and does not touch the others *)
  Lemma reset_loop_back (f : X -> X) s :
    gs_back (truncate (gmap_vis f s)) = map f (visible s) ++ stale s.
  Proof. reflexivity. Qed.

  Lemma reset_loop_clean (P : X -> Prop) (f : X -> X) s :
    (forall x, P (f x)) -> Forall P (stale s) -> Forall P (gs_back (truncate (gmap_vis f s))).
  Proof.
    intros Hf Hs. rewrite reset_loop_back. apply Forall_app. split; [|exact Hs].
    apply Forall_forall. intros y Hy. apply in_map_iff in Hy. destruct Hy as [x [<- _]]. apply Hf.
  Qed.

  (* what a guarded re-slice shows when every cell it can expose is zero *)
  Lemma take_or_make_view (z : X) s n :
    Forall (fun x => x = z) (gs_back s) -> visible (take_or_make z s n) = repeat z n.
  Proof.
    intros H. unfold take_or_make. destruct (Nat.leb n (gcap s)) eqn:E.
    - apply Nat.leb_le in E. unfold visible. cbn [gs_len gs_back].
      rewrite (Forall_eq_repeat z _ H). apply firstn_repeat_le, E.
    - apply visible_gmake.
  Qed.

  Lemma take_or_make_back_clean (P : X -> Prop) (z : X) s n :
    P z -> Forall P (gs_back s) -> Forall P (gs_back (take_or_make z s n)).
  Proof.
    intros Hz H. unfold take_or_make. destruct (Nat.leb n (gcap s)); [exact H|].
    apply Forall_repeat, Hz.
  Qed.

  Lemma wrote_below_stale (P : X -> Prop) s s' :
    Forall P (gs_back s) -> wrote_below s s' -> Forall P (stale s').
  Proof. intros H [_ [_ E]]. rewrite E. apply Forall_skipn, H. Qed.

  (* appends and element assignments keep the cells behind the length zero *)
  Definition behind (P : X -> Prop) s : Prop := gs_wf s /\ Forall P (stale s).

  Lemma sl_step_behind (P : X -> Prop) (z : X) s op s' :
    P z -> behind P s -> sl_step z s op = Ok s' -> behind P s'.
  Proof.
    intros Hz [W B]. destruct op as [g x|i x]; cbn [sl_step].
    - intros Q. inversion Q. subst s'. split; [apply gappend_wf, W|].
      destruct (stale_gappend g z s x W) as [E|E]; rewrite E.
      + apply Forall_skipn, B.
      + apply Forall_repeat, Hz.
    - intros Q. destruct (gset_wrote_below _ _ _ _ Q) as [A [C D]].
      split; [unfold gs_wf in *; lia | rewrite D; exact B].
  Qed.

  Lemma sl_run_behind (P : X -> Prop) (z : X) ops : forall s s',
    P z -> behind P s -> sl_run z ops s = Ok s' -> behind P s'.
  Proof.
    induction ops as [|op ops IH]; intros s s' Hz HB; cbn [sl_run].
    - intros Q. inversion Q. subst s'. exact HB.
    - destruct (sl_step z s op) as [s1| | | |] eqn:E; cbn [rbind]; try discriminate.
      apply IH; [exact Hz|]. exact (sl_step_behind P z s op s1 Hz HB E).
  Qed.
End GS.

(* ------------------------------------------------------------------ *)
(* (a) reset() delivers a clean object                                 *)
(* ------------------------------------------------------------------ *)
(* reset()'s loops run over the LENGTHS: what they establish depends on what
   is behind the lengths.  Tidy: every cell behind a length is zero. *)
Definition Tidy (st : pstate) : Prop :=
  Forall (fun x => x = false) (stale (pIncludeDV st)) /\
  Forall (fun d => d = []) (stale (pDicts st)) /\
  Forall (fun d => gs_len d = 0) (stale (pDictKeys st)) /\
  Forall (fun bm => bm = []) (stale (pPostings st)) /\
  Forall (fun x => x = None) (stale (pFNBacking st)) /\
  Forall (fun x => x = None) (stale (pLocsBacking st)).

(* for every state: all lengths 0, every cell that was below a length zeroed *)
Theorem reset_lengths_and_visible (st : pstate) :
  let r := pool_reset st in
  gs_len (pIncludeDV r) = 0 /\ gs_len (pDicts r) = 0 /\ gs_len (pDictKeys r) = 0 /\
  gs_len (pPostings r) = 0 /\ gs_len (pFreqNorms r) = 0 /\ gs_len (pFNBacking r) = 0 /\
  gs_len (pLocs r) = 0 /\ gs_len (pLocsBacking r) = 0 /\ gs_len (pNumTerms r) = 0 /\
  gs_len (pNumLocs r) = 0 /\
  gs_back (pIncludeDV r) = map (fun _ => false) (visible (pIncludeDV st)) ++ stale (pIncludeDV st) /\
  gs_back (pDicts r) = map (fun _ => []) (visible (pDicts st)) ++ stale (pDicts st) /\
  gs_back (pDictKeys r) = map truncate (visible (pDictKeys st)) ++ stale (pDictKeys st) /\
  gs_back (pPostings r) = map (fun _ => []) (visible (pPostings st)) ++ stale (pPostings st) /\
  gs_back (pFNBacking r) = map (fun _ => None) (visible (pFNBacking st)) ++ stale (pFNBacking st) /\
  gs_back (pLocsBacking r) = map (fun _ => None) (visible (pLocsBacking st)) ++ stale (pLocsBacking st).
Proof. cbv zeta. repeat split. Qed.

Theorem reset_clean (st : pstate) : Tidy st -> Clean (pool_reset st).
Proof.
  intros [T1 [T2 [T3 [T4 [T5 T6]]]]]. unfold Clean, pool_reset.
  cbn [pIncludeDV pDicts pDictKeys pPostings pFreqNorms pFNBacking pLocs pLocsBacking pNumTerms pNumLocs].
  repeat split; try reflexivity; apply reset_loop_clean; auto.
Qed.

(* ... and NOT for every state: a true cell between length and capacity
   survives reset().  Tidy is the invariant the builds have to maintain. *)
Definition st_untidy : pstate :=
  mkP (mkGS 0 [true]) gnil gnil gnil gnil gnil gnil gnil gnil gnil.

Theorem reset_not_clean_in_general : exists st, ~ Clean (pool_reset st).
Proof.
  exists st_untidy. intros [[_ H] _]. cbn in H. inversion H as [|x l Hx Hl]. discriminate.
Qed.

Lemma Clean_Tidy st : Clean st -> Tidy st.
Proof.
  intros [[_ C1] [[_ C2] [[_ C3] [[_ C4] [_ [[_ C5] [_ [[_ C6] _]]]]]]]].
  unfold Tidy. repeat split; apply Forall_skipn; assumption.
Qed.

Lemma cleanb_Clean st : cleanb st = true -> Clean st.
Proof.
  unfold cleanb, Clean. rewrite !andb_true_iff, !Nat.eqb_eq, !forallb_forall.
  intros H. decompose [and] H. clear H.
  repeat split; try assumption; apply Forall_forall; intros x Hx;
    match goal with H : forall y, In y ?l -> _, Hx : In _ ?l |- _ => specialize (H _ Hx) end;
    try (apply Nat.eqb_eq; assumption); destruct x; cbn in *; try reflexivity; discriminate.
Qed.

(* ------------------------------------------------------------------ *)
(* DictKeys: getOrDefineField and the appends of prepareDicts          *)
(* ------------------------------------------------------------------ *)
Lemma define_dictkeys_len g s : gs_len (define_dictkeys g s) = S (gs_len s).
Proof.
  unfold define_dictkeys. destruct (Nat.ltb (gs_len s) (gcap s)); [reflexivity | apply gappend_len].
Qed.

Lemma define_dictkeys_wf g s : gs_wf s -> gs_wf (define_dictkeys g s).
Proof.
  intros H. unfold define_dictkeys. destruct (Nat.ltb (gs_len s) (gcap s)) eqn:E.
  - apply Nat.ltb_lt in E. unfold gs_wf, gcap in *. cbn [gs_len gs_back]. rewrite set_nth_length. lia.
  - apply gappend_wf, H.
Qed.

(* the new element shows no string, whatever the re-slice found in the cell *)
Lemma define_dictkeys_visible g s :
  gs_wf s -> exists d, visible (define_dictkeys g s) = visible s ++ [d] /\ gs_len d = 0.
Proof.
  intros H. unfold define_dictkeys. destruct (Nat.ltb (gs_len s) (gcap s)) eqn:E.
  - apply Nat.ltb_lt in E. eexists. split.
    + unfold visible. cbn [gs_len gs_back]. apply firstn_set_nth_snoc, E.
    + reflexivity.
  - exists gnil. split; [apply visible_gappend, H | reflexivity].
Qed.

Lemma define_dictkeys_stale g s :
  gs_wf s ->
  stale (define_dictkeys g s) = skipn 1 (stale s) \/ stale (define_dictkeys g s) = repeat gnil g.
Proof.
  intros H. unfold define_dictkeys. destruct (Nat.ltb (gs_len s) (gcap s)) eqn:E.
  - left. apply Nat.ltb_lt in E. unfold stale. cbn [gs_len gs_back].
    rewrite skipn_set_nth_lt by lia. symmetry. apply skipn_1_skipn.
  - destruct (stale_gappend g gnil s gnil H) as [A|A]; [left | right]; exact A.
Qed.

Lemma dk_step_behind s op s' :
  behind (fun d : gslice bytes => gs_len d = 0) s -> dk_step s op = Ok s' ->
  behind (fun d : gslice bytes => gs_len d = 0) s'.
Proof.
  intros [W B]. destruct op as [g|i g t|i]; cbn [dk_step].
  - intros Q. inversion Q. subst s'. split; [apply define_dictkeys_wf, W|].
    destruct (define_dictkeys_stale g s W) as [E|E]; rewrite E.
    + apply Forall_skipn, B.
    + apply Forall_repeat. reflexivity.
  - destruct (gget s i) as [d| | | |]; cbn [rbind]; try discriminate.
    intros Q. destruct (gset_wrote_below _ _ _ _ Q) as [A [C D]].
    split; [unfold gs_wf in *; lia | rewrite D; exact B].
  - destruct (gget s i) as [d| | | |]; cbn [rbind]; try discriminate.
    intros Q. destruct (gset_wrote_below _ _ _ _ Q) as [A [C D]].
    split; [unfold gs_wf in *; lia | rewrite D; exact B].
Qed.

Lemma dk_run_behind ops : forall s s',
  behind (fun d : gslice bytes => gs_len d = 0) s -> dk_run ops s = Ok s' ->
  behind (fun d : gslice bytes => gs_len d = 0) s'.
Proof.
  induction ops as [|op ops IH]; intros s s' HB; cbn [dk_run].
  - intros Q. inversion Q. subst s'. exact HB.
  - destruct (dk_step s op) as [s1| | | |] eqn:E; cbn [rbind]; try discriminate.
    apply IH. exact (dk_step_behind s op s1 HB E).
Qed.

(* ------------------------------------------------------------------ *)
(* a build leaves every cell behind the lengths zero                   *)
(* ------------------------------------------------------------------ *)
Lemma take_postings_back_clean st n :
  Forall (fun bm => bm = []) (gs_back (pPostings st)) ->
  Forall (fun bm => bm = []) (gs_back (take_postings st n)).
Proof.
  intros H. unfold take_postings. destruct (Nat.leb n (gcap (pPostings st))); cbn [gs_back]; [exact H|].
  apply Forall_app. split; [exact H | apply Forall_repeat; reflexivity].
Qed.

Theorem build_tidy st st' : Clean st -> build_step st st' -> Tidy st'.
Proof.
  intros [[L1 C1] [[L2 C2] [[L3 C3] [[L4 C4] [L5 [[L6 C6] [L7 [[L8 C8] [L9 L10]]]]]]]]] HB.
  destruct HB as [nf np tt tl dops kops tops lops B1 B2 B3 B4 B5 B6 B7 B8 B9 B10].
  unfold Tidy. repeat split.
  - eapply wrote_below_stale; [|exact B1]. apply take_or_make_back_clean; [reflexivity | exact C1].
  - assert (X : behind (fun d : Dict => d = []) (pDicts st)).
    { split; [apply len0_wf, L2 | apply Forall_skipn, C2]. }
    exact (proj2 (sl_run_behind _ _ dops _ _ eq_refl X B2)).
  - assert (X : behind (fun d : gslice bytes => gs_len d = 0) (pDictKeys st)).
    { split; [apply len0_wf, L3 | apply Forall_skipn, C3]. }
    exact (proj2 (dk_run_behind kops _ _ X B3)).
  - eapply wrote_below_stale; [|exact B4]. apply take_postings_back_clean, C4.
  - eapply wrote_below_stale; [|exact B6]. apply take_or_make_back_clean; [reflexivity | exact C6].
  - eapply wrote_below_stale; [|exact B8]. apply take_or_make_back_clean; [reflexivity | exact C8].
Qed.

Lemma pool_fresh_clean : Clean pool_fresh.
Proof. apply cleanb_Clean. reflexivity. Qed.

(* every object taken out of the pool is clean *)
Theorem Reach_clean st : Reach st -> Clean st.
Proof.
  induction 1 as [|st st' _ IH HB].
  - apply pool_fresh_clean.
  - apply reset_clean. exact (build_tidy st st' IH HB).
Qed.

(* ------------------------------------------------------------------ *)
(* the executable build step is a build step                           *)
(* ------------------------------------------------------------------ *)
Lemma wrote_below_refl {X} (s : gslice X) : wrote_below s s.
Proof. repeat split. Qed.

Lemma wrote_below_trans {X} (s1 s2 s3 : gslice X) :
  wrote_below s1 s2 -> wrote_below s2 s3 -> wrote_below s1 s3.
Proof. intros [A1 [A2 A3]] [B1 [B2 B3]]. repeat split; congruence. Qed.

Lemma write_all_wrote_below {X} (ws : list (nat * X)) : forall s s',
  write_all ws s = Ok s' -> wrote_below s s'.
Proof.
  induction ws as [|[i x] ws IH]; intros s s'; cbn [write_all].
  - intros Q. inversion Q. apply wrote_below_refl.
  - destruct (gset s i x) as [s1| | | |] eqn:E; cbn [rbind]; try discriminate.
    intros Q. eapply wrote_below_trans; [exact (gset_wrote_below _ _ _ _ E) | apply IH, Q].
Qed.

Theorem run_build_step st d st' : run_build st d = Ok st' -> build_step st st'.
Proof.
  unfold run_build.
  destruct (write_all (bd_dv d) _) as [a1| | | |] eqn:E1; cbn [rbind]; try discriminate.
  destruct (sl_run [] (bd_dops d) _) as [a2| | | |] eqn:E2; cbn [rbind]; try discriminate.
  destruct (dk_run (bd_kops d) _) as [a3| | | |] eqn:E3; cbn [rbind]; try discriminate.
  destruct (write_all (bd_post d) _) as [a4| | | |] eqn:E4; cbn [rbind]; try discriminate.
  destruct (write_all (bd_fnw d) _) as [a5| | | |] eqn:E5; cbn [rbind]; try discriminate.
  destruct (write_all (bd_fnb d) _) as [a6| | | |] eqn:E6; cbn [rbind]; try discriminate.
  destruct (write_all (bd_lw d) _) as [a7| | | |] eqn:E7; cbn [rbind]; try discriminate.
  destruct (write_all (bd_lb d) _) as [a8| | | |] eqn:E8; cbn [rbind]; try discriminate.
  destruct (grow_counters (bd_tops d) _) as [a9| | | |] eqn:E9; cbn [rbind]; try discriminate.
  destruct (grow_counters (bd_lops d) _) as [a10| | | |] eqn:E10; cbn [rbind]; try discriminate.
  intros Q. inversion Q. subst st'.
  apply (BuildOk st _ (bd_nf d) (bd_np d) (bd_totTFs d) (bd_totLocs d)
           (bd_dops d) (bd_kops d) (bd_tops d) (bd_lops d));
    cbn [pIncludeDV pDicts pDictKeys pPostings pFreqNorms pFNBacking pLocs pLocsBacking pNumTerms pNumLocs];
    try assumption; eapply write_all_wrote_below; eassumption.
Qed.

(* ------------------------------------------------------------------ *)
(* an example: a big build, reset(), a smaller build                   *)
(* ------------------------------------------------------------------ *)
Definition w_cat : bytes := [99; 97; 116]%N.
Definition w_dog : bytes := [100; 111; 103]%N.
Definition w_emu : bytes := [101; 109; 117]%N.

(* five fields, five postings lists, five freq/norm entries, five locations;
   every append that has to allocate gets room for all five *)
Definition big_build : build_descr :=
  mkBD 5 5 5 5
    [(1, true); (3, true)]
    [OpApp 4 []; OpApp 0 []; OpApp 0 []; OpApp 0 []; OpApp 0 [];
     OpSet 1 [(w_cat, 0); (w_dog, 1)]; OpSet 2 [(w_emu, 2)]; OpSet 3 [(w_cat, 3)]; OpSet 4 [(w_dog, 4)]]
    [DKDefine 4; DKDefine 0; DKDefine 0; DKDefine 0; DKDefine 0;
     DKAppend 1 1 w_dog; DKAppend 1 0 w_cat; DKAppend 2 0 w_emu; DKAppend 3 0 w_cat;
     DKAppend 4 0 w_dog; DKSort 1]
    [(0, [0; 1]%N); (1, [2]%N); (2, [0]%N); (3, [1; 2]%N); (4, [0]%N)]
    [(0, Win 0 1); (1, Win 1 1); (2, Win 2 1); (3, Win 3 1); (4, Win 4 1)]
    [(0, Some (1%N, (101%N, 1))); (1, Some (2%N, (102%N, 1))); (2, Some (1%N, (103%N, 1)));
     (3, Some (3%N, (104%N, 1))); (4, Some (1%N, (105%N, 1)))]
    [(0, Win 0 1); (1, Win 1 1); (2, Win 2 1); (3, Win 3 1); (4, Win 4 1)]
    [(0, Some (1, (1, (0, 3)))%N); (1, Some (1, (2, (4, 7)))%N); (2, Some (2, (1, (0, 3)))%N);
     (3, Some (3, (1, (0, 3)))%N); (4, Some (4, (5, (9, 12)))%N)]
    [OpApp 4 0; OpSet 0 1; OpApp 0 0; OpSet 1 1; OpApp 0 0; OpSet 2 1; OpApp 0 0; OpSet 3 1;
     OpApp 0 0; OpSet 4 1]
    [OpApp 4 0; OpSet 0 1; OpApp 0 0; OpSet 1 1; OpApp 0 0; OpSet 2 1; OpApp 0 0; OpSet 3 1;
     OpApp 0 0; OpSet 4 1].

Definition st_big : pstate :=
  match run_build pool_fresh big_build with Ok st => st | _ => pool_fresh end.

Example big_build_ok : run_build pool_fresh big_build = Ok st_big.
Proof. vm_compute. reflexivity. Qed.

Example big_build_left :
  pIncludeDV st_big = mkGS 5 [false; true; false; true; false] /\
  pDictKeys st_big = mkGS 5 [mkGS 0 []; mkGS 2 [w_cat; w_dog]; mkGS 1 [w_emu]; mkGS 1 [w_cat]; mkGS 1 [w_dog]] /\
  pPostings st_big = mkGS 5 [[0; 1]; [2]; [0]; [1; 2]; [0]]%N /\
  pNumTerms st_big = mkGS 5 [1; 1; 1; 1; 1].
Proof. vm_compute. repeat split. Qed.

Lemma st_big_step : build_step pool_fresh st_big.
Proof. apply (run_build_step _ big_build). exact big_build_ok. Qed.

Lemma st_big_reset_reach : Reach (pool_reset st_big).
Proof. exact (Reach_put _ _ Reach_fresh st_big_step). Qed.

(* reset(): lengths 0, capacities 5, cells zeroed; the inner DictKeys slices
   keep their strings behind length 0 *)
Example big_reset :
  pIncludeDV (pool_reset st_big) = mkGS 0 [false; false; false; false; false] /\
  pDictKeys (pool_reset st_big)
    = mkGS 0 [mkGS 0 []; mkGS 0 [w_cat; w_dog]; mkGS 0 [w_emu]; mkGS 0 [w_cat]; mkGS 0 [w_dog]] /\
  pPostings (pool_reset st_big) = mkGS 0 [[]; []; []; []; []] /\
  pFreqNorms (pool_reset st_big) = mkGS 0 [Win 0 1; Win 1 1; Win 2 1; Win 3 1; Win 4 1] /\
  pFNBacking (pool_reset st_big) = mkGS 0 [None; None; None; None; None] /\
  pNumTerms (pool_reset st_big) = mkGS 0 [1; 1; 1; 1; 1] /\
  cleanb (pool_reset st_big) = true.
Proof. vm_compute. repeat split. Qed.

(* the views of a smaller build (2 fields, 2 postings lists, 3 freq/norm
   entries): the arrays are reused (capacity 5), what is visible is what a
   fresh object shows *)
Example small_views :
  let st := pool_reset st_big in
  take_include_dv st 2 = mkGS 2 [false; false; false; false; false] /\
  visible (take_include_dv st 2) = visible (take_include_dv pool_fresh 2) /\
  take_postings st 2 = mkGS 2 [[]; []; []; []; []] /\
  visible (take_postings st 2) = visible (take_postings pool_fresh 2) /\
  visible (take_backing (pFNBacking st) 3) = visible (take_backing (pFNBacking pool_fresh) 3) /\
  gcap (take_backing (pFNBacking st) 3) = 5 /\ gcap (take_backing (pFNBacking pool_fresh) 3) = 3 /\
  rmap visible (take_windows (pFreqNorms st) 2 [2; 1]) = Ok [Win 0 0; Win 2 0] /\
  rmap visible (take_windows (pFreqNorms pool_fresh) 2 [2; 1]) = Ok [Win 0 0; Win 2 0] /\
  (* a build larger than the pooled arrays: new arrays, the kept bitmaps copied *)
  take_postings st 7 = mkGS 7 [[]; []; []; []; []; []; []] /\
  (* DictKeys: two fields defined, "emu" appended to the second: the old
     strings "cat", "dog" of that cell are overwritten / stay hidden *)
  rmap dk_view (dk_run [DKDefine 0; DKDefine 0; DKAppend 1 0 w_emu] (pDictKeys st))
    = Ok [[]; [w_emu]] /\
  dk_run [DKDefine 0; DKDefine 0; DKAppend 1 0 w_emu] (pDictKeys st)
    = Ok (mkGS 2 [mkGS 0 []; mkGS 1 [w_emu; w_dog]; mkGS 0 [w_emu]; mkGS 0 [w_cat]; mkGS 0 [w_dog]]) /\
  rmap visible (grow_counters [OpApp 0 0; OpSet 0 2; OpApp 0 0; OpSet 1 1] (pNumTerms st)) = Ok [2; 1].
Proof. vm_compute. repeat split. Qed.

(* ------------------------------------------------------------------ *)
(* (c) a forgotten line of reset() is seen                             *)
(* ------------------------------------------------------------------ *)
(* the state is one a successful build from a fresh object leaves *)
Theorem reset_bad1_detected :
  exists st n, build_step pool_fresh st /\
    visible (take_include_dv (pool_reset_bad1 st) n) <> visible (take_include_dv pool_fresh n).
Proof.
  exists st_big, 2. split; [exact st_big_step|]. vm_compute. discriminate.
Qed.

Theorem reset_bad2_detected :
  exists st n, build_step pool_fresh st /\
    visible (take_postings (pool_reset_bad2 st) n) <> visible (take_postings pool_fresh n).
Proof.
  exists st_big, 2. split; [exact st_big_step|]. vm_compute. discriminate.
Qed.

Example bad_views :
  visible (take_include_dv (pool_reset_bad1 st_big) 2) = [false; true] /\
  visible (take_postings (pool_reset_bad2 st_big) 2) = [[0; 1]; [2]]%N /\
  cleanb (pool_reset_bad1 st_big) = false /\ cleanb (pool_reset_bad2 st_big) = false.
Proof. vm_compute. repeat split. Qed.

(* ------------------------------------------------------------------ *)
(* (b) what a build sees in a clean object is what it sees in a fresh  *)
(* one                                                                 *)
(* ------------------------------------------------------------------ *)
Lemma firstn_app_exact {A} (l r : list A) : firstn (length l) (l ++ r) = l.
Proof. induction l as [|y l IH]; [reflexivity|]. cbn [length app firstn]. f_equal. exact IH. Qed.

Lemma Forall_set_nth {A} (P : A -> Prop) (i : nat) (x : A) (l : list A) :
  Forall P l -> P x -> Forall P (set_nth i x l).
Proof.
  intros H Hx. revert i. induction H as [|y l Hy Hl IH]; intros [|i]; cbn [set_nth]; constructor; auto.
Qed.

(* IncludeDocValues *)
Lemma take_include_dv_view st n : Clean st -> visible (take_include_dv st n) = repeat false n.
Proof. intros [[_ C] _]. apply take_or_make_view, C. Qed.

(* Postings, with the copy-and-fill branch *)
Lemma take_postings_view st n : Clean st -> visible (take_postings st n) = repeat [] n.
Proof.
  intros [_ [_ [_ [[_ C] _]]]]. unfold take_postings, visible.
  destruct (Nat.leb n (gcap (pPostings st))) eqn:E; cbn [gs_len gs_back].
  - apply Nat.leb_le in E. rewrite (Forall_eq_repeat [] _ C). apply firstn_repeat_le, E.
  - apply Nat.leb_gt in E. unfold gcap in *. rewrite (Forall_eq_repeat [] _ C) at 1.
    rewrite <- repeat_app. replace (length (gs_back (pPostings st)) + (n - length (gs_back (pPostings st)))) with n by lia.
    rewrite <- (repeat_length (@nil N) n) at 1. apply firstn_all.
Qed.

Lemma take_postings_len st n : gs_len (take_postings st n) = n.
Proof. unfold take_postings. destruct (Nat.leb n (gcap (pPostings st))); reflexivity. Qed.

(* freqNormsBacking, locsBacking *)
Lemma take_backing_view {X} (s : gslice (option X)) tot :
  Forall (fun x => x = None) (gs_back s) -> visible (take_backing s tot) = repeat None tot.
Proof. apply take_or_make_view. Qed.

(* the backing array as a whole: the zero cells the build may use, then
   zero cells it has no business with *)
Lemma take_backing_back {X} (s : gslice (option X)) tot :
  Forall (fun x => x = None) (gs_back s) ->
  exists k, gs_back (take_backing s tot) = repeat None tot ++ repeat None k.
Proof.
  intros H. unfold take_backing, take_or_make. destruct (Nat.leb tot (gcap s)) eqn:E; cbn [gs_back gmake].
  - apply Nat.leb_le in E. unfold gcap in E. exists (length (gs_back s) - tot).
    rewrite (Forall_eq_repeat None _ H) at 1. rewrite <- repeat_app. f_equal. lia.
  - exists 0. cbn [repeat]. rewrite app_nil_r. reflexivity.
Qed.

(* FreqNorms, Locs: the re-slice exposes old headers (reset() does not zero
   them), the loop over the counters overwrites every one of them *)
Lemma carve_into_view {X} (counts : list nat) : forall (s : gslice (Slice X)) pid off,
  gs_wf s -> pid + length counts <= gs_len s ->
  exists s', carve_into s pid off counts = Ok s' /\ gs_len s' = gs_len s /\ gcap s' = gcap s /\
    visible s' = firstn pid (visible s) ++ carve off counts ++ skipn (pid + length counts) (visible s).
Proof.
  induction counts as [|n r IH]; intros s pid off W H; cbn [carve_into carve length] in *.
  - exists s. repeat split. rewrite Nat.add_0_r. cbn [app]. symmetry. apply firstn_skipn.
  - destruct (gset_ok s pid (Win off 0)) as [s1 [E [A [B [C D]]]]]; [lia|].
    rewrite E. cbn [rbind].
    destruct (IH s1 (S pid) (off + n)) as [s2 [E2 [A2 [B2 C2]]]].
    + unfold gs_wf in *. lia.
    + lia.
    + exists s2. split; [exact E2|]. split; [lia|]. split; [lia|].
      rewrite C2, C.
      rewrite firstn_set_nth_snoc by (rewrite visible_length by exact W; lia).
      rewrite skipn_set_nth_lt by lia.
      replace (pid + S (length r)) with (S pid + length r) by lia.
      rewrite <- app_assoc. reflexivity.
Qed.

Lemma take_windows_view {X} (s : gslice (Slice X)) n counts :
  length counts = n -> rmap visible (take_windows s n counts) = Ok (carve 0 counts).
Proof.
  intros H. unfold take_windows, take_outer.
  destruct (carve_into_view counts (take_or_make (Detached []) s n) 0 0) as [s' [E [A [B C]]]].
  - apply take_or_make_wf.
  - rewrite take_or_make_len. lia.
  - rewrite E. cbn [rmap rbind]. f_equal. rewrite C. cbn [firstn app plus].
    rewrite skipn_all2; [apply app_nil_r|].
    rewrite visible_length by apply take_or_make_wf. rewrite take_or_make_len. lia.
Qed.

(* slices grown by append from the length reset() left: Dicts, the counters *)
Lemma sl_step_visible {X} (z : X) (s : gslice X) op :
  gs_wf s ->
  rmap visible (sl_step z s op) = l_step (visible s) op /\
  forall s', sl_step z s op = Ok s' -> gs_wf s'.
Proof.
  intros W. destruct op as [g x|i x]; cbn [sl_step l_step].
  - split.
    + cbn [rmap rbind]. f_equal. apply visible_gappend, W.
    + intros s' Q. inversion Q. apply gappend_wf, W.
  - rewrite visible_length by exact W.
    destruct (Nat.lt_ge_cases i (gs_len s)) as [H|H].
    + destruct (gset_ok s i x H) as [s1 [E [A [B [C D]]]]]. rewrite E.
      apply Nat.ltb_lt in H. rewrite H. split.
      * cbn [rmap rbind]. f_equal. exact C.
      * intros s' Q. inversion Q. subst s'. unfold gs_wf in *. lia.
    + rewrite gset_panic by exact H. apply Nat.ltb_ge in H. rewrite H.
      split; [reflexivity | discriminate].
Qed.

Theorem sl_run_visible {X} (z : X) ops : forall (s : gslice X),
  gs_wf s -> rmap visible (sl_run z ops s) = l_run ops (visible s).
Proof.
  induction ops as [|op ops IH]; intros s W; cbn [sl_run l_run]; [reflexivity|].
  destruct (sl_step_visible z s op W) as [E F]. rewrite <- E.
  destruct (sl_step z s op) as [s1| | | |]; cbn [rmap rbind]; try reflexivity.
  apply IH, F. reflexivity.
Qed.

(* DictKeys *)
Definition DKwf (s : gslice (gslice bytes)) : Prop := gs_wf s /\ Forall gs_wf (visible s).

Lemma dk_view_length s : gs_wf s -> length (dk_view s) = gs_len s.
Proof. intros W. unfold dk_view. rewrite map_length. apply visible_length, W. Qed.

Lemma dk_set_view s i d' :
  DKwf s -> i < gs_len s -> gs_wf d' ->
  exists s1, gset s i d' = Ok s1 /\ DKwf s1 /\ dk_view s1 = set_nth i (visible d') (dk_view s).
Proof.
  intros [W WI] Hi Wd. destruct (gset_ok s i d' Hi) as [s1 [E [A [B [C D]]]]].
  exists s1. split; [exact E|]. split.
  - split; [unfold gs_wf in *; lia|]. rewrite C. apply Forall_set_nth; assumption.
  - unfold dk_view. rewrite C. apply map_set_nth.
Qed.

Lemma dk_step_view s op :
  DKwf s ->
  rmap dk_view (dk_step s op) = ldk_step (dk_view s) op /\
  forall s', dk_step s op = Ok s' -> DKwf s'.
Proof.
  intros [W WI]. destruct op as [g|i g t|i]; cbn [dk_step ldk_step].
  - destruct (define_dictkeys_visible g s W) as [d [E L]]. split.
    + cbn [rmap rbind]. f_equal. unfold dk_view. rewrite E, map_app. cbn [map].
      rewrite (len0_visible d L). reflexivity.
    + intros s' Q. inversion Q. subst s'. split; [apply define_dictkeys_wf, W|].
      rewrite E. apply Forall_app. split; [exact WI|]. constructor; [apply len0_wf, L | constructor].
  - rewrite dk_view_length by exact W.
    destruct (Nat.lt_ge_cases i (gs_len s)) as [H|H].
    + rewrite (gget_ok s i W H gnil). cbn [rbind].
      assert (Wd : gs_wf (nth i (visible s) gnil)).
      { rewrite Forall_forall in WI. apply WI, nth_In. rewrite visible_length by exact W. exact H. }
      destruct (dk_set_view s i (gappend g [] (nth i (visible s) gnil) t) (conj W WI) H)
        as [s1 [E [D1 D2]]]; [apply gappend_wf, Wd|].
      rewrite E. apply Nat.ltb_lt in H. rewrite H. split.
      * cbn [rmap rbind]. f_equal. rewrite D2. f_equal.
        rewrite visible_gappend by exact Wd. f_equal.
        unfold dk_view. change (@nil bytes) with (visible (@gnil bytes)). symmetry. apply map_nth.
      * intros s' Q. inversion Q. subst s'. exact D1.
    + rewrite gget_panic by exact H. apply Nat.ltb_ge in H. rewrite H.
      split; [reflexivity | discriminate].
  - rewrite dk_view_length by exact W.
    destruct (Nat.lt_ge_cases i (gs_len s)) as [H|H].
    + rewrite (gget_ok s i W H gnil). cbn [rbind].
      set (d := nth i (visible s) gnil).
      assert (Wd : gs_wf d).
      { rewrite Forall_forall in WI. apply WI, nth_In. rewrite visible_length by exact W. exact H. }
      assert (Ld : length (isort ble (visible d)) = gs_len d).
      { rewrite isort_length. apply visible_length, Wd. }
      destruct (dk_set_view s i (mkGS (gs_len d) (isort ble (visible d) ++ stale d)) (conj W WI) H)
        as [s1 [E [D1 D2]]].
      { unfold gs_wf, gcap. cbn [gs_len gs_back]. rewrite app_length. lia. }
      rewrite E. apply Nat.ltb_lt in H. rewrite H. split.
      * cbn [rmap rbind]. f_equal. rewrite D2. f_equal.
        unfold visible at 1. cbn [gs_len gs_back]. rewrite <- Ld. rewrite firstn_app_exact.
        f_equal. unfold dk_view, d. change (@nil bytes) with (visible (@gnil bytes)). symmetry. apply map_nth.
      * intros s' Q. inversion Q. subst s'. exact D1.
    + rewrite gget_panic by exact H. apply Nat.ltb_ge in H. rewrite H.
      split; [reflexivity | discriminate].
Qed.

Theorem dk_run_view ops : forall s,
  DKwf s -> rmap dk_view (dk_run ops s) = ldk_run ops (dk_view s).
Proof.
  induction ops as [|op ops IH]; intros s W; cbn [dk_run ldk_run]; [reflexivity|].
  destruct (dk_step_view s op W) as [E F]. rewrite <- E.
  destruct (dk_step s op) as [s1| | | |]; cbn [rmap rbind]; try reflexivity.
  apply IH, F. reflexivity.
Qed.

Lemma len0_DKwf s : gs_len s = 0 -> DKwf s.
Proof. intros L. split; [apply len0_wf, L|]. rewrite (len0_visible s L). constructor. Qed.

(* all the places together *)
Theorem views_equal st : Clean st ->
  (forall n, visible (take_include_dv st n) = visible (take_include_dv pool_fresh n)) /\
  (forall n, visible (take_postings st n) = visible (take_postings pool_fresh n)) /\
  (forall tot, visible (take_backing (pFNBacking st) tot)
               = visible (take_backing (pFNBacking pool_fresh) tot)) /\
  (forall tot, visible (take_backing (pLocsBacking st) tot)
               = visible (take_backing (pLocsBacking pool_fresh) tot)) /\
  (forall n counts, length counts = n ->
     rmap visible (take_windows (pFreqNorms st) n counts)
     = rmap visible (take_windows (pFreqNorms pool_fresh) n counts)) /\
  (forall n counts, length counts = n ->
     rmap visible (take_windows (pLocs st) n counts)
     = rmap visible (take_windows (pLocs pool_fresh) n counts)) /\
  (forall ops, rmap visible (sl_run [] ops (pDicts st))
               = rmap visible (sl_run [] ops (pDicts pool_fresh))) /\
  (forall ops, rmap dk_view (dk_run ops (pDictKeys st))
               = rmap dk_view (dk_run ops (pDictKeys pool_fresh))) /\
  (forall ops, rmap visible (grow_counters ops (pNumTerms st))
               = rmap visible (grow_counters ops (pNumTerms pool_fresh))) /\
  (forall ops, rmap visible (grow_counters ops (pNumLocs st))
               = rmap visible (grow_counters ops (pNumLocs pool_fresh))).
Proof.
  intros HC. pose proof pool_fresh_clean as HF.
  pose proof HC as [[L1 C1] [[L2 C2] [[L3 C3] [[L4 C4] [L5 [[L6 C6] [L7 [[L8 C8] [L9 L10]]]]]]]]].
  split; [intros n; rewrite !take_include_dv_view by assumption; reflexivity|].
  split; [intros n; rewrite !take_postings_view by assumption; reflexivity|].
  split; [intros tot; rewrite !take_backing_view; [reflexivity | constructor | exact C6]|].
  split; [intros tot; rewrite !take_backing_view; [reflexivity | constructor | exact C8]|].
  split; [intros n counts H; rewrite !take_windows_view by exact H; reflexivity|].
  split; [intros n counts H; rewrite !take_windows_view by exact H; reflexivity|].
  split.
  { intros ops. rewrite !sl_run_visible; [|apply len0_wf; reflexivity | apply len0_wf, L2].
    f_equal. exact (len0_visible _ L2). }
  split.
  { intros ops. rewrite !dk_run_view; [|apply len0_DKwf; reflexivity | apply len0_DKwf, L3].
    f_equal. unfold dk_view. rewrite (len0_visible _ L3). reflexivity. }
  split.
  { intros ops. unfold grow_counters.
    rewrite !sl_run_visible; [|apply len0_wf; reflexivity | apply len0_wf, L9].
    f_equal. exact (len0_visible _ L9). }
  { intros ops. unfold grow_counters.
    rewrite !sl_run_visible; [|apply len0_wf; reflexivity | apply len0_wf, L10].
    f_equal. exact (len0_visible _ L10). }
Qed.

Corollary views_equal_reach st : Reach st ->
  (forall n, visible (take_include_dv st n) = visible (take_include_dv pool_fresh n)) /\
  (forall n, visible (take_postings st n) = visible (take_postings pool_fresh n)) /\
  (forall tot, visible (take_backing (pFNBacking st) tot)
               = visible (take_backing (pFNBacking pool_fresh) tot)) /\
  (forall tot, visible (take_backing (pLocsBacking st) tot)
               = visible (take_backing (pLocsBacking pool_fresh) tot)).
Proof.
  intros H. destruct (views_equal st (Reach_clean st H)) as [A [B [C [D _]]]]. auto.
Qed.

(* DictKeys needs less than Clean: getOrDefineField truncates the cell it
   re-uses itself, reset()'s loop over the inner slices is not needed for
   what the next build sees *)
Theorem dictkeys_view_needs_length_only (s : gslice (gslice bytes)) ops :
  gs_len s = 0 -> rmap dk_view (dk_run ops s) = ldk_run ops [].
Proof.
  intros L. rewrite dk_run_view by (apply len0_DKwf, L).
  unfold dk_view. rewrite (len0_visible _ L). reflexivity.
Qed.

(* ------------------------------------------------------------------ *)
(* (d) the build from a pooled object is Builder.v's build             *)
(* ------------------------------------------------------------------ *)
(* an array with further cells behind the ones prepareDicts counted *)
Definition arr_ext {X} (extra : list (option X)) (a : Arr X) : Arr X :=
  mkArr (backing a ++ extra) (slices a).

(* an append that stays inside its window does not see the further cells *)
Lemma arr_append_ext {X} cnts (a : Arr X) logs logs' p x extra :
  Sim cnts a logs -> Sim cnts (arr_append a p x) logs' ->
  arr_append (arr_ext extra a) p x = arr_ext extra (arr_append a p x).
Proof.
  intros HS HS'. unfold arr_append in *. unfold arr_ext at 1 2 3. cbn [slices backing].
  destruct (nth p (slices a) (Detached [])) as [st ln|l] eqn:En.
  - destruct (Nat.ltb (st + ln) (length (backing a))) eqn:E.
    + apply Nat.ltb_lt in E.
      assert (E' : Nat.ltb (st + ln) (length (backing a ++ extra)) = true)
        by (apply Nat.ltb_lt; rewrite app_length; lia).
      rewrite E'. unfold arr_ext. cbn [backing slices]. rewrite set_nth_app_l by exact E. reflexivity.
    + exfalso.
      assert (Hp : p < length (slices a)).
      { destruct (Nat.lt_ge_cases p (length (slices a))) as [H|H]; [exact H|].
        rewrite nth_overflow in En by exact H. discriminate. }
      destruct HS as [_ [HL _]]. destruct HS' as [_ [_ [_ HW]]].
      destruct (HW p ltac:(lia)) as [Hs _]. cbn [slices] in Hs.
      rewrite nth_set_nth_eq in Hs by exact Hp. discriminate.
  - reflexivity.
Qed.

Lemma arr_run_ext {X} cnts (extra : list (option X)) (a0 : Arr X) (tr : list (nat * X)) :
  (forall tr1 tr2, tr = tr1 ++ tr2 -> exists logs, Sim cnts (arr_run a0 tr1) logs) ->
  arr_run (arr_ext extra a0) tr = arr_ext extra (arr_run a0 tr).
Proof.
  induction tr as [|e tr IH] using rev_ind; intros H; [reflexivity|].
  unfold arr_run in *. rewrite !fold_left_app. cbn [fold_left].
  rewrite IH.
  - destruct (H tr [e] eq_refl) as [l1 H1]. destruct (H (tr ++ [e]) [] ltac:(rewrite app_nil_r; reflexivity)) as [l2 H2].
    rewrite fold_left_app in H2. cbn [fold_left] in H2.
    exact (arr_append_ext cnts _ l1 l2 (fst e) (snd e) extra H1 H2).
  - intros tr1 tr2 E. apply (H tr1 (tr2 ++ [e])). rewrite E, app_assoc. reflexivity.
Qed.

(* reading a window of an extended array *)
Lemma firstn_app_le {A} (n : nat) (l r : list A) : n <= length l -> firstn n (l ++ r) = firstn n l.
Proof.
  intros H. rewrite firstn_app. replace (n - length l) with 0 by lia. cbn [firstn]. apply app_nil_r.
Qed.

Lemma skipn_app_le {A} (n : nat) (l r : list A) : n <= length l -> skipn n (l ++ r) = skipn n l ++ r.
Proof.
  intros H. rewrite skipn_app. replace (n - length l) with 0 by lia. reflexivity.
Qed.

Lemma Sim_ext_read {X} cnts (a : Arr X) logs extra pid :
  Sim cnts a logs ->
  slice_elems (arr_ext extra a) pid = slice_elems a pid /\
  (pid < length cnts -> slice_cap (arr_ext extra a) pid = slice_cap a pid ++ extra) /\
  (length cnts <= pid -> slice_cap (arr_ext extra a) pid = slice_cap a pid) /\
  exists rest, slice_cap a pid = slice_elems a pid ++ rest.
Proof.
  intros HS. pose proof HS as [HB [HL [_ HW]]].
  unfold slice_elems, slice_cap, arr_ext. cbn [slices backing].
  destruct (Nat.lt_ge_cases pid (length cnts)) as [Hp|Hp].
  - destruct (HW pid Hp) as [Hs [Hl _]]. rewrite Hs.
    pose proof (off_of_next_total cnts pid) as Ht.
    assert (Ho : off_of cnts pid <= length (backing a)) by lia.
    rewrite skipn_app_le by exact Ho.
    split; [apply firstn_app_le; rewrite skipn_length; lia|].
    split; [reflexivity|]. split; [lia|].
    exists (skipn (length (nth pid logs [])) (skipn (off_of cnts pid) (backing a))).
    symmetry. apply firstn_skipn.
  - rewrite nth_overflow by lia. split; [reflexivity|]. split; [lia|]. split; [reflexivity|].
    exists []. reflexivity.
Qed.

(* the walk of writeDictsTermField reads the locations of its own window only *)
Lemma walk_indep norm q f t (nb : list (N * Doc)) : forall (L r1 r2 : list (option ELoc)),
  length L = length (rlocs_of q f t nb) ->
  walk (docs_of f t nb) (map Some (fns_of norm f t nb)) (L ++ r1) =
  walk (docs_of f t nb) (map Some (fns_of norm f t nb)) (L ++ r2).
Proof.
  induction nb as [|[n d] nb IH]; intros L r1 r2 HL.
  - reflexivity.
  - unfold docs_of, fns_of, rlocs_of in *. cbn [flat_map' fst snd] in *.
    fold (docs_of f t nb). fold (fns_of norm f t nb). fold (rlocs_of q f t nb) in *.
    rewrite app_length, map_length in HL.
    destruct (has f t d) eqn:Eh.
    + cbn [app map walk opt_default]. unfold fn_of.
      rewrite !firstn_app_le by lia. rewrite !skipn_app_le by lia.
      f_equal. apply IH. rewrite skipn_length. lia.
    + apply has_false in Eh. unfold raw_locs in HL. rewrite Eh in HL. cbn [flat_map' length plus] in HL.
      cbn [app map]. apply IH, HL.
Qed.

Lemma rmap_Ok_inv {A B} (f : A -> B) (r : result A) (v : B) :
  rmap f r = Ok v -> exists x, r = Ok x /\ f x = v.
Proof.
  destruct r as [x| | | |]; cbn [rmap rbind]; try discriminate.
  intros Q. inversion Q. exists x. auto.
Qed.

Section PoolBuild.
  Variable norm : bytes -> N -> N.
  Variable perm : N -> nat -> TFs -> TFs.
  Hypothesis Hperm : forall n q l, Permutation (perm n q l) l.
  Variable b : Batch.
  Variable st : pstate.
  Hypothesis HC : Clean st.

  Definition pb_aF := @arr_make interimFreqNorm (p_totTFs (prepared b)) (p_numTerms (prepared b)).
  Definition pb_aL := @arr_make ELoc (p_totLocs (prepared b)) (p_numLocs (prepared b)).

  (* prepareDicts on the pooled object: the state processDocuments starts
     from is Builder.initial, with further zero cells behind the two arrays *)
  Lemma initial_from_clean :
    exists kF kL,
      initial_from st b =
      Ok (mkInterim (i_flds (initial b)) (repeat [] (p_pidNext (prepared b)))
                    (arr_ext (repeat None kF) pb_aF) (arr_ext (repeat None kL) pb_aL)).
  Proof.
    pose proof HC as [_ [_ [_ [_ [_ [[_ C6] [_ [[_ C8] _]]]]]]]].
    destruct (prep_lengths b) as [L1 [L2 _]].
    destruct (take_backing_back (pFNBacking st) (p_totTFs (prepared b)) C6) as [kF EF].
    destruct (take_backing_back (pLocsBacking st) (p_totLocs (prepared b)) C8) as [kL EL].
    exists kF, kL. unfold initial_from.
    destruct (rmap_Ok_inv _ _ _ (take_windows_view (pFreqNorms st) _ _ L1)) as [fnw [E1 V1]].
    destruct (rmap_Ok_inv _ _ _ (take_windows_view (pLocs st) _ _ L2)) as [lw [E2 V2]].
    rewrite E1, E2. cbn [rbind].
    rewrite (take_postings_view st _ HC), V1, V2, EF, EL. reflexivity.
  Qed.

  Definition pb_final (s0 : Interim (Arr interimFreqNorm) (Arr ELoc)) :=
    process_documents norm perm arr_append arr_append s0 b.

  (* processDocuments on the pooled arrays: the same field table, the same
     bitmaps, the same slice headers, the same cells; the cells behind the
     counted ones are not written *)
  Lemma final_ext kF kL :
    let S := convert_inmem norm perm b in
    let S' := pb_final (mkInterim (i_flds (initial b)) (repeat [] (p_pidNext (prepared b)))
                                  (arr_ext (repeat None kF) pb_aF) (arr_ext (repeat None kL) pb_aL)) in
    i_flds S' = i_flds S /\ i_postings S' = i_postings S /\
    i_fn S' = arr_ext (repeat None kF) (i_fn S) /\
    i_locs S' = arr_ext (repeat None kL) (i_locs S).
  Proof.
    intros S S'. subst S S'. unfold pb_final, convert_inmem, pb_aF, pb_aL.
    pose proof (windows_disjoint norm perm Hperm b) as W. cbv zeta in W.
    destruct W as [W1 [W2 [W3 W4]]]. unfold convert_inmem in W1, W2.
    set (FL0 := i_flds (initial b)) in *.
    set (np := p_pidNext (prepared b)) in *.
    set (aF := arr_make (p_totTFs (prepared b)) (p_numTerms (prepared b))) in *.
    set (aL := arr_make (p_totLocs (prepared b)) (p_numLocs (prepared b))) in *.
    change (initial b) with (mkInterim FL0 (repeat [] np) aF aL) in W1, W2 |- *.
    pose proof (phys_trace norm perm FL0 (repeat [] np)
                  (arr_ext (repeat None kF) aF) (arr_ext (repeat None kL) aL) b) as A.
    pose proof (phys_trace norm perm FL0 (repeat [] np) aF aL b) as B.
    cbv zeta in A, B. unfold run_phys in A, B.
    destruct A as [A1 [A2 [A3 A4]]]. destruct B as [B1 [B2 _]].
    split; [rewrite A1, B1; reflexivity|]. split; [rewrite A2, B2; reflexivity|].
    split.
    - rewrite A3, W1. apply (arr_run_ext (p_numTerms (prepared b))).
      intros tr1 tr2 E. eexists. exact (W3 tr1 tr2 E).
    - rewrite A4, W2. apply (arr_run_ext (p_numLocs (prepared b))).
      intros tr1 tr2 E. eexists. exact (W4 tr1 tr2 E).
  Qed.
End PoolBuild.

Section PoolBuild2.
  Variable norm : bytes -> N -> N.
  Variable perm : N -> nat -> TFs -> TFs.
  Hypothesis Hperm : forall n q l, Permutation (perm n q l) l.
  Variable b : Batch.

  (* writeDictsTermField on a final state whose arrays have further zero
     cells behind them reads what it reads without them *)
  Lemma term_postings_ext (S' : Interim (Arr interimFreqNorm) (Arr ELoc)) eF eL dict term :
    let S := convert_inmem norm perm b in
    i_postings S' = i_postings S -> i_fn S' = arr_ext eF (i_fn S) -> i_locs S' = arr_ext eL (i_locs S) ->
    term_postings S' dict term = term_postings S dict term.
  Proof.
    intros S H2 H3 H4. unfold term_postings. rewrite H2, H3, H4.
    set (pid := opt_default 0 (assoc term dict)).
    destruct (convert_ideal norm perm Hperm b) as [_ [_ [C3 C4]]]. fold S in C3, C4.
    destruct (Sim_ext_read _ _ _ eF pid C3) as [EF _]. rewrite EF.
    destruct (Sim_ext_read _ _ _ eL pid C4) as [_ [EL1 [EL2 [rest ER]]]].
    destruct (Nat.lt_ge_cases pid (length (p_numLocs (prepared b)))) as [Hp|Hp].
    2:{ rewrite EL2 by exact Hp. reflexivity. }
    rewrite EL1 by exact Hp. rewrite ER.
    destruct (prep_lengths b) as [_ [L2 _]].
    destruct (prep_surj b pid ltac:(lia)) as [q [t [Hq Ha]]].
    pose proof (build_windows norm perm b q t pid Hperm Hq Ha) as BW. cbv zeta in BW. fold S in BW.
    destruct BW as [B1 [B2 [els [B3 B4]]]].
    rewrite B1, B2, B3. rewrite <- app_assoc.
    apply (walk_indep norm q). rewrite map_length. exact (Forall2_len _ _ _ B4).
  Qed.

  Lemma postings_of_ext (S' : Interim (Arr interimFreqNorm) (Arr ELoc)) eF eL :
    let S := convert_inmem norm perm b in
    i_flds S' = i_flds S -> i_postings S' = i_postings S ->
    i_fn S' = arr_ext eF (i_fn S) -> i_locs S' = arr_ext eL (i_locs S) ->
    postings_of S' = postings_of S.
  Proof.
    intros S H1 H2 H3 H4. unfold postings_of. cbv zeta. rewrite H1.
    apply map_ext. intros fid. f_equal. apply map_ext. intros term. f_equal.
    exact (term_postings_ext S' eF eL _ term H2 H3 H4).
  Qed.

  (* the build from a clean pooled object is the build from a fresh object *)
  Theorem build_from_clean st :
    Clean st -> build_from st norm perm b = Ok (build_postings_model norm perm b).
  Proof.
    intros HC. destruct (initial_from_clean b st HC) as [kF [kL E]].
    unfold build_from. rewrite E. cbn [rbind]. f_equal.
    change (build_postings_model norm perm b) with (postings_of (convert_inmem norm perm b)).
    pose proof (final_ext norm perm Hperm b kF kL) as FE. cbv zeta in FE.
    destruct FE as [F1 [F2 [F3 F4]]].
    exact (postings_of_ext _ _ _ F1 F2 F3 F4).
  Qed.

  (* and it leaves the cells behind the lengths prepareDicts set as they were:
     the writes of a build are below the lengths, as build_step assumes *)
  Theorem build_leaves_stale_untouched st :
    Clean st ->
    exists s0 kF kL,
      initial_from st b = Ok s0 /\
      let S' := pb_final norm perm b s0 in
      let S := convert_inmem norm perm b in
      slices (i_fn S') = slices (i_fn S) /\ slices (i_locs S') = slices (i_locs S) /\
      backing (i_fn S') = backing (i_fn S) ++ repeat None kF /\
      length (backing (i_fn S)) = p_totTFs (prepared b) /\
      backing (i_locs S') = backing (i_locs S) ++ repeat None kL /\
      length (backing (i_locs S)) = p_totLocs (prepared b).
  Proof.
    intros HC. destruct (initial_from_clean b st HC) as [kF [kL E]].
    eexists. exists kF, kL. split; [exact E|]. cbv zeta.
    pose proof (final_ext norm perm Hperm b kF kL) as FE. cbv zeta in FE.
    destruct FE as [_ [_ [F3 F4]]]. rewrite F3, F4.
    destruct (convert_ideal norm perm Hperm b) as [_ [_ [[C3 _] [C4 _]]]].
    destruct (prep_lengths b) as [_ [_ [S1 S2]]].
    unfold arr_ext. cbn [slices backing]. repeat split; congruence.
  Qed.
End PoolBuild2.

(* C14, the pool: whatever batches the pooled object built before, the build
   of b delivers what Builder.v's build from a fresh object delivers *)
Corollary build_pool_independent norm (perm : N -> nat -> TFs -> TFs) (b : Batch) :
  (forall n q l, Permutation (perm n q l) l) ->
  forall st, Reach st -> build_from st norm perm b = Ok (build_postings_model norm perm b).
Proof. intros Hperm st H. apply build_from_clean; [exact Hperm | apply Reach_clean, H]. Qed.

Corollary build_pool_independent' norm (perm : N -> nat -> TFs -> TFs) (b : Batch) :
  (forall n q l, Permutation (perm n q l) l) ->
  forall st, Reach st -> build_from st norm perm b = build_from pool_fresh norm perm b.
Proof.
  intros Hperm st H. rewrite (build_pool_independent norm perm b Hperm st H).
  symmetry. apply build_pool_independent; [exact Hperm | apply Reach_fresh].
Qed.

(* ... which for a valid batch is what the specification says *)
Corollary R_build_postings_pool norm (perm : N -> nat -> TFs -> TFs) (b : Batch) :
  (forall n q l, Permutation (perm n q l) l) -> valid_batch b = true ->
  forall st, Reach st ->
  build_from st norm perm b =
  Ok (map (fun f => (f, map (fun t => (t, map (to_eposting (define_fields b))
                                              (o_postings (abs_of_batch norm b) f t)))
                            (o_terms (abs_of_batch norm b) f)))
          (define_fields b)).
Proof.
  intros Hperm Hv st H. rewrite (build_pool_independent norm perm b Hperm st H).
  f_equal. apply R_build_postings; assumption.
Qed.

(* the worked example of Builder_Proofs on the object the big build left:
   after reset() the result is the expected one, after a reset that forgets
   to clear the bitmaps it is not *)
Example build_from_example :
  build_from (pool_reset st_big) exb_norm perm_id exb_batch = Ok exb_result /\
  build_from (pool_reset st_big) exb_norm perm_rev exb_batch = Ok exb_result /\
  build_from pool_fresh exb_norm perm_id exb_batch = Ok exb_result /\
  build_from (pool_reset_bad2 st_big) exb_norm perm_id exb_batch <> Ok exb_result.
Proof.
  split; [vm_compute; reflexivity|]. split; [vm_compute; reflexivity|].
  split; [vm_compute; reflexivity|]. vm_compute. discriminate.
Qed.

(* Docnums_Proofs.v - the old->new document number tables reported by a merge. *)
From Coq Require Import List NArith Bool Lia Arith.
From Ice Require Import Base Spec.
Import ListNotations.
Open Scope N_scope.
From Coq Require Import ZifyBool ZifyN ZifyNat.

Definition base_of (ins : list (ASeg * list N)) (k : nat) : N :=
  sumN (map (fun p => count_live (fst p) (snd p)) (firstn k ins)).
Definition rank_of (dr : list N) (d : nat) : N :=
  lenN (filter (fun i => negb (memN i dr)) (map N.of_nat (seq 0 d))).

(* ------------------------------------------------------------------ *)
(* membership                                                          *)
(* ------------------------------------------------------------------ *)
Lemma memN_In x l : memN x l = true <-> In x l.
Proof.
  unfold memN. induction l as [|y l IH]; cbn [mem In].
  - split; [discriminate | tauto].
  - rewrite orb_true_iff, IH, N.eqb_eq. split; intros [H|H]; auto.
Qed.

(* ------------------------------------------------------------------ *)
(* counting non-dropped indices in [i, i+n)                            *)
(* ------------------------------------------------------------------ *)
Fixpoint cnt (dr : list N) (i : N) (n : nat) : N :=
  match n with
  | O => 0
  | S n' => (if memN i dr then 0 else 1) + cnt dr (i + 1) n'
  end.

Lemma rank_of_cnt_gen dr s d :
  lenN (filter (fun i => negb (memN i dr)) (map N.of_nat (seq s d))) = cnt dr (N.of_nat s) d.
Proof.
  revert s. induction d as [|d IH]; intros s.
  - reflexivity.
  - cbn [seq map filter cnt].
    replace (N.of_nat s + 1) with (N.of_nat (S s)) by lia.
    rewrite <- IH.
    destruct (memN (N.of_nat s) dr); cbn [negb]; unfold lenN; cbn [length]; lia.
Qed.

Lemma rank_of_cnt dr d : rank_of dr d = cnt dr 0 d.
Proof. unfold rank_of. rewrite rank_of_cnt_gen. reflexivity. Qed.

(* ------------------------------------------------------------------ *)
(* renumber                                                            *)
(* ------------------------------------------------------------------ *)
Lemma renumber_length n : forall i dr next, length (renumber n i dr next) = n.
Proof.
  induction n as [|n IH]; intros i dr next; cbn [renumber].
  - reflexivity.
  - destruct (memN i dr); cbn [length]; rewrite IH; reflexivity.
Qed.

Lemma renumber_nth n : forall i dr next j,
  (j < n)%nat ->
  nth_error (renumber n i dr next) j =
  Some (if memN (i + N.of_nat j) dr then docDropped else next + cnt dr i j).
Proof.
  induction n as [|n IH]; intros i dr next j Hj; [lia|].
  cbn [renumber].
  destruct j as [|j].
  - replace (i + N.of_nat 0) with i by lia. cbn [cnt].
    destruct (memN i dr); cbn [nth_error]; f_equal; lia.
  - replace (i + N.of_nat (S j)) with (i + 1 + N.of_nat j) by lia.
    cbn [cnt].
    destruct (memN i dr) eqn:E; cbn [nth_error]; rewrite IH by lia;
      destruct (memN (i + 1 + N.of_nat j) dr); f_equal; lia.
Qed.

Lemma renumber_filter n : forall i dr next,
  next + cnt dr i n <= docDropped ->
  filter (fun x => negb (x =? docDropped)) (renumber n i dr next)
  = map N.of_nat (seq (N.to_nat next) (N.to_nat (cnt dr i n))).
Proof.
  induction n as [|n IH]; intros i dr next H; cbn [renumber cnt] in *.
  - reflexivity.
  - destruct (memN i dr) eqn:E.
    + cbn [filter]. rewrite N.eqb_refl. cbn [negb].
      rewrite IH by lia. reflexivity.
    + cbn [filter].
      assert (Hne : (next =? docDropped) = false) by (apply N.eqb_neq; lia).
      rewrite Hne. cbn [negb].
      rewrite IH by lia.
      replace (N.to_nat (1 + cnt dr (i + 1) n)) with (S (N.to_nat (cnt dr (i + 1) n))) by lia.
      cbn [seq map]. f_equal; [lia|].
      f_equal. f_equal. lia.
Qed.

Lemma renumber_all_dropped n : forall i dr next,
  cnt dr i n = 0 -> Forall (fun x => x = docDropped) (renumber n i dr next).
Proof.
  induction n as [|n IH]; intros i dr next H; cbn [renumber cnt] in *.
  - constructor.
  - destruct (memN i dr).
    + constructor; [reflexivity|]. apply IH. lia.
    + lia.
Qed.

(* ------------------------------------------------------------------ *)
(* survivors                                                           *)
(* ------------------------------------------------------------------ *)
Definition keep {A} (dr : list N) (i : N) (l : list A) : list A :=
  map snd (filter (fun p => negb (memN (fst p) dr)) (number_from i l)).

Lemma keep_cons {A} dr i (x : A) l :
  keep dr i (x :: l) = if memN i dr then keep dr (i + 1) l else x :: keep dr (i + 1) l.
Proof.
  unfold keep. cbn [number_from filter fst].
  destruct (memN i dr); cbn [negb map snd]; reflexivity.
Qed.

Lemma keep_length {A} dr (l : list A) : forall i,
  lenN (keep dr i l) = cnt dr i (length l).
Proof.
  induction l as [|x l IH]; intros i.
  - reflexivity.
  - rewrite keep_cons. cbn [length cnt]. rewrite <- IH.
    destruct (memN i dr); unfold lenN; cbn [length]; lia.
Qed.

Lemma keep_nth {A} dr (l : list A) : forall i d,
  (d < length l)%nat -> memN (i + N.of_nat d) dr = false ->
  nth_error (keep dr i l) (N.to_nat (cnt dr i d)) = nth_error l d.
Proof.
  induction l as [|x l IH]; intros i d Hd Hm; cbn [length] in Hd; [lia|].
  rewrite keep_cons.
  destruct d as [|d].
  - replace (i + N.of_nat 0) with i in Hm by lia. rewrite Hm. reflexivity.
  - replace (i + N.of_nat (S d)) with (i + 1 + N.of_nat d) in Hm by lia.
    cbn [cnt nth_error].
    destruct (memN i dr).
    + replace (0 + cnt dr (i + 1) d) with (cnt dr (i + 1) d) by lia.
      apply IH; [lia|assumption].
    + replace (N.to_nat (1 + cnt dr (i + 1) d)) with (S (N.to_nat (cnt dr (i + 1) d))) by lia.
      cbn [nth_error]. apply IH; [lia|assumption].
Qed.

Lemma survivors_keep A dr : survivors A dr = keep dr 0 (as_docs A).
Proof. reflexivity. Qed.

Lemma count_live_cnt A dr : count_live A dr = cnt dr 0 (length (as_docs A)).
Proof. unfold count_live. rewrite survivors_keep. apply keep_length. Qed.

(* ------------------------------------------------------------------ *)
(* merge_docnums                                                       *)
(* ------------------------------------------------------------------ *)
Definition total (ins : list (ASeg * list N)) : N :=
  sumN (map (fun p => count_live (fst p) (snd p)) ins).

Lemma merge_docnums_length ins : forall b, length (merge_docnums ins b) = length ins.
Proof.
  induction ins as [|[A dr] ins IH]; intros b; cbn [merge_docnums length].
  - reflexivity.
  - rewrite IH. reflexivity.
Qed.

Lemma base_of_0 ins : base_of ins 0 = 0.
Proof. reflexivity. Qed.

Lemma base_of_S A dr ins k :
  base_of ((A, dr) :: ins) (S k) = count_live A dr + base_of ins k.
Proof. reflexivity. Qed.

Lemma merge_docnums_nth ins : forall b k A dr,
  nth_error ins k = Some (A, dr) ->
  nth_error (merge_docnums ins b) k =
  Some (renumber (length (as_docs A)) 0 dr (b + base_of ins k)).
Proof.
  induction ins as [|[A0 dr0] ins IH]; intros b k A dr H.
  - destruct k; discriminate.
  - cbn [merge_docnums]. destruct k as [|k]; cbn [nth_error] in *.
    + inversion H; subst. rewrite base_of_0. f_equal. f_equal. lia.
    + rewrite (IH _ _ _ _ H). rewrite base_of_S. f_equal. f_equal. lia.
Qed.

Lemma flat_map'_length {A B} (f : A -> list B) l :
  lenN (flat_map' f l) = sumN (map (fun x => lenN (f x)) l).
Proof.
  induction l as [|x l IH]; cbn [flat_map' map sumN].
  - reflexivity.
  - rewrite <- IH. unfold lenN. rewrite app_length. lia.
Qed.

Lemma flat_survivors_nth ins : forall k A dr r,
  nth_error ins k = Some (A, dr) ->
  (N.to_nat r < length (survivors A dr))%nat ->
  nth_error (flat_map' (fun p => survivors (fst p) (snd p)) ins)
            (N.to_nat (base_of ins k + r))
  = nth_error (survivors A dr) (N.to_nat r).
Proof.
  induction ins as [|[A0 dr0] ins IH]; intros k A dr r H Hr.
  - destruct k; discriminate.
  - cbn [flat_map' fst snd]. destruct k as [|k]; cbn [nth_error] in H.
    + inversion H; subst. rewrite base_of_0.
      replace (0 + r) with r by lia.
      apply nth_error_app1. assumption.
    + rewrite base_of_S. rewrite nth_error_app2.
      * replace (N.to_nat (count_live A0 dr0 + base_of ins k + r) - length (survivors A0 dr0))%nat
          with (N.to_nat (base_of ins k + r)).
        -- apply IH; assumption.
        -- unfold count_live, lenN. lia.
      * unfold count_live, lenN. lia.
Qed.

Lemma merge_docnums_filter ins : forall b,
  b + total ins <= docDropped ->
  filter (fun x => negb (x =? docDropped)) (concat (merge_docnums ins b))
  = map N.of_nat (seq (N.to_nat b) (N.to_nat (total ins))).
Proof.
  induction ins as [|[A dr] ins IH]; intros b H.
  - reflexivity.
  - cbn [merge_docnums concat].
    unfold total in *. cbn [map sumN fst snd] in *.
    fold (total ins) in *.
    rewrite filter_app.
    rewrite renumber_filter by (rewrite <- count_live_cnt; lia).
    rewrite IH by lia.
    rewrite <- count_live_cnt.
    replace (N.to_nat (count_live A dr + total ins))
      with (N.to_nat (count_live A dr) + N.to_nat (total ins))%nat by lia.
    rewrite seq_app, map_app. f_equal. f_equal. f_equal. lia.
Qed.

Lemma merge_docnums_all_dropped ins : forall b,
  total ins = 0 ->
  Forall (fun s => Forall (fun x => x = docDropped) s) (merge_docnums ins b).
Proof.
  induction ins as [|[A dr] ins IH]; intros b H.
  - constructor.
  - cbn [merge_docnums]. unfold total in H. cbn [map sumN fst snd] in H. fold (total ins) in H.
    constructor.
    + apply renumber_all_dropped. rewrite <- count_live_cnt. lia.
    + apply IH. lia.
Qed.

(* ------------------------------------------------------------------ *)
(* Main theorems                                                       *)
(* ------------------------------------------------------------------ *)
Lemma merge_spec_snd ins : snd (merge_spec ins) = merge_docnums ins 0.
Proof. reflexivity. Qed.

Lemma merge_spec_docs ins :
  as_docs (fst (merge_spec ins)) = flat_map' (fun p => survivors (fst p) (snd p)) ins.
Proof. reflexivity. Qed.

Theorem docnums_length ins : length (snd (merge_spec ins)) = length ins.
Proof. rewrite merge_spec_snd. apply merge_docnums_length. Qed.

Theorem docnums_slice_length ins k A dr :
  nth_error ins k = Some (A, dr) ->
  exists s, nth_error (snd (merge_spec ins)) k = Some s /\ length s = length (as_docs A).
Proof.
  intros H. rewrite merge_spec_snd. rewrite (merge_docnums_nth _ _ _ _ _ H).
  eexists. split; [reflexivity|]. apply renumber_length.
Qed.

Theorem docnums_entry ins k A dr s d :
  nth_error ins k = Some (A, dr) -> nth_error (snd (merge_spec ins)) k = Some s ->
  (d < length (as_docs A))%nat ->
  nth_error s d = Some (if memN (N.of_nat d) dr then docDropped else base_of ins k + rank_of dr d).
Proof.
  intros H Hs Hd. rewrite merge_spec_snd in Hs.
  rewrite (merge_docnums_nth _ _ _ _ _ H) in Hs. inversion Hs; subst s.
  rewrite renumber_nth by assumption.
  replace (0 + N.of_nat d) with (N.of_nat d) by lia.
  rewrite rank_of_cnt. f_equal.
Qed.

Theorem docnums_count ins :
  o_count (fst (merge_spec ins)) = sumN (map (fun p => count_live (fst p) (snd p)) ins).
Proof.
  unfold o_count. rewrite merge_spec_docs. rewrite flat_map'_length. reflexivity.
Qed.

Theorem docnums_content ins k A dr d :
  nth_error ins k = Some (A, dr) -> (d < length (as_docs A))%nat -> memN (N.of_nat d) dr = false ->
  nth_error (as_docs (fst (merge_spec ins))) (N.to_nat (base_of ins k + rank_of dr d)) = nth_error (as_docs A) d.
Proof.
  intros H Hd Hm. rewrite merge_spec_docs.
  assert (Hk : nth_error (survivors A dr) (N.to_nat (rank_of dr d)) = nth_error (as_docs A) d).
  { rewrite survivors_keep, rank_of_cnt. apply keep_nth; [assumption|].
    replace (0 + N.of_nat d) with (N.of_nat d) by lia. assumption. }
  rewrite flat_survivors_nth with (A := A) (dr := dr); [assumption|assumption|].
  apply nth_error_Some. rewrite Hk. apply nth_error_Some. assumption.
Qed.

Theorem docnums_consecutive ins :
  o_count (fst (merge_spec ins)) < docDropped ->
  filter (fun x => negb (x =? docDropped)) (concat (snd (merge_spec ins)))
  = map N.of_nat (seq 0 (N.to_nat (o_count (fst (merge_spec ins))))).
Proof.
  intros H. rewrite docnums_count in *. fold (total ins) in *.
  rewrite merge_spec_snd. rewrite merge_docnums_filter by lia. reflexivity.
Qed.

Theorem docnums_zero_survivors ins :
  o_count (fst (merge_spec ins)) = 0 ->
  Forall (fun s => Forall (fun x => x = docDropped) s) (snd (merge_spec ins)).
Proof.
  intros H. rewrite docnums_count in H. rewrite merge_spec_snd.
  apply merge_docnums_all_dropped. exact H.
Qed.

(* ------------------------------------------------------------------ *)
(* Concrete witnesses                                                  *)
(* ------------------------------------------------------------------ *)
Definition ex_doc (b : N) : ADoc := mkADoc [] [(id_name, [b])].
Definition ex_A : ASeg := mkASeg [id_name] [ex_doc 48; ex_doc 49; ex_doc 50] [].
Definition ex_B : ASeg := mkASeg [id_name] [ex_doc 51; ex_doc 52] [].

Example docnums_example_mixed :
  snd (merge_spec [(ex_A, [1]); (ex_B, [])]) = [[0; docDropped; 1]; [2; 3]]
  /\ o_count (fst (merge_spec [(ex_A, [1]); (ex_B, [])])) = 4
  /\ as_docs (fst (merge_spec [(ex_A, [1]); (ex_B, [])]))
     = [ex_doc 48; ex_doc 50; ex_doc 51; ex_doc 52].
Proof. vm_compute. repeat split; reflexivity. Qed.

Example docnums_example_all_dropped :
  snd (merge_spec [(ex_A, [0; 1; 2]); (ex_B, [1; 0])])
    = [[docDropped; docDropped; docDropped]; [docDropped; docDropped]]
  /\ o_count (fst (merge_spec [(ex_A, [0; 1; 2]); (ex_B, [1; 0])])) = 0.
Proof. vm_compute. split; reflexivity. Qed.

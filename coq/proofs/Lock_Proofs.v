(* Lock_Proofs.v - C19: soundness of the lock-balance checker of Lock.v with
   respect to a nondeterministic path semantics of lock skeletons. *)
From Coq Require Import List Bool.
From Ice Require Import Base Lock.
Import ListNotations.

(* ---- path semantics ---- *)
(* run s st k st' : some execution path of s from st ends by falling through
   (Fall) or returning (Ret) in state st' *)
Inductive run : skel -> lstate -> kind -> lstate -> Prop :=
| R_Nop st : run KNop st Fall st
| R_Lock st : held st = false -> run KLock st Fall (mkLS true (deferred st))
| R_Unlock st : held st = true -> run KUnlock st Fall (mkLS false (deferred st))
| R_Defer st : run KDeferUnlock st Fall (mkLS (held st) true)
| R_Ret st : run KRet st Ret st
| R_SeqRet a b st st' : run a st Ret st' -> run (KSeq a b) st Ret st'
| R_SeqFall a b st st1 k st' :
    run a st Fall st1 -> run b st1 k st' -> run (KSeq a b) st k st'
| R_IfT t e st k st' : run t st k st' -> run (KIf t e) st k st'
| R_IfE t e st k st' : run e st k st' -> run (KIf t e) st k st'
| R_Loop0 body st : run (KLoop body) st Fall st
| R_LoopRet body st st' : run body st Ret st' -> run (KLoop body) st Ret st'
| R_LoopIter body st st1 k st' :
    run body st Fall st1 -> run (KLoop body) st1 k st' -> run (KLoop body) st k st'.

(* stuck s st : some path locks an already held mutex (the goroutine blocks
   forever) or unlocks a free one (runtime fatal error) *)
Inductive stuck : skel -> lstate -> Prop :=
| S_Lock st : held st = true -> stuck KLock st
| S_Unlock st : held st = false -> stuck KUnlock st
| S_SeqL a b st : stuck a st -> stuck (KSeq a b) st
| S_SeqR a b st st1 : run a st Fall st1 -> stuck b st1 -> stuck (KSeq a b) st
| S_IfT t e st : stuck t st -> stuck (KIf t e) st
| S_IfE t e st : stuck e st -> stuck (KIf t e) st
| S_LoopBody body st : stuck body st -> stuck (KLoop body) st
| S_LoopIter body st st1 :
    run body st Fall st1 -> stuck (KLoop body) st1 -> stuck (KLoop body) st.

(* ---- auxiliary lemmas ---- *)
Lemma ls_eqb_eq (a b : lstate) : ls_eqb a b = true -> a = b.
Proof.
  destruct a as [ha da], b as [hb db]. unfold ls_eqb. cbn.
  destruct ha, hb, da, db; cbn; intro H; try discriminate H; reflexivity.
Qed.

Definition seq_step (b : skel) (o : kind * lstate) (acc : option (list (kind * lstate)))
  : option (list (kind * lstate)) :=
  match acc with
  | None => None
  | Some l =>
      match o with
      | (Ret, st') => Some ((Ret, st') :: l)
      | (Fall, st') =>
          match exec b st' with
          | None => None
          | Some l' => Some (l' ++ l)
          end
      end
  end.

Lemma exec_seq_unfold (a b : skel) (st : lstate) :
  exec (KSeq a b) st =
  match exec a st with
  | None => None
  | Some outs => fold_right (seq_step b) (Some []) outs
  end.
Proof. reflexivity. Qed.

Lemma seq_fold_spec (b : skel) (outs res : list (kind * lstate)) :
  fold_right (seq_step b) (Some []) outs = Some res ->
  (forall st', In (Ret, st') outs -> In (Ret, st') res) /\
  (forall st1, In (Fall, st1) outs ->
     exists l', exec b st1 = Some l' /\ forall x, In x l' -> In x res).
Proof.
  revert res. induction outs as [|o outs IH]; intros res H.
  - split; intros ? [].
  - cbn [fold_right] in H.
    destruct (fold_right (seq_step b) (Some []) outs) as [l|] eqn:E.
    2:{ cbn in H. discriminate H. }
    destruct (IH l eq_refl) as [IHr IHf].
    destruct o as [[|] sto]; cbn [seq_step] in H.
    + destruct (exec b sto) as [l'|] eqn:Eb; [|discriminate H].
      injection H as H. subst res. split.
      * intros st' [Hin|Hin]; [discriminate Hin|].
        apply in_or_app. right. apply IHr. exact Hin.
      * intros st1 [Hin|Hin].
        -- injection Hin as Hin. subst st1. exists l'. split; [exact Eb|].
           intros x Hx. apply in_or_app. left. exact Hx.
        -- destruct (IHf st1 Hin) as [l2 [E2 Hl2]]. exists l2. split; [exact E2|].
           intros x Hx. apply in_or_app. right. apply Hl2. exact Hx.
    + injection H as H. subst res. split.
      * intros st' [Hin|Hin].
        -- left. exact Hin.
        -- right. apply IHr. exact Hin.
      * intros st1 [Hin|Hin]; [discriminate Hin|].
        destruct (IHf st1 Hin) as [l2 [E2 Hl2]]. exists l2. split; [exact E2|].
        intros x Hx. right. apply Hl2. exact Hx.
Qed.

Definition is_ret (o : kind * lstate) : bool :=
  match o with (Ret, _) => true | _ => false end.
Definition fall_same (st : lstate) (o : kind * lstate) : bool :=
  match o with (Fall, st') => ls_eqb st' st | (Ret, _) => true end.

Lemma exec_loop_unfold (body : skel) (st : lstate) :
  exec (KLoop body) st =
  match exec body st with
  | None => None
  | Some outs =>
      if forallb (fall_same st) outs
      then Some ((Fall, st) :: filter is_ret outs)
      else None
  end.
Proof. reflexivity. Qed.

(* ---- soundness of exec ---- *)
Theorem exec_sound (s : skel) (st : lstate) (outs : list (kind * lstate)) :
  exec s st = Some outs ->
  (forall k st', run s st k st' -> In (k, st') outs) /\ ~ stuck s st.
Proof.
  revert st outs.
  induction s as [ | | | | | a IHa b IHb | t IHt e IHe | body IHbody];
    intros st outs H.
  - (* KNop *)
    cbn in H. injection H as H. subst outs. split.
    + intros k st' Hr. inversion Hr; subst. left. reflexivity.
    + intro Hs. inversion Hs.
  - (* KLock *)
    cbn in H. destruct (held st) eqn:Eh; [discriminate H|].
    injection H as H. subst outs. split.
    + intros k st' Hr. inversion Hr; subst. left. reflexivity.
    + intro Hs. inversion Hs; subst. congruence.
  - (* KUnlock *)
    cbn in H. destruct (held st) eqn:Eh; [|discriminate H].
    injection H as H. subst outs. split.
    + intros k st' Hr. inversion Hr; subst. left. reflexivity.
    + intro Hs. inversion Hs; subst. congruence.
  - (* KDeferUnlock *)
    cbn in H. injection H as H. subst outs. split.
    + intros k st' Hr. inversion Hr; subst. left. reflexivity.
    + intro Hs. inversion Hs.
  - (* KRet *)
    cbn in H. injection H as H. subst outs. split.
    + intros k st' Hr. inversion Hr; subst. left. reflexivity.
    + intro Hs. inversion Hs.
  - (* KSeq *)
    rewrite exec_seq_unfold in H.
    destruct (exec a st) as [oa|] eqn:Ea; [|discriminate H].
    destruct (IHa st oa Ea) as [IHa1 IHa2].
    destruct (seq_fold_spec b oa outs H) as [Hret Hfall].
    split.
    + intros k st' Hr. inversion Hr; subst.
      * apply Hret. apply IHa1. assumption.
      * match goal with
        | Hf : run a st Fall ?s1, Hb : run b ?s1 k st' |- _ =>
            destruct (Hfall s1 (IHa1 _ _ Hf)) as [l' [El' Hl']];
            apply Hl'; apply (proj1 (IHb _ _ El')); exact Hb
        end.
    + intro Hs. inversion Hs; subst.
      * apply IHa2. assumption.
      * match goal with
        | Hf : run a st Fall ?s1, Hb : stuck b ?s1 |- _ =>
            destruct (Hfall s1 (IHa1 _ _ Hf)) as [l' [El' Hl']];
            apply (proj2 (IHb _ _ El')); exact Hb
        end.
  - (* KIf *)
    cbn [exec] in H.
    destruct (exec t st) as [ot|] eqn:Et; [|discriminate H].
    destruct (exec e st) as [oe|] eqn:Ee; [|discriminate H].
    injection H as H. subst outs.
    destruct (IHt _ _ Et) as [IHt1 IHt2].
    destruct (IHe _ _ Ee) as [IHe1 IHe2].
    split.
    + intros k st' Hr. apply in_or_app. inversion Hr; subst.
      * left. apply IHt1. assumption.
      * right. apply IHe1. assumption.
    + intro Hs. inversion Hs; subst.
      * apply IHt2. assumption.
      * apply IHe2. assumption.
  - (* KLoop *)
    rewrite exec_loop_unfold in H.
    destruct (exec body st) as [ob|] eqn:Eb; [|discriminate H].
    destruct (forallb (fall_same st) ob) eqn:Efa; [|discriminate H].
    injection H as H. subst outs.
    destruct (IHbody _ _ Eb) as [IHb1 IHb2].
    assert (Hsame : forall st1, run body st Fall st1 -> st1 = st).
    { intros st1 Hr. apply IHb1 in Hr.
      rewrite forallb_forall in Efa. apply Efa in Hr. cbn in Hr.
      apply ls_eqb_eq. exact Hr. }
    split.
    + intros k st' Hr.
      remember (KLoop body) as lp eqn:Elp.
      remember st as st0 eqn:Est0 in Hr.
      revert Elp Est0.
      induction Hr as [ | | | | | | | | | body0 s0 | body0 s0 s0' Hb
                        | body0 s0 s1 k0 s0' Hb _ Hl IHl];
        intros Elp Est0; try discriminate Elp.
      * subst s0. left. reflexivity.
      * injection Elp as Elp. subst body0 s0. right.
        apply filter_In. split; [apply IHb1; exact Hb | reflexivity].
      * injection Elp as Elp. subst body0 s0.
        apply IHl; [reflexivity|]. apply Hsame. exact Hb.
    + intro Hs.
      remember (KLoop body) as lp eqn:Elp.
      remember st as st0 eqn:Est0 in Hs.
      revert Elp Est0.
      induction Hs as [ | | | | | | body0 s0 Hb | body0 s0 s1 Hb Hl IHl];
        intros Elp Est0; try discriminate Elp.
      * injection Elp as Elp. subst body0 s0. apply IHb2. exact Hb.
      * injection Elp as Elp. subst body0 s0.
        apply IHl; [reflexivity|]. apply Hsame. exact Hb.
Qed.

Theorem balanced_sound (s : skel) :
  balanced s = true ->
  ~ stuck s (mkLS false false) /\
  forall k st', run s (mkLS false false) k st' -> exit_ok st' = true.
Proof.
  unfold balanced. intro H.
  destruct (exec s (mkLS false false)) as [outs|] eqn:E; [|discriminate H].
  destruct (exec_sound _ _ _ E) as [H1 H2]. split; [exact H2|].
  intros k st' Hr. apply H1 in Hr.
  rewrite forallb_forall in H. apply H in Hr. exact Hr.
Qed.

Theorem exit_ok_released (st : lstate) : exit_ok st = true -> released st = true.
Proof.
  destruct st as [h d]. unfold exit_ok, released. cbn.
  destruct h, d; cbn; intro H; try discriminate H; reflexivity.
Qed.

(* ---- the two versions of Segment.dictionary ---- *)
Definition skel_dictionary_fixed : skel :=
  KSeq KNop (KIf (KSeq KNop (KIf (KSeq KLock (KSeq (KIf (KSeq KNop (KSeq (KIf (KSeq KUnlock KRet) KNop) (KSeq KNop (KSeq (KIf (KSeq KUnlock KRet) KNop) (KSeq KNop (KSeq (KIf (KSeq KUnlock KRet) KNop) KNop)))))) KNop) (KSeq KUnlock (KSeq KNop (KIf KRet KNop))))) KNop)) KNop).

(* the pinned version: two error returns without Unlock *)
Definition skel_dictionary_prefix : skel :=
  KSeq KNop (KIf (KSeq KNop (KIf (KSeq KLock (KSeq (KIf (KSeq KNop (KSeq (KIf KRet KNop) (KSeq KNop (KSeq (KIf KRet KNop) (KSeq KNop (KSeq (KIf (KSeq KUnlock KRet) KNop) KNop)))))) KNop) (KSeq KUnlock (KSeq KNop (KIf KRet KNop))))) KNop)) KNop).

Example dictionary_fixed_balanced : balanced skel_dictionary_fixed = true.
Proof. vm_compute. reflexivity. Qed.

Example dictionary_prefix_refuted :
  balanced skel_dictionary_prefix = false /\
  exists st', run skel_dictionary_prefix (mkLS false false) Ret st' /\
              held st' = true /\ deferred st' = false.
Proof.
  split; [vm_compute; reflexivity|].
  exists (mkLS true false). split; [|split; reflexivity].
  unfold skel_dictionary_prefix.
  eapply R_SeqFall; [apply R_Nop|].
  apply R_IfT.
  eapply R_SeqFall; [apply R_Nop|].
  apply R_IfT.
  eapply R_SeqFall; [apply (R_Lock (mkLS false false)); reflexivity|].
  cbn [deferred].
  apply R_SeqRet.
  apply R_IfT.
  eapply R_SeqFall; [apply R_Nop|].
  apply R_SeqRet.
  apply R_IfT.
  apply R_Ret.
Qed.

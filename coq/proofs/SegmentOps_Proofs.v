(* SegmentOps_Proofs.v - proofs about theories/SegmentOps.v.

   (A) Segment.DocsMatchingTerms
     A1  docs_matching_correct / docs_matching_correct_orinto / _no_failure
     A2  docs_matching_spec          (= Spec.o_docsmatching on the dictionaries of an ASeg)
     A3  docs_matching_error         (a failing lookup gives Err, never a partial set)
     A4  docs_matching_total, docs_matching_never_panics, docs_matching_prefix_refuted
   (B) Segment.dictionary, the mutex and the FST cache
     B1  dictionary_call_spec, dict_never_blocks, dict_never_blocks_init,
         cached_call_no_read, dict_cached_later
     B2  dictionary_prefix_blocks (+ the repaired code on the same oracle)
     B3  cache_transparent

   Modelling assumptions, stated once:
   - the storage read inside PostingsList.read (general postings) succeeds; the
     only error path kept in (A) is the dictionary lookup, as an oracle per field;
   - a 1-hit FST value is recognised by OrInto through normBits1Hit != 0, as in
     the Go code; the statement with the plain documents of the FST value
     ([fst_docs]) needs [dicts_wf]: 1-hit values carry non-zero norm bits;
   - vellum's FST.Reader() has no failing path. *)
From Coq Require Import List NArith Bool Lia Sorting Permutation.
From Coq Require Import ZifyBool ZifyN ZifyNat.
From Ice Require Import Base Spec Dict Lock SegmentOps.
From IceProofs Require Import Sort_Proofs DocsMatching_Proofs Dict_Proofs Lock_Proofs.
Import ListNotations.
Open Scope N_scope.

(* ================================================================== *)
(* (A) DocsMatchingTerms                                               *)
(* ================================================================== *)

(* ---- the bitmap as a canonical list ---- *)

Lemma sd_nil : sort_dedup_N [] = [].
Proof. reflexivity. Qed.

Lemma sd_add (d : N) (acc : list N) :
  bm_add d (sort_dedup_N acc) = sort_dedup_N (acc ++ [d]).
Proof.
  unfold bm_add. apply sort_dedup_N_ext. intros x.
  cbn [In]. rewrite in_app_iff, sort_dedup_N_In. cbn [In]. tauto.
Qed.

Lemma sd_or (docs acc : list N) :
  bm_or docs (sort_dedup_N acc) = sort_dedup_N (acc ++ docs).
Proof.
  unfold bm_or. apply sort_dedup_N_ext. intros x.
  rewrite !in_app_iff, sort_dedup_N_In. tauto.
Qed.

(* ---- the dictionary lookup ---- *)

Lemma lookup_cases (dicts : seg_dicts) (fails : bytes -> bool) (f : bytes) :
  dictionary_lookup dicts fails f = Err \/
  dictionary_lookup dicts fails f = Ok (dictionary_of dicts f).
Proof.
  unfold dictionary_lookup, dictionary_of.
  destruct (fields_lookup dicts f) as [[m|]|]; auto.
  destruct (fails f); auto.
Qed.

Lemma lookup_not_err (dicts : seg_dicts) (fails : bytes -> bool) (f : bytes) :
  dictionary_lookup dicts fails f <> Err ->
  dictionary_lookup dicts fails f = Ok (dictionary_of dicts f).
Proof. destruct (lookup_cases dicts fails f); tauto. Qed.

Lemma lookup_no_failure (dicts : seg_dicts) (fails : bytes -> bool) (f : bytes) :
  fails f = false -> dictionary_lookup dicts fails f <> Err.
Proof.
  unfold dictionary_lookup. intros H.
  destruct (fields_lookup dicts f) as [[m|]|]; try discriminate.
  rewrite H. discriminate.
Qed.

(* the value the FST of a dictionary reference has for a term *)
Definition ref_val (d : DictRef) (t : bytes) : option FstVal :=
  match d with DictOf m => fst_get m t | _ => None end.

Definition opt_orinto_docs (o : option FstVal) : list N :=
  match o with Some v => orinto_docs v | None => [] end.

Lemma term_docs_orinto_eq (dicts : seg_dicts) (f t : bytes) :
  term_docs_orinto dicts (f, t) = opt_orinto_docs (ref_val (dictionary_of dicts f) t).
Proof.
  unfold term_docs_orinto, term_val, opt_orinto_docs, ref_val. cbn [fst snd].
  destruct (dictionary_of dicts f); reflexivity.
Qed.

(* postingsList + OrInto on a non-nil dictionary: the bitmap gains exactly the
   documents OrInto sees in the FST value of the term *)
Lemma or_into_step (d : DictRef) (t : bytes) (acc : list N) :
  d <> NoDict ->
  exists pl, postings_list d t = Ok pl /\
             or_into pl (sort_dedup_N acc)
             = sort_dedup_N (acc ++ opt_orinto_docs (ref_val d t)).
Proof.
  intros Hd. destruct d as [| |m]; [contradiction| |]; cbn [postings_list ref_val].
  - exists pl_zero. split; [reflexivity|].
    cbn [opt_orinto_docs]. rewrite app_nil_r. reflexivity.
  - destruct (fst_get m t) as [[dn nb|docs]|]; cbn [opt_orinto_docs orinto_docs].
    + exists (pl_read pl_zero (V1Hit dn nb)). split; [reflexivity|].
      unfold or_into, pl_read, pl_zero. cbn [pl_norm1 pl_doc1 pl_postings pl_except].
      destruct (nb =? 0); cbn [negb].
      * rewrite app_nil_r. reflexivity.
      * apply sd_add.
    + exists (pl_read pl_zero (VGen docs)). split; [reflexivity|].
      unfold or_into, pl_read, pl_zero. cbn [pl_norm1 pl_doc1 pl_postings pl_except].
      cbn [N.eqb negb]. apply sd_or.
    + exists pl_zero. split; [reflexivity|].
      rewrite app_nil_r. reflexivity.
Qed.

(* one iteration of the loop when the lookup (if any) succeeds: whatever the
   branch taken, the loop goes on with lastField = thisField and
   dict = the dictionary of thisField *)
Lemma dmt_loop_cons (skip : bool) (dicts : seg_dicts) (fails : bytes -> bool)
      (f t : bytes) (rest : list (bytes * bytes))
      (first : bool) (lastField : bytes) (dict : DictRef) (rv : list N) :
  dictionary_lookup dicts fails f = Ok (dictionary_of dicts f) ->
  (first = false -> dict = dictionary_of dicts lastField) ->
  dmt_loop skip dicts fails ((f, t) :: rest) first lastField dict rv =
  match dictionary_of dicts f, skip with
  | NoDict, true => dmt_loop skip dicts fails rest false f NoDict rv
  | d, _ =>
      match postings_list d t with
      | Ok pl => dmt_loop skip dicts fails rest false f d (or_into pl rv)
      | Err => Err
      | Panic => Panic
      | Block => Block
      | OutOfFuel => OutOfFuel
      end
  end.
Proof.
  intros Hl Hinv. cbn [dmt_loop].
  destruct (first || negb (beq f lastField)) eqn:Ec.
  - rewrite Hl. destruct (dictionary_of dicts f), skip; reflexivity.
  - apply orb_false_iff in Ec. destruct Ec as [Ef Eb].
    apply negb_false_iff in Eb. apply beq_eq in Eb. subst lastField.
    rewrite (Hinv Ef). destruct (dictionary_of dicts f), skip; reflexivity.
Qed.

Lemma dmt_loop_ok (dicts : seg_dicts) (fails : bytes -> bool) :
  forall (terms : list (bytes * bytes)) (first : bool) (lastField : bytes)
         (dict : DictRef) (acc : list N),
    (forall ft, In ft terms -> dictionary_lookup dicts fails (fst ft) <> Err) ->
    (first = false -> dict = dictionary_of dicts lastField) ->
    dmt_loop true dicts fails terms first lastField dict (sort_dedup_N acc)
    = Ok (sort_dedup_N (acc ++ all_docs_orinto dicts terms)).
Proof.
  induction terms as [|[f t] rest IH]; intros first lastField dict acc Hok Hinv.
  - cbn [dmt_loop all_docs_orinto flat_map']. rewrite app_nil_r. reflexivity.
  - assert (Hl : dictionary_lookup dicts fails f = Ok (dictionary_of dicts f)).
    { apply lookup_not_err. apply (Hok (f, t)). left; reflexivity. }
    assert (Hok' : forall ft, In ft rest -> dictionary_lookup dicts fails (fst ft) <> Err).
    { intros ft Hin. apply Hok. right; exact Hin. }
    rewrite (dmt_loop_cons true dicts fails f t rest first lastField dict _ Hl Hinv).
    unfold all_docs_orinto. cbn [flat_map'].
    rewrite term_docs_orinto_eq. fold (all_docs_orinto dicts rest).
    destruct (dictionary_of dicts f) as [| |m] eqn:Ed.
    + cbn [ref_val opt_orinto_docs app].
      apply IH; [exact Hok'|]. intros _. symmetry; exact Ed.
    + destruct (or_into_step EmptyDict t acc) as [pl [Hp Ho]]; [discriminate|].
      rewrite Hp, Ho, app_assoc.
      apply IH; [exact Hok'|]. intros _. symmetry; exact Ed.
    + destruct (or_into_step (DictOf m) t acc) as [pl [Hp Ho]]; [discriminate|].
      rewrite Hp, Ho, app_assoc.
      apply IH; [exact Hok'|]. intros _. symmetry; exact Ed.
Qed.

Lemma all_docs_orinto_nodicts (terms : list (bytes * bytes)) : all_docs_orinto [] terms = [].
Proof.
  unfold all_docs_orinto. induction terms as [|[f t] rest IH]; cbn [flat_map']; [reflexivity|].
  rewrite IH. reflexivity.
Qed.

(* A1, in the form that needs no side condition on the FST values *)
Theorem docs_matching_correct_orinto (dicts : seg_dicts) (fails : bytes -> bool)
        (terms : list (bytes * bytes)) :
  (forall ft, In ft terms -> dictionary_lookup dicts fails (fst ft) <> Err) ->
  docs_matching dicts fails terms = Ok (sort_dedup_N (all_docs_orinto dicts terms)).
Proof.
  intros Hok. unfold docs_matching, docs_matching_gen, bm_new.
  destruct dicts as [|e dicts'].
  - rewrite all_docs_orinto_nodicts. reflexivity.
  - assert (Hinv : true = false -> NoDict = dictionary_of (e :: dicts') []) by discriminate.
    exact (dmt_loop_ok (e :: dicts') fails terms true [] NoDict [] Hok Hinv).
Qed.

(* ---- well-formed dictionaries: OrInto sees the documents of the FST value ---- *)

Lemma fields_lookup_In (dicts : seg_dicts) (f : bytes) (o : option (list (bytes * FstVal))) :
  fields_lookup dicts f = Some o -> In (f, o) dicts.
Proof.
  induction dicts as [|[f' d] rest IH]; cbn [fields_lookup]; [discriminate|].
  destruct (beq f f') eqn:E.
  - intros H. injection H as ->. apply beq_eq in E. subst f'. left; reflexivity.
  - intros H. right. apply IH, H.
Qed.

Lemma fst_get_In (m : list (bytes * FstVal)) (t : bytes) (v : FstVal) :
  fst_get m t = Some v -> In (t, v) m.
Proof.
  induction m as [|[k w] rest IH]; cbn [fst_get]; [discriminate|].
  destruct (beq k t) eqn:E.
  - intros H. injection H as ->. apply beq_eq in E. subst k. left; reflexivity.
  - intros H. right. apply IH, H.
Qed.

Lemma term_val_wf (dicts : seg_dicts) (f t : bytes) (v : FstVal) :
  dicts_wf dicts = true -> term_val dicts f t = Some v -> val_wf v = true.
Proof.
  unfold dicts_wf, term_val, dictionary_of. intros Hwf.
  destruct (fields_lookup dicts f) as [[m|]|] eqn:El; try discriminate.
  intros Hg. apply fields_lookup_In in El. apply fst_get_In in Hg.
  rewrite forallb_forall in Hwf. specialize (Hwf _ El). cbn [snd] in Hwf.
  rewrite forallb_forall in Hwf. apply (Hwf _ Hg).
Qed.

Lemma orinto_docs_wf (v : FstVal) : val_wf v = true -> orinto_docs v = fst_docs v.
Proof.
  destruct v as [d nb|docs]; cbn [val_wf orinto_docs fst_docs]; [|reflexivity].
  intros H. apply negb_true_iff in H. rewrite H. reflexivity.
Qed.

Lemma flat_map'_ext {X Y} (g h : X -> list Y) (l : list X) :
  (forall x, In x l -> g x = h x) -> flat_map' g l = flat_map' h l.
Proof.
  induction l as [|a l IH]; cbn [flat_map']; intros H; [reflexivity|].
  rewrite (H a), IH; auto.
  - intros x Hx. apply H. right; exact Hx.
  - left; reflexivity.
Qed.

Lemma all_docs_orinto_wf (dicts : seg_dicts) (terms : list (bytes * bytes)) :
  dicts_wf dicts = true -> all_docs_orinto dicts terms = all_docs dicts terms.
Proof.
  intros Hwf. unfold all_docs_orinto, all_docs. apply flat_map'_ext.
  intros [f t] _. unfold term_docs_orinto, term_docs. cbn [fst snd].
  destruct (term_val dicts f t) as [v|] eqn:Ev; [|reflexivity].
  apply orinto_docs_wf. apply (term_val_wf dicts f t v Hwf Ev).
Qed.

(* A1: any list of (field, term) pairs - any order, repeats, unknown fields
   (the empty name included), unknown terms, field switches *)
Theorem docs_matching_correct (dicts : seg_dicts) (fails : bytes -> bool)
        (terms : list (bytes * bytes)) :
  dicts_wf dicts = true ->
  (forall ft, In ft terms -> dictionary_lookup dicts fails (fst ft) <> Err) ->
  docs_matching dicts fails terms = Ok (sort_dedup_N (all_docs dicts terms)).
Proof.
  intros Hwf Hok. rewrite <- (all_docs_orinto_wf dicts terms Hwf).
  apply docs_matching_correct_orinto, Hok.
Qed.

Corollary docs_matching_correct_no_failure (dicts : seg_dicts) (fails : bytes -> bool)
          (terms : list (bytes * bytes)) :
  dicts_wf dicts = true ->
  (forall f, fails f = false) ->
  docs_matching dicts fails terms = Ok (sort_dedup_N (all_docs dicts terms)).
Proof.
  intros Hwf Hnf. apply docs_matching_correct; [exact Hwf|].
  intros ft _. apply lookup_no_failure, Hnf.
Qed.

(* what [all_docs] means, read off the definitions *)
Lemma term_docs_unknown_field (dicts : seg_dicts) (f t : bytes) :
  fields_lookup dicts f = None -> term_docs dicts (f, t) = [].
Proof.
  unfold term_docs, term_val, dictionary_of. cbn [fst snd]. intros ->. reflexivity.
Qed.

Lemma term_docs_no_fst (dicts : seg_dicts) (f t : bytes) :
  fields_lookup dicts f = Some None -> term_docs dicts (f, t) = [].
Proof.
  unfold term_docs, term_val, dictionary_of. cbn [fst snd]. intros ->. reflexivity.
Qed.

Lemma term_docs_absent_term (dicts : seg_dicts) (f t : bytes) (m : list (bytes * FstVal)) :
  fields_lookup dicts f = Some (Some m) -> fst_get m t = None -> term_docs dicts (f, t) = [].
Proof.
  unfold term_docs, term_val, dictionary_of. cbn [fst snd]. intros -> ->. reflexivity.
Qed.

Lemma term_docs_present (dicts : seg_dicts) (f t : bytes) (m : list (bytes * FstVal)) (v : FstVal) :
  fields_lookup dicts f = Some (Some m) -> fst_get m t = Some v ->
  term_docs dicts (f, t) = fst_docs v.
Proof.
  unfold term_docs, term_val, dictionary_of. cbn [fst snd]. intros -> ->. reflexivity.
Qed.

(* the result is a set: ascending, no repetition, exactly the listed documents *)
Corollary docs_matching_set (dicts : seg_dicts) (fails : bytes -> bool)
          (terms : list (bytes * bytes)) (rv : list N) :
  dicts_wf dicts = true ->
  docs_matching dicts fails terms = Ok rv ->
  (forall ft, In ft terms -> dictionary_lookup dicts fails (fst ft) <> Err) ->
  strict_sorted_N rv /\
  forall d, In d rv <-> exists ft, In ft terms /\ In d (term_docs dicts ft).
Proof.
  intros Hwf Hr Hok. rewrite (docs_matching_correct dicts fails terms Hwf Hok) in Hr.
  injection Hr as <-. split; [apply sort_dedup_N_sorted|].
  intros d. rewrite sort_dedup_N_In. unfold all_docs. apply flat_map'_In.
Qed.

(* ------------------------------------------------------------------ *)
(* A2: the dictionaries of an abstract segment                         *)
(* ------------------------------------------------------------------ *)

Lemma fields_lookup_map (g : bytes -> option (list (bytes * FstVal))) (fs : list bytes) (f : bytes) :
  fields_lookup (map (fun x => (x, g x)) fs) f = if mem beq f fs then Some (g f) else None.
Proof.
  induction fs as [|a fs IH]; cbn [map fields_lookup mem]; [reflexivity|].
  destruct (beq f a) eqn:E; cbn [orb].
  - apply beq_eq in E. subst a. reflexivity.
  - exact IH.
Qed.

Lemma beq_sym (a b : bytes) : beq a b = beq b a.
Proof.
  destruct (beq a b) eqn:E1, (beq b a) eqn:E2; try reflexivity.
  - apply beq_eq in E1. subst b. rewrite beq_refl in E2. discriminate.
  - apply beq_eq in E2. subst b. rewrite beq_refl in E1. discriminate.
Qed.

Lemma fst_get_map (h : bytes -> FstVal) (ts : list bytes) (t : bytes) :
  fst_get (map (fun x => (x, h x)) ts) t = if mem beq t ts then Some (h t) else None.
Proof.
  induction ts as [|a ts IH]; cbn [map fst_get mem]; [reflexivity|].
  rewrite (beq_sym a t).
  destruct (beq t a) eqn:E; cbn [orb].
  - apply beq_eq in E. subst a. reflexivity.
  - exact IH.
Qed.

(* a term with a posting is a term of the field (converse of o_terms_have_postings) *)
Lemma postings_term_listed (A : ASeg) (f t : bytes) (d : N) :
  In d (map fst (o_postings A f t)) -> In t (o_terms A f).
Proof.
  intros H. apply postings_docs_iff in H.
  destruct H as [Hk [doc [df [Hn [_ [Hdf [v Hv]]]]]]].
  unfold o_terms. rewrite Hk. apply sort_dedup_bytes_In. apply flat_map'_In.
  exists doc. split.
  - rewrite nthN_nth_error in Hn. apply nth_error_In in Hn. exact Hn.
  - unfold doc_terms. rewrite Hdf. apply find_some in Hv. destruct Hv as [Hin Hb].
    apply beq_eq in Hb. apply in_map_iff. exists v. split; assumption.
Qed.

Lemma postings_unlisted_term (A : ASeg) (f t : bytes) :
  mem beq t (o_terms A f) = false -> o_postings A f t = [].
Proof.
  intros Hm. destruct (o_postings A f t) as [|p ps] eqn:E; [reflexivity|].
  exfalso. assert (Hin : In t (o_terms A f)).
  { apply (postings_term_listed A f t (fst p)). rewrite E. left; reflexivity. }
  apply (mem_In beq beq_eq) in Hin. rewrite Hin in Hm. discriminate.
Qed.

Lemma o_terms_unknown (A : ASeg) (f : bytes) : known_field A f = false -> o_terms A f = [].
Proof. intros H. unfold o_terms. rewrite H. reflexivity. Qed.

Lemma term_val_aseg (A : ASeg) (use1 : bytes -> bytes -> bool) (nofst : bytes -> bool) (f t : bytes) :
  term_val (dicts_of_aseg A use1 nofst) f t
  = if mem beq t (o_terms A f) then Some (aseg_val A use1 f t) else None.
Proof.
  unfold term_val, dictionary_of, dicts_of_aseg.
  rewrite (fields_lookup_map (aseg_dict A use1 nofst)).
  fold (known_field A f). destruct (known_field A f) eqn:Ek.
  - unfold aseg_dict. destruct (o_terms A f) as [|t0 ts] eqn:Et.
    + cbn [mem]. destruct (nofst f); reflexivity.
    + apply (fst_get_map (aseg_val A use1 f)).
  - rewrite (o_terms_unknown A f Ek). reflexivity.
Qed.

Lemma aseg_val_docs (A : ASeg) (use1 : bytes -> bytes -> bool) (f t : bytes) :
  orinto_docs (aseg_val A use1 f t) = map fst (o_postings A f t) /\
  fst_docs (aseg_val A use1 f t) = map fst (o_postings A f t) /\
  val_wf (aseg_val A use1 f t) = true.
Proof.
  unfold aseg_val.
  destruct (o_postings A f t) as [|[d [fr [nm ls]]] [|p ps]]; cbn [map fst];
    try (repeat split; reflexivity).
  destruct (use1 f t && negb (nm =? 0)) eqn:E; cbn [orinto_docs fst_docs val_wf];
    try (repeat split; reflexivity).
  apply andb_true_iff in E. destruct E as [_ E]. rewrite E.
  apply negb_true_iff in E. rewrite E. repeat split; reflexivity.
Qed.

Lemma term_docs_orinto_aseg (A : ASeg) (use1 : bytes -> bytes -> bool) (nofst : bytes -> bool)
      (ft : bytes * bytes) :
  term_docs_orinto (dicts_of_aseg A use1 nofst) ft = map fst (o_postings A (fst ft) (snd ft)).
Proof.
  destruct ft as [f t]. unfold term_docs_orinto. cbn [fst snd]. rewrite term_val_aseg.
  destruct (mem beq t (o_terms A f)) eqn:Em.
  - apply aseg_val_docs.
  - rewrite (postings_unlisted_term A f t Em). reflexivity.
Qed.

Lemma term_docs_aseg (A : ASeg) (use1 : bytes -> bytes -> bool) (nofst : bytes -> bool)
      (ft : bytes * bytes) :
  term_docs (dicts_of_aseg A use1 nofst) ft = map fst (o_postings A (fst ft) (snd ft)).
Proof.
  destruct ft as [f t]. unfold term_docs. cbn [fst snd]. rewrite term_val_aseg.
  destruct (mem beq t (o_terms A f)) eqn:Em.
  - apply aseg_val_docs.
  - rewrite (postings_unlisted_term A f t Em). reflexivity.
Qed.

(* the dictionaries built from an abstract segment are well formed and their
   term maps are strictly sorted, as an FST's keys are *)
Lemma dicts_of_aseg_wf (A : ASeg) (use1 : bytes -> bytes -> bool) (nofst : bytes -> bool) :
  dicts_wf (dicts_of_aseg A use1 nofst) = true.
Proof.
  unfold dicts_wf, dicts_of_aseg. apply forallb_forall. intros [f o] Hin.
  apply in_map_iff in Hin. destruct Hin as [f' [E _]]. injection E as -> <-.
  cbn [snd]. unfold aseg_dict.
  destruct (o_terms A f) as [|t0 ts]; [destruct (nofst f); reflexivity|].
  apply forallb_forall. intros [k v] Hin.
  apply in_map_iff in Hin. destruct Hin as [t [E _]]. injection E as <- <-.
  cbn [snd]. apply aseg_val_docs.
Qed.

Lemma dicts_of_aseg_sorted (A : ASeg) (use1 : bytes -> bytes -> bool) (nofst : bytes -> bool)
      (f : bytes) (m : list (bytes * FstVal)) :
  In (f, Some m) (dicts_of_aseg A use1 nofst) ->
  map fst m = o_terms A f /\ strict_sorted_bytes (map fst m).
Proof.
  unfold dicts_of_aseg. intros Hin.
  apply in_map_iff in Hin. destruct Hin as [f' [E _]]. injection E as -> E.
  assert (Hm : map fst m = o_terms A f).
  { unfold aseg_dict in E. destruct (o_terms A f) as [|t0 ts].
    - destruct (nofst f); [discriminate|]. injection E as <-. reflexivity.
    - injection E as <-. change (map fst (map (fun t => (t, aseg_val A use1 f t)) (t0 :: ts)) = t0 :: ts).
      rewrite map_map. cbn [fst]. apply map_id. }
  split; [exact Hm|]. rewrite Hm. apply o_terms_sorted.
Qed.

(* A2: on the dictionaries of an abstract segment the function computes the
   specification Spec.o_docsmatching *)
Theorem docs_matching_spec (A : ASeg) (use1 : bytes -> bytes -> bool) (nofst : bytes -> bool)
        (fails : bytes -> bool) (terms : list (bytes * bytes)) :
  (forall ft, In ft terms ->
     dictionary_lookup (dicts_of_aseg A use1 nofst) fails (fst ft) <> Err) ->
  docs_matching (dicts_of_aseg A use1 nofst) fails terms = Ok (o_docsmatching A terms).
Proof.
  intros Hok. rewrite (docs_matching_correct_orinto _ fails terms Hok).
  unfold o_docsmatching, all_docs_orinto. do 2 f_equal.
  apply flat_map'_ext. intros ft _. apply term_docs_orinto_aseg.
Qed.

Corollary docs_matching_spec_no_failure (A : ASeg) (use1 : bytes -> bytes -> bool)
          (nofst : bytes -> bool) (fails : bytes -> bool) (terms : list (bytes * bytes)) :
  (forall f, fails f = false) ->
  docs_matching (dicts_of_aseg A use1 nofst) fails terms = Ok (o_docsmatching A terms).
Proof.
  intros Hnf. apply docs_matching_spec. intros ft _. apply lookup_no_failure, Hnf.
Qed.

(* ------------------------------------------------------------------ *)
(* A3: a failing lookup gives Err                                      *)
(* ------------------------------------------------------------------ *)

Lemma dmt_loop_err (dicts : seg_dicts) (fails : bytes -> bool) (f t : bytes) :
  dictionary_lookup dicts fails f = Err ->
  forall (terms : list (bytes * bytes)) (first : bool) (lastField : bytes)
         (dict : DictRef) (rv : list N),
    In (f, t) terms ->
    (first = false -> dictionary_lookup dicts fails lastField <> Err) ->
    dmt_loop true dicts fails terms first lastField dict rv = Err.
Proof.
  intros Hf. induction terms as [|[f' t'] rest IH]; intros first lastField dict rv Hin Hinv.
  - destruct Hin.
  - cbn [dmt_loop].
    destruct (first || negb (beq f' lastField)) eqn:Ec.
    + destruct (lookup_cases dicts fails f') as [He | Ho].
      * rewrite He. reflexivity.
      * rewrite Ho.
        assert (Hrest : In (f, t) rest).
        { destruct Hin as [E | Hin]; [|exact Hin].
          injection E as -> ->. rewrite Hf in Ho. discriminate. }
        assert (Hinv' : false = false -> dictionary_lookup dicts fails f' <> Err).
        { intros _. rewrite Ho. discriminate. }
        destruct (dictionary_of dicts f') as [| |m]; cbn [postings_list].
        -- apply IH; assumption.
        -- apply IH; assumption.
        -- destruct (fst_get m t'); apply IH; assumption.
    + apply orb_false_iff in Ec. destruct Ec as [Ef Eb].
      apply negb_false_iff in Eb. apply beq_eq in Eb. subst lastField.
      specialize (Hinv Ef).
      assert (Hrest : In (f, t) rest).
      { destruct Hin as [E | Hin]; [|exact Hin].
        injection E as -> ->. contradiction. }
      assert (Hinv' : false = false -> dictionary_lookup dicts fails f' <> Err).
      { intros _. exact Hinv. }
      destruct dict as [| |m]; cbn [postings_list].
      * apply IH; assumption.
      * apply IH; assumption.
      * destruct (fst_get m t'); apply IH; assumption.
Qed.

(* A3: if the lookup of the dictionary of some listed field fails, the call
   returns the error - never a partial set *)
Theorem docs_matching_error (dicts : seg_dicts) (fails : bytes -> bool)
        (terms : list (bytes * bytes)) (f t : bytes) :
  In (f, t) terms ->
  dictionary_lookup dicts fails f = Err ->
  docs_matching dicts fails terms = Err.
Proof.
  intros Hin Hf. unfold docs_matching, docs_matching_gen.
  destruct dicts as [|e dicts'].
  - cbn in Hf. discriminate Hf.
  - apply (dmt_loop_err (e :: dicts') fails f t Hf); [exact Hin | discriminate].
Qed.

(* the lookup fails exactly for a known field with an FST whose storage fails *)
Lemma lookup_err_iff (dicts : seg_dicts) (fails : bytes -> bool) (f : bytes) :
  dictionary_lookup dicts fails f = Err <->
  (exists m, fields_lookup dicts f = Some (Some m)) /\ fails f = true.
Proof.
  unfold dictionary_lookup. destruct (fields_lookup dicts f) as [[m|]|].
  - destruct (fails f); split.
    + intros _. split; [exists m; reflexivity | reflexivity].
    + reflexivity.
    + discriminate.
    + intros [_ H]. discriminate H.
  - split; [discriminate | intros [[m H] _]; discriminate H].
  - split; [discriminate | intros [[m H] _]; discriminate H].
Qed.

(* Ok and Err are decided by the listed fields alone *)
Corollary docs_matching_ok_iff (dicts : seg_dicts) (fails : bytes -> bool)
          (terms : list (bytes * bytes)) :
  (exists rv, docs_matching dicts fails terms = Ok rv) <->
  (forall ft, In ft terms -> dictionary_lookup dicts fails (fst ft) <> Err).
Proof.
  split.
  - intros [rv Hr] [f t] Hin He. cbn [fst] in He.
    rewrite (docs_matching_error dicts fails terms f t Hin He) in Hr. discriminate.
  - intros Hok. eexists. apply docs_matching_correct_orinto, Hok.
Qed.

(* ------------------------------------------------------------------ *)
(* A4: no panic                                                        *)
(* ------------------------------------------------------------------ *)

Lemma dmt_loop_total (dicts : seg_dicts) (fails : bytes -> bool) :
  forall (terms : list (bytes * bytes)) (first : bool) (lastField : bytes)
         (dict : DictRef) (rv : list N),
    (exists rv', dmt_loop true dicts fails terms first lastField dict rv = Ok rv') \/
    dmt_loop true dicts fails terms first lastField dict rv = Err.
Proof.
  induction terms as [|[f t] rest IH]; intros first lastField dict rv.
  - left. exists rv. reflexivity.
  - cbn [dmt_loop].
    destruct (first || negb (beq f lastField)).
    + destruct (lookup_cases dicts fails f) as [He | Ho].
      * rewrite He. right; reflexivity.
      * rewrite Ho. destruct (dictionary_of dicts f) as [| |m]; cbn [postings_list].
        -- apply IH.
        -- apply IH.
        -- destruct (fst_get m t); apply IH.
    + destruct dict as [| |m]; cbn [postings_list].
      * apply IH.
      * apply IH.
      * destruct (fst_get m t); apply IH.
Qed.

(* A4: for every input the call returns a bitmap or an error *)
Theorem docs_matching_total (dicts : seg_dicts) (fails : bytes -> bool)
        (terms : list (bytes * bytes)) :
  (exists rv, docs_matching dicts fails terms = Ok rv) \/
  docs_matching dicts fails terms = Err.
Proof.
  unfold docs_matching, docs_matching_gen. destruct dicts as [|e dicts'].
  - left. eexists; reflexivity.
  - apply dmt_loop_total.
Qed.

Corollary docs_matching_never_panics (dicts : seg_dicts) (fails : bytes -> bool)
          (terms : list (bytes * bytes)) :
  docs_matching dicts fails terms <> Panic /\
  docs_matching dicts fails terms <> Block /\
  docs_matching dicts fails terms <> OutOfFuel.
Proof.
  destruct (docs_matching_total dicts fails terms) as [[rv H] | H]; rewrite H;
    repeat split; discriminate.
Qed.

(* the nil dictionary is skipped: an unknown field first, then a known one *)
Corollary docs_matching_unknown_first (dicts : seg_dicts) (fails : bytes -> bool)
          (u t : bytes) (terms : list (bytes * bytes)) :
  dicts_wf dicts = true ->
  fields_lookup dicts u = None ->
  (forall ft, In ft terms -> dictionary_lookup dicts fails (fst ft) <> Err) ->
  docs_matching dicts fails ((u, t) :: terms) = docs_matching dicts fails terms.
Proof.
  intros Hwf Hu Hok.
  rewrite (docs_matching_correct dicts fails terms Hwf Hok).
  rewrite (docs_matching_correct dicts fails ((u, t) :: terms) Hwf).
  - unfold all_docs. cbn [flat_map']. rewrite (term_docs_unknown_field dicts u t Hu). reflexivity.
  - intros ft [<- | Hin]; [|apply Hok, Hin].
    cbn [fst]. unfold dictionary_lookup. rewrite Hu. discriminate.
Qed.

(* the pinned code (no  if dict == nil { continue }) panics on a list that
   starts with a field the segment does not have - here the empty name *)
Theorem docs_matching_prefix_refuted :
  exists (dicts : seg_dicts) (terms : list (bytes * bytes)),
    dicts_wf dicts = true /\
    docs_matching_prefix dicts (fun _ => false) terms = Panic /\
    docs_matching dicts (fun _ => false) terms = Ok [7].
Proof.
  exists [([97], Some [([120], V1Hit 7 1)])], [([], [120]); ([97], [120])].
  vm_compute. repeat split; reflexivity.
Qed.

(* ------------------------------------------------------------------ *)
(* examples for (A)                                                    *)
(* ------------------------------------------------------------------ *)

Module DocsMatchingModelExample.
  Import DocsMatchingExample.   (* seg: 3 documents, fields _id, a, b *)

  (* 1-hit values wherever a term has one posting; field _id (no terms) without FST *)
  Definition dicts1 : seg_dicts := dicts_of_aseg seg (fun _ _ => true) (fun _ => true).
  (* general values only; every field has an FST *)
  Definition dicts0 : seg_dicts := dicts_of_aseg seg (fun _ _ => false) (fun _ => false).

  Definition query : list (bytes * bytes) :=
    [(fz, tx); (fb, tx); (fa, tx); ([], tx); (fa, tq); (id_name, tx); (fa, tx); (fb, tw)].

  Example dicts1_shape :
    dicts1 = [ (id_name, None);
               (fa, Some [(tx, VGen [0; 2]); (ty, VGen [1; 2])]);
               (fb, Some [(tw, VGen [0; 2]); (tx, VGen [2])]) ].
  Proof. vm_compute. reflexivity. Qed.

  (* unknown field first, the empty field name, an unknown term, a field
     without FST, a repeated pair, field switches *)
  Example run1 : docs_matching dicts1 (fun _ => false) query = Ok [0; 2].
  Proof. vm_compute. reflexivity. Qed.
  Example run0 : docs_matching dicts0 (fun _ => false) query = Ok [0; 2].
  Proof. vm_compute. reflexivity. Qed.
  Example run_spec : Ok (o_docsmatching seg query) = docs_matching dicts1 (fun _ => false) query.
  Proof. vm_compute. reflexivity. Qed.

  (* the storage of field b fails: Err although (a, x) was already Or-ed in;
     a failing field that is not listed, or has no FST, does not matter *)
  Example run_err : docs_matching dicts1 (fun f => beq f fb) [(fa, tx); (fb, tx)] = Err.
  Proof. vm_compute. reflexivity. Qed.
  Example run_err_unlisted : docs_matching dicts1 (fun f => beq f fb) [(fa, tx); (fa, ty)] = Ok [0; 1; 2].
  Proof. vm_compute. reflexivity. Qed.
  Example run_err_nofst : docs_matching dicts1 (fun _ => true) [(id_name, tx); (fz, tx)] = Ok [].
  Proof. vm_compute. reflexivity. Qed.

  (* the pinned code on the same query *)
  Example run_prefix : docs_matching_prefix dicts1 (fun _ => false) query = Panic.
  Proof. vm_compute. reflexivity. Qed.
  (* ... is fine as long as every field is known *)
  Example run_prefix_known :
    docs_matching_prefix dicts1 (fun _ => false) [(fb, tx); (fa, tx); (id_name, tx)] = Ok [0; 2].
  Proof. vm_compute. reflexivity. Qed.

  (* a segment whose FST holds 1-hit values *)
  Definition dicts_1hit : seg_dicts :=
    [ (fa, Some [(tq, V1Hit 5 1065353216); (tx, VGen [3; 1; 3]); (ty, V1Hit 9 0)]) ].
  Example run_1hit :
    docs_matching dicts_1hit (fun _ => false) [(fa, tx); (fa, tq); (fa, tx)] = Ok [1; 3; 5].
  Proof. vm_compute. reflexivity. Qed.
  (* a 1-hit value with norm bits 0 is invisible to OrInto (normBits1Hit != 0 test):
     the reason for [dicts_wf] in docs_matching_correct *)
  Example run_1hit_norm0 :
    docs_matching dicts_1hit (fun _ => false) [(fa, ty)] = Ok [] /\ dicts_wf dicts_1hit = false.
  Proof. vm_compute. split; reflexivity. Qed.

  (* a segment without fields *)
  Example run_nofields : docs_matching [] (fun _ => true) query = Ok [].
  Proof. vm_compute. reflexivity. Qed.
End DocsMatchingModelExample.

(* ================================================================== *)
(* (B) Segment.dictionary: the mutex and the FST cache                 *)
(* ================================================================== *)

Section DictionaryProofs.
  Variable F : N -> N.
  Variable loads_ok : N -> bool.

  (* the cache only holds entries (id, F id) of FSTs that loaded *)
  Definition cache_inv (c : list (N * N)) : Prop :=
    Forall (fun p => snd p = F (fst p) /\ loads_ok (fst p) = true) c.

  Lemma fsts_get_inv (c : list (N * N)) (k v : N) :
    cache_inv c -> fsts_get c k = Some v -> v = F k /\ loads_ok k = true.
  Proof.
    unfold cache_inv. induction c as [|[k' v'] c IH]; cbn [fsts_get]; intros Hc Hg.
    - discriminate Hg.
    - inversion Hc as [|x l Hx Hl]; subst. cbn [fst snd] in Hx.
      destruct (k' =? k) eqn:E.
      + apply N.eqb_eq in E. subst k'. injection Hg as <-. exact Hx.
      + apply IH; assumption.
  Qed.

  Lemma fsts_set_inv (c : list (N * N)) (k : N) :
    cache_inv c -> loads_ok k = true -> cache_inv (fsts_set c k (F k)).
  Proof.
    unfold cache_inv, fsts_set. intros Hc Hk. constructor.
    - cbn [fst snd]. split; [reflexivity | exact Hk].
    - rewrite Forall_forall in *. intros p Hp. apply filter_In in Hp. apply Hc, Hp.
  Qed.

  Lemma fsts_get_filter_other (c : list (N * N)) (id k : N) :
    k <> id -> fsts_get (filter (fun p => negb (fst p =? id)) c) k = fsts_get c k.
  Proof.
    intros Hne. induction c as [|[k' v'] c IH]; cbn [filter fsts_get fst]; [reflexivity|].
    destruct (k' =? id) eqn:E1; cbn [negb].
    - apply N.eqb_eq in E1. subst k'.
      destruct (id =? k) eqn:E2; [apply N.eqb_eq in E2; congruence | exact IH].
    - cbn [fsts_get]. destruct (k' =? k); [reflexivity | exact IH].
  Qed.

  Lemma fsts_get_set_same (c : list (N * N)) (k v : N) : fsts_get (fsts_set c k v) k = Some v.
  Proof. unfold fsts_set. cbn [fsts_get]. rewrite N.eqb_refl. reflexivity. Qed.

  Lemma fsts_get_set_other (c : list (N * N)) (id v k : N) :
    k <> id -> fsts_get (fsts_set c id v) k = fsts_get c k.
  Proof.
    intros Hne. unfold fsts_set. cbn [fsts_get].
    destruct (id =? k) eqn:E; [apply N.eqb_eq in E; congruence|].
    apply fsts_get_filter_other, Hne.
  Qed.

  (* what one call may return *)
  Definition call_ok (c : N * bool) (r : result (option N)) : Prop :=
    r = Err \/ (snd c = true /\ r = Ok (Some (F (fst c)))) \/ (snd c = false /\ r = Ok None).

  (* ---- B1, one call ---- *)
  Lemma dictionary_call_spec (ok : nat -> bool) (st : dstate) (id : N) (hd : bool) :
    locked st = false -> cache_inv (cache st) ->
    forall st' r, dictionary_call F loads_ok ok st id hd = (st', r) ->
      locked st' = false /\
      cache_inv (cache st') /\
      call_ok (id, hd) r /\
      (forall k v, fsts_get (cache st) k = Some v -> fsts_get (cache st') k = Some v) /\
      (hd = true -> r <> Err -> fsts_get (cache st') id = Some (F id)) /\
      (nreads st <= nreads st')%nat.
  Proof.
    intros Hl Hc st' r. unfold dictionary_call, dictionary_gen, call_ok. cbn [fst snd].
    destruct hd.
    2:{ intros E. injection E as <- <-.
        repeat split; auto. discriminate. }
    rewrite Hl. cbn [ds_lock cache nreads].
    destruct (fsts_get (cache st) id) as [v|] eqn:Eg.
    - intros E. injection E as <- <-.
      cbn [ds_lock ds_read ds_unlock locked cache nreads].
      destruct (fsts_get_inv _ _ _ Hc Eg) as [-> _].
      repeat split; auto.
    - cbn [ds_lock ds_read ds_unlock ds_store locked cache nreads].
      destruct (ok (nreads st)); cbn [negb].
      2:{ intros E. injection E as <- <-.
          cbn [ds_lock ds_read ds_unlock locked cache nreads].
          repeat split; auto; try lia. intros _ H; contradiction H; reflexivity. }
      destruct (ok (S (nreads st))); cbn [negb].
      2:{ intros E. injection E as <- <-.
          cbn [ds_lock ds_read ds_unlock locked cache nreads].
          repeat split; auto; try lia. intros _ H; contradiction H; reflexivity. }
      destruct (loads_ok id) eqn:Eld; cbn [negb].
      2:{ intros E. injection E as <- <-.
          cbn [ds_lock ds_read ds_unlock locked cache nreads].
          repeat split; auto; try lia. intros _ H; contradiction H; reflexivity. }
      intros E. injection E as <- <-.
      cbn [ds_lock ds_read ds_unlock ds_store locked cache nreads].
      repeat split; auto; try lia.
      + apply fsts_set_inv; assumption.
      + intros k v Hk. rewrite fsts_get_set_other; [exact Hk|].
        intros ->. rewrite Eg in Hk. discriminate Hk.
      + intros _ _. apply fsts_get_set_same.
  Qed.

  (* a call on a cached field: no storage read, no change of state, success -
     whatever the oracle says *)
  Theorem cached_call_no_read (ok : nat -> bool) (st : dstate) (id v : N) :
    locked st = false -> cache_inv (cache st) ->
    fsts_get (cache st) id = Some v ->
    dictionary_call F loads_ok ok st id true = (st, Ok (Some (F id))).
  Proof.
    intros Hl Hc Hg. unfold dictionary_call, dictionary_gen.
    rewrite Hl. cbn [ds_lock cache]. rewrite Hg.
    destruct (fsts_get_inv _ _ _ Hc Hg) as [-> _].
    destruct st as [l c n]. cbn in Hl. subst l. reflexivity.
  Qed.

  (* ---- B1, sequences of calls ---- *)

  (* the state after a sequence of calls *)
  Definition final_state (st : dstate) (tr : list (dstate * result (option N))) : dstate :=
    last (map fst tr) st.

  Lemma last_cons {X} (l : list X) (a d : X) : last (a :: l) d = last l a.
  Proof.
    revert a d. induction l as [|b l IH]; intros a d; [reflexivity|].
    change (last (a :: b :: l) d) with (last (b :: l) d). rewrite !IH. reflexivity.
  Qed.

  Lemma final_state_cons (st : dstate) (x : dstate * result (option N))
        (tr : list (dstate * result (option N))) :
    final_state st (x :: tr) = final_state (fst x) tr.
  Proof. unfold final_state. cbn [map]. apply last_cons. Qed.

  Definition step_ok (sr : dstate * result (option N)) : Prop :=
    locked (fst sr) = false /\ cache_inv (cache (fst sr)) /\
    snd sr <> Block /\ snd sr <> Panic /\ snd sr <> OutOfFuel.

  Lemma call_ok_shape (c : N * bool) (r : result (option N)) :
    call_ok c r -> r <> Block /\ r <> Panic /\ r <> OutOfFuel.
  Proof.
    intros [-> | [[_ ->] | [_ ->]]]; repeat split; discriminate.
  Qed.

  Theorem dict_never_blocks (ok : nat -> bool) :
    forall (calls : list (N * bool)) (st : dstate),
      locked st = false -> cache_inv (cache st) ->
      let tr := dictionary_trace F loads_ok ok true st calls in
      Forall step_ok tr /\
      Forall2 call_ok calls (map snd tr) /\
      locked (final_state st tr) = false /\
      cache_inv (cache (final_state st tr)) /\
      (forall k v, fsts_get (cache st) k = Some v ->
                   fsts_get (cache (final_state st tr)) k = Some v).
  Proof.
    induction calls as [|[id hd] rest IH]; intros st Hl Hc; cbn [dictionary_trace].
    - cbn. repeat split; auto.
    - destruct (dictionary_gen F loads_ok ok true st id hd) as [st' r] eqn:E.
      destruct (dictionary_call_spec ok st id hd Hl Hc st' r E)
        as [Hl' [Hc' [Hr [Hmono _]]]].
      destruct (IH st' Hl' Hc') as [H1 [H2 [H3 [H4 H5]]]].
      cbn zeta in *. rewrite final_state_cons. cbn [fst snd map].
      repeat split; auto.
      + constructor; [|exact H1]. unfold step_ok. cbn [fst snd].
        destruct (call_ok_shape _ _ Hr) as [Ha [Hb Hd]]. repeat split; auto.
  Qed.

  (* from the state of a fresh segment *)
  Corollary dict_never_blocks_init (ok : nat -> bool) (calls : list (N * bool)) :
    let tr := dictionary_trace F loads_ok ok true ds_init calls in
    Forall step_ok tr /\ Forall2 call_ok calls (map snd tr) /\
    locked (final_state ds_init tr) = false.
  Proof.
    destruct (dict_never_blocks ok calls ds_init) as [H1 [H2 [H3 _]]];
      [reflexivity | constructor |].
    cbn zeta. auto.
  Qed.

  (* once a call on a field has succeeded, every later call on it - after any
     further calls, under any oracle - succeeds without a storage read *)
  Theorem dict_cached_later (ok ok' : nat -> bool) (st st1 : dstate) (id : N) (r : result (option N))
          (calls : list (N * bool)) :
    locked st = false -> cache_inv (cache st) ->
    dictionary_call F loads_ok ok st id true = (st1, r) -> r <> Err ->
    let st2 := final_state st1 (dictionary_trace F loads_ok ok true st1 calls) in
    dictionary_call F loads_ok ok' st2 id true = (st2, Ok (Some (F id))).
  Proof.
    intros Hl Hc E Hne.
    destruct (dictionary_call_spec ok st id true Hl Hc st1 r E)
      as [Hl1 [Hc1 [_ [_ [Hin _]]]]].
    specialize (Hin eq_refl Hne).
    destruct (dict_never_blocks ok calls st1 Hl1 Hc1) as [_ [_ [Hl2 [Hc2 Hmono]]]].
    cbn zeta in *.
    apply (cached_call_no_read ok' _ id (F id)); auto.
  Qed.

  (* ---- B3: the cache is observationally transparent when no read fails ---- *)

  Definition pure_result (c : N * bool) : result (option N) :=
    if snd c then (if loads_ok (fst c) then Ok (Some (F (fst c))) else Err) else Ok None.

  Lemma dictionary_call_all_ok (ok : nat -> bool) (st : dstate) (id : N) (hd : bool) :
    (forall k, ok k = true) ->
    locked st = false -> cache_inv (cache st) ->
    snd (dictionary_call F loads_ok ok st id hd) = pure_result (id, hd).
  Proof.
    intros Hok Hl Hc. unfold dictionary_call, dictionary_gen, pure_result. cbn [fst snd].
    destruct hd; [|reflexivity].
    rewrite Hl. cbn [ds_lock cache nreads].
    destruct (fsts_get (cache st) id) as [v|] eqn:Eg.
    - destruct (fsts_get_inv _ _ _ Hc Eg) as [-> ->]. reflexivity.
    - rewrite !Hok. cbn [negb]. destruct (loads_ok id); reflexivity.
  Qed.

  Lemma results_all_ok (ok : nat -> bool) :
    (forall k, ok k = true) ->
    forall (calls : list (N * bool)) (st : dstate),
      locked st = false -> cache_inv (cache st) ->
      dictionary_results F loads_ok ok st calls = map pure_result calls.
  Proof.
    intros Hok. unfold dictionary_results.
    induction calls as [|[id hd] rest IH]; intros st Hl Hc; cbn [dictionary_trace map]; [reflexivity|].
    destruct (dictionary_gen F loads_ok ok true st id hd) as [st' r] eqn:E.
    destruct (dictionary_call_spec ok st id hd Hl Hc st' r E) as [Hl' [Hc' _]].
    cbn [map snd]. f_equal.
    - pose proof (dictionary_call_all_ok ok st id hd Hok Hl Hc) as H.
      unfold dictionary_call in H. rewrite E in H. exact H.
    - apply IH; assumption.
  Qed.

  Lemma results_nocache_all_ok (ok : nat -> bool) :
    (forall k, ok k = true) ->
    forall (calls : list (N * bool)) (st : dstate),
      locked st = false ->
      dictionary_results_nocache F loads_ok ok st calls = map pure_result calls.
  Proof.
    intros Hok.
    induction calls as [|[id hd] rest IH]; intros st Hl;
      cbn [dictionary_results_nocache map]; [reflexivity|].
    set (st0 := mkDS (locked st) [] (nreads st)).
    assert (Hl0 : locked st0 = false) by exact Hl.
    assert (Hc0 : cache_inv (cache st0)) by constructor.
    destruct (dictionary_call F loads_ok ok st0 id hd) as [st' r] eqn:E.
    destruct (dictionary_call_spec ok st0 id hd Hl0 Hc0 st' r E) as [Hl' _].
    f_equal.
    - pose proof (dictionary_call_all_ok ok st0 id hd Hok Hl0 Hc0) as H.
      rewrite E in H. exact H.
    - apply IH; assumption.
  Qed.

  Theorem cache_transparent (ok : nat -> bool) (calls : list (N * bool)) (st : dstate) :
    (forall k, ok k = true) ->
    locked st = false -> cache_inv (cache st) ->
    dictionary_results F loads_ok ok st calls
    = dictionary_results_nocache F loads_ok ok st calls.
  Proof.
    intros Hok Hl Hc.
    rewrite (results_all_ok ok Hok calls st Hl Hc).
    rewrite (results_nocache_all_ok ok Hok calls st Hl). reflexivity.
  Qed.

  Corollary cache_transparent_init (ok : nat -> bool) (calls : list (N * bool)) :
    (forall k, ok k = true) ->
    dictionary_results F loads_ok ok ds_init calls
    = dictionary_results_nocache F loads_ok ok ds_init calls.
  Proof.
    intros Hok. apply cache_transparent; [exact Hok | reflexivity | constructor].
  Qed.

  (* ---- B2: the pinned version ---- *)

  (* a failing first read (or a failing second read) leaves the mutex held: the
     next call blocks.  The code of /repo returns the two errors and stays usable. *)
  Theorem dictionary_prefix_blocks :
    exists (ok : nat -> bool) (calls : list (N * bool)),
      length calls = 2%nat /\
      map snd (dictionary_trace F loads_ok ok false ds_init calls) = [Err; Block] /\
      map (fun sr => locked (fst sr)) (dictionary_trace F loads_ok ok false ds_init calls)
      = [true; true] /\
      map snd (dictionary_trace F loads_ok ok true ds_init calls) = [Err; Err] /\
      map (fun sr => locked (fst sr)) (dictionary_trace F loads_ok ok true ds_init calls)
      = [false; false].
  Proof.
    exists (fun _ => false), [(0, true); (0, true)].
    vm_compute. repeat split; reflexivity.
  Qed.

  Theorem dictionary_prefix_blocks_second_read :
    exists (ok : nat -> bool) (calls : list (N * bool)),
      map snd (dictionary_trace F loads_ok ok false ds_init calls) = [Err; Block] /\
      map snd (dictionary_trace F loads_ok ok true ds_init calls) = [Err; Err].
  Proof.
    exists (fun k => Nat.eqb k 0 || Nat.eqb k 2), [(3, true); (4, true)].
    vm_compute. split; reflexivity.
  Qed.
End DictionaryProofs.

(* ------------------------------------------------------------------ *)
(* examples for (B)                                                    *)
(* ------------------------------------------------------------------ *)

Module DictionaryModelExample.
  Definition F (id : N) : N := 1000 + id.
  Definition loads (id : N) : bool := negb (id =? 9).          (* field 9: corrupt FST bytes *)

  (* reads 0,1 succeed (field 2 loads), reads 2.. fail *)
  Definition ok (k : nat) : bool := Nat.ltb k 2.

  Definition calls : list (N * bool) :=
    [(2, true); (5, true); (2, true); (7, false); (5, true); (2, true)].

  (* field 2 is loaded while the storage works, later calls on it succeed from
     the cache although every read fails; field 5 keeps failing; field 7 has no FST *)
  Example trace_results :
    dictionary_results F loads ok ds_init calls
    = [Ok (Some 1002); Err; Ok (Some 1002); Ok None; Err; Ok (Some 1002)].
  Proof. vm_compute. reflexivity. Qed.

  Example trace_states :
    map fst (dictionary_trace F loads ok true ds_init calls)
    = [ mkDS false [(2, 1002)] 2; mkDS false [(2, 1002)] 3; mkDS false [(2, 1002)] 3;
        mkDS false [(2, 1002)] 3; mkDS false [(2, 1002)] 4; mkDS false [(2, 1002)] 4 ].
  Proof. vm_compute. reflexivity. Qed.

  (* the pinned version on the same calls: everything after the first failure blocks,
     even the cached field *)
  Example trace_prefix :
    map snd (dictionary_trace F loads ok false ds_init calls)
    = [Ok (Some 1002); Err; Block; Ok None; Block; Block].
  Proof. vm_compute. reflexivity. Qed.

  (* vellum.Load failing releases the mutex in both versions *)
  Example load_failure :
    map snd (dictionary_trace F loads (fun _ => true) false ds_init [(9, true); (9, true); (1, true)])
    = [Err; Err; Ok (Some 1001)].
  Proof. vm_compute. reflexivity. Qed.

  (* all reads succeed: with and without cache the same answers *)
  Example transparent :
    dictionary_results F loads (fun _ => true) ds_init calls
    = dictionary_results_nocache F loads (fun _ => true) ds_init calls /\
    dictionary_results F loads (fun _ => true) ds_init calls
    = [Ok (Some 1002); Ok (Some 1005); Ok (Some 1002); Ok None; Ok (Some 1005); Ok (Some 1002)].
  Proof. vm_compute. split; reflexivity. Qed.

  (* ... and not when reads fail: the cache then answers where the storage cannot *)
  Example not_transparent_under_failures :
    dictionary_results F loads ok ds_init calls
    <> dictionary_results_nocache F loads ok ds_init calls.
  Proof. vm_compute. discriminate. Qed.
End DictionaryModelExample.

(* SegmentOps_Proofs.v - proofs about theories/SegmentOps.v.

   (A) Segment.DocsMatchingTerms
     A1  docs_matching_correct / docs_matching_correct_orinto / _no_failure
     A2  docs_matching_spec          (= Spec.o_docsmatching on the dictionaries of an ASeg)
     A3  docs_matching_error         (a failing lookup gives Err, never a partial set)
     A4  docs_matching_total, docs_matching_never_panics, docs_matching_prefix_refuted
   (B) Segment.dictionary, the mutex and the FST cache
     B1  dictionary_call_spec, dict_never_blocks, dict_never_blocks_init,
         cached_call_no_read, dict_cached_later
     B2  dictionary_prefix_blocks (+ the repaired code on the same oracle)
     B3  cache_transparent

   Modelling assumptions, stated once:
   - the storage read inside PostingsList.read (general postings) succeeds; the
     only error path kept in (A) is the dictionary lookup, as an oracle per field;
   - a 1-hit FST value is recognised by OrInto through normBits1Hit != 0, as in
     the Go code; the statement with the plain documents of the FST value
     ([fst_docs]) needs [dicts_wf]: 1-hit values carry non-zero norm bits;
   - vellum's FST.Reader() has no failing path. *)
From Coq Require Import List NArith Bool Lia Sorting Permutation.
From Coq Require Import ZifyBool ZifyN ZifyNat.
From Ice Require Import Base Spec Dict Lock SegmentOps.
From IceProofs Require Import Sort_Proofs DocsMatching_Proofs Dict_Proofs Lock_Proofs.
Import ListNotations.
Open Scope N_scope.

(* ================================================================== *)
(* (A) DocsMatchingTerms                                               *)
(* ================================================================== *)

(* ---- the bitmap as a canonical list ---- *)

Lemma sd_nil : sort_dedup_N [] = [].
Proof. reflexivity. Qed.

Lemma sd_add (d : N) (acc : list N) :
  bm_add d (sort_dedup_N acc) = sort_dedup_N (acc ++ [d]).
Proof.
  unfold bm_add. apply sort_dedup_N_ext. intros x.
  cbn [In]. rewrite in_app_iff, sort_dedup_N_In. cbn [In]. tauto.
Qed.

Lemma sd_or (docs acc : list N) :
  bm_or docs (sort_dedup_N acc) = sort_dedup_N (acc ++ docs).
Proof.
  unfold bm_or. apply sort_dedup_N_ext. intros x.
  rewrite !in_app_iff, sort_dedup_N_In. tauto.
Qed.

(* ---- the dictionary lookup ---- *)

Lemma lookup_cases (dicts : seg_dicts) (fails : bytes -> bool) (f : bytes) :
  dictionary_lookup dicts fails f = Err \/
  dictionary_lookup dicts fails f = Ok (dictionary_of dicts f).
Proof.
  unfold dictionary_lookup, dictionary_of.
  destruct (fields_lookup dicts f) as [[m|]|]; auto.
  destruct (fails f); auto.
Qed.

Lemma lookup_not_err (dicts : seg_dicts) (fails : bytes -> bool) (f : bytes) :
  dictionary_lookup dicts fails f <> Err ->
  dictionary_lookup dicts fails f = Ok (dictionary_of dicts f).
Proof. destruct (lookup_cases dicts fails f); tauto. Qed.

Lemma lookup_no_failure (dicts : seg_dicts) (fails : bytes -> bool) (f : bytes) :
  fails f = false -> dictionary_lookup dicts fails f <> Err.
Proof.
  unfold dictionary_lookup. intros H.
  destruct (fields_lookup dicts f) as [[m|]|]; try discriminate.
  rewrite H. discriminate.
Qed.

(* the value the FST of a dictionary reference has for a term *)
Definition ref_val (d : DictRef) (t : bytes) : option FstVal :=
  match d with DictOf m => fst_get m t | _ => None end.

Definition opt_orinto_docs (o : option FstVal) : list N :=
  match o with Some v => orinto_docs v | None => [] end.

Lemma term_docs_orinto_eq (dicts : seg_dicts) (f t : bytes) :
  term_docs_orinto dicts (f, t) = opt_orinto_docs (ref_val (dictionary_of dicts f) t).
Proof.
  unfold term_docs_orinto, term_val, opt_orinto_docs, ref_val. cbn [fst snd].
  destruct (dictionary_of dicts f); reflexivity.
Qed.

(* postingsList + OrInto on a non-nil dictionary: the bitmap gains exactly the
   documents OrInto sees in the FST value of the term *)
Lemma or_into_step (d : DictRef) (t : bytes) (acc : list N) :
  d <> NoDict ->
  exists pl, postings_list d t = Ok pl /\
             or_into pl (sort_dedup_N acc)
             = sort_dedup_N (acc ++ opt_orinto_docs (ref_val d t)).
Proof.
  intros Hd. destruct d as [| |m]; [contradiction| |]; cbn [postings_list ref_val].
  - exists pl_zero. split; [reflexivity|].
    cbn [opt_orinto_docs]. rewrite app_nil_r. reflexivity.
  - destruct (fst_get m t) as [[dn nb|docs]|]; cbn [opt_orinto_docs orinto_docs].
    + exists (pl_read pl_zero (V1Hit dn nb)). split; [reflexivity|].
      unfold or_into, pl_read, pl_zero. cbn [pl_norm1 pl_doc1 pl_postings pl_except].
      destruct (nb =? 0); cbn [negb].
      * rewrite app_nil_r. reflexivity.
      * apply sd_add.
    + exists (pl_read pl_zero (VGen docs)). split; [reflexivity|].
      unfold or_into, pl_read, pl_zero. cbn [pl_norm1 pl_doc1 pl_postings pl_except].
      cbn [N.eqb negb]. apply sd_or.
    + exists pl_zero. split; [reflexivity|].
      rewrite app_nil_r. reflexivity.
Qed.

(* one iteration of the loop when the lookup (if any) succeeds: whatever the
   branch taken, the loop goes on with lastField = thisField and
   dict = the dictionary of thisField *)
Lemma dmt_loop_cons (skip : bool) (dicts : seg_dicts) (fails : bytes -> bool)
      (f t : bytes) (rest : list (bytes * bytes))
      (first : bool) (lastField : bytes) (dict : DictRef) (rv : list N) :
  dictionary_lookup dicts fails f = Ok (dictionary_of dicts f) ->
  (first = false -> dict = dictionary_of dicts lastField) ->
  dmt_loop skip dicts fails ((f, t) :: rest) first lastField dict rv =
  match dictionary_of dicts f, skip with
  | NoDict, true => dmt_loop skip dicts fails rest false f NoDict rv
  | d, _ =>
      match postings_list d t with
      | Ok pl => dmt_loop skip dicts fails rest false f d (or_into pl rv)
      | Err => Err
      | Panic => Panic
      | Block => Block
      | OutOfFuel => OutOfFuel
      end
  end.
Proof.
  intros Hl Hinv. cbn [dmt_loop].
  destruct (first || negb (beq f lastField)) eqn:Ec.
  - rewrite Hl. destruct (dictionary_of dicts f), skip; reflexivity.
  - apply orb_false_iff in Ec. destruct Ec as [Ef Eb].
    apply negb_false_iff in Eb. apply beq_eq in Eb. subst lastField.
    rewrite (Hinv Ef). destruct (dictionary_of dicts f), skip; reflexivity.
Qed.

Lemma dmt_loop_ok (dicts : seg_dicts) (fails : bytes -> bool) :
  forall (terms : list (bytes * bytes)) (first : bool) (lastField : bytes)
         (dict : DictRef) (acc : list N),
    (forall ft, In ft terms -> dictionary_lookup dicts fails (fst ft) <> Err) ->
    (first = false -> dict = dictionary_of dicts lastField) ->
    dmt_loop true dicts fails terms first lastField dict (sort_dedup_N acc)
    = Ok (sort_dedup_N (acc ++ all_docs_orinto dicts terms)).
Proof.
  induction terms as [|[f t] rest IH]; intros first lastField dict acc Hok Hinv.
  - cbn [dmt_loop all_docs_orinto flat_map']. rewrite app_nil_r. reflexivity.
  - assert (Hl : dictionary_lookup dicts fails f = Ok (dictionary_of dicts f)).
    { apply lookup_not_err. apply (Hok (f, t)). left; reflexivity. }
    assert (Hok' : forall ft, In ft rest -> dictionary_lookup dicts fails (fst ft) <> Err).
    { intros ft Hin. apply Hok. right; exact Hin. }
    rewrite (dmt_loop_cons true dicts fails f t rest first lastField dict _ Hl Hinv).
    unfold all_docs_orinto. cbn [flat_map'].
    rewrite term_docs_orinto_eq. fold (all_docs_orinto dicts rest).
    destruct (dictionary_of dicts f) as [| |m] eqn:Ed.
    + cbn [ref_val opt_orinto_docs app].
      apply IH; [exact Hok'|]. intros _. symmetry; exact Ed.
    + destruct (or_into_step EmptyDict t acc) as [pl [Hp Ho]]; [discriminate|].
      rewrite Hp, Ho, app_assoc.
      apply IH; [exact Hok'|]. intros _. symmetry; exact Ed.
    + destruct (or_into_step (DictOf m) t acc) as [pl [Hp Ho]]; [discriminate|].
      rewrite Hp, Ho, app_assoc.
      apply IH; [exact Hok'|]. intros _. symmetry; exact Ed.
Qed.

Lemma all_docs_orinto_nodicts (terms : list (bytes * bytes)) : all_docs_orinto [] terms = [].
Proof.
  unfold all_docs_orinto. induction terms as [|[f t] rest IH]; cbn [flat_map']; [reflexivity|].
  rewrite IH. reflexivity.
Qed.

(* A1, in the form that needs no side condition on the FST values *)
Theorem docs_matching_correct_orinto (dicts : seg_dicts) (fails : bytes -> bool)
        (terms : list (bytes * bytes)) :
  (forall ft, In ft terms -> dictionary_lookup dicts fails (fst ft) <> Err) ->
  docs_matching dicts fails terms = Ok (sort_dedup_N (all_docs_orinto dicts terms)).
Proof.
  intros Hok. unfold docs_matching, docs_matching_gen, bm_new.
  destruct dicts as [|e dicts'].
  - rewrite all_docs_orinto_nodicts. reflexivity.
  - assert (Hinv : true = false -> NoDict = dictionary_of (e :: dicts') []) by discriminate.
    exact (dmt_loop_ok (e :: dicts') fails terms true [] NoDict [] Hok Hinv).
Qed.

(* ---- well-formed dictionaries: OrInto sees the documents of the FST value ---- *)

Lemma fields_lookup_In (dicts : seg_dicts) (f : bytes) (o : option (list (bytes * FstVal))) :
  fields_lookup dicts f = Some o -> In (f, o) dicts.
Proof.
  induction dicts as [|[f' d] rest IH]; cbn [fields_lookup]; [discriminate|].
  destruct (beq f f') eqn:E.
  - intros H. injection H as ->. apply beq_eq in E. subst f'. left; reflexivity.
  - intros H. right. apply IH, H.
Qed.

Lemma fst_get_In (m : list (bytes * FstVal)) (t : bytes) (v : FstVal) :
  fst_get m t = Some v -> In (t, v) m.
Proof.
  induction m as [|[k w] rest IH]; cbn [fst_get]; [discriminate|].
  destruct (beq k t) eqn:E.
  - intros H. injection H as ->. apply beq_eq in E. subst k. left; reflexivity.
  - intros H. right. apply IH, H.
Qed.

Lemma term_val_wf (dicts : seg_dicts) (f t : bytes) (v : FstVal) :
  dicts_wf dicts = true -> term_val dicts f t = Some v -> val_wf v = true.
Proof.
  unfold dicts_wf, term_val, dictionary_of. intros Hwf.
  destruct (fields_lookup dicts f) as [[m|]|] eqn:El; try discriminate.
  intros Hg. apply fields_lookup_In in El. apply fst_get_In in Hg.
  rewrite forallb_forall in Hwf. specialize (Hwf _ El). cbn [snd] in Hwf.
  rewrite forallb_forall in Hwf. apply (Hwf _ Hg).
Qed.

Lemma orinto_docs_wf (v : FstVal) : val_wf v = true -> orinto_docs v = fst_docs v.
Proof.
  destruct v as [d nb|docs]; cbn [val_wf orinto_docs fst_docs]; [|reflexivity].
  intros H. apply negb_true_iff in H. rewrite H. reflexivity.
Qed.

Lemma flat_map'_ext {X Y} (g h : X -> list Y) (l : list X) :
  (forall x, In x l -> g x = h x) -> flat_map' g l = flat_map' h l.
Proof.
  induction l as [|a l IH]; cbn [flat_map']; intros H; [reflexivity|].
  rewrite (H a), IH; auto.
  - intros x Hx. apply H. right; exact Hx.
  - left; reflexivity.
Qed.

Lemma all_docs_orinto_wf (dicts : seg_dicts) (terms : list (bytes * bytes)) :
  dicts_wf dicts = true -> all_docs_orinto dicts terms = all_docs dicts terms.
Proof.
  intros Hwf. unfold all_docs_orinto, all_docs. apply flat_map'_ext.
  intros [f t] _. unfold term_docs_orinto, term_docs. cbn [fst snd].
  destruct (term_val dicts f t) as [v|] eqn:Ev; [|reflexivity].
  apply orinto_docs_wf. apply (term_val_wf dicts f t v Hwf Ev).
Qed.

(* A1: any list of (field, term) pairs - any order, repeats, unknown fields
   (the empty name included), unknown terms, field switches *)
Theorem docs_matching_correct (dicts : seg_dicts) (fails : bytes -> bool)
        (terms : list (bytes * bytes)) :
  dicts_wf dicts = true ->
  (forall ft, In ft terms -> dictionary_lookup dicts fails (fst ft) <> Err) ->
  docs_matching dicts fails terms = Ok (sort_dedup_N (all_docs dicts terms)).
Proof.
  intros Hwf Hok. rewrite <- (all_docs_orinto_wf dicts terms Hwf).
  apply docs_matching_correct_orinto, Hok.
Qed.

Corollary docs_matching_correct_no_failure (dicts : seg_dicts) (fails : bytes -> bool)
          (terms : list (bytes * bytes)) :
  dicts_wf dicts = true ->
  (forall f, fails f = false) ->
  docs_matching dicts fails terms = Ok (sort_dedup_N (all_docs dicts terms)).
Proof.
  intros Hwf Hnf. apply docs_matching_correct; [exact Hwf|].
  intros ft _. apply lookup_no_failure, Hnf.
Qed.

(* what [all_docs] means, read off the definitions *)
Lemma term_docs_unknown_field (dicts : seg_dicts) (f t : bytes) :
  fields_lookup dicts f = None -> term_docs dicts (f, t) = [].
Proof.
  unfold term_docs, term_val, dictionary_of. cbn [fst snd]. intros ->. reflexivity.
Qed.

Lemma term_docs_no_fst (dicts : seg_dicts) (f t : bytes) :
  fields_lookup dicts f = Some None -> term_docs dicts (f, t) = [].
Proof.
  unfold term_docs, term_val, dictionary_of. cbn [fst snd]. intros ->. reflexivity.
Qed.

Lemma term_docs_absent_term (dicts : seg_dicts) (f t : bytes) (m : list (bytes * FstVal)) :
  fields_lookup dicts f = Some (Some m) -> fst_get m t = None -> term_docs dicts (f, t) = [].
Proof.
  unfold term_docs, term_val, dictionary_of. cbn [fst snd]. intros -> ->. reflexivity.
Qed.

Lemma term_docs_present (dicts : seg_dicts) (f t : bytes) (m : list (bytes * FstVal)) (v : FstVal) :
  fields_lookup dicts f = Some (Some m) -> fst_get m t = Some v ->
  term_docs dicts (f, t) = fst_docs v.
Proof.
  unfold term_docs, term_val, dictionary_of. cbn [fst snd]. intros -> ->. reflexivity.
Qed.

(* the result is a set: ascending, no repetition, exactly the listed documents *)
Corollary docs_matching_set (dicts : seg_dicts) (fails : bytes -> bool)
          (terms : list (bytes * bytes)) (rv : list N) :
  dicts_wf dicts = true ->
  docs_matching dicts fails terms = Ok rv ->
  (forall ft, In ft terms -> dictionary_lookup dicts fails (fst ft) <> Err) ->
  strict_sorted_N rv /\
  forall d, In d rv <-> exists ft, In ft terms /\ In d (term_docs dicts ft).
Proof.
  intros Hwf Hr Hok. rewrite (docs_matching_correct dicts fails terms Hwf Hok) in Hr.
  injection Hr as <-. split; [apply sort_dedup_N_sorted|].
  intros d. rewrite sort_dedup_N_In. unfold all_docs. apply flat_map'_In.
Qed.

(* ------------------------------------------------------------------ *)
(* A2: the dictionaries of an abstract segment                         *)
(* ------------------------------------------------------------------ *)

Lemma fields_lookup_map (g : bytes -> option (list (bytes * FstVal))) (fs : list bytes) (f : bytes) :
  fields_lookup (map (fun x => (x, g x)) fs) f = if mem beq f fs then Some (g f) else None.
Proof.
  induction fs as [|a fs IH]; cbn [map fields_lookup mem]; [reflexivity|].
  destruct (beq f a) eqn:E; cbn [orb].
  - apply beq_eq in E. subst a. reflexivity.
  - exact IH.
Qed.

Lemma beq_sym (a b : bytes) : beq a b = beq b a.
Proof.
  destruct (beq a b) eqn:E1, (beq b a) eqn:E2; try reflexivity.
  - apply beq_eq in E1. subst b. rewrite beq_refl in E2. discriminate.
  - apply beq_eq in E2. subst b. rewrite beq_refl in E1. discriminate.
Qed.

Lemma fst_get_map (h : bytes -> FstVal) (ts : list bytes) (t : bytes) :
  fst_get (map (fun x => (x, h x)) ts) t = if mem beq t ts then Some (h t) else None.
Proof.
  induction ts as [|a ts IH]; cbn [map fst_get mem]; [reflexivity|].
  rewrite (beq_sym a t).
  destruct (beq t a) eqn:E; cbn [orb].
  - apply beq_eq in E. subst a. reflexivity.
  - exact IH.
Qed.

(* a term with a posting is a term of the field (converse of o_terms_have_postings) *)
Lemma postings_term_listed (A : ASeg) (f t : bytes) (d : N) :
  In d (map fst (o_postings A f t)) -> In t (o_terms A f).
Proof.
  intros H. apply postings_docs_iff in H.
  destruct H as [Hk [doc [df [Hn [_ [Hdf [v Hv]]]]]]].
  unfold o_terms. rewrite Hk. apply sort_dedup_bytes_In. apply flat_map'_In.
  exists doc. split.
  - rewrite nthN_nth_error in Hn. apply nth_error_In in Hn. exact Hn.
  - unfold doc_terms. rewrite Hdf. apply find_some in Hv. destruct Hv as [Hin Hb].
    apply beq_eq in Hb. apply in_map_iff. exists v. split; assumption.
Qed.

Lemma postings_unlisted_term (A : ASeg) (f t : bytes) :
  mem beq t (o_terms A f) = false -> o_postings A f t = [].
Proof.
  intros Hm. destruct (o_postings A f t) as [|p ps] eqn:E; [reflexivity|].
  exfalso. assert (Hin : In t (o_terms A f)).
  { apply (postings_term_listed A f t (fst p)). rewrite E. left; reflexivity. }
  apply (mem_In beq beq_eq) in Hin. rewrite Hin in Hm. discriminate.
Qed.

Lemma o_terms_unknown (A : ASeg) (f : bytes) : known_field A f = false -> o_terms A f = [].
Proof. intros H. unfold o_terms. rewrite H. reflexivity. Qed.

Lemma term_val_aseg (A : ASeg) (use1 : bytes -> bytes -> bool) (nofst : bytes -> bool) (f t : bytes) :
  term_val (dicts_of_aseg A use1 nofst) f t
  = if mem beq t (o_terms A f) then Some (aseg_val A use1 f t) else None.
Proof.
  unfold term_val, dictionary_of, dicts_of_aseg.
  rewrite (fields_lookup_map (aseg_dict A use1 nofst)).
  fold (known_field A f). destruct (known_field A f) eqn:Ek.
  - unfold aseg_dict. destruct (o_terms A f) as [|t0 ts] eqn:Et.
    + cbn [mem]. destruct (nofst f); reflexivity.
    + apply (fst_get_map (aseg_val A use1 f)).
  - rewrite (o_terms_unknown A f Ek). reflexivity.
Qed.

Lemma aseg_val_docs (A : ASeg) (use1 : bytes -> bytes -> bool) (f t : bytes) :
  orinto_docs (aseg_val A use1 f t) = map fst (o_postings A f t) /\
  fst_docs (aseg_val A use1 f t) = map fst (o_postings A f t) /\
  val_wf (aseg_val A use1 f t) = true.
Proof.
  unfold aseg_val.
  destruct (o_postings A f t) as [|[d [fr [nm ls]]] [|p ps]]; cbn [map fst];
    try (repeat split; reflexivity).
  destruct (use1 f t && negb (nm =? 0)) eqn:E; cbn [orinto_docs fst_docs val_wf];
    try (repeat split; reflexivity).
  apply andb_true_iff in E. destruct E as [_ E]. rewrite E.
  apply negb_true_iff in E. rewrite E. repeat split; reflexivity.
Qed.

Lemma term_docs_orinto_aseg (A : ASeg) (use1 : bytes -> bytes -> bool) (nofst : bytes -> bool)
      (ft : bytes * bytes) :
  term_docs_orinto (dicts_of_aseg A use1 nofst) ft = map fst (o_postings A (fst ft) (snd ft)).
Proof.
  destruct ft as [f t]. unfold term_docs_orinto. cbn [fst snd]. rewrite term_val_aseg.
  destruct (mem beq t (o_terms A f)) eqn:Em.
  - apply aseg_val_docs.
  - rewrite (postings_unlisted_term A f t Em). reflexivity.
Qed.

Lemma term_docs_aseg (A : ASeg) (use1 : bytes -> bytes -> bool) (nofst : bytes -> bool)
      (ft : bytes * bytes) :
  term_docs (dicts_of_aseg A use1 nofst) ft = map fst (o_postings A (fst ft) (snd ft)).
Proof.
  destruct ft as [f t]. unfold term_docs. cbn [fst snd]. rewrite term_val_aseg.
  destruct (mem beq t (o_terms A f)) eqn:Em.
  - apply aseg_val_docs.
  - rewrite (postings_unlisted_term A f t Em). reflexivity.
Qed.

(* the dictionaries built from an abstract segment are well formed and their
   term maps are strictly sorted, as an FST's keys are *)
Lemma dicts_of_aseg_wf (A : ASeg) (use1 : bytes -> bytes -> bool) (nofst : bytes -> bool) :
  dicts_wf (dicts_of_aseg A use1 nofst) = true.
Proof.
  unfold dicts_wf, dicts_of_aseg. apply forallb_forall. intros [f o] Hin.
  apply in_map_iff in Hin. destruct Hin as [f' [E _]]. injection E as -> <-.
  cbn [snd]. unfold aseg_dict.
  destruct (o_terms A f) as [|t0 ts]; [destruct (nofst f); reflexivity|].
  apply forallb_forall. intros [k v] Hin.
  apply in_map_iff in Hin. destruct Hin as [t [E _]]. injection E as <- <-.
  cbn [snd]. apply aseg_val_docs.
Qed.

Lemma dicts_of_aseg_sorted (A : ASeg) (use1 : bytes -> bytes -> bool) (nofst : bytes -> bool)
      (f : bytes) (m : list (bytes * FstVal)) :
  In (f, Some m) (dicts_of_aseg A use1 nofst) ->
  map fst m = o_terms A f /\ strict_sorted_bytes (map fst m).
Proof.
  unfold dicts_of_aseg. intros Hin.
  apply in_map_iff in Hin. destruct Hin as [f' [E _]]. injection E as -> E.
  assert (Hm : map fst m = o_terms A f).
  { unfold aseg_dict in E. destruct (o_terms A f) as [|t0 ts].
    - destruct (nofst f); [discriminate|]. injection E as <-. reflexivity.
    - injection E as <-. rewrite map_map. cbn [fst]. apply map_id. }
  split; [exact Hm|]. rewrite Hm. apply o_terms_sorted.
Qed.

(* A2: on the dictionaries of an abstract segment the function computes the
   specification Spec.o_docsmatching *)
Theorem docs_matching_spec (A : ASeg) (use1 : bytes -> bytes -> bool) (nofst : bytes -> bool)
        (fails : bytes -> bool) (terms : list (bytes * bytes)) :
  (forall ft, In ft terms ->
     dictionary_lookup (dicts_of_aseg A use1 nofst) fails (fst ft) <> Err) ->
  docs_matching (dicts_of_aseg A use1 nofst) fails terms = Ok (o_docsmatching A terms).
Proof.
  intros Hok. rewrite (docs_matching_correct_orinto _ fails terms Hok).
  unfold o_docsmatching, all_docs_orinto. do 2 f_equal.
  apply flat_map'_ext. intros ft _. apply term_docs_orinto_aseg.
Qed.

Corollary docs_matching_spec_no_failure (A : ASeg) (use1 : bytes -> bytes -> bool)
          (nofst : bytes -> bool) (fails : bytes -> bool) (terms : list (bytes * bytes)) :
  (forall f, fails f = false) ->
  docs_matching (dicts_of_aseg A use1 nofst) fails terms = Ok (o_docsmatching A terms).
Proof.
  intros Hnf. apply docs_matching_spec. intros ft _. apply lookup_no_failure, Hnf.
Qed.

(* ------------------------------------------------------------------ *)
(* A3: a failing lookup gives Err                                      *)
(* ------------------------------------------------------------------ *)

Lemma dmt_loop_err (dicts : seg_dicts) (fails : bytes -> bool) (f t : bytes) :
  dictionary_lookup dicts fails f = Err ->
  forall (terms : list (bytes * bytes)) (first : bool) (lastField : bytes)
         (dict : DictRef) (rv : list N),
    In (f, t) terms ->
    (first = false -> dictionary_lookup dicts fails lastField <> Err) ->
    dmt_loop true dicts fails terms first lastField dict rv = Err.
Proof.
  intros Hf. induction terms as [|[f' t'] rest IH]; intros first lastField dict rv Hin Hinv.
  - destruct Hin.
  - cbn [dmt_loop].
    destruct (first || negb (beq f' lastField)) eqn:Ec.
    + destruct (lookup_cases dicts fails f') as [He | Ho].
      * rewrite He. reflexivity.
      * rewrite Ho.
        assert (Hrest : In (f, t) rest).
        { destruct Hin as [E | Hin]; [|exact Hin].
          injection E as -> ->. rewrite Hf in Ho. discriminate. }
        assert (Hinv' : false = false -> dictionary_lookup dicts fails f' <> Err).
        { intros _. rewrite Ho. discriminate. }
        destruct (dictionary_of dicts f') as [| |m]; cbn [postings_list].
        -- apply IH; assumption.
        -- apply IH; assumption.
        -- destruct (fst_get m t'); apply IH; assumption.
    + apply orb_false_iff in Ec. destruct Ec as [Ef Eb].
      apply negb_false_iff in Eb. apply beq_eq in Eb. subst lastField.
      specialize (Hinv Ef).
      assert (Hrest : In (f, t) rest).
      { destruct Hin as [E | Hin]; [|exact Hin].
        injection E as -> ->. contradiction. }
      assert (Hinv' : false = false -> dictionary_lookup dicts fails f' <> Err).
      { intros _. exact Hinv. }
      destruct dict as [| |m]; cbn [postings_list].
      * apply IH; assumption.
      * apply IH; assumption.
      * destruct (fst_get m t'); apply IH; assumption.
Qed.

(* A3: if the lookup of the dictionary of some listed field fails, the call
   returns the error - never a partial set *)
Theorem docs_matching_error (dicts : seg_dicts) (fails : bytes -> bool)
        (terms : list (bytes * bytes)) (f t : bytes) :
  In (f, t) terms ->
  dictionary_lookup dicts fails f = Err ->
  docs_matching dicts fails terms = Err.
Proof.
  intros Hin Hf. unfold docs_matching, docs_matching_gen.
  destruct dicts as [|e dicts'].
  - cbn in Hf. discriminate Hf.
  - apply (dmt_loop_err (e :: dicts') fails f t Hf); [exact Hin | discriminate].
Qed.

(* the lookup fails exactly for a known field with an FST whose storage fails *)
Lemma lookup_err_iff (dicts : seg_dicts) (fails : bytes -> bool) (f : bytes) :
  dictionary_lookup dicts fails f = Err <->
  (exists m, fields_lookup dicts f = Some (Some m)) /\ fails f = true.
Proof.
  unfold dictionary_lookup. destruct (fields_lookup dicts f) as [[m|]|].
  - destruct (fails f); split.
    + intros _. split; [exists m; reflexivity | reflexivity].
    + reflexivity.
    + discriminate.
    + intros [_ H]. discriminate H.
  - split; [discriminate | intros [[m H] _]; discriminate H].
  - split; [discriminate | intros [[m H] _]; discriminate H].
Qed.

(* Ok and Err are decided by the listed fields alone *)
Corollary docs_matching_ok_iff (dicts : seg_dicts) (fails : bytes -> bool)
          (terms : list (bytes * bytes)) :
  (exists rv, docs_matching dicts fails terms = Ok rv) <->
  (forall ft, In ft terms -> dictionary_lookup dicts fails (fst ft) <> Err).
Proof.
  split.
  - intros [rv Hr] [f t] Hin He. cbn [fst] in He.
    rewrite (docs_matching_error dicts fails terms f t Hin He) in Hr. discriminate.
  - intros Hok. eexists. apply docs_matching_correct_orinto, Hok.
Qed.

(* ------------------------------------------------------------------ *)
(* A4: no panic                                                        *)
(* ------------------------------------------------------------------ *)

Lemma dmt_loop_total (dicts : seg_dicts) (fails : bytes -> bool) :
  forall (terms : list (bytes * bytes)) (first : bool) (lastField : bytes)
         (dict : DictRef) (rv : list N),
    (exists rv', dmt_loop true dicts fails terms first lastField dict rv = Ok rv') \/
    dmt_loop true dicts fails terms first lastField dict rv = Err.
Proof.
  induction terms as [|[f t] rest IH]; intros first lastField dict rv.
  - left. exists rv. reflexivity.
  - cbn [dmt_loop].
    destruct (first || negb (beq f lastField)).
    + destruct (lookup_cases dicts fails f) as [He | Ho].
      * rewrite He. right; reflexivity.
      * rewrite Ho. destruct (dictionary_of dicts f) as [| |m]; cbn [postings_list].
        -- apply IH.
        -- apply IH.
        -- destruct (fst_get m t); apply IH.
    + destruct dict as [| |m]; cbn [postings_list].
      * apply IH.
      * apply IH.
      * destruct (fst_get m t); apply IH.
Qed.

(* A4: for every input the call returns a bitmap or an error *)
Theorem docs_matching_total (dicts : seg_dicts) (fails : bytes -> bool)
        (terms : list (bytes * bytes)) :
  (exists rv, docs_matching dicts fails terms = Ok rv) \/
  docs_matching dicts fails terms = Err.
Proof.
  unfold docs_matching, docs_matching_gen. destruct dicts as [|e dicts'].
  - left. eexists; reflexivity.
  - apply dmt_loop_total.
Qed.

Corollary docs_matching_never_panics (dicts : seg_dicts) (fails : bytes -> bool)
          (terms : list (bytes * bytes)) :
  docs_matching dicts fails terms <> Panic /\
  docs_matching dicts fails terms <> Block /\
  docs_matching dicts fails terms <> OutOfFuel.
Proof.
  destruct (docs_matching_total dicts fails terms) as [[rv H] | H]; rewrite H;
    repeat split; discriminate.
Qed.

(* the nil dictionary is skipped: an unknown field first, then a known one *)
Corollary docs_matching_unknown_first (dicts : seg_dicts) (fails : bytes -> bool)
          (u t : bytes) (terms : list (bytes * bytes)) :
  dicts_wf dicts = true ->
  fields_lookup dicts u = None ->
  (forall ft, In ft terms -> dictionary_lookup dicts fails (fst ft) <> Err) ->
  docs_matching dicts fails ((u, t) :: terms) = docs_matching dicts fails terms.
Proof.
  intros Hwf Hu Hok.
  rewrite (docs_matching_correct dicts fails terms Hwf Hok).
  rewrite (docs_matching_correct dicts fails ((u, t) :: terms) Hwf).
  - unfold all_docs. cbn [flat_map']. rewrite (term_docs_unknown_field dicts u t Hu). reflexivity.
  - intros ft [<- | Hin]; [|apply Hok, Hin].
    cbn [fst]. unfold dictionary_lookup. rewrite Hu. discriminate.
Qed.

(* the pinned code (no  if dict == nil { continue }) panics on a list that
   starts with a field the segment does not have - here the empty name *)
Theorem docs_matching_prefix_refuted :
  exists (dicts : seg_dicts) (terms : list (bytes * bytes)),
    dicts_wf dicts = true /\
    docs_matching_prefix dicts (fun _ => false) terms = Panic /\
    docs_matching dicts (fun _ => false) terms = Ok [7].
Proof.
  exists [([97], Some [([120], V1Hit 7 1)])], [([], [120]); ([97], [120])].
  vm_compute. repeat split; reflexivity.
Qed.

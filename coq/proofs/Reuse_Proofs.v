(* Reuse_Proofs.v - theorems about theories/Reuse.v:
     (C) the per-term record round trip and its exact look-ahead condition,
     (B) the reused Posting struct of an iterator,
     (A) reuse of PostingsList / PostingsIterator objects and the two shared
         empty objects. *)
From Coq Require Import List NArith ZArith PeanoNat Bool Lia.
From Ice Require Import Base Varint Chunk Spec Postings Dict Container Reuse.
From IceProofs Require Import Sort_Proofs Varint_Proofs Dict_Proofs Iterator_Proofs Container_Proofs.
Import ListNotations.
Open Scope N_scope.
Require Import ZifyBool ZifyN ZifyNat.
Ltac Zify.zify_post_hook ::= Z.div_mod_to_equations.

Local Notation two63 := Container.two63.

Lemma two64_value : two64 = 18446744073709551616.
Proof. reflexivity. Qed.

(* ================================================================== *)
(* (C) the per-term record                                             *)
(* ================================================================== *)

(* the delta the writer stores and the reader undoes *)
Definition loc_delta (tf loc : N) : N :=
  if (0 <? loc) && (0 <? tf) then u64_sub loc tf else loc.

Lemma term_record_unfold (tf loc : N) (rb : bytes) :
  term_record tf loc rb
  = put_uvarint tf ++ put_uvarint (loc_delta tf loc) ++ put_uvarint (lenN rb) ++ rb.
Proof. reflexivity. Qed.

Lemma loc_delta_lt (tf loc : N) : loc < two64 -> loc_delta tf loc < two64.
Proof.
  intros H. unfold loc_delta, u64_sub, wrap64. rewrite two64_value in *.
  destruct ((0 <? loc) && (0 <? tf)); lia.
Qed.

(* the reader's `if p.locOffset > 0 && p.freqOffset > 0 { p.locOffset += p.freqOffset }`
   undoes the delta exactly when the two offsets are not the same positive number *)
Lemma loc_delta_undo (tf loc : N) :
  tf < two64 -> loc < two64 -> (loc = 0 \/ tf = 0 \/ loc <> tf) ->
  (if (0 <? loc_delta tf loc) && (0 <? tf) then wrap64 (loc_delta tf loc + tf)
   else loc_delta tf loc) = loc.
Proof.
  intros Htf Hloc Hne. unfold loc_delta, u64_sub, wrap64. rewrite two64_value in *.
  destruct ((0 <? loc) && (0 <? tf)) eqn:E.
  - assert (0 < loc /\ 0 < tf) as [H1 H2] by lia.
    destruct (N.lt_ge_cases loc tf) as [Hlt | Hge].
    + replace ((loc + 18446744073709551616 - tf) mod 18446744073709551616)
        with (loc + 18446744073709551616 - tf).
      2:{ symmetry. apply N.mod_small. lia. }
      replace ((0 <? loc + 18446744073709551616 - tf) && (0 <? tf)) with true by lia.
      replace (loc + 18446744073709551616 - tf + tf) with (loc + 1 * 18446744073709551616) by lia.
      rewrite N.mod_add by lia. apply N.mod_small. lia.
    + replace ((loc + 18446744073709551616 - tf) mod 18446744073709551616) with (loc - tf).
      2:{ replace (loc + 18446744073709551616 - tf) with (loc - tf + 1 * 18446744073709551616) by lia.
          rewrite N.mod_add by lia. symmetry. apply N.mod_small. lia. }
      replace ((0 <? loc - tf) && (0 <? tf)) with true by lia.
      replace (loc - tf + tf) with loc by lia. apply N.mod_small. lia.
  - rewrite E. reflexivity.
Qed.

(* The exact side condition: the third look-ahead window (the one for the
   length of the roaring bytes) must end inside the data.  [after] is the
   number of bytes that follow the record inside the data section. *)
Definition record_lookahead_ok (rb : bytes) (after : N) : Prop :=
  10 <= lenN (put_uvarint (lenN rb)) + lenN rb + after.

Lemma record_lookahead_after_9 (rb : bytes) (after : N) : 9 <= after -> record_lookahead_ok rb after.
Proof. intros H. unfold record_lookahead_ok. pose proof (put_uvarint_lenN_pos (lenN rb)). lia. Qed.

Lemma record_lookahead_roaring_9 (rb : bytes) (after : N) : 9 <= lenN rb -> record_lookahead_ok rb after.
Proof. intros H. unfold record_lookahead_ok. pose proof (put_uvarint_lenN_pos (lenN rb)). lia. Qed.

(* general form: the offsets need only differ when both are positive *)
Theorem term_record_roundtrip_gen (pre post : bytes) (tf loc : N) (rb : bytes) :
  let data := pre ++ term_record tf loc rb ++ post in
  lenN data < two63 ->
  tf < two64 -> loc < two64 -> lenN rb < two64 ->
  (loc = 0 \/ tf = 0 \/ loc <> tf) ->
  record_lookahead_ok rb (lenN post) ->
  read_term_record data (lenN pre) = Ok (tf, loc, rb).
Proof.
  cbn zeta. rewrite term_record_unfold.
  set (dl := loc_delta tf loc).
  set (data := pre ++ (put_uvarint tf ++ put_uvarint dl ++ put_uvarint (lenN rb) ++ rb) ++ post).
  intros Hlen Htf Hloc Hrb Hne Hla. unfold record_lookahead_ok in Hla.
  assert (Hdl : dl < two64) by (apply loc_delta_lt; exact Hloc).
  assert (Hd : data = pre ++ put_uvarint tf ++ put_uvarint dl ++ put_uvarint (lenN rb) ++ rb ++ post)
    by (unfold data; rewrite <- !app_assoc; reflexivity).
  pose proof Container_Proofs.two63_val as V63. pose proof two64_value as V64.
  pose proof (put_uvarint_lenN_10 tf Htf) as L1.
  pose proof (put_uvarint_lenN_10 dl Hdl) as L2.
  pose proof (put_uvarint_lenN_10 (lenN rb) Hrb) as L3.
  pose proof (put_uvarint_lenN_pos tf) as P1.
  pose proof (put_uvarint_lenN_pos dl) as P2.
  pose proof (put_uvarint_lenN_pos (lenN rb)) as P3.
  assert (HL : lenN data = lenN pre + (lenN (put_uvarint tf) + (lenN (put_uvarint dl) +
                 (lenN (put_uvarint (lenN rb)) + (lenN rb + lenN post)))))
    by (rewrite Hd, !lenN_app; reflexivity).
  unfold read_term_record.
  (* freqOffset *)
  rewrite N.add_0_r. unwrap64.
  destruct (read_window data pre (put_uvarint tf)
              (put_uvarint dl ++ put_uvarint (lenN rb) ++ rb ++ post)
              (lenN pre) (lenN pre + 10) Hd Hlen eq_refl eq_refl L1) as [r1 R1]; [lia |].
  rewrite R1. cbn [rbind]. rewrite go_uvarint_put by exact Htf.
  rewrite N.add_0_l, u64_of_int_of_N by lia. unwrap64.
  (* locOffset *)
  destruct (read_window data (pre ++ put_uvarint tf) (put_uvarint dl)
              (put_uvarint (lenN rb) ++ rb ++ post)
              (lenN pre + lenN (put_uvarint tf)) (lenN pre + lenN (put_uvarint tf) + 10))
    as [r2 R2].
  { rewrite Hd, <- !app_assoc. reflexivity. }
  { exact Hlen. }
  { rewrite lenN_app. reflexivity. }
  { reflexivity. }
  { exact L2. }
  { lia. }
  rewrite R2. cbn [rbind]. rewrite go_uvarint_put by exact Hdl.
  rewrite u64_of_int_of_N by lia. unwrap64.
  (* postingsLen *)
  destruct (read_window data (pre ++ put_uvarint tf ++ put_uvarint dl) (put_uvarint (lenN rb))
              (rb ++ post)
              (lenN pre + (lenN (put_uvarint tf) + lenN (put_uvarint dl)))
              (lenN pre + (lenN (put_uvarint tf) + lenN (put_uvarint dl)) + 10))
    as [r3 R3].
  { rewrite Hd, <- !app_assoc. reflexivity. }
  { exact Hlen. }
  { rewrite !lenN_app. reflexivity. }
  { reflexivity. }
  { exact L3. }
  { lia. }
  rewrite R3. cbn [rbind]. rewrite go_uvarint_put by exact Hrb.
  rewrite u64_of_int_of_N by lia. unwrap64.
  (* the roaring bytes *)
  rewrite (read_at data (pre ++ put_uvarint tf ++ put_uvarint dl ++ put_uvarint (lenN rb)) rb post).
  2:{ rewrite Hd, <- !app_assoc. reflexivity. }
  2:{ exact Hlen. }
  2:{ rewrite !lenN_app. lia. }
  2:{ rewrite !lenN_app. lia. }
  cbn [rbind]. unfold dl. rewrite (loc_delta_undo tf loc Htf Hloc Hne). reflexivity.
Qed.

(* (C1) in the form asked for: what the writer guarantees is locOffset = 0
   (no locations) or locOffset > tfOffset (locEncoder.writeAt takes w.Count()
   after tfEncoder.writeAt has written at least one byte) *)
Theorem term_record_roundtrip (pre post : bytes) (tf loc : N) (rb : bytes) :
  let data := pre ++ term_record tf loc rb ++ post in
  lenN data < two63 ->
  tf < two64 -> loc < two64 -> lenN rb < two64 ->
  (loc = 0 \/ tf = 0 \/ tf < loc) ->
  record_lookahead_ok rb (lenN post) ->
  read_term_record data (lenN pre) = Ok (tf, loc, rb).
Proof.
  cbn zeta. intros Hlen Htf Hloc Hrb Hw Hla.
  apply term_record_roundtrip_gen; try assumption. lia.
Qed.

(* under the writer's guarantee the stored delta is the plain difference *)
Lemma loc_delta_plain (tf loc : N) :
  loc < two64 -> 0 < tf -> tf < loc -> loc_delta tf loc = loc - tf.
Proof.
  intros Hloc H0 Hlt. unfold loc_delta. replace ((0 <? loc) && (0 <? tf)) with true by lia.
  apply u64_sub_small; lia.
Qed.

(* the side condition is exact: without it the third window leaves the data *)
Theorem term_record_lookahead_needed (pre post : bytes) (tf loc : N) (rb : bytes) :
  let data := pre ++ term_record tf loc rb ++ post in
  lenN data < two63 ->
  tf < two64 -> loc < two64 -> lenN rb < two64 ->
  ~ record_lookahead_ok rb (lenN post) ->
  read_term_record data (lenN pre) = Err.
Proof.
  cbn zeta. rewrite term_record_unfold.
  set (dl := loc_delta tf loc).
  set (data := pre ++ (put_uvarint tf ++ put_uvarint dl ++ put_uvarint (lenN rb) ++ rb) ++ post).
  intros Hlen Htf Hloc Hrb Hla. unfold record_lookahead_ok in Hla.
  assert (Hdl : dl < two64) by (apply loc_delta_lt; exact Hloc).
  assert (Hd : data = pre ++ put_uvarint tf ++ put_uvarint dl ++ put_uvarint (lenN rb) ++ rb ++ post)
    by (unfold data; rewrite <- !app_assoc; reflexivity).
  pose proof Container_Proofs.two63_val as V63. pose proof two64_value as V64.
  pose proof (put_uvarint_lenN_10 tf Htf) as L1.
  pose proof (put_uvarint_lenN_10 dl Hdl) as L2.
  pose proof (put_uvarint_lenN_pos tf) as P1.
  pose proof (put_uvarint_lenN_pos dl) as P2.
  assert (HL : lenN data = lenN pre + (lenN (put_uvarint tf) + (lenN (put_uvarint dl) +
                 (lenN (put_uvarint (lenN rb)) + (lenN rb + lenN post)))))
    by (rewrite Hd, !lenN_app; reflexivity).
  unfold read_term_record. rewrite N.add_0_r. unwrap64.
  (* is the first window inside? *)
  destruct (N.le_gt_cases (lenN pre + 10) (lenN data)) as [W1 | W1].
  2:{ rewrite (read_window_past data (lenN pre) (lenN pre + 10) Hlen) by lia. reflexivity. }
  destruct (read_window data pre (put_uvarint tf)
              (put_uvarint dl ++ put_uvarint (lenN rb) ++ rb ++ post)
              (lenN pre) (lenN pre + 10) Hd Hlen eq_refl eq_refl L1 W1) as [r1 R1].
  rewrite R1. cbn [rbind]. rewrite go_uvarint_put by exact Htf.
  rewrite N.add_0_l, u64_of_int_of_N by lia. unwrap64.
  (* the second *)
  destruct (N.le_gt_cases (lenN pre + lenN (put_uvarint tf) + 10) (lenN data)) as [W2 | W2].
  2:{ rewrite (read_window_past data (lenN pre + lenN (put_uvarint tf))
                 (lenN pre + lenN (put_uvarint tf) + 10) Hlen) by lia. reflexivity. }
  destruct (read_window data (pre ++ put_uvarint tf) (put_uvarint dl)
              (put_uvarint (lenN rb) ++ rb ++ post)
              (lenN pre + lenN (put_uvarint tf)) (lenN pre + lenN (put_uvarint tf) + 10))
    as [r2 R2].
  { rewrite Hd, <- !app_assoc. reflexivity. }
  { exact Hlen. }
  { rewrite lenN_app. reflexivity. }
  { reflexivity. }
  { exact L2. }
  { exact W2. }
  rewrite R2. cbn [rbind]. rewrite go_uvarint_put by exact Hdl.
  rewrite u64_of_int_of_N by lia. unwrap64.
  (* the third is outside *)
  rewrite (read_window_past data (lenN pre + (lenN (put_uvarint tf) + lenN (put_uvarint dl)))
             (lenN pre + (lenN (put_uvarint tf) + lenN (put_uvarint dl)) + 10) Hlen) by lia.
  reflexivity.
Qed.

(* the one pair of offsets the format cannot represent: equal and positive.
   The delta is 0, the reader takes it for "no locations". *)
Theorem term_record_equal_offsets_lost (pre post : bytes) (tf : N) (rb : bytes) :
  let data := pre ++ term_record tf tf rb ++ post in
  lenN data < two63 -> 0 < tf -> tf < two64 -> lenN rb < two64 ->
  record_lookahead_ok rb (lenN post) ->
  read_term_record data (lenN pre) = Ok (tf, 0, rb).
Proof.
  cbn zeta. intros Hlen H0 Htf Hrb Hla.
  assert (E : term_record tf tf rb = term_record tf 0 rb).
  { unfold term_record. replace ((0 <? tf) && (0 <? tf)) with true by lia.
    replace ((0 <? 0) && (0 <? tf)) with false by lia.
    unfold u64_sub, wrap64. rewrite two64_value in *.
    replace (tf + 18446744073709551616 - tf) with (0 + 1 * 18446744073709551616) by lia.
    rewrite N.mod_add by lia. reflexivity. }
  rewrite E in *. apply term_record_roundtrip; try assumption; try lia.
Qed.

(* In ice's layout a term record lies in the dictionaries part of the data
   section (Container.segment_data, argument [dicts]); the doc-value locations
   and the fields section follow, and the fields section alone is at least 12
   bytes per field ("_id" is always there).  So the look-ahead condition holds
   for every term record of every segment ice writes. *)
Lemma record_lookahead_before_fields (rb mid : bytes) (base : N) (fields : list field_rec) :
  fields <> [] -> record_lookahead_ok rb (lenN (mid ++ fst (persist_fields base fields))).
Proof.
  intros Hne. apply record_lookahead_after_9. rewrite lenN_app.
  pose proof (persist_fields_min base fields) as H.
  destruct fields as [| f fields]; [congruence |]. rewrite Stored_Proofs.lenN_cons in H. lia.
Qed.

Theorem term_record_in_segment (blocks : list bytes) (docOffsets : list N) (d1 d2 : bytes)
        (locs : list (N * N)) (fields : list field_rec) (tf loc : N) (rb : bytes) :
  let dicts := d1 ++ term_record tf loc rb ++ d2 in
  let data := fst (segment_data blocks docOffsets dicts locs fields) in
  (* postingsOffset = w.Count() when the record is written *)
  let postingsOffset :=
    lenN ((flat_map' (fun b => b) blocks ++ stored_trailer (0 :: coder_offsets 0 blocks))
            ++ stored_index docOffsets ++ d1) in
  lenN data < two63 -> fields <> [] ->
  tf < two64 -> loc < two64 -> lenN rb < two64 ->
  (loc = 0 \/ tf = 0 \/ tf < loc) ->
  read_term_record data postingsOffset = Ok (tf, loc, rb).
Proof.
  cbn zeta. unfold segment_data, persist_fields. cbn [fst snd].
  set (st := flat_map' (fun b => b) blocks ++ stored_trailer (0 :: coder_offsets 0 blocks)).
  set (pre := st ++ stored_index docOffsets ++ d1).
  set (p2 := (st ++ stored_index docOffsets ++ d1 ++ term_record tf loc rb ++ d2) ++ write_dv_locs locs).
  set (fsec := fields_records fields ++ fields_index (fields_offsets (lenN p2) fields)).
  assert (Hfsec : fsec = fst (persist_fields (lenN p2) fields)) by reflexivity.
  assert (E : p2 ++ fsec = pre ++ term_record tf loc rb ++ (d2 ++ write_dv_locs locs ++ fsec))
    by (unfold p2, pre; rewrite <- !app_assoc; reflexivity).
  rewrite E. intros Hlen Hne Htf Hloc Hrb Hw.
  apply term_record_roundtrip; try assumption.
  rewrite Hfsec, app_assoc. apply record_lookahead_before_fields. exact Hne.
Qed.

(* ---- examples ---- *)

(* offsets 300 and 450: the delta 150 is stored; 3 roaring bytes; exactly the
   6 bytes that make the third window fit *)
Example ex_term_record :
  term_record 300 450 [58; 48; 0] = [172; 2; 150; 1; 3; 58; 48; 0].
Proof. vm_compute. reflexivity. Qed.

Example ex_term_record_read :
  read_term_record ([9; 9] ++ term_record 300 450 [58; 48; 0] ++ [1; 2; 3; 4; 5; 6]) 2
  = Ok (300, 450, [58; 48; 0]).
Proof. vm_compute. reflexivity. Qed.

(* one byte less after the record: the third window leaves the data *)
Example ex_term_record_short :
  read_term_record ([9; 9] ++ term_record 300 450 [58; 48; 0] ++ [1; 2; 3; 4; 5]) 2 = Err.
Proof. vm_compute. reflexivity. Qed.

(* no locations: locOffset 0 is stored as it is *)
Example ex_term_record_noloc :
  read_term_record (term_record 300 0 [58; 48; 0] ++ [0; 0; 0; 0; 0; 0; 0; 0; 0; 0]) 0
  = Ok (300, 0, [58; 48; 0]).
Proof. vm_compute. reflexivity. Qed.

(* equal positive offsets are read back as "no locations" (never written by ice) *)
Example ex_term_record_equal :
  read_term_record (term_record 300 300 [58; 48; 0] ++ [0; 0; 0; 0; 0; 0; 0; 0; 0; 0]) 0
  = Ok (300, 0, [58; 48; 0]).
Proof. vm_compute. reflexivity. Qed.

(* ================================================================== *)
(* (B) the reused Posting struct                                       *)
(* ================================================================== *)

(* (B1) whatever the struct held before, the caller gets exactly the posting of
   the cursor model, and the iterator moves as in the cursor model *)
Theorem buf_step_equals_model (i : It) (b : nextbuf) (d : N) :
  delivered (step_with_buf i b d) = next_at_or_after i d.
Proof.
  unfold step_with_buf, step_with_buf_gen, next_at_or_after, delivered.
  destruct (next_docnum i d) as [[i1 [n |]] | | | |]; cbn [rbind]; try reflexivity.
  destruct (negb (it_fn i1)); cbn [rbind]; [reflexivity |].
  unfold read_freq_norm_has_locs.
  destruct (negb (it_norm1 i1 =? 0)); cbn [rbind].
  - rewrite andb_false_r. reflexivity.
  - destruct (read_uv (it_fr i1)) as [[fhl fr1] | | | |]; cbn [rbind]; try reflexivity.
    destruct (read_uv fr1) as [[nb fr2] | | | |]; cbn [rbind]; try reflexivity.
    destruct (it_locs (set_fr i1 fr2) && N.odd fhl); cbn [rbind]; [| reflexivity].
    destruct (read_uv (it_lr (set_fr i1 fr2))) as [[nlb lr1] | | | |]; cbn [rbind]; try reflexivity.
    destruct (read_locs (N.to_nat (N.shiftr fhl 1)) (it_fields (set_fr i1 fr2)) lr1 (dec_len lr1) nlb)
      as [[ls lr2] | | | |]; cbn [rbind]; reflexivity.
Qed.

(* the iterator part alone does not depend on the struct at all *)
Lemma buf_step_it_independent (c : bool) (i : It) (b b' : nextbuf) (d : N) :
  match step_with_buf_gen c i b d, step_with_buf_gen c i b' d with
  | Ok (i1, _, e1), Ok (i2, _, e2) => i1 = i2 /\ e1 = e2
  | Err, Err | Panic, Panic | Block, Block | OutOfFuel, OutOfFuel => True
  | _, _ => False
  end.
Proof.
  unfold step_with_buf_gen.
  destruct (next_docnum i d) as [[i1 [n |]] | | | |]; cbn [rbind]; auto.
  destruct (negb (it_fn i1)); cbn [rbind]; auto.
  destruct (read_freq_norm_has_locs i1) as [[[[fq nm] hl] i2] | | | |]; cbn [rbind]; auto.
  destruct (it_locs i2 && hl); cbn [rbind]; auto.
  destruct (read_uv (it_lr i2)) as [[nlb lr1] | | | |]; cbn [rbind]; auto.
  destruct (read_locs (N.to_nat fq) (it_fields i2) lr1 (dec_len lr1) nlb)
    as [[ls lr2] | | | |]; cbn [rbind]; auto.
Qed.

(* whole runs: Next/Advance sequences through the struct are the runs of the
   cursor model, hence (Iterator_Proofs.iter_refines) of the specification *)
Theorem buf_run_equals_model (ops : list iter_op) : forall (i : It) (b : nextbuf),
  buf_run true i b ops = it_run i ops.
Proof.
  induction ops as [| op ops IH]; intros i b; [reflexivity |].
  cbn [buf_run it_run]. rewrite it_step_d_of.
  change (match op with INext => 0 | IAdvance d => d end) with (d_of op).
  pose proof (buf_step_equals_model i b (d_of op)) as H.
  unfold step_with_buf in H.
  destruct (step_with_buf_gen true i b (d_of op)) as [[[i' b'] ex] | | | |];
    cbn [delivered rbind] in H; rewrite <- H; cbn [rbind]; try reflexivity.
  rewrite IH. reflexivity.
Qed.

(* (B2) without `i.next = Posting{}`: two postings, the first with a location,
   the second without; locations are asked for *)
Definition nc_fields : list bytes := [[102]].
Definition nc_ps : list EPosting :=
  [ (0, (1, (1065353216, [(0, (7, (20, 25)))])));
    (1, (2, (1056964608, []))) ].
Definition nc_it : It := it_init (encode_gen 4 1 nc_ps) None true true nc_fields None.

(* the cursor model (and the real code) deliver the second posting without locations *)
Example nc_model :
  it_run nc_it [INext; INext; INext]
  = Ok [ Some (0, (1, (1065353216, [([102], (7, (20, 25)))])));
         Some (1, (2, (1056964608, [])));
         None ].
Proof. vm_compute. reflexivity. Qed.

Example nc_clear :
  buf_run true nc_it nb_zero [INext; INext; INext]
  = Ok [ Some (0, (1, (1065353216, [([102], (7, (20, 25)))])));
         Some (1, (2, (1056964608, [])));
         None ].
Proof. vm_compute. reflexivity. Qed.

Theorem noclear_refuted :
  buf_run false nc_it nb_zero [INext; INext; INext]
  = Ok [ Some (0, (1, (1065353216, [([102], (7, (20, 25)))])));
         Some (1, (2, (1056964608, [([102], (7, (20, 25)))])));   (* the first posting's location *)
         None ]
  /\ buf_run false nc_it nb_zero [INext; INext; INext] <> it_run nc_it [INext; INext; INext].
Proof. split; [vm_compute; reflexivity | vm_compute; discriminate]. Qed.

(* the same, step by step: the second call returns the struct still holding
   the locations the first call put there *)
Example noclear_second_step :
  exists i1 b1 i2 b2,
    step_with_buf_noclear nc_it nb_zero 0 = Ok (i1, b1, true) /\
    nb_locs b1 = [([102], (7, (20, 25)))] /\
    step_with_buf_noclear i1 b1 0 = Ok (i2, b2, true) /\
    nb_posting b2 = (1, (2, (1056964608, [([102], (7, (20, 25)))]))) /\
    next_at_or_after i1 0 = Ok (i2, Some (1, (2, (1056964608, [])))).
Proof.
  destruct (step_with_buf_noclear nc_it nb_zero 0) as [[[i1 b1] e1] | | | |] eqn:E1;
    try (vm_compute in E1; discriminate).
  destruct (step_with_buf_noclear i1 b1 0) as [[[i2 b2] e2] | | | |] eqn:E2;
    try (vm_compute in E1; inversion E1; subst; vm_compute in E2; discriminate).
  exists i1, b1, i2, b2.
  vm_compute in E1. inversion E1; subst. vm_compute in E2. inversion E2; subst.
  repeat split; vm_compute; reflexivity.
Qed.

(* ================================================================== *)
(* (A) reuse of PostingsList / PostingsIterator objects                *)
(* ================================================================== *)

(* ---- the heap ---- *)

Lemma assoc_get_set_same {A} (id : nat) (o : A) (l : list (nat * A)) :
  assoc_get id l <> None -> assoc_get id (assoc_set id o l) = Some o.
Proof.
  induction l as [| [k v] l IH]; cbn [assoc_get assoc_set]; intros H; [congruence |].
  destruct (Nat.eqb k id) eqn:E; cbn [assoc_get]; rewrite E; [reflexivity | apply IH; exact H].
Qed.

Lemma assoc_get_set_valid {A} (id j : nat) (o : A) (l : list (nat * A)) :
  assoc_get j l <> None -> assoc_get j (assoc_set id o l) <> None.
Proof.
  induction l as [| [k v] l IH]; cbn [assoc_get assoc_set]; intros H; [congruence |].
  destruct (Nat.eqb k id) eqn:E; cbn [assoc_get]; destruct (Nat.eqb k j) eqn:E2;
    try discriminate; try exact H. apply IH; exact H.
Qed.

Lemma assoc_get_set_valid_inv {A} (id j : nat) (o : A) (l : list (nat * A)) :
  assoc_get j (assoc_set id o l) <> None -> assoc_get j l <> None.
Proof.
  induction l as [| [k v] l IH]; cbn [assoc_get assoc_set]; intros H; [congruence |].
  destruct (Nat.eqb k id) eqn:E; cbn [assoc_get] in H; destruct (Nat.eqb k j) eqn:E2;
    try discriminate; try exact H. apply IH; exact H.
Qed.

Lemma assoc_set_length {A} (id : nat) (o : A) (l : list (nat * A)) :
  length (assoc_set id o l) = length l.
Proof.
  induction l as [| [k v] l IH]; [reflexivity |]. cbn [assoc_set].
  destruct (Nat.eqb k id); cbn [length]; [reflexivity | rewrite IH; reflexivity].
Qed.

Definition pl_valid (s : plstore) (r : plref) : Prop := pl_get s r <> None.
Definition it_valid (s : itstore) (r : itref) : Prop := it_get s r <> None.

Lemma pl_get_set_same (s : plstore) (r : plref) (o : PLobj) :
  pl_valid s r -> pl_get (pl_set s r o) r = Some o.
Proof.
  destruct r as [| id]; cbn; [reflexivity |]. apply assoc_get_set_same.
Qed.

Lemma pl_set_valid (s : plstore) (r q : plref) (o : PLobj) :
  pl_valid s q -> pl_valid (pl_set s r o) q.
Proof.
  unfold pl_valid. destruct r as [| id], q as [| j]; cbn; try discriminate; try (intros H; exact H).
  apply assoc_get_set_valid.
Qed.

Lemma pl_alloc_props (s : plstore) (o : PLobj) :
  let '(s', r) := pl_alloc s o in
  ps_shared s' = ps_shared s /\ (forall q, pl_valid s q -> pl_valid s' q) /\
  r <> SharedEmptyPL /\ pl_get s' r = Some o.
Proof.
  unfold pl_alloc. cbn. repeat split.
  - intros [| j]; unfold pl_valid; cbn; [discriminate |].
    destruct (Nat.eqb (length (ps_own s)) j); [discriminate | tauto].
  - discriminate.
  - rewrite Nat.eqb_refl. reflexivity.
Qed.

Lemma it_get_set_same (s : itstore) (r : itref) (o : ITobj) :
  it_valid s r -> it_get (it_set s r o) r = Some o.
Proof.
  destruct r as [| id]; cbn; [reflexivity |]. apply assoc_get_set_same.
Qed.

Lemma it_set_valid (s : itstore) (r q : itref) (o : ITobj) :
  it_valid s q -> it_valid (it_set s r o) q.
Proof.
  unfold it_valid. destruct r as [| id], q as [| j]; cbn; try discriminate; try (intros H; exact H).
  apply assoc_get_set_valid.
Qed.

Lemma it_alloc_props (s : itstore) (o : ITobj) :
  let '(s', r) := it_alloc s o in
  is_shared s' = is_shared s /\ (forall q, it_valid s q -> it_valid s' q) /\
  r <> SharedEmptyIt /\ it_get s' r = Some o.
Proof.
  unfold it_alloc. cbn. repeat split.
  - intros [| j]; unfold it_valid; cbn; [discriminate |].
    destruct (Nat.eqb (length (is_own s)) j); [discriminate | tauto].
  - discriminate.
  - rewrite Nat.eqb_refl. reflexivity.
Qed.

(* ---- postingsListInit ---- *)

Definition cleared (p : option (list N)) : Prop := p = None \/ p = Some [].

Lemma init_ok (s : plstore) (sb : option (list bytes)) (rv : option plref) (ex : option (list N)) :
  (forall r, rv = Some r -> pl_valid s r) ->
  exists s' r p,
    postings_list_init s sb rv ex = Ok (s', r) /\
    ps_shared s' = ps_shared s /\ (forall q, pl_valid s q -> pl_valid s' q) /\
    r <> SharedEmptyPL /\ pl_get s' r = Some (mkPLobj p 0 0 ex sb None) /\ cleared p.
Proof.
  intros Hv. unfold postings_list_init, postings_list_init_gen.
  pose proof (pl_alloc_props s (mkPLobj None 0 0 ex sb None)) as Ha.
  destruct (pl_alloc s (mkPLobj None 0 0 ex sb None)) as [sa ra] eqn:Ea.
  destruct Ha as (A1 & A2 & A3 & A4).
  destruct rv as [[| id] |]; cbn [andb plref_is_shared].
  - exists sa, ra, None. repeat split; try assumption. left; reflexivity.
  - specialize (Hv (OwnPL id) eq_refl). unfold pl_valid in Hv.
    destruct (pl_get s (OwnPL id)) as [o |] eqn:Eg; [| congruence].
    eexists _, (OwnPL id), _. split; [reflexivity |].
    split; [reflexivity |]. split; [intros q; apply pl_set_valid |].
    split; [discriminate |]. split.
    + apply pl_get_set_same. unfold pl_valid. congruence.
    + destruct (po_postings o); [right | left]; reflexivity.
  - exists sa, ra, None. repeat split; try assumption. left; reflexivity.
Qed.

(* ---- the object a lookup yields ---- *)

(* what a lookup without prealloc in an empty store yields *)
Definition fresh_obj (d : dict) (term : bytes) (ex : option (list N)) : PLobj :=
  match d with
  | NoFST _ => plobj_zero
  | FST f m =>
      match fst_get term m with
      | None => plobj_zero
      | Some ve => po_read (mkPLobj None 0 0 ex (Some f) None) ve
      end
  end.

Lemma postings_list_fresh (d : dict) (t : bytes) (ex : option (list N)) :
  exists s r, postings_list pls_empty d t ex None = Ok (s, r) /\ pl_get s r = Some (fresh_obj d t ex).
Proof.
  unfold postings_list, postings_list_gen, fresh_obj.
  destruct d as [sb | f m].
  - exists pls_empty, SharedEmptyPL. split; reflexivity.
  - destruct (fst_get t m) as [ve |].
    + cbn. eexists _, _. split; [reflexivity |]. cbn. reflexivity.
    + exists pls_empty, SharedEmptyPL. split; reflexivity.
Qed.

(* two objects a caller cannot tell apart: both empty, or equal up to the
   bitmap of a 1-hit list (nil in a new object, cleared in a reused one) *)
Definition po_sim (a b : PLobj) : Prop :=
  (po_is_empty a = true /\ po_is_empty b = true) \/
  (po_doc1 a = po_doc1 b /\ po_norm1 a = po_norm1 b /\ po_except a = po_except b /\
   po_sb a = po_sb b /\ po_enc a = po_enc b /\
   (po_norm1 a <> 0 \/ po_postings a = po_postings b)).

Lemma cleared_empty (p : option (list N)) d1 ex sb enc :
  cleared p -> po_is_empty (mkPLobj p d1 0 ex sb enc) = true.
Proof. intros [-> | ->]; reflexivity. Qed.

Lemma postings_list_ok (s : plstore) (d : dict) (t : bytes) (ex : option (list N))
      (pre : option plref) :
  ps_shared s = plobj_zero -> (forall r, pre = Some r -> pl_valid s r) ->
  exists s' r o,
    postings_list s d t ex pre = Ok (s', r) /\
    ps_shared s' = plobj_zero /\ (forall q, pl_valid s q -> pl_valid s' q) /\
    pl_get s' r = Some o /\ po_sim o (fresh_obj d t ex).
Proof.
  intros Hz Hv. unfold postings_list, postings_list_gen.
  (* the answer for an absent term *)
  assert (Habsent : exists s' r o,
    match pre with
    | None => Ok (s, SharedEmptyPL)
    | Some SharedEmptyPL => Ok (s, SharedEmptyPL)
    | Some r0 => postings_list_init_gen true true s (dict_sb d) (Some r0) ex
    end = Ok (s', r) /\
    ps_shared s' = plobj_zero /\ (forall q, pl_valid s q -> pl_valid s' q) /\
    pl_get s' r = Some o /\ po_sim o plobj_zero).
  { destruct pre as [[| id] |].
    - exists s, SharedEmptyPL, plobj_zero. cbn. rewrite Hz. repeat split; auto. left; split; reflexivity.
    - destruct (init_ok s (dict_sb d) (Some (OwnPL id)) ex Hv) as (s' & r & p & E & S1 & S2 & S3 & S4 & S5).
      exists s', r, (mkPLobj p 0 0 ex (dict_sb d) None).
      split; [exact E |]. split; [congruence |]. split; [exact S2 |]. split; [exact S4 |].
      left. split; [apply cleared_empty; exact S5 | reflexivity].
    - exists s, SharedEmptyPL, plobj_zero. cbn. rewrite Hz. repeat split; auto. left; split; reflexivity. }
  unfold fresh_obj. destruct d as [sb | f m]; [exact Habsent |].
  destruct (fst_get t m) as [ve |]; [| exact Habsent].
  destruct (init_ok s (dict_sb (FST f m)) pre ex Hv) as (s1 & r & p & E & S1 & S2 & S3 & S4 & S5).
  fold postings_list_init. rewrite E. cbn [rbind]. rewrite S4.
  exists (pl_set s1 r (po_read (mkPLobj p 0 0 ex (dict_sb (FST f m)) None) ve)), r,
         (po_read (mkPLobj p 0 0 ex (dict_sb (FST f m)) None) ve).
  split; [reflexivity |].
  split. { destruct r as [| id]; [congruence |]. cbn. congruence. }
  split. { intros q Hq. apply pl_set_valid, S2, Hq. }
  split. { apply pl_get_set_same. unfold pl_valid. congruence. }
  destruct ve as [v e]. unfold po_read. cbn [fst snd dict_sb po_postings po_except po_sb].
  destruct v as [d1 nb | docs].
  - destruct (N.eq_dec nb 0) as [-> | Hnb].
    + left. split; [apply cleared_empty; exact S5 | reflexivity].
    + right. cbn. repeat split. left. exact Hnb.
  - right. cbn. repeat split. right. reflexivity.
Qed.

(* ---- what can be observed of an object ---- *)

Lemma empty_observations (o : PLobj) :
  po_is_empty o = true -> po_count o = 0 /\ po_or_into o = [].
Proof.
  destruct o as [p d1 n1 ex sb enc]. unfold po_is_empty, po_count, po_or_into, po_pl, pl_Count.
  cbn. intros H. apply andb_prop in H. destruct H as [H1 H2].
  rewrite H1. cbn. destruct p as [[| x l] |]; try discriminate; split; reflexivity.
Qed.

Lemma sim_observations (a b : PLobj) :
  po_sim a b ->
  po_count a = po_count b /\ po_or_into a = po_or_into b /\ po_is_empty a = po_is_empty b /\
  (po_is_empty b = false ->
   po_view a = po_view b /\ po_except a = po_except b /\ po_sb a = po_sb b /\ po_norm1 a = po_norm1 b).
Proof.
  intros [[Ha Hb] | (H1 & H2 & H3 & H4 & H5 & H6)].
  - destruct (empty_observations a Ha) as [-> ->].
    destruct (empty_observations b Hb) as [-> ->].
    rewrite Ha, Hb. repeat split; congruence.
  - destruct a as [pa da na xa sa ea], b as [pb db nb xb sb eb]. cbn in *. subst.
    unfold po_count, po_or_into, po_is_empty, po_view, po_pl, pl_Count. cbn.
    destruct (nb =? 0) eqn:E; cbn.
    + destruct H6 as [H6 | ->]; [lia |]. repeat split; reflexivity.
    + repeat split; reflexivity.
Qed.

(* ---- Iterator ---- *)

Definition po_fields (o : PLobj) : list bytes := match po_sb o with Some f => f | None => [] end.

Lemma pl_iterator_empty (ps : plstore) (is : itstore) (p : plref) (o : PLobj) fq nm lc pre :
  pl_get ps p = Some o -> po_is_empty o = true ->
  pl_iterator ps is p fq nm lc pre = Ok (is, SharedEmptyIt).
Proof. intros Hg He. unfold pl_iterator. rewrite Hg, He. reflexivity. Qed.

Lemma pl_iterator_ok (ps : plstore) (is : itstore) (p : plref) (o : PLobj) fq nm lc
      (pre : option itref) :
  pl_get ps p = Some o -> (forall r, pre = Some r -> it_valid is r) ->
  po_is_empty o = false -> po_sb o <> None ->
  exists is' r,
    pl_iterator ps is p fq nm lc pre = Ok (is', r) /\
    is_shared is' = is_shared is /\ (forall q, it_valid is q -> it_valid is' q) /\
    r <> SharedEmptyIt /\
    it_get is' r = Some (mkITobj (it_init (po_view o) (po_except o) (fq || nm || lc) lc (po_fields o) None)
                                 nb_zero).
Proof.
  intros Hg Hv He Hsb. unfold pl_iterator. rewrite Hg, He.
  assert (Hhs : po_hasSegment o = true) by (unfold po_hasSegment; destruct (po_sb o); congruence).
  rewrite Hhs. cbn [negb]. rewrite andb_false_r.
  fold (po_fields o).
  assert (Hnew : exists is' r,
            Ok (it_alloc is (mkITobj (it_init (po_view o) (po_except o) (fq || nm || lc) lc (po_fields o) None) nb_zero))
            = Ok (is', r) /\
            is_shared is' = is_shared is /\ (forall q, it_valid is q -> it_valid is' q) /\
            r <> SharedEmptyIt /\
            it_get is' r = Some (mkITobj (it_init (po_view o) (po_except o) (fq || nm || lc) lc (po_fields o) None) nb_zero)).
  { pose proof (it_alloc_props is (mkITobj (it_init (po_view o) (po_except o) (fq || nm || lc) lc (po_fields o) None) nb_zero)) as Ha.
    destruct (it_alloc is _) as [sa ra]. destruct Ha as (A1 & A2 & A3 & A4).
    exists sa, ra. repeat split; assumption. }
  destruct pre as [[| id] |]; try exact Hnew.
  specialize (Hv (OwnIt id) eq_refl). unfold it_valid in Hv.
  destruct (it_get is (OwnIt id)) as [old |] eqn:Eg; [| congruence].
  eexists _, (OwnIt id). split; [reflexivity |].
  split; [reflexivity |]. split; [intros q; apply it_set_valid |]. split; [discriminate |].
  rewrite it_get_set_same by (unfold it_valid; congruence).
  (* the old iterator's contents play no role: Dict_Proofs.it_init_old_irrelevant *)
  rewrite it_init_old_irrelevant. reflexivity.
Qed.

(* ---- Next() to the end ---- *)

(* the loop on the cursor model alone *)
Fixpoint drain (fuel : nat) (i : It) : option (list APosting * result unit) :=
  match fuel with
  | O => None
  | S f =>
      match next_at_or_after i 0 with
      | Ok (i', Some p) =>
          match drain f i' with Some rest => Some (p :: fst rest, snd rest) | None => None end
      | Ok (_, None) => Some ([], Ok tt)
      | Err => Some ([], Err)
      | Panic => Some ([], Panic)
      | Block => Some ([], Block)
      | OutOfFuel => Some ([], OutOfFuel)
      end
  end.

Lemma iterate_own (fuel : nat) : forall (is : itstore) (id : nat) (i : It) (b : nextbuf),
  it_get is (OwnIt id) = Some (mkITobj i b) ->
  match drain fuel i with
  | None => iterate fuel is (OwnIt id) = OutOfFuel
  | Some res =>
      exists is', iterate fuel is (OwnIt id) = Ok (is', res) /\
                  is_shared is' = is_shared is /\ (forall q, it_valid is q -> it_valid is' q)
  end.
Proof.
  induction fuel as [| f IH]; intros is id i b Hg; [reflexivity |].
  cbn [drain iterate]. rewrite Hg. cbn [io_it io_buf].
  pose proof (buf_step_equals_model i b 0) as H.
  destruct (step_with_buf i b 0) as [[[i' b'] e] | | | |]; cbn [delivered rbind] in H; rewrite <- H.
  - destruct e.
    + assert (Hg' : it_get (it_set is (OwnIt id) (mkITobj i' b')) (OwnIt id) = Some (mkITobj i' b')).
      { apply it_get_set_same. unfold it_valid. congruence. }
      specialize (IH _ id i' b' Hg').
      destruct (drain f i') as [rest |].
      * destruct IH as (is' & E & S1 & S2). rewrite E. cbn [rbind].
        exists is'. split; [reflexivity |]. split; [exact S1 |].
        intros q Hq. apply S2, it_set_valid, Hq.
      * rewrite IH. reflexivity.
    + eexists. split; [reflexivity |]. split; [reflexivity |]. intros q; apply it_set_valid.
  - exists is. repeat split; auto.
  - exists is. repeat split; auto.
  - exists is. repeat split; auto.
  - exists is. repeat split; auto.
Qed.

(* Next() on the shared empty iterator: nil at once, and what is written back
   is what was there *)
Lemma iterate_shared (f : nat) (is : itstore) :
  is_shared is = itobj_zero -> iterate (S f) is SharedEmptyIt = Ok (is, ([], Ok tt)).
Proof.
  intros Hz. cbn [iterate it_get]. rewrite Hz.
  change (step_with_buf (io_it itobj_zero) (io_buf itobj_zero) 0) with (Ok (it_zero, nb_zero, false)).
  cbn. destruct is as [sh own]. cbn in *. subst. reflexivity.
Qed.

(* ---- the fuel of obs_iterate is enough ---- *)

Definition same_rem (i j : It) : Prop :=
  it_norm1 i = it_norm1 j /\ it_doc1 i = it_doc1 j /\ it_actual i = it_actual j.

Lemma same_rem_refl i : same_rem i i.
Proof. repeat split. Qed.
Lemma same_rem_trans i j k : same_rem i j -> same_rem j k -> same_rem i k.
Proof. unfold same_rem. intuition congruence. Qed.
Lemma same_rem_remaining i j : same_rem i j -> it_remaining i = it_remaining j.
Proof. intros (H1 & H2 & H3). unfold it_remaining. rewrite H1, H2, H3. reflexivity. Qed.

Lemma loadChunk_rem (i i' : It) (c : N) : it_loadChunk i c = Ok i' -> same_rem i i'.
Proof.
  unfold it_loadChunk. intros H.
  destruct (if it_fn i then dec_load (it_fr i) c else Ok (it_fr i)); cbn [rbind] in H; try discriminate.
  destruct (if it_locs i then dec_load (it_lr i) c else Ok (it_lr i)); cbn [rbind] in H; try discriminate.
  inversion H; subst. repeat split.
Qed.

Lemma maybe_load_rem (cond : bool) (i i' : It) (c : N) :
  (if cond then it_loadChunk i c else Ok i) = Ok i' -> same_rem i i'.
Proof.
  destruct cond; [apply loadChunk_rem |]. intros H; inversion H; subst. apply same_rem_refl.
Qed.

Lemma ccn_rem (i i' : It) (c : N) : currChunkNext i c = Ok i' -> same_rem i i'.
Proof.
  unfold currChunkNext. intros H.
  destruct (if need_load i c then it_loadChunk i c else Ok i) as [i1 | | | |] eqn:E1;
    cbn [rbind] in H; try discriminate.
  apply maybe_load_rem in E1.
  destruct (read_uv (it_fr i1)) as [[fhl fr1] | | | |]; cbn [rbind] in H; try discriminate.
  destruct (skip_uv fr1) as [fr2 | | | |]; cbn [rbind] in H; try discriminate.
  eapply same_rem_trans; [exact E1 |].
  destruct (it_locs (set_fr i1 fr2) && N.odd fhl).
  - destruct (read_uv (it_lr (set_fr i1 fr2))) as [[nb lr1] | | | |]; cbn [rbind] in H; try discriminate.
    inversion H; subst. repeat split.
  - inversion H; subst. repeat split.
Qed.

Lemma repeat_ccn_rem (k : nat) : forall (i i' : It) (c : N), repeat_ccn k i c = Ok i' -> same_rem i i'.
Proof.
  induction k as [| k IH]; intros i i' c H; cbn [repeat_ccn] in H.
  - inversion H; subst. apply same_rem_refl.
  - destruct (currChunkNext i c) as [i1 | | | |] eqn:E; cbn [rbind] in H; try discriminate.
    eapply same_rem_trans; [apply (ccn_rem _ _ _ E) | apply (IH _ _ _ H)].
Qed.

Lemma sync_all_rem (all : list N) : forall (i i' : It) (n c reach : N) (all' : list N),
  sync_all i n c reach all = Ok (i', all') -> same_rem i i'.
Proof.
  induction all as [| a all IH]; intros i i' n c reach all' H; cbn [sync_all] in H; [discriminate |].
  destruct (a =? n).
  - inversion H; subst. apply same_rem_refl.
  - destruct (if it_fn i && (reach <=? a) then currChunkNext i c else Ok i) as [i1 | | | |] eqn:E;
      cbn [rbind] in H; try discriminate.
    eapply same_rem_trans; [| apply (IH _ _ _ _ _ _ H)].
    destruct (it_fn i && (reach <=? a)); [apply (ccn_rem _ _ _ E) |].
    inversion E; subst. apply same_rem_refl.
Qed.

Lemma drop_lt_length (d : N) (l : list N) : (length (drop_lt d l) <= length l)%nat.
Proof.
  induction l as [| x l IH]; cbn [drop_lt]; [lia |].
  destruct (x <? d); cbn [length] in *; lia.
Qed.

Lemma clean_scan_length (cs d : N) (rest : list N) : forall n c same n' c' same' rest',
  clean_scan cs d n c same rest = (n', c', same', rest') -> (length rest' <= length rest)%nat.
Proof.
  induction rest as [| m rest IH]; intros n c same n' c' same' rest' H; cbn [clean_scan] in H.
  - inversion H; subst. cbn. lia.
  - destruct (n <? d).
    + apply IH in H. cbn [length]. lia.
    + inversion H; subst. lia.
Qed.

Lemma next_docnum_remaining (i i1 : It) (d n : N) :
  next_docnum i d = Ok (i1, Some n) -> (it_remaining i1 < it_remaining i)%nat.
Proof.
  unfold next_docnum. intros H.
  destruct (negb (it_norm1 i =? 0)) eqn:E1.
  - destruct (it_doc1 i =? docNum1HitFinished) eqn:E2; [discriminate |].
    destruct (it_doc1 i <? d); [discriminate |].
    inversion H; subst. unfold it_remaining. cbn [set_doc1 it_norm1 it_doc1].
    rewrite E1, E2, N.eqb_refl. lia.
  - destruct (it_actual i) as [| n0 rest0] eqn:Ea; [discriminate |].
    destruct (it_cs i =? 0); [discriminate |].
    assert (Hrem : it_remaining i = S (length rest0)).
    { unfold it_remaining. rewrite E1, Ea. reflexivity. }
    assert (Hset : forall a r, it_remaining (set_cursors i a r) = length r).
    { intros a r. unfold it_remaining. cbn [set_cursors it_norm1 it_actual]. rewrite E1. reflexivity. }
    destruct (it_clean i).
    + destruct (negb (it_fn i)).
      * pose proof (drop_lt_length (wrap32 d) (n0 :: rest0)) as Hl.
        destruct (drop_lt (wrap32 d) (n0 :: rest0)) as [| m rest]; [discriminate |].
        inversion H; subst. rewrite Hset, Hrem. cbn [length] in Hl. lia.
      * destruct (clean_scan (it_cs i) d n0 (n0 / it_cs i) 0 rest0) as [[[n' c'] same'] rest'] eqn:Ec.
        apply clean_scan_length in Ec.
        destruct (n' <? d); [discriminate |].
        destruct (repeat_ccn same' (set_cursors i rest' rest') c') as [i2 | | | |] eqn:Er;
          cbn [rbind] in H; try discriminate.
        destruct (if need_load i2 c' then it_loadChunk i2 c' else Ok i2) as [i3 | | | |] eqn:El;
          cbn [rbind] in H; try discriminate.
        inversion H; subst.
        apply repeat_ccn_rem in Er. apply maybe_load_rem in El.
        rewrite <- (same_rem_remaining _ _ El), <- (same_rem_remaining _ _ Er), Hset, Hrem. lia.
    + pose proof (drop_lt_length (wrap32 d) (n0 :: rest0)) as Hl.
      destruct (drop_lt (wrap32 d) (n0 :: rest0)) as [| m rest]; [discriminate |].
      destruct (sync_all i m (m / it_cs i) (wrap32 (m / it_cs i * it_cs i)) (it_all i))
        as [[i2 all'] | | | |] eqn:Es; cbn [rbind] in H; try discriminate.
      match type of H with
      | rbind ?X _ = _ => destruct X as [i3 | | | |] eqn:El
      end; cbn [rbind] in H; try discriminate.
      inversion H; subst.
      apply sync_all_rem in Es. apply maybe_load_rem in El.
      rewrite <- (same_rem_remaining _ _ El).
      assert (Hr2 : it_remaining (set_cursors i2 all' rest) = length rest).
      { destruct Es as (S1 & S2 & S3). unfold it_remaining. cbn [set_cursors it_norm1 it_actual].
        rewrite <- S1, E1. reflexivity. }
      rewrite Hr2, Hrem. cbn [length] in Hl. lia.
Qed.

Lemma naa_remaining (i i' : It) (d : N) (p : APosting) :
  next_at_or_after i d = Ok (i', Some p) -> (it_remaining i' < it_remaining i)%nat.
Proof.
  rewrite naa_unfold. intros H.
  destruct (next_docnum i d) as [[i1 [n |]] | | | |] eqn:E; cbn [rbind] in H; try discriminate.
  apply next_docnum_remaining in E.
  assert (Hs : same_rem i1 i').
  { unfold finish in H.
    destruct (negb (it_fn i1)); [inversion H; subst; apply same_rem_refl |].
    destruct (negb (it_norm1 i1 =? 0)); [inversion H; subst; apply same_rem_refl |].
    destruct (read_uv (it_fr i1)) as [[fhl fr1] | | | |]; cbn [rbind] in H; try discriminate.
    destruct (read_uv fr1) as [[nb fr2] | | | |]; cbn [rbind] in H; try discriminate.
    destruct (it_locs (set_fr i1 fr2) && N.odd fhl).
    - destruct (read_uv (it_lr (set_fr i1 fr2))) as [[nlb lr1] | | | |]; cbn [rbind] in H; try discriminate.
      destruct (read_locs _ _ lr1 _ nlb) as [[ls lr2] | | | |]; cbn [rbind] in H; try discriminate.
      inversion H; subst. repeat split.
    - inversion H; subst. repeat split. }
  rewrite <- (same_rem_remaining _ _ Hs). exact E.
Qed.

Lemma drain_fuel (fuel : nat) : forall i, (it_remaining i < fuel)%nat -> drain fuel i <> None.
Proof.
  induction fuel as [| f IH]; intros i Hf; [lia |].
  cbn [drain]. destruct (next_at_or_after i 0) as [[i' [p |]] | | | |] eqn:E; try discriminate.
  apply naa_remaining in E. specialize (IH i'). destruct (drain f i'); [discriminate |].
  exfalso. apply IH; [lia | reflexivity].
Qed.

(* all postings of an iterator: the loop of obs_iterate on the cursor model *)
Definition drain_all (i : It) : list APosting * result unit :=
  match drain (S (it_remaining i)) i with Some r => r | None => ([], OutOfFuel) end.

Lemma drain_all_some (i : It) : drain (S (it_remaining i)) i = Some (drain_all i).
Proof.
  unfold drain_all. pose proof (drain_fuel (S (it_remaining i)) i (Nat.lt_succ_diag_r _)) as H.
  destruct (drain (S (it_remaining i)) i); [reflexivity | congruence].
Qed.

(* drain is a run of Next() calls of the cursor model: when it ends with nil,
   it_run over that many Next() gives the same postings followed by nil, so
   Iterator_Proofs.iter_refines applies to it *)
Lemma drain_is_run (fuel : nat) : forall i ps,
  drain fuel i = Some (ps, Ok tt) ->
  it_run i (repeat INext (S (length ps))) = Ok (map Some ps ++ [None]).
Proof.
  induction fuel as [| f IH]; intros i ps H; [discriminate |].
  cbn [drain] in H. cbn [repeat it_run it_step].
  destruct (next_at_or_after i 0) as [[i' [p |]] | | | |]; try (inversion H; fail).
  - destruct (drain f i') as [[ps' e] |] eqn:E; [| discriminate].
    cbn [fst snd] in H. inversion H; subst. cbn [rbind length].
    rewrite (IH i' ps' E). reflexivity.
  - inversion H; subst. reflexivity.
Qed.

(* ---- one lookup ---- *)

(* what a lookup shows, as a function of the lookup alone *)
Definition fresh_obs (lk : lookup) : obs :=
  let o := fresh_obj (lk_dict lk) (lk_term lk) (lk_except lk) in
  mkObs (po_count o) (po_or_into o)
        (if po_is_empty o then ([], Ok tt)
         else drain_all (it_init (po_view o) (po_except o)
                                 (lk_freq lk || lk_norm lk || lk_locs lk) (lk_locs lk)
                                 (po_fields o) None)).

Definition Inv (st : state) : Prop :=
  ps_shared (st_pls st) = plobj_zero /\ is_shared (st_its st) = itobj_zero /\
  Forall (pl_valid (st_pls st)) (st_plrefs st) /\ Forall (it_valid (st_its st)) (st_itrefs st).

Lemma pick_valid {A} (P : A -> Prop) (l : list A) (k : option nat) :
  Forall P l -> forall r, pick l k = Some r -> P r.
Proof.
  intros HF r H. destruct k as [n |]; [| discriminate]. cbn in H.
  rewrite Forall_forall in HF. apply HF. eapply nth_error_In. exact H.
Qed.

Lemma fresh_obj_sb (d : dict) (t : bytes) (ex : option (list N)) :
  po_is_empty (fresh_obj d t ex) = false -> po_sb (fresh_obj d t ex) <> None.
Proof.
  unfold fresh_obj. destruct d as [sb | f m]; [discriminate |].
  destruct (fst_get t m) as [[v e] |]; [| discriminate].
  unfold po_read. cbn [fst]. destruct v; cbn; discriminate.
Qed.

Lemma Inv_init : Inv st_init.
Proof.
  repeat split; cbn.
  - constructor; [discriminate | constructor].
  - constructor; [discriminate | constructor].
Qed.

Theorem do_lookup_ok (st : state) (lk : lookup) :
  Inv st -> exists st', do_lookup st lk = Ok (st', fresh_obs lk) /\ Inv st'.
Proof.
  intros (Hz1 & Hz2 & Hv1 & Hv2).
  unfold do_lookup, do_lookup_gen. fold postings_list.
  destruct (postings_list_ok (st_pls st) (lk_dict lk) (lk_term lk) (lk_except lk)
              (pick (st_plrefs st) (lk_pl lk)) Hz1 (pick_valid _ _ _ Hv1))
    as (pls1 & r & o & E & P1 & P2 & P3 & P4).
  rewrite E. cbn [rbind]. unfold obs_count, obs_or_into. rewrite P3. cbn [rbind].
  destruct (sim_observations _ _ P4) as (C1 & C2 & C3 & C4).
  assert (Hvr : pl_valid pls1 r) by (unfold pl_valid; congruence).
  assert (Hv1' : Forall (pl_valid pls1) (r :: st_plrefs st)).
  { constructor; [exact Hvr |]. eapply Forall_impl; [| exact Hv1]. exact P2. }
  unfold fresh_obs.
  set (fo := fresh_obj (lk_dict lk) (lk_term lk) (lk_except lk)) in *.
  destruct (po_is_empty fo) eqn:Ee.
  - (* an empty list: the shared empty iterator *)
    rewrite (pl_iterator_empty pls1 (st_its st) r o _ _ _ _ P3) by congruence. cbn [rbind].
    unfold obs_iterate. cbn [it_get]. rewrite (iterate_shared _ _ Hz2). cbn [rbind].
    eexists. split; [rewrite C1, C2; reflexivity |].
    repeat split; cbn; try assumption.
    constructor; [discriminate | exact Hv2].
  - specialize (C4 eq_refl). destruct C4 as (V1 & V2 & V3 & V4).
    assert (Hsb : po_sb o <> None) by (rewrite V3; apply fresh_obj_sb; exact Ee).
    destruct (pl_iterator_ok pls1 (st_its st) r o (lk_freq lk) (lk_norm lk) (lk_locs lk)
                (pick (st_itrefs st) (lk_it lk)) P3 (pick_valid _ _ _ Hv2))
      as (its1 & ri & EI & I1 & I2 & I3 & I4); [congruence | exact Hsb |].
    rewrite EI. cbn [rbind].
    destruct ri as [| id]; [congruence |].
    unfold obs_iterate. rewrite I4. cbn [io_it].
    pose proof (iterate_own (S (it_remaining (it_init (po_view o) (po_except o)
                   (lk_freq lk || lk_norm lk || lk_locs lk) (lk_locs lk) (po_fields o) None)))
                  its1 id _ _ I4) as HI.
    rewrite drain_all_some in HI. destruct HI as (its2 & EJ & J1 & J2).
    rewrite EJ. cbn [rbind].
    assert (Hf : po_fields o = po_fields fo) by (unfold po_fields; rewrite V3; reflexivity).
    eexists. split; [rewrite C1, C2, V1, V2, Hf; reflexivity |].
    repeat split; cbn; try assumption.
    + congruence.
    + constructor.
      * apply J2. unfold it_valid. congruence.
      * eapply Forall_impl; [| exact Hv2]. intros q Hq. apply J2, I2, Hq.
Qed.

Lemma fresh_obs_no_prealloc (lk : lookup) : fresh_obs (no_prealloc lk) = fresh_obs lk.
Proof. reflexivity. Qed.

(* the reference lookup: nothing preallocated, nothing in the stores *)
Theorem fresh_lookup (lk : lookup) :
  exists st', do_lookup st_init (no_prealloc lk) = Ok (st', fresh_obs lk).
Proof.
  destruct (do_lookup_ok st_init (no_prealloc lk) Inv_init) as (st' & E & _).
  exists st'. rewrite <- fresh_obs_no_prealloc. exact E.
Qed.

Lemma run_seq_ok (lks : list lookup) : forall st,
  Inv st -> exists st', run_seq st lks = Ok (st', map fresh_obs lks) /\ Inv st'.
Proof.
  induction lks as [| lk lks IH]; intros st HI.
  - exists st. split; [reflexivity | exact HI].
  - destruct (do_lookup_ok st lk HI) as (st1 & E1 & HI1).
    destruct (IH st1 HI1) as (st2 & E2 & HI2).
    exists st2. split; [| exact HI2].
    unfold run_seq in *. cbn [run_seq_gen]. fold do_lookup. rewrite E1. cbn [rbind].
    rewrite E2. reflexivity.
Qed.

(* (A1) whatever is looked up, with whatever earlier results as preallocated
   objects, the two shared objects keep their all-zero contents (and no call
   panics on a nil segment or meets a dangling reference: the run is Ok) *)
Theorem shared_objects_never_written (lks : list lookup) :
  exists st os, run_seq st_init lks = Ok (st, os) /\
                ps_shared (st_pls st) = plobj_zero /\ is_shared (st_its st) = itobj_zero.
Proof.
  destruct (run_seq_ok lks st_init Inv_init) as (st & E & (H1 & H2 & _)).
  exists st, (map fresh_obs lks). repeat split; assumption.
Qed.

(* (A2) every lookup of the sequence shows what the same lookup shows when it
   is made with nothing preallocated on empty stores *)
Theorem reuse_transparent (lks : list lookup) :
  exists st os, run_seq st_init lks = Ok (st, os) /\
                Forall2 (fun lk o => exists st', do_lookup st_init (no_prealloc lk) = Ok (st', o)) lks os.
Proof.
  destruct (run_seq_ok lks st_init Inv_init) as (st & E & _).
  exists st, (map fresh_obs lks). split; [exact E |].
  clear E. induction lks as [| lk lks IH]; cbn [map]; constructor.
  - apply fresh_lookup.
  - exact IH.
Qed.


(* the same as one equation: the observations of a sequence are a function of
   the lookups alone, one by one *)
Corollary reuse_transparent_map (lks : list lookup) :
  exists st, run_seq st_init lks = Ok (st, map fresh_obs lks).
Proof. destruct (run_seq_ok lks st_init Inv_init) as (st & E & _). exists st. exact E. Qed.

(* ... and from any state the invariant holds in, not only the initial one *)
Corollary reuse_transparent_from (st : state) (lks : list lookup) :
  Inv st -> exists st', run_seq st lks = Ok (st', map fresh_obs lks) /\ Inv st'.
Proof. apply run_seq_ok. Qed.

(* ---- what the reference lookup shows ---- *)

Definition absent (lk : lookup) : Prop :=
  match lk_dict lk with NoFST _ => True | FST _ m => fst_get (lk_term lk) m = None end.

Definition obs_nothing : obs := mkObs 0 [] ([], Ok tt).

Lemma absent_fresh_obs (lk : lookup) : absent lk -> fresh_obs lk = obs_nothing.
Proof.
  unfold absent, fresh_obs, fresh_obj. destruct (lk_dict lk) as [sb | f m]; [reflexivity |].
  intros ->. reflexivity.
Qed.

(* a term that is not there, or a dictionary without FST: Count 0, OrInto adds
   nothing, Next() is nil at once - whatever the preallocated list and
   iterator were used for before *)
Theorem absent_observes_nothing (lks : list lookup) (k : nat) (lk : lookup) :
  nth_error lks k = Some lk -> absent lk ->
  exists st os, run_seq st_init lks = Ok (st, os) /\ nth_error os k = Some obs_nothing.
Proof.
  intros Hk Ha. destruct (reuse_transparent_map lks) as (st & E).
  exists st, (map fresh_obs lks). split; [exact E |].
  rewrite nth_error_map, Hk. cbn. rewrite (absent_fresh_obs lk Ha). reflexivity.
Qed.

(* an FST entry whose two views agree *)
Definition wf_entry (ve : FstVal * EncPL) : Prop :=
  match ve with
  | (V1Hit d nb, E1Hit d' nb') => d = d' /\ nb = nb' /\ nb <> 0
  | (VGen docs, EGen docs' _ _ _) => docs = docs'
  | _ => False
  end.

(* a term that is there: Count() is Postings.pl_count of the encoded list and
   the postings are those of an iterator set up on the encoded list - the
   objects Iterator_Proofs.count_refines / iter_refines speak about *)
Theorem present_observations (lk : lookup) (f : list bytes) m (v : FstVal) (e : EncPL) :
  lk_dict lk = FST f m -> fst_get (lk_term lk) m = Some (v, e) -> wf_entry (v, e) ->
  ob_count (fresh_obs lk) = pl_count e (lk_except lk) /\
  ob_postings (fresh_obs lk)
  = drain_all (it_init e (lk_except lk) (lk_freq lk || lk_norm lk || lk_locs lk) (lk_locs lk) f None).
Proof.
  intros Hd Hg Hwf. unfold fresh_obs, fresh_obj. rewrite Hd, Hg.
  destruct v as [d nb | docs], e as [d' nb' | docs' cs fch lch]; cbn in Hwf; try contradiction.
  - destruct Hwf as (<- & <- & Hnb).
    assert (Enb : (nb =? 0) = false) by lia.
    unfold po_read, po_count, po_pl, pl_Count, po_is_empty, po_view, po_fields. cbn. rewrite Enb. cbn.
    split; [| reflexivity].
    destruct (lk_except lk) as [ex |]; [destruct (memN d ex) |]; reflexivity.
  - subst docs'.
    unfold po_read, po_count, po_pl, pl_Count, po_is_empty, po_view, po_fields. cbn.
    split.
    + destruct (lk_except lk); [reflexivity | apply N.sub_0_r].
    + destruct docs as [| x docs]; [| reflexivity].
      destruct (lk_except lk); reflexivity.
Qed.

(* ---- the cursor model never answers OutOfFuel, so neither does a lookup ---- *)

Lemma rbind_noof {A B} (r : result A) (f : A -> result B) :
  r <> OutOfFuel -> (forall v, f v <> OutOfFuel) -> rbind r f <> OutOfFuel.
Proof. intros H1 H2. destruct r; cbn; try discriminate; [apply H2 | congruence]. Qed.

Lemma read_uv_noof (d : Dec) : read_uv d <> OutOfFuel.
Proof. unfold read_uv. destruct (read_uvarint (d_r d)) as [[[v |] r] |]; discriminate. Qed.
Lemma skip_uv_noof (d : Dec) : skip_uv d <> OutOfFuel.
Proof. unfold skip_uv. destruct (skip_uvarint (d_r d)); discriminate. Qed.
Lemma dec_load_noof (d : Dec) (c : N) : dec_load d c <> OutOfFuel.
Proof.
  unfold dec_load. destruct (d_chunks d); [| discriminate].
  destruct (nthN l (N.to_nat c)); discriminate.
Qed.

Lemma loadChunk_noof (i : It) (c : N) : it_loadChunk i c <> OutOfFuel.
Proof.
  unfold it_loadChunk. apply rbind_noof.
  - destruct (it_fn i); [apply dec_load_noof | discriminate].
  - intros fr. apply rbind_noof; [| discriminate].
    destruct (it_locs i); [apply dec_load_noof | discriminate].
Qed.

Lemma maybe_load_noof (cond : bool) (i : It) (c : N) :
  (if cond then it_loadChunk i c else Ok i) <> OutOfFuel.
Proof. destruct cond; [apply loadChunk_noof | discriminate]. Qed.

Lemma ccn_noof (i : It) (c : N) : currChunkNext i c <> OutOfFuel.
Proof.
  unfold currChunkNext. apply rbind_noof; [apply maybe_load_noof |].
  intros i1. apply rbind_noof; [apply read_uv_noof |]. intros [fhl fr1].
  apply rbind_noof; [apply skip_uv_noof |]. intros fr2.
  destruct (it_locs (set_fr i1 fr2) && N.odd fhl); [| discriminate].
  apply rbind_noof; [apply read_uv_noof |]. intros [nb lr1]. discriminate.
Qed.

Lemma repeat_ccn_noof (k : nat) : forall i c, repeat_ccn k i c <> OutOfFuel.
Proof.
  induction k as [| k IH]; intros i c; cbn [repeat_ccn]; [discriminate |].
  apply rbind_noof; [apply ccn_noof | intros i'; apply IH].
Qed.

Lemma sync_all_noof (all : list N) : forall i n c reach, sync_all i n c reach all <> OutOfFuel.
Proof.
  induction all as [| a all IH]; intros i n c reach; cbn [sync_all]; [discriminate |].
  destruct (a =? n); [discriminate |].
  apply rbind_noof; [| intros i'; apply IH].
  destruct (it_fn i && (reach <=? a)); [apply ccn_noof | discriminate].
Qed.

Lemma next_docnum_noof (i : It) (d : N) : next_docnum i d <> OutOfFuel.
Proof.
  unfold next_docnum.
  destruct (negb (it_norm1 i =? 0)).
  - destruct (it_doc1 i =? docNum1HitFinished); [discriminate |].
    destruct (it_doc1 i <? d); discriminate.
  - destruct (it_actual i) as [| n0 rest0]; [discriminate |].
    destruct (it_cs i =? 0); [discriminate |].
    destruct (it_clean i).
    + destruct (negb (it_fn i)).
      * destruct (drop_lt (wrap32 d) (n0 :: rest0)); discriminate.
      * destruct (clean_scan (it_cs i) d n0 (n0 / it_cs i) 0 rest0) as [[[n' c'] same'] rest'].
        destruct (n' <? d); [discriminate |].
        apply rbind_noof; [apply repeat_ccn_noof |]. intros i2.
        apply rbind_noof; [apply maybe_load_noof | discriminate].
    + destruct (drop_lt (wrap32 d) (n0 :: rest0)) as [| m rest]; [discriminate |].
      apply rbind_noof; [apply sync_all_noof |]. intros [i1 all'].
      apply rbind_noof; [apply maybe_load_noof | discriminate].
Qed.

Lemma read_locs_noof (fuel : nat) : forall fields lr sl nb, read_locs fuel fields lr sl nb <> OutOfFuel.
Proof.
  induction fuel as [| f IH]; intros fields lr sl nb.
  - cbn [read_locs]. destruct (sl - dec_len lr <? nb); discriminate.
  - cbn [read_locs]. destruct (sl - dec_len lr <? nb); [| discriminate].
    apply rbind_noof; [apply read_uv_noof |]. intros [fid lr1].
    apply rbind_noof; [apply read_uv_noof |]. intros [pos lr2].
    apply rbind_noof; [apply read_uv_noof |]. intros [st lr3].
    apply rbind_noof; [apply read_uv_noof |]. intros [en lr4].
    destruct (nthN fields (N.to_nat fid)); [| discriminate].
    apply rbind_noof; [apply IH |]. intros [ls lr5]. discriminate.
Qed.

Lemma naa_noof (i : It) (d : N) : next_at_or_after i d <> OutOfFuel.
Proof.
  rewrite naa_unfold. apply rbind_noof; [apply next_docnum_noof |].
  intros [i1 [n |]]; [| discriminate]. unfold finish.
  destruct (negb (it_fn i1)); [discriminate |].
  destruct (negb (it_norm1 i1 =? 0)); [discriminate |].
  apply rbind_noof; [apply read_uv_noof |]. intros [fhl fr1].
  apply rbind_noof; [apply read_uv_noof |]. intros [nb fr2].
  destruct (it_locs (set_fr i1 fr2) && N.odd fhl); [| discriminate].
  apply rbind_noof; [apply read_uv_noof |]. intros [nlb lr1].
  apply rbind_noof; [apply read_locs_noof |]. intros [ls lr2]. discriminate.
Qed.

Lemma drain_noof (fuel : nat) : forall i res, drain fuel i = Some res -> snd res <> OutOfFuel.
Proof.
  induction fuel as [| f IH]; intros i res H; [discriminate |].
  cbn [drain] in H. pose proof (naa_noof i 0) as Hn.
  destruct (next_at_or_after i 0) as [[i' [p |]] | | | |]; try congruence;
    try (inversion H; subst; cbn; discriminate).
  destruct (drain f i') as [rest |] eqn:E; [| discriminate].
  inversion H; subst. cbn [snd]. apply (IH i' rest E).
Qed.

(* no observation of a lookup is a model artefact: the run is Ok (above), and
   the loop over Next() ends with nil, a Go error or a Go panic *)
Theorem observations_not_out_of_fuel (lk : lookup) :
  snd (ob_postings (fresh_obs lk)) <> OutOfFuel.
Proof.
  unfold fresh_obs. cbn [ob_postings].
  destruct (po_is_empty _); [discriminate |].
  eapply drain_noof. apply drain_all_some.
Qed.

(* ---- (A3) the two guards are needed ---- *)

(* a dictionary with the term "a" in documents 1 and 5 (general encoding,
   chunk size 4) and the 1-hit term "h" in document 3 *)
Definition w_fields : list bytes := [[95; 105; 100]; [98]].
Definition w_ps : list EPosting :=
  [ (1, (2, (1065353216, [(1, (3, (10, 15)))]))); (5, (1, (1056964608, []))) ].
Definition w_dict : dict :=
  FST w_fields [ ([97], (VGen [1; 5], encode_gen 4 2 w_ps));
                 ([104], (V1Hit 3 1065353216, E1Hit 3 1065353216)) ].
Definition w_present (pl it : option nat) : lookup := mkLk w_dict [97] None true true true pl it.
Definition w_1hit (pl it : option nat) : lookup := mkLk w_dict [104] None true true true pl it.
Definition w_absent (pl it : option nat) : lookup := mkLk w_dict [122] None true true true pl it.
Definition w_nofst (pl it : option nat) : lookup :=
  mkLk (NoFST None) [97] (Some [1]) true true true pl it.

Definition w_obs_a : obs :=
  mkObs 2 [1; 5]
        ([(1, (2, (1065353216, [([98], (3, (10, 15)))]))); (5, (1, (1056964608, [])))], Ok tt).
Definition w_obs_h : obs := mkObs 1 [3] ([(3, (1, (1065353216, [])))], Ok tt).

Example w_fresh :
  fresh_obs (w_present None None) = w_obs_a /\ fresh_obs (w_1hit None None) = w_obs_h /\
  fresh_obs (w_absent None None) = obs_nothing /\ fresh_obs (w_nofst None None) = obs_nothing.
Proof. repeat split; vm_compute; reflexivity. Qed.

(* what a run shows: the contents of the two shared objects and the observations *)
Definition summary (r : result (state * list obs)) : option (PLobj * ITobj * list obs) :=
  match r with
  | Ok (st, os) => Some (ps_shared (st_pls st), is_shared (st_its st), os)
  | _ => None
  end.

(* the real code: one list and one iterator passed on from lookup to lookup
   (position 0 is the newest reference), through a present term, an absent one
   (the list comes back initialised, the iterator is the shared empty one, which
   the next lookup gets as prealloc), a 1-hit term, an unknown field, and the
   first term again *)
Example w_real_run :
  summary (run_seq st_init
             [ w_present None None; w_absent (Some 0%nat) (Some 0%nat);
               w_1hit (Some 0%nat) (Some 0%nat); w_nofst (Some 0%nat) (Some 0%nat);
               w_present (Some 0%nat) (Some 0%nat); w_absent None None;
               w_present (Some 0%nat) (Some 3%nat) ])
  = Some (plobj_zero, itobj_zero,
          [w_obs_a; obs_nothing; w_obs_h; obs_nothing; w_obs_a; obs_nothing; w_obs_a]).
Proof. vm_compute. reflexivity. Qed.

(* without `rv == emptyPostingsList` in postingsListInit: the shared reference
   is treated as a list of the caller's and initialised in place *)
Example no_guard_init_writes_shared :
  exists s r, postings_list_init_gen false true pls_empty (Some w_fields) (Some SharedEmptyPL) (Some [7])
              = Ok (s, r)
              /\ r = SharedEmptyPL /\ ps_shared s <> plobj_zero.
Proof. eexists _, _. split; [vm_compute; reflexivity |]. split; [reflexivity | discriminate]. Qed.

(* a caller that got emptyPostingsList from an absent term passes it on as
   prealloc to a lookup of a present term: the term's postings end up in the
   shared object, and the next absent term - with no prealloc at all - shows them *)
Theorem no_guard_refuted :
  summary (run_seq_gen false true st_init
             [ w_absent None None; w_present (Some 0%nat) None; w_absent None None ])
  = Some (mkPLobj (Some [1; 5]) 0 0 None (Some w_fields) (Some (encode_gen 4 2 w_ps)),
          itobj_zero,
          [obs_nothing; w_obs_a; w_obs_a])
  /\ summary (run_seq st_init
             [ w_absent None None; w_present (Some 0%nat) None; w_absent None None ])
  = Some (plobj_zero, itobj_zero, [obs_nothing; w_obs_a; obs_nothing]).
Proof. split; vm_compute; reflexivity. Qed.

(* without postings.Clear(): the list used for "a" is passed on to the lookup
   of an absent term; it comes back with the bitmap of "a": Count() is 2,
   OrInto adds documents 1 and 5, and Iterator does not answer with the empty
   iterator but goes on into a list whose chunkSize is 0 (a division by zero in
   nextDocNumAtOrAfter when freq/norm are asked for; without them the real code
   hands out the stale document numbers - the cursor model of Postings.v charges
   the division there too) *)
Theorem no_clear_refuted :
  summary (run_seq_gen true false st_init [ w_present None None; w_absent (Some 0%nat) None ])
  = Some (plobj_zero, itobj_zero, [w_obs_a; mkObs 2 [1; 5] ([], Panic)])
  /\ summary (run_seq st_init [ w_present None None; w_absent (Some 0%nat) None ])
  = Some (plobj_zero, itobj_zero, [w_obs_a; obs_nothing]).
Proof. split; vm_compute; reflexivity. Qed.

(* the same at the level of the object: after postingsListInit without Clear()
   the bitmap of the previous term is still there *)
Example no_clear_init_keeps_postings :
  exists s1 r s2 r2 o,
    postings_list pls_empty w_dict [97] None None = Ok (s1, r) /\
    postings_list_gen true false s1 w_dict [122] None (Some r) = Ok (s2, r2) /\
    r2 = r /\ pl_get s2 r2 = Some o /\ po_postings o = Some [1; 5] /\ po_is_empty o = false /\
    po_enc o = None.
Proof.
  eexists _, _, _, _, _. split; [vm_compute; reflexivity |].
  split; [vm_compute; reflexivity |]. split; [reflexivity |].
  split; [vm_compute; reflexivity |]. repeat split.
Qed.

(* ---- down to the specification: a general term in any reuse sequence ---- *)

Lemma drain_det (f1 : nat) : forall f2 i r1 r2,
  drain f1 i = Some r1 -> drain f2 i = Some r2 -> r1 = r2.
Proof.
  induction f1 as [| f1 IH]; intros f2 i r1 r2 H1 H2; [discriminate |].
  destruct f2 as [| f2]; [discriminate |]. cbn [drain] in H1, H2.
  destruct (next_at_or_after i 0) as [[i' [p |]] | | | |]; try congruence.
  destruct (drain f1 i') as [x1 |] eqn:E1; [| discriminate].
  destruct (drain f2 i') as [x2 |] eqn:E2; [| discriminate].
  rewrite (IH f2 i' x1 x2 E1 E2) in H1. congruence.
Qed.

Lemma run_is_drain (ps : list APosting) : forall i fuel,
  it_run i (repeat INext (S (length ps))) = Ok (map Some ps ++ [None]) ->
  (length ps < fuel)%nat -> drain fuel i = Some (ps, Ok tt).
Proof.
  induction ps as [| a ps IH]; intros i fuel H Hf; (destruct fuel as [| fuel]; [cbn in Hf; lia |]);
    cbn [drain].
  - cbn [length repeat it_run it_step map app] in H.
    destruct (next_at_or_after i 0) as [[i' o] | | | |]; cbn [rbind] in H; try discriminate.
    inversion H; subst. reflexivity.
  - change (repeat INext (S (length (a :: ps)))) with (INext :: repeat INext (S (length ps))) in H.
    cbn [it_run it_step map app] in H.
    destruct (next_at_or_after i 0) as [[i' o] | | | |]; cbn [rbind] in H; try discriminate.
    destruct (it_run i' (repeat INext (S (length ps)))) as [os | | | |] eqn:E;
      cbn [rbind] in H; try discriminate.
    inversion H; subst.
    rewrite (IH i' fuel E) by (cbn in Hf; lia). reflexivity.
Qed.

Lemma spec_run_all (st : list APosting) :
  spec_run st (repeat INext (S (length st))) = map Some st ++ [None].
Proof.
  induction st as [| p st IH]; [reflexivity |].
  change (repeat INext (S (length (p :: st)))) with (INext :: repeat INext (S (length st))).
  cbn [spec_run spec_step]. rewrite IH. reflexivity.
Qed.

Theorem general_list_drained (fields : list bytes) (ps : list EPosting) (cs : N) (total : nat)
        (except : option (list N)) (fq nm lc : bool) :
  wf_postings (length fields) ps -> 0 < cs ->
  (forall p, In p ps -> (N.to_nat (ep_doc p / cs) < total)%nat) ->
  drain_all (it_init (encode_gen cs total ps) except (fq || nm || lc) lc fields None)
  = (map (deliver (fq || nm || lc) lc)
         (filter (fun p => live_opt except (fst p)) (map (resolve_posting fields) ps)),
     Ok tt).
Proof.
  intros Hwf Hcs Htot.
  set (st := filter (fun p => live_opt except (fst p)) (map (resolve_posting fields) ps)).
  set (i := it_init _ _ _ _ _ _).
  assert (Hrun : it_run i (repeat INext (S (length st)))
                 = Ok (spec_out (fq || nm || lc) lc st (repeat INext (S (length st))))).
  { apply iter_refines; try assumption.
    - intros ->. rewrite !orb_true_r. reflexivity.
    - unfold wf_ops. apply Forall_forall. intros op Hop. apply repeat_spec in Hop. subst. exact I. }
  unfold spec_out in Hrun. rewrite spec_run_all, map_app, map_map in Hrun. cbn [map option_map] in Hrun.
  rewrite <- (map_map (deliver (fq || nm || lc) lc) Some) in Hrun.
  rewrite <- (map_length (deliver (fq || nm || lc) lc) st) in Hrun at 1.
  apply (run_is_drain _ i (S (length (map (deliver (fq || nm || lc) lc) st)))) in Hrun; [| lia].
  exact (drain_det _ _ _ _ _ (drain_all_some i) Hrun).
Qed.

(* the k-th lookup of any sequence, when it is for a term with a well-formed
   general postings list: the count and the postings of the specification
   (live postings, delivered under the flags), whatever was preallocated *)
Theorem general_term_in_sequence (lks : list lookup) (k : nat) (lk : lookup)
        (f : list bytes) m (ps : list EPosting) (cs : N) (total : nat) :
  nth_error lks k = Some lk ->
  lk_dict lk = FST f m ->
  fst_get (lk_term lk) m = Some (VGen (map ep_doc ps), encode_gen cs total ps) ->
  wf_postings (length f) ps -> 0 < cs ->
  (forall p, In p ps -> (N.to_nat (ep_doc p / cs) < total)%nat) ->
  exists st os o,
    run_seq st_init lks = Ok (st, os) /\ nth_error os k = Some o /\
    ob_count o = pl_count (encode_gen cs total ps) (lk_except lk) /\
    ob_postings o
    = (map (deliver (lk_freq lk || lk_norm lk || lk_locs lk) (lk_locs lk))
           (filter (fun p => live_opt (lk_except lk) (fst p)) (map (resolve_posting f) ps)),
       Ok tt).
Proof.
  intros Hk Hd Hg Hwf Hcs Htot.
  destruct (reuse_transparent_map lks) as (st & E).
  exists st, (map fresh_obs lks), (fresh_obs lk). split; [exact E |].
  split; [rewrite nth_error_map, Hk; reflexivity |].
  destruct (present_observations lk f m _ _ Hd Hg) as [C P]; [reflexivity |].
  split; [exact C |]. rewrite P. apply general_list_drained; assumption.
Qed.

(* ---- allocation: a new object is not one of the old ones ---- *)

Definition ids_ok {A} (l : list (nat * A)) : Prop :=
  forall id, assoc_get id l <> None -> (id < length l)%nat.

Lemma ids_ok_set {A} (id : nat) (o : A) (l : list (nat * A)) : ids_ok l -> ids_ok (assoc_set id o l).
Proof.
  intros H j Hj. rewrite assoc_set_length. apply H. eapply assoc_get_set_valid_inv. exact Hj.
Qed.

Lemma ids_ok_alloc {A} (o : A) (l : list (nat * A)) : ids_ok l -> ids_ok ((length l, o) :: l).
Proof.
  intros H j Hj. cbn [assoc_get length] in *.
  destruct (Nat.eqb (length l) j) eqn:E.
  - apply Nat.eqb_eq in E. lia.
  - specialize (H j Hj). lia.
Qed.

(* the reference pl_alloc hands out did not exist before *)
Lemma pl_alloc_fresh (s : plstore) (o : PLobj) :
  ids_ok (ps_own s) -> ~ pl_valid s (snd (pl_alloc s o)) /\ ids_ok (ps_own (fst (pl_alloc s o))).
Proof.
  intros H. unfold pl_alloc. cbn [fst snd ps_own]. split; [| apply ids_ok_alloc, H].
  unfold pl_valid. cbn [pl_get]. intros Hv. specialize (H _ Hv). lia.
Qed.

Lemma it_alloc_fresh (s : itstore) (o : ITobj) :
  ids_ok (is_own s) -> ~ it_valid s (snd (it_alloc s o)) /\ ids_ok (is_own (fst (it_alloc s o))).
Proof.
  intros H. unfold it_alloc. cbn [fst snd is_own]. split; [| apply ids_ok_alloc, H].
  unfold it_valid. cbn [it_get]. intros Hv. specialize (H _ Hv). lia.
Qed.

Lemma pl_set_ids (s : plstore) (r : plref) (o : PLobj) :
  ids_ok (ps_own s) -> ids_ok (ps_own (pl_set s r o)).
Proof. destruct r; cbn; [auto | apply ids_ok_set]. Qed.

Lemma it_set_ids (s : itstore) (r : itref) (o : ITobj) :
  ids_ok (is_own s) -> ids_ok (is_own (it_set s r o)).
Proof. destruct r; cbn; [auto | apply ids_ok_set]. Qed.

(* every function of the model keeps the stores in that shape (for the
   variants without the guards as well) *)
Lemma init_gen_ids (g c : bool) s sb rv ex s' r :
  postings_list_init_gen g c s sb rv ex = Ok (s', r) -> ids_ok (ps_own s) -> ids_ok (ps_own s').
Proof.
  unfold postings_list_init_gen. intros H Hi.
  destruct rv as [r0 |].
  - destruct (g && plref_is_shared r0).
    + inversion H; subst. apply (pl_alloc_fresh s _ Hi).
    + destruct (pl_get s r0); [| discriminate]. inversion H; subst. apply pl_set_ids, Hi.
  - inversion H; subst. apply (pl_alloc_fresh s _ Hi).
Qed.

Lemma postings_list_gen_ids (g c : bool) s d t ex pre s' r :
  postings_list_gen g c s d t ex pre = Ok (s', r) -> ids_ok (ps_own s) -> ids_ok (ps_own s').
Proof.
  unfold postings_list_gen. intros H Hi.
  assert (Habs : forall x,
            match pre with
            | None => Ok (s, SharedEmptyPL)
            | Some SharedEmptyPL => Ok (s, SharedEmptyPL)
            | Some r0 => postings_list_init_gen g c s (dict_sb d) (Some r0) ex
            end = Ok x -> ids_ok (ps_own (fst x))).
  { intros [s0 r0] H0. destruct pre as [[| id] |]; try (inversion H0; subst; exact Hi).
    apply (init_gen_ids _ _ _ _ _ _ _ _ H0 Hi). }
  destruct d as [sb | f m]; [apply (Habs _ H) |].
  destruct (fst_get t m) as [ve |]; [| apply (Habs _ H)].
  destruct (postings_list_init_gen g c s (dict_sb (FST f m)) pre ex) as [[s1 r1] | | | |] eqn:E;
    cbn [rbind] in H; try discriminate.
  destruct (pl_get s1 r1); [| discriminate]. inversion H; subst.
  apply pl_set_ids. apply (init_gen_ids _ _ _ _ _ _ _ _ E Hi).
Qed.

Lemma pl_iterator_ids ps is p fq nm lc pre is' r :
  pl_iterator ps is p fq nm lc pre = Ok (is', r) -> ids_ok (is_own is) -> ids_ok (is_own is').
Proof.
  unfold pl_iterator. intros H Hi.
  destruct (pl_get ps p) as [o |]; [| discriminate].
  destruct (po_is_empty o); [inversion H; subst; exact Hi |].
  destruct ((po_norm1 o =? 0) && (fq || nm || lc) && negb (po_hasSegment o)); [discriminate |].
  destruct pre as [[| id] |]; try (inversion H; subst; apply (it_alloc_fresh is _ Hi)).
  destruct (it_get is (OwnIt id)); [| discriminate].
  injection H as Hs _. rewrite <- Hs. cbn [is_own]. apply ids_ok_set, Hi.
Qed.

Lemma iterate_ids (fuel : nat) : forall is r is' res,
  iterate fuel is r = Ok (is', res) -> ids_ok (is_own is) -> ids_ok (is_own is').
Proof.
  induction fuel as [| f IH]; intros is r is' res H Hi; [discriminate |].
  cbn [iterate] in H. destruct (it_get is r) as [io |]; [| discriminate].
  destruct (step_with_buf (io_it io) (io_buf io) 0) as [[[i' b'] e] | | | |];
    try (inversion H; subst; exact Hi).
  destruct e.
  - destruct (iterate f (it_set is r (mkITobj i' b')) r) as [[is2 rest] | | | |] eqn:E;
      cbn [rbind] in H; try discriminate.
    inversion H; subst. apply (IH _ _ _ _ E). apply it_set_ids, Hi.
  - inversion H; subst. apply it_set_ids, Hi.
Qed.

Theorem run_seq_gen_ids (g c : bool) (lks : list lookup) : forall st st' os,
  run_seq_gen g c st lks = Ok (st', os) ->
  ids_ok (ps_own (st_pls st)) /\ ids_ok (is_own (st_its st)) ->
  ids_ok (ps_own (st_pls st')) /\ ids_ok (is_own (st_its st')).
Proof.
  induction lks as [| lk lks IH]; intros st st' os H Hi; cbn [run_seq_gen] in H.
  - inversion H; subst. exact Hi.
  - destruct (do_lookup_gen g c st lk) as [[st1 o] | | | |] eqn:E; cbn [rbind] in H; try discriminate.
    destruct (run_seq_gen g c st1 lks) as [[st2 os2] | | | |] eqn:E2; cbn [rbind] in H; try discriminate.
    inversion H; subst. apply (IH _ _ _ E2). clear IH E2 H.
    unfold do_lookup_gen in E. destruct Hi as [Hp Hq].
    destruct (postings_list_gen g c (st_pls st) (lk_dict lk) (lk_term lk) (lk_except lk) _)
      as [[pls1 r] | | | |] eqn:E1; cbn [rbind] in E; try discriminate.
    destruct (obs_count pls1 r); cbn [rbind] in E; try discriminate.
    destruct (obs_or_into pls1 r); cbn [rbind] in E; try discriminate.
    destruct (pl_iterator pls1 (st_its st) r _ _ _ _) as [[its1 ri] | | | |] eqn:E3;
      cbn [rbind] in E; try discriminate.
    destruct (obs_iterate its1 ri) as [[its2 res] | | | |] eqn:E4; cbn [rbind] in E; try discriminate.
    inversion E; subst. cbn [st_pls st_its]. split.
    + apply (postings_list_gen_ids _ _ _ _ _ _ _ _ _ E1 Hp).
    + unfold obs_iterate in E4. destruct (it_get its1 ri); [| discriminate].
      apply (iterate_ids _ _ _ _ _ E4). apply (pl_iterator_ids _ _ _ _ _ _ _ _ _ E3 Hq).
Qed.

Corollary run_seq_ids (lks : list lookup) st os :
  run_seq st_init lks = Ok (st, os) -> ids_ok (ps_own (st_pls st)) /\ ids_ok (is_own (st_its st)).
Proof.
  intros H. apply (run_seq_gen_ids true true lks st_init st os H).
  split; intros id Hid; cbn in Hid; congruence.
Qed.

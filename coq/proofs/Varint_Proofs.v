(* Varint_Proofs.v - round trip and length facts for Varint.v *)
From Coq Require Import List NArith Bool Lia.
From Ice Require Import Base Varint.
Import ListNotations.
Open Scope N_scope.
Require Import ZifyBool ZifyN ZifyNat.

Definition is_byte (b : N) : Prop := b < 256.

(* ------------------------------------------------------------------ *)
(* small arithmetic helpers                                            *)

Lemma mod128_lt (x : N) : x mod 128 < 128.
Proof. apply N.mod_lt. discriminate. Qed.

Lemma div_mod_128 (x : N) : x = 128 * (x / 128) + x mod 128.
Proof. apply N.div_mod. discriminate. Qed.

Lemma mod256_lt (x : N) : x mod 256 < 256.
Proof. apply N.mod_lt. discriminate. Qed.

Lemma div_mod_256 (x : N) : x = 256 * (x / 256) + x mod 256.
Proof. apply N.div_mod. discriminate. Qed.

Lemma land_disjoint (a b n : N) : a < 2 ^ n -> N.land a (b * 2 ^ n) = 0.
Proof.
  intros Ha. apply N.bits_inj. intros i.
  rewrite N.land_spec, N.bits_0.
  destruct (N.lt_ge_cases i n) as [Hlt | Hge].
  - rewrite N.mul_pow2_bits_low by exact Hlt. apply andb_false_r.
  - rewrite <- (N.mod_small a (2 ^ n)) by exact Ha.
    rewrite N.mod_pow2_bits_high by exact Hge. reflexivity.
Qed.

Lemma lor_disjoint (a b n : N) : a < 2 ^ n -> N.lor a (b * 2 ^ n) = a + b * 2 ^ n.
Proof.
  intros Ha. pose proof (land_disjoint a b n Ha) as Hl.
  rewrite <- (N.lxor_lor _ _ Hl).
  symmetry. apply N.add_nocarry_lxor. exact Hl.
Qed.

Lemma land_127 (x : N) : N.land (x mod 128 + 128) 127 = x mod 128.
Proof.
  change 127 with (N.ones 7). rewrite N.land_ones.
  change (2 ^ 7) with 128.
  replace (x mod 128 + 128) with (x mod 128 + 1 * 128) by lia.
  rewrite N.mod_add by discriminate.
  apply N.mod_small. apply mod128_lt.
Qed.

Lemma wrap64_small (y : N) : y < two64 -> wrap64 y = y.
Proof. intros H. unfold wrap64. apply N.mod_small. exact H. Qed.

Lemma pow128_succ (f : nat) : 128 ^ N.of_nat (S f) = 128 * 128 ^ N.of_nat f.
Proof. rewrite Nat2N.inj_succ. apply N.pow_succ_r'. Qed.

Lemma pow2_pos (n : N) : 0 < 2 ^ n.
Proof. apply N.neq_0_lt_0. apply N.pow_nonzero. discriminate. Qed.

Lemma pow2_add7 (n : N) : 2 ^ (n + 7) = 128 * 2 ^ n.
Proof. rewrite N.pow_add_r. change (2 ^ 7) with 128. lia. Qed.

(* the overflow test of ReadUvarint is false on the last byte *)
Lemma no_overflow (x shift acc : N) :
  acc + x * 2 ^ shift < two64 -> (shift = 0 \/ 1 <= x) ->
  (63 <=? shift) && ((63 <? shift) || ((shift =? 63) && (1 <? x))) = false.
Proof.
  intros Hb Hx.
  destruct (N.le_gt_cases 63 shift) as [Hge | Hlt].
  2:{ replace (63 <=? shift) with false by lia. reflexivity. }
  assert (Hx1 : 1 <= x) by lia.
  assert (H63 : 2 ^ 63 <= 2 ^ shift) by (apply N.pow_le_mono_r; [discriminate | exact Hge]).
  destruct (N.eq_dec shift 63) as [He | Hne].
  - subst shift.
    assert (x < 2).
    { change two64 with (2 * 2 ^ 63) in Hb.
      destruct (N.lt_ge_cases x 2) as [Hlt2 | Hge2]; [exact Hlt2 | exfalso].
      pose proof (N.mul_le_mono_r 2 x (2 ^ 63) Hge2). lia. }
    replace (63 <? 63) with false by lia.
    replace (1 <? x) with false by lia.
    now rewrite !andb_false_r.
  - exfalso.
    assert (Hge' : 64 <= shift) by lia.
    assert (H64 : 2 ^ 64 <= 2 ^ shift) by (apply N.pow_le_mono_r; [discriminate | exact Hge']).
    change (2 ^ 64) with two64 in H64.
    pose proof (N.mul_le_mono_r 1 x (2 ^ shift) Hx1). lia.
Qed.

(* ------------------------------------------------------------------ *)
(* put_uvarint: shape                                                  *)

Lemma put_uvarint_fuel_bytes (fuel : nat) : forall x, Forall is_byte (put_uvarint_fuel fuel x).
Proof.
  induction fuel as [| f IH]; intros x; cbn [put_uvarint_fuel].
  - constructor; [| constructor]. unfold is_byte. pose proof (mod128_lt x). lia.
  - destruct (x <? 128) eqn:E.
    + constructor; [| constructor]. unfold is_byte. lia.
    + constructor; [| apply IH]. unfold is_byte. pose proof (mod128_lt x). lia.
Qed.

Lemma put_uvarint_bytes (x : N) : Forall is_byte (put_uvarint x).
Proof. apply put_uvarint_fuel_bytes. Qed.

Lemma put_uvarint_nonempty (x : N) : put_uvarint x <> [].
Proof.
  unfold put_uvarint. cbn [put_uvarint_fuel].
  destruct (x <? 128); discriminate.
Qed.

Lemma put_uvarint_fuel_length_le (fuel : nat) :
  forall x, (length (put_uvarint_fuel fuel x) <= S fuel)%nat.
Proof.
  induction fuel as [| f IH]; intros x; cbn [put_uvarint_fuel].
  - cbn [length]. lia.
  - destruct (x <? 128).
    + cbn [length]. lia.
    + cbn [length]. specialize (IH (x / 128)). lia.
Qed.

Lemma put_uvarint_length_le (x : N) : (length (put_uvarint x) <= 11)%nat.
Proof. apply (put_uvarint_fuel_length_le 10). Qed.

Lemma put_uvarint_fuel_length (fuel : nat) :
  forall x, lenN (put_uvarint_fuel fuel x) = num_uvarint_bytes_fuel fuel x.
Proof.
  unfold lenN.
  induction fuel as [| f IH]; intros x; cbn [put_uvarint_fuel num_uvarint_bytes_fuel].
  - reflexivity.
  - destruct (x <? 128).
    + reflexivity.
    + cbn [length]. rewrite Nat2N.inj_succ, IH. lia.
Qed.

Theorem put_uvarint_length (x : N) :
  x < two64 -> lenN (put_uvarint x) = num_uvarint_bytes x.
Proof. intros _. apply put_uvarint_fuel_length. Qed.

(* ------------------------------------------------------------------ *)
(* skip                                                                *)

Lemma skip_put_uvarint_fuel (fuel : nat) :
  forall x rest, skip_uvarint (put_uvarint_fuel fuel x ++ rest) = Some rest.
Proof.
  induction fuel as [| f IH]; intros x rest; cbn [put_uvarint_fuel].
  - cbn [app skip_uvarint].
    pose proof (mod128_lt x) as H.
    replace (x mod 128 <? 128) with true by lia. reflexivity.
  - destruct (x <? 128) eqn:E.
    + cbn [app skip_uvarint]. rewrite E. reflexivity.
    + cbn [app skip_uvarint].
      pose proof (mod128_lt x) as H.
      replace (x mod 128 + 128 <? 128) with false by lia.
      apply IH.
Qed.

Theorem skip_put_uvarint (x : N) (rest : bytes) :
  x < two64 -> skip_uvarint (put_uvarint x ++ rest) = Some rest.
Proof. intros _. apply skip_put_uvarint_fuel. Qed.

(* ------------------------------------------------------------------ *)
(* read                                                                *)

Lemma read_last_byte (x shift acc : N) (rest : bytes) :
  x < 128 -> acc < 2 ^ shift -> acc + x * 2 ^ shift < two64 ->
  (shift = 0 \/ 1 <= x) ->
  read_uvarint_aux (x :: rest) shift acc = Some (Some (acc + x * 2 ^ shift), rest).
Proof.
  intros Hx Hacc Hb Hs.
  cbn [read_uvarint_aux].
  replace (x <? 128) with true by lia.
  rewrite (no_overflow x shift acc Hb Hs).
  rewrite N.shiftl_mul_pow2.
  rewrite (wrap64_small (x * 2 ^ shift)) by lia.
  rewrite lor_disjoint by exact Hacc.
  rewrite wrap64_small by exact Hb.
  reflexivity.
Qed.

Lemma read_put_uvarint_fuel (fuel : nat) :
  forall x shift acc rest,
    x < 128 ^ N.of_nat (S fuel) ->
    acc < 2 ^ shift ->
    acc + x * 2 ^ shift < two64 ->
    (shift = 0 \/ 1 <= x) ->
    read_uvarint_aux (put_uvarint_fuel fuel x ++ rest) shift acc
    = Some (Some (acc + x * 2 ^ shift), rest).
Proof.
  induction fuel as [| f IH]; intros x shift acc rest Hx Hacc Hb Hs.
  - cbn [put_uvarint_fuel app].
    change (128 ^ N.of_nat 1) with 128 in Hx.
    rewrite (N.mod_small x 128) by exact Hx.
    apply read_last_byte; assumption.
  - cbn [put_uvarint_fuel].
    destruct (x <? 128) eqn:E.
    + cbn [app]. apply read_last_byte; try assumption. lia.
    + cbn [app read_uvarint_aux].
      pose proof (mod128_lt x) as Hm.
      pose proof (div_mod_128 x) as Hdm.
      pose proof (pow2_pos shift) as Hp.
      replace (x mod 128 + 128 <? 128) with false by lia.
      rewrite land_127.
      rewrite N.shiftl_mul_pow2.
      assert (Hsplit : x * 2 ^ shift
                       = x mod 128 * 2 ^ shift + x / 128 * (128 * 2 ^ shift)).
      { transitivity ((128 * (x / 128) + x mod 128) * 2 ^ shift);
          [f_equal; exact Hdm | ring]. }
      assert (Hq : 1 <= x / 128).
      { apply N.div_le_lower_bound; [discriminate | lia]. }
      clear Hdm.
      rewrite (wrap64_small (x mod 128 * 2 ^ shift)) by lia.
      rewrite lor_disjoint by exact Hacc.
      rewrite wrap64_small by lia.
      rewrite IH.
      * rewrite pow2_add7. do 3 f_equal. lia.
      * rewrite pow128_succ in Hx.
        apply N.div_lt_upper_bound; [discriminate | exact Hx].
      * rewrite pow2_add7.
        assert (x mod 128 * 2 ^ shift <= 127 * 2 ^ shift)
          by (apply N.mul_le_mono_r; lia).
        lia.
      * rewrite pow2_add7. lia.
      * right. exact Hq.
Qed.

Theorem read_put_uvarint (x : N) (rest : bytes) :
  x < two64 -> read_uvarint (put_uvarint x ++ rest) = Some (Some x, rest).
Proof.
  intros Hx. unfold read_uvarint, put_uvarint.
  rewrite read_put_uvarint_fuel.
  - change (2 ^ 0) with 1. do 3 f_equal. lia.
  - eapply N.lt_le_trans; [exact Hx |]. unfold two64. vm_compute. discriminate.
  - change (2 ^ 0) with 1. lia.
  - change (2 ^ 0) with 1. lia.
  - left. reflexivity.
Qed.

(* ------------------------------------------------------------------ *)
(* sequences of varints                                                *)

Fixpoint read_many (n : nat) (s : bytes) : option (list N * bytes) :=
  match n with
  | O => Some ([], s)
  | S n' =>
      match read_uvarint s with
      | Some (Some v, s') =>
          match read_many n' s' with
          | Some (vs, s'') => Some (v :: vs, s'')
          | None => None
          end
      | _ => None
      end
  end.

Theorem read_put_uvarints (xs : list N) (rest : bytes) :
  Forall (fun x => x < two64) xs ->
  read_many (length xs) (put_uvarints xs ++ rest) = Some (xs, rest).
Proof.
  intros H. induction H as [| x xs Hx Hxs IH].
  - reflexivity.
  - cbn [length read_many]. unfold put_uvarints in *. cbn [flat_map'].
    rewrite <- app_assoc.
    rewrite read_put_uvarint by exact Hx.
    rewrite IH. reflexivity.
Qed.

Theorem put_uvarints_length (xs : list N) :
  Forall (fun x => x < two64) xs -> lenN (put_uvarints xs) = sumN (map num_uvarint_bytes xs).
Proof.
  intros H. induction H as [| x xs Hx Hxs IH].
  - reflexivity.
  - unfold put_uvarints in *. cbn [flat_map' map sumN].
    rewrite <- IH, <- (put_uvarint_length x Hx).
    unfold lenN. rewrite app_length. lia.
Qed.

(* ------------------------------------------------------------------ *)
(* big-endian fixed width integers                                     *)

Lemma be_value_app (l : bytes) : forall y acc, be_value (l ++ [y]) acc = be_value l acc * 256 + y.
Proof.
  induction l as [| a l IH]; intros y acc; cbn [app be_value].
  - reflexivity.
  - apply IH.
Qed.

Lemma pow256_succ (w : nat) : 256 ^ N.of_nat (S w) = 256 * 256 ^ N.of_nat w.
Proof. rewrite Nat2N.inj_succ. apply N.pow_succ_r'. Qed.

Theorem be_value_bytes (w : nat) (x : N) : x < 256 ^ (N.of_nat w) -> be_value (be_bytes w x) 0 = x.
Proof.
  revert x. induction w as [| w IH]; intros x Hx.
  - cbn [be_bytes be_value]. change (256 ^ N.of_nat 0) with 1 in Hx. lia.
  - cbn [be_bytes]. rewrite be_value_app.
    rewrite IH.
    + pose proof (div_mod_256 x). lia.
    + rewrite pow256_succ in Hx.
      apply N.div_lt_upper_bound; [discriminate | exact Hx].
Qed.

Lemma be_bytes_length (w : nat) (x : N) : length (be_bytes w x) = w.
Proof.
  revert x. induction w as [| w IH]; intros x; cbn [be_bytes].
  - reflexivity.
  - rewrite app_length, IH. cbn [length]. lia.
Qed.

Lemma be_bytes_are_bytes (w : nat) (x : N) : Forall is_byte (be_bytes w x).
Proof.
  revert x. induction w as [| w IH]; intros x; cbn [be_bytes].
  - constructor.
  - apply Forall_app. split; [apply IH |].
    constructor; [| constructor]. unfold is_byte. apply mod256_lt.
Qed.

Theorem be_bytes_value (b : bytes) : Forall is_byte b -> be_bytes (length b) (be_value b 0) = b.
Proof.
  induction b as [| y l IH] using rev_ind; intros H.
  - reflexivity.
  - apply Forall_app in H. destruct H as [Hl Hy].
    inversion Hy as [| y' l' Hy' _]; subst. unfold is_byte in Hy'.
    rewrite app_length. cbn [length]. replace (length l + 1)%nat with (S (length l)) by lia.
    cbn [be_bytes]. rewrite be_value_app.
    replace ((be_value l 0 * 256 + y) / 256) with (be_value l 0).
    2:{ symmetry. rewrite N.div_add_l by discriminate.
        rewrite N.div_small by exact Hy'. lia. }
    replace ((be_value l 0 * 256 + y) mod 256) with y.
    2:{ symmetry. rewrite N.add_comm, N.mod_add by discriminate.
        apply N.mod_small. exact Hy'. }
    rewrite IH by exact Hl. reflexivity.
Qed.

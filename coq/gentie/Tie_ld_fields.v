(* props: C04, C10, C16 *)
(* load.go loadFields, regenerated from the source, equals Container.load_fields_loop and the state it implies. *)
From Coq Require Import ZArith List Lia PeanoNat Bool.
From Ice Require Import Base Varint Footer Container GenLib.
From IceProofs Require Import Varint_Proofs.   (* is_byte *)
From IceGen Require Import Generated Tie_00_loadlib.
Import ListNotations.
Open Scope N_scope.

Ltac Zify.zify_post_hook ::= Z.div_mod_to_equations.

(* ------------------------------------------------------------------ *)
(* loadFields                                                          *)

(* what loadFields leaves in the segment, as a function of the records read *)
Fixpoint fieldsMap_of (i : N) (raw : list field_rec) (m : list (bytes * N)) : list (bytes * N) :=
  match raw with
  | [] => m
  | (_, name, _, _) :: raw' => fieldsMap_of (i + 1) raw' ((name, u16 (i + 1)) :: m)
  end.
Definition loadFields_state (raw : list field_rec) :=
  (map (fun f : field_rec => fst (fst (fst f))) raw,
   map_put_all 0 (map (fun f : field_rec => snd (fst f)) raw) [],
   map_put_all 0 (map (fun f : field_rec => snd f) raw) [],
   map (fun f : field_rec => snd (fst (fst f))) raw,
   fieldsMap_of 0 raw []).

(* the loop of loadFields as it is translated (Generated.v), with the variables
   it reads from outside as parameters (fend = fieldsIndexEnd); state =
   (fieldID, s.dictLocs, s.fieldDocs, s.fieldFreqs, s.fieldsInv, s.fieldsMap) *)
Definition lf_state :=
  (N * list N * list (N * N) * list (N * N) * list bytes * list (bytes * N))%type.

Definition lf_cond (fio fend : N) : lf_state -> bool :=
  fun '(fieldID, dictLocs, fieldDocs, fieldFreqs, fieldsInv, fieldsMap) =>
    N.ltb (wrap64 (fio + wrap64 (8 * fieldID))) fend.

Definition lf_body (data : bytes) (fio fend : N) : lf_state -> result lf_state :=
  fun '(fieldID, dictLocs, fieldDocs, fieldFreqs, fieldsInv, fieldsMap) =>
    do addrData <- data_read_int data (int_of_u64 (wrap64 (fio + wrap64 (8 * fieldID))))
                     (int_of_u64 (wrap64 (wrap64 (fio + wrap64 (8 * fieldID)) + 8)));
    do addr <- go_be_uint 8%nat addrData;
    do dictLocData <- data_read_int data (int_of_u64 addr) (int_of_u64 fend);
    let '(dictLoc, read) := go_uvarint dictLocData in
    let n := u64_of_int read in
    let dictLocs := dictLocs ++ [dictLoc] in
    let nameLen := 0%N in
    do nameLenData <- data_read_int data (int_of_u64 (wrap64 (addr + n))) (int_of_u64 fend);
    let '(nameLen, read) := go_uvarint nameLenData in
    let n := wrap64 (n + u64_of_int read) in
    do nameData <- data_read_int data (int_of_u64 (wrap64 (addr + n)))
                     (int_of_u64 (wrap64 (wrap64 (addr + n) + nameLen)));
    let n := wrap64 (n + nameLen) in
    do fieldDocData <- data_read_int data (int_of_u64 (wrap64 (addr + n))) (int_of_u64 fend);
    let '(fieldDocVal, read) := go_uvarint fieldDocData in
    let n := wrap64 (n + u64_of_int read) in
    do fieldFreqData <- data_read_int data (int_of_u64 (wrap64 (addr + n))) (int_of_u64 fend);
    let '(fieldFreqVal, _) := go_uvarint fieldFreqData in
    let name := nameData in
    let fieldsInv := fieldsInv ++ [name] in
    let fieldsMap := (name, u16 (wrap64 (fieldID + 1))) :: fieldsMap in
    let fieldDocs := (u16 fieldID, fieldDocVal) :: fieldDocs in
    let fieldFreqs := (u16 fieldID, fieldFreqVal) :: fieldFreqs in
    let fieldID := wrap64 (fieldID + 1) in
    Ok (fieldID, dictLocs, fieldDocs, fieldFreqs, fieldsInv, fieldsMap).

(* loadFields_state generalised to a loop entered with field id j (mod 2^64) and
   the accumulators dl, fd, ff, fi, fm *)
Definition lf_final (j : N) (dl : list N) (fd ff : list (N * N)) (fi : list bytes)
           (fm : list (bytes * N)) (raw : list field_rec) :=
  (dl ++ map (fun f : field_rec => fst (fst (fst f))) raw,
   map_put_all j (map (fun f : field_rec => snd (fst f)) raw) fd,
   map_put_all j (map (fun f : field_rec => snd f) raw) ff,
   fi ++ map (fun f : field_rec => snd (fst (fst f))) raw,
   fieldsMap_of j raw fm).

(* Both loops test the condition before the fuel, so the same fuel serves both.
   The unwrapped counter j of map_put_all / fieldsMap_of and the wrapped
   fieldID agree modulo 2^64, which is all u16 and the loop condition see. *)
Lemma lf_loop (data : bytes) (fio : N) :
  forall (fuel : nat) (j : N) (dl : list N) (fd ff : list (N * N)) (fi : list bytes)
         (fm : list (bytes * N)),
    rbind (loop_fuel_r fuel (lf_cond fio (lenN data)) (lf_body data fio (lenN data))
             (wrap64 j, dl, fd, ff, fi, fm))
          (fun '(fieldID, dictLocs, fieldDocs, fieldFreqs, fieldsInv, fieldsMap) =>
             Ok (dictLocs, fieldDocs, fieldFreqs, fieldsInv, fieldsMap))
    = lift (lf_final j dl fd ff fi fm) (load_fields_loop fuel data fio (wrap64 j)).
Proof.
  induction fuel as [| fuel IH]; intros j dl fd ff fi fm.
  - rewrite loop_fuel_r_unfold. unfold lf_cond at 1. cbv beta iota. cbn [load_fields_loop].
    destruct (wrap64 (fio + wrap64 (8 * wrap64 j)) <? lenN data); cbn [rbind lift]; [reflexivity |].
    unfold lf_final. cbn [map map_put_all fieldsMap_of]. rewrite !app_nil_r. reflexivity.
  - rewrite loop_fuel_r_unfold. unfold lf_cond at 1. cbv beta iota. cbn [load_fields_loop].
    destruct (wrap64 (fio + wrap64 (8 * wrap64 j)) <? lenN data); cbn [rbind lift].
    2:{ unfold lf_final. cbn [map map_put_all fieldsMap_of]. rewrite !app_nil_r. reflexivity. }
    unfold lf_body at 1. cbv beta iota zeta.
    (* addr *)
    rewrite (bind_read_be _ _ _ 8%nat) by (intros H; apply (span_u64 _ 8); [reflexivity | exact H]).
    match goal with |- context [rbind (data_read_int data ?s ?e) _] =>
      destruct (data_read_int data s e) as [addrData | | | |]; cbn [rbind lift]; try reflexivity end.
    (* the record at addr: the same reads and varints on both sides *)
    unfold load_field_at. cbv zeta.
    repeat match goal with
           | |- context [rbind (data_read_int data ?s ?e) _] =>
               destruct (data_read_int data s e); cbn [rbind lift]; try reflexivity
           | |- context [match go_uvarint ?x with _ => _ end] =>
               destruct (go_uvarint x); rewrite ?wrap64_add_l
           end.
    (* the rest of the loop *)
    cbn [rbind]. rewrite ?wrap64_add_l, ?u16_wrap64. rewrite IH.
    destruct (load_fields_loop fuel data fio (wrap64 (j + 1))) as [rest | | | |];
      cbn [rbind lift]; try reflexivity.
    unfold lf_final. cbn [map map_put_all fieldsMap_of fst snd].
    rewrite <- !app_assoc. reflexivity.
Qed.

Theorem tie_loadFields (fuel : nat) (data : bytes) (fio : N) :
  fio < two64 -> lenN data < two63 -> N.of_nat fuel < two63 ->
  g_Segment_loadFields fuel data [] [] [] [] [] fio =
  lift loadFields_state (load_fields_loop fuel data fio 0).
Proof.
  intros _ Hlen _. unfold g_Segment_loadFields, c_fileAddrWidth. cbv zeta.
  rewrite (u64_of_int_lenN data Hlen).
  exact (lf_loop data fio fuel 0 [] [] [] [] []).
Qed.
Print Assumptions tie_loadFields.


(* props: C01, C02, C03, C04, C05, C06, C07, C10, C11 *)
(* Every format constant of the current source equals the constant the (pinned) model uses. *)
From Coq Require Import NArith.
From Ice Require Import Base Spec Chunk Postings Footer Stored DocValues.
From IceGen Require Import Generated.
Open Scope N_scope.

Theorem tie_legacyChunkMode : c_legacyChunkMode = Chunk.legacyChunkMode. Proof. reflexivity. Qed.
Theorem tie_chunkModeV1 : c_chunkModeV1 = Chunk.chunkModeV1. Proof. reflexivity. Qed.
Theorem tie_defaultChunkMode : c_defaultChunkMode = 1025. Proof. reflexivity. Qed.
Theorem tie_maxDocsToScanSequentially : c_maxDocsToScanSequentially = Chunk.maxDocsToScanSequentially. Proof. reflexivity. Qed.
Theorem tie_defaultDocumentChunkSize : c_defaultDocumentChunkSize = Stored.block_docs. Proof. reflexivity. Qed.
Theorem tie_termSeparator : c_termSeparator = DocValues.termSeparator. Proof. reflexivity. Qed.
Theorem tie_dv_chunk : c_legacyChunkMode = DocValues.dv_chunk_docs. Proof. reflexivity. Qed.
Theorem tie_Version : c_Version = Footer.Version. Proof. reflexivity. Qed.
Theorem tie_footerLen : c_footerLen = N.of_nat Footer.footerLen. Proof. reflexivity. Qed.
Theorem tie_footer_widths :
  (c_numDocsWidth, c_storedOffsetWidth, c_fieldsOffsetWidth, c_fdvOffsetWidth, c_chunkWidth, c_verWidth, c_crcWidth)
  = (8, 8, 8, 8, 4, 4, 4).
Proof. reflexivity. Qed.
Theorem tie_fileAddrWidth : c_fileAddrWidth = 8. Proof. reflexivity. Qed.
Theorem tie_docDropped : c_docDropped = Spec.docDropped. Proof. reflexivity. Qed.
Theorem tie_docNum1HitFinished : c_docNum1HitFinished = Postings.docNum1HitFinished. Proof. reflexivity. Qed.
Theorem tie_mask31Bits : c_mask31Bits = 2147483647. Proof. reflexivity. Qed.
Theorem tie_fst_masks : (c_fSTValEncodingMask, c_fSTValEncoding1Hit) = (13835058055282163712, 9223372036854775808). Proof. reflexivity. Qed.
Theorem tie_termNotEncoded : c_termNotEncoded = 0. Proof. reflexivity. Qed.
Theorem tie_fieldNotUninverted : c_fieldNotUninverted = 18446744073709551615. Proof. reflexivity. Qed.
Theorem tie_dv_trailer_widths : (c_fieldDvStartWidth, c_fieldDvEndWidth, c_fieldDvStartEndWidth) = (8, 8, 16). Proof. reflexivity. Qed.
Theorem tie_numUintsLocation : c_numUintsLocation = 4. Proof. reflexivity. Qed.
Theorem tie_varint_reader : (c_lastByte, c_significantBits, c_sevenTimesNine) = (128, 127, 63). Proof. reflexivity. Qed.
Theorem tie_ZSTDCompressionLevel : c_ZSTDCompressionLevel = 3. Proof. reflexivity. Qed.

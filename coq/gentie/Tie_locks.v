(* props: C19, C09 *)
(* Every function of the current source that touches a mutex releases it on every path. *)
From Coq Require Import List Bool NArith.
From Ice Require Import Base Lock.
From IceGen Require Import Generated.
Open Scope N_scope.

Theorem tie_all_skeletons_balanced : forallb balanced all_skels = true.
Proof. vm_compute. reflexivity. Qed.

(* the list is not vacuous: every Lock()/RLock() call expression the translator finds in the
   syntax tree of the package (counted independently of the skeleton extraction) is a KLock
   of one of the skeletons, and there is at least one (the FST cache of a segment is guarded) *)
Fixpoint count_locks (s : skel) : N :=
  match s with
  | KLock => 1
  | KSeq a b => count_locks a + count_locks b
  | KIf a b => count_locks a + count_locks b
  | KLoop b => count_locks b
  | _ => 0
  end.
Theorem tie_every_lock_site_in_a_skeleton :
  fold_right (fun s n => count_locks s + n) 0 all_skels = lock_call_sites.
Proof. vm_compute. reflexivity. Qed.
Theorem tie_some_lock_site : 0 < lock_call_sites.
Proof. vm_compute. reflexivity. Qed.

(* props: C19, C09 *)
(* Every function of the current source that touches a mutex releases it on every path. *)
From Coq Require Import List Bool.
From Ice Require Import Base Lock.
From IceGen Require Import Generated.

Theorem tie_all_skeletons_balanced : forallb balanced all_skels = true.
Proof. vm_compute. reflexivity. Qed.
(* the function the property is about is still among them *)
Theorem tie_dictionary_balanced : balanced skel_Segment_dictionary = true.
Proof. vm_compute. reflexivity. Qed.
Theorem tie_dictionary_listed : In skel_Segment_dictionary all_skels.
Proof. simpl. auto. Qed.

(* props: C01, C02, C05, C10 *)
(* Tie_functions.v - the pure functions that the translator produced from the Go
   source (IceGen.Generated, regenerated on every run) compute the same values
   as the hand-written model in theories/.

   The proofs deliberately avoid depending on the syntactic shape of the
   generated terms: arithmetic goals are unfolded and closed by lia (with / and
   mod by constants), bit-level goals are proved by bitwise extensionality with
   a generic case analysis on the bit index, and the loop of numUvarintBytes is
   handled by a lemma that is parametric in the loop condition and body (only
   their pointwise behaviour matters). *)
From Coq Require Import NArith Bool Lia ZifyBool ZifyN List.
From Ice Require Import Base Chunk Varint Postings GenLib.
From IceGen Require Import Generated.
Open Scope N_scope.
From Coq Require Import ZArith.   (* only for Z.div_mod_to_equations below *)

Ltac Zify.zify_post_hook ::= Z.div_mod_to_equations.

(* ------------------------------------------------------------------ *)
(* generic helpers                                                      *)

Lemma w64_small (y : N) : y < two64 -> wrap64 y = y.
Proof. intros H. unfold wrap64. apply N.mod_small. exact H. Qed.

(* remove every wrap64 whose argument is visibly below 2^64 *)
Ltac drop_wraps :=
  repeat match goal with
  | |- context [wrap64 ?a] => rewrite (w64_small a) by (unfold two64 in *; lia)
  end.

(* shifts by constants as multiplication / division *)
Ltac shifts_to_arith :=
  rewrite ?N.shiftl_mul_pow2, ?N.shiftr_div_pow2;
  repeat match goal with
  | |- context [2 ^ ?k] =>
      let v := eval vm_compute in (2 ^ k) in
      progress change (2 ^ k) with v
  end.

(* all the constants of the generated file that the functions below mention *)
Ltac unfold_consts :=
  cbv delta [c_legacyChunkMode c_chunkModeV1 c_maxDocsToScanSequentially
             c_mask31Bits c_mask31BitsRaw
             c_fSTValEncoding1Hit c_fSTValEncoding1HitRaw
             c_fSTValEncodingMask c_fSTValEncodingMaskRaw
             Chunk.legacyChunkMode Chunk.chunkModeV1 Chunk.maxDocsToScanSequentially] in *.

(* ------------------------------------------------------------------ *)
(* C10 : numUvarintBytes / totalUvarintBytes                            *)

Lemma p128_succ (f : nat) : 128 ^ N.of_nat (S f) = 128 * 128 ^ N.of_nat f.
Proof. rewrite Nat2N.inj_succ. apply N.pow_succ_r'. Qed.

Lemma num_fuel_bounds (f : nat) : forall x,
  1 <= num_uvarint_bytes_fuel f x <= N.of_nat f + 1.
Proof.
  induction f as [| f IH]; intros x.
  - cbn [num_uvarint_bytes_fuel]. lia.
  - cbn [num_uvarint_bytes_fuel]. destruct (N.ltb_spec x 128).
    + lia.
    + specialize (IH (x / 128)). rewrite Nat2N.inj_succ.
      remember (num_uvarint_bytes_fuel f (x / 128)) as r. lia.
Qed.

(* the fuel does not matter once it covers the size of the argument *)
Lemma num_fuel_stable (f : nat) : forall (g : nat) (x : N),
  x < 128 ^ N.of_nat (S f) -> x < 128 ^ N.of_nat (S g) ->
  num_uvarint_bytes_fuel f x = num_uvarint_bytes_fuel g x.
Proof.
  induction f as [| f IH]; intros g x Hf Hg.
  - change (128 ^ N.of_nat 1) with 128 in Hf.
    destruct g; cbn [num_uvarint_bytes_fuel].
    + reflexivity.
    + destruct (N.ltb_spec x 128); [reflexivity | lia].
  - destruct g as [| g].
    + change (128 ^ N.of_nat 1) with 128 in Hg.
      cbn [num_uvarint_bytes_fuel]. destruct (N.ltb_spec x 128); [reflexivity | lia].
    + cbn [num_uvarint_bytes_fuel]. destruct (N.ltb_spec x 128); [reflexivity |].
      f_equal. apply IH.
      * rewrite p128_succ in Hf. remember (128 ^ N.of_nat (S f)) as P. lia.
      * rewrite p128_succ in Hg. remember (128 ^ N.of_nat (S g)) as P. lia.
Qed.

(* The loop, for any condition and body that behave like
     for x >= 0x80 { x >>= 7; n++ }
   on the state (n, x). *)
Lemma uvarint_loop (cond : N * N -> bool) (body : N * N -> N * N) :
  (forall n x, cond (n, x) = (128 <=? x)) ->
  (forall n x, n + 1 < two64 -> body (n, x) = (n + 1, x / 128)) ->
  forall (fuel : nat) (n x : N),
    x < 128 ^ N.of_nat (S fuel) ->
    n + N.of_nat fuel + 1 < two64 ->
    exists x', loop_fuel fuel cond body (n, x)
               = Some (n + num_uvarint_bytes_fuel fuel x - 1, x').
Proof.
  intros Hcond Hbody fuel.
  induction fuel as [| fuel IH]; intros n x Hx Hn.
  - change (128 ^ N.of_nat 1) with 128 in Hx.
    cbn [loop_fuel num_uvarint_bytes_fuel]. rewrite Hcond.
    destruct (N.leb_spec 128 x); [lia |].
    exists x. f_equal. f_equal. lia.
  - cbn [loop_fuel num_uvarint_bytes_fuel]. rewrite Hcond.
    destruct (N.leb_spec 128 x) as [Hge | Hlt]; destruct (N.ltb_spec x 128); try lia.
    + rewrite Nat2N.inj_succ in Hn.
      rewrite Hbody by lia.
      destruct (IH (n + 1) (x / 128)) as [x' Hx'].
      * rewrite p128_succ in Hx. remember (128 ^ N.of_nat (S fuel)) as P. lia.
      * lia.
      * exists x'. rewrite Hx'. f_equal. f_equal.
        pose proof (num_fuel_bounds fuel (x / 128)) as Hb.
        remember (num_uvarint_bytes_fuel fuel (x / 128)) as r. lia.
    + exists x. f_equal. f_equal. lia.
Qed.

Lemma num_uvarint_bytes_bounds (x : N) : 1 <= num_uvarint_bytes x <= 11.
Proof. unfold num_uvarint_bytes. pose proof (num_fuel_bounds 10 x) as H. lia. Qed.

Theorem tie_numUvarintBytes (x : N) : x < two64 ->
  g_numUvarintBytes x = Ok (Varint.num_uvarint_bytes x).
Proof.
  intros Hx. unfold g_numUvarintBytes. cbv zeta.
  match goal with
  | |- context [loop_fuel ?k ?c ?b (?n0, x)] =>
      assert (Hx1 : x < 128 ^ N.of_nat (S k))
        by (apply N.lt_le_trans with two64; [exact Hx | vm_compute; discriminate]);
      assert (Hx2 : x < 128 ^ N.of_nat (S 10))
        by (apply N.lt_le_trans with two64; [exact Hx | vm_compute; discriminate]);
      destruct (uvarint_loop c b) with (fuel := k) (n := n0) (x := x) as [x' Hloop];
      [ intros n y; cbv beta iota zeta; first [ reflexivity | lia ]
      | intros n y Hn; cbv beta iota zeta; shifts_to_arith; drop_wraps;
        first [ reflexivity | f_equal; lia ]
      | exact Hx1
      | vm_compute; reflexivity
      | rewrite Hloop, (num_fuel_stable k 10 x Hx1 Hx2) ]
  end.
  fold (num_uvarint_bytes x).
  pose proof (num_uvarint_bytes_bounds x) as Hb.
  cbv beta iota zeta.
  drop_wraps. first [ reflexivity | f_equal; lia ].
Qed.

Theorem tie_totalUvarintBytes (a b c d : N) :
  a < two64 -> b < two64 -> c < two64 -> d < two64 ->
  g_totalUvarintBytes a b c d =
  Ok (num_uvarint_bytes a + num_uvarint_bytes b + num_uvarint_bytes c + num_uvarint_bytes d).
Proof.
  intros Ha Hb Hc Hd. unfold g_totalUvarintBytes. cbv zeta.
  rewrite !tie_numUvarintBytes by assumption.
  cbn [unwrap_num].
  pose proof (num_uvarint_bytes_bounds a).
  pose proof (num_uvarint_bytes_bounds b).
  pose proof (num_uvarint_bytes_bounds c).
  pose proof (num_uvarint_bytes_bounds d).
  drop_wraps. first [ reflexivity | f_equal; lia ].
Qed.



(* props: C04, C10, C11 *)
(* footer.go parseFooter, regenerated from the source, equals Footer.parse_footer. *)
From Coq Require Import ZArith List Lia PeanoNat Bool.
From Ice Require Import Base Varint Footer Container GenLib.
From IceProofs Require Import Varint_Proofs.   (* is_byte *)
From IceGen Require Import Generated Tie_00_loadlib.
Import ListNotations.
Open Scope N_scope.

Ltac Zify.zify_post_hook ::= Z.div_mod_to_equations.

(* ------------------------------------------------------------------ *)
(* parseFooter                                                         *)

Lemma skipn_skipn' {A} (x y : nat) (l : list A) : skipn x (skipn y l) = skipn (y + x) l.
Proof.
  revert l. induction y as [| y IH]; intros l; [reflexivity |].
  destruct l as [| a l]; cbn [skipn Nat.add]; [destruct x; reflexivity | apply IH].
Qed.

(* the Read of [p, e) and BigEndian.UintNN, where [p, e) are the w bytes at
   offset off of the last 44 bytes of the file *)
Lemma read_footer_field {A} (file : bytes) (p e : Z) (off w : nat) (k : N -> result A) :
  (44 <= length file)%nat -> (off + w <= 44)%nat ->
  p = (Z.of_nat (length file) - 44 + Z.of_nat off)%Z -> e = (p + Z.of_nat w)%Z ->
  rbind (data_read_int file p e) (fun b => rbind (go_be_uint w b) k)
  = k (be_value (firstn w (skipn off (take_last 44 file))) 0).
Proof.
  intros H44 Hoff -> ->.
  unfold data_read_int, data_read, lenN.
  match goal with |- context [if ?c then Err else _] => replace c with false by lia end.
  match goal with |- context [if ?c then Ok _ else Err] => replace c with true by lia end.
  cbn [rbind]. unfold take_last. rewrite skipn_skipn'.
  match goal with |- context [firstn ?a (skipn ?b file)] =>
    replace a with w by lia; replace b with (length file - 44 + off)%nat by lia end.
  rewrite go_be_uint_exact; [reflexivity |].
  rewrite firstn_length, skipn_length. lia.
Qed.

Theorem tie_parseFooter (file : bytes) :
  lenN file < two63 ->
  g_parseFooter file = lift footer_fields (parse_footer file).
Proof.
  intros Hlen. unfold g_parseFooter, parse_footer, footerLen, c_footerLen.
  destruct (Nat.ltb (length file) 44) eqn:Hl.
  - replace (Z.of_N (lenN file) <? Z.of_N 44)%Z with true by (unfold lenN; lia). reflexivity.
  - replace (Z.of_N (lenN file) <? Z.of_N 44)%Z with false by (unfold lenN; lia).
    cbv zeta.
    unfold c_crcWidth, c_verWidth, c_chunkWidth, c_fdvOffsetWidth, c_fieldsOffsetWidth,
      c_storedOffsetWidth, c_numDocsWidth, c_Version, Version.
    change (Z.of_N 4) with 4%Z. change (Z.of_N 8) with 8%Z.
    assert (H44 : (44 <= length file)%nat) by lia.
    assert (HL : Z.of_N (lenN file) = Z.of_nat (length file)) by (unfold lenN; lia).
    assert (HL63 : (Z.of_nat (length file) < 9223372036854775808)%Z)
      by (unfold lenN, two63 in Hlen; lia).
    rewrite HL. unwrap_int.
    (* crc, version *)
    rewrite (read_footer_field file _ _ 40%nat 4%nat) by (trivial; lia).
    rewrite (read_footer_field file _ _ 36%nat 4%nat) by (trivial; lia).
    destruct (negb (be_value (firstn 4 (skipn 36 (take_last 44 file))) 0 =? 2)); [reflexivity |].
    (* chunk mode, doc values, fields index, stored index, number of documents *)
    rewrite (read_footer_field file _ _ 32%nat 4%nat) by (trivial; lia).
    rewrite (read_footer_field file _ _ 24%nat 8%nat) by (trivial; lia).
    rewrite (read_footer_field file _ _ 16%nat 8%nat) by (trivial; lia).
    rewrite (read_footer_field file _ _ 8%nat 8%nat) by (trivial; lia).
    rewrite (read_footer_field file _ _ 0%nat 8%nat) by (trivial; lia).
    reflexivity.
Qed.
Print Assumptions tie_parseFooter.


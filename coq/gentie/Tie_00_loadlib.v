(* props: C04, C06, C07, C10, C11, C16 *)
(* Shared lemmas of the Tie_ld_*.v files (one file per translated loader, so that a loader the
   translator cannot handle any more breaks only the obligations about that loader). *)
(* The loaders of the index structures, regenerated from the current source
   (Generated.v section 2c), equal the hand-written byte-exact models the
   container theorems are about (Footer.parse_footer, Container.doc_stored_offset,
   Container.load_stored_chunk_offsets, Container.load_fields_loop). *)
From Coq Require Import ZArith List Lia PeanoNat Bool.
From Ice Require Import Base Varint Footer Container GenLib.
From IceProofs Require Import Varint_Proofs.   (* is_byte *)
From IceGen Require Import Generated.
Import ListNotations.
Open Scope N_scope.
Require Import ZifyBool ZifyN ZifyNat.
Ltac Zify.zify_post_hook ::= Z.div_mod_to_equations.

Definition lift {A B} (g : A -> B) (r : result A) : result B :=
  match r with Ok v => Ok (g v) | Err => Err | Panic => Panic | Block => Block | OutOfFuel => OutOfFuel end.

(* the Go struct `footer` lists its fields in this order *)
Definition footer_fields (f : footer) :=
  (ft_stored f, ft_dv f, ft_fields f, ft_numDocs f, ft_crc f, ft_version f, ft_chunkMode f).

(* ------------------------------------------------------------------ *)
(* Go integers, Data.Read, BigEndian.UintNN, loops: helper lemmas      *)

Lemma wrap_int_small (z : Z) :
  (- 9223372036854775808 <= z < 9223372036854775808)%Z -> wrap_int z = z.
Proof. intros H. unfold wrap_int. lia. Qed.

Lemma wrap_int_add_l (x y : Z) : wrap_int (wrap_int x + y) = wrap_int (x + y).
Proof. unfold wrap_int. lia. Qed.

Lemma wrap64_add_l (x y : N) : wrap64 (wrap64 x + y) = wrap64 (x + y).
Proof. unfold wrap64, two64. lia. Qed.

Lemma u16_wrap64 (x : N) : u16 (wrap64 x) = u16 x.
Proof. unfold u16, wrap64, two64. lia. Qed.

Lemma u64_of_int_lenN (data : bytes) :
  lenN data < two63 -> u64_of_int (Z.of_N (lenN data)) = lenN data.
Proof. unfold u64_of_int, two63. lia. Qed.

(* remove the wrap_int of int arithmetic that provably does not wrap, innermost first *)
Ltac unwrap_int :=
  repeat match goal with
         | |- context [wrap_int ?x] =>
             lazymatch x with
             | context [wrap_int _] => fail
             | _ => rewrite (wrap_int_small x) by lia
             end
         end.

(* a successful Read(s, e): the range is inside the data and e - s bytes come back *)
Lemma data_read_int_ok (d : bytes) (s e : Z) (b : bytes) :
  data_read_int d s e = Ok b ->
  (0 <= s <= e)%Z /\ (e <= Z.of_nat (length d))%Z /\ Z.of_nat (length b) = (e - s)%Z.
Proof.
  unfold data_read_int, data_read, lenN.
  destruct ((s <? 0)%Z || (e <? 0)%Z) eqn:Hneg; [discriminate |].
  destruct ((Z.to_N e <=? N.of_nat (length d)) && (Z.to_N s <=? Z.to_N e)) eqn:Hin; [| discriminate].
  intros [= <-]. rewrite firstn_length, skipn_length. lia.
Qed.

Lemma Forall_firstn {A} (P : A -> Prop) (n : nat) (l : list A) : Forall P l -> Forall P (firstn n l).
Proof.
  revert l. induction n as [| n IH]; intros l H; [constructor |].
  destruct H as [| x l Hx Hl]; [constructor |]. cbn [firstn]. constructor; [exact Hx | apply IH, Hl].
Qed.

Lemma Forall_skipn {A} (P : A -> Prop) (n : nat) (l : list A) : Forall P l -> Forall P (skipn n l).
Proof.
  revert l. induction n as [| n IH]; intros l H; [exact H |].
  destruct H as [| x l Hx Hl]; [constructor |]. cbn [skipn]. apply IH, Hl.
Qed.

Lemma data_read_int_Forall (P : N -> Prop) (d : bytes) (s e : Z) (b : bytes) :
  Forall P d -> data_read_int d s e = Ok b -> Forall P b.
Proof.
  intros Hd. unfold data_read_int, data_read.
  destruct ((s <? 0)%Z || (e <? 0)%Z); [discriminate |].
  destruct ((Z.to_N e <=? lenN d) && (Z.to_N s <=? Z.to_N e)); [| discriminate].
  intros [= <-]. apply Forall_firstn, Forall_skipn, Hd.
Qed.

(* BigEndian.UintNN on a slice of exactly the right length *)
Lemma go_be_uint_exact (w : nat) (b : bytes) : length b = w -> go_be_uint w b = Ok (be_value b 0).
Proof.
  intros <-. unfold go_be_uint. rewrite Nat.ltb_irrefl, firstn_all. reflexivity.
Qed.

(* Read(s, e) followed by BigEndian.UintNN never panics when e - s = w *)
Lemma bind_read_be {A} (d : bytes) (s e : Z) (w : nat) (k : N -> result A) :
  ((0 <= s <= e)%Z -> (e - s)%Z = Z.of_nat w) ->
  rbind (data_read_int d s e) (fun b => rbind (go_be_uint w b) k) =
  rbind (data_read_int d s e) (fun b => k (be_value b 0)).
Proof.
  intros H. destruct (data_read_int d s e) as [b | | | |] eqn:E; try reflexivity.
  cbn [rbind]. apply data_read_int_ok in E. rewrite go_be_uint_exact by lia. reflexivity.
Qed.

(* when both int(x) and int(x + w) are non-negative, x + w did not wrap *)
Lemma span_u64 (x w : N) :
  w < two63 -> (0 <= int_of_u64 x <= int_of_u64 (wrap64 (x + w)))%Z ->
  (int_of_u64 (wrap64 (x + w)) - int_of_u64 x)%Z = Z.of_N w.
Proof. unfold int_of_u64, wrap_int, wrap64, two64, two63. lia. Qed.

Lemma span_int (p w : Z) :
  (0 <= w < 9223372036854775808)%Z -> (0 <= p <= wrap_int (p + w))%Z -> (wrap_int (p + w) - p)%Z = w.
Proof. unfold wrap_int. lia. Qed.

Lemma loop_fuel_r_unfold {S : Type} (fuel : nat) (cond : S -> bool) (body : S -> result S) (s : S) :
  loop_fuel_r fuel cond body s =
  if cond s then
    match fuel with
    | O => OutOfFuel
    | Datatypes.S f => rbind (body s) (fun s' => loop_fuel_r f cond body s')
    end
  else Ok s.
Proof. destruct fuel; reflexivity. Qed.


(* slices written element by element *)

Lemma be_value4_bound (b : bytes) :
  length b = 4%nat -> Forall is_byte b -> be_value b 0 < 4294967296.
Proof.
  intros Hl Hb.
  destruct b as [| b0 [| b1 [| b2 [| b3 [| b4 b]]]]]; try discriminate Hl.
  inversion Hb as [| ? ? H0 Hb0]; subst. inversion Hb0 as [| ? ? H1 Hb1]; subst.
  inversion Hb1 as [| ? ? H2 Hb2]; subst. inversion Hb2 as [| ? ? H3 _]; subst.
  unfold is_byte in *. cbn [be_value]. lia.
Qed.

Lemma list_set_mid {A} (vs : list A) (x v : A) (rest : list A) :
  list_set (vs ++ x :: rest) (length vs) v = vs ++ v :: rest.
Proof.
  induction vs as [| a vs IH]; cbn [app length list_set]; [reflexivity | rewrite IH; reflexivity].
Qed.

Lemma go_slice_set_mid (vs : list N) (x v : N) (rest : list N) :
  go_slice_set (vs ++ x :: rest) (Z.of_nat (length vs)) v = Ok (vs ++ v :: rest).
Proof.
  unfold go_slice_set. rewrite app_length. cbn [length].
  replace ((Z.of_nat (length vs) <? 0)%Z ||
           (Z.of_nat (length vs + S (length rest)) <=? Z.of_nat (length vs))%Z)
    with false by lia.
  rewrite Nat2Z.id, list_set_mid. reflexivity.
Qed.


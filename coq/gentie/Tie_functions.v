(* props: C01, C02, C05, C10 *)
(* Tie_functions.v - the pure functions that the translator produced from the Go
   source (IceGen.Generated, regenerated on every run) compute the same values
   as the hand-written model in theories/.

   The proofs deliberately avoid depending on the syntactic shape of the
   generated terms: arithmetic goals are unfolded and closed by lia (with / and
   mod by constants), bit-level goals are proved by bitwise extensionality with
   a generic case analysis on the bit index, and the loop of numUvarintBytes is
   handled by a lemma that is parametric in the loop condition and body (only
   their pointwise behaviour matters). *)
From Coq Require Import NArith Bool Lia ZifyBool ZifyN List.
From Ice Require Import Base Chunk Varint Postings GenLib.
From IceGen Require Import Generated.
Open Scope N_scope.
From Coq Require Import ZArith.   (* only for Z.div_mod_to_equations below *)

Ltac Zify.zify_post_hook ::= Z.div_mod_to_equations.

(* ------------------------------------------------------------------ *)
(* generic helpers                                                      *)

Lemma w64_small (y : N) : y < two64 -> wrap64 y = y.
Proof. intros H. unfold wrap64. apply N.mod_small. exact H. Qed.

(* remove every wrap64 whose argument is visibly below 2^64 *)
Ltac drop_wraps :=
  repeat match goal with
  | |- context [wrap64 ?a] => rewrite (w64_small a) by (unfold two64 in *; lia)
  end.

(* shifts by constants as multiplication / division *)
Ltac shifts_to_arith :=
  rewrite ?N.shiftl_mul_pow2, ?N.shiftr_div_pow2;
  repeat match goal with
  | |- context [2 ^ ?k] =>
      let v := eval vm_compute in (2 ^ k) in
      progress change (2 ^ k) with v
  end.

(* all the constants of the generated file that the functions below mention *)
Ltac unfold_consts :=
  cbv delta [c_legacyChunkMode c_chunkModeV1 c_maxDocsToScanSequentially
             c_mask31Bits c_mask31BitsRaw
             c_fSTValEncoding1Hit c_fSTValEncoding1HitRaw
             c_fSTValEncodingMask c_fSTValEncodingMaskRaw
             Chunk.legacyChunkMode Chunk.chunkModeV1 Chunk.maxDocsToScanSequentially] in *.

(* ------------------------------------------------------------------ *)
(* C05 / C10 : getChunkSize                                             *)

Theorem tie_getChunkSize (cm card md : N) : card < two64 -> md < two64 ->
  g_getChunkSize cm card md =
  match Chunk.getChunkSize cm card md with Some v => Ok v | None => Err end.
Proof.
  intros Hc Hm.
  unfold g_getChunkSize, Chunk.getChunkSize. unfold_consts. cbv zeta.
  drop_wraps.
  repeat match goal with
  | |- context [?a <=? ?b] => destruct (N.leb_spec a b)
  | |- context [?a =? ?b] => destruct (N.eqb_spec a b)
  | |- context [?a <? ?b] => destruct (N.ltb_spec a b)
  end; try reflexivity; try (exfalso; unfold wrap64, two64 in *; lia);
  drop_wraps;
  first [ reflexivity
        | f_equal; lia
        | f_equal; f_equal; lia
        | f_equal; f_equal; f_equal; lia ].
Qed.

Theorem tie_getChunkSize_no_div_by_zero (cm card md : N) : card < two64 -> md < two64 ->
  (* the translated code guards every Go division: the guard never fires *)
  g_getChunkSize cm card md <> Panic.
Proof.
  intros Hc Hm. rewrite (tie_getChunkSize cm card md Hc Hm).
  destruct (Chunk.getChunkSize cm card md); discriminate.
Qed.

(* ------------------------------------------------------------------ *)
(* C01 : encodeFreqHasLocs / decodeFreqHasLocs                          *)

Lemma lor_bit0 (a b : N) : b < 2 -> N.lor (2 * a) b = 2 * a + b.
Proof.
  intros Hb.
  assert (Hl : N.land (2 * a) b = 0).
  { apply N.bits_inj. intros i. rewrite N.land_spec, N.bits_0.
    destruct (N.eq_0_gt_0_cases i) as [-> | Hi].
    - rewrite N.testbit_even_0. reflexivity.
    - replace b with (b mod 2 ^ 1) by (change (2 ^ 1) with 2; apply N.mod_small; exact Hb).
      rewrite N.mod_pow2_bits_high by lia. apply andb_false_r. }
  rewrite <- (N.lxor_lor _ _ Hl). symmetry. apply N.add_nocarry_lxor. exact Hl.
Qed.

Lemma lor_bit0' (a b : N) : b < 2 -> N.lor b (2 * a) = 2 * a + b.
Proof. intros Hb. rewrite N.lor_comm. apply lor_bit0. exact Hb. Qed.

Lemma land_1_r (x : N) : N.land x 1 = x mod 2.
Proof. change 1 with (N.ones 1) at 1. rewrite N.land_ones. reflexivity. Qed.

Lemma land_1_l (x : N) : N.land 1 x = x mod 2.
Proof. rewrite N.land_comm. apply land_1_r. Qed.

Lemma odd_mod2 (x : N) : N.odd x = (x mod 2 =? 1).
Proof.
  rewrite <- N.bit0_odd. pose proof (N.bit0_mod x) as H.
  destruct (N.testbit x 0); cbn [N.b2n] in H; rewrite <- H; reflexivity.
Qed.

(* the value of the model, in arithmetic form *)
Lemma encodeFreqHasLocs_arith (f : N) (h : bool) :
  Postings.encodeFreqHasLocs f h = (2 * f) mod two64 + (if h then 1 else 0).
Proof.
  unfold Postings.encodeFreqHasLocs, wrap64.
  rewrite N.shiftl_mul_pow2. change (2 ^ 1) with 2. rewrite (N.mul_comm f 2).
  assert (He : exists q, (2 * f) mod two64 = 2 * q).
  { exists (f mod 9223372036854775808). unfold two64. lia. }
  destruct He as [q ->].
  apply lor_bit0. destruct h; lia.
Qed.

Theorem tie_encodeFreqHasLocs (f : N) (h : bool) :
  g_encodeFreqHasLocs f h = Ok (Postings.encodeFreqHasLocs f h).
Proof.
  rewrite encodeFreqHasLocs_arith.
  unfold g_encodeFreqHasLocs, wrap64. cbv zeta.
  shifts_to_arith.
  assert (He : forall y, exists q, y mod two64 = 2 * q \/ y mod 2 = 1).
  { intros y. exists ((y mod two64) / 2). unfold two64. lia. }
  destruct h; f_equal;
  repeat match goal with
  | |- context [N.lor (?y mod two64) 1] =>
      let q := fresh "q" in let Hq := fresh "Hq" in
      destruct (He y) as [q [Hq | Hq]];
      [ rewrite Hq, (lor_bit0 q 1) by lia | exfalso; unfold two64 in *; lia ]
  | |- context [N.lor 1 (?y mod two64)] =>
      let q := fresh "q" in let Hq := fresh "Hq" in
      destruct (He y) as [q [Hq | Hq]];
      [ rewrite Hq, (lor_bit0' q 1) by lia | exfalso; unfold two64 in *; lia ]
  end;
  unfold two64 in *; lia.
Qed.

Theorem tie_decodeFreqHasLocs (x : N) :
  g_decodeFreqHasLocs x = Ok (N.shiftr x 1, N.odd x).
Proof.
  unfold g_decodeFreqHasLocs. cbv zeta.
  rewrite ?land_1_r, ?land_1_l, odd_mod2.
  shifts_to_arith.
  first [ reflexivity | apply f_equal; apply f_equal2; lia ].
Qed.

Theorem tie_freq_roundtrip (f : N) (h : bool) : f < 9223372036854775808 ->
  g_decodeFreqHasLocs (Postings.encodeFreqHasLocs f h) = Ok (f, h).
Proof.
  intros Hf.
  rewrite tie_decodeFreqHasLocs, encodeFreqHasLocs_arith, odd_mod2.
  shifts_to_arith.
  apply f_equal. unfold two64. destruct h; apply f_equal2; lia.
Qed.

(* ------------------------------------------------------------------ *)
(* C02 : the 1-hit encoding of the FST value                            *)

Theorem tie_under32Bits (x : N) : g_under32Bits x = Ok (x <=? 2147483647).
Proof.
  unfold g_under32Bits. unfold_consts.
  first [ reflexivity | f_equal; lia ].
Qed.

(* bit-level reasoning: every operator is pushed down to testbit on the
   variables, then the position of the bit index is split into cases *)

Lemma testbit_wrap64 (a i : N) : N.testbit (wrap64 a) i = (i <? 64) && N.testbit a i.
Proof.
  unfold wrap64. change two64 with (2 ^ 64).
  destruct (N.ltb_spec i 64) as [H | H].
  - rewrite N.mod_pow2_bits_low by exact H. reflexivity.
  - rewrite N.mod_pow2_bits_high by exact H. reflexivity.
Qed.

Lemma testbit_shiftl (a n i : N) :
  N.testbit (N.shiftl a n) i = (n <=? i) && N.testbit a (i - n).
Proof.
  destruct (N.leb_spec n i) as [H | H].
  - rewrite N.shiftl_spec_high' by exact H. reflexivity.
  - rewrite N.shiftl_spec_low by exact H. reflexivity.
Qed.

Lemma testbit_ones (n i : N) : N.testbit (N.ones n) i = (i <? n).
Proof.
  destruct (N.ltb_spec i n) as [H | H].
  - apply N.ones_spec_low. exact H.
  - apply N.ones_spec_high. exact H.
Qed.

Lemma testbit_high (v n i : N) : v < 2 ^ n -> n <= i -> N.testbit v i = false.
Proof.
  intros Hv Hi. rewrite <- (N.mod_small v (2 ^ n)) by exact Hv.
  apply N.mod_pow2_bits_high. exact Hi.
Qed.

Lemma below_two64_by_bits (v : N) : wrap64 v = v -> v < two64.
Proof. intros <-. unfold wrap64. apply N.mod_lt. discriminate. Qed.

(* the constants of the encoding, as bit patterns *)
Ltac consts_to_bits :=
  change 2147483647 with (N.ones 31);
  change 9223372036854775808 with (2 ^ 63);
  change 4611686018427387904 with (2 ^ 62);
  change 13835058055282163712 with (N.lor (2 ^ 63) (2 ^ 62)).

Ltac bits_push :=
  repeat first
    [ rewrite N.land_spec | rewrite N.lor_spec | rewrite N.lxor_spec
    | rewrite testbit_wrap64 | rewrite testbit_shiftl | rewrite N.shiftr_spec'
    | rewrite testbit_ones | rewrite N.pow2_bits_eqb | rewrite N.bits_0 ].

Ltac bits_split :=
  repeat (match goal with
  | |- context [?a <? ?b] => destruct (N.ltb_spec a b)
  | |- context [?a <=? ?b] => destruct (N.leb_spec a b)
  | |- context [?a =? ?b] => destruct (N.eqb_spec a b)
  end; try (exfalso; lia));
  cbn [andb orb negb];
  rewrite ?andb_false_r, ?andb_true_r, ?orb_false_r, ?orb_true_r, ?andb_false_l, ?orb_false_l.

(* bits of a variable that is known to be below 2^31 *)
Ltac bits_high :=
  repeat match goal with
  | Hv : ?v <= 2147483647 |- context [N.testbit ?v ?j] =>
      rewrite (testbit_high v 31 j)
        by (try (change (2 ^ 31) with 2147483648); lia)
  end.

Ltac bits_index i :=
  repeat match goal with
  | |- context [N.testbit ?v ?j] =>
      lazymatch j with i => fail | _ => idtac end;
      replace j with i by lia
  end.

Ltac bits_solve i :=
  bits_push; bits_split; bits_high;
  cbn [andb orb negb];
  rewrite ?andb_false_r, ?andb_true_r, ?orb_false_r, ?orb_true_r;
  bits_index i;
  try reflexivity;
  repeat match goal with
  | |- context [N.testbit ?v ?j] => destruct (N.testbit v j)
  end; reflexivity.

Ltac by_bits :=
  consts_to_bits;
  apply N.bits_inj; let i := fresh "i" in intro i; bits_solve i.

(* the constants themselves: tag 10 in bits 63..62, mask 11, 31 payload bits *)
Theorem tie_1hit_constants :
  c_fSTValEncoding1Hit = 2 ^ 63 /\
  c_fSTValEncodingMask = 2 ^ 63 + 2 ^ 62 /\
  c_mask31Bits = 2 ^ 31 - 1.
Proof. repeat split; vm_compute; reflexivity. Qed.

Ltac open_1hit :=
  cbv beta iota zeta delta [g_fSTValDecode1Hit g_fSTValEncode1Hit unwrap_num];
  unfold_consts.

Theorem tie_1hit_roundtrip (d nb : N) : d <= 2147483647 -> nb <= 2147483647 ->
  g_fSTValDecode1Hit (unwrap_num (g_fSTValEncode1Hit d nb)) = Ok (d, nb).
Proof.
  intros Hd Hn. open_1hit.
  apply f_equal. apply f_equal2; by_bits.
Qed.

Theorem tie_1hit_tag (d nb : N) :
  (* a 1-hit value carries the tag bits 10 in positions 63..62, which is how
     PostingsList.read recognises it *)
  N.land (unwrap_num (g_fSTValEncode1Hit d nb)) c_fSTValEncodingMask = c_fSTValEncoding1Hit.
Proof.
  open_1hit. by_bits.
Qed.

Theorem tie_1hit_below_two64 (d nb : N) : unwrap_num (g_fSTValEncode1Hit d nb) < two64.
Proof.
  open_1hit. apply below_two64_by_bits. by_bits.
Qed.

(* ------------------------------------------------------------------ *)
(* C10 : numUvarintBytes / totalUvarintBytes                            *)

Lemma p128_succ (f : nat) : 128 ^ N.of_nat (S f) = 128 * 128 ^ N.of_nat f.
Proof. rewrite Nat2N.inj_succ. apply N.pow_succ_r'. Qed.

Lemma num_fuel_bounds (f : nat) : forall x,
  1 <= num_uvarint_bytes_fuel f x <= N.of_nat f + 1.
Proof.
  induction f as [| f IH]; intros x.
  - cbn [num_uvarint_bytes_fuel]. lia.
  - cbn [num_uvarint_bytes_fuel]. destruct (N.ltb_spec x 128).
    + lia.
    + specialize (IH (x / 128)). rewrite Nat2N.inj_succ.
      remember (num_uvarint_bytes_fuel f (x / 128)) as r. lia.
Qed.

(* the fuel does not matter once it covers the size of the argument *)
Lemma num_fuel_stable (f : nat) : forall (g : nat) (x : N),
  x < 128 ^ N.of_nat (S f) -> x < 128 ^ N.of_nat (S g) ->
  num_uvarint_bytes_fuel f x = num_uvarint_bytes_fuel g x.
Proof.
  induction f as [| f IH]; intros g x Hf Hg.
  - change (128 ^ N.of_nat 1) with 128 in Hf.
    destruct g; cbn [num_uvarint_bytes_fuel].
    + reflexivity.
    + destruct (N.ltb_spec x 128); [reflexivity | lia].
  - destruct g as [| g].
    + change (128 ^ N.of_nat 1) with 128 in Hg.
      cbn [num_uvarint_bytes_fuel]. destruct (N.ltb_spec x 128); [reflexivity | lia].
    + cbn [num_uvarint_bytes_fuel]. destruct (N.ltb_spec x 128); [reflexivity |].
      f_equal. apply IH.
      * rewrite p128_succ in Hf. remember (128 ^ N.of_nat (S f)) as P. lia.
      * rewrite p128_succ in Hg. remember (128 ^ N.of_nat (S g)) as P. lia.
Qed.

(* The loop, for any condition and body that behave like
     for x >= 0x80 { x >>= 7; n++ }
   on the state (n, x). *)
Lemma uvarint_loop (cond : N * N -> bool) (body : N * N -> N * N) :
  (forall n x, cond (n, x) = (128 <=? x)) ->
  (forall n x, n + 1 < two64 -> body (n, x) = (n + 1, x / 128)) ->
  forall (fuel : nat) (n x : N),
    x < 128 ^ N.of_nat (S fuel) ->
    n + N.of_nat fuel + 1 < two64 ->
    exists x', loop_fuel fuel cond body (n, x)
               = Some (n + num_uvarint_bytes_fuel fuel x - 1, x').
Proof.
  intros Hcond Hbody fuel.
  induction fuel as [| fuel IH]; intros n x Hx Hn.
  - change (128 ^ N.of_nat 1) with 128 in Hx.
    cbn [loop_fuel num_uvarint_bytes_fuel]. rewrite Hcond.
    destruct (N.leb_spec 128 x); [lia |].
    exists x. f_equal. f_equal. lia.
  - cbn [loop_fuel num_uvarint_bytes_fuel]. rewrite Hcond.
    destruct (N.leb_spec 128 x) as [Hge | Hlt]; destruct (N.ltb_spec x 128); try lia.
    + rewrite Nat2N.inj_succ in Hn.
      rewrite Hbody by lia.
      destruct (IH (n + 1) (x / 128)) as [x' Hx'].
      * rewrite p128_succ in Hx. remember (128 ^ N.of_nat (S fuel)) as P. lia.
      * lia.
      * exists x'. rewrite Hx'. f_equal. f_equal.
        pose proof (num_fuel_bounds fuel (x / 128)) as Hb.
        remember (num_uvarint_bytes_fuel fuel (x / 128)) as r. lia.
    + exists x. f_equal. f_equal. lia.
Qed.

Lemma num_uvarint_bytes_bounds (x : N) : 1 <= num_uvarint_bytes x <= 11.
Proof. unfold num_uvarint_bytes. pose proof (num_fuel_bounds 10 x) as H. lia. Qed.

Theorem tie_numUvarintBytes (x : N) : x < two64 ->
  g_numUvarintBytes x = Ok (Varint.num_uvarint_bytes x).
Proof.
  intros Hx. unfold g_numUvarintBytes. cbv zeta.
  match goal with
  | |- context [loop_fuel ?k ?c ?b (?n0, x)] =>
      assert (Hx1 : x < 128 ^ N.of_nat (S k))
        by (apply N.lt_le_trans with two64; [exact Hx | vm_compute; discriminate]);
      assert (Hx2 : x < 128 ^ N.of_nat (S 10))
        by (apply N.lt_le_trans with two64; [exact Hx | vm_compute; discriminate]);
      destruct (uvarint_loop c b) with (fuel := k) (n := n0) (x := x) as [x' Hloop];
      [ intros n y; cbv beta iota zeta; first [ reflexivity | lia ]
      | intros n y Hn; cbv beta iota zeta; shifts_to_arith; drop_wraps;
        first [ reflexivity | f_equal; lia ]
      | exact Hx1
      | vm_compute; reflexivity
      | rewrite Hloop, (num_fuel_stable k 10 x Hx1 Hx2) ]
  end.
  fold (num_uvarint_bytes x).
  pose proof (num_uvarint_bytes_bounds x) as Hb.
  cbv beta iota zeta.
  drop_wraps. first [ reflexivity | f_equal; lia ].
Qed.

Theorem tie_totalUvarintBytes (a b c d : N) :
  a < two64 -> b < two64 -> c < two64 -> d < two64 ->
  g_totalUvarintBytes a b c d =
  Ok (num_uvarint_bytes a + num_uvarint_bytes b + num_uvarint_bytes c + num_uvarint_bytes d).
Proof.
  intros Ha Hb Hc Hd. unfold g_totalUvarintBytes. cbv zeta.
  rewrite !tie_numUvarintBytes by assumption.
  cbn [unwrap_num].
  pose proof (num_uvarint_bytes_bounds a).
  pose proof (num_uvarint_bytes_bounds b).
  pose proof (num_uvarint_bytes_bounds c).
  pose proof (num_uvarint_bytes_bounds d).
  drop_wraps. first [ reflexivity | f_equal; lia ].
Qed.


(* props: C04, C06, C07, C10, C11 *)
(* The loaders of the index structures, regenerated from the current source
   (Generated.v section 2c), equal the hand-written byte-exact models the
   container theorems are about (Footer.parse_footer, Container.doc_stored_offset,
   Container.load_stored_chunk_offsets, Container.load_fields_loop). *)
From Coq Require Import ZArith List Lia PeanoNat Bool.
From Ice Require Import Base Varint Footer Container GenLib.
From IceProofs Require Import Varint_Proofs.   (* is_byte *)
From IceGen Require Import Generated.
Import ListNotations.
Open Scope N_scope.
Require Import ZifyBool ZifyN ZifyNat.
Ltac Zify.zify_post_hook ::= Z.div_mod_to_equations.

Definition lift {A B} (g : A -> B) (r : result A) : result B :=
  match r with Ok v => Ok (g v) | Err => Err | Panic => Panic | Block => Block | OutOfFuel => OutOfFuel end.

(* the Go struct `footer` lists its fields in this order *)
Definition footer_fields (f : footer) :=
  (ft_stored f, ft_dv f, ft_fields f, ft_numDocs f, ft_crc f, ft_version f, ft_chunkMode f).

(* ------------------------------------------------------------------ *)
(* Go integers, Data.Read, BigEndian.UintNN, loops: helper lemmas      *)

Lemma wrap_int_small (z : Z) :
  (- 9223372036854775808 <= z < 9223372036854775808)%Z -> wrap_int z = z.
Proof. intros H. unfold wrap_int. lia. Qed.

Lemma wrap_int_add_l (x y : Z) : wrap_int (wrap_int x + y) = wrap_int (x + y).
Proof. unfold wrap_int. lia. Qed.

Lemma wrap64_add_l (x y : N) : wrap64 (wrap64 x + y) = wrap64 (x + y).
Proof. unfold wrap64, two64. lia. Qed.

Lemma u16_wrap64 (x : N) : u16 (wrap64 x) = u16 x.
Proof. unfold u16, wrap64, two64. lia. Qed.

Lemma u64_of_int_lenN (data : bytes) :
  lenN data < two63 -> u64_of_int (Z.of_N (lenN data)) = lenN data.
Proof. unfold u64_of_int, two63. lia. Qed.

(* remove the wrap_int of int arithmetic that provably does not wrap, innermost first *)
Ltac unwrap_int :=
  repeat match goal with
         | |- context [wrap_int ?x] =>
             lazymatch x with
             | context [wrap_int _] => fail
             | _ => rewrite (wrap_int_small x) by lia
             end
         end.

(* a successful Read(s, e): the range is inside the data and e - s bytes come back *)
Lemma data_read_int_ok (d : bytes) (s e : Z) (b : bytes) :
  data_read_int d s e = Ok b ->
  (0 <= s <= e)%Z /\ (e <= Z.of_nat (length d))%Z /\ Z.of_nat (length b) = (e - s)%Z.
Proof.
  unfold data_read_int, data_read, lenN.
  destruct ((s <? 0)%Z || (e <? 0)%Z) eqn:Hneg; [discriminate |].
  destruct ((Z.to_N e <=? N.of_nat (length d)) && (Z.to_N s <=? Z.to_N e)) eqn:Hin; [| discriminate].
  intros [= <-]. rewrite firstn_length, skipn_length. lia.
Qed.

Lemma Forall_firstn {A} (P : A -> Prop) (n : nat) (l : list A) : Forall P l -> Forall P (firstn n l).
Proof.
  revert l. induction n as [| n IH]; intros l H; [constructor |].
  destruct H as [| x l Hx Hl]; [constructor |]. cbn [firstn]. constructor; [exact Hx | apply IH, Hl].
Qed.

Lemma Forall_skipn {A} (P : A -> Prop) (n : nat) (l : list A) : Forall P l -> Forall P (skipn n l).
Proof.
  revert l. induction n as [| n IH]; intros l H; [exact H |].
  destruct H as [| x l Hx Hl]; [constructor |]. cbn [skipn]. apply IH, Hl.
Qed.

Lemma data_read_int_Forall (P : N -> Prop) (d : bytes) (s e : Z) (b : bytes) :
  Forall P d -> data_read_int d s e = Ok b -> Forall P b.
Proof.
  intros Hd. unfold data_read_int, data_read.
  destruct ((s <? 0)%Z || (e <? 0)%Z); [discriminate |].
  destruct ((Z.to_N e <=? lenN d) && (Z.to_N s <=? Z.to_N e)); [| discriminate].
  intros [= <-]. apply Forall_firstn, Forall_skipn, Hd.
Qed.

(* BigEndian.UintNN on a slice of exactly the right length *)
Lemma go_be_uint_exact (w : nat) (b : bytes) : length b = w -> go_be_uint w b = Ok (be_value b 0).
Proof.
  intros <-. unfold go_be_uint. rewrite Nat.ltb_irrefl, firstn_all. reflexivity.
Qed.

(* Read(s, e) followed by BigEndian.UintNN never panics when e - s = w *)
Lemma bind_read_be {A} (d : bytes) (s e : Z) (w : nat) (k : N -> result A) :
  ((0 <= s <= e)%Z -> (e - s)%Z = Z.of_nat w) ->
  rbind (data_read_int d s e) (fun b => rbind (go_be_uint w b) k) =
  rbind (data_read_int d s e) (fun b => k (be_value b 0)).
Proof.
  intros H. destruct (data_read_int d s e) as [b | | | |] eqn:E; try reflexivity.
  cbn [rbind]. apply data_read_int_ok in E. rewrite go_be_uint_exact by lia. reflexivity.
Qed.

(* when both int(x) and int(x + w) are non-negative, x + w did not wrap *)
Lemma span_u64 (x w : N) :
  w < two63 -> (0 <= int_of_u64 x <= int_of_u64 (wrap64 (x + w)))%Z ->
  (int_of_u64 (wrap64 (x + w)) - int_of_u64 x)%Z = Z.of_N w.
Proof. unfold int_of_u64, wrap_int, wrap64, two64, two63. lia. Qed.

Lemma span_int (p w : Z) :
  (0 <= w < 9223372036854775808)%Z -> (0 <= p <= wrap_int (p + w))%Z -> (wrap_int (p + w) - p)%Z = w.
Proof. unfold wrap_int. lia. Qed.

Lemma loop_fuel_r_unfold {S : Type} (fuel : nat) (cond : S -> bool) (body : S -> result S) (s : S) :
  loop_fuel_r fuel cond body s =
  if cond s then
    match fuel with
    | O => OutOfFuel
    | Datatypes.S f => rbind (body s) (fun s' => loop_fuel_r f cond body s')
    end
  else Ok s.
Proof. destruct fuel; reflexivity. Qed.

(* ------------------------------------------------------------------ *)
(* parseFooter                                                         *)

Lemma skipn_skipn' {A} (x y : nat) (l : list A) : skipn x (skipn y l) = skipn (y + x) l.
Proof.
  revert l. induction y as [| y IH]; intros l; [reflexivity |].
  destruct l as [| a l]; cbn [skipn Nat.add]; [destruct x; reflexivity | apply IH].
Qed.

(* the Read of [p, e) and BigEndian.UintNN, where [p, e) are the w bytes at
   offset off of the last 44 bytes of the file *)
Lemma read_footer_field {A} (file : bytes) (p e : Z) (off w : nat) (k : N -> result A) :
  (44 <= length file)%nat -> (off + w <= 44)%nat ->
  p = (Z.of_nat (length file) - 44 + Z.of_nat off)%Z -> e = (p + Z.of_nat w)%Z ->
  rbind (data_read_int file p e) (fun b => rbind (go_be_uint w b) k)
  = k (be_value (firstn w (skipn off (take_last 44 file))) 0).
Proof.
  intros H44 Hoff -> ->.
  unfold data_read_int, data_read, lenN.
  match goal with |- context [if ?c then Err else _] => replace c with false by lia end.
  match goal with |- context [if ?c then Ok _ else Err] => replace c with true by lia end.
  cbn [rbind]. unfold take_last. rewrite skipn_skipn'.
  match goal with |- context [firstn ?a (skipn ?b file)] =>
    replace a with w by lia; replace b with (length file - 44 + off)%nat by lia end.
  rewrite go_be_uint_exact; [reflexivity |].
  rewrite firstn_length, skipn_length. lia.
Qed.

Theorem tie_parseFooter (file : bytes) :
  lenN file < two63 ->
  g_parseFooter file = lift footer_fields (parse_footer file).
Proof.
  intros Hlen. unfold g_parseFooter, parse_footer, footerLen, c_footerLen.
  destruct (Nat.ltb (length file) 44) eqn:Hl.
  - replace (Z.of_N (lenN file) <? Z.of_N 44)%Z with true by (unfold lenN; lia). reflexivity.
  - replace (Z.of_N (lenN file) <? Z.of_N 44)%Z with false by (unfold lenN; lia).
    cbv zeta.
    unfold c_crcWidth, c_verWidth, c_chunkWidth, c_fdvOffsetWidth, c_fieldsOffsetWidth,
      c_storedOffsetWidth, c_numDocsWidth, c_Version, Version.
    change (Z.of_N 4) with 4%Z. change (Z.of_N 8) with 8%Z.
    assert (H44 : (44 <= length file)%nat) by lia.
    assert (HL : Z.of_N (lenN file) = Z.of_nat (length file)) by (unfold lenN; lia).
    assert (HL63 : (Z.of_nat (length file) < 9223372036854775808)%Z)
      by (unfold lenN, two63 in Hlen; lia).
    rewrite HL. unwrap_int.
    (* crc, version *)
    rewrite (read_footer_field file _ _ 40%nat 4%nat) by (trivial; lia).
    rewrite (read_footer_field file _ _ 36%nat 4%nat) by (trivial; lia).
    destruct (negb (be_value (firstn 4 (skipn 36 (take_last 44 file))) 0 =? 2)); [reflexivity |].
    (* chunk mode, doc values, fields index, stored index, number of documents *)
    rewrite (read_footer_field file _ _ 32%nat 4%nat) by (trivial; lia).
    rewrite (read_footer_field file _ _ 24%nat 8%nat) by (trivial; lia).
    rewrite (read_footer_field file _ _ 16%nat 8%nat) by (trivial; lia).
    rewrite (read_footer_field file _ _ 8%nat 8%nat) by (trivial; lia).
    rewrite (read_footer_field file _ _ 0%nat 8%nat) by (trivial; lia).
    reflexivity.
Qed.
Print Assumptions tie_parseFooter.

(* ------------------------------------------------------------------ *)
(* getDocStoredOffsetsOnly                                             *)

Theorem tie_getDocStoredOffsetsOnly (data : bytes) (sio docNum : N) :
  sio < two64 -> docNum < two64 ->
  g_Segment_getDocStoredOffsetsOnly docNum sio data = doc_stored_offset data sio docNum.
Proof.
  intros _ _. unfold g_Segment_getDocStoredOffsetsOnly, doc_stored_offset, c_fileAddrWidth.
  cbv zeta. rewrite (bind_read_be _ _ _ 8%nat); [reflexivity |].
  intros H. apply (span_u64 _ 8); [reflexivity | exact H].
Qed.
Print Assumptions tie_getDocStoredOffsetsOnly.

(* ------------------------------------------------------------------ *)
(* loadStoredFieldChunk                                                *)

Lemma be_value4_bound (b : bytes) :
  length b = 4%nat -> Forall is_byte b -> be_value b 0 < 4294967296.
Proof.
  intros Hl Hb.
  destruct b as [| b0 [| b1 [| b2 [| b3 [| b4 b]]]]]; try discriminate Hl.
  inversion Hb as [| ? ? H0 Hb0]; subst. inversion Hb0 as [| ? ? H1 Hb1]; subst.
  inversion Hb1 as [| ? ? H2 Hb2]; subst. inversion Hb2 as [| ? ? H3 _]; subst.
  unfold is_byte in *. cbn [be_value]. lia.
Qed.

Lemma list_set_mid {A} (vs : list A) (x v : A) (rest : list A) :
  list_set (vs ++ x :: rest) (length vs) v = vs ++ v :: rest.
Proof.
  induction vs as [| a vs IH]; cbn [app length list_set]; [reflexivity | rewrite IH; reflexivity].
Qed.

Lemma go_slice_set_mid (vs : list N) (x v : N) (rest : list N) :
  go_slice_set (vs ++ x :: rest) (Z.of_nat (length vs)) v = Ok (vs ++ v :: rest).
Proof.
  unfold go_slice_set. rewrite app_length. cbn [length].
  replace ((Z.of_nat (length vs) <? 0)%Z ||
           (Z.of_nat (length vs + S (length rest)) <=? Z.of_nat (length vs))%Z)
    with false by lia.
  rewrite Nat2Z.id, list_set_mid. reflexivity.
Qed.

(* the loop of loadStoredFieldChunk as it is translated (Generated.v), with the
   variables it reads from outside as parameters; state =
   (i, offset, offsetata, read, s.storedFieldChunkOffsets) *)
Definition sfc_state := (Z * Z * bytes * Z * list N)%type.
Definition sfc_cond (chunkNum : N) : sfc_state -> bool :=
  fun '(i, offset, offsetata, read, offs) => Z.ltb i (Z.of_N chunkNum).
Definition sfc_body (data : bytes) (P : Z) : sfc_state -> result sfc_state :=
  fun '(i, offset, offsetata, read, offs) =>
    do offsetata <- data_read_int data (wrap_int (Z.add P offset))
                      (wrap_int (Z.add (wrap_int (Z.add P offset)) 10%Z));
    let '(uv, read) := go_uvarint offsetata in
    do offs <- go_slice_set offs i uv;
    let offset := wrap_int (Z.add offset read) in
    let i := wrap_int (Z.add i 1%Z) in
    Ok (i, offset, offsetata, read, offs).

(* invariant: after length vs iterations the slice is vs ++ zeros, where vs are
   the values the hand-written loop has consed so far *)
Lemma sfc_loop (data : bytes) (P : Z) (chunkNum : N) :
  (Z.of_N chunkNum < 9223372036854775808)%Z ->
  forall (n fuel : nat) (vs : list N) (off : Z) (oa : bytes) (rd : Z),
    (n <= fuel)%nat -> Z.of_nat (length vs + n) = Z.of_N chunkNum ->
    rbind (loop_fuel_r fuel (sfc_cond chunkNum) (sfc_body data P)
             (Z.of_nat (length vs), off, oa, rd, vs ++ repeat 0 n))
          (fun '(i, offset, offsetata, read, offs) => Ok offs)
    = rbind (load_chunk_offsets_loop n data P off) (fun rest => Ok (vs ++ rest)).
Proof.
  intros Hcn. induction n as [| n IH]; intros fuel vs off oa rd Hfuel Hlen.
  - rewrite loop_fuel_r_unfold. unfold sfc_cond at 1. cbv beta iota.
    replace (Z.of_nat (length vs) <? Z.of_N chunkNum)%Z with false by lia.
    cbn [rbind load_chunk_offsets_loop repeat]. reflexivity.
  - destruct fuel as [| fuel]; [lia |].
    rewrite loop_fuel_r_unfold. unfold sfc_cond at 1. cbv beta iota.
    replace (Z.of_nat (length vs) <? Z.of_N chunkNum)%Z with true by lia.
    unfold sfc_body at 1. cbv beta iota zeta.
    cbn [load_chunk_offsets_loop repeat]. rewrite wrap_int_add_l.
    destruct (data_read_int data (wrap_int (P + off)) (wrap_int (P + off + 10))) as [oa' | | | |];
      cbn [rbind]; try reflexivity.
    destruct (go_uvarint oa') as [v r].
    rewrite go_slice_set_mid. cbn [rbind].
    replace (wrap_int (Z.of_nat (length vs) + 1)) with (Z.of_nat (length (vs ++ [v])))
      by (rewrite app_length; cbn [length]; unfold wrap_int; lia).
    replace (vs ++ v :: repeat 0 n) with ((vs ++ [v]) ++ repeat 0 n)
      by (rewrite <- app_assoc; reflexivity).
    rewrite IH by (try rewrite app_length; cbn [length]; lia).
    destruct (load_chunk_offsets_loop n data P (wrap_int (off + r))); cbn [rbind]; try reflexivity.
    rewrite <- app_assoc. reflexivity.
Qed.

(* ADDED HYPOTHESIS [Forall is_byte data] (every element of data is below 256;
   is_byte is the predicate of Varint_Proofs used by the container theorems).
   `bytes` is `list N`, so without it the four "bytes" of chunkNum can encode a
   number of any size: the translated loop runs on the fuel while the
   hand-written loop recurses on N.to_nat chunkNum, so the statement is false
   as soon as chunkNum exceeds the fuel (and beyond 2^63 the int counter i
   wraps as well).  Counterexample with fuel = N.to_nat 4294967296:
     data = repeat 128 10 ++ [0;0;0;10] ++ [0;0;0;8589934592],  sio = 18.
   chunkNum = 2^33, chunkOffsetsLen = 10, chunkOffsetPos = 0; every iteration
   reads the window [0,10), which is ten continuation bytes, so go_uvarint
   returns (0, 0) and offset stays 0: the model returns Ok (repeat 0 2^33),
   the translated function OutOfFuel.  (The same data with 7 instead of 2^33
   and fuel 5 evaluates to (OutOfFuel, Ok [0;0;0;0;0;0;0]).)  With real bytes
   chunkNum < 2^32 <= fuel, which is what the bound on the fuel presupposes. *)
Theorem tie_loadStoredFieldChunk (fuel : nat) (data : bytes) (sio : N) :
  sio < two64 -> lenN data < two63 -> (N.to_nat 4294967296 <= fuel)%nat ->
  Forall is_byte data ->
  g_Segment_loadStoredFieldChunk fuel sio data = load_stored_chunk_offsets data sio.
Proof.
  intros _ _ Hfuel Hbytes.
  unfold g_Segment_loadStoredFieldChunk, load_stored_chunk_offsets, c_sizeOfUint32.
  change (u64_of_int (Z.of_N 4)) with 4. change (Z.of_N 4) with 4%Z. cbv zeta.
  (* chunkNum *)
  rewrite (bind_read_be _ _ _ 4%nat) by (apply span_int; lia).
  destruct (data_read_int data (int_of_u64 (u64_sub sio 4)) (wrap_int (int_of_u64 (u64_sub sio 4) + 4)))
    as [cd1 | | | |] eqn:E1; cbn [rbind]; try reflexivity.
  (* chunkOffsetsLen *)
  rewrite (bind_read_be _ _ _ 4%nat) by (apply span_int; lia).
  match goal with |- context [rbind (data_read_int data ?s ?e) _] =>
    destruct (data_read_int data s e) as [cd2 | | | |]; cbn [rbind]; try reflexivity end.
  assert (Hcn : be_value cd1 0 < 4294967296).
  { apply be_value4_bound.
    - apply data_read_int_ok in E1. pose proof (span_int (int_of_u64 (u64_sub sio 4)) 4). lia.
    - exact (data_read_int_Forall _ _ _ _ _ Hbytes E1). }
  (* the loop *)
  match goal with |- _ = load_chunk_offsets_loop ?n data ?P 0%Z =>
    transitivity (rbind (load_chunk_offsets_loop n data P 0%Z) (fun rest => Ok ([] ++ rest)));
    [ exact (sfc_loop data P (be_value cd1 0) ltac:(lia) n fuel [] 0%Z [] 0%Z
               ltac:(lia) ltac:(cbn [length]; lia))
    | destruct (load_chunk_offsets_loop n data P 0%Z); reflexivity ] end.
Qed.
Print Assumptions tie_loadStoredFieldChunk.

(* ------------------------------------------------------------------ *)
(* loadFields                                                          *)

(* what loadFields leaves in the segment, as a function of the records read *)
Fixpoint fieldsMap_of (i : N) (raw : list field_rec) (m : list (bytes * N)) : list (bytes * N) :=
  match raw with
  | [] => m
  | (_, name, _, _) :: raw' => fieldsMap_of (i + 1) raw' ((name, u16 (i + 1)) :: m)
  end.
Definition loadFields_state (raw : list field_rec) :=
  (map (fun f : field_rec => fst (fst (fst f))) raw,
   map_put_all 0 (map (fun f : field_rec => snd (fst f)) raw) [],
   map_put_all 0 (map (fun f : field_rec => snd f) raw) [],
   map (fun f : field_rec => snd (fst (fst f))) raw,
   fieldsMap_of 0 raw []).

(* the loop of loadFields as it is translated (Generated.v), with the variables
   it reads from outside as parameters (fend = fieldsIndexEnd); state =
   (fieldID, s.dictLocs, s.fieldDocs, s.fieldFreqs, s.fieldsInv, s.fieldsMap) *)
Definition lf_state :=
  (N * list N * list (N * N) * list (N * N) * list bytes * list (bytes * N))%type.

Definition lf_cond (fio fend : N) : lf_state -> bool :=
  fun '(fieldID, dictLocs, fieldDocs, fieldFreqs, fieldsInv, fieldsMap) =>
    N.ltb (wrap64 (fio + wrap64 (8 * fieldID))) fend.

Definition lf_body (data : bytes) (fio fend : N) : lf_state -> result lf_state :=
  fun '(fieldID, dictLocs, fieldDocs, fieldFreqs, fieldsInv, fieldsMap) =>
    do addrData <- data_read_int data (int_of_u64 (wrap64 (fio + wrap64 (8 * fieldID))))
                     (int_of_u64 (wrap64 (wrap64 (fio + wrap64 (8 * fieldID)) + 8)));
    do addr <- go_be_uint 8%nat addrData;
    do dictLocData <- data_read_int data (int_of_u64 addr) (int_of_u64 fend);
    let '(dictLoc, read) := go_uvarint dictLocData in
    let n := u64_of_int read in
    let dictLocs := dictLocs ++ [dictLoc] in
    let nameLen := 0%N in
    do nameLenData <- data_read_int data (int_of_u64 (wrap64 (addr + n))) (int_of_u64 fend);
    let '(nameLen, read) := go_uvarint nameLenData in
    let n := wrap64 (n + u64_of_int read) in
    do nameData <- data_read_int data (int_of_u64 (wrap64 (addr + n)))
                     (int_of_u64 (wrap64 (wrap64 (addr + n) + nameLen)));
    let n := wrap64 (n + nameLen) in
    do fieldDocData <- data_read_int data (int_of_u64 (wrap64 (addr + n))) (int_of_u64 fend);
    let '(fieldDocVal, read) := go_uvarint fieldDocData in
    let n := wrap64 (n + u64_of_int read) in
    do fieldFreqData <- data_read_int data (int_of_u64 (wrap64 (addr + n))) (int_of_u64 fend);
    let '(fieldFreqVal, _) := go_uvarint fieldFreqData in
    let name := nameData in
    let fieldsInv := fieldsInv ++ [name] in
    let fieldsMap := (name, u16 (wrap64 (fieldID + 1))) :: fieldsMap in
    let fieldDocs := (u16 fieldID, fieldDocVal) :: fieldDocs in
    let fieldFreqs := (u16 fieldID, fieldFreqVal) :: fieldFreqs in
    let fieldID := wrap64 (fieldID + 1) in
    Ok (fieldID, dictLocs, fieldDocs, fieldFreqs, fieldsInv, fieldsMap).

(* loadFields_state generalised to a loop entered with field id j (mod 2^64) and
   the accumulators dl, fd, ff, fi, fm *)
Definition lf_final (j : N) (dl : list N) (fd ff : list (N * N)) (fi : list bytes)
           (fm : list (bytes * N)) (raw : list field_rec) :=
  (dl ++ map (fun f : field_rec => fst (fst (fst f))) raw,
   map_put_all j (map (fun f : field_rec => snd (fst f)) raw) fd,
   map_put_all j (map (fun f : field_rec => snd f) raw) ff,
   fi ++ map (fun f : field_rec => snd (fst (fst f))) raw,
   fieldsMap_of j raw fm).

(* Both loops test the condition before the fuel, so the same fuel serves both.
   The unwrapped counter j of map_put_all / fieldsMap_of and the wrapped
   fieldID agree modulo 2^64, which is all u16 and the loop condition see. *)
Lemma lf_loop (data : bytes) (fio : N) :
  forall (fuel : nat) (j : N) (dl : list N) (fd ff : list (N * N)) (fi : list bytes)
         (fm : list (bytes * N)),
    rbind (loop_fuel_r fuel (lf_cond fio (lenN data)) (lf_body data fio (lenN data))
             (wrap64 j, dl, fd, ff, fi, fm))
          (fun '(fieldID, dictLocs, fieldDocs, fieldFreqs, fieldsInv, fieldsMap) =>
             Ok (dictLocs, fieldDocs, fieldFreqs, fieldsInv, fieldsMap))
    = lift (lf_final j dl fd ff fi fm) (load_fields_loop fuel data fio (wrap64 j)).
Proof.
  induction fuel as [| fuel IH]; intros j dl fd ff fi fm.
  - rewrite loop_fuel_r_unfold. unfold lf_cond at 1. cbv beta iota. cbn [load_fields_loop].
    destruct (wrap64 (fio + wrap64 (8 * wrap64 j)) <? lenN data); cbn [rbind lift]; [reflexivity |].
    unfold lf_final. cbn [map map_put_all fieldsMap_of]. rewrite !app_nil_r. reflexivity.
  - rewrite loop_fuel_r_unfold. unfold lf_cond at 1. cbv beta iota. cbn [load_fields_loop].
    destruct (wrap64 (fio + wrap64 (8 * wrap64 j)) <? lenN data); cbn [rbind lift].
    2:{ unfold lf_final. cbn [map map_put_all fieldsMap_of]. rewrite !app_nil_r. reflexivity. }
    unfold lf_body at 1. cbv beta iota zeta.
    (* addr *)
    rewrite (bind_read_be _ _ _ 8%nat) by (intros H; apply (span_u64 _ 8); [reflexivity | exact H]).
    match goal with |- context [rbind (data_read_int data ?s ?e) _] =>
      destruct (data_read_int data s e) as [addrData | | | |]; cbn [rbind lift]; try reflexivity end.
    (* the record at addr: the same reads and varints on both sides *)
    unfold load_field_at. cbv zeta.
    repeat match goal with
           | |- context [rbind (data_read_int data ?s ?e) _] =>
               destruct (data_read_int data s e); cbn [rbind lift]; try reflexivity
           | |- context [match go_uvarint ?x with _ => _ end] =>
               destruct (go_uvarint x); rewrite ?wrap64_add_l
           end.
    (* the rest of the loop *)
    cbn [rbind]. rewrite ?wrap64_add_l, ?u16_wrap64. rewrite IH.
    destruct (load_fields_loop fuel data fio (wrap64 (j + 1))) as [rest | | | |];
      cbn [rbind lift]; try reflexivity.
    unfold lf_final. cbn [map map_put_all fieldsMap_of fst snd].
    rewrite <- !app_assoc. reflexivity.
Qed.

Theorem tie_loadFields (fuel : nat) (data : bytes) (fio : N) :
  fio < two64 -> lenN data < two63 -> N.of_nat fuel < two63 ->
  g_Segment_loadFields fuel data [] [] [] [] [] fio =
  lift loadFields_state (load_fields_loop fuel data fio 0).
Proof.
  intros _ Hlen _. unfold g_Segment_loadFields, c_fileAddrWidth. cbv zeta.
  rewrite (u64_of_int_lenN data Hlen).
  exact (lf_loop data fio fuel 0 [] [] [] [] []).
Qed.
Print Assumptions tie_loadFields.

(* ------------------------------------------------------------------ *)
(* docvalues.go loadFieldDocValueReader: the per-field doc-value trailer *)

(* the fields of the new docValueReader that the function gives a value, in the
   translator's (alphabetical) order: chunkOffsets, curChunkNum, dvDataLoc, field *)
Definition dv_reader_fields (field : bytes) (r : option (N * list N)) :=
  match r with
  | None => None
  | Some (dvDataLoc, offs) => Some (offs, 9223372036854775807, dvDataLoc, field)
  end.

(* binary.Uvarint never reports more bytes than the buffer holds *)
Lemma go_uvarint_aux_le (buf : bytes) :
  forall (i shift acc v : N) (r : Z),
    go_uvarint_aux buf i shift acc = (v, r) -> (r <= Z.of_N i + Z.of_nat (length buf))%Z.
Proof.
  induction buf as [| b rest IH]; intros i shift acc v r; cbn [go_uvarint_aux length].
  - intros [= <- <-]. lia.
  - destruct (i =? 10).
    + intros [= <- <-]. lia.
    + destruct (b <? 128).
      * destruct ((i =? 9) && (1 <? b)); intros [= <- <-]; lia.
      * intros H. apply IH in H. lia.
Qed.

Lemma go_uvarint_le (buf : bytes) (v : N) (r : Z) :
  go_uvarint buf = (v, r) -> (r <= Z.of_nat (length buf))%Z.
Proof. unfold go_uvarint. intros H. apply go_uvarint_aux_le in H. lia. Qed.

(* after a successful 10-byte Read at p = pos + offset and 0 < read <= 10, the
   next position is p + read: nothing wraps because the data is shorter than 2^63 *)
Lemma dv_next_pos (pos offset : N) (r len : Z) :
  (0 <= int_of_u64 (wrap64 (pos + offset))
      <= int_of_u64 (wrap64 (wrap64 (pos + offset) + 10)))%Z ->
  (int_of_u64 (wrap64 (wrap64 (pos + offset) + 10)) <= len)%Z ->
  (len < 9223372036854775808)%Z -> (0 < r <= 10)%Z ->
  Z.of_N (wrap64 (pos + wrap64 (offset + u64_of_int r)))
    = (Z.of_N (wrap64 (pos + offset)) + r)%Z /\
  (Z.of_N (wrap64 (pos + offset)) + 10 <= len)%Z.
Proof. unfold int_of_u64, wrap_int, wrap64, u64_of_int, two64. lia. Qed.

(* the loop of loadFieldDocValueReader as it is translated (Generated.v), with the
   variables it reads from outside as parameters; state =
   (fdvIter.chunkOffsets, i, offset) *)
Definition dv_state := (list N * Z * N)%type.
Definition dv_cond (count : Z) : dv_state -> bool :=
  fun '(offs, i, offset) => Z.ltb i count.
Definition dv_body (data : bytes) (pos : N) : dv_state -> result dv_state :=
  fun '(offs, i, offset) =>
    do locData <- data_read_int data (int_of_u64 (wrap64 (pos + offset)))
                    (int_of_u64 (wrap64 (wrap64 (pos + offset) + 10)));
    let '(loc, read) := go_uvarint locData in
    if Z.leb read 0%Z then Err else
    do offs <- go_slice_set offs i loc;
    let offset := wrap64 (offset + u64_of_int read) in
    let i := wrap_int (Z.add i 1%Z) in
    Ok (offs, i, offset).

(* Invariant: after length vs iterations the slice is vs ++ zeros.  The fuel is
   enough either because it covers the n remaining iterations, or because it
   covers the positions left in the data: every iteration that does not end in
   an error moves the 10-byte window at least one byte forward, so at most
   length data - p - 9 iterations succeed and one more fails (p = the current
   position).  In the second case both sides end in the same Err. *)
Lemma dv_loop {B} (data : bytes) (pos : N) (count : Z) (k : list N -> result B) :
  (count < 9223372036854775808)%Z -> lenN data < two63 ->
  forall (n fuel : nat) (vs : list N) (offset : N),
    Z.of_nat (length vs + n) = count ->
    ((n <= fuel)%nat \/
     ((1 <= fuel)%nat /\
      (Z.of_nat (length data) - Z.of_N (wrap64 (pos + offset)) - 8 <= Z.of_nat fuel)%Z)) ->
    rbind (loop_fuel_r fuel (dv_cond count) (dv_body data pos)
             (vs ++ repeat 0 n, Z.of_nat (length vs), offset))
          (fun '(offs, i, offset) => k offs)
    = rbind (load_dv_chunk_offsets_loop n data pos offset) (fun rest => k (vs ++ rest)).
Proof.
  intros Hcount Hdata. unfold lenN, two63 in Hdata.
  induction n as [| n IH]; intros fuel vs offset Hlen Hfuel.
  - rewrite loop_fuel_r_unfold. unfold dv_cond at 1. cbv beta iota.
    replace (Z.of_nat (length vs) <? count)%Z with false by lia.
    cbn [rbind load_dv_chunk_offsets_loop repeat]. reflexivity.
  - destruct fuel as [| fuel]; [lia |].
    rewrite loop_fuel_r_unfold. unfold dv_cond at 1. cbv beta iota.
    replace (Z.of_nat (length vs) <? count)%Z with true by lia.
    unfold dv_body at 1. cbv beta iota zeta.
    cbn [load_dv_chunk_offsets_loop repeat]. cbv zeta.
    destruct (data_read_int data (int_of_u64 (wrap64 (pos + offset)))
                (int_of_u64 (wrap64 (wrap64 (pos + offset) + 10)))) as [buf | | | |] eqn:E;
      cbn [rbind]; try reflexivity.
    destruct (go_uvarint buf) as [v r] eqn:Ev.
    destruct (r <=? 0)%Z eqn:Hr; [reflexivity |].
    rewrite go_slice_set_mid. cbn [rbind].
    replace (wrap_int (Z.of_nat (length vs) + 1)) with (Z.of_nat (length (vs ++ [v])))
      by (rewrite app_length; cbn [length]; unfold wrap_int; lia).
    replace (vs ++ v :: repeat 0 n) with ((vs ++ [v]) ++ repeat 0 n)
      by (rewrite <- app_assoc; reflexivity).
    rewrite IH.
    + destruct (load_dv_chunk_offsets_loop n data pos (wrap64 (offset + u64_of_int r)));
        cbn [rbind]; try reflexivity.
      rewrite <- app_assoc. reflexivity.
    + rewrite app_length. cbn [length]. lia.
    + destruct Hfuel as [Hfuel | [_ Hfuel]]; [left; lia | right].
      apply data_read_int_ok in E. destruct E as (Hse & Hend & Hbuf).
      apply go_uvarint_le in Ev.
      assert (Hs10 : (int_of_u64 (wrap64 (wrap64 (pos + offset) + 10))
                      - int_of_u64 (wrap64 (pos + offset)))%Z = Z.of_N 10)
        by (apply span_u64; [reflexivity | exact Hse]).
      destruct (dv_next_pos pos offset r (Z.of_nat (length data))) as (Hnext & Hroom);
        try lia.
Qed.

(* The fuel hypothesis of the original statement, [(N.to_nat two63 <= fuel)%nat],
   is WEAKENED to [(length data <= fuel)%nat] (the original follows from it and
   lenN data < two63; it is kept as tie_loadFieldDocValueReader_fuel63 below).
   No hypothesis is added.  [length data] iterations always suffice: an
   iteration that does not return an error has read a 10-byte window inside the
   data and moves it forward by read > 0 bytes. *)
Theorem tie_loadFieldDocValueReader (fuel : nat) (field data : bytes) (s e : N) :
  s < two64 -> e < two64 -> lenN data < two63 -> Forall is_byte data ->
  (length data <= fuel)%nat ->
  g_Segment_loadFieldDocValueReader fuel field s e data =
  lift (dv_reader_fields field) (load_field_dv_reader data s e).
Proof.
  intros _ He Hdata _ Hfuel.
  unfold g_Segment_loadFieldDocValueReader, load_field_dv_reader,
    c_fieldNotUninverted, fieldNotUninverted, c_fieldDvStartEndWidth, c_fieldDvEndWidth.
  destruct (s =? 18446744073709551615); [reflexivity |].
  cbv zeta.
  destruct (16 <? u64_sub e s); [| reflexivity].
  assert (He' : e < 18446744073709551616) by exact He.
  (* numChunks *)
  rewrite (bind_read_be _ _ _ 8%nat)
    by (unfold int_of_u64, wrap_int, u64_sub, wrap64, two64; lia).
  destruct (data_read_int data (int_of_u64 (u64_sub e 8)) (int_of_u64 e))
    as [ncd | | | |] eqn:E1; cbn [rbind lift]; try reflexivity.
  (* chunkOffsetsLen *)
  rewrite (bind_read_be _ _ _ 8%nat)
    by (unfold int_of_u64, wrap_int, u64_sub, wrap64, two64; lia).
  match goal with |- context [rbind (data_read_int data ?a ?b) _] =>
    destruct (data_read_int data a b) as [cld | | | |]; cbn [rbind lift]; try reflexivity end.
  (* make([]uint64, int(numChunks)) *)
  unfold go_make_int.
  destruct (int_of_u64 (be_value ncd 0) <? 0)%Z eqn:Hneg; [reflexivity |].
  cbn [rbind].
  assert (Hlen8 : (8 <= length data)%nat).
  { apply data_read_int_ok in E1.
    assert ((int_of_u64 e - int_of_u64 (u64_sub e 8))%Z = 8%Z)
      by (unfold int_of_u64, wrap_int, u64_sub, wrap64, two64 in *; lia).
    lia. }
  (* the loop *)
  match goal with
  | |- rbind (loop_fuel_r _ _ _ _) _ = lift _ (rbind (load_dv_chunk_offsets_loop ?n data ?P 0) _) =>
      transitivity (rbind (load_dv_chunk_offsets_loop n data P 0)
                      (fun rest => (fun offs => Ok (Some (offs, 9223372036854775807, s, field)))
                                     ([] ++ rest)));
      [ refine (dv_loop data P (int_of_u64 (be_value ncd 0))
                  (fun offs => Ok (Some (offs, 9223372036854775807, s, field)))
                  _ Hdata n fuel [] 0 _ _)
      | destruct (load_dv_chunk_offsets_loop n data P 0); reflexivity ]
  end.
  - unfold int_of_u64, wrap_int. lia.
  - cbn [length]. lia.
  - right. lia.
Qed.
Print Assumptions tie_loadFieldDocValueReader.

(* the statement with the original bound on the fuel *)
Corollary tie_loadFieldDocValueReader_fuel63 (fuel : nat) (field data : bytes) (s e : N) :
  s < two64 -> e < two64 -> lenN data < two63 -> Forall is_byte data ->
  (N.to_nat two63 <= fuel)%nat ->
  g_Segment_loadFieldDocValueReader fuel field s e data =
  lift (dv_reader_fields field) (load_field_dv_reader data s e).
Proof.
  intros Hs He Hdata Hbytes Hfuel.
  apply tie_loadFieldDocValueReader; try assumption.
  unfold lenN, two63 in *. lia.
Qed.
Print Assumptions tie_loadFieldDocValueReader_fuel63.

(* props: C04, C07, C10 *)
(* docvalues.go loadFieldDocValueReader, regenerated from the source, equals Container.load_field_dv_reader. *)
From Coq Require Import ZArith List Lia PeanoNat Bool.
From Ice Require Import Base Varint Footer Container GenLib.
From IceProofs Require Import Varint_Proofs.   (* is_byte *)
From IceGen Require Import Generated Tie_00_loadlib.
Import ListNotations.
Open Scope N_scope.

Ltac Zify.zify_post_hook ::= Z.div_mod_to_equations.

(* ------------------------------------------------------------------ *)
(* docvalues.go loadFieldDocValueReader: the per-field doc-value trailer *)

(* the fields of the new docValueReader that the function gives a value, in the
   translator's (alphabetical) order: chunkOffsets, curChunkNum, dvDataLoc, field *)
Definition dv_reader_fields (field : bytes) (r : option (N * list N)) :=
  match r with
  | None => None
  | Some (dvDataLoc, offs) => Some (offs, 9223372036854775807, dvDataLoc, field)
  end.

(* binary.Uvarint never reports more bytes than the buffer holds *)
Lemma go_uvarint_aux_le (buf : bytes) :
  forall (i shift acc v : N) (r : Z),
    go_uvarint_aux buf i shift acc = (v, r) -> (r <= Z.of_N i + Z.of_nat (length buf))%Z.
Proof.
  induction buf as [| b rest IH]; intros i shift acc v r; cbn [go_uvarint_aux length].
  - intros [= <- <-]. lia.
  - destruct (i =? 10).
    + intros [= <- <-]. lia.
    + destruct (b <? 128).
      * destruct ((i =? 9) && (1 <? b)); intros [= <- <-]; lia.
      * intros H. apply IH in H. lia.
Qed.

Lemma go_uvarint_le (buf : bytes) (v : N) (r : Z) :
  go_uvarint buf = (v, r) -> (r <= Z.of_nat (length buf))%Z.
Proof. unfold go_uvarint. intros H. apply go_uvarint_aux_le in H. lia. Qed.

(* after a successful 10-byte Read at p = pos + offset and 0 < read <= 10, the
   next position is p + read: nothing wraps because the data is shorter than 2^63 *)
Lemma dv_next_pos (pos offset : N) (r len : Z) :
  (0 <= int_of_u64 (wrap64 (pos + offset))
      <= int_of_u64 (wrap64 (wrap64 (pos + offset) + 10)))%Z ->
  (int_of_u64 (wrap64 (wrap64 (pos + offset) + 10)) <= len)%Z ->
  (len < 9223372036854775808)%Z -> (0 < r <= 10)%Z ->
  Z.of_N (wrap64 (pos + wrap64 (offset + u64_of_int r)))
    = (Z.of_N (wrap64 (pos + offset)) + r)%Z /\
  (Z.of_N (wrap64 (pos + offset)) + 10 <= len)%Z.
Proof. unfold int_of_u64, wrap_int, wrap64, u64_of_int, two64. lia. Qed.

(* the loop of loadFieldDocValueReader as it is translated (Generated.v), with the
   variables it reads from outside as parameters; state =
   (fdvIter.chunkOffsets, i, offset) *)
Definition dv_state := (list N * Z * N)%type.
Definition dv_cond (count : Z) : dv_state -> bool :=
  fun '(offs, i, offset) => Z.ltb i count.
Definition dv_body (data : bytes) (pos : N) : dv_state -> result dv_state :=
  fun '(offs, i, offset) =>
    do locData <- data_read_int data (int_of_u64 (wrap64 (pos + offset)))
                    (int_of_u64 (wrap64 (wrap64 (pos + offset) + 10)));
    let '(loc, read) := go_uvarint locData in
    if Z.leb read 0%Z then Err else
    do offs <- go_slice_set offs i loc;
    let offset := wrap64 (offset + u64_of_int read) in
    let i := wrap_int (Z.add i 1%Z) in
    Ok (offs, i, offset).

(* Invariant: after length vs iterations the slice is vs ++ zeros.  The fuel is
   enough either because it covers the n remaining iterations, or because it
   covers the positions left in the data: every iteration that does not end in
   an error moves the 10-byte window at least one byte forward, so at most
   length data - p - 9 iterations succeed and one more fails (p = the current
   position).  In the second case both sides end in the same Err. *)
Lemma dv_loop {B} (data : bytes) (pos : N) (count : Z) (k : list N -> result B) :
  (count < 9223372036854775808)%Z -> lenN data < two63 ->
  forall (n fuel : nat) (vs : list N) (offset : N),
    Z.of_nat (length vs + n) = count ->
    ((n <= fuel)%nat \/
     ((1 <= fuel)%nat /\
      (Z.of_nat (length data) - Z.of_N (wrap64 (pos + offset)) - 8 <= Z.of_nat fuel)%Z)) ->
    rbind (loop_fuel_r fuel (dv_cond count) (dv_body data pos)
             (vs ++ repeat 0 n, Z.of_nat (length vs), offset))
          (fun '(offs, i, offset) => k offs)
    = rbind (load_dv_chunk_offsets_loop n data pos offset) (fun rest => k (vs ++ rest)).
Proof.
  intros Hcount Hdata. unfold lenN, two63 in Hdata.
  induction n as [| n IH]; intros fuel vs offset Hlen Hfuel.
  - rewrite loop_fuel_r_unfold. unfold dv_cond at 1. cbv beta iota.
    replace (Z.of_nat (length vs) <? count)%Z with false by lia.
    cbn [rbind load_dv_chunk_offsets_loop repeat]. reflexivity.
  - destruct fuel as [| fuel]; [lia |].
    rewrite loop_fuel_r_unfold. unfold dv_cond at 1. cbv beta iota.
    replace (Z.of_nat (length vs) <? count)%Z with true by lia.
    unfold dv_body at 1. cbv beta iota zeta.
    cbn [load_dv_chunk_offsets_loop repeat]. cbv zeta.
    destruct (data_read_int data (int_of_u64 (wrap64 (pos + offset)))
                (int_of_u64 (wrap64 (wrap64 (pos + offset) + 10)))) as [buf | | | |] eqn:E;
      cbn [rbind]; try reflexivity.
    destruct (go_uvarint buf) as [v r] eqn:Ev.
    destruct (r <=? 0)%Z eqn:Hr; [reflexivity |].
    rewrite go_slice_set_mid. cbn [rbind].
    replace (wrap_int (Z.of_nat (length vs) + 1)) with (Z.of_nat (length (vs ++ [v])))
      by (rewrite app_length; cbn [length]; unfold wrap_int; lia).
    replace (vs ++ v :: repeat 0 n) with ((vs ++ [v]) ++ repeat 0 n)
      by (rewrite <- app_assoc; reflexivity).
    rewrite IH.
    + destruct (load_dv_chunk_offsets_loop n data pos (wrap64 (offset + u64_of_int r)));
        cbn [rbind]; try reflexivity.
      rewrite <- app_assoc. reflexivity.
    + rewrite app_length. cbn [length]. lia.
    + destruct Hfuel as [Hfuel | [_ Hfuel]]; [left; lia | right].
      apply data_read_int_ok in E. destruct E as (Hse & Hend & Hbuf).
      apply go_uvarint_le in Ev.
      assert (Hs10 : (int_of_u64 (wrap64 (wrap64 (pos + offset) + 10))
                      - int_of_u64 (wrap64 (pos + offset)))%Z = Z.of_N 10)
        by (apply span_u64; [reflexivity | exact Hse]).
      destruct (dv_next_pos pos offset r (Z.of_nat (length data))) as (Hnext & Hroom);
        try lia.
Qed.

(* The fuel hypothesis of the original statement, [(N.to_nat two63 <= fuel)%nat],
   is WEAKENED to [(length data <= fuel)%nat] (the original follows from it and
   lenN data < two63; it is kept as tie_loadFieldDocValueReader_fuel63 below).
   No hypothesis is added.  [length data] iterations always suffice: an
   iteration that does not return an error has read a 10-byte window inside the
   data and moves it forward by read > 0 bytes. *)
Theorem tie_loadFieldDocValueReader (fuel : nat) (field data : bytes) (s e : N) :
  s < two64 -> e < two64 -> lenN data < two63 -> Forall is_byte data ->
  (length data <= fuel)%nat ->
  g_Segment_loadFieldDocValueReader fuel field s e data =
  lift (dv_reader_fields field) (load_field_dv_reader data s e).
Proof.
  intros _ He Hdata _ Hfuel.
  unfold g_Segment_loadFieldDocValueReader, load_field_dv_reader,
    c_fieldNotUninverted, fieldNotUninverted, c_fieldDvStartEndWidth, c_fieldDvEndWidth.
  destruct (s =? 18446744073709551615); [reflexivity |].
  cbv zeta.
  destruct (16 <? u64_sub e s); [| reflexivity].
  assert (He' : e < 18446744073709551616) by exact He.
  (* numChunks *)
  rewrite (bind_read_be _ _ _ 8%nat)
    by (unfold int_of_u64, wrap_int, u64_sub, wrap64, two64; lia).
  destruct (data_read_int data (int_of_u64 (u64_sub e 8)) (int_of_u64 e))
    as [ncd | | | |] eqn:E1; cbn [rbind lift]; try reflexivity.
  (* chunkOffsetsLen *)
  rewrite (bind_read_be _ _ _ 8%nat)
    by (unfold int_of_u64, wrap_int, u64_sub, wrap64, two64; lia).
  match goal with |- context [rbind (data_read_int data ?a ?b) _] =>
    destruct (data_read_int data a b) as [cld | | | |]; cbn [rbind lift]; try reflexivity end.
  (* make([]uint64, int(numChunks)) *)
  unfold go_make_int.
  destruct (int_of_u64 (be_value ncd 0) <? 0)%Z eqn:Hneg; [reflexivity |].
  cbn [rbind].
  assert (Hlen8 : (8 <= length data)%nat).
  { apply data_read_int_ok in E1.
    assert ((int_of_u64 e - int_of_u64 (u64_sub e 8))%Z = 8%Z)
      by (unfold int_of_u64, wrap_int, u64_sub, wrap64, two64 in *; lia).
    lia. }
  (* the loop *)
  match goal with
  | |- rbind (loop_fuel_r _ _ _ _) _ = lift _ (rbind (load_dv_chunk_offsets_loop ?n data ?P 0) _) =>
      transitivity (rbind (load_dv_chunk_offsets_loop n data P 0)
                      (fun rest => (fun offs => Ok (Some (offs, 9223372036854775807, s, field)))
                                     ([] ++ rest)));
      [ refine (dv_loop data P (int_of_u64 (be_value ncd 0))
                  (fun offs => Ok (Some (offs, 9223372036854775807, s, field)))
                  _ Hdata n fuel [] 0 _ _)
      | destruct (load_dv_chunk_offsets_loop n data P 0); reflexivity ]
  end.
  - unfold int_of_u64, wrap_int. lia.
  - cbn [length]. lia.
  - right. lia.
Qed.
Print Assumptions tie_loadFieldDocValueReader.

(* the statement with the original bound on the fuel *)
Corollary tie_loadFieldDocValueReader_fuel63 (fuel : nat) (field data : bytes) (s e : N) :
  s < two64 -> e < two64 -> lenN data < two63 -> Forall is_byte data ->
  (N.to_nat two63 <= fuel)%nat ->
  g_Segment_loadFieldDocValueReader fuel field s e data =
  lift (dv_reader_fields field) (load_field_dv_reader data s e).
Proof.
  intros Hs He Hdata Hbytes Hfuel.
  apply tie_loadFieldDocValueReader; try assumption.
  unfold lenN, two63 in *. lia.
Qed.
Print Assumptions tie_loadFieldDocValueReader_fuel63.

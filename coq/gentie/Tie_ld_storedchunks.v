(* props: C04, C06, C10 *)
(* load.go loadStoredFieldChunk, regenerated from the source, equals Container.load_stored_chunk_offsets. *)
From Coq Require Import ZArith List Lia PeanoNat Bool.
From Ice Require Import Base Varint Footer Container GenLib.
From IceProofs Require Import Varint_Proofs.   (* is_byte *)
From IceGen Require Import Generated Tie_00_loadlib.
Import ListNotations.
Open Scope N_scope.

Ltac Zify.zify_post_hook ::= Z.div_mod_to_equations.

(* ------------------------------------------------------------------ *)
(* loadStoredFieldChunk                                                *)

(* the loop of loadStoredFieldChunk as it is translated (Generated.v), with the
   variables it reads from outside as parameters; state =
   (i, offset, offsetata, read, s.storedFieldChunkOffsets) *)
Definition sfc_state := (Z * Z * bytes * Z * list N)%type.
Definition sfc_cond (chunkNum : N) : sfc_state -> bool :=
  fun '(i, offset, offsetata, read, offs) => Z.ltb i (Z.of_N chunkNum).
Definition sfc_body (data : bytes) (P : Z) : sfc_state -> result sfc_state :=
  fun '(i, offset, offsetata, read, offs) =>
    do offsetata <- data_read_int data (wrap_int (Z.add P offset))
                      (wrap_int (Z.add (wrap_int (Z.add P offset)) 10%Z));
    let '(uv, read) := go_uvarint offsetata in
    do offs <- go_slice_set offs i uv;
    let offset := wrap_int (Z.add offset read) in
    let i := wrap_int (Z.add i 1%Z) in
    Ok (i, offset, offsetata, read, offs).

(* invariant: after length vs iterations the slice is vs ++ zeros, where vs are
   the values the hand-written loop has consed so far *)
Lemma sfc_loop (data : bytes) (P : Z) (chunkNum : N) :
  (Z.of_N chunkNum < 9223372036854775808)%Z ->
  forall (n fuel : nat) (vs : list N) (off : Z) (oa : bytes) (rd : Z),
    (n <= fuel)%nat -> Z.of_nat (length vs + n) = Z.of_N chunkNum ->
    rbind (loop_fuel_r fuel (sfc_cond chunkNum) (sfc_body data P)
             (Z.of_nat (length vs), off, oa, rd, vs ++ repeat 0 n))
          (fun '(i, offset, offsetata, read, offs) => Ok offs)
    = rbind (load_chunk_offsets_loop n data P off) (fun rest => Ok (vs ++ rest)).
Proof.
  intros Hcn. induction n as [| n IH]; intros fuel vs off oa rd Hfuel Hlen.
  - rewrite loop_fuel_r_unfold. unfold sfc_cond at 1. cbv beta iota.
    replace (Z.of_nat (length vs) <? Z.of_N chunkNum)%Z with false by lia.
    cbn [rbind load_chunk_offsets_loop repeat]. reflexivity.
  - destruct fuel as [| fuel]; [lia |].
    rewrite loop_fuel_r_unfold. unfold sfc_cond at 1. cbv beta iota.
    replace (Z.of_nat (length vs) <? Z.of_N chunkNum)%Z with true by lia.
    unfold sfc_body at 1. cbv beta iota zeta.
    cbn [load_chunk_offsets_loop repeat]. rewrite wrap_int_add_l.
    destruct (data_read_int data (wrap_int (P + off)) (wrap_int (P + off + 10))) as [oa' | | | |];
      cbn [rbind]; try reflexivity.
    destruct (go_uvarint oa') as [v r].
    rewrite go_slice_set_mid. cbn [rbind].
    replace (wrap_int (Z.of_nat (length vs) + 1)) with (Z.of_nat (length (vs ++ [v])))
      by (rewrite app_length; cbn [length]; unfold wrap_int; lia).
    replace (vs ++ v :: repeat 0 n) with ((vs ++ [v]) ++ repeat 0 n)
      by (rewrite <- app_assoc; reflexivity).
    rewrite IH by (try rewrite app_length; cbn [length]; lia).
    destruct (load_chunk_offsets_loop n data P (wrap_int (off + r))); cbn [rbind]; try reflexivity.
    rewrite <- app_assoc. reflexivity.
Qed.

(* ADDED HYPOTHESIS [Forall is_byte data] (every element of data is below 256;
   is_byte is the predicate of Varint_Proofs used by the container theorems).
   `bytes` is `list N`, so without it the four "bytes" of chunkNum can encode a
   number of any size: the translated loop runs on the fuel while the
   hand-written loop recurses on N.to_nat chunkNum, so the statement is false
   as soon as chunkNum exceeds the fuel (and beyond 2^63 the int counter i
   wraps as well).  Counterexample with fuel = N.to_nat 4294967296:
     data = repeat 128 10 ++ [0;0;0;10] ++ [0;0;0;8589934592],  sio = 18.
   chunkNum = 2^33, chunkOffsetsLen = 10, chunkOffsetPos = 0; every iteration
   reads the window [0,10), which is ten continuation bytes, so go_uvarint
   returns (0, 0) and offset stays 0: the model returns Ok (repeat 0 2^33),
   the translated function OutOfFuel.  (The same data with 7 instead of 2^33
   and fuel 5 evaluates to (OutOfFuel, Ok [0;0;0;0;0;0;0]).)  With real bytes
   chunkNum < 2^32 <= fuel, which is what the bound on the fuel presupposes. *)
Theorem tie_loadStoredFieldChunk (fuel : nat) (data : bytes) (sio : N) :
  sio < two64 -> lenN data < two63 -> (N.to_nat 4294967296 <= fuel)%nat ->
  Forall is_byte data ->
  g_Segment_loadStoredFieldChunk fuel sio data = load_stored_chunk_offsets data sio.
Proof.
  intros _ _ Hfuel Hbytes.
  unfold g_Segment_loadStoredFieldChunk, load_stored_chunk_offsets, c_sizeOfUint32.
  change (u64_of_int (Z.of_N 4)) with 4. change (Z.of_N 4) with 4%Z. cbv zeta.
  (* chunkNum *)
  rewrite (bind_read_be _ _ _ 4%nat) by (apply span_int; lia).
  destruct (data_read_int data (int_of_u64 (u64_sub sio 4)) (wrap_int (int_of_u64 (u64_sub sio 4) + 4)))
    as [cd1 | | | |] eqn:E1; cbn [rbind]; try reflexivity.
  (* chunkOffsetsLen *)
  rewrite (bind_read_be _ _ _ 4%nat) by (apply span_int; lia).
  match goal with |- context [rbind (data_read_int data ?s ?e) _] =>
    destruct (data_read_int data s e) as [cd2 | | | |]; cbn [rbind]; try reflexivity end.
  assert (Hcn : be_value cd1 0 < 4294967296).
  { apply be_value4_bound.
    - apply data_read_int_ok in E1. pose proof (span_int (int_of_u64 (u64_sub sio 4)) 4). lia.
    - exact (data_read_int_Forall _ _ _ _ _ Hbytes E1). }
  (* the loop *)
  match goal with |- _ = load_chunk_offsets_loop ?n data ?P 0%Z =>
    transitivity (rbind (load_chunk_offsets_loop n data P 0%Z) (fun rest => Ok ([] ++ rest)));
    [ exact (sfc_loop data P (be_value cd1 0) ltac:(lia) n fuel [] 0%Z [] 0%Z
               ltac:(lia) ltac:(cbn [length]; lia))
    | destruct (load_chunk_offsets_loop n data P 0%Z); reflexivity ] end.
Qed.
Print Assumptions tie_loadStoredFieldChunk.


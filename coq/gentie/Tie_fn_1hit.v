(* props: C02, C05, C10 *)
(* Tie_functions.v - the pure functions that the translator produced from the Go
   source (IceGen.Generated, regenerated on every run) compute the same values
   as the hand-written model in theories/.

   The proofs deliberately avoid depending on the syntactic shape of the
   generated terms: arithmetic goals are unfolded and closed by lia (with / and
   mod by constants), bit-level goals are proved by bitwise extensionality with
   a generic case analysis on the bit index, and the loop of numUvarintBytes is
   handled by a lemma that is parametric in the loop condition and body (only
   their pointwise behaviour matters). *)
From Coq Require Import NArith Bool Lia ZifyBool ZifyN List.
From Ice Require Import Base Chunk Varint Postings GenLib.
From IceGen Require Import Generated.
Open Scope N_scope.
From Coq Require Import ZArith.   (* only for Z.div_mod_to_equations below *)

Ltac Zify.zify_post_hook ::= Z.div_mod_to_equations.

(* ------------------------------------------------------------------ *)
(* generic helpers                                                      *)

Lemma w64_small (y : N) : y < two64 -> wrap64 y = y.
Proof. intros H. unfold wrap64. apply N.mod_small. exact H. Qed.

(* remove every wrap64 whose argument is visibly below 2^64 *)
Ltac drop_wraps :=
  repeat match goal with
  | |- context [wrap64 ?a] => rewrite (w64_small a) by (unfold two64 in *; lia)
  end.

(* shifts by constants as multiplication / division *)
Ltac shifts_to_arith :=
  rewrite ?N.shiftl_mul_pow2, ?N.shiftr_div_pow2;
  repeat match goal with
  | |- context [2 ^ ?k] =>
      let v := eval vm_compute in (2 ^ k) in
      progress change (2 ^ k) with v
  end.

(* all the constants of the generated file that the functions below mention *)
Ltac unfold_consts :=
  cbv delta [c_legacyChunkMode c_chunkModeV1 c_maxDocsToScanSequentially
             c_mask31Bits c_mask31BitsRaw
             c_fSTValEncoding1Hit c_fSTValEncoding1HitRaw
             c_fSTValEncodingMask c_fSTValEncodingMaskRaw
             Chunk.legacyChunkMode Chunk.chunkModeV1 Chunk.maxDocsToScanSequentially] in *.

(* ------------------------------------------------------------------ *)
(* C02 : the 1-hit encoding of the FST value                            *)

Theorem tie_under32Bits (x : N) : g_under32Bits x = Ok (x <=? 2147483647).
Proof.
  unfold g_under32Bits. unfold_consts.
  first [ reflexivity | f_equal; lia ].
Qed.

(* bit-level reasoning: every operator is pushed down to testbit on the
   variables, then the position of the bit index is split into cases *)

Lemma testbit_wrap64 (a i : N) : N.testbit (wrap64 a) i = (i <? 64) && N.testbit a i.
Proof.
  unfold wrap64. change two64 with (2 ^ 64).
  destruct (N.ltb_spec i 64) as [H | H].
  - rewrite N.mod_pow2_bits_low by exact H. reflexivity.
  - rewrite N.mod_pow2_bits_high by exact H. reflexivity.
Qed.

Lemma testbit_shiftl (a n i : N) :
  N.testbit (N.shiftl a n) i = (n <=? i) && N.testbit a (i - n).
Proof.
  destruct (N.leb_spec n i) as [H | H].
  - rewrite N.shiftl_spec_high' by exact H. reflexivity.
  - rewrite N.shiftl_spec_low by exact H. reflexivity.
Qed.

Lemma testbit_ones (n i : N) : N.testbit (N.ones n) i = (i <? n).
Proof.
  destruct (N.ltb_spec i n) as [H | H].
  - apply N.ones_spec_low. exact H.
  - apply N.ones_spec_high. exact H.
Qed.

Lemma testbit_high (v n i : N) : v < 2 ^ n -> n <= i -> N.testbit v i = false.
Proof.
  intros Hv Hi. rewrite <- (N.mod_small v (2 ^ n)) by exact Hv.
  apply N.mod_pow2_bits_high. exact Hi.
Qed.

Lemma below_two64_by_bits (v : N) : wrap64 v = v -> v < two64.
Proof. intros <-. unfold wrap64. apply N.mod_lt. discriminate. Qed.

(* the constants of the encoding, as bit patterns *)
Ltac consts_to_bits :=
  change 2147483647 with (N.ones 31);
  change 9223372036854775808 with (2 ^ 63);
  change 4611686018427387904 with (2 ^ 62);
  change 13835058055282163712 with (N.lor (2 ^ 63) (2 ^ 62)).

Ltac bits_push :=
  repeat first
    [ rewrite N.land_spec | rewrite N.lor_spec | rewrite N.lxor_spec
    | rewrite testbit_wrap64 | rewrite testbit_shiftl | rewrite N.shiftr_spec'
    | rewrite testbit_ones | rewrite N.pow2_bits_eqb | rewrite N.bits_0 ].

Ltac bits_split :=
  repeat (match goal with
  | |- context [?a <? ?b] => destruct (N.ltb_spec a b)
  | |- context [?a <=? ?b] => destruct (N.leb_spec a b)
  | |- context [?a =? ?b] => destruct (N.eqb_spec a b)
  end; try (exfalso; lia));
  cbn [andb orb negb];
  rewrite ?andb_false_r, ?andb_true_r, ?orb_false_r, ?orb_true_r, ?andb_false_l, ?orb_false_l.

(* bits of a variable that is known to be below 2^31 *)
Ltac bits_high :=
  repeat match goal with
  | Hv : ?v <= 2147483647 |- context [N.testbit ?v ?j] =>
      rewrite (testbit_high v 31 j)
        by (try (change (2 ^ 31) with 2147483648); lia)
  end.

Ltac bits_index i :=
  repeat match goal with
  | |- context [N.testbit ?v ?j] =>
      lazymatch j with i => fail | _ => idtac end;
      replace j with i by lia
  end.

Ltac bits_solve i :=
  bits_push; bits_split; bits_high;
  cbn [andb orb negb];
  rewrite ?andb_false_r, ?andb_true_r, ?orb_false_r, ?orb_true_r;
  bits_index i;
  try reflexivity;
  repeat match goal with
  | |- context [N.testbit ?v ?j] => destruct (N.testbit v j)
  end; reflexivity.

Ltac by_bits :=
  consts_to_bits;
  apply N.bits_inj; let i := fresh "i" in intro i; bits_solve i.

(* the constants themselves: tag 10 in bits 63..62, mask 11, 31 payload bits *)
Theorem tie_1hit_constants :
  c_fSTValEncoding1Hit = 2 ^ 63 /\
  c_fSTValEncodingMask = 2 ^ 63 + 2 ^ 62 /\
  c_mask31Bits = 2 ^ 31 - 1.
Proof. repeat split; vm_compute; reflexivity. Qed.

Ltac open_1hit :=
  cbv beta iota zeta delta [g_fSTValDecode1Hit g_fSTValEncode1Hit unwrap_num];
  unfold_consts.

Theorem tie_1hit_roundtrip (d nb : N) : d <= 2147483647 -> nb <= 2147483647 ->
  g_fSTValDecode1Hit (unwrap_num (g_fSTValEncode1Hit d nb)) = Ok (d, nb).
Proof.
  intros Hd Hn. open_1hit.
  apply f_equal. apply f_equal2; by_bits.
Qed.

Theorem tie_1hit_tag (d nb : N) :
  (* a 1-hit value carries the tag bits 10 in positions 63..62, which is how
     PostingsList.read recognises it *)
  N.land (unwrap_num (g_fSTValEncode1Hit d nb)) c_fSTValEncodingMask = c_fSTValEncoding1Hit.
Proof.
  open_1hit. by_bits.
Qed.

Theorem tie_1hit_below_two64 (d nb : N) : unwrap_num (g_fSTValEncode1Hit d nb) < two64.
Proof.
  open_1hit. apply below_two64_by_bits. by_bits.
Qed.


(* props: C05, C07, C10 *)
(* intcoder.go readChunkBoundary, regenerated from the source, against Chunk.readChunkBoundary - the
   function through which the postings iterator model (Postings.v / IntCoder.v), the doc-value
   reader model (DocValues.v) and the fault model (Faults.v) find a chunk's bytes.  For every chunk
   number (Go's int: negative numbers included) and every offsets table shorter than 2^63: same
   pair, and a panic (index out of range) exactly where the model has None. *)
From Coq Require Import ZArith List Lia PeanoNat Bool.
From Ice Require Import Base Chunk Container GenLib.
From IceGen Require Import Generated Tie_00_loadlib.
Import ListNotations.
Open Scope N_scope.

Lemma nthN_nth_error (l : list N) (k : nat) : nthN l k = nth_error l k.
Proof. revert k; induction l as [| x l IH]; intros [| k]; cbn; auto. Qed.

Lemma wrap_int_small (z : Z) :
  (- 9223372036854775808 <= z < 9223372036854775808)%Z -> wrap_int z = z.
Proof. intros H. unfold wrap_int. rewrite Z.mod_small; lia. Qed.

Theorem tie_readChunkBoundary (c : nat) (offsets : list N) :
  (Z.of_nat c < 9223372036854775808)%Z ->
  g_readChunkBoundary (Z.of_nat c) offsets =
  match readChunkBoundary c offsets with Some p => Ok p | None => Panic end.
Proof.
  intros Hc. unfold g_readChunkBoundary, readChunkBoundary, go_index.
  rewrite !nthN_nth_error.
  destruct c as [| c'].
  - cbn. destruct offsets as [| e rest]; reflexivity.
  - replace (Z.ltb 0 (Z.of_nat (S c'))) with true by lia.
    rewrite wrap_int_small by lia.
    replace (Z.of_nat (S c') - 1 <? 0)%Z with false by lia.
    replace (Z.of_nat (S c') <? 0)%Z with false by lia.
    replace (Z.to_nat (Z.of_nat (S c') - 1)) with c' by lia.
    rewrite Nat2Z.id. rewrite nthN_nth_error.
    destruct (nth_error offsets c') as [s |] eqn:Es; cbn [rbind].
    + destruct (nth_error offsets (S c')) as [e |]; reflexivity.
    + assert (nth_error offsets (S c') = None) as ->.
      { apply nth_error_None. apply nth_error_None in Es. lia. }
      reflexivity.
Qed.

Theorem tie_readChunkBoundary_negative (z : Z) (offsets : list N) :
  (z < 0)%Z -> g_readChunkBoundary z offsets = Panic.
Proof.
  intros Hz. unfold g_readChunkBoundary, go_index.
  replace (Z.ltb 0 z) with false by lia. cbn [rbind].
  replace (z <? 0)%Z with true by lia. reflexivity.
Qed.

Example tie_readChunkBoundary_concrete :
  g_readChunkBoundary 2 [5; 9; 12] = Ok (9, 12) /\ g_readChunkBoundary 0 [5; 9; 12] = Ok (0, 5) /\
  g_readChunkBoundary 3 [5; 9; 12] = Panic.
Proof. repeat split; vm_compute; reflexivity. Qed.

Print Assumptions tie_readChunkBoundary.
Print Assumptions tie_readChunkBoundary_negative.

(* props: C01, C02, C05, C10 *)
(* Tie_functions.v - the pure functions that the translator produced from the Go
   source (IceGen.Generated, regenerated on every run) compute the same values
   as the hand-written model in theories/.

   The proofs deliberately avoid depending on the syntactic shape of the
   generated terms: arithmetic goals are unfolded and closed by lia (with / and
   mod by constants), bit-level goals are proved by bitwise extensionality with
   a generic case analysis on the bit index, and the loop of numUvarintBytes is
   handled by a lemma that is parametric in the loop condition and body (only
   their pointwise behaviour matters). *)
From Coq Require Import NArith Bool Lia ZifyBool ZifyN List.
From Ice Require Import Base Chunk Varint Postings GenLib.
From IceGen Require Import Generated.
Open Scope N_scope.
From Coq Require Import ZArith.   (* only for Z.div_mod_to_equations below *)

Ltac Zify.zify_post_hook ::= Z.div_mod_to_equations.

(* ------------------------------------------------------------------ *)
(* generic helpers                                                      *)

Lemma w64_small (y : N) : y < two64 -> wrap64 y = y.
Proof. intros H. unfold wrap64. apply N.mod_small. exact H. Qed.

(* remove every wrap64 whose argument is visibly below 2^64 *)
Ltac drop_wraps :=
  repeat match goal with
  | |- context [wrap64 ?a] => rewrite (w64_small a) by (unfold two64 in *; lia)
  end.

(* shifts by constants as multiplication / division *)
Ltac shifts_to_arith :=
  rewrite ?N.shiftl_mul_pow2, ?N.shiftr_div_pow2;
  repeat match goal with
  | |- context [2 ^ ?k] =>
      let v := eval vm_compute in (2 ^ k) in
      progress change (2 ^ k) with v
  end.

(* all the constants of the generated file that the functions below mention *)
Ltac unfold_consts :=
  cbv delta [c_legacyChunkMode c_chunkModeV1 c_maxDocsToScanSequentially
             c_mask31Bits c_mask31BitsRaw
             c_fSTValEncoding1Hit c_fSTValEncoding1HitRaw
             c_fSTValEncodingMask c_fSTValEncodingMaskRaw
             Chunk.legacyChunkMode Chunk.chunkModeV1 Chunk.maxDocsToScanSequentially] in *.

(* ------------------------------------------------------------------ *)
(* C05 / C10 : getChunkSize                                             *)

Theorem tie_getChunkSize (cm card md : N) : card < two64 -> md < two64 ->
  g_getChunkSize cm card md =
  match Chunk.getChunkSize cm card md with Some v => Ok v | None => Err end.
Proof.
  intros Hc Hm.
  unfold g_getChunkSize, Chunk.getChunkSize. unfold_consts. cbv zeta.
  drop_wraps.
  repeat match goal with
  | |- context [?a <=? ?b] => destruct (N.leb_spec a b)
  | |- context [?a =? ?b] => destruct (N.eqb_spec a b)
  | |- context [?a <? ?b] => destruct (N.ltb_spec a b)
  end; try reflexivity; try (exfalso; unfold wrap64, two64 in *; lia);
  drop_wraps;
  first [ reflexivity
        | f_equal; lia
        | f_equal; f_equal; lia
        | f_equal; f_equal; f_equal; lia ].
Qed.

Theorem tie_getChunkSize_no_div_by_zero (cm card md : N) : card < two64 -> md < two64 ->
  (* the translated code guards every Go division: the guard never fires *)
  g_getChunkSize cm card md <> Panic.
Proof.
  intros Hc Hm. rewrite (tie_getChunkSize cm card md Hc Hm).
  destruct (Chunk.getChunkSize cm card md); discriminate.
Qed.


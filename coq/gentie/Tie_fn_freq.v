(* props: C01, C02, C05, C10 *)
(* Tie_functions.v - the pure functions that the translator produced from the Go
   source (IceGen.Generated, regenerated on every run) compute the same values
   as the hand-written model in theories/.

   The proofs deliberately avoid depending on the syntactic shape of the
   generated terms: arithmetic goals are unfolded and closed by lia (with / and
   mod by constants), bit-level goals are proved by bitwise extensionality with
   a generic case analysis on the bit index, and the loop of numUvarintBytes is
   handled by a lemma that is parametric in the loop condition and body (only
   their pointwise behaviour matters). *)
From Coq Require Import NArith Bool Lia ZifyBool ZifyN List.
From Ice Require Import Base Chunk Varint Postings GenLib.
From IceGen Require Import Generated.
Open Scope N_scope.
From Coq Require Import ZArith.   (* only for Z.div_mod_to_equations below *)

Ltac Zify.zify_post_hook ::= Z.div_mod_to_equations.

(* ------------------------------------------------------------------ *)
(* generic helpers                                                      *)

Lemma w64_small (y : N) : y < two64 -> wrap64 y = y.
Proof. intros H. unfold wrap64. apply N.mod_small. exact H. Qed.

(* remove every wrap64 whose argument is visibly below 2^64 *)
Ltac drop_wraps :=
  repeat match goal with
  | |- context [wrap64 ?a] => rewrite (w64_small a) by (unfold two64 in *; lia)
  end.

(* shifts by constants as multiplication / division *)
Ltac shifts_to_arith :=
  rewrite ?N.shiftl_mul_pow2, ?N.shiftr_div_pow2;
  repeat match goal with
  | |- context [2 ^ ?k] =>
      let v := eval vm_compute in (2 ^ k) in
      progress change (2 ^ k) with v
  end.

(* all the constants of the generated file that the functions below mention *)
Ltac unfold_consts :=
  cbv delta [c_legacyChunkMode c_chunkModeV1 c_maxDocsToScanSequentially
             c_mask31Bits c_mask31BitsRaw
             c_fSTValEncoding1Hit c_fSTValEncoding1HitRaw
             c_fSTValEncodingMask c_fSTValEncodingMaskRaw
             Chunk.legacyChunkMode Chunk.chunkModeV1 Chunk.maxDocsToScanSequentially] in *.

(* ------------------------------------------------------------------ *)
(* C01 : encodeFreqHasLocs / decodeFreqHasLocs                          *)

Lemma lor_bit0 (a b : N) : b < 2 -> N.lor (2 * a) b = 2 * a + b.
Proof.
  intros Hb.
  assert (Hl : N.land (2 * a) b = 0).
  { apply N.bits_inj. intros i. rewrite N.land_spec, N.bits_0.
    destruct (N.eq_0_gt_0_cases i) as [-> | Hi].
    - rewrite N.testbit_even_0. reflexivity.
    - replace b with (b mod 2 ^ 1) by (change (2 ^ 1) with 2; apply N.mod_small; exact Hb).
      rewrite N.mod_pow2_bits_high by lia. apply andb_false_r. }
  rewrite <- (N.lxor_lor _ _ Hl). symmetry. apply N.add_nocarry_lxor. exact Hl.
Qed.

Lemma lor_bit0' (a b : N) : b < 2 -> N.lor b (2 * a) = 2 * a + b.
Proof. intros Hb. rewrite N.lor_comm. apply lor_bit0. exact Hb. Qed.

Lemma land_1_r (x : N) : N.land x 1 = x mod 2.
Proof. change 1 with (N.ones 1) at 1. rewrite N.land_ones. reflexivity. Qed.

Lemma land_1_l (x : N) : N.land 1 x = x mod 2.
Proof. rewrite N.land_comm. apply land_1_r. Qed.

Lemma odd_mod2 (x : N) : N.odd x = (x mod 2 =? 1).
Proof.
  rewrite <- N.bit0_odd. pose proof (N.bit0_mod x) as H.
  destruct (N.testbit x 0); cbn [N.b2n] in H; rewrite <- H; reflexivity.
Qed.

(* the value of the model, in arithmetic form *)
Lemma encodeFreqHasLocs_arith (f : N) (h : bool) :
  Postings.encodeFreqHasLocs f h = (2 * f) mod two64 + (if h then 1 else 0).
Proof.
  unfold Postings.encodeFreqHasLocs, wrap64.
  rewrite N.shiftl_mul_pow2. change (2 ^ 1) with 2. rewrite (N.mul_comm f 2).
  assert (He : exists q, (2 * f) mod two64 = 2 * q).
  { exists (f mod 9223372036854775808). unfold two64. lia. }
  destruct He as [q ->].
  apply lor_bit0. destruct h; lia.
Qed.

Theorem tie_encodeFreqHasLocs (f : N) (h : bool) :
  g_encodeFreqHasLocs f h = Ok (Postings.encodeFreqHasLocs f h).
Proof.
  rewrite encodeFreqHasLocs_arith.
  unfold g_encodeFreqHasLocs, wrap64. cbv zeta.
  shifts_to_arith.
  assert (He : forall y, exists q, y mod two64 = 2 * q \/ y mod 2 = 1).
  { intros y. exists ((y mod two64) / 2). unfold two64. lia. }
  destruct h; f_equal;
  repeat match goal with
  | |- context [N.lor (?y mod two64) 1] =>
      let q := fresh "q" in let Hq := fresh "Hq" in
      destruct (He y) as [q [Hq | Hq]];
      [ rewrite Hq, (lor_bit0 q 1) by lia | exfalso; unfold two64 in *; lia ]
  | |- context [N.lor 1 (?y mod two64)] =>
      let q := fresh "q" in let Hq := fresh "Hq" in
      destruct (He y) as [q [Hq | Hq]];
      [ rewrite Hq, (lor_bit0' q 1) by lia | exfalso; unfold two64 in *; lia ]
  end;
  unfold two64 in *; lia.
Qed.

Theorem tie_decodeFreqHasLocs (x : N) :
  g_decodeFreqHasLocs x = Ok (N.shiftr x 1, N.odd x).
Proof.
  unfold g_decodeFreqHasLocs. cbv zeta.
  rewrite ?land_1_r, ?land_1_l, odd_mod2.
  shifts_to_arith.
  first [ reflexivity | apply f_equal; apply f_equal2; lia ].
Qed.

Theorem tie_freq_roundtrip (f : N) (h : bool) : f < 9223372036854775808 ->
  g_decodeFreqHasLocs (Postings.encodeFreqHasLocs f h) = Ok (f, h).
Proof.
  intros Hf.
  rewrite tie_decodeFreqHasLocs, encodeFreqHasLocs_arith, odd_mod2.
  shifts_to_arith.
  apply f_equal. unfold two64. destruct h; apply f_equal2; lia.
Qed.


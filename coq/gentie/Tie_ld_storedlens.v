(* props: C06, C10 *)
(* read.go getDocStoredOffsets, regenerated from the source (zstd stays a parameter; it calls the
   regenerated getDocStoredOffsetsOnly), against the hand-written models: Container.doc_stored_offset
   for the index entry, Stored.stored_lens for the two clamped 10-byte look-aheads into the
   decompressed block.

   Result.  The translated function EQUALS the function written with the hand models
   (tie_getDocStoredOffsets) whenever neither of the two look-ahead windows holds a varint that
   overflows 64 bits.  That exception is real: Stored.uvarint_window turns an overflow into Panic
   ("a later slice panic"), while binary.Uvarint reports it by a negative count that
   getDocStoredOffsets adds to n as a uint64 (wrapping) - and then the function itself RETURNS
   normally (overflow_second_window_differs, overflow_first_window_differs below: vm_compute
   witnesses); the slice panic, if any, belongs to the caller.  Without the exception:
     - whenever the hand-model function does not end in Panic the two are equal
       (tie_getDocStoredOffsets_nopanic), in particular every Ok result is reproduced
       (tie_getDocStoredOffsets_ok);
     - the two are equal, or the hand-model function is Panic on a block with an overflowing
       window (tie_getDocStoredOffsets_cases); so an Ok result of the translated function is the
       result of the hand-model function unless a window overflows (tie_getDocStoredOffsets_ok_inv).
   Hypotheses: sio, docNum < 2^64 (from tie_getDocStoredOffsetsOnly); Forall is_byte data (the
   index entry is a uint64; non_byte_data_differs shows it is needed); every block zd returns is
   shorter than 2^63 (uint64(len) and int(offset) are then exact).  No bound on len(data). *)
From Coq Require Import ZArith List Lia PeanoNat Bool.
From Ice Require Import Base Varint Stored Footer Container GenLib.
From IceProofs Require Import Varint_Proofs.   (* is_byte *)
From IceGen Require Import Generated Tie_00_loadlib Tie_ld_storedoffset.
Import ListNotations.
Open Scope N_scope.
Require Import ZifyBool ZifyN ZifyNat.

Ltac Zify.zify_post_hook ::= Z.div_mod_to_equations.

(* the function in terms of the hand-written models *)
Definition stored_offsets_spec (zd : bytes -> result bytes) (docNum sio : N) (data : bytes)
           (chunkOffsets : list N) : result (bytes * N * N * N * N) :=
  do (_, so) <- doc_stored_offset data sio docNum;
  let ci := docNum / Stored.block_docs in
  do cs <- go_index chunkOffsets (int_of_u64 ci);
  do ce <- go_index chunkOffsets (wrap_int (int_of_u64 ci + 1)%Z);
  do compressed <- data_read_int data (int_of_u64 cs) (int_of_u64 ce);
  do block <- zd compressed;
  do (metaLen, dataLen, n) <- stored_lens block so;
  Ok (block, so, n, metaLen, dataLen).

(* the part of it before the look-aheads: the decompressed block and the offset of the document *)
Definition stored_offsets_block (zd : bytes -> result bytes) (docNum sio : N) (data : bytes)
           (chunkOffsets : list N) : result (bytes * N) :=
  do (_, so) <- doc_stored_offset data sio docNum;
  let ci := docNum / Stored.block_docs in
  do cs <- go_index chunkOffsets (int_of_u64 ci);
  do ce <- go_index chunkOffsets (wrap_int (int_of_u64 ci + 1)%Z);
  do compressed <- data_read_int data (int_of_u64 cs) (int_of_u64 ce);
  do block <- zd compressed;
  Ok (block, so).

(* the 10-byte window at lo, clamped to the block, does not hold an overflowing varint *)
Definition window_no_overflow (block : bytes) (lo : N) : Prop :=
  forall w, slice block lo (N.min (lo + 10) (lenN block)) = Ok w -> uvarint_window w 0 0 0 <> Panic.

(* neither window of stored_lens does *)
Definition lens_no_overflow (block : bytes) (off : N) : Prop :=
  window_no_overflow block off /\
  forall w metaLen r1,
    slice block off (N.min (off + 10) (lenN block)) = Ok w ->
    uvarint_window w 0 0 0 = Ok (metaLen, r1) ->
    window_no_overflow block (off + r1).

(* ------------------------------------------------------------------ *)
(* binary.Uvarint: Container.go_uvarint against Stored.uvarint_window  *)

Lemma go_uvarint_aux_window (buf : bytes) : forall i shift acc, i <= 10 ->
  match uvarint_window buf i shift acc with
  | Ok (v, r) => go_uvarint_aux buf i shift acc = (v, Z.of_N r) /\ r <= i + lenN buf
  | Panic => exists k, go_uvarint_aux buf i shift acc = (0, (- Z.of_N k)%Z) /\ 1 <= k <= 11
  | _ => False
  end.
Proof.
  induction buf as [| b rest IH]; intros i shift acc Hi; cbn [uvarint_window go_uvarint_aux].
  - split; [reflexivity | lia].
  - destruct (10 <=? i) eqn:E10.
    + replace (i =? 10) with true by lia. exists (i + 1). split; [f_equal; lia | lia].
    + replace (i =? 10) with false by lia.
      destruct (b <? 128).
      * destruct ((i =? 9) && (1 <? b)).
        -- exists (i + 1). split; [f_equal; lia | lia].
        -- split; [f_equal; lia | unfold lenN; cbn [length]; lia].
      * specialize (IH (i + 1) (shift + 7) (N.lor acc (N.shiftl (N.land b 127) shift))).
        destruct (uvarint_window rest (i + 1) (shift + 7) _) as [[v r] | | | |];
          try (apply IH; lia).
        destruct IH as [IH1 IH2]; [lia |]. split; [exact IH1 |].
        unfold lenN in *; cbn [length]; lia.
Qed.

(* the lemma in the form used below *)
Lemma go_uvarint_window (buf : bytes) :
  match uvarint_window buf 0 0 0 with
  | Ok (v, r) => go_uvarint buf = (v, Z.of_N r) /\ r <= lenN buf
  | Panic => exists k, go_uvarint buf = (0, (- Z.of_N k)%Z) /\ 1 <= k <= 11
  | _ => False
  end.
Proof. apply (go_uvarint_aux_window buf 0 0 0). lia. Qed.

(* ------------------------------------------------------------------ *)
(* Go integers                                                         *)

Lemma u64_of_int_small (r : N) : r < two64 -> u64_of_int (Z.of_N r) = r.
Proof. unfold u64_of_int, two64. lia. Qed.

Lemma wrap64_small (x : N) : x < two64 -> wrap64 x = x.
Proof. unfold wrap64, two64. intros H. apply N.mod_small, H. Qed.

(* `if blockLen < end { end = blockLen }` is the minimum *)
Lemma clamp_min (len e : N) : (if len <? e then Ok len else Ok e) = Ok (N.min e len) :> result N.
Proof. destruct (len <? e) eqn:E; f_equal; lia. Qed.

(* ------------------------------------------------------------------ *)
(* the clamped look-ahead: Go's b[int(lo):int(min(lo+10, len))] is Stored.slice *)

Lemma go_slice_window (block : bytes) (lo : N) :
  lenN block < two63 -> lo < two64 ->
  go_slice block (int_of_u64 lo) (int_of_u64 (N.min (wrap64 (lo + 10)) (lenN block))) =
  slice block lo (N.min (lo + 10) (lenN block)).
Proof.
  unfold go_slice, slice, lenN, int_of_u64, wrap_int, wrap64, two63, two64. intros Hlen Hlo.
  match goal with |- (if ?c then _ else _) = (if ?d then _ else _) =>
    destruct c eqn:Ec; destruct d eqn:Ed end; try reflexivity; try (exfalso; lia).
  f_equal. f_equal; [| f_equal]; lia.
Qed.

Lemma slice_ok_len (block : bytes) (lo hi : N) (w : bytes) :
  slice block lo hi = Ok w -> lo <= hi <= lenN block /\ lenN w = hi - lo.
Proof.
  unfold slice, lenN. destruct ((lo <=? hi) && (hi <=? N.of_nat (length block))) eqn:E; [| discriminate].
  intros [= <-]. rewrite firstn_length, skipn_length. lia.
Qed.

(* ------------------------------------------------------------------ *)
(* the index entry is a uint64                                         *)

Lemma be_value8_bound (b : bytes) :
  length b = 8%nat -> Forall is_byte b -> be_value b 0 < two64.
Proof.
  intros Hl Hb.
  destruct b as [| b0 [| b1 [| b2 [| b3 [| b4 [| b5 [| b6 [| b7 [| b8 b]]]]]]]]]; try discriminate Hl.
  repeat match goal with H : Forall _ (_ :: _) |- _ => inversion H; subst; clear H end.
  unfold is_byte, two64 in *. cbn [be_value]. lia.
Qed.

Lemma doc_stored_offset_bound (data : bytes) (sio docNum io so : N) :
  Forall is_byte data -> doc_stored_offset data sio docNum = Ok (io, so) -> so < two64.
Proof.
  intros Hd. unfold doc_stored_offset. cbv zeta.
  destruct (data_read_int data _ _) as [b | | | |] eqn:E; try discriminate.
  cbn [rbind]. intros [= _ <-].
  pose proof (data_read_int_Forall _ _ _ _ _ Hd E) as Hb.
  apply data_read_int_ok in E. destruct E as (H1 & _ & H3).
  apply be_value8_bound; [| exact Hb].
  pose proof (span_u64 _ 8 eq_refl H1). lia.
Qed.

(* ------------------------------------------------------------------ *)
(* getDocStoredOffsets                                                 *)

Theorem tie_getDocStoredOffsets (zd : bytes -> result bytes) (buf data : bytes) (docNum sio : N)
        (chunkOffsets : list N) :
  sio < two64 -> docNum < two64 -> Forall is_byte data ->
  (forall c b, zd c = Ok b -> lenN b < two63) ->
  (forall block so, stored_offsets_block zd docNum sio data chunkOffsets = Ok (block, so) ->
                    lens_no_overflow block so) ->
  g_Segment_getDocStoredOffsets zd buf docNum sio data chunkOffsets =
  stored_offsets_spec zd docNum sio data chunkOffsets.
Proof.
  intros Hsio Hdoc Hdata Hzd Hno.
  unfold g_Segment_getDocStoredOffsets, stored_offsets_spec, c_defaultDocumentChunkSize.
  unfold stored_offsets_block in Hno. unfold Stored.block_docs in *.
  cbv zeta in *. rewrite (tie_getDocStoredOffsetsOnly data sio docNum Hsio Hdoc).
  destruct (doc_stored_offset data sio docNum) as [[io so] | | | |] eqn:Eso; try reflexivity.
  cbn [rbind] in *.
  destruct (go_index chunkOffsets _) as [cs | | | |]; try reflexivity. cbn [rbind] in *.
  destruct (go_index chunkOffsets _) as [ce | | | |]; try reflexivity. cbn [rbind] in *.
  destruct (data_read_int data _ _) as [c | | | |]; try reflexivity. cbn [rbind] in *.
  destruct (zd c) as [block | | | |] eqn:Ezd; try reflexivity. cbn [rbind] in *.
  specialize (Hno block so eq_refl).
  pose proof (Hzd c block Ezd) as Hlen.
  pose proof (doc_stored_offset_bound _ _ _ _ _ Hdata Eso) as Hso.
  clear Hzd Ezd Eso Hdata.
  (* first window *)
  rewrite (u64_of_int_lenN block Hlen), clamp_min. cbn [rbind].
  rewrite (go_slice_window block so Hlen Hso). unfold stored_lens. cbv zeta.
  destruct (slice block so (N.min (so + 10) (lenN block))) as [w1 | | | |] eqn:Ew1; try reflexivity.
  cbn [rbind].
  pose proof (go_uvarint_window w1) as Hu1.
  destruct (uvarint_window w1 0 0 0) as [[metaLen r1] | | | |] eqn:Eu1; try contradiction;
    [| exfalso; exact (proj1 Hno w1 Ew1 Eu1)].
  destruct Hu1 as [Hu1 Hr1]. rewrite Hu1. cbn [rbind].
  pose proof (proj2 Hno w1 metaLen r1 Ew1 Eu1) as Hno2.
  apply slice_ok_len in Ew1.
  assert (Hr1s : r1 < two64 /\ so + r1 < two64 /\ so + r1 <= lenN block) by (unfold two64, two63 in *; lia).
  destruct Hr1s as (Hr1a & Hr1b & Hr1c).
  rewrite (u64_of_int_small r1 Hr1a), N.add_0_l, (wrap64_small r1 Hr1a), (wrap64_small (so + r1) Hr1b).
  (* second window *)
  rewrite clamp_min. cbn [rbind]. rewrite (go_slice_window block (so + r1) Hlen Hr1b).
  destruct (slice block (so + r1) (N.min (so + r1 + 10) (lenN block))) as [w2 | | | |] eqn:Ew2;
    try reflexivity.
  cbn [rbind].
  pose proof (go_uvarint_window w2) as Hu2.
  destruct (uvarint_window w2 0 0 0) as [[dataLen r2] | | | |] eqn:Eu2; try contradiction;
    [| exfalso; exact (Hno2 w2 Ew2 Eu2)].
  destruct Hu2 as [Hu2 Hr2]. rewrite Hu2. cbn [rbind].
  apply slice_ok_len in Ew2.
  assert (Hr2s : r2 < two64 /\ r1 + r2 < two64) by (unfold two64, two63 in *; lia).
  destruct Hr2s as (Hr2a & Hr2b).
  rewrite (u64_of_int_small r2 Hr2a), (wrap64_small (r1 + r2) Hr2b). reflexivity.
Qed.
Print Assumptions tie_getDocStoredOffsets.

(* ------------------------------------------------------------------ *)
(* consequences that do not mention overflow                           *)

Lemma stored_offsets_spec_split zd docNum sio data chunkOffsets :
  stored_offsets_spec zd docNum sio data chunkOffsets =
  do (block, so) <- stored_offsets_block zd docNum sio data chunkOffsets;
  do (metaLen, dataLen, n) <- stored_lens block so;
  Ok (block, so, n, metaLen, dataLen).
Proof.
  unfold stored_offsets_spec, stored_offsets_block. cbv zeta.
  destruct (doc_stored_offset data sio docNum) as [[io so] | | | |]; try reflexivity. cbn [rbind].
  destruct (go_index chunkOffsets _) as [cs | | | |]; try reflexivity. cbn [rbind].
  destruct (go_index chunkOffsets _) as [ce | | | |]; try reflexivity. cbn [rbind].
  destruct (data_read_int data _ _) as [c | | | |]; try reflexivity. cbn [rbind].
  destruct (zd c) as [block | | | |]; reflexivity.
Qed.

(* an overflowing window makes the hand model panic *)
Lemma stored_lens_nopanic_no_overflow (block : bytes) (off : N) :
  stored_lens block off <> Panic -> lens_no_overflow block off.
Proof.
  unfold stored_lens, lens_no_overflow, window_no_overflow. cbv zeta. intros H. split.
  - intros w Ew Eu. apply H. rewrite Ew. cbn [rbind]. rewrite Eu. reflexivity.
  - intros w metaLen r1 Ew Eu w2 Ew2 Eu2. apply H. rewrite Ew. cbn [rbind]. rewrite Eu. cbn [rbind].
    rewrite Ew2. cbn [rbind]. rewrite Eu2. reflexivity.
Qed.

Lemma window_no_overflow_dec (block : bytes) (lo : N) :
  window_no_overflow block lo \/ ~ window_no_overflow block lo.
Proof.
  unfold window_no_overflow.
  destruct (slice block lo (N.min (lo + 10) (lenN block))) as [w | | | |] eqn:Ew;
    try (left; intros w' [=]; fail).
  destruct (uvarint_window w 0 0 0) as [[v r] | | | |] eqn:Eu;
    try (left; intros w' [= <-]; rewrite Eu; discriminate).
  right. intros H. exact (H w eq_refl Eu).
Qed.

Lemma lens_no_overflow_dec (block : bytes) (off : N) :
  lens_no_overflow block off \/ ~ lens_no_overflow block off.
Proof.
  unfold lens_no_overflow.
  destruct (window_no_overflow_dec block off) as [H1 | H1]; [| right; intros [H _]; exact (H1 H)].
  destruct (slice block off (N.min (off + 10) (lenN block))) as [w | | | |] eqn:Ew;
    try (left; split; [exact H1 | intros w' m r [=]]; fail).
  destruct (uvarint_window w 0 0 0) as [[v r] | | | |] eqn:Eu;
    try (left; split; [exact H1 | intros w' m r' [= <-]; rewrite Eu; discriminate]; fail).
  destruct (window_no_overflow_dec block (off + r)) as [H2 | H2].
  - left. split; [exact H1 |]. intros w' m r' [= <-]. rewrite Eu. intros [= <- <-]. exact H2.
  - right. intros [_ H]. exact (H2 (H w v r eq_refl Eu)).
Qed.

(* whenever the hand-model function does not end in Panic, the two are equal *)
Theorem tie_getDocStoredOffsets_nopanic (zd : bytes -> result bytes) (buf data : bytes)
        (docNum sio : N) (chunkOffsets : list N) :
  sio < two64 -> docNum < two64 -> Forall is_byte data ->
  (forall c b, zd c = Ok b -> lenN b < two63) ->
  stored_offsets_spec zd docNum sio data chunkOffsets <> Panic ->
  g_Segment_getDocStoredOffsets zd buf docNum sio data chunkOffsets =
  stored_offsets_spec zd docNum sio data chunkOffsets.
Proof.
  intros Hsio Hdoc Hdata Hzd Hnp. apply tie_getDocStoredOffsets; try assumption.
  intros block so Hb. apply stored_lens_nopanic_no_overflow. intros Hp. apply Hnp.
  rewrite stored_offsets_spec_split, Hb. cbn [rbind]. rewrite Hp. reflexivity.
Qed.

(* in particular every Ok result of the hand-model function is the result of the Go function *)
Corollary tie_getDocStoredOffsets_ok (zd : bytes -> result bytes) (buf data : bytes)
        (docNum sio : N) (chunkOffsets : list N) (r : bytes * N * N * N * N) :
  sio < two64 -> docNum < two64 -> Forall is_byte data ->
  (forall c b, zd c = Ok b -> lenN b < two63) ->
  stored_offsets_spec zd docNum sio data chunkOffsets = Ok r ->
  g_Segment_getDocStoredOffsets zd buf docNum sio data chunkOffsets = Ok r.
Proof.
  intros Hsio Hdoc Hdata Hzd Hr. rewrite <- Hr. apply tie_getDocStoredOffsets_nopanic; try assumption.
  rewrite Hr. discriminate.
Qed.

(* the whole picture: the two are equal, or the hand-model function panics on a window that
   overflows (and the Go function goes on with a wrapped n) *)
Theorem tie_getDocStoredOffsets_cases (zd : bytes -> result bytes) (buf data : bytes)
        (docNum sio : N) (chunkOffsets : list N) :
  sio < two64 -> docNum < two64 -> Forall is_byte data ->
  (forall c b, zd c = Ok b -> lenN b < two63) ->
  g_Segment_getDocStoredOffsets zd buf docNum sio data chunkOffsets =
  stored_offsets_spec zd docNum sio data chunkOffsets
  \/ (stored_offsets_spec zd docNum sio data chunkOffsets = Panic /\
      exists block so, stored_offsets_block zd docNum sio data chunkOffsets = Ok (block, so) /\
                       ~ lens_no_overflow block so).
Proof.
  intros Hsio Hdoc Hdata Hzd.
  destruct (stored_offsets_block zd docNum sio data chunkOffsets) as [[block so] | | | |] eqn:Eb;
    try (left; apply tie_getDocStoredOffsets; try assumption; rewrite Eb; discriminate).
  destruct (lens_no_overflow_dec block so) as [Hno | Hov].
  - left. apply tie_getDocStoredOffsets; try assumption. rewrite Eb. intros b s [= <- <-]. exact Hno.
  - right. split; [| exists block, so; split; [reflexivity | exact Hov]].
    rewrite stored_offsets_spec_split, Eb. cbn [rbind].
    destruct (stored_lens block so) as [[[m d] n] | | | |] eqn:El; try reflexivity;
      exfalso; apply Hov, stored_lens_nopanic_no_overflow; rewrite El; discriminate.
Qed.

(* an Ok result of the Go function is the result of the hand-model function unless a window overflows *)
Corollary tie_getDocStoredOffsets_ok_inv (zd : bytes -> result bytes) (buf data : bytes)
        (docNum sio : N) (chunkOffsets : list N) (r : bytes * N * N * N * N) :
  sio < two64 -> docNum < two64 -> Forall is_byte data ->
  (forall c b, zd c = Ok b -> lenN b < two63) ->
  g_Segment_getDocStoredOffsets zd buf docNum sio data chunkOffsets = Ok r ->
  stored_offsets_spec zd docNum sio data chunkOffsets = Ok r
  \/ exists block so, stored_offsets_block zd docNum sio data chunkOffsets = Ok (block, so) /\
                      ~ lens_no_overflow block so.
Proof.
  intros Hsio Hdoc Hdata Hzd Hr.
  destruct (tie_getDocStoredOffsets_cases zd buf data docNum sio chunkOffsets Hsio Hdoc Hdata Hzd)
    as [E | [_ E]]; [left; rewrite <- E; exact Hr | right; exact E].
Qed.

(* ------------------------------------------------------------------ *)
(* the exception is real: witnesses (no compression: zd = Ok)          *)

(* one document at offset 0 of the block [1; ff*9; 02]: metaLen = 1 (one byte), then the window
   [ff*9; 02] overflows.  binary.Uvarint returns (0, -10); n = 1 + uint64(-10) = 2^64 - 9 and the
   function returns; the hand model panics. *)
Example overflow_second_window_differs :
  let block := [1; 255; 255; 255; 255; 255; 255; 255; 255; 255; 2] in
  let data := [0; 0; 0; 0; 0; 0; 0; 0] ++ block in
  g_Segment_getDocStoredOffsets (fun b => Ok b) [] 0 0 data [8; 19] =
    Ok (block, 0, 18446744073709551607, 1, 0) /\
  stored_offsets_spec (fun b => Ok b) 0 0 data [8; 19] = Panic.
Proof. vm_compute. split; reflexivity. Qed.

(* a document at offset 10 whose first window [ff*9; 02] overflows: n = uint64(-10), so the second
   window is block[0:10], the bytes BEFORE the document (dataLen = 5 read there, n = 2^64 - 9) *)
Example overflow_first_window_differs :
  let block := [5; 0; 0; 0; 0; 0; 0; 0; 0; 0; 255; 255; 255; 255; 255; 255; 255; 255; 255; 2] in
  let data := [0; 0; 0; 0; 0; 0; 0; 10] ++ block in
  g_Segment_getDocStoredOffsets (fun b => Ok b) [] 0 0 data [8; 28] =
    Ok (block, 10, 18446744073709551607, 0, 5) /\
  stored_offsets_spec (fun b => Ok b) 0 0 data [8; 28] = Panic.
Proof. vm_compute. split; reflexivity. Qed.

(* [Forall is_byte data] is needed as well: an index "byte" of 2^64 gives storedOffset = 2^64 * 1,
   which int() maps to 0 while Stored.slice sees an offset beyond the block *)
Example non_byte_data_differs :
  let block := [1; 1] in
  let data := [0; 0; 0; 0; 0; 0; 0; 18446744073709551616] ++ block in
  g_Segment_getDocStoredOffsets (fun b => Ok b) [] 0 0 data [8; 10] =
    Ok (block, 18446744073709551616, 2, 1, 1) /\
  stored_offsets_spec (fun b => Ok b) 0 0 data [8; 10] = Panic.
Proof. vm_compute. split; reflexivity. Qed.

Print Assumptions tie_getDocStoredOffsets_nopanic.
Print Assumptions tie_getDocStoredOffsets_cases.
Print Assumptions tie_getDocStoredOffsets_ok_inv.

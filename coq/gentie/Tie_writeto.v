(* props: C12 *)
(* The two WriteTo functions still have the shape the writer model assumes: one buffered
   writer, handed to everything that writes, a final Flush whose error is returned, and
   no error check that returns nil. *)
From Coq Require Import Bool.
From Ice Require Import Base.
From IceGen Require Import Generated.

Theorem tie_merger_writeto_shape :
  Merger_WriteTo_has_buffered_writer && Merger_WriteTo_passes_buffered_writer &&
  Merger_WriteTo_flush_checked && Merger_WriteTo_error_checks_return_error = true.
Proof. reflexivity. Qed.
Theorem tie_segment_writeto_shape :
  Segment_WriteTo_has_buffered_writer && Segment_WriteTo_passes_buffered_writer &&
  Segment_WriteTo_flush_checked && Segment_WriteTo_error_checks_return_error = true.
Proof. reflexivity. Qed.

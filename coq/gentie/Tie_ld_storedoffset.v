(* props: C04, C06, C10 *)
(* read.go getDocStoredOffsetsOnly, regenerated from the source, equals Container.doc_stored_offset. *)
From Coq Require Import ZArith List Lia PeanoNat Bool.
From Ice Require Import Base Varint Footer Container GenLib.
From IceProofs Require Import Varint_Proofs.   (* is_byte *)
From IceGen Require Import Generated Tie_00_loadlib.
Import ListNotations.
Open Scope N_scope.

Ltac Zify.zify_post_hook ::= Z.div_mod_to_equations.

(* ------------------------------------------------------------------ *)
(* getDocStoredOffsetsOnly                                             *)

Theorem tie_getDocStoredOffsetsOnly (data : bytes) (sio docNum : N) :
  sio < two64 -> docNum < two64 ->
  g_Segment_getDocStoredOffsetsOnly docNum sio data = doc_stored_offset data sio docNum.
Proof.
  intros _ _. unfold g_Segment_getDocStoredOffsetsOnly, doc_stored_offset, c_fileAddrWidth.
  cbv zeta. rewrite (bind_read_be _ _ _ 8%nat); [reflexivity |].
  intros H. apply (span_u64 _ 8); [reflexivity | exact H].
Qed.
Print Assumptions tie_getDocStoredOffsetsOnly.


(* props: C09, C15 *)
(* Every write to shared Segment state in the current source is either made while the
   segment is constructed or is a fill of the FST cache under the segment mutex. *)
From Coq Require Import List Bool.
From Ice Require Import Base Conc.
From IceGen Require Import Generated.

Theorem tie_discipline : discipline_ok footprints = true.
Proof. vm_compute. reflexivity. Qed.

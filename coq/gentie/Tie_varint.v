(* props: C01, C05, C06, C10 *)
(* Tie_varint.v - the cursor loops of memUvarintReader (ReadUvarint, SkipUvarint)
   as translated from /repo/memuvarint.go (IceGen.Generated, regenerated on every
   run) compute exactly what the hand-written model of theories/Varint.v computes
   on the unread suffix S[C:]: same value, same overflow error, same index panic,
   and the cursor ends where the model's rest begins.

   The generated loop indexes into the slice with a wrapping cursor and a
   wrapping shift; the model consumes a list and lets the shift grow.  The two
   agree as long as neither the cursor nor the shift (7 per consumed byte) can
   wrap, hence the hypothesis 7 * lenN S + 7 < two64.

   The proofs do not depend on the syntactic shape of the generated terms beyond
   "one fuelled Fixpoint per loop": every step is unfolded, the branch conditions
   of both sides are case-analysed independently and the impossible combinations
   are discharged by lia, so a changed comparison, shift step, mask or overflow
   test makes the file fail. *)
From Coq Require Import NArith Bool Lia ZifyBool ZifyN ZifyNat List.
From Ice Require Import Base Varint GenLib.
From IceGen Require Import Generated.
Import ListNotations.
Open Scope N_scope.

Definition bytes_ok (S : list N) : Prop := Forall (fun b => b < 256) S.

(* ------------------------------------------------------------------ *)
(* generic helpers                                                      *)

Lemma tv_wrap64_small (y : N) : y < two64 -> wrap64 y = y.
Proof. intros H. unfold wrap64. apply N.mod_small. exact H. Qed.

Lemma tv_wrap64_lt (y : N) : wrap64 y < two64.
Proof. unfold wrap64. apply N.mod_lt. discriminate. Qed.

Lemma tv_log2_lt (a n : N) : 0 < n -> a < 2 ^ n -> N.log2 a < n.
Proof.
  intros Hn Ha. destruct (N.eq_dec a 0) as [->|Hz].
  - exact Hn.
  - apply N.log2_lt_pow2; [lia | exact Ha].
Qed.

Lemma tv_lor_lt_pow2 (a b n : N) : 0 < n -> a < 2 ^ n -> b < 2 ^ n -> N.lor a b < 2 ^ n.
Proof.
  intros Hn Ha Hb. destruct (N.eq_dec (N.lor a b) 0) as [Hz|Hz].
  - rewrite Hz. apply N.neq_0_lt_0. apply N.pow_nonzero. discriminate.
  - apply N.log2_lt_pow2; [lia|].
    rewrite N.log2_lor. apply N.max_lub_lt; apply tv_log2_lt; assumption.
Qed.

Lemma tv_lor_lt (a b : N) : a < two64 -> b < two64 -> N.lor a b < two64.
Proof.
  change two64 with (2 ^ 64). apply tv_lor_lt_pow2. reflexivity.
Qed.

Lemma tv_nthN_skipn {A} (l : list A) : forall n, nthN l n = hd_error (skipn n l).
Proof.
  induction l as [|x l IH]; intros [|n]; cbn [nthN skipn hd_error]; try reflexivity.
  apply IH.
Qed.

Lemma tv_skipn_S_tl {A} (l : list A) : forall n, skipn (S n) l = tl (skipn n l).
Proof.
  induction l as [|x l IH]; intros [|n]; try reflexivity.
  change (skipn (S (S n)) (x :: l)) with (skipn (S n) l).
  change (skipn (S n) (x :: l)) with (skipn n l).
  apply IH.
Qed.

Lemma tv_bytes_ok_skipn (S : list N) (n : nat) : bytes_ok S -> bytes_ok (skipn n S).
Proof.
  unfold bytes_ok. intros H. rewrite <- (firstn_skipn n S) in H.
  apply Forall_app in H. apply H.
Qed.

(* what one step of either loop sees: the byte under the cursor and the state
   of the cursor / suffix after consuming it *)
Lemma tv_step (S : list N) (C b : N) (rest : list N) :
  bytes_ok S -> C <= lenN S -> lenN S < two64 ->
  skipn (N.to_nat C) S = b :: rest ->
  b < 256 /\ C < lenN S /\ wrap64 (C + 1) = C + 1 /\
  skipn (N.to_nat (C + 1)) S = rest /\ length rest = (length S - N.to_nat (C + 1))%nat.
Proof.
  intros Hok HC Hlen E.
  assert (Hb : b < 256).
  { pose proof (tv_bytes_ok_skipn S (N.to_nat C) Hok) as H. rewrite E in H.
    inversion H; assumption. }
  assert (HL : length (skipn (N.to_nat C) S) = (length S - N.to_nat C)%nat)
    by apply skipn_length.
  rewrite E in HL. cbn [length] in HL.
  assert (HC' : C < lenN S) by (unfold lenN in *; lia).
  assert (Hnat : N.to_nat (C + 1) = Datatypes.S (N.to_nat C)) by lia.
  repeat split; try assumption.
  - apply tv_wrap64_small. lia.
  - rewrite Hnat, tv_skipn_S_tl, E. reflexivity.
  - lia.
Qed.

(* ------------------------------------------------------------------ *)
(* ReadUvarint                                                          *)

Lemma tie_ReadUvarint_loop (S : list N) :
  bytes_ok S -> 7 * lenN S + 7 < two64 ->
  forall (fuel : nat) (C x s : N),
  C <= lenN S -> x < two64 -> s <= 7 * C ->
  (length S - N.to_nat C < fuel)%nat ->
  match read_uvarint_aux (skipn (N.to_nat C) S) s x with
  | None => g_memUvarintReader_ReadUvarint_loop fuel S C x s = Panic
  | Some (None, _) => g_memUvarintReader_ReadUvarint_loop fuel S C x s = Err
  | Some (Some v, rest) =>
      exists C', g_memUvarintReader_ReadUvarint_loop fuel S C x s = Ok (v, C') /\
                 C <= C' /\ C' <= lenN S /\ skipn (N.to_nat C') S = rest
  end.
Proof.
  intros Hok Hlen7.
  assert (Hlen : lenN S < two64) by lia.
  induction fuel as [|f IH]; intros C x s HC Hx Hs Hfuel; [lia|].
  cbn [g_memUvarintReader_ReadUvarint_loop].
  rewrite tv_nthN_skipn.
  destruct (skipn (N.to_nat C) S) as [|b rest] eqn:E;
    cbn [hd_error read_uvarint_aux]; [reflexivity|].
  destruct (tv_step S C b rest Hok HC Hlen E) as (Hb & HC' & HwC & Hrest & Hlrest).
  cbv zeta. rewrite HwC.
  unfold c_lastByte, c_sevenTimesNine, c_significantBits.
  (* every branch condition of either side is case-analysed on its own; the
     combinations in which the two sides disagree must be contradictory *)
  repeat match goal with
    | |- context [if ?c then _ else _] => let H := fresh "Hc" in destruct c eqn:H
    end; try (exfalso; lia).
  all: lazymatch goal with
    | |- Err = Err => reflexivity
    | |- exists _, Ok _ = Ok _ /\ _ =>
        (* terminal byte, no overflow *)
        exists (C + 1); split; [|split; [lia|split; [lia|exact Hrest]]];
        rewrite (tv_wrap64_small (N.lor x _));
          [reflexivity | apply tv_lor_lt; [exact Hx | apply tv_wrap64_lt]]
    | |- _ => idtac
    end.
  (* continuation byte *)
  assert (Hx' : N.lor x (wrap64 (N.shiftl (N.land b 127) s)) < two64)
    by (apply tv_lor_lt; [exact Hx | apply tv_wrap64_lt]).
  rewrite (tv_wrap64_small (N.lor x _)) by exact Hx'.
  rewrite (tv_wrap64_small (s + 7)) by lia.
  specialize (IH (C + 1) (N.lor x (wrap64 (N.shiftl (N.land b 127) s))) (s + 7)).
  rewrite Hrest in IH.
  assert (HIH := IH ltac:(lia) Hx' ltac:(lia) ltac:(unfold lenN in *; lia)). clear IH.
  destruct (read_uvarint_aux rest (s + 7) _) as [[[v|] rest']|] in HIH |- *.
  - destruct HIH as (C' & Hrun & H1 & H2 & H3).
    exists C'. split; [exact Hrun|]. split; [lia|]. split; assumption.
  - exact HIH.
  - exact HIH.
Qed.

Theorem tie_ReadUvarint (S : list N) (C : N) :
  bytes_ok S -> C <= lenN S -> 7 * lenN S + 7 < two64 ->
  match read_uvarint (skipn (N.to_nat C) S) with
  | None => g_memUvarintReader_ReadUvarint S C = Panic
  | Some (None, _) => g_memUvarintReader_ReadUvarint S C = Err
  | Some (Some v, rest) =>
      exists C', g_memUvarintReader_ReadUvarint S C = Ok (v, C') /\ C <= C' /\ C' <= lenN S /\
                 skipn (N.to_nat C') S = rest
  end.
Proof.
  intros Hok HC Hlen.
  unfold read_uvarint, g_memUvarintReader_ReadUvarint.
  apply tie_ReadUvarint_loop; try assumption.
  - unfold two64. lia.
  - lia.
  - lia.
Qed.

(* ------------------------------------------------------------------ *)
(* SkipUvarint                                                          *)

Lemma tie_SkipUvarint_loop (S : list N) :
  bytes_ok S -> lenN S < two64 ->
  forall (fuel : nat) (C : N),
  C <= lenN S ->
  (length S - N.to_nat C < fuel)%nat ->
  match skip_uvarint (skipn (N.to_nat C) S) with
  | None => g_memUvarintReader_SkipUvarint_loop fuel S C = Panic
  | Some rest =>
      exists C', g_memUvarintReader_SkipUvarint_loop fuel S C = Ok C' /\
                 C <= C' /\ C' <= lenN S /\ skipn (N.to_nat C') S = rest
  end.
Proof.
  intros Hok Hlen.
  induction fuel as [|f IH]; intros C HC Hfuel; [lia|].
  cbn [g_memUvarintReader_SkipUvarint_loop].
  rewrite tv_nthN_skipn.
  destruct (skipn (N.to_nat C) S) as [|b rest] eqn:E;
    cbn [hd_error skip_uvarint]; [reflexivity|].
  destruct (tv_step S C b rest Hok HC Hlen E) as (Hb & HC' & HwC & Hrest & Hlrest).
  cbv zeta. rewrite HwC.
  unfold c_lastByte.
  repeat match goal with
    | |- context [if ?c then _ else _] => let H := fresh "Hc" in destruct c eqn:H
    end; try (exfalso; lia).
  all: lazymatch goal with
    | |- exists _, Ok _ = Ok _ /\ _ =>
        exists (C + 1); split; [reflexivity|]; split; [lia|]; split; [lia|exact Hrest]
    | |- _ => idtac
    end.
  specialize (IH (C + 1)). rewrite Hrest in IH.
  assert (HIH := IH ltac:(lia) ltac:(unfold lenN in *; lia)). clear IH.
  destruct (skip_uvarint rest) as [rest'|].
  - destruct HIH as (C' & Hrun & H1 & H2 & H3).
    exists C'. split; [exact Hrun|]. split; [lia|]. split; assumption.
  - exact HIH.
Qed.

(* SkipUvarint only moves the cursor, so the cursor bound alone suffices *)
Theorem tie_SkipUvarint_len (S : list N) (C : N) :
  bytes_ok S -> C <= lenN S -> lenN S < two64 ->
  match skip_uvarint (skipn (N.to_nat C) S) with
  | None => g_memUvarintReader_SkipUvarint S C = Panic
  | Some rest => exists C', g_memUvarintReader_SkipUvarint S C = Ok C' /\ C' <= lenN S /\ skipn (N.to_nat C') S = rest
  end.
Proof.
  intros Hok HC Hlen.
  unfold g_memUvarintReader_SkipUvarint.
  pose proof (tie_SkipUvarint_loop S Hok Hlen (Datatypes.S (length S)) C HC ltac:(lia)) as H.
  destruct (skip_uvarint (skipn (N.to_nat C) S)) as [rest|].
  - destruct H as (C' & Hrun & _ & H2 & H3). exists C'. repeat split; assumption.
  - exact H.
Qed.

Theorem tie_SkipUvarint (S : list N) (C : N) :
  bytes_ok S -> C <= lenN S -> 7 * lenN S + 7 < two64 ->
  match skip_uvarint (skipn (N.to_nat C) S) with
  | None => g_memUvarintReader_SkipUvarint S C = Panic
  | Some rest => exists C', g_memUvarintReader_SkipUvarint S C = Ok C' /\ C' <= lenN S /\ skipn (N.to_nat C') S = rest
  end.
Proof.
  intros Hok HC Hlen. apply tie_SkipUvarint_len; try assumption. lia.
Qed.

(* props: C04, C07, C10 *)
(* segment.go loadDvReaders, regenerated from the source (it calls the regenerated
   loadFieldDocValueReader), equals Container.load_dv_readers and the segment state it implies. *)
From Coq Require Import ZArith List Lia PeanoNat Bool.
From Ice Require Import Base Varint Footer Container GenLib.
From IceProofs Require Import Varint_Proofs.   (* is_byte *)
From IceGen Require Import Generated Tie_00_loadlib Tie_ld_dv.
Import ListNotations.
Open Scope N_scope.

Require Import ZifyBool ZifyN ZifyNat.
Ltac Zify.zify_post_hook ::= Z.div_mod_to_equations.

(* what loadDvReaders leaves in the segment: s.fieldDvNames (appended to) and
   s.fieldDvReaders (a map keyed by uint16(fieldID), newest binding first; the
   reader object is the tuple of fields loadFieldDocValueReader assigns:
   chunkOffsets, curChunkNum, dvDataLoc, field) *)
Definition dv_obj := (list N * N * N * bytes)%type.
Fixpoint dvr_state (i : N) (fields : list bytes) (rs : list (option (N * list N)))
         (names : list bytes) (m : list (N * dv_obj)) : list bytes * list (N * dv_obj) :=
  match fields, rs with
  | f :: fs, Some (loc, offs) :: rs' =>
      dvr_state (i + 1) fs rs' (names ++ [f]) ((u16 i, (offs, 9223372036854775807, loc, f)) :: m)
  | _ :: fs, None :: rs' => dvr_state (i + 1) fs rs' names m
  | _, _ => (names, m)
  end.

(* ------------------------------------------------------------------ *)
(* binary.Uvarint on bytes returns a value below 2^64: at most ten groups of
   seven bits are accumulated and the tenth group is 0 or 1 *)

Lemma lor_lt_pow2 (a b n : N) : a < 2 ^ n -> b < 2 ^ n -> N.lor a b < 2 ^ n.
Proof.
  intros Ha Hb.
  destruct (N.eq_dec a 0) as [-> | Hna]; [rewrite N.lor_0_l; exact Hb |].
  destruct (N.eq_dec b 0) as [-> | Hnb]; [rewrite N.lor_0_r; exact Ha |].
  assert (Hpos : 0 < N.lor a b).
  { destruct (N.eq_dec (N.lor a b) 0) as [Hz | Hnz]; [| lia].
    apply N.lor_eq_0_iff in Hz. lia. }
  apply N.log2_lt_pow2; [exact Hpos |].
  rewrite N.log2_lor.
  apply N.log2_lt_pow2 in Ha; [| lia]. apply N.log2_lt_pow2 in Hb; [| lia]. lia.
Qed.

Lemma shiftl_lt_pow2 (b shift : N) : b < 128 -> N.shiftl b shift < 2 ^ (shift + 7).
Proof.
  intros Hb. rewrite N.shiftl_mul_pow2, N.pow_add_r, (N.mul_comm (2 ^ shift)).
  apply N.mul_lt_mono_pos_r; [| exact Hb].
  apply N.neq_0_lt_0, N.pow_nonzero. discriminate.
Qed.

Lemma pow2_mono (a b : N) : a <= b -> 2 ^ a <= 2 ^ b.
Proof. intros H. apply N.pow_le_mono_r; [discriminate | exact H]. Qed.

Lemma go_uvarint_aux_bound (buf : bytes) :
  forall (i shift acc v : N) (r : Z),
    i <= 10 -> shift = 7 * i -> acc < 2 ^ shift ->
    go_uvarint_aux buf i shift acc = (v, r) -> v < two64.
Proof.
  assert (H64 : two64 = 2 ^ 64) by reflexivity.
  assert (Hzero : 0 < two64) by reflexivity.
  induction buf as [| b rest IH]; intros i shift acc v r Hi Hshift Hacc; cbn [go_uvarint_aux].
  - intros [= <- <-]. exact Hzero.
  - destruct (N.eqb_spec i 10) as [Hi10 | Hi10]; [intros [= <- <-]; exact Hzero |].
    destruct (N.ltb_spec b 128) as [Hb | Hb].
    + destruct (N.eqb_spec i 9) as [Hi9 | Hi9]; cbn [andb].
      * destruct (N.ltb_spec 1 b) as [Hb1 | Hb1]; intros [= <- <-]; [exact Hzero |].
        rewrite H64. apply lor_lt_pow2.
        -- apply (N.lt_le_trans _ _ _ Hacc). apply pow2_mono. lia.
        -- rewrite N.shiftl_mul_pow2.
           assert (Hs : shift = 63) by lia. rewrite Hs.
           change (2 ^ 64) with (2 * 2 ^ 63).
           apply N.mul_lt_mono_pos_r; [reflexivity | lia].
      * intros [= <- <-]. rewrite H64.
        apply (N.lt_le_trans _ (2 ^ (shift + 7))); [| apply pow2_mono; lia].
        apply lor_lt_pow2; [| apply shiftl_lt_pow2, Hb].
        apply (N.lt_le_trans _ _ _ Hacc). apply pow2_mono. lia.
    + intros H. refine (IH (i + 1) (shift + 7) _ v r _ _ _ H); [lia | lia |].
      apply lor_lt_pow2.
      * apply (N.lt_le_trans _ _ _ Hacc). apply pow2_mono. lia.
      * apply shiftl_lt_pow2. change 127 with (N.ones 7). rewrite N.land_ones.
        apply N.mod_lt. discriminate.
Qed.

Lemma go_uvarint_bound (buf : bytes) (v : N) (r : Z) : go_uvarint buf = (v, r) -> v < two64.
Proof.
  unfold go_uvarint. apply go_uvarint_aux_bound; [lia | reflexivity | reflexivity].
Qed.

(* uint16(fieldID) for the int index of the range loop *)
Lemma u16_index (i : N) : u16 (u64_of_int (Z.of_N i)) = u16 i.
Proof. unfold u16, u64_of_int. lia. Qed.

(* ------------------------------------------------------------------ *)
(* the body of the range loop of loadDvReaders as it is translated (Generated.v),
   with the variables it reads from outside as parameters; state =
   (read, s.fieldDvNames, s.fieldDvReaders) *)
Definition dvr_loop_state := (N * list bytes * list (N * dv_obj))%type.
Definition dvr_body (fuel : nat) (data : bytes) (dvo : N)
  : Z -> bytes -> dvr_loop_state -> result dvr_loop_state :=
  fun fieldID field '(read, names, readers) =>
    let fieldLocStart := 0%N in
    let fieldLocEnd := 0%N in
    let n := 0%Z in
    do startData <- data_read_int data (int_of_u64 (wrap64 (dvo + read)))
                      (int_of_u64 (wrap64 (wrap64 (dvo + read) + 10%N)));
    let '(fieldLocStart, n) := go_uvarint startData in
    if Z.leb n 0%Z then Err else
    let read := wrap64 (read + u64_of_int n) in
    do endData <- data_read_int data (int_of_u64 (wrap64 (dvo + read)))
                    (int_of_u64 (wrap64 (wrap64 (dvo + read) + 10%N)));
    let '(fieldLocEnd, n) := go_uvarint endData in
    if Z.leb n 0%Z then Err else
    let read := wrap64 (read + u64_of_int n) in
    do reader <- g_Segment_loadFieldDocValueReader fuel field fieldLocStart fieldLocEnd data;
    do (names, readers) <- match reader with
      | Some reader =>
          let readers := (u16 (u64_of_int fieldID), reader) :: readers in
          let names := names ++ [field] in
          Ok (names, readers)
      | None => Ok (names, readers) end;
    Ok (read, names, readers).

(* The loop entered at index i with the suffix fs of s.fieldsInv still to visit;
   the int index never wraps because the slice is shorter than 2^63. *)
Lemma dvr_loop (fuel : nat) (data : bytes) (dvo : N) :
  lenN data < two63 -> Forall is_byte data -> (length data <= fuel)%nat ->
  forall (fs : list bytes) (i read : N) (names : list bytes) (m : list (N * dv_obj)),
    rbind (range_r (dvr_body fuel data dvo) (Z.of_N i) fs (read, names, m))
          (fun '(read, names, readers) => Ok (names, readers))
    = lift (fun rs => dvr_state i fs rs names m)
           (load_dv_locs_loop (load_field_dv_reader data) (length fs) data dvo read).
Proof.
  intros Hdata Hbytes Hfuel.
  induction fs as [| f fs IH]; intros i read names m.
  - reflexivity.
  - cbn [range_r length load_dv_locs_loop]. cbv zeta.
    unfold dvr_body at 1. cbv beta iota zeta.
    destruct (data_read_int data (int_of_u64 (wrap64 (dvo + read)))
                (int_of_u64 (wrap64 (wrap64 (dvo + read) + 10)))) as [sbuf | | | |] eqn:Es;
      cbn [rbind lift]; try reflexivity.
    destruct (go_uvarint sbuf) as [s rs] eqn:Evs.
    destruct (rs <=? 0)%Z; [reflexivity |].
    destruct (data_read_int data (int_of_u64 (wrap64 (dvo + wrap64 (read + u64_of_int rs))))
                (int_of_u64 (wrap64 (wrap64 (dvo + wrap64 (read + u64_of_int rs)) + 10))))
      as [ebuf | | | |] eqn:Ee; cbn [rbind lift]; try reflexivity.
    destruct (go_uvarint ebuf) as [e re] eqn:Eve.
    destruct (re <=? 0)%Z; [reflexivity |].
    rewrite (tie_loadFieldDocValueReader fuel f data s e
               (go_uvarint_bound _ _ _ Evs) (go_uvarint_bound _ _ _ Eve) Hdata Hbytes Hfuel).
    replace (Z.of_N i + 1)%Z with (Z.of_N (i + 1)) by lia.
    destruct (load_field_dv_reader data s e) as [[[loc offs] |] | | | |];
      cbn [lift dv_reader_fields rbind]; try reflexivity.
    + rewrite IH, u16_index.
      destruct (load_dv_locs_loop (load_field_dv_reader data) (length fs) data dvo
                  (wrap64 (wrap64 (read + u64_of_int rs) + u64_of_int re)));
        reflexivity.
    + rewrite IH.
      destruct (load_dv_locs_loop (load_field_dv_reader data) (length fs) data dvo
                  (wrap64 (wrap64 (read + u64_of_int rs) + u64_of_int re)));
        reflexivity.
Qed.

Theorem tie_loadDvReaders (fuel : nat) (data : bytes) (dvo numDocs : N) (fieldsInv : list bytes) :
  dvo < two64 -> lenN data < two63 -> Forall is_byte data -> (length data <= fuel)%nat ->
  N.of_nat (length fieldsInv) < two63 ->
  g_Segment_loadDvReaders fuel dvo numDocs fieldsInv [] [] data =
  lift (fun rs => dvr_state 0 fieldsInv rs [] [])
       (load_dv_readers data dvo numDocs (length fieldsInv)).
Proof.
  intros _ Hdata Hbytes Hfuel _.
  unfold g_Segment_loadDvReaders, load_dv_readers, load_dv_with,
    c_fieldNotUninverted, fieldNotUninverted.
  destruct ((dvo =? 18446744073709551615) || (numDocs =? 0)).
  - destruct fieldsInv; reflexivity.
  - cbv zeta. exact (dvr_loop fuel data dvo Hdata Hbytes Hfuel fieldsInv 0 0 [] []).
Qed.
Print Assumptions tie_loadDvReaders.

(* props: C06, C10 *)
(* read.go getDocStoredMetaAndUnCompressed, regenerated from the source, against the hand models:
   it is getDocStoredOffsets (Tie_ld_storedlens.stored_offsets_spec) followed by the two slices of
   Stored.visit_stored.  Go computes the slice bounds in uint64 (wrapping) and converts them with
   int(); Stored.slice works on unbounded numbers.  The two agree because the block is shorter than
   2^63, storedOffset + n lies inside the block and the two lengths are uint64 values
   (uvarint_window_bound): a sum that wraps, or exceeds 2^63, is a slice panic on both sides. *)
From Coq Require Import ZArith List Lia PeanoNat Bool.
From Ice Require Import Base Varint Stored Footer Container GenLib.
From IceProofs Require Import Varint_Proofs.
From IceGen Require Import Generated Tie_00_loadlib Tie_ld_storedoffset Tie_ld_storedlens.
Import ListNotations.
Open Scope N_scope.
Require Import ZifyBool ZifyN ZifyNat.
Ltac Zify.zify_post_hook ::= Z.div_mod_to_equations.

(* read.go getDocStoredMetaAndUnCompressed in terms of the hand models: the two slices of visit_stored *)
Definition stored_meta_spec (zd : bytes -> result bytes) (docNum sio : N) (data : bytes)
           (chunkOffsets : list N) : result (bytes * bytes * bytes) :=
  do (block, so, n, ml, dl) <- stored_offsets_spec zd docNum sio data chunkOffsets;
  do meta <- slice block (so + n) (so + n + ml);
  do dat <- slice block (so + n + ml) (so + n + ml + dl);
  Ok (meta, dat, block).

(* ------------------------------------------------------------------ *)
(* sanity checks on a concrete block (no compression)                  *)

(* one document at offset 0: metaLen 3, dataLen 2, meta [0;0;2], data [7;8] *)
Example meta_concrete :
  let block := [3; 2; 0; 0; 2; 7; 8] in
  let data := [0; 0; 0; 0; 0; 0; 0; 0] ++ block in
  g_Segment_getDocStoredMetaAndUnCompressed (fun b => Ok b) [] 0 0 data [8; 15] =
    Ok ([0; 0; 2], [7; 8], block) /\
  stored_meta_spec (fun b => Ok b) 0 0 data [8; 15] = Ok ([0; 0; 2], [7; 8], block).
Proof. vm_compute. split; reflexivity. Qed.

(* dataLen reaches beyond the block: a slice panic on both sides *)
Example meta_concrete_panic :
  let block := [3; 9; 0; 0; 2; 7; 8] in
  let data := [0; 0; 0; 0; 0; 0; 0; 0] ++ block in
  g_Segment_getDocStoredMetaAndUnCompressed (fun b => Ok b) [] 0 0 data [8; 15] = Panic /\
  stored_meta_spec (fun b => Ok b) 0 0 data [8; 15] = Panic.
Proof. vm_compute. split; reflexivity. Qed.

(* metaLen = 2^64 - 1 (ff*9 01): the uint64 sum wraps below lo; a slice panic on both sides *)
Example meta_concrete_wrap :
  let block := [255; 255; 255; 255; 255; 255; 255; 255; 255; 1; 0; 7; 8] in
  let data := [0; 0; 0; 0; 0; 0; 0; 0] ++ block in
  g_Segment_getDocStoredMetaAndUnCompressed (fun b => Ok b) [] 0 0 data [8; 21] = Panic /\
  stored_meta_spec (fun b => Ok b) 0 0 data [8; 21] = Panic.
Proof. vm_compute. split; reflexivity. Qed.

(* ------------------------------------------------------------------ *)
(* a value read by uvarint_window is a uint64                          *)

Lemma lor_lt_pow2 (a b n : N) : a < 2 ^ n -> b < 2 ^ n -> N.lor a b < 2 ^ n.
Proof.
  intros Ha Hb.
  destruct (N.eq_dec (N.lor a b) 0) as [E | E].
  - rewrite E. apply N.neq_0_lt_0, N.pow_nonzero. discriminate.
  - destruct (N.eq_dec n 0) as [En | En].
    + subst n. exfalso. apply E. change (2 ^ 0) with 1 in *.
      replace a with 0 by lia. replace b with 0 by lia. reflexivity.
    + apply N.log2_lt_pow2; [lia |]. rewrite N.log2_lor. apply N.max_lub_lt.
      * destruct (N.eq_dec a 0) as [Ea | Ea]; [subst a; cbn [N.log2]; lia |].
        apply N.log2_lt_pow2; [lia | exact Ha].
      * destruct (N.eq_dec b 0) as [Eb | Eb]; [subst b; cbn [N.log2]; lia |].
        apply N.log2_lt_pow2; [lia | exact Hb].
Qed.

Lemma shiftl_lt_pow2 (x s k : N) : x < 2 ^ k -> N.shiftl x s < 2 ^ (s + k).
Proof.
  intros Hx. rewrite N.shiftl_mul_pow2, N.pow_add_r, (N.mul_comm (2 ^ s)).
  apply N.mul_lt_mono_pos_r; [| exact Hx].
  apply N.neq_0_lt_0, N.pow_nonzero. discriminate.
Qed.

Lemma pow2_le_mono (a b : N) : a <= b -> 2 ^ a <= 2 ^ b.
Proof. intros H. apply N.pow_le_mono_r; [discriminate | exact H]. Qed.

Lemma uvarint_window_bound_aux (buf : bytes) : forall i acc v r,
  acc < 2 ^ (7 * i) -> uvarint_window buf i (7 * i) acc = Ok (v, r) -> v < two64.
Proof.
  induction buf as [| b rest IH]; intros i acc v r Hacc; cbn [uvarint_window].
  - intros [= <- _]. reflexivity.
  - destruct (10 <=? i) eqn:E10; [discriminate |].
    destruct (b <? 128) eqn:Eb.
    + destruct ((i =? 9) && (1 <? b)) eqn:E9; [discriminate |].
      intros [= <- _]. change two64 with (2 ^ 64).
      apply lor_lt_pow2.
      * apply N.lt_le_trans with (1 := Hacc). apply pow2_le_mono. lia.
      * destruct (i =? 9) eqn:Ei.
        -- assert (Hb1 : b < 2 ^ 1) by (change (2 ^ 1) with 2; lia).
           apply N.lt_le_trans with (1 := shiftl_lt_pow2 b (7 * i) 1 Hb1).
           apply pow2_le_mono. lia.
        -- assert (Hb7 : b < 2 ^ 7) by (change (2 ^ 7) with 128; lia).
           apply N.lt_le_trans with (1 := shiftl_lt_pow2 b (7 * i) 7 Hb7).
           apply pow2_le_mono. lia.
    + replace (7 * i + 7) with (7 * (i + 1)) by lia. apply IH.
      apply lor_lt_pow2.
      * apply N.lt_le_trans with (1 := Hacc). apply pow2_le_mono. lia.
      * replace (7 * (i + 1)) with (7 * i + 7) by lia. apply shiftl_lt_pow2.
        change 127 with (N.ones 7). rewrite N.land_ones.
        apply N.mod_lt. discriminate.
Qed.

Lemma uvarint_window_bound (buf : bytes) (v r : N) :
  uvarint_window buf 0 0 0 = Ok (v, r) -> v < two64.
Proof. apply (uvarint_window_bound_aux buf 0 0 v r). reflexivity. Qed.

(* ------------------------------------------------------------------ *)
(* Go's b[int(lo):int(lo + l)] with a uint64 sum is Stored.slice       *)

Lemma go_slice_span (block : bytes) (lo l : N) :
  lenN block < two63 -> lo <= lenN block -> l < two64 ->
  go_slice block (int_of_u64 lo) (int_of_u64 (wrap64 (lo + l))) = slice block lo (lo + l).
Proof.
  unfold go_slice, slice, lenN, int_of_u64, wrap_int, wrap64, two63, two64. intros Hlen Hlo Hl.
  match goal with |- (if ?c then _ else _) = (if ?d then _ else _) =>
    destruct c eqn:Ec; destruct d eqn:Ed end; try reflexivity; try (exfalso; lia).
  f_equal. f_equal; [| f_equal]; lia.
Qed.

(* ------------------------------------------------------------------ *)
(* what an Ok result of getDocStoredOffsets satisfies                  *)

Lemma stored_lens_ok (block : bytes) (off ml dl n : N) :
  stored_lens block off = Ok (ml, dl, n) ->
  off + n <= lenN block /\ ml < two64 /\ dl < two64.
Proof.
  unfold stored_lens. cbv zeta.
  destruct (slice block off (N.min (off + 10) (lenN block))) as [w1 | | | |] eqn:Ew1; try discriminate.
  cbn [rbind].
  pose proof (go_uvarint_window w1) as Hu1.
  destruct (uvarint_window w1 0 0 0) as [[m r1] | | | |] eqn:Eu1; try discriminate.
  cbn [rbind]. destruct Hu1 as [_ Hr1].
  destruct (slice block (off + r1) (N.min (off + r1 + 10) (lenN block))) as [w2 | | | |] eqn:Ew2;
    try discriminate.
  cbn [rbind].
  pose proof (go_uvarint_window w2) as Hu2.
  destruct (uvarint_window w2 0 0 0) as [[d r2] | | | |] eqn:Eu2; try discriminate.
  cbn [rbind]. destruct Hu2 as [_ Hr2].
  intros [= <- <- <-].
  apply slice_ok_len in Ew1. apply slice_ok_len in Ew2.
  apply uvarint_window_bound in Eu1. apply uvarint_window_bound in Eu2.
  split; [lia | split; assumption].
Qed.

Lemma stored_offsets_spec_ok (zd : bytes -> result bytes) (docNum sio : N) (data : bytes)
      (chunkOffsets : list N) (block : bytes) (so n ml dl : N) :
  stored_offsets_spec zd docNum sio data chunkOffsets = Ok (block, so, n, ml, dl) ->
  stored_offsets_block zd docNum sio data chunkOffsets = Ok (block, so) /\
  stored_lens block so = Ok (ml, dl, n).
Proof.
  rewrite stored_offsets_spec_split.
  destruct (stored_offsets_block zd docNum sio data chunkOffsets) as [[b s] | | | |]; try discriminate.
  cbn [rbind].
  destruct (stored_lens b s) as [[[m d] k] | | | |] eqn:El; try discriminate.
  cbn [rbind]. intros [= <- <- <- <- <-]. split; [reflexivity | exact El].
Qed.

Lemma stored_offsets_block_len (zd : bytes -> result bytes) (docNum sio : N) (data : bytes)
      (chunkOffsets : list N) (block : bytes) (so : N) :
  (forall c b, zd c = Ok b -> lenN b < two63) ->
  stored_offsets_block zd docNum sio data chunkOffsets = Ok (block, so) -> lenN block < two63.
Proof.
  intros Hzd. unfold stored_offsets_block. cbv zeta.
  destruct (doc_stored_offset data sio docNum) as [[io s] | | | |]; try discriminate. cbn [rbind].
  destruct (go_index chunkOffsets _) as [cs | | | |]; try discriminate. cbn [rbind].
  destruct (go_index chunkOffsets _) as [ce | | | |]; try discriminate. cbn [rbind].
  destruct (data_read_int data _ _) as [c | | | |]; try discriminate. cbn [rbind].
  destruct (zd c) as [b | | | |] eqn:Ezd; try discriminate. cbn [rbind].
  intros [= <- _]. exact (Hzd c b Ezd).
Qed.

(* ------------------------------------------------------------------ *)
(* getDocStoredMetaAndUnCompressed                                     *)

Theorem tie_getDocStoredMeta (zd : bytes -> result bytes) (buf data : bytes) (docNum sio : N)
        (chunkOffsets : list N) :
  sio < two64 -> docNum < two64 -> Forall is_byte data ->
  (forall c b, zd c = Ok b -> lenN b < two63) ->
  (forall block so, stored_offsets_block zd docNum sio data chunkOffsets = Ok (block, so) ->
                    lens_no_overflow block so) ->
  g_Segment_getDocStoredMetaAndUnCompressed zd buf docNum sio data chunkOffsets =
  stored_meta_spec zd docNum sio data chunkOffsets.
Proof.
  intros Hsio Hdoc Hdata Hzd Hno.
  unfold g_Segment_getDocStoredMetaAndUnCompressed, stored_meta_spec. cbv zeta.
  rewrite (tie_getDocStoredOffsets zd buf data docNum sio chunkOffsets Hsio Hdoc Hdata Hzd Hno).
  destruct (stored_offsets_spec zd docNum sio data chunkOffsets)
    as [[[[[block so] n] ml] dl] | | | |] eqn:Espec; try reflexivity.
  cbn [rbind].
  apply stored_offsets_spec_ok in Espec. destruct Espec as [Eblock Elens].
  pose proof (stored_offsets_block_len _ _ _ _ _ _ _ Hzd Eblock) as Hlen.
  apply stored_lens_ok in Elens. destruct Elens as (Hlo & Hml & Hdl).
  assert (Hlo64 : so + n < two64) by (unfold two63, two64 in *; lia).
  rewrite (wrap64_small (so + n) Hlo64).
  rewrite (go_slice_span block (so + n) ml Hlen Hlo Hml).
  destruct (slice block (so + n) (so + n + ml)) as [meta | | | |] eqn:Emeta; try reflexivity.
  cbn [rbind].
  apply slice_ok_len in Emeta.
  assert (Hhi : so + n + ml <= lenN block) by lia.
  assert (Hhi64 : so + n + ml < two64) by (unfold two63, two64 in *; lia).
  rewrite (wrap64_small (so + n + ml) Hhi64).
  rewrite (go_slice_span block (so + n + ml) dl Hlen Hhi Hdl).
  reflexivity.
Qed.

(* ------------------------------------------------------------------ *)
(* the visitor model runs on exactly these two slices                  *)

Corollary tie_visit_stored_slices (zd : bytes -> result bytes) (buf data : bytes) (docNum sio : N)
          (chunkOffsets : list N) (block : bytes) (so n ml dl : N) (fields : list bytes)
          (stop : option N) :
  sio < two64 -> docNum < two64 -> Forall is_byte data ->
  (forall c b, zd c = Ok b -> lenN b < two63) ->
  stored_offsets_spec zd docNum sio data chunkOffsets = Ok (block, so, n, ml, dl) ->
  visit_stored block so fields stop =
    match g_Segment_getDocStoredMetaAndUnCompressed zd buf docNum sio data chunkOffsets with
    | Ok (meta, dat, _) => visit_meta (length meta) meta dat fields stop 0
    | Err => Err | Panic => Panic | Block => Block | OutOfFuel => OutOfFuel
    end.
Proof.
  intros Hsio Hdoc Hdata Hzd Hspec.
  assert (Hno : forall b s, stored_offsets_block zd docNum sio data chunkOffsets = Ok (b, s) ->
                            lens_no_overflow b s).
  { intros b s Hb. apply stored_lens_nopanic_no_overflow.
    destruct (stored_offsets_spec_ok _ _ _ _ _ _ _ _ _ _ Hspec) as [Eblock Elens].
    rewrite Eblock in Hb. injection Hb as <- <-. rewrite Elens. discriminate. }
  rewrite (tie_getDocStoredMeta zd buf data docNum sio chunkOffsets Hsio Hdoc Hdata Hzd Hno).
  unfold stored_meta_spec, visit_stored. rewrite Hspec. cbn [rbind].
  destruct (stored_offsets_spec_ok _ _ _ _ _ _ _ _ _ _ Hspec) as [_ Elens].
  rewrite Elens. cbn [rbind].
  destruct (slice block (so + n) (so + n + ml)) as [meta | | | |]; try reflexivity. cbn [rbind].
  destruct (slice block (so + n + ml) (so + n + ml + dl)) as [dat | | | |]; reflexivity.
Qed.

Print Assumptions tie_getDocStoredMeta.
Print Assumptions tie_visit_stored_slices.

(* Reads one flat scenario per line (decimal numbers separated by blanks),
   runs the extracted model and prints the flat transcript, one line per case. *)
open Runner_core

let rec pos_of_int64 (x : int64) : positive =
  (* x > 0, treated as unsigned *)
  if Int64.equal x 1L then XH
  else
    let rest = pos_of_int64 (Int64.shift_right_logical x 1) in
    if Int64.equal (Int64.logand x 1L) 1L then XI rest else XO rest

let n_of_string (s : string) : n =
  let x = Int64.of_string ("0u" ^ s) in
  if Int64.equal x 0L then N0 else Npos (pos_of_int64 x)

let rec int64_of_pos (p : positive) (depth : int) : int64 =
  if depth > 64 then failwith "number above 2^64 in model output" else
  match p with
  | XH -> 1L
  | XO q -> Int64.shift_left (int64_of_pos q (depth + 1)) 1
  | XI q -> Int64.logor (Int64.shift_left (int64_of_pos q (depth + 1)) 1) 1L

let string_of_n (x : n) : string =
  match x with
  | N0 -> "0"
  | Npos p -> Printf.sprintf "%Lu" (int64_of_pos p 1)

let split_blank (s : string) : string list =
  List.filter (fun t -> t <> "") (String.split_on_char ' ' s)

let () =
  let buf = Buffer.create (1 lsl 16) in
  (try
     while true do
       let line = input_line stdin in
       let input = List.map n_of_string (split_blank line) in
       let out = run_flat input in
       Buffer.clear buf;
       List.iteri (fun i x -> if i > 0 then Buffer.add_char buf ' ';
                    Buffer.add_string buf (string_of_n x)) out;
       Buffer.add_char buf '\n';
       print_string (Buffer.contents buf)
     done
   with End_of_file -> ());
  flush stdout

(* Extraction of the executable model for the correspondence check.
   ExtrOcamlBasic only: N, positive and lists of N stay the Coq inductives. *)
From Ice Require Import Base Run.
Require Extraction.
Require Import ExtrOcamlBasic.
Extraction Language OCaml.
Extraction "runner_core.ml" Run.run_flat.

(* C18 - DocsMatchingTerms returns exactly the union of the listed terms' documents
   Property theorems only: each statement is given in full and closed by `exact`;
   Print Assumptions follows every theorem.   *)

From Coq Require Import List NArith Bool Sorting Permutation.
From Ice Require Import Base Spec Dict SegmentOps.
From IceProofs Require DocsMatching_Proofs Sort_Proofs SegmentOps_Proofs.
Import ListNotations.
Open Scope N_scope.

(* the documents of a postings list are exactly the documents containing the term *)
Theorem postings_docs_iff :
    forall (A : ASeg) (f t : bytes) (d : N),
    In d (map fst (o_postings A f t)) <-> DocsMatching_Proofs.doc_has_term A f t d.
Proof. exact @DocsMatching_Proofs.postings_docs_iff. Qed.
Print Assumptions postings_docs_iff.

(* exactly the documents containing at least one listed (field, term) pair *)
Theorem docsmatching_In :
    forall (A : ASeg) (terms : list (bytes * bytes)) (d : N),
    In d (o_docsmatching A terms) <->
    (exists f t : bytes, In (f, t) terms /\ DocsMatching_Proofs.doc_has_term A f t d).
Proof. exact @DocsMatching_Proofs.docsmatching_In. Qed.
Print Assumptions docsmatching_In.

(* as a set: ascending, no duplicates *)
Theorem docsmatching_sorted :
    forall (A : ASeg) (terms : list (bytes * bytes)), Sort_Proofs.strict_sorted_N (o_docsmatching A terms).
Proof. exact @DocsMatching_Proofs.docsmatching_sorted. Qed.
Print Assumptions docsmatching_sorted.

(* list order and repeats do not matter *)
Theorem docsmatching_order_irrelevant :
    forall (A : ASeg) (ts1 ts2 : list (bytes * bytes)),
    (forall x : bytes * bytes, In x ts1 <-> In x ts2) -> o_docsmatching A ts1 = o_docsmatching A ts2.
Proof. exact @DocsMatching_Proofs.docsmatching_order_irrelevant. Qed.
Print Assumptions docsmatching_order_irrelevant.

(* unknown fields contribute nothing *)
Theorem docsmatching_unknown_field :
    forall (A : ASeg) (f t : bytes) (terms : list (bytes * bytes)),
    known_field A f = false -> o_docsmatching A ((f, t) :: terms) = o_docsmatching A terms.
Proof. exact @DocsMatching_Proofs.docsmatching_unknown_field. Qed.
Print Assumptions docsmatching_unknown_field.

(* unknown terms contribute nothing *)
Theorem docsmatching_unknown_term :
    forall (A : ASeg) (f t : bytes) (terms : list (bytes * bytes)),
    o_postings A f t = [] -> o_docsmatching A ((f, t) :: terms) = o_docsmatching A terms.
Proof. exact @DocsMatching_Proofs.docsmatching_unknown_term. Qed.
Print Assumptions docsmatching_unknown_term.

Theorem docsmatching_app :
    forall (A : ASeg) (ts1 ts2 : list (bytes * bytes)),
    o_docsmatching A (ts1 ++ ts2) = sort_dedup_N (o_docsmatching A ts1 ++ o_docsmatching A ts2).
Proof. exact @DocsMatching_Proofs.docsmatching_app. Qed.
Print Assumptions docsmatching_app.

Theorem docsmatching_below_count :
    forall (A : ASeg) (terms : list (bytes * bytes)) (d : N),
    In d (o_docsmatching A terms) -> d < o_count A.
Proof. exact @DocsMatching_Proofs.docsmatching_below_count. Qed.
Print Assumptions docsmatching_below_count.

(* the statement-by-statement model of Segment.DocsMatchingTerms (dictionary looked up on a field switch, nil dictionary skipped, postings list of the term, OrInto with both encodings) returns exactly o_docsmatching for every list *)
Theorem docs_matching_spec :
    forall (A : ASeg) (use1 : bytes -> bytes -> bool) (nofst fails : bytes -> bool)
    (terms : list (bytes * bytes)),
    (forall ft : bytes * bytes,
    In ft terms -> dictionary_lookup (dicts_of_aseg A use1 nofst) fails (fst ft) <> Err) ->
    docs_matching (dicts_of_aseg A use1 nofst) fails terms = Ok (o_docsmatching A terms).
Proof. exact @SegmentOps_Proofs.docs_matching_spec. Qed.
Print Assumptions docs_matching_spec.

(* never a panic, whatever the list (unknown fields, the empty field name first, absent terms) *)
Theorem docs_matching_never_panics :
    forall (dicts : seg_dicts) (fails : bytes -> bool) (terms : list (bytes * bytes)),
    docs_matching dicts fails terms <> Panic /\
    docs_matching dicts fails terms <> Block /\ docs_matching dicts fails terms <> OutOfFuel.
Proof. exact @SegmentOps_Proofs.docs_matching_never_panics. Qed.
Print Assumptions docs_matching_never_panics.

(* a failing dictionary read yields an error, never a partial set *)
Theorem docs_matching_error :
    forall (dicts : seg_dicts) (fails : bytes -> bool) (terms : list (bytes * bytes)) (f t : bytes),
    In (f, t) terms -> dictionary_lookup dicts fails f = Err -> docs_matching dicts fails terms = Err.
Proof. exact @SegmentOps_Proofs.docs_matching_error. Qed.
Print Assumptions docs_matching_error.

(* regression of the method: the pinned version (no nil-dictionary skip) panics on a witness list *)
Theorem docs_matching_prefix_refuted :
    exists (dicts : seg_dicts) (terms : list (bytes * bytes)),
    dicts_wf dicts = true /\
    docs_matching_prefix dicts (fun _ : bytes => false) terms = Panic /\
    docs_matching dicts (fun _ : bytes => false) terms = Ok [7].
Proof. exact @SegmentOps_Proofs.docs_matching_prefix_refuted. Qed.
Print Assumptions docs_matching_prefix_refuted.

Example docsmatching_example :
    o_docsmatching DocsMatching_Proofs.DocsMatchingExample.seg
    [(DocsMatching_Proofs.DocsMatchingExample.fb, DocsMatching_Proofs.DocsMatchingExample.tx);
    (DocsMatching_Proofs.DocsMatchingExample.fa, DocsMatching_Proofs.DocsMatchingExample.tx);
    (DocsMatching_Proofs.DocsMatchingExample.fz, DocsMatching_Proofs.DocsMatchingExample.tx);
    (DocsMatching_Proofs.DocsMatchingExample.fa, DocsMatching_Proofs.DocsMatchingExample.tq);
    (DocsMatching_Proofs.DocsMatchingExample.fa, DocsMatching_Proofs.DocsMatchingExample.tx)] = [
    0; 2].
Proof. exact @DocsMatching_Proofs.DocsMatchingExample.docsmatching_example. Qed.
Print Assumptions docsmatching_example.

(* C07 - Doc values return exactly each document's terms for the requested fields
   Property theorems only: each statement is given in full and closed by `exact`;
   Print Assumptions follows every theorem.  numDocs <= 2^64 excludes the (unreachable) collision of a chunk number with the reader's nothing-loaded sentinel math.MaxInt64; dv_visit_needs_bound shows the statement is false without it. *)

From Coq Require Import List NArith Bool Sorting Permutation.
From Ice Require Import Base Chunk DocValues Spec Run DvWriter Units.
From IceProofs Require DocValues_Proofs DvWriter_Proofs Units_Proofs.
Import ListNotations.
Open Scope N_scope.

(* the separator loop recovers the terms (no 0xff inside a term) *)
Theorem split_dv_bytes :
    forall ts : list bytes, Forall DocValues_Proofs.no_sep ts -> split_terms [] (dv_bytes ts) = ts.
Proof. exact @DocValues_Proofs.split_dv_bytes. Qed.
Print Assumptions split_dv_bytes.

Theorem split_ignores_tail :
    forall (ts : list bytes) (tail : bytes),
    Forall DocValues_Proofs.no_sep ts ->
    DocValues_Proofs.no_sep tail -> split_terms [] (dv_bytes ts ++ tail) = ts.
Proof. exact @DocValues_Proofs.split_ignores_tail. Qed.
Print Assumptions split_ignores_tail.

(* any document, from ANY consistent reader state (i.e. after any earlier visits in any order): exactly its terms; the reader stays consistent *)
Theorem dv_visit_correct :
    forall (field : bytes) (numDocs : N) (es : list (N * list bytes)) (r : DvReader) (n : N),
    0 < numDocs ->
    numDocs <= two64 ->
    DocValues_Proofs.wf_entries numDocs es ->
    n < numDocs ->
    DocValues_Proofs.reader_ok
    (dv_chunks (DocValues_Proofs.nchunks_for numDocs) (DocValues_Proofs.enc_entries es)) r ->
    exists r' : DvReader,
    dv_visit r field n = Ok (r', DocValues_Proofs.spec_dv field es n) /\
    DocValues_Proofs.reader_ok
    (dv_chunks (DocValues_Proofs.nchunks_for numDocs) (DocValues_Proofs.enc_entries es)) r'.
Proof. exact @DocValues_Proofs.dv_visit_correct. Qed.
Print Assumptions dv_visit_correct.

(* any finite visiting order with one reader *)
Theorem dv_run_single_field :
    forall (field : bytes) (numDocs : N) (es : list (N * list bytes)) (r : DvReader) (visits : list N),
    0 < numDocs ->
    numDocs <= two64 ->
    DocValues_Proofs.wf_entries numDocs es ->
    Forall (fun n : N => n < numDocs) visits ->
    DocValues_Proofs.reader_ok
    (dv_chunks (DocValues_Proofs.nchunks_for numDocs) (DocValues_Proofs.enc_entries es)) r ->
    dv_run [(field, r)] [field] visits = Ok (map (DocValues_Proofs.spec_dv field es) visits).
Proof. exact @DocValues_Proofs.dv_run_single_field. Qed.
Print Assumptions dv_run_single_field.

(* any list of requested fields (repeats, unknown fields, fields without doc values) and any visiting order *)
Theorem dv_run_fields :
    forall (numDocs : N) (tbl : list (bytes * list (N * list bytes))) (fields : list bytes)
    (visits : list N),
    0 < numDocs ->
    numDocs <= two64 ->
    NoDup (map fst tbl) ->
    Forall (fun p : bytes * list (N * list bytes) => DocValues_Proofs.wf_entries numDocs (snd p)) tbl ->
    Forall (fun n : N => n < numDocs) visits ->
    dv_run
    (map
    (fun p : bytes * list (N * list bytes) =>
    (fst p,
    dv_open
    (dv_chunks (DocValues_Proofs.nchunks_for numDocs) (DocValues_Proofs.enc_entries (snd p)))))
    tbl) fields visits =
    Ok
    (map
    (fun n : N =>
    flat_map'
    (fun f : bytes =>
    match find (fun p : bytes * list (N * list bytes) => beq (fst p) f) tbl with
    | Some p => DocValues_Proofs.spec_dv f (snd p) n
    | None => []
    end) fields) visits).
Proof. exact @DocValues_Proofs.dv_run_fields. Qed.
Print Assumptions dv_run_fields.

(* nothing for fields without doc values and unknown fields *)
Theorem dv_run_unknown_field :
    forall (rs : list (bytes * DvReader)) (f : bytes) (visits : list N),
    find (fun p : bytes * DvReader => beq (fst p) f) rs = None ->
    dv_run rs [f] visits = Ok (map (fun _ : N => []) visits).
Proof. exact @DocValues_Proofs.dv_run_unknown_field. Qed.
Print Assumptions dv_run_unknown_field.

Theorem dv_open_ok :
    forall chunks : list DvChunk, DocValues_Proofs.reader_ok chunks (dv_open chunks).
Proof. exact @DocValues_Proofs.dv_open_ok. Qed.
Print Assumptions dv_open_ok.

(* the bound on numDocs is necessary in the model *)
Theorem dv_visit_needs_bound :
    ~
    (forall (field : bytes) (numDocs : N) (es : list (N * list bytes)) (r : DvReader) (n : N),
    0 < numDocs ->
    DocValues_Proofs.wf_entries numDocs es ->
    n < numDocs ->
    DocValues_Proofs.reader_ok
    (dv_chunks (DocValues_Proofs.nchunks_for numDocs) (DocValues_Proofs.enc_entries es)) r ->
    exists r' : DvReader,
    dv_visit r field n = Ok (r', DocValues_Proofs.spec_dv field es n) /\
    DocValues_Proofs.reader_ok
    (dv_chunks (DocValues_Proofs.nchunks_for numDocs) (DocValues_Proofs.enc_entries es)) r').
Proof. exact @DocValues_Proofs.dv_visit_needs_bound. Qed.
Print Assumptions dv_visit_needs_bound.

Example dv_run_example :
    let f := [102; 49] in
    let es := [(0, [[1; 2]]); (5, [[3]; [4; 5]]); (1023, [[6]]); (1024, [[7]; [8]]); (2049, [[9; 9]])] in
    dv_run
    [(f, dv_open (dv_chunks (DocValues_Proofs.nchunks_for 2050) (DocValues_Proofs.enc_entries es)))] [f]
    [2049; 0; 1024; 5; 1023; 2049; 7] =
    Ok
    [[(f, [9; 9])]; [(f, [1; 2])]; [(f, [7]); (f, [8])]; [(f, [3]); (f, [4; 5])]; [(
    f, [6])]; [(f, [9; 9])]; []].
Proof. exact @DocValues_Proofs.dv_run_example. Qed.
Print Assumptions dv_run_example.

(* the builder (docTermMap filled by walking the sorted terms, chunkedContentCoder) writes exactly the doc-value chunks of the specification: per document its terms in sorted order, each followed by 0xff *)
Theorem build_dv_correct :
    forall (norm : bytes -> N -> N) (b : Batch) (f : bytes),
    dv_flag b f = true ->
    let A := abs_of_batch norm b in
    build_dv true (lenN b) (dv_field_terms A f) =
    Ok (Some (dv_chunks (DvWriter_Proofs.nch_of (lenN b)) (dv_entries A f))).
Proof. exact @DvWriter_Proofs.build_dv_correct. Qed.
Print Assumptions build_dv_correct.

(* the merger (iterateAllDocValues over every input chunk, dropped documents skipped, re-added under the new number) writes exactly the chunks of the surviving documents, also with a wholly empty chunk in an input and inputs without doc values *)
Theorem merge_dv_correct :
    forall (f : bytes) (ins : list (ASeg * list N)) (sel : list (option bool)),
    let M := fst (merge_spec ins) in
    Forall2 (fun (p : ASeg * list N) (s : option bool) => s <> Some true -> dv_entries (fst p) f = []) ins
    sel ->
    0 < o_count M ->
    o_count M <= docDropped ->
    merge_dv (o_count M)
    (map DvWriter_Proofs.in_chunks
    (DvWriter_Proofs.sel_inputs f (combine ins (merge_docnums ins 0)) sel)) =
    Ok
    (if existsb DvWriter_Proofs.is_reader sel
    then Some (dv_chunks (DvWriter_Proofs.nch_of (o_count M)) (dv_entries M f))
    else None).
Proof. exact @DvWriter_Proofs.merge_dv_correct. Qed.
Print Assumptions merge_dv_correct.

Theorem coder_chunks_1024 :
    forall (maxDocNum : N) (entries : list (N * bytes)),
    DocValues_Proofs.asc entries ->
    Forall (fun e : N * bytes => fst e <= maxDocNum) entries ->
    cc_run dv_chunk_docs maxDocNum entries =
    Ok (dv_chunks (N.to_nat (maxDocNum / dv_chunk_docs + 1)) entries).
Proof. exact @DvWriter_Proofs.coder_chunks_1024. Qed.
Print Assumptions coder_chunks_1024.

(* the delta-coded chunk header round-trips *)
Theorem parse_blob_round :
    forall c : DvChunk,
    lenN (dvc_header c) < two64 ->
    DvWriter_Proofs.meta_ok (dvc_header c) -> parse_blob (blob_bytes c) = Some c.
Proof. exact @DvWriter_Proofs.parse_blob_round. Qed.
Print Assumptions parse_blob_round.

Example merge_dv_example_segments :
    let M := fst (merge_spec DvWriter_Proofs.exs_ins) in
    o_count M = 2048 /\
    forallb
    (fun ps : ASeg * list N * option bool =>
    DvWriter_Proofs.is_reader (snd ps)
    || match dv_entries (fst (fst ps)) DvWriter_Proofs.exw_t with
    | [] => true
    | _ :: _ => false
    end) (combine DvWriter_Proofs.exs_ins DvWriter_Proofs.exs_sel) = true /\
    merge_dv (o_count M)
    (map DvWriter_Proofs.in_chunks
    (DvWriter_Proofs.sel_inputs DvWriter_Proofs.exw_t
    (combine DvWriter_Proofs.exs_ins (merge_docnums DvWriter_Proofs.exs_ins 0))
    DvWriter_Proofs.exs_sel)) =
    Ok (Some (dv_chunks (DvWriter_Proofs.nch_of (o_count M)) (dv_entries M DvWriter_Proofs.exw_t))) /\
    lenN (dv_entries M DvWriter_Proofs.exw_t) = 1022.
Proof. exact @DvWriter_Proofs.merge_dv_example_segments. Qed.
Print Assumptions merge_dv_example_segments.

(* a doc-value coder that has written one field, once Reset, writes the next field exactly as a fresh coder would (chunk lengths turned into end offsets by Write are cleared whatever chunks the earlier field used) *)
Theorem dv_coder_reset_clean :
    forall (cs max : N) (c0 c : Coder) (ops : list cop),
    cc_new cs max = Ok c0 ->
    Units_Proofs.cc_shape cs (length (cc_chunkLens c0)) c ->
    run_contentcoder (Some c) (CReset :: ops) = 0 :: run_contentcoder (Some c0) ops.
Proof. exact @Units_Proofs.run_contentcoder_reset. Qed.
Print Assumptions dv_coder_reset_clean.

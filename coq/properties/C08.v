(* C08 - Dictionaries enumerate exactly the live terms, in order, with true counts
   Property theorems only: each statement is given in full and closed by `exact`;
   Print Assumptions follows every theorem.   *)

From Coq Require Import List NArith Bool Sorting Permutation.
From Ice Require Import Base Spec Dict.
From IceProofs Require Dict_Proofs Sort_Proofs.
Import ListNotations.
Open Scope N_scope.

(* ascending byte order, each term once *)
Theorem o_terms_sorted :
    forall (A : ASeg) (f : bytes), Sort_Proofs.strict_sorted_bytes (o_terms A f).
Proof. exact Dict_Proofs.o_terms_sorted. Qed.
Print Assumptions o_terms_sorted.

(* exactly the live terms: every enumerated term has a document *)
Theorem o_terms_have_postings :
    forall (A : ASeg) (f t : bytes), In t (o_terms A f) -> o_postings A f t <> [].
Proof. exact Dict_Proofs.o_terms_have_postings. Qed.
Print Assumptions o_terms_have_postings.

(* restricted to the key range and the automaton *)
Theorem o_dict_keys :
    forall (A : ASeg) (f : bytes) (lo hi pre : option bytes),
    map fst (o_dict A f lo hi pre) = filter (in_range lo hi pre) (o_terms A f).
Proof. exact Dict_Proofs.o_dict_keys. Qed.
Print Assumptions o_dict_keys.

(* each count is the number of documents containing the term *)
Theorem o_dict_counts :
    forall (A : ASeg) (f t : bytes) (n : N) (lo hi pre : option bytes),
    In (t, n) (o_dict A f lo hi pre) -> n = lenN (o_postings A f t) /\ In t (o_terms A f).
Proof. exact Dict_Proofs.o_dict_counts. Qed.
Print Assumptions o_dict_counts.

(* Contains agrees with that set *)
Theorem o_contains_iff :
    forall (A : ASeg) (f t : bytes), o_contains A f t = true <-> In t (o_terms A f).
Proof. exact Dict_Proofs.o_contains_iff. Qed.
Print Assumptions o_contains_iff.

(* an unknown field yields an empty dictionary *)
Theorem o_terms_unknown_field :
    forall (A : ASeg) (f : bytes),
    known_field A f = false ->
    o_terms A f = [] /\ (forall lo hi pre : option bytes, o_dict A f lo hi pre = []).
Proof. exact Dict_Proofs.o_terms_unknown_field. Qed.
Print Assumptions o_terms_unknown_field.

(* the range [k,k) is empty *)
Theorem in_range_empty :
    forall (k a : bytes) (pre : option bytes), in_range (Some a) (Some a) pre k = false.
Proof. exact Dict_Proofs.in_range_empty. Qed.
Print Assumptions in_range_empty.

(* the iterator's scratch postings list: whatever it held before and in whatever order 1-hit and general terms are met, every entry reports its true count *)
Theorem dict_iter_counts :
    forall (tmp : PL) (entries : list (bytes * FstVal)),
    pl_except tmp = None ->
    (forall (k : bytes) (d nb : N), In (k, V1Hit d nb) entries -> nb <> 0) ->
    dict_iter pl_read tmp entries = map (fun e : bytes * FstVal => (fst e, fst_count (snd e))) entries.
Proof. exact Dict_Proofs.dict_iter_counts. Qed.
Print Assumptions dict_iter_counts.

Theorem fst_search_spec :
    forall (m : list (bytes * FstVal)) (lo hi pre : option bytes) (e : bytes * FstVal),
    In e (fst_search m lo hi pre) <-> In e m /\ in_range lo hi pre (fst e) = true.
Proof. exact Dict_Proofs.fst_search_spec. Qed.
Print Assumptions fst_search_spec.

Theorem fst_search_sorted :
    forall (m : list (bytes * FstVal)) (lo hi pre : option bytes),
    Sort_Proofs.strict_sorted_bytes (map fst m) ->
    Sort_Proofs.strict_sorted_bytes (map fst (fst_search m lo hi pre)).
Proof. exact Dict_Proofs.fst_search_sorted. Qed.
Print Assumptions fst_search_sorted.

Theorem pl_count_spec :
    forall (docs : list N) (ex : option (list N)),
    pl_Count (pl_read {| pl_postings := None; pl_doc1 := 0; pl_norm1 := 0; pl_except := ex |} (VGen docs)) =
    lenN (filter (fun d : N => match ex with
    | Some e => negb (memN d e)
    | None => true
    end) docs).
Proof. exact Dict_Proofs.pl_count_spec. Qed.
Print Assumptions pl_count_spec.

Theorem pl_count_1hit :
    forall (d nb : N) (ex : option (list N)),
    nb <> 0 ->
    pl_Count
    (pl_read {| pl_postings := None; pl_doc1 := 0; pl_norm1 := 0; pl_except := ex |} (V1Hit d nb)) =
    match ex with
    | Some e => if memN d e then 0 else 1
    | None => 1
    end.
Proof. exact Dict_Proofs.pl_count_1hit. Qed.
Print Assumptions pl_count_1hit.

(* regression of the method: the pre-fix read() (1-hit marker not cleared) is refuted by a witness *)
Theorem dict_iter_prefix_refuted :
    exists (tmp : PL) (entries : list (bytes * FstVal)),
    pl_except tmp = None /\
    dict_iter pl_read_prefix tmp entries <>
    map (fun e : bytes * FstVal => (fst e, fst_count (snd e))) entries.
Proof. exact Dict_Proofs.dict_iter_prefix_refuted. Qed.
Print Assumptions dict_iter_prefix_refuted.

(* C06 - Stored fields of a document are returned exactly and only for that document
   Property theorems only: each statement is given in full and closed by `exact`;
   Print Assumptions follows every theorem.  visit_stored is the model of getDocStoredOffsets + visitDocument on an uncompressed block; stored_record / block_of are what the builder and the merger write. *)

From Coq Require Import List NArith Bool Sorting Permutation.
From Ice Require Import Base Spec Varint Stored Run StoredWriter.
From IceProofs Require Stored_Proofs Build_Proofs StoredWriter_Proofs.
Import ListNotations.
Open Scope N_scope.

(* wherever the record sits inside the block (any bytes before and after, also a 2-byte record at the very end) exactly its values come back, in order, and the visit stops when the visitor says so *)
Theorem stored_record_visit :
    forall (fields : list bytes) (pre post : bytes) (vals : SVals) (stop : option N),
    Stored_Proofs.wf_svals (length fields) vals ->
    visit_stored (pre ++ stored_record vals ++ post) (lenN pre) fields stop =
    Ok (Stored_Proofs.take_stop stop (Stored_Proofs.resolve_vals fields vals)).
Proof. exact @Stored_Proofs.stored_record_visit. Qed.
Print Assumptions stored_record_visit.

(* document i of a block written by the coder, addressed through its recorded offset *)
Theorem block_visit :
    forall (fields : list bytes) (docs : list SVals) (i : nat) (vals : SVals) (stop : option N),
    Forall (Stored_Proofs.wf_svals (length fields)) docs ->
    nth_error docs i = Some vals ->
    visit_stored (block_of docs) (nth i (block_offsets 0 docs) 0) fields stop =
    Ok (Stored_Proofs.take_stop stop (Stored_Proofs.resolve_vals fields vals)).
Proof. exact @Stored_Proofs.block_visit. Qed.
Print Assumptions block_visit.

(* the clamped 10-byte look-ahead always holds the whole length varint *)
Theorem uvarint_window_put :
    forall (x : N) (rest : bytes),
    x < two64 -> uvarint_window (put_uvarint x ++ rest) 0 0 0 = Ok (x, lenN (put_uvarint x)).
Proof. exact @Stored_Proofs.uvarint_window_put. Qed.
Print Assumptions uvarint_window_put.

Theorem block_offsets_length :
    forall (docs : list SVals) (acc : N), length (block_offsets acc docs) = length docs.
Proof. exact @Stored_Proofs.block_offsets_length. Qed.
Print Assumptions block_offsets_length.

(* a document without stored fields is a 2-byte record *)
Theorem empty_doc_record :
    stored_record [] = [0; 0].
Proof. exact @Stored_Proofs.empty_doc_record. Qed.
Print Assumptions empty_doc_record.

(* what a built segment must deliver: the stored values of that document in field-list order, input order within a field *)
Theorem build_stored :
    forall (norm : bytes -> N -> N) (b : Batch) (n : nat) (doc : Doc),
    nth_error b n = Some doc ->
    o_stored (abs_of_batch norm b) (N.of_nat n) = abs_stored (field_list (batch_field_names b)) doc.
Proof. exact @Build_Proofs.build_stored. Qed.
Print Assumptions build_stored.

(* nothing for n >= Count *)
Theorem build_stored_out_of_range :
    forall (norm : bytes -> N -> N) (b : Batch) (n : N),
    lenN b <= n -> o_stored (abs_of_batch norm b) n = [].
Proof. exact @Build_Proofs.build_stored_out_of_range. Qed.
Print Assumptions build_stored_out_of_range.

(* the builder (per-document map of stored values, ascending field id, chunkedDocumentCoder with Size() recorded before Add and a flush every 128 documents) writes exactly the blocks and offsets of the specification *)
Theorem build_stored_correct :
    forall (norm : bytes -> N -> N) (b : Batch),
    let fields := field_list (batch_field_names b) in
    build_stored_batch fields b = layout_of (map (svals_of fields) (as_docs (abs_of_batch norm b))).
Proof. exact @StoredWriter_Proofs.build_stored_correct. Qed.
Print Assumptions build_stored_correct.

Theorem doc_coder_layout :
    forall ds : list SVals,
    let
    '(c, offs) := StoredWriter_Proofs.add_docs ds dc_new [] in
    (dc_blocks (dc_finish c), offs) = layout_of ds.
Proof. exact @StoredWriter_Proofs.doc_coder_layout. Qed.
Print Assumptions doc_coder_layout.

(* ... and so does the merger on both of its paths *)
Theorem merged_stored_layout :
    forall ins : list (ASeg * list N),
    Forall (fun p : ASeg * list N => StoredWriter_Proofs.wf_seg (fst p)) ins ->
    let Mg := fst (merge_spec ins) in
    merge_stored (map StoredWriter_Proofs.seg_input ins) (o_count Mg) =
    Ok (layout_of (StoredWriter_Proofs.seg_docs Mg)).
Proof. exact @StoredWriter_Proofs.merge_stored_correct. Qed.
Print Assumptions merged_stored_layout.

(* the copy path parses every record correctly wherever it sits, with any stale bytes behind the block, including a 2-byte record at the very end *)
Theorem copy_block_ok :
    forall (rest : list SVals) (fuel : nat) (bpre stale : bytes) (st : MergeSt),
    Forall StoredWriter_Proofs.rec_sizes_ok rest ->
    (length rest <= fuel)%nat ->
    copy_block fuel (bpre ++ block_of rest ++ stale) (lenN bpre + lenN (block_of rest)) (lenN bpre) st =
    StoredWriter_Proofs.emit_docs rest st.
Proof. exact @StoredWriter_Proofs.copy_block_ok. Qed.
Print Assumptions copy_block_ok.

(* regression of the method: the pre-fix look-ahead (sliced past len into the capacity) is refuted by a witness *)
Theorem stored_prefix_refuted :
    exists (block : list N) (off : N),
    (exists vals : SVals, block = [5; 5; 5] ++ stored_record vals /\ off = 3) /\
    stored_lens_prefix block [] off = Panic /\ (exists r : N * N * N, stored_lens block off = Ok r).
Proof. exact @Stored_Proofs.stored_prefix_refuted. Qed.
Print Assumptions stored_prefix_refuted.

(* ... and succeeds when the reused buffer happens to have spare capacity: history dependence *)
Example stored_prefix_spare_capacity :
    exists r : N * N * N, stored_lens_prefix [5; 5; 5; 0; 0] [9; 9; 9; 9; 9; 9; 9; 9; 9; 9] 3 = Ok r.
Proof. exact @Stored_Proofs.stored_prefix_spare_capacity. Qed.
Print Assumptions stored_prefix_spare_capacity.

Example block_visit_example :
    visit_stored (block_of Stored_Proofs.ex_docs) (nth 0 (block_offsets 0 Stored_Proofs.ex_docs) 0)
    Stored_Proofs.ex_fields None = Ok [([97], [1; 2; 3]); ([100], [])] /\
    visit_stored (block_of Stored_Proofs.ex_docs) (nth 1 (block_offsets 0 Stored_Proofs.ex_docs) 0)
    Stored_Proofs.ex_fields None = Ok [] /\
    visit_stored (block_of Stored_Proofs.ex_docs) (nth 0 (block_offsets 0 Stored_Proofs.ex_docs) 0)
    Stored_Proofs.ex_fields (Some 1) = Ok [([97], [1; 2; 3])].
Proof. exact @Stored_Proofs.block_visit_example. Qed.
Print Assumptions block_visit_example.

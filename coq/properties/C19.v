(* C19 - A failed storage read is reported and never wedges the segment
   Property theorems only: each statement is given in full and closed by `exact`;
   Print Assumptions follows every theorem.  run/stuck: the path semantics of lock skeletons. The skeleton of every mutex-touching function of /repo is regenerated on each run and must satisfy `balanced` (coq/gentie/Tie_locks.v); balanced_sound then gives the property for every path, including every error return. *)

From Coq Require Import List NArith Bool Sorting Permutation.
From Ice Require Import Base Lock Spec Dict SegmentOps Chunk DocValues Postings Varint Faults.
From IceProofs Require Lock_Proofs SegmentOps_Proofs Faults_Proofs.
Import ListNotations.
Open Scope N_scope.

(* the checker enumerates every outcome of every path and rejects paths that would block or unlock a free mutex *)
Theorem exec_sound :
    forall (s : skel) (st : lstate) (outs : list (kind * lstate)),
    exec s st = Some outs ->
    (forall (k : kind) (st' : lstate), Lock_Proofs.run s st k st' -> In (k, st') outs) /\
    ~ Lock_Proofs.stuck s st.
Proof. exact @Lock_Proofs.exec_sound. Qed.
Print Assumptions exec_sound.

(* an accepted skeleton never blocks on its own mutex and releases it exactly once on every path, including every early return *)
Theorem balanced_sound :
    forall s : skel,
    balanced s = true ->
    ~ Lock_Proofs.stuck s {| held := false; deferred := false |} /\
    (forall (k : kind) (st' : lstate),
    Lock_Proofs.run s {| held := false; deferred := false |} k st' -> exit_ok st' = true).
Proof. exact @Lock_Proofs.balanced_sound. Qed.
Print Assumptions balanced_sound.

Theorem exit_ok_released :
    forall st : lstate, exit_ok st = true -> released st = true.
Proof. exact @Lock_Proofs.exit_ok_released. Qed.
Print Assumptions exit_ok_released.

(* non-vacuity: the repaired Segment.dictionary is accepted *)
Example dictionary_fixed_balanced :
    balanced Lock_Proofs.skel_dictionary_fixed = true.
Proof. exact @Lock_Proofs.dictionary_fixed_balanced. Qed.
Print Assumptions dictionary_fixed_balanced.

(* regression of the method: the pinned Segment.dictionary (two error returns under the lock) is refuted with an explicit path that returns holding the mutex *)
Theorem dictionary_prefix_refuted :
    balanced Lock_Proofs.skel_dictionary_prefix = false /\
    (exists st' : lstate,
    Lock_Proofs.run Lock_Proofs.skel_dictionary_prefix {| held := false; deferred := false |} Ret st' /\
    held st' = true /\ deferred st' = false).
Proof. exact @Lock_Proofs.dictionary_prefix_refuted. Qed.
Print Assumptions dictionary_prefix_refuted.

(* the hand model of Segment.dictionary with its mutex and FST cache under an ARBITRARY storage oracle: after every call of every finite sequence the mutex is free, no call blocks or panics, each returns an error or the right dictionary, and the cache only ever holds correctly loaded FSTs *)
Theorem dict_never_blocks :
    forall (F : N -> N) (loads_ok : N -> bool) (ok : nat -> bool) (calls : list (N * bool)) (st : dstate),
    locked st = false ->
    SegmentOps_Proofs.cache_inv F loads_ok (cache st) ->
    let tr := dictionary_trace F loads_ok ok true st calls in
    Forall (SegmentOps_Proofs.step_ok F loads_ok) tr /\
    Forall2 (SegmentOps_Proofs.call_ok F) calls (map snd tr) /\
    locked (SegmentOps_Proofs.final_state st tr) = false /\
    SegmentOps_Proofs.cache_inv F loads_ok (cache (SegmentOps_Proofs.final_state st tr)) /\
    (forall k v : N,
    fsts_get (cache st) k = Some v -> fsts_get (cache (SegmentOps_Proofs.final_state st tr)) k = Some v).
Proof. exact @SegmentOps_Proofs.dict_never_blocks. Qed.
Print Assumptions dict_never_blocks.

(* a warm cache serves its field without touching the failing storage *)
Theorem cached_call_no_read :
    forall (F : N -> N) (loads_ok : N -> bool) (ok : nat -> bool) (st : dstate) (id v : N),
    locked st = false ->
    SegmentOps_Proofs.cache_inv F loads_ok (cache st) ->
    fsts_get (cache st) id = Some v -> dictionary_call F loads_ok ok st id true = (st, Ok (Some (F id))).
Proof. exact @SegmentOps_Proofs.cached_call_no_read. Qed.
Print Assumptions cached_call_no_read.

(* the cache is observationally transparent *)
Theorem cache_transparent :
    forall (F : N -> N) (loads_ok : N -> bool) (ok : nat -> bool) (calls : list (N * bool)) (st : dstate),
    (forall k : nat, ok k = true) ->
    locked st = false ->
    SegmentOps_Proofs.cache_inv F loads_ok (cache st) ->
    dictionary_results F loads_ok ok st calls = dictionary_results_nocache F loads_ok ok st calls.
Proof. exact @SegmentOps_Proofs.cache_transparent. Qed.
Print Assumptions cache_transparent.

(* regression of the method: with the pinned version the second call blocks forever *)
Theorem dictionary_prefix_blocks :
    forall (F : N -> N) (loads_ok : N -> bool),
    exists (ok : nat -> bool) (calls : list (N * bool)),
    length calls = 2%nat /\
    map snd (dictionary_trace F loads_ok ok false ds_init calls) = [Err; Block] /\
    map (fun sr : dstate * result (option N) => locked (fst sr))
    (dictionary_trace F loads_ok ok false ds_init calls) = [true; true] /\
    map snd (dictionary_trace F loads_ok ok true ds_init calls) = [Err; Err] /\
    map (fun sr : dstate * result (option N) => locked (fst sr))
    (dictionary_trace F loads_ok ok true ds_init calls) = [false; false].
Proof. exact @SegmentOps_Proofs.dictionary_prefix_blocks. Qed.
Print Assumptions dictionary_prefix_blocks.

(* the doc-value reader under an ARBITRARY storage oracle (the load overwrites the cached header entry by entry; a failed read returns with the state as it is): every visit of every finite sequence returns an error or exactly the fault-free answer; never a panic, never another answer *)
Theorem dvf_admissible :
    forall (field : bytes) (numDocs : N) (es : list (N * list bytes)) (ok : oracle) 
    (k0 : nat) (visits : list N),
    numDocs <= two64 ->
    DocValues_Proofs.wf_entries numDocs es ->
    Forall (fun n : N => n < numDocs) visits ->
    Forall2
    (fun (n : N) (o : outcome (list (bytes * bytes))) =>
    o = OErr \/ o = OOk (DocValues_Proofs.spec_dv field es n)) visits
    (dvf_run ok
    (dvf_open (dv_chunks (DocValues_Proofs.nchunks_for numDocs) (DocValues_Proofs.enc_entries es)) k0)
    field visits).
Proof. exact @Faults_Proofs.dvf_admissible. Qed.
Print Assumptions dvf_admissible.

(* the same with sort.Search as Go executes it (binary search) *)
Theorem dvf_admissible_bin :
    forall (field : bytes) (numDocs : N) (es : list (N * list bytes)) (ok : oracle) 
    (k0 : nat) (visits : list N),
    numDocs <= two64 ->
    DocValues_Proofs.wf_entries numDocs es ->
    Forall (fun n : N => n < numDocs) visits ->
    Forall2
    (fun (n : N) (o : outcome (list (bytes * bytes))) =>
    o = OErr \/ o = OOk (DocValues_Proofs.spec_dv field es n)) visits
    (dvf_run_with (dvf_visit_bin ok)
    (dvf_open (dv_chunks (DocValues_Proofs.nchunks_for numDocs) (DocValues_Proofs.enc_entries es)) k0)
    field visits).
Proof. exact @Faults_Proofs.dvf_admissible_bin. Qed.
Print Assumptions dvf_admissible_bin.

(* regression of the method (finding D15): the pre-fix reader, with chunk 1 cached and the load of chunk 0 failing inside its header, answers a chunk-1 document with other documents' bytes, without an error, under a storage that keeps failing *)
Theorem dvf_prefix_refuted :
    exists
    (ok : oracle) (field : bytes) (numDocs : N) (es : list (N * list bytes)) 
    (n : N) (wrong : list (bytes * bytes)),
    monotone ok /\
    numDocs <= two64 /\
    DocValues_Proofs.wf_entries numDocs es /\
    n < numDocs /\
    dvf_run_prefix ok
    (dvf_open (dv_chunks (DocValues_Proofs.nchunks_for numDocs) (DocValues_Proofs.enc_entries es)) 0)
    field [1024; 0; n] = [OOk (DocValues_Proofs.spec_dv field es 1024); OErr; OOk wrong] /\
    wrong <> [] /\
    wrong <> DocValues_Proofs.spec_dv field es n /\
    dvf_run ok
    (dvf_open (dv_chunks (DocValues_Proofs.nchunks_for numDocs) (DocValues_Proofs.enc_entries es)) 0)
    field [1024; 0; n] = [OOk (DocValues_Proofs.spec_dv field es 1024); OErr; OErr].
Proof. exact @Faults_Proofs.dvf_prefix_refuted. Qed.
Print Assumptions dvf_prefix_refuted.

Theorem dvf_prefix_panics :
    dvf_run_prefix (fails_from 9)
    (dvf_open
    (dv_chunks (DocValues_Proofs.nchunks_for 1026) (DocValues_Proofs.enc_entries Faults_Proofs.y_es))
    0) fx_field [1024; 0; 1025] =
    [OOk (DocValues_Proofs.spec_dv fx_field Faults_Proofs.y_es 1024); OErr; OPanic] /\
    dvf_run (fails_from 9)
    (dvf_open
    (dv_chunks (DocValues_Proofs.nchunks_for 1026) (DocValues_Proofs.enc_entries Faults_Proofs.y_es))
    0) fx_field [1024; 0; 1025] =
    [OOk (DocValues_Proofs.spec_dv fx_field Faults_Proofs.y_es 1024); OErr; OErr].
Proof. exact @Faults_Proofs.dvf_prefix_panics. Qed.
Print Assumptions dvf_prefix_panics.

(* the postings iterator: after any failed chunk load the next call reloads instead of trusting a half-loaded pair of readers *)
Theorem itf_retry_safe :
    forall (ok : oracle) (s : ItF) (c : N) (s1 : ItF),
    itf_loadChunk ok s c = FErr s1 ->
    it_fn (if_it s) = true ->
    need_load (if_it s) c = true ->
    need_load (if_it s1) c = true /\
    it_cur (if_it s1) = it_cur (if_it s) /\
    it_actual (if_it s1) = it_actual (if_it s) /\
    it_all (if_it s1) = it_all (if_it s) /\ it_lr (if_it s1) = it_lr (if_it s).
Proof. exact @Faults_Proofs.itf_retry_safe. Qed.
Print Assumptions itf_retry_safe.

(* under a storage that keeps failing once it has failed: a prefix of the specified postings, then only errors (or the end); never a panic *)
Theorem itf_monotone_admissible :
    forall (fields : list bytes) (ps : list EPosting) (cs : N) (total : nat) (inclLocs : bool)
    (old : option It) (ok : oracle) (k0 n : nat),
    Iterator_Proofs.wf_postings (length fields) ps ->
    0 < cs ->
    (forall p : EPosting, In p ps -> (N.to_nat (ep_doc p / cs) < total)%nat) ->
    monotone ok ->
    let spec :=
    Iterator_Proofs.spec_out true inclLocs (map (Iterator_Proofs.resolve_posting fields) ps)
    (repeat INext n) in
    let run :=
    itf_run ok {| if_it := it_init (encode_gen cs total ps) None true inclLocs fields old; if_k := k0 |}
    (repeat INext n) in
    exists (j : nat) (tail : list (outcome (option APosting))),
    run = map OOk (firstn j spec) ++ tail /\ Forall Faults_Proofs.quiet tail /\ length run = n.
Proof. exact @Faults_Proofs.itf_monotone_admissible. Qed.
Print Assumptions itf_monotone_admissible.

(* regression of the method (finding D14): without forgetting the freq/norm chunk the second Next panics *)
Theorem itf_prefix_refuted :
    exists (ok : oracle) (i : It),
    monotone ok /\
    ok 0%nat = true /\
    ok 1%nat = false /\
    (exists s1 : ItF,
    itf_loadChunk_prefix ok {| if_it := i; if_k := 0 |} 0 = FErr s1 /\ need_load (if_it s1) 0 = false) /\
    itf_run_prefix ok {| if_it := i; if_k := 0 |} [INext; INext] = [OErr; OPanic] /\
    itf_run ok {| if_it := i; if_k := 0 |} [INext; INext; INext; INext] = [OErr; OErr; OErr; OOk None].
Proof. exact @Faults_Proofs.itf_prefix_refuted. Qed.
Print Assumptions itf_prefix_refuted.

(* outside the property's fault model: after a TRANSIENT failure (the storage recovers) the iterator has already consumed the failed posting's number and delivers the following documents with shifted data; recorded as an observation, see DESIGN.md section 7 *)
Theorem itf_transient_wrong_posting :
    itf_run (fails_only_at 0) {| if_it := Faults_Proofs.w_it; if_k := 0 |} [INext; INext] =
    [OErr; OOk (Some (1, (2, (7, [([102], (1, (0, 3))); ([102], (4, (10, 13)))]))))] /\
    nth 1
    (Iterator_Proofs.spec_out true true
    (map (Iterator_Proofs.resolve_posting Faults_Proofs.w_fields) Faults_Proofs.w_ps) [
    INext; INext]) None = Some (1, (1, (9, [([102], (2, (5, 8)))]))) /\
    itf_run (fails_only_at 1) {| if_it := Faults_Proofs.w_it; if_k := 0 |} [INext; INext] =
    [OErr; OOk (Some (1, (2, (7, [([102], (1, (0, 3))); ([102], (4, (10, 13)))]))))].
Proof. exact @Faults_Proofs.itf_transient_wrong_posting. Qed.
Print Assumptions itf_transient_wrong_posting.

(* C19 - A failed storage read is reported and never wedges the segment
   Property theorems only: each statement is given in full and closed by `exact`;
   Print Assumptions follows every theorem.  run/stuck: the path semantics of lock skeletons. The skeleton of every mutex-touching function of /repo is regenerated on each run and must satisfy `balanced` (coq/gentie/Tie_locks.v); balanced_sound then gives the property for every path, including every error return. *)

From Coq Require Import List NArith Bool Sorting Permutation.
From Ice Require Import Base Lock Spec Dict SegmentOps.
From IceProofs Require Lock_Proofs SegmentOps_Proofs.
Import ListNotations.
Open Scope N_scope.

(* the checker enumerates every outcome of every path and rejects paths that would block or unlock a free mutex *)
Theorem exec_sound :
    forall (s : skel) (st : lstate) (outs : list (kind * lstate)),
    exec s st = Some outs ->
    (forall (k : kind) (st' : lstate), Lock_Proofs.run s st k st' -> In (k, st') outs) /\
    ~ Lock_Proofs.stuck s st.
Proof. exact @Lock_Proofs.exec_sound. Qed.
Print Assumptions exec_sound.

(* an accepted skeleton never blocks on its own mutex and releases it exactly once on every path, including every early return *)
Theorem balanced_sound :
    forall s : skel,
    balanced s = true ->
    ~ Lock_Proofs.stuck s {| held := false; deferred := false |} /\
    (forall (k : kind) (st' : lstate),
    Lock_Proofs.run s {| held := false; deferred := false |} k st' -> exit_ok st' = true).
Proof. exact @Lock_Proofs.balanced_sound. Qed.
Print Assumptions balanced_sound.

Theorem exit_ok_released :
    forall st : lstate, exit_ok st = true -> released st = true.
Proof. exact @Lock_Proofs.exit_ok_released. Qed.
Print Assumptions exit_ok_released.

(* non-vacuity: the repaired Segment.dictionary is accepted *)
Example dictionary_fixed_balanced :
    balanced Lock_Proofs.skel_dictionary_fixed = true.
Proof. exact @Lock_Proofs.dictionary_fixed_balanced. Qed.
Print Assumptions dictionary_fixed_balanced.

(* regression of the method: the pinned Segment.dictionary (two error returns under the lock) is refuted with an explicit path that returns holding the mutex *)
Theorem dictionary_prefix_refuted :
    balanced Lock_Proofs.skel_dictionary_prefix = false /\
    (exists st' : lstate,
    Lock_Proofs.run Lock_Proofs.skel_dictionary_prefix {| held := false; deferred := false |} Ret st' /\
    held st' = true /\ deferred st' = false).
Proof. exact @Lock_Proofs.dictionary_prefix_refuted. Qed.
Print Assumptions dictionary_prefix_refuted.

(* the hand model of Segment.dictionary with its mutex and FST cache under an ARBITRARY storage oracle: after every call of every finite sequence the mutex is free, no call blocks or panics, each returns an error or the right dictionary, and the cache only ever holds correctly loaded FSTs *)
Theorem dict_never_blocks :
    forall (F : N -> N) (loads_ok : N -> bool) (ok : nat -> bool) (calls : list (N * bool)) (st : dstate),
    locked st = false ->
    SegmentOps_Proofs.cache_inv F loads_ok (cache st) ->
    let tr := dictionary_trace F loads_ok ok true st calls in
    Forall (SegmentOps_Proofs.step_ok F loads_ok) tr /\
    Forall2 (SegmentOps_Proofs.call_ok F) calls (map snd tr) /\
    locked (SegmentOps_Proofs.final_state st tr) = false /\
    SegmentOps_Proofs.cache_inv F loads_ok (cache (SegmentOps_Proofs.final_state st tr)) /\
    (forall k v : N,
    fsts_get (cache st) k = Some v -> fsts_get (cache (SegmentOps_Proofs.final_state st tr)) k = Some v).
Proof. exact @SegmentOps_Proofs.dict_never_blocks. Qed.
Print Assumptions dict_never_blocks.

(* a warm cache serves its field without touching the failing storage *)
Theorem cached_call_no_read :
    forall (F : N -> N) (loads_ok : N -> bool) (ok : nat -> bool) (st : dstate) (id v : N),
    locked st = false ->
    SegmentOps_Proofs.cache_inv F loads_ok (cache st) ->
    fsts_get (cache st) id = Some v -> dictionary_call F loads_ok ok st id true = (st, Ok (Some (F id))).
Proof. exact @SegmentOps_Proofs.cached_call_no_read. Qed.
Print Assumptions cached_call_no_read.

(* the cache is observationally transparent *)
Theorem cache_transparent :
    forall (F : N -> N) (loads_ok : N -> bool) (ok : nat -> bool) (calls : list (N * bool)) (st : dstate),
    (forall k : nat, ok k = true) ->
    locked st = false ->
    SegmentOps_Proofs.cache_inv F loads_ok (cache st) ->
    dictionary_results F loads_ok ok st calls = dictionary_results_nocache F loads_ok ok st calls.
Proof. exact @SegmentOps_Proofs.cache_transparent. Qed.
Print Assumptions cache_transparent.

(* regression of the method: with the pinned version the second call blocks forever *)
Theorem dictionary_prefix_blocks :
    forall (F : N -> N) (loads_ok : N -> bool),
    exists (ok : nat -> bool) (calls : list (N * bool)),
    length calls = 2%nat /\
    map snd (dictionary_trace F loads_ok ok false ds_init calls) = [Err; Block] /\
    map (fun sr : dstate * result (option N) => locked (fst sr))
    (dictionary_trace F loads_ok ok false ds_init calls) = [true; true] /\
    map snd (dictionary_trace F loads_ok ok true ds_init calls) = [Err; Err] /\
    map (fun sr : dstate * result (option N) => locked (fst sr))
    (dictionary_trace F loads_ok ok true ds_init calls) = [false; false].
Proof. exact @SegmentOps_Proofs.dictionary_prefix_blocks. Qed.
Print Assumptions dictionary_prefix_blocks.

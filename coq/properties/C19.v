(* C19 - A failed storage read is reported and never wedges the segment
   Property theorems only: each statement is given in full and closed by `exact`;
   Print Assumptions follows every theorem.  run/stuck: the path semantics of lock skeletons. The skeleton of every mutex-touching function of /repo is regenerated on each run and must satisfy `balanced` (coq/gentie/Tie_locks.v); balanced_sound then gives the property for every path, including every error return. *)

From Coq Require Import List NArith Bool Sorting Permutation.
From Ice Require Import Base Lock.
From IceProofs Require Lock_Proofs.
Import ListNotations.
Open Scope N_scope.

(* the checker enumerates every outcome of every path and rejects paths that would block or unlock a free mutex *)
Theorem exec_sound :
    forall (s : skel) (st : lstate) (outs : list (kind * lstate)),
    exec s st = Some outs ->
    (forall (k : kind) (st' : lstate), Lock_Proofs.run s st k st' -> In (k, st') outs) /\
    ~ Lock_Proofs.stuck s st.
Proof. exact @Lock_Proofs.exec_sound. Qed.
Print Assumptions exec_sound.

(* an accepted skeleton never blocks on its own mutex and releases it exactly once on every path, including every early return *)
Theorem balanced_sound :
    forall s : skel,
    balanced s = true ->
    ~ Lock_Proofs.stuck s {| held := false; deferred := false |} /\
    (forall (k : kind) (st' : lstate),
    Lock_Proofs.run s {| held := false; deferred := false |} k st' -> exit_ok st' = true).
Proof. exact @Lock_Proofs.balanced_sound. Qed.
Print Assumptions balanced_sound.

Theorem exit_ok_released :
    forall st : lstate, exit_ok st = true -> released st = true.
Proof. exact @Lock_Proofs.exit_ok_released. Qed.
Print Assumptions exit_ok_released.

(* non-vacuity: the repaired Segment.dictionary is accepted *)
Example dictionary_fixed_balanced :
    balanced Lock_Proofs.skel_dictionary_fixed = true.
Proof. exact @Lock_Proofs.dictionary_fixed_balanced. Qed.
Print Assumptions dictionary_fixed_balanced.

(* regression of the method: the pinned Segment.dictionary (two error returns under the lock) is refuted with an explicit path that returns holding the mutex *)
Theorem dictionary_prefix_refuted :
    balanced Lock_Proofs.skel_dictionary_prefix = false /\
    (exists st' : lstate,
    Lock_Proofs.run Lock_Proofs.skel_dictionary_prefix {| held := false; deferred := false |} Ret st' /\
    held st' = true /\ deferred st' = false).
Proof. exact @Lock_Proofs.dictionary_prefix_refuted. Qed.
Print Assumptions dictionary_prefix_refuted.

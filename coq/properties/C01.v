(* C01 - A built segment returns exactly the postings its documents imply
   Property theorems only: each statement is given in full and closed by `exact`;
   Print Assumptions follows every theorem.  matching_terms f t doc = the input terms of doc in field f with bytes t, in input order; implied_freq / implied_locs / implied_norm are their summed frequency, concatenated resolved locations and the norm of the summed field length. *)

From Coq Require Import List NArith Bool Sorting Permutation.
From Ice Require Import Base Spec.
From IceProofs Require Build_Proofs Sort_Proofs.
Import ListNotations.
Open Scope N_scope.

(* documents are numbered 0..n-1 *)
Theorem build_count :
    forall (norm : bytes -> N -> N) (b : Batch), o_count (abs_of_batch norm b) = lenN b.
Proof. exact Build_Proofs.build_count. Qed.
Print Assumptions build_count.

(* the field list is _id followed by the remaining field names in sorted order *)
Theorem build_fields :
    forall (norm : bytes -> N -> N) (b : Batch),
    o_fields (abs_of_batch norm b) = field_list (batch_field_names b).
Proof. exact Build_Proofs.build_fields. Qed.
Print Assumptions build_fields.

(* no field the batch does not imply *)
Theorem build_fields_In :
    forall (norm : bytes -> N -> N) (b : Batch) (f : bytes),
    In f (o_fields (abs_of_batch norm b)) <->
    f = id_name \/ (exists (d : Doc) (fld : Field), In d b /\ In fld d /\ f_name fld = f).
Proof. exact Build_Proofs.build_fields_In. Qed.
Print Assumptions build_fields_In.

(* for every field and term: exactly the documents containing the term, each with the summed frequency, the norm of the field's total length and the locations in input order with their field names *)
Theorem build_postings :
    forall (norm : bytes -> N -> N) (b : Batch) (f t : bytes),
    o_postings (abs_of_batch norm b) f t =
    flat_map'
    (fun '(n, doc) =>
    match Build_Proofs.matching_terms f t doc with
    | [] => []
    | _ :: _ =>
    [(n,
    (Build_Proofs.implied_freq f t doc,
    (Build_Proofs.implied_norm norm f doc, Build_Proofs.implied_locs f t doc)))]
    end) (number_from 0 b).
Proof. exact Build_Proofs.build_postings. Qed.
Print Assumptions build_postings.

(* in ascending document order *)
Theorem build_postings_ascending :
    forall (norm : bytes -> N -> N) (b : Batch) (f t : bytes),
    StronglySorted (fun p q : APosting => fst p < fst q) (o_postings (abs_of_batch norm b) f t).
Proof. exact Build_Proofs.build_postings_ascending. Qed.
Print Assumptions build_postings_ascending.

(* no term the batch does not imply *)
Theorem build_terms :
    forall (norm : bytes -> N -> N) (b : Batch) (f t : bytes),
    In t (o_terms (abs_of_batch norm b) f) <->
    (exists doc : Doc, In doc b /\ Build_Proofs.matching_terms f t doc <> []).
Proof. exact Build_Proofs.build_terms. Qed.
Print Assumptions build_terms.

Theorem build_terms_sorted :
    forall (norm : bytes -> N -> N) (b : Batch) (f : bytes),
    Sort_Proofs.strict_sorted_bytes (o_terms (abs_of_batch norm b) f).
Proof. exact Build_Proofs.build_terms_sorted. Qed.
Print Assumptions build_terms_sorted.

(* the per-document roll-up of a repeated field: frequencies summed, locations concatenated in input order *)
Theorem roll_up_lookup :
    forall (fname t : bytes) (insts : list Field),
    find (fun at_ : bytes * (N * list ALoc) => beq (fst at_) t) (roll_up fname insts) =
    match filter (fun tm : Term => beq (t_bytes tm) t) (flat_map' f_terms insts) with
    | [] => None
    | t0 :: l =>
    let ms := t0 :: l in
    Some
    (t, (sumN (map t_freq ms), flat_map' (fun tm : Term => map (resolve_loc fname) (t_locs tm)) ms))
    end.
Proof. exact Build_Proofs.roll_up_lookup. Qed.
Print Assumptions roll_up_lookup.

Theorem roll_up_keys_sorted :
    forall (fname : bytes) (insts : list Field),
    Sort_Proofs.strict_sorted_bytes (map fst (roll_up fname insts)).
Proof. exact Build_Proofs.roll_up_keys_sorted. Qed.
Print Assumptions roll_up_keys_sorted.

Theorem build_stored :
    forall (norm : bytes -> N -> N) (b : Batch) (n : nat) (doc : Doc),
    nth_error b n = Some doc ->
    o_stored (abs_of_batch norm b) (N.of_nat n) = abs_stored (field_list (batch_field_names b)) doc.
Proof. exact Build_Proofs.build_stored. Qed.
Print Assumptions build_stored.

Theorem build_stored_out_of_range :
    forall (norm : bytes -> N -> N) (b : Batch) (n : N),
    lenN b <= n -> o_stored (abs_of_batch norm b) n = [].
Proof. exact Build_Proofs.build_stored_out_of_range. Qed.
Print Assumptions build_stored_out_of_range.

(* non-vacuity: repeated field, shared term, a location naming another field *)
Example build_postings_example :
    o_postings (abs_of_batch Build_Proofs.ex_norm Build_Proofs.ex_batch) Build_Proofs.ex_title
    Build_Proofs.ex_cat =
    [(1,
    (5,
    (6,
    [(Build_Proofs.ex_title, (1, (0, 3))); (Build_Proofs.ex_body, (2, (4, 7)));
    (Build_Proofs.ex_title, (5, (10, 13))); (Build_Proofs.ex_title, (7, (20, 23)))])))] /\
    o_postings (abs_of_batch Build_Proofs.ex_norm Build_Proofs.ex_batch) Build_Proofs.ex_title
    Build_Proofs.ex_dog = [(0, (1, (1, [(Build_Proofs.ex_title, (1, (0, 3)))]))); (1, (1, (6, [])))] /\
    o_fields (abs_of_batch Build_Proofs.ex_norm Build_Proofs.ex_batch) =
    [id_name; Build_Proofs.ex_body; Build_Proofs.ex_title] /\
    o_stats (abs_of_batch Build_Proofs.ex_norm Build_Proofs.ex_batch) Build_Proofs.ex_title = (2, (2, 7)).
Proof. exact Build_Proofs.build_postings_example. Qed.
Print Assumptions build_postings_example.
